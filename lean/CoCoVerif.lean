import CoCoVerif.Model.Basic
import CoCoVerif.Model.Cassette
import CoCoVerif.Spec.Tape
import CoCoVerif.Lemmas.Cassette
import CoCoVerif.Props.C14
import CoCoVerif.Props.C06
