/-
Driver.lean — JSON-lines protocol: one request per line on stdin, one canonical reply per line on
stdout.  Runs the executable model (`model.*` operations) and the executable specs (`spec.*`).
Used only by the correspondence check and the failing-input search, never by a theorem.
-/
import Lean.Data.Json
import CoCoVerif.Model.Cassette
import CoCoVerif.Spec.Tape
import CoCoVerif.Model.Disk
import CoCoVerif.Spec.DiskBasic
import CoCoVerif.Model.Program
import CoCoVerif.Spec.MC6809
import CoCoVerif.Model.VirtualFile

open Lean CoCo

namespace Drv

def hexDigit (n : Nat) : Char :=
  if n < 10 then Char.ofNat (48 + n) else Char.ofNat (87 + n)

def toHex (bs : List Nat) : String :=
  String.ofList (bs.foldr (fun b acc => hexDigit ((b / 16) % 16) :: hexDigit (b % 16) :: acc) [])

def hexVal (c : Char) : Nat :=
  let n := c.toNat
  if 48 ≤ n ∧ n ≤ 57 then n - 48
  else if 97 ≤ n ∧ n ≤ 102 then n - 87
  else if 65 ≤ n ∧ n ≤ 70 then n - 55
  else 0

def ofHexAux : List Char → List Nat → List Nat
  | a :: b :: r, acc => ofHexAux r ((hexVal a * 16 + hexVal b) :: acc)
  | _, acc => acc.reverse

def ofHex (s : String) : List Nat := ofHexAux s.toList []

def getStr (j : Json) (k : String) : String := (j.getObjValAs? String k).toOption.getD ""
def getNat (j : Json) (k : String) : Nat := (j.getObjValAs? Nat k).toOption.getD 0
def getBool (j : Json) (k : String) : Bool := (j.getObjValAs? Bool k).toOption.getD false
def getArr (j : Json) (k : String) : Array Json :=
  match j.getObjVal? k with
  | .ok (.arr a) => a
  | _ => #[]
def getNats (j : Json) (k : String) : List Nat :=
  (getArr j k).toList.map (fun x => (x.getNat?).toOption.getD 0)

def natsJson (l : List Nat) : Json := Json.arr (l.map (fun (n : Nat) => Json.num (JsonNumber.fromNat n))).toArray

def cfileOfJson (j : Json) : CFile :=
  { name := getNats j "name", ext := getNats j "ext", ftype := getNat j "ftype", dtype := getNat j "dtype",
    gaps := getNat j "gaps", load := getNat j "load", exec := getNat j "exec", data := ofHex (getStr j "data") }

def cfileToJson (f : CFile) : Json :=
  Json.mkObj [("name", natsJson f.name), ("ext", natsJson f.ext), ("ftype", f.ftype), ("dtype", f.dtype),
    ("gaps", f.gaps), ("load", f.load), ("exec", f.exec), ("data", toHex f.data)]

def tapeFileToJson (f : Spec.Tape.File) : Json :=
  Json.mkObj [("name", natsJson f.name), ("ftype", f.ftype), ("dtype", f.dtype),
    ("gaps", f.gap), ("load", f.load), ("exec", f.exec), ("data", toHex f.data)]

def outcomeJson {α} (o : Outcome α) (f : α → List (String × Json)) : List (String × Json) :=
  match o with
  | .ok a => ("k", "ok") :: f a
  | .diag => [("k", "diag")]
  | .internal => [("k", "internal")]
  | .diverged => [("k", "diverged")]

def hash64 (bs : List Nat) : Nat :=
  bs.foldl (fun h b => (h * 1099511628211 + b + 1) % 18446744073709551616) 14695981039346656037

/-- an image given as a fill byte plus patches `[[offset, "hex"], ...]`, or directly as "buf" hex -/
def imgOfJson (j : Json) : List Nat :=
  match j.getObjVal? "img" with
  | .ok im =>
    let size := getNat im "size"
    let fill := getNat im "fill"
    let base : Array Nat := Array.replicate size fill
    let patched := (getArr im "patches").foldl (fun (a : Array Nat) p =>
      match p with
      | .arr #[o, h] =>
        let off := (o.getNat?).toOption.getD 0
        let bs := ofHex ((h.getStr?).toOption.getD "")
        (bs.foldl (fun (acc : Array Nat × Nat) b => (acc.1.setIfInBounds acc.2 b, acc.2 + 1)) (a, off)).1
      | _ => a) base
    patched.toList
  | .error _ => ofHex (getStr j "buf")

def orderOfJson (j : Json) : List Nat :=
  match j.getObjVal? "order" with
  | .ok (.arr a) => a.toList.map (fun x => (x.getNat?).toOption.getD 0)
  | _ => Gen.granuleFillOrder

def dfileToJson (f : Spec.DiskBasic.DFile) : Json :=
  Json.mkObj [("name", natsJson f.name), ("ext", natsJson f.ext), ("ftype", f.ftype), ("dtype", f.ascii),
    ("load", f.load), ("exec", f.exec), ("data", toHex f.data)]

open CoCo.Asm in
partial def renderValue : Asm.Value → String
  | .none => "NONE"
  | .pyNone => "PYNONE"
  | .numeric i h m n => s!"NUMERIC int={i} hint={match h with | some x => toString x | none => "None"} mode={m.name} neg={n} hex={String.ofList (numHex i h n)} hexlen={numHexLen i h}"
  | .symbol nm m => s!"SYMBOL name={String.ofList nm} mode={m.name}"
  | .address i m => s!"ADDRESS idx={i} mode={m.name}"
  | .expr l r op m a => s!"EXPRESSION op={op} mode={m.name} addr={a} L[{renderValue l}] R[{renderValue r}]"
  | .leftRight l r m => s!"LEFT_RIGHT l={String.ofList l} r={String.ofList r} mode={m.name}"
  | .str s => s!"STRING {String.ofList s}"
  | .multiByte hs => s!"MULTI_BYTE {String.ofList hs.flatten}"
  | .multiWord hs => s!"MULTI_WORD {String.ofList hs.flatten}"

def optStr (o : Option (List Char)) : Json := match o with | some s => Json.str (String.ofList s) | none => Json.null
def optHexBytes (o : Option (List Nat)) : Json := match o with | some b => Json.str (toHex b) | none => Json.null

open CoCo.Asm in
def stmtJson (s : Asm.Stmt) : Json :=
  let hexcol : Option (List Char) := do
    let a ← s.pkg.opCode.hex?
    let b ← s.pkg.postByte.hex?
    let c ← s.pkg.additional.hex?
    pure (a ++ b ++ c)
  Json.mkObj [("addr", optStr (s.pkg.address.hex? 4)), ("hex", optStr hexcol), ("size", s.pkg.size),
    ("bytes", optHexBytes (stmtBytes s)), ("label", String.ofList s.label), ("mn", String.ofList s.mnemonic),
    ("opnd", String.ofList s.origText), ("comment", String.ofList s.comment)]

open CoCo.Asm in
def asmProg (j : Json) : List (String × Json) :=
  let lines := (getArr j "lines").toList.map (fun x => ((x.getStr?).toOption.getD "").toList)
  let files : Asm.Files := match j.getObjVal? "files" with
    | .ok (.obj kvs) => kvs.toList.map (fun (k, v) => (k.toList, (match v with | .arr a => a.toList.map (fun x => ((x.getStr?).toOption.getD "").toList) | _ => [])))
    | _ => []
  outcomeJson (assemble files lines) (fun a =>
    [("stmts", Json.arr (a.stmts.map stmtJson).toArray),
     ("symtab", Json.arr (a.symtab.map (fun (k, v) => Json.arr #[Json.str (String.ofList k), optStr v.hex?])).toArray),
     ("origin", optStr a.origin.hex?),
     ("originInt", match a.origin.int? with | some n => Json.num (JsonNumber.fromNat n) | none => Json.null),
     ("name", optStr a.name),
     ("image", optHexBytes a.image),
     ("listing", Json.arr (a.stmts.map (fun s => optStr s.listing)).toArray),
     ("symlines", match symtabLines a.symtab with | some ls => Json.arr (ls.map (fun l => Json.str (String.ofList l))).toArray | none => Json.null)])

def intJson (i : Int) : Json := Json.num (JsonNumber.fromInt i)
def natJ (n : Nat) : Json := Json.num (JsonNumber.fromNat n)

open CoCo.Spec.MC6809 in
def idxJson : Idx → List (String × Json)
  | .off reg off ind w => [("k", "off"), ("reg", natJ reg), ("off", intJson off), ("ind", ind), ("w", natJ w)]
  | .inc1 reg => [("k", "inc1"), ("reg", natJ reg), ("ind", false)]
  | .inc2 reg ind => [("k", "inc2"), ("reg", natJ reg), ("ind", ind)]
  | .dec1 reg => [("k", "dec1"), ("reg", natJ reg), ("ind", false)]
  | .dec2 reg ind => [("k", "dec2"), ("reg", natJ reg), ("ind", ind)]
  | .acc a reg ind => [("k", "acc"), ("acc", natJ a), ("reg", natJ reg), ("ind", ind)]
  | .pcr off ind w => [("k", "pcr"), ("off", intJson off), ("ind", ind), ("w", natJ w)]
  | .extInd a => [("k", "extind"), ("addr", natJ a)]

open CoCo.Spec.MC6809 in
def operandJson : Operand → List (String × Json)
  | .none => [("mode", "inh")]
  | .imm w v => [("mode", "imm"), ("w", natJ w), ("v", natJ v)]
  | .dir a => [("mode", "dir"), ("a", natJ a)]
  | .ext a => [("mode", "ext"), ("a", natJ a)]
  | .rel w d => [("mode", "rel"), ("w", natJ w), ("d", intJson d)]
  | .idx i => ("mode", "idx") :: idxJson i
  | .pair s t => [("mode", "pair"), ("src", natJ s), ("dst", natJ t)]
  | .list m => [("mode", "list"), ("mask", natJ m)]

/-- content of a host file for a reply: hex for small files, digest + FAT + directory for disk-sized ones -/
def contentJson (b : List Nat) : Json :=
  if b.length ≥ 100000 then
    Json.mkObj [("len", natJ b.length), ("hash", natJ (hash64 b)), ("fat", Json.str (toHex ((b.drop 78592).take 256))),
      ("dir", Json.str (toHex ((b.drop 78848).take 2304)))]
  else Json.mkObj [("len", natJ b.length), ("hex", Json.str (toHex b))]

def fsOfJson (j : Json) : VF.FS :=
  match j.getObjVal? "fs" with
  | .ok (.obj kvs) => kvs.toList.map (fun (k, v) => (k.toList, imgOfJson v))
  | _ => []

def fsJson (fs : VF.FS) : Json :=
  Json.mkObj (fs.map (fun (p, b) => (String.ofList p, contentJson b)))

def kindOfStr (s : String) : Option VF.Kind :=
  if s == "cassette" then some .cassette else if s == "binary" then some .binary else if s == "disk" then some .disk else none
def kindStr : VF.Kind → String | .cassette => "cassette" | .binary => "binary" | .disk => "disk"

def optPath (j : Json) (k : String) : Option (List Char) :=
  match j.getObjVal? k with
  | .ok (.str s) => some s.toList
  | _ => none

def handle (j : Json) : List (String × Json) :=
  match getStr j "op" with
  | "vf.sniff" =>
    outcomeJson (VF.sniff (imgOfJson j)) (fun (fs, k) =>
      [("kind", Json.str (kindStr k)), ("files", Json.arr (fs.map cfileToJson).toArray)])
  | "vf.store" =>
    let fs := fsOfJson j
    let files := (getArr j "files").toList.map cfileOfJson
    match kindOfStr (getStr j "kind") with
    | none => [("k", "bad-kind")]
    | some k => outcomeJson (VF.storeTo fs (getStr j "path").toList k files (getBool j "append")) (fun fs' => [("fs", fsJson fs')])
  | "cli.asm" =>
    let args := (j.getObjVal? "args").toOption.getD Json.null
    let a : VF.AsmArgs := { toBin := optPath args "to_bin", toCas := optPath args "to_cas", toDsk := optPath args "to_dsk",
                            name := optPath args "name", append := getBool args "append" }
    let lines := (getArr j "lines").toList.map (fun x => ((x.getStr?).toOption.getD "").toList)
    let r := VF.asmMain (fsOfJson j) [] lines a
    [("exit", natJ r.exit), ("fs", fsJson r.fs), ("refused", Json.arr (r.refused.map (fun k => Json.str (kindStr k))).toArray)]
  | "cli.util" =>
    let args := (j.getObjVal? "args").toOption.getD Json.null
    let sel : Option (List (List Char)) := match args.getObjVal? "files" with
      | .ok (.arr a) => some (a.toList.map (fun x => ((x.getStr?).toOption.getD "").toList))
      | _ => none
    let a : VF.UtilArgs := { host := (getStr args "host").toList, toBin := optPath args "to_bin", toCas := optPath args "to_cas",
                             toDsk := optPath args "to_dsk", files := sel, append := getBool args "append" }
    let r := VF.utilMain (fsOfJson j) a
    [("exit", natJ r.exit), ("fs", fsJson r.fs)]
  | "spec.opmodes" =>
    let amName : Spec.MC6809.AM → String
      | .inh => "inh" | .imm8 => "imm8" | .imm16 => "imm16" | .dir => "dir" | .idx => "idx" | .ext => "ext"
      | .rel8 => "rel8" | .rel16 => "rel16" | .pair => "pair" | .list => "list"
    [("map", Json.arr (Spec.MC6809.opcodeMap.map (fun (c, op, am) => Json.arr #[natJ c, Json.str op, Json.str (amName am)])).toArray),
     ("aliases", Json.arr (Spec.MC6809.aliases.map (fun (a, b) => Json.arr #[Json.str a, Json.str b])).toArray)]
  | "spec.decode" =>
    match Spec.MC6809.decode (ofHex (getStr j "hex")) with
    | some (i, n) => [("ok", Json.bool true), ("n", natJ n), ("opn", Json.str i.op)] ++ operandJson i.operand
    | none => [("ok", false)]
  | "asm.prog" => asmProg j
  | "asm.value" =>
    match Asm.create 4 (getStr j "s").toList (getBool j "isStr") (getBool j "is16") (getBool j "defExt") with
    | .ok v => [("k", "ok"), ("v", renderValue v)]
    | .error .valueType => [("k", "ValueTypeError")]
    | .error _ => [("k", "other")]
  | "dsk.write" =>
    let fs := (getArr j "files").toList.map cfileOfJson
    let base := match j.getObjVal? "img" with
      | .ok _ => imgOfJson j
      | .error _ => Dsk.blank
    outcomeJson (Dsk.addFiles (orderOfJson j) base fs) (fun b =>
      [("hash", Json.num (JsonNumber.fromNat (hash64 b))), ("len", Json.num (JsonNumber.fromNat b.length)),
       ("fat", Json.str (toHex ((b.drop 78592).take 256))),
       ("dir", Json.str (toHex ((b.drop 78848).take 2304)))] ++
      (if getBool j "full" then [("buf", Json.str (toHex b))] else []))
  | "dsk.list" =>
    outcomeJson (Dsk.list (imgOfJson j)) (fun fs => [("files", Json.arr (fs.map cfileToJson).toArray)])
  | "dsk.rt" =>
    let fs := (getArr j "files").toList.map cfileOfJson
    match Dsk.write (orderOfJson j) fs with
    | .ok b => ("wk", "ok") :: outcomeJson (Dsk.list b) (fun fs => [("files", Json.arr (fs.map cfileToJson).toArray)])
    | o => [("wk", o.kind), ("k", "none")]
  | "dsk.geom" =>
    let lo := getNat j "lo"
    let hi := getNat j "hi"
    let row (pre post : Nat) := natsJson ((List.range (hi - lo)).flatMap (fun i =>
      [Dsk.granulesNeeded (lo + i) pre post, Dsk.lastSectorBytes (lo + i) pre post, Dsk.lastGranuleSectors (lo + i) pre post]))
    [("ml", row 5 5), ("basic", row 3 0), ("ascii", row 0 0),
     ("sectors", natsJson ((List.range (hi - lo)).map (fun i => Dsk.sectorsNeeded (lo + i))))]
  | "dsk.seek" => [("seek", natsJson ((List.range (getNat j "n")).map Dsk.seek))]
  | "spec.fsck" =>
    let img := imgOfJson j
    let bad := Spec.DiskBasic.failedClauses img
    [("ok", bad.isEmpty), ("failed", Json.arr (bad.map Json.str).toArray),
     ("free", Spec.DiskBasic.freeGranules img), ("slots", Spec.DiskBasic.freeSlots img),
     ("chains", Json.arr (((Spec.DiskBasic.liveSlots img).filterMap (Spec.DiskBasic.chainOf img)).map (fun c => natsJson c.1)).toArray)]
  | "spec.dskread" =>
    match Spec.DiskBasic.read (imgOfJson j) with
    | some fs => [("ok", true), ("files", Json.arr (fs.map dfileToJson).toArray)]
    | none => [("ok", false)]
  | "cas.write" =>
    let fs := (getArr j "files").toList.map cfileOfJson
    [("k", "ok"), ("buf", toHex (Cas.write fs))]
  | "cas.list" =>
    outcomeJson (Cas.list (imgOfJson j))
      (fun fs => [("files", Json.arr (fs.map cfileToJson).toArray)])
  | "spec.tape" =>
    match Spec.Tape.parse (imgOfJson j) with
    | some fs => [("ok", true), ("files", Json.arr (fs.map tapeFileToJson).toArray)]
    | none => [("ok", false)]
  | op => [("k", "bad-op"), ("what", op)]

partial def loop (h : IO.FS.Stream) (out : IO.FS.Stream) : IO Unit := do
  let line ← h.getLine
  if line.isEmpty then return ()
  match Json.parse line with
  | .error e => out.putStrLn (Json.compress (Json.mkObj [("k", "bad-json"), ("what", e)]))
  | .ok j =>
    let id := (j.getObjVal? "id").toOption.getD Json.null
    out.putStrLn (Json.compress (Json.mkObj (("id", id) :: handle j)))
  loop h out

end Drv

def main : IO Unit := do
  let out ← IO.getStdout
  Drv.loop (← IO.getStdin) out
  out.flush
