/-
Driver.lean — JSON-lines protocol: one request per line on stdin, one canonical reply per line on
stdout.  Runs the executable model (`model.*` operations) and the executable specs (`spec.*`).
Used only by the correspondence check and the failing-input search, never by a theorem.
-/
import Lean.Data.Json
import CoCoVerif.Model.Cassette
import CoCoVerif.Spec.Tape

open Lean CoCo

namespace Drv

def hexDigit (n : Nat) : Char :=
  if n < 10 then Char.ofNat (48 + n) else Char.ofNat (87 + n)

def toHex (bs : List Nat) : String :=
  String.ofList (bs.foldr (fun b acc => hexDigit ((b / 16) % 16) :: hexDigit (b % 16) :: acc) [])

def hexVal (c : Char) : Nat :=
  let n := c.toNat
  if 48 ≤ n ∧ n ≤ 57 then n - 48
  else if 97 ≤ n ∧ n ≤ 102 then n - 87
  else if 65 ≤ n ∧ n ≤ 70 then n - 55
  else 0

def ofHexAux : List Char → List Nat → List Nat
  | a :: b :: r, acc => ofHexAux r ((hexVal a * 16 + hexVal b) :: acc)
  | _, acc => acc.reverse

def ofHex (s : String) : List Nat := ofHexAux s.toList []

def getStr (j : Json) (k : String) : String := (j.getObjValAs? String k).toOption.getD ""
def getNat (j : Json) (k : String) : Nat := (j.getObjValAs? Nat k).toOption.getD 0
def getBool (j : Json) (k : String) : Bool := (j.getObjValAs? Bool k).toOption.getD false
def getArr (j : Json) (k : String) : Array Json :=
  match j.getObjVal? k with
  | .ok (.arr a) => a
  | _ => #[]
def getNats (j : Json) (k : String) : List Nat :=
  (getArr j k).toList.map (fun x => (x.getNat?).toOption.getD 0)

def natsJson (l : List Nat) : Json := Json.arr (l.map (fun (n : Nat) => Json.num (JsonNumber.fromNat n))).toArray

def cfileOfJson (j : Json) : CFile :=
  { name := getNats j "name", ext := getNats j "ext", ftype := getNat j "ftype", dtype := getNat j "dtype",
    gaps := getNat j "gaps", load := getNat j "load", exec := getNat j "exec", data := ofHex (getStr j "data") }

def cfileToJson (f : CFile) : Json :=
  Json.mkObj [("name", natsJson f.name), ("ext", natsJson f.ext), ("ftype", f.ftype), ("dtype", f.dtype),
    ("gaps", f.gaps), ("load", f.load), ("exec", f.exec), ("data", toHex f.data)]

def tapeFileToJson (f : Spec.Tape.File) : Json :=
  Json.mkObj [("name", natsJson f.name), ("ftype", f.ftype), ("dtype", f.dtype),
    ("gaps", f.gap), ("load", f.load), ("exec", f.exec), ("data", toHex f.data)]

def outcomeJson {α} (o : Outcome α) (f : α → List (String × Json)) : List (String × Json) :=
  match o with
  | .ok a => ("k", "ok") :: f a
  | .diag => [("k", "diag")]
  | .internal => [("k", "internal")]
  | .diverged => [("k", "diverged")]

def handle (j : Json) : List (String × Json) :=
  match getStr j "op" with
  | "cas.write" =>
    let fs := (getArr j "files").toList.map cfileOfJson
    [("k", "ok"), ("buf", toHex (Cas.write fs))]
  | "cas.list" =>
    outcomeJson (Cas.list (ofHex (getStr j "buf")))
      (fun fs => [("files", Json.arr (fs.map cfileToJson).toArray)])
  | "spec.tape" =>
    match Spec.Tape.parse (ofHex (getStr j "buf")) with
    | some fs => [("ok", true), ("files", Json.arr (fs.map tapeFileToJson).toArray)]
    | none => [("ok", false)]
  | op => [("k", "bad-op"), ("what", op)]

partial def loop (h : IO.FS.Stream) (out : IO.FS.Stream) : IO Unit := do
  let line ← h.getLine
  if line.isEmpty then return ()
  match Json.parse line with
  | .error e => out.putStrLn (Json.compress (Json.mkObj [("k", "bad-json"), ("what", e)]))
  | .ok j =>
    let id := (j.getObjVal? "id").toOption.getD Json.null
    out.putStrLn (Json.compress (Json.mkObj (("id", id) :: handle j)))
  loop h out

end Drv

def main : IO Unit := do
  let out ← IO.getStdout
  Drv.loop (← IO.getStdin) out
  out.flush
