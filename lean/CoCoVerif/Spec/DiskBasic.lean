/-
Spec/DiskBasic.lean — TRUSTED specification of a structurally valid Disk BASIC image
(35 tracks x 18 sectors x 256 bytes = 161,280 bytes), written from the format description,
independently of disk.py.  Every definition is executable (the driver runs `fsck` and `read` on
the implementation's images) and every quantifier is bounded, so `Fsck img` is decidable.

  granule g (0..67): 2304 bytes at 2304*g, skipping track 17 (the directory track): +4608 for g >= 34
  allocation table : track 17 sector 2  = offsets 78592 .. 78847, entry g at 78592 + g
                     $FF free | 0..67 next granule | $C0+s last granule with s sectors used (0..9)
  directory        : track 17 sectors 3..11 = offsets 78848 .. 81151, 72 entries of 32 bytes:
                     name[8] ext[3] type asciiflag firstGranule bytesInLastSector[2] reserved[16]
                     first byte $00 (deleted) or $FF (never used) = not a live entry
-/
import CoCoVerif.Model.Basic

namespace CoCo.Spec.DiskBasic

def imageSize : Nat := 161280
def granuleSize : Nat := 2304
def fatOff : Nat := 78592
def dirOff : Nat := 78848
def dirEnd : Nat := 81152

def granuleOffset (g : Nat) : Nat := if g < 34 then 2304 * g else 2304 * g + 4608

def fatAt (img : Bytes) (g : Nat) : Nat := img.getD (fatOff + g) 0
def dirEntry (img : Bytes) (k : Nat) : Bytes := (img.drop (dirOff + 32 * k)).take 32
def live (e : Bytes) : Bool := e.getD 0 0 != 0x00 && e.getD 0 0 != 0xFF
def granuleBytes (img : Bytes) (g : Nat) : Bytes := (img.drop (granuleOffset g)).take granuleSize

def entFtype (e : Bytes) : Nat := e.getD 11 0
def entAscii (e : Bytes) : Nat := e.getD 12 0
def entFirst (e : Bytes) : Nat := e.getD 13 0
def entLastBytes (e : Bytes) : Nat := e.getD 14 0 * 256 + e.getD 15 0

/-- follow the table from `g`: fail on an entry outside 0..67 and $C0..$C9, on a revisit, or when the
fuel (68) runs out; result: the granules in chain order and the sector count of the last one -/
def walk (img : Bytes) : Nat → Nat → List Nat → Option (List Nat × Nat)
  | 0, _, _ => none
  | fuel + 1, g, vis =>
    if g ≥ 68 ∨ g ∈ vis then none
    else
      let e := fatAt img g
      if 0xC0 ≤ e ∧ e ≤ 0xC9 then some ((g :: vis).reverse, e - 0xC0)
      else walk img fuel e (g :: vis)

def liveSlots (img : Bytes) : List Nat := (List.range 72).filter (fun k => live (dirEntry img k))

def chainOf (img : Bytes) (k : Nat) : Option (List Nat × Nat) :=
  walk img 68 (entFirst (dirEntry img k)) []

/-- all granules on the chains of live entries, with multiplicity -/
def allGranules (img : Bytes) : List Nat :=
  ((liveSlots img).filterMap (chainOf img)).flatMap (·.1)

def streamOf (img : Bytes) (c : List Nat) : Bytes := (c.map (granuleBytes img)).flatten

/-- length implied by (granules in chain, sectors in last granule, bytes in last sector) -/
def impliedLength (n s b : Nat) : Nat := (n - 1) * 2304 + (if s = 0 then 0 else (s - 1) * 256 + b)

/-- machine language stream: 00 len[2] load[2] data[len] FF 00 00 exec[2], nothing after -/
def parseML (s : Bytes) : Option (Nat × Bytes × Nat) :=
  match s with
  | 0x00 :: lh :: ll :: ah :: al :: rest =>
    let len := lh * 256 + ll
    if rest.length = len + 5 then
      match rest.drop len with
      | [0xFF, 0x00, 0x00, eh, el] => some (ah * 256 + al, rest.take len, eh * 256 + el)
      | _ => none
    else none
  | _ => none

/-- tokenised BASIC stream: FF len[2] data[len], nothing after -/
def parseBasic (s : Bytes) : Option Bytes :=
  match s with
  | 0xFF :: lh :: ll :: rest => if rest.length = lh * 256 + ll then some rest else none
  | _ => none

/-- the stored stream of entry `k` (chain granules in chain order, cut to the implied length, which must not
exceed the chain's capacity) -/
def storedStream (img : Bytes) (k : Nat) : Option Bytes :=
  match chainOf img k with
  | none => none
  | some (c, s) =>
    let n := impliedLength c.length s (entLastBytes (dirEntry img k))
    if n ≤ c.length * granuleSize then some ((streamOf img c).take n) else none   -- implied length must fit the chain

def lengthOK (img : Bytes) (k : Nat) : Bool :=
  match storedStream img k with
  | none => false
  | some st =>
    let e := dirEntry img k
    if entFtype e = 0x02 then (parseML st).isSome
    else if entAscii e = 0xFF then true
    else (parseBasic st).isSome

/-- Everything outside the allocated granules, the allocation-table sector (track 17 sector 2) and the
directory sectors (track 17 sectors 3..11) is as freshly formatted.  The 68 granules tile the whole image
except track 17 (`tiling` below), so "everything else" is: every granule that is on no chain (`gs` is the
list of granules on chains), track 17 sector 1 (78336..78591) and track 17 sectors 12..18 (81152..82943). -/
def untouchedWith (img : Bytes) (gs : List Nat) : Prop :=
  (∀ g, g < 68 → g ∉ gs → granuleBytes img g = List.replicate granuleSize 0xFF) ∧
  (img.drop 78336).take 256 = List.replicate 256 0xFF ∧
  (img.drop dirEnd).take 1792 = List.replicate 1792 0xFF

def untouched (img : Bytes) : Prop := untouchedWith img (allGranules img)

theorem tiling (off : Nat) (h : off < imageSize) :
    (∃ g, g < 68 ∧ granuleOffset g ≤ off ∧ off < granuleOffset g + granuleSize) ∨ (78336 ≤ off ∧ off < 82944) := by
  unfold imageSize at h
  by_cases h1 : off < 78336
  · left; refine ⟨off / 2304, by omega, ?_, ?_⟩ <;> simp only [granuleOffset, granuleSize] <;> split <;> omega
  · by_cases h2 : off < 82944
    · right; omega
    · left; refine ⟨(off - 4608) / 2304, by omega, ?_, ?_⟩ <;> simp only [granuleOffset, granuleSize] <;> split <;> omega

/-- chains stay within granules 0..67, never revisit a granule, end in a last-granule marker $C0..$C9 -/
def chainsOK (img : Bytes) : Prop := ∀ k ∈ liveSlots img, (chainOf img k).isSome
/-- chains of different files are disjoint (and no chain repeats a granule) -/
def disjointOK (img : Bytes) : Prop := (allGranules img).Nodup
/-- every non-free table entry belongs to a chain -/
def exactOKWith (img : Bytes) (gs : List Nat) : Prop := ∀ g, g < 68 → fatAt img g ≠ 0xFF → g ∈ gs
def exactOK (img : Bytes) : Prop := exactOKWith img (allGranules img)
/-- implied length = stored stream length; machine language framing -/
def lengthsOK (img : Bytes) : Prop := ∀ k ∈ liveSlots img, lengthOK img k = true

instance (img : Bytes) : Decidable (chainsOK img) := by unfold chainsOK; exact inferInstance
instance (img : Bytes) : Decidable (disjointOK img) := by unfold disjointOK; exact inferInstance
instance (img : Bytes) (gs : List Nat) : Decidable (exactOKWith img gs) := by unfold exactOKWith; exact inferInstance
instance (img : Bytes) : Decidable (exactOK img) := by unfold exactOK; exact inferInstance
instance (img : Bytes) : Decidable (lengthsOK img) := by unfold lengthsOK; exact inferInstance
instance (img : Bytes) (gs : List Nat) : Decidable (untouchedWith img gs) := by unfold untouchedWith; exact inferInstance
instance (img : Bytes) : Decidable (untouched img) := by unfold untouched; exact inferInstance

/-- the Disk BASIC consistency check of property C08 -/
def Fsck (img : Bytes) : Prop :=
  img.length = imageSize ∧ chainsOK img ∧ disjointOK img ∧ exactOK img ∧ lengthsOK img ∧ untouched img

instance (img : Bytes) : Decidable (Fsck img) := by unfold Fsck; exact inferInstance

/-- the clauses of `Fsck` that fail on an image (diagnostics for the oracle) -/
def failedClauses (img : Bytes) : List String :=
  (if img.length = imageSize then [] else ["size"]) ++
  (if chainsOK img then [] else ["chains"]) ++
  (if disjointOK img then [] else ["disjoint"]) ++
  (if exactOK img then [] else ["exact"]) ++
  (if lengthsOK img then [] else ["length"]) ++
  (if untouched img then [] else ["untouched"])

/-- a file as the disk format knows it -/
structure DFile where
  name : Bytes          -- 8 bytes, space padded
  ext : Bytes           -- 3 bytes
  ftype : Nat
  ascii : Nat
  load : Nat            -- machine language only, else 0
  exec : Nat
  data : Bytes
deriving Repr, DecidableEq

def readSlot (img : Bytes) (k : Nat) : Option DFile :=
  let e := dirEntry img k
  match storedStream img k with
  | none => none
  | some st =>
    let mk (load exec : Nat) (data : Bytes) : DFile :=
      { name := e.take 8, ext := (e.drop 8).take 3, ftype := entFtype e, ascii := entAscii e,
        load := load, exec := exec, data := data }
    if entFtype e = 0x02 then (parseML st).map (fun (l, d, x) => mk l x d)
    else if entAscii e = 0xFF then some (mk 0 0 st)
    else (parseBasic st).map (mk 0 0)

/-- reference reader: the files of an image in directory order -/
def read (img : Bytes) : Option (List DFile) := (liveSlots img).mapM (readSlot img)

/-- number of free granules / free directory slots (C15) -/
def freeGranules (img : Bytes) : Nat := ((List.range 68).filter (fun g => fatAt img g == 0xFF)).length
def freeSlots (img : Bytes) : Nat := 72 - (liveSlots img).length

end CoCo.Spec.DiskBasic
