/-
Spec/MC6809.lean — TRUSTED: decoder of one MC6809 instruction from a byte list, written from the
datasheet (opcode map in MC6809Map.lean, indexed post-byte table below).  Arithmetic (`/`, `%`) is
used instead of bit operations so that `omega` can reason about it.

Indexed post-byte p:
  p < 128            : 5-bit offset, register (p / 32) % 4 (0 X, 1 Y, 2 U, 3 S), offset sext5 (p % 32)
  p >= 128           : register (p / 32) % 4, indirect (p / 16) % 2, mode p % 16:
     0 ,R+   1 ,R++   2 ,-R   3 ,--R   4 ,R   5 B,R   6 A,R   8 n8,R   9 n16,R   11 D,R
     12 n8,PCR   13 n16,PCR   15 [n16] (only $9F);   7, 10, 14 undefined; indirect with 0 or 2 illegal
-/
import CoCoVerif.Model.Basic
import CoCoVerif.Spec.MC6809Map

namespace CoCo.Spec.MC6809

/-- sign extension of a `bits`-bit field -/
def sext (v bits : Nat) : Int := if v ≥ 2 ^ (bits - 1) then (v : Int) - (2 ^ bits : Nat) else v

inductive Idx
  | off (reg : Nat) (off : Int) (ind : Bool) (w : Nat)      -- constant offset of width w ∈ {0, 5, 8, 16}
  | inc1 (reg : Nat)
  | inc2 (reg : Nat) (ind : Bool)
  | dec1 (reg : Nat)
  | dec2 (reg : Nat) (ind : Bool)
  | acc (a : Nat) (reg : Nat) (ind : Bool)                  -- a: 5 = B, 6 = A, 11 = D
  | pcr (off : Int) (ind : Bool) (w : Nat)
  | extInd (addr : Nat)
deriving Repr, DecidableEq

inductive Operand
  | none
  | imm (w : Nat) (v : Nat)
  | dir (a : Nat)
  | ext (a : Nat)
  | rel (w : Nat) (d : Int)
  | idx (i : Idx)
  | pair (src dst : Nat)
  | list (mask : Nat)
deriving Repr, DecidableEq

structure Instr where
  op : String
  operand : Operand
deriving Repr, DecidableEq

def opOf (mn : String) : String := ((aliases.find? (·.1 == mn)).map (·.2)).getD mn

def lookup (c : Nat) : Option (String × AM) := (opcodeMap.find? (fun e => e.1 == c)).map (·.2)

/-- decode the indexed post-byte and its offset bytes: (operand, bytes consumed) -/
def decodePostByte (b : Bytes) : Option (Idx × Nat) :=
  match b with
  | [] => none
  | p :: rest =>
    let reg := (p / 32) % 4
    if p < 128 then some (.off reg (sext (p % 32) 5) false 5, 1)
    else
      let ind := (p / 16) % 2 = 1
      let m := p % 16
      if m = 0 then (if ind then none else some (.inc1 reg, 1))
      else if m = 1 then some (.inc2 reg ind, 1)
      else if m = 2 then (if ind then none else some (.dec1 reg, 1))
      else if m = 3 then some (.dec2 reg ind, 1)
      else if m = 4 then some (.off reg 0 ind 0, 1)
      else if m = 5 ∨ m = 6 ∨ m = 11 then some (.acc m reg ind, 1)
      else if m = 8 then (match rest with | o :: _ => some (.off reg (sext o 8) ind 8, 2) | _ => none)
      else if m = 9 then (match rest with | h :: l :: _ => some (.off reg (sext (h * 256 + l) 16) ind 16, 3) | _ => none)
      else if m = 12 then (match rest with | o :: _ => some (.pcr (sext o 8) ind 8, 2) | _ => none)
      else if m = 13 then (match rest with | h :: l :: _ => some (.pcr (sext (h * 256 + l) 16) ind 16, 3) | _ => none)
      else if m = 15 then (if p = 0x9F then (match rest with | h :: l :: _ => some (.extInd (h * 256 + l), 3) | _ => none) else none)
      else none

/-- register codes of TFR/EXG: 0 D, 1 X, 2 Y, 3 U, 4 S, 5 PC (16 bit); 8 A, 9 B, 10 CC, 11 DP (8 bit) -/
def pairCodeOk (c : Nat) : Bool := c ≤ 5 || (8 ≤ c && c ≤ 11)

/-- decode one instruction at the head of `b`: the instruction and the number of bytes it occupies -/
def decode (b : Bytes) : Option (Instr × Nat) :=
  match b with
  | [] => none
  | b0 :: r0 =>
    let pre : Option (Nat × Nat × Bytes) :=
      if b0 = 0x10 ∨ b0 = 0x11 then (match r0 with | b1 :: r1 => some (b0 * 256 + b1, 2, r1) | [] => none)
      else some (b0, 1, r0)
    match pre with
    | none => none
    | some (code, n, rest) =>
      match lookup code with
      | none => none
      | some (op, mode) =>
        match mode with
        | .inh => some (⟨op, .none⟩, n)
        | .imm8 => (match rest with | v :: _ => some (⟨op, .imm 8 v⟩, n + 1) | _ => none)
        | .imm16 => (match rest with | h :: l :: _ => some (⟨op, .imm 16 (h * 256 + l)⟩, n + 2) | _ => none)
        | .dir => (match rest with | a :: _ => some (⟨op, .dir a⟩, n + 1) | _ => none)
        | .ext => (match rest with | h :: l :: _ => some (⟨op, .ext (h * 256 + l)⟩, n + 2) | _ => none)
        | .rel8 => (match rest with | d :: _ => some (⟨op, .rel 8 (sext d 8)⟩, n + 1) | _ => none)
        | .rel16 => (match rest with | h :: l :: _ => some (⟨op, .rel 16 (sext (h * 256 + l) 16)⟩, n + 2) | _ => none)
        | .idx => (match decodePostByte rest with | some (i, k) => some (⟨op, .idx i⟩, n + k) | none => none)
        | .pair =>
          (match rest with
           | p :: _ =>
             let s := p / 16
             let t := p % 16
             if pairCodeOk s && pairCodeOk t && (decide (s ≥ 8) == decide (t ≥ 8)) then some (⟨op, .pair s t⟩, n + 1) else none
           | _ => none)
        | .list => (match rest with | m :: _ => some (⟨op, .list m⟩, n + 1) | _ => none)

/-- length of the operand field of an addressing mode that has a fixed length (indexed: the post byte only) -/
def operandLen : AM → Nat
  | .inh => 0 | .imm8 => 1 | .imm16 => 2 | .dir => 1 | .idx => 1 | .ext => 2 | .rel8 => 1 | .rel16 => 2 | .pair => 1 | .list => 1

def opcodeLen (c : Nat) : Nat := if c > 0xFF then 2 else 1

end CoCo.Spec.MC6809
