/-
Spec/Tape.lean — TRUSTED specification of a well-formed CoCo tape stream, written from the
format description (property C14 / C06), independently of cassette.py.

  block   := 55 3C type len payload[len] checksum 55,  checksum = (type + len + Σ payload) mod 256
  filler  := 00* 55*           (gap, then leader; either may be empty)
  file    := filler namefile-block(15 bytes) { filler data-block(1..255 bytes) }* filler eof-block
  tape    := file* filler
-/
import CoCoVerif.Model.Basic

namespace CoCo.Spec.Tape

/-- a framed block -/
def frame (ty : Nat) (p : Bytes) : Bytes :=
  [0x55, 0x3C, ty, p.length] ++ p ++ [(ty + p.length + bsum p) % 256, 0x55]

/-- gap then leader -/
def Filler (l : Bytes) : Prop := ∃ a b : Nat, l = List.replicate a 0x00 ++ List.replicate b 0x55

/-- a file as the tape format knows it: 8 name bytes, type, data type, gap flag, two addresses -/
structure File where
  name  : Bytes
  ftype : Nat
  dtype : Nat
  gap   : Nat
  load  : Nat
  exec  : Nat
  data  : Bytes
deriving Repr, DecidableEq

/-- the name-file block's payload: exactly 15 bytes when `name` has 8 -/
def namePayload (f : File) : Bytes :=
  f.name ++ [f.ftype, f.dtype, f.gap, f.load / 256, f.load % 256, f.exec / 256, f.exec % 256]

/-- `DataBlocks d bs`: `bs` is a sequence of (filler, data block) whose payloads concatenate to `d` -/
inductive DataBlocks : Bytes → Bytes → Prop
  | nil : DataBlocks [] []
  | cons {p d g bs : Bytes} : 0 < p.length → p.length ≤ 255 → Filler g → DataBlocks d bs →
      DataBlocks (p ++ d) (g ++ frame 0x01 p ++ bs)

def FileStream (f : File) (bs : Bytes) : Prop :=
  f.name.length = 8 ∧
  ∃ g₁ db g₂, Filler g₁ ∧ DataBlocks f.data db ∧ Filler g₂ ∧
    bs = g₁ ++ frame 0x00 (namePayload f) ++ db ++ g₂ ++ frame 0xFF []

inductive WellFormed : List File → Bytes → Prop
  | nil {g : Bytes} : Filler g → WellFormed [] g
  | cons {f : File} {fs : List File} {b bs : Bytes} :
      FileStream f b → WellFormed fs bs → WellFormed (f :: fs) (b ++ bs)

/-! ### executable strict parser (used as the oracle on the implementation's output) -/

def dropWhileEq (v : Nat) : Bytes → Bytes
  | [] => []
  | b :: r => if b = v then dropWhileEq v r else b :: r

/-- skip `00* 55*` but give back the last `55` (the block's own sync byte); returns the rest starting
at that sync byte, or `none` if only filler remains -/
def skipFiller (bs : Bytes) : Option Bytes :=
  let s := dropWhileEq 0x00 bs
  let n55 := s.length - (dropWhileEq 0x55 s).length
  let t := dropWhileEq 0x55 s
  if t.isEmpty then none
  else if n55 = 0 then some t           -- no sync byte: the block parser will reject it
  else some (0x55 :: t)

/-- parse one block at the head of `bs` (after filler); `some (type, payload, rest)` -/
def parseBlock (bs : Bytes) : Option (Nat × Bytes × Bytes) :=
  match bs with
  | 0x55 :: 0x3C :: ty :: len :: r =>
    if r.length < len + 2 then none
    else
      let p := r.take len
      let ck := (r.drop len).getD 0 0
      let tr := (r.drop len).getD 1 0
      if ck = (ty + len + bsum p) % 256 ∧ tr = 0x55 ∧ len < 256 ∧ ty < 256 then some (ty, p, r.drop (len + 2))
      else none
  | _ => none

/-- data blocks up to and including the EOF block -/
def parseDataF : Nat → Bytes → Bytes → Option (Bytes × Bytes)
  | 0, _, _ => none
  | fuel + 1, bs, acc =>
    match skipFiller bs with
    | none => none                                       -- missing EOF block
    | some s =>
      match parseBlock s with
      | some (ty, p, rest) =>
        if ty = 0x01 then (if p.isEmpty then none else parseDataF fuel rest (acc ++ p))
        else if ty = 0xFF then (if p.isEmpty then some (acc, rest) else none)
        else none
      | none => none

def parseF : Nat → Bytes → List File → Option (List File)
  | 0, _, _ => none
  | fuel + 1, bs, acc =>
    match skipFiller bs with
    | none => some acc
    | some s =>
      match parseBlock s with
      | some (ty, p, rest) =>
        if ty = 0x00 ∧ p.length = 15 then
          match parseDataF (rest.length + 1) rest [] with
          | some (data, rest') =>
            parseF fuel rest' (acc ++ [{ name := p.take 8, ftype := p.getD 8 0, dtype := p.getD 9 0,
                                         gap := p.getD 10 0, load := p.getD 11 0 * 256 + p.getD 12 0,
                                         exec := p.getD 13 0 * 256 + p.getD 14 0, data := data }])
          | none => none
        else none
      | none => none

/-- strict parser: `some files` iff the bytes are a well-formed tape (checksums verified) -/
def parse (bs : Bytes) : Option (List File) := parseF (bs.length + 1) bs []

end CoCo.Spec.Tape
