/-
Model/Basic.lean — outcome type and byte helpers shared by every model and spec file.
Core Lean only (no Mathlib) so that the driver links as a lean_exe.
-/
namespace CoCo

/-- How a modelled entry point of the Python code can end.
`diag`     : a documented diagnostic (ParseError / TranslationError for the assembler,
             VirtualFileValidationError / FileExistsError for the containers);
`internal` : any other Python exception that would escape (IndexError, ValueError, ...);
`diverged` : fuel exhausted in a loop that has no bound in the Python. -/
inductive Outcome (α : Type) where
  | ok : α → Outcome α
  | diag : Outcome α
  | internal : Outcome α
  | diverged : Outcome α
deriving Repr, DecidableEq

namespace Outcome
@[inline] def bind {α β} (x : Outcome α) (f : α → Outcome β) : Outcome β :=
  match x with
  | ok a => f a
  | diag => diag
  | internal => internal
  | diverged => diverged

instance : Monad Outcome where
  pure := ok
  bind := bind

@[simp] theorem bind_ok {α β} (a : α) (f : α → Outcome β) : (ok a >>= f) = f a := rfl
@[simp] theorem bind_diag {α β} (f : α → Outcome β) : ((diag : Outcome α) >>= f) = diag := rfl
@[simp] theorem bind_internal {α β} (f : α → Outcome β) : ((internal : Outcome α) >>= f) = internal := rfl
@[simp] theorem bind_diverged {α β} (f : α → Outcome β) : ((diverged : Outcome α) >>= f) = diverged := rfl
@[simp] theorem pure_eq {α} (a : α) : (pure a : Outcome α) = ok a := rfl

def kind {α} : Outcome α → String
  | ok _ => "ok" | diag => "diag" | internal => "internal" | diverged => "diverged"

def isOk {α} : Outcome α → Bool
  | ok _ => true | _ => false
end Outcome

abbrev Byte := Nat
abbrev Bytes := List Nat

/-- sum of a byte list (the running checksum of the cassette writer before masking) -/
def bsum : Bytes → Nat
  | [] => 0
  | x :: xs => x + bsum xs

@[simp] theorem bsum_nil : bsum [] = 0 := rfl
@[simp] theorem bsum_cons (x xs) : bsum (x :: xs) = x + bsum xs := rfl
theorem bsum_append (a b : Bytes) : bsum (a ++ b) = bsum a + bsum b := by
  induction a with
  | nil => simp
  | cons x xs ih => simp [ih, Nat.add_assoc]

/-- all entries are bytes -/
def allBytes (l : Bytes) : Prop := ∀ x ∈ l, x < 256

end CoCo
