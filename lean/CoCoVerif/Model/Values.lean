/-
Model/Values.lean — bug-compatible model of cocoasm/values.py: the Value hierarchy,
`Value.create_from_str` (the string-level cascade), `hex()`, `hex_len()`, `get_negative()`,
`resolve`.  Strings are `List Char`; inputs are ASCII (Python's Unicode `\w`, `\d`, `\s` are outside
the modelled domain).
-/
import CoCoVerif.Model.Basic

namespace CoCo.Asm

abbrev Str := List Char

inductive Mode | none | direct | extended | relative | immediate | extInd | explDirect | explExtended
deriving Repr, DecidableEq, Inhabited

def Mode.name : Mode → String
  | .none => "NONE" | .direct => "DIRECT" | .extended => "EXTENDED" | .relative => "RELATIVE"
  | .immediate => "IMMEDIATE" | .extInd => "EXTENDED_INDIRECT" | .explDirect => "EXPLICIT_DIRECT"
  | .explExtended => "EXPLICIT_EXTENDED"

/-- Python exception classes that matter inside the parse stage -/
inductive Exn | valueType | operandType | index | other
deriving Repr, DecidableEq
abbrev R (α : Type) := Except Exn α

/-- cocoasm.values.Value and its subclasses; `pyNone` is Python's `None` (what `SymbolValue.resolve`
returns when the symbol is neither an address nor numeric) -/
inductive Value
  | none
  | pyNone
  | numeric (int : Nat) (hint : Option Nat) (mode : Mode) (neg : Bool)
  | symbol (name : Str) (mode : Mode)
  | address (idx : Nat) (mode : Mode)
  | expr (l r : Value) (op : Char) (mode : Mode) (addrExpr : Bool)
  | leftRight (l r : Str) (mode : Mode)
  | str (s : Str)
  | multiByte (hex : List Str)
  | multiWord (hex : List Str)
deriving Repr, Inhabited, BEq

/-! ### character classes (ASCII) -/
def isDigit (c : Char) : Bool := '0' ≤ c && c ≤ '9'
def isAlpha (c : Char) : Bool := ('a' ≤ c && c ≤ 'z') || ('A' ≤ c && c ≤ 'Z')
def isWord (c : Char) : Bool := isDigit c || isAlpha c || c == '_'
def isHexD (c : Char) : Bool := isDigit c || ('a' ≤ c && c ≤ 'f') || ('A' ≤ c && c ≤ 'F')
/-- the class of SYMBOL_REGEX and of the operands of EXPRESSION_REGEX: what a label may be made of -/
def isSym (c : Char) : Bool := isWord c || c == '@'
def isSpace (c : Char) : Bool := c == ' ' || c == '\t' || c == '\n' || c == '\r' || c == '\x0b' || c == '\x0c'
def apos : Char := Char.ofNat 39
/-- the class of CHAR_REGEX: letters, digits, listed punctuation, and the range plus..slash -/
def isCharLit (c : Char) : Bool :=
  isAlpha c || isDigit c || "><\";:,.#?$%^&*()=!".toList.contains c || c == apos || ('+' ≤ c && c ≤ '/')

def digitVal (c : Char) : Nat :=
  if isDigit c then c.toNat - 48
  else if 'a' ≤ c && c ≤ 'f' then c.toNat - 87 else c.toNat - 55
def parseBase (base : Nat) (cs : Str) : Nat := cs.foldl (fun acc c => acc * base + digitVal c) 0

/-! ### accessors -/
def Value.mode : Value → Mode
  | .numeric _ _ m _ | .symbol _ m | .address _ m | .expr _ _ _ m _ | .leftRight _ _ m => m
  | _ => .none

/-- the `.int` attribute (`none` for Python `None`: AttributeError) -/
def Value.int? : Value → Option Nat
  | .pyNone => Option.none
  | .numeric i _ _ _ => some i
  | .address i _ => some i
  | _ => some 0

def Value.isNone : Value → Bool | .none => true | _ => false
def Value.isNumeric : Value → Bool | .numeric .. => true | _ => false
def Value.isSymbol : Value → Bool | .symbol .. => true | _ => false
def Value.isAddress : Value → Bool | .address .. => true | _ => false
def Value.isLeftRight : Value → Bool | .leftRight .. => true | _ => false
def Value.isExpression : Value → Bool | .expr _ _ _ _ false => true | _ => false
def Value.isAddrExpr : Value → Bool | .expr _ _ _ _ true => true | _ => false
def Value.isMultiByte : Value → Bool | .multiByte _ => true | _ => false
def Value.isMultiWord : Value → Bool | .multiWord _ => true | _ => false
def Value.isNegative : Value → Bool | .numeric _ _ _ n => n | _ => false
def Value.isExplicitExtended (v : Value) : Bool := v.mode == .explExtended
def Value.isExtendedLike (v : Value) : Bool := v.mode == .extended || v.mode == .explExtended
def Value.isDirect (v : Value) : Bool := v.mode == .direct
def Value.isExplicitDirect (v : Value) : Bool := v.mode == .explDirect
def Value.isImmediate (v : Value) : Bool := v.mode == .immediate

/-! ### construction -/

/-- Value.__init__: an extended mode forces size_hint 4 -/
def initHint (sizeHint : Option Nat) (mode : Mode) : Option Nat :=
  if mode == .extended || mode == .explExtended then some 4 else sizeHint

/-- NumericValue.post_init_direct_check -/
def postInit (int : Nat) (selfHint : Option Nat) (mode : Mode) : Option Nat × Mode :=
  let (h, m) :=
    if selfHint.isNone && mode != .explExtended then
      if int < 256 && mode != .immediate then (some 2, Mode.direct) else (selfHint, mode)
    else (selfHint, mode)
  (h, if m == .none then .extended else m)

/-- NumericValue(int, size_hint, mode) for a Python int `v` (possibly negative) -/
def numericOfInt (v : Int) (sizeHint : Option Nat) (mode : Mode) : R Value :=
  if v > 65535 then .error .valueType
  else
    let neg := v < 0
    let i := v.natAbs
    let (h, m) := postInit i (initHint sizeHint mode) mode
    .ok (.numeric i h m neg)

/-- NumericValue(str, size_hint, mode) -/
def numericOfStr (s : Str) (sizeHint : Option Nat) (mode : Mode) : R Value :=
  let selfHint := initHint sizeHint mode
  let charTry : Option Value :=
    match s with
    | [q, c] => if q == apos && isCharLit c
                then some (.numeric c.toNat (if selfHint.isNone then some 2 else selfHint) mode false) else Option.none
    | _ => Option.none
  match charTry with
  | some v => .ok v
  | Option.none =>
  match s with
  | '%' :: bits =>
    if bits != [] && bits.all (fun c => c == '0' || c == '1') then
      if bits.length != 8 && bits.length != 16 then .error .valueType
      else
        let v := parseBase 2 bits
        if bits.length == 8 && sizeHint.isNone && mode != .explExtended then     -- an explicit > is honoured (fix A6)
          .ok (.numeric v (some 2) (if mode != .immediate then .direct else mode) false)
        else .ok (.numeric v selfHint mode false)
    else .error .valueType
  | '$' :: hs =>
    if hs != [] && hs.all isHexD then
      if hs.length > 4 then .error .valueType
      else
        let v := parseBase 16 hs
        let (h, m) := if hs.length == 2 && sizeHint.isNone && mode != .explExtended
                      then (some 2, if mode != .immediate then Mode.direct else mode) else (selfHint, mode)
        .ok (.numeric v h (if m == .none then .extended else m) false)
    else .error .valueType
  | '-' :: ds =>
    if ds != [] && ds.all isDigit then
      let v := parseBase 10 ds
      if v > 32768 then .error .valueType else .ok (.numeric v selfHint mode true)
    else .error .valueType
  | ds =>
    if ds != [] && ds.all isDigit then
      let v := parseBase 10 ds
      if v > 65535 then .error .valueType
      else let (h, m) := postInit v selfHint mode; .ok (.numeric v h m false)
    else .error .valueType

def opChar (c : Char) : Bool := c == '+' || c == '-' || c == '/' || c == '*'

/-- EXPRESSION_REGEX: dollars* [word or at]+ , one operator, dollars* [word or at]+ to the end -/
def splitExpr (s : Str) : Option (Str × Char × Str) :=
  let d1 := s.takeWhile (· == '$'); let r1 := s.dropWhile (· == '$')
  let w1 := r1.takeWhile isSym; let r2 := r1.dropWhile isSym
  if w1 == [] then Option.none else
  match r2 with
  | op :: r3 =>
    if opChar op then
      let d2 := r3.takeWhile (· == '$'); let r4 := r3.dropWhile (· == '$')
      if r4 != [] && r4.all isSym then some (d1 ++ w1, op, d2 ++ r4) else Option.none
    else Option.none
  | [] => Option.none

/-- `str.split(c)` -/
def splitOn (c : Char) (s : Str) : List Str :=
  s.foldr (fun ch acc => if ch == c then [] :: acc else match acc with | [] => [[ch]] | a :: t => (ch :: a) :: t) [[]]

/-- `"{:X}".format(v)` as digit values, most significant first (fuel 20 covers every value below 16^20) -/
def natHexF : Nat → Nat → List Nat
  | 0, _ => []
  | f + 1, v => if v < 16 then [v] else natHexF f (v / 16) ++ [v % 16]
def hexChar (n : Nat) : Char := if n < 10 then Char.ofNat (48 + n) else Char.ofNat (55 + n)
/-- `"{:0>wX}".format(v)` -/
def fmtHex (w v : Nat) : Str :=
  let d := natHexF 20 v
  (List.replicate (w - d.length) '0') ++ d.map hexChar

/-- NumericValue.get_negative -/
def getNegative (int : Nat) (neg : Bool) : Nat :=
  if !neg then int else if int ≤ 128 then 0x100 - int else 0x10000 - int

/-- NumericValue.hex_len -/
def numHexLen (int : Nat) (hint : Option Nat) : Nat :=
  match hint with
  | some h => h
  | Option.none => let l := (natHexF 20 int).length; if l % 2 == 1 then l + 1 else l

/-- NumericValue.hex(size) -/
def numHex (int : Nat) (hint : Option Nat) (neg : Bool) (size : Nat := 0) : Str :=
  let size := if size == 0 then (match hint with | some h => h | Option.none => 0) else size
  let size := if size == 0 then (let l := numHexLen int hint; if l % 2 == 1 then l + 1 else l) else size
  if neg && size == 4 then fmtHex 4 (0x10000 - int)            -- four digits hold the 16-bit two's complement
  else fmtHex size (getNegative int neg)

/-- `hex(size=0)` of any value (`none` = AttributeError on Python None) -/
def Value.hex? (v : Value) (size : Nat := 0) : Option Str :=
  match v with
  | .none => some []
  | .pyNone => Option.none
  | .numeric i h _ n => some (numHex i h n size)
  | .symbol _ _ => some []
  | .address i _ =>
    let l := (natHexF 20 i).length
    let sz := if size == 0 then (if l % 2 == 1 then l + 1 else l) else size
    some (fmtHex sz i)
  | .expr .. => some ['0', '0']
  | .leftRight .. => some []
  | .str s => some (s.flatMap (fun c => fmtHex 2 c.toNat))       -- "{:02X}" per character (after the repair)
  | .multiByte hs => some hs.flatten
  | .multiWord hs => some hs.flatten

/-- `hex_len()` -/
def Value.hexLen? (v : Value) : Option Nat :=
  match v with
  | .none => some 0
  | .pyNone => Option.none
  | .numeric i h _ _ => some (numHexLen i h)
  | .symbol _ _ => some 0
  | .address i _ => some (natHexF 20 i).length
  | .expr .. => some 0
  | .leftRight .. => some 0
  | v => (v.hex?).map List.length

def Value.byteLen? (v : Value) : Option Nat := v.hexLen?.map (· / 2)

/-- `NumericValue.fit(digits)`: the value as an unsigned field of `digits` hex digits, a negative value in two's
complement at that width; `valueType` = "does not fit" -/
def fitNum (n : Nat) (neg : Bool) (digits : Nat) : R Value :=
  let number : Int := if neg then -(n : Int) else n
  if -((2 : Int) ^ (4 * digits - 1)) ≤ number ∧ number < (2 : Int) ^ (4 * digits) then
    numericOfInt (number % (2 : Int) ^ (4 * digits)) (some digits) .none
  else .error .valueType

/-- `NumericValue(x).fit(w).hex()` for an element of a multi-byte / multi-word list -/
def elemHex (w : Nat) (x : Str) : R Str :=
  match numericOfStr x Option.none .none with
  | .ok (.numeric i _ _ neg) =>
    (match fitNum i neg w with
     | .ok v => (match v.hex? with | some h => .ok h | Option.none => .error .other)
     | .error e => .error e)
  | .ok _ => .error .other
  | .error e => .error e



/-- `Value.create_from_str(value, instruction, default_mode_extended)`; the instruction enters only through
`is_string_define` and `is_16_bit`. fuel bounds the depth-2 recursion through ExpressionValue. -/
def create : Nat → Str → (isStr is16 defExt : Bool) → R Value
  | 0, _, _, _, _ => .error .valueType
  | fuel + 1, value, isStr, is16, defExt =>
    match value with
    | [] => .error .valueType                                   -- "a value cannot be empty" (after the repair)
    | c :: rest =>
      let strTry : Option Value :=
        -- StringValue: same delimiter at both ends, every character one byte (wider ones raise ValueTypeError: the cascade goes on)
        if isStr && value.getLast? == some c && ((value.drop 1).dropLast).all (fun ch => ch.toNat ≤ 255)
        then some (.str ((value.drop 1).dropLast)) else Option.none
      match strTry with
      | some v => .ok v
      | Option.none =>
        let mode0 := if defExt then Mode.extended else Mode.none
        let (mode, value) :=
          if c == '<' then (Mode.explDirect, rest) else if c == '>' then (Mode.explExtended, rest)
          else if c == '#' then (Mode.immediate, rest) else (mode0, value)
        let sizeHint : Option Nat := if is16 then some 4 else Option.none
        let exprTry : Option Value :=
          match splitExpr value with
          | Option.none => Option.none
          | some (l, op, r) =>
            match create fuel l false false false, create fuel r false false false with
            | .ok lv, .ok rv =>
              let m := if mode == .none && (lv.isExtendedLike || rv.isExtendedLike) then Mode.extended else mode
              some (.expr lv rv op m false)
            | _, _ => Option.none
        match exprTry with
        | some v => .ok v
        | Option.none =>
          let lrTry : Option Value :=
            if value.contains ',' then
              match splitOn ',' value with
              | [l, r] => some (.leftRight l r mode)
              | _ => Option.none
            else Option.none
          match lrTry with
          | some v => .ok v
          | Option.none =>
            match numericOfStr value sizeHint mode with
            | .ok v => .ok v
            | .error _ =>
              if value != [] && value.all isSym then .ok (.symbol value mode)
              else .error .valueType

def createV (value : Str) (isStr is16 : Bool) (defExt : Bool := true) : R Value := create 4 value isStr is16 defExt

/-- `MultiByteValue.create_element`: a literal is rendered at once; a symbol or a two-term expression is kept for later
(`pendingElem`) and holds its place with zeros; anything else is the literal's error -/
def pendingElem (x : Str) : Bool :=
  match create 4 x false false true with
  | .ok v => v.isSymbol || v.isExpression
  | .error _ => false

def elemHexP (w : Nat) (x : Str) : R Str :=
  match elemHex w x with
  | .ok h => .ok h
  | .error e => if pendingElem x then .ok (List.replicate w '0') else .error e

/-- the elements of a list operand, as written -/
def listElems (value : Str) : List Str := (splitOn ',' value).filter (· != [])

def multi (w : Nat) (value : Str) : R (List Str) :=
  if !(value.contains ',') then .error .valueType
  else (listElems value).mapM (elemHexP w)

/-! ### symbol resolution -/

abbrev SymTab := List (Str × Value)

def SymTab.get? (t : SymTab) (k : Str) : Option Value := (t.find? (·.1 == k)).map (·.2)

/-- `Value.resolve(symbol_table)` with `Value.get_symbol`; `error` = any Python exception (the callers wrap it).
`get_symbol` evaluates an EQU that was defined by an expression where it is used (fix 0f280be), so the recursion
follows chains of such EQUs: every level costs one unit of fuel, and running out of fuel stands for Python's
RecursionError (an `Exception`, wrapped like the others) on a definition cycle. -/
def resolveF : Nat → Value → SymTab → R Value
  | 0, _, _ => .error .other                                     -- RecursionError
  | fuel + 1, v, t =>
    let getSym (name : Str) : R Value :=
      match t.get? name with
      | Option.none => .error .other                             -- ValueError: not in symbol table
      | some s => if s.isExpression then resolveF fuel s t else .ok s
    match v with
    | .symbol name _ =>
      match getSym name with
      | .error e => .error e
      | .ok s =>
        if s.isAddress then (match s with | .address i _ => .ok (.address i .none) | _ => .error .other)
        else if s.isNumeric then
          match s with
          | .numeric i _ _ ng => numericOfInt (if ng then -(i : Int) else i) Option.none .none    -- NumericValue(symbol.signed())
          | _ => .error .other
        else .error .other                                        -- ValueError: "does not have a value" (after the repair)
    | .expr l r op mode _ =>
      let look (x : Value) : R Value :=
        match x with
        | .symbol name _ => getSym name
        | x => .ok x
      match look l, look r with
      | .ok l', .ok r' =>
        let m := if l'.isExtendedLike || r'.isExtendedLike then Mode.extended else Mode.direct
        match l', r' with
        | .numeric lm _ _ ln, .numeric rm _ _ rn =>
          -- NumericValue("{}".format(left op right), mode=mode): the STRING constructor; operands are signed()
          let li : Int := if ln then -(lm : Int) else lm
          let ri : Int := if rn then -(rm : Int) else rm
          let res : Option Int :=
            if op == '+' then some (li + ri)
            else if op == '-' then some (li - ri)
            else if op == '*' then some (li * ri)
            else if op == '/' then (if ri = 0 then Option.none else some (Int.tdiv li ri))      -- int(left / right)
            else some 0
          match res with
          | Option.none => .error .other                           -- ZeroDivisionError
          | some z =>
            let s : Str := if z < 0 then '-' :: (toString z.natAbs).toList else (toString z.natAbs).toList
            let m := if z > 255 && m == .direct then Mode.extended else m      -- two direct page values can combine to one that is not (fix A13)
            match numericOfStr s Option.none m with
            | .ok nv => .ok nv
            | .error _ => .error .other
        | _, _ =>
          if l'.isAddress || r'.isAddress then .ok (.expr l' r' op mode true)
          else .error .other                                       -- "unresolved expression"
      | _, _ => .error .other
    | v => .ok v

/-- a chain of EQUs without a cycle is no longer than the table -/
def Value.resolve (v : Value) (t : SymTab) : R Value := resolveF (t.length + 1) v t

end CoCo.Asm
