/-
Model/Disk.lean — bug-compatible model of cocoasm/virtualfiles/disk.py as it stands after the
repairs recorded in known_findings.json ("fixed:" lines): DiskFile.add_file / add_files /
list_files / read_chain / write_to_granules / write_to_fat / write_dir_entry and the
calculate_* helpers, on the flat 161,280-byte buffer.

Module-level constants come from Gen/Disk.lean (regenerated from /repo on every run).
Literals buried in method bodies (72 directory slots, 78660..78847, granule 33, $C0, $99) are
hand-modelled and tied by the exhaustive `geom` correspondence stream.
-/
import CoCoVerif.Model.Basic
import CoCoVerif.Model.Cassette
import CoCoVerif.Gen.Disk

namespace CoCo.Dsk
open CoCo

abbrev FAT : Nat := Gen.fatOffset
abbrev DIR : Nat := Gen.dirOffset
abbrev G : Nat := Gen.halfTrackLen
abbrev SIZE : Nat := Gen.imageSize

/-- `seek_granule` -/
def seek (g : Nat) : Nat := G * g + (if g > 33 then G * 2 else 0)

/-- `DiskFile()` with no buffer -/
def blank : Bytes := List.replicate SIZE 0xFF

/-- `for b in data: buffer[p] = b; p += 1` — `none` is IndexError -/
def writeBytes (b : Bytes) (p : Nat) (xs : Bytes) : Option Bytes :=
  if p + xs.length ≤ b.length then some (b.take p ++ xs ++ b.drop (p + xs.length))
  else if xs.isEmpty then some b else none

inductive Kind | ml | basic | ascii
deriving Repr, DecidableEq

def kindOf (ftype dtype : Nat) : Kind :=
  if ftype = 0x02 then .ml else if dtype = 0xFF then .ascii else .basic

/-- the preamble bytes `Preamble.write` produces -/
def preamble (k : Kind) (len load : Nat) : Bytes :=
  match k with
  | .ml => [0x00, len / 256, len % 256, load / 256, load % 256]
  | .basic => [0xFF, len / 256, len % 256]
  | .ascii => []

/-- the postamble bytes `Postamble.write` produces (machine language files only) -/
def postamble (k : Kind) (exec : Nat) : Option Bytes :=
  match k with
  | .ml => some [0xFF, 0x00, 0x00, exec / 256, exec % 256]
  | _ => none

def postLen (post : Option Bytes) : Nat := match post with | some t => t.length | none => 0

/-- `calculate_granules_needed` -/
def granulesNeeded (dataLen preLen postLen : Nat) : Nat := (dataLen + preLen + postLen) / G + 1
/-- `calculate_sectors_needed` -/
def sectorsNeeded (n : Nat) : Nat := n / Gen.bytesPerSector + 1
/-- `calculate_last_granules_sectors_used` -/
def lastGranuleSectors (dataLen preLen postLen : Nat) : Nat :=
  sectorsNeeded (dataLen + preLen + postLen - (granulesNeeded dataLen preLen postLen - 1) * G)
/-- `calculate_last_sector_bytes_used` -/
def lastSectorBytes (dataLen preLen postLen : Nat) : Nat :=
  let l := dataLen + preLen + postLen - (granulesNeeded dataLen preLen postLen - 1) * G
  l - (sectorsNeeded l - 1) * Gen.bytesPerSector

/-- `granule_in_use` -/
def granuleInUse (b : Bytes) (g : Nat) : Outcome Bool :=
  if g > 67 then .diag
  else match b[FAT + g]? with
    | some x => .ok (x != 0xFF)
    | none => .internal

/-- `find_empty_granule`: first granule of the fill order whose FAT byte is $FF -/
def findEmptyIn (b : Bytes) : List Nat → Outcome Nat
  | [] => .diag                                     -- "no free granules available for allocation"
  | g :: rest =>
    match granuleInUse b g with
    | .ok false => .ok g
    | .ok true => findEmptyIn b rest
    | .diag => .diag
    | .internal => .internal
    | .diverged => .diverged

def findEmptyGranule (b : Bytes) (order : List Nat) : Outcome Nat :=
  if order.length < Gen.totalGranules then .diag else findEmptyIn b order

/-- the allocation loop of `add_file`: pick, mark `$99`, repeat -/
def alloc (order : List Nat) : Nat → Bytes → Outcome (List Nat × Bytes)
  | 0, b => .ok ([], b)
  | n + 1, b =>
    match findEmptyGranule b order with
    | .ok g =>
      match writeBytes b (FAT + g) [0x99] with
      | some b' =>
        match alloc order n b' with
        | .ok (gs, b'') => .ok (g :: gs, b'')
        | .diag => .diag
        | .internal => .internal
        | .diverged => .diverged
      | none => .internal
    | .diag => .diag
    | .internal => .internal
    | .diverged => .diverged

/-- `directory_entry_in_use` for an entry number in 0..71 -/
def dirEntryInUse (b : Bytes) (e : Nat) : Outcome Bool :=
  match b[DIR + 32 * e]? with
  | some x => .ok (x != 0x00 && x != 0xFF)
  | none => .internal

/-- `find_empty_directory_entry` over entries `e, e+1, ..., 71`; `ok none` is -1 -/
def findEmptyDirFrom (b : Bytes) : Nat → Nat → Outcome (Option Nat)
  | 0, _ => .ok none
  | n + 1, e =>
    match dirEntryInUse b e with
    | .ok false => .ok (some e)
    | .ok true => findEmptyDirFrom b n (e + 1)
    | .diag => .diag
    | .internal => .internal
    | .diverged => .diverged

def findEmptyDir (b : Bytes) : Outcome (Option Nat) := findEmptyDirFrom b 72 0

/-- ASCII upper-casing of `str.upper()` (code points ≥ 128 are outside the modelled domain) -/
def upper (c : Nat) : Nat := if 97 ≤ c ∧ c ≤ 122 then c - 32 else c

/-- `name[:n].ljust(n, " ").upper()` with `ord 0 ↦ $20` -/
def padUpper (n : Nat) (s : List Nat) : Bytes :=
  ((s.take n) ++ List.replicate (n - s.length) 0x20).map (fun c => if upper c = 0 then 0x20 else upper c)

/-- the 32 bytes `write_dir_entry` stores -/
def dirEntryBytes (f : CFile) (first lastBytes : Nat) : Bytes :=
  padUpper 8 f.name ++ padUpper 3 f.ext ++ [f.ftype, f.dtype, first, lastBytes / 256, lastBytes % 256]
    ++ List.replicate 16 0x00

/-- `write_to_granules` (after the repair: the postamble may be split across two granules) -/
def writeToGranules (b : Bytes) (data : Bytes) (gs : List Nat) (pre : Bytes) (post : Option Bytes)
    (first : Bool) : Option Bytes :=
  match gs with
  | [] => some b
  | g :: gs' =>
    let skip := if first then pre.length else 0
    match (if first then writeBytes b (seek g) pre else some b) with
    | none => none
    | some b1 =>
      let p := seek g + skip
      if data.length < G - skip then
        match writeBytes b1 p data with
        | none => none
        | some b2 =>
          match post with
          | none => some b2
          | some tr =>
            let remaining := G - skip - data.length
            match writeBytes b2 (p + data.length) (tr.take remaining) with
            | none => none
            | some b3 =>
              if remaining < tr.length then
                match gs' with
                | [] => none                                   -- IndexError: allocated_granules[0]
                | g2 :: _ => writeBytes b3 (seek g2) (tr.drop remaining)
              else some b3
      else
        match writeBytes b1 p (data.take (G - skip)) with
        | none => none
        | some b2 => writeToGranules b2 (data.drop (G - skip)) gs' [] post false

/-- `write_to_fat` -/
def writeFat (b : Bytes) : List Nat → Nat → Option Bytes
  | [], _ => some b
  | [g], sectors => writeBytes b (FAT + g) [0xC0 + sectors]
  | g :: g' :: rest, sectors =>
    match writeBytes b (FAT + g) [g'] with
    | none => none
    | some b' => writeFat b' (g' :: rest) sectors

def ofOpt {α} : Option α → Outcome α
  | some a => .ok a
  | none => .internal

/-- `add_file` -/
def addFile (order : List Nat) (b : Bytes) (f : CFile) : Outcome Bytes :=
  if f.data.length > 65535 then .internal            -- NumericValue(len(data)) raises ValueTypeError
  else
    let k := kindOf f.ftype f.dtype
    let pre := preamble k f.data.length f.load
    let post := postamble k f.exec
    let n := granulesNeeded f.data.length pre.length (postLen post)
    match alloc order n b with
    | .ok (gs, b1) =>
      match findEmptyDir b1 with
      | .ok (some e) =>
        match gs with
        | [] => .internal
        | g0 :: _ =>
          let lsb := lastSectorBytes f.data.length pre.length (postLen post)
          let lgs := lastGranuleSectors f.data.length pre.length (postLen post)
          ofOpt (do
            let b2 ← writeBytes b1 (DIR + e * 32) (dirEntryBytes f g0 lsb)
            let b3 ← writeToGranules b2 f.data gs pre post true
            let b4 ← writeFat b3 gs lgs
            writeBytes b4 78660 (List.replicate 188 0x00))
      | .ok none => .diag                               -- "No free directory entry to save file"
      | .diag => .diag
      | .internal => .internal
      | .diverged => .diverged
    | .diag => .diag
    | .internal => .internal
    | .diverged => .diverged

/-- `add_files` on a given buffer -/
def addFiles (order : List Nat) (b : Bytes) : List CFile → Outcome Bytes
  | [] => .ok b
  | f :: fs =>
    match addFile order b f with
    | .ok b' => addFiles order b' fs
    | .diag => .diag
    | .internal => .internal
    | .diverged => .diverged

/-- `DiskFile(); add_files(fs); get_buffer()` -/
def write (order : List Nat) (fs : List CFile) : Outcome Bytes := addFiles order blank fs

/-! ### reader (after the repair: follows the FAT chain) -/

/-- `read_chain`: contents of the granules of a chain in chain order, and the chain itself;
fuel 69 always suffices (a chain cannot be longer than 68 without a revisit) -/
def readChainF (b fat : Bytes) : Nat → Nat → List Nat → Bytes → Outcome (Bytes × List Nat × Nat)
  | 0, _, _, _ => .diverged
  | fuel + 1, g, vis, acc =>
    if g ≥ Gen.totalGranules ∨ g ∈ vis then .diag       -- "Invalid granule chain in file allocation table"
    else
      let acc' := acc ++ (b.drop (seek g)).take G
      match fat[g]? with
      | none => .internal
      | some e =>
        if e / 64 % 4 = 3 then .ok (acc', (g :: vis).reverse, e)   -- (e & 0xC0) == 0xC0
        else readChainF b fat fuel e (g :: vis) acc'

def readChain (b fat : Bytes) (g : Nat) : Outcome (Bytes × List Nat × Nat) := readChainF b fat 69 g [] []

/-- `calculate_file_length` given the (validated) chain; a last-granule marker that says "no sector in use" adds nothing
(fix: the expression used to go negative there) -/
def fileLength (chainLen : Nat) (lastEntry : Nat) (lastBytes : Nat) : Int :=
  ((chainLen - 1) * G : Nat) +
    (if lastEntry % 32 = 0 then (0 : Int) else (((lastEntry % 32 : Nat) : Int) - 1) * Gen.bytesPerSector + lastBytes)

/-- Python `stream[a : a + n]` for `a ≥ 0` and an `n` that may be negative -/
def pySlice (s : Bytes) (a : Nat) (n : Int) : Bytes :=
  if n ≥ 0 then (s.drop a).take n.toNat
  else
    let stop : Int := (s.length : Int) + ((a : Int) + n)       -- a + n < 0 is counted from the end
    if (a : Int) + n ≥ 0 then (s.drop a).take ((a : Int) + n - a).toNat
    else (s.take stop.toNat).drop a

structure DirEnt where
  name : Bytes
  ext : Bytes
  ftype : Nat
  dtype : Nat
  first : Nat
  lastBytes : Nat

/-- one directory entry of `list_files` -/
def readEntry (b fat : Bytes) (p : Nat) : Outcome CFile :=
  let e := (b.drop p).take 32
  match Cas.utf8Decode (e.take 8), Cas.utf8Decode ((e.drop 8).take 3) with
  | none, _ => .diag                                    -- UnicodeDecodeError, reported as a validation error
  | _, none => .diag
  | some name, some ext =>
    let ftype := e.getD 11 0
    let dtype := e.getD 12 0
    let g0 := e.getD 13 0
    let lastBytes := e.getD 14 0 * 256 + e.getD 15 0
    let k := kindOf ftype dtype
    let at0 := b.drop (seek g0)
    -- preamble.read(self.buffer, self.seek_granule(starting_granule))
    let pre : Outcome (Nat × Nat × Nat) :=              -- (preamble length, data length, load)
      match k with
      | .ml => if at0.length < 5 then .diag else if at0.getD 0 0 ≠ 0x00 then .diag
               else .ok (5, at0.getD 1 0 * 256 + at0.getD 2 0, at0.getD 3 0 * 256 + at0.getD 4 0)
      | .basic => if at0.length < 3 then .diag else if at0.getD 0 0 ≠ 0xFF then .diag
                  else .ok (3, at0.getD 1 0 * 256 + at0.getD 2 0, 0)
      | .ascii => .ok (0, 0, 0)
    match pre with
    | .ok (preLen, hdrLen, load) =>
      match readChain b fat g0 with
      | .ok (stream, chain, lastEntry) =>
        let dataLen : Int := if preLen = 0 then fileLength chain.length lastEntry lastBytes else hdrLen
        let data := pySlice stream preLen dataLen
        if (data.length : Int) < dataLen then .diag       -- "insufficient bytes in granule chain"
        else
          let mk (exec : Nat) : CFile :=
            { name := name.filter (· != 0x20), ext := ext, ftype := ftype, dtype := dtype, gaps := 0,
              load := load, exec := exec, data := data }
          match k with
          | .ml =>
            let t := stream.drop (preLen + dataLen.toNat)
            if t.length < 5 then .diag
            else if t.getD 0 0 ≠ 0xFF then .diag
            else if t.getD 1 0 ≠ 0x00 then .diag
            else if t.getD 2 0 ≠ 0x00 then .diag
            else .ok (mk (t.getD 3 0 * 256 + t.getD 4 0))
          | _ => .ok (mk 0)
      | .diag => .diag
      | .internal => .internal
      | .diverged => .diverged
    | .diag => .diag
    | .internal => .internal
    | .diverged => .diverged

def listFrom (b fat : Bytes) : Nat → Nat → List CFile → Outcome (List CFile)
  | 0, _, acc => .ok acc
  | n + 1, p, acc =>
    let x := b.getD p 0
    if x = 0x00 ∨ x = 0xFF then listFrom b fat n (p + 32) acc
    else
      match readEntry b fat p with
      | .ok f => listFrom b fat n (p + 32) (acc ++ [f])
      | .diag => .diag
      | .internal => .internal
      | .diverged => .diverged

/-- `DiskFile(buffer=b).list_files()` -/
def list (b : Bytes) : Outcome (List CFile) :=
  if b.length < SIZE then .diag
  else listFrom b ((b.drop FAT).take 256) 72 DIR []

/-- what a stored file looks like when listed from a disk -/
def norm (f : CFile) : CFile :=
  let k := kindOf f.ftype f.dtype
  { name := (padUpper 8 f.name).filter (· != 0x20), ext := padUpper 3 f.ext, ftype := f.ftype, dtype := f.dtype,
    gaps := 0, load := if k = .ml then f.load else 0, exec := if k = .ml then f.exec else 0, data := f.data }

end CoCo.Dsk
