/-
Model/Operands.lean — bug-compatible model of cocoasm/operands.py: the operand classes, the
`Operand.create_from_str` cascade, `resolve_symbols` and `translate` of every class, and
`CodePackage` (cocoasm/instruction.py).  The instruction table comes from Gen/Instructions.lean.
-/
import CoCoVerif.Model.Values
import CoCoVerif.Gen.Instructions

namespace CoCo.Asm
open CoCo.Gen (InstrRow)

inductive OpKind | unknown | pseudo | special | relative | inherent | immediate | direct | extended | extIndirect | indexed
deriving Repr, DecidableEq, Inhabited

/-- `Operand.left`: the shared default `NoneValue`, a str, or a Value -/
inductive Side
  | noneV
  | text (s : Str)
  | val (v : Value)
deriving Repr, Inhabited, BEq

structure Operand where
  kind : OpKind
  text : Str                 -- operand_string
  value : Value
  left : Side := .noneV
  right : Option Str := none -- `none` is the NoneValue object
deriving Repr, Inhabited

/-- cocoasm.instruction.CodePackage -/
structure Pkg where
  opCode : Value := .none
  address : Value := .none
  postByte : Value := .none
  additional : Value := .none
  size : Nat := 0
  needsRes : Bool := false
  choices : List Nat := []
  maxSize : Nat := 0
deriving Repr, Inhabited

/-- substring test: Python `sub in s` for strings -/
def hasSub (sub s : Str) : Bool :=
  match s with
  | [] => sub.isEmpty
  | _ :: t => sub.isPrefixOf s || hasSub sub t

def str (s : String) : Str := s.toList

/-- `NumericValue(opcode)` for an opcode cell (None → TypeError inside translate) -/
def opVal (o : Option Nat) : R Value :=
  match o with
  | some v => numericOfInt v none .none
  | none => .error .other

def numV (v : Nat) : R Value := numericOfInt v none .none

/-! ### Operand.create_from_str -/

def createOperand (s : Str) (row : InstrRow) : R Operand :=
  if row.isPseudo then
    -- PseudoOperand.__init__ (a ValueTypeError raised here escapes the cascade; parse_line maps it to ParseError)
    let v0 : R Value :=
      if row.isMultiByte then
        (if s.contains ',' then (multi 2 s).map Value.multiByte else createV s row.isStringDefine row.is16Bit)
      else if row.isMultiWord then
        (if s.contains ',' then (multi 4 s).map Value.multiWord else createV s row.isStringDefine row.is16Bit)
      else if row.isInclude || (row.mnemonic == "END" && s.isEmpty) then .ok .none
      else createV s row.isStringDefine row.is16Bit
    match v0 with
    | .error e => .error e
    | .ok v =>
      if row.isPseudoDefine && v.isNumeric then
        match v.int? with
        | none => .error .other
        | some i =>
          if s.head? == some '$' && s.length > 3 then
            (numericOfInt i none .extended).map (fun nv => { kind := .pseudo, text := s, value := nv })
          else if v.hexLen? == some 2 then
            (numericOfInt (if v.isNegative then -(i : Int) else i) none .direct).map (fun nv => { kind := .pseudo, text := s, value := nv })
          else .ok { kind := .pseudo, text := s, value := v }
      else .ok { kind := .pseudo, text := s, value := v }
  else if row.isSpecial then .ok { kind := .special, text := s, value := .none }
  else if row.isShortBranch || row.isLongBranch then
    (createV s row.isStringDefine row.is16Bit).map (fun v => { kind := .relative, text := s, value := v })
  else if s.isEmpty then .ok { kind := .inherent, text := [], value := .none }
  else
    -- ExtendedIndexedOperand
    let ext : Option Operand :=
      if s.head? == some '[' && s.getLast? == some ']' then
        match createV ((s.drop 1).dropLast) row.isStringDefine row.is16Bit with
        | .ok v =>
          match v with
          | .leftRight l r _ => some { kind := .extIndirect, text := s, value := v, left := .text l, right := some r }
          | _ => some { kind := .extIndirect, text := s, value := v }
        | .error _ => none
      else none
    match ext with
    | some o => .ok o
    | none =>
      match createV s row.isStringDefine row.is16Bit with
      | .error _ => .error .operandType
      | .ok v =>
        match v with
        | .leftRight l r _ => .ok { kind := .indexed, text := s, value := v, left := .text l, right := some r }
        | _ =>
          if v.isImmediate then .ok { kind := .immediate, text := s, value := v }
          else .ok { kind := .unknown, text := s, value := v }

/-! ### resolve_symbols (every exception is wrapped into a TranslationError by the caller) -/

/-- the left-hand side of an indexed operand after `resolve_symbols` -/
def resolveLeft (l : Str) (row : InstrRow) (t : SymTab) : R Value := do
  let v ← create 4 l row.isStringDefine row.is16Bit false
  let v ← if v.isSymbol then v.resolve t else pure v
  match v with
  | .pyNone => .error .other                                      -- AttributeError on None
  | _ => if v.isAddrExpr || v.isExpression then v.resolve t else pure v

def isABD (l : Str) : Bool := l == ['A'] || l == ['B'] || l == ['D']

def resolveOperand (o : Operand) (row : InstrRow) (t : SymTab) : R Operand :=
  match o.kind with
  | .special => .ok o
  | .pseudo =>
    -- data directives and ORG take symbols, expressions and labels
    if row.mnemonic == "FCB" || row.mnemonic == "FDB" || row.mnemonic == "RMB" || row.mnemonic == "ORG" then
      match o.value with
      | .pyNone => .error .other
      | v => if v.isSymbol || v.isExpression then (v.resolve t).map (fun v' => { o with value := v' }) else .ok o
    else .ok o
  | .indexed =>
    match o.left with
    | .text l =>
      if l != [] && !isABD l then (resolveLeft l row t).map (fun v => { o with left := .val v }) else .ok o
    | _ => .ok o
  | .extIndirect =>
    if !o.value.isNone && !o.value.isLeftRight then
      (o.value.resolve t).map (fun v => { o with value := v })
    else
      match o.left with
      | .text l =>
        if l != [] && !isABD l then (resolveLeft l row t).map (fun v => { o with left := .val v }) else .ok o
      | _ => .error .other
  | _ =>
    match o.value.resolve t with
    | .error e => .error e
    | .ok v =>
      if o.kind != .unknown then .ok { o with value := v }
      else
        if o.value.isExplicitExtended then .ok { o with kind := .extended, value := v }      -- an explicit > wins (fix A6)
        else
        match v with
        | .pyNone => .error .other                                -- None.is_numeric()
        | .numeric i _ _ ng =>
          if !ng && (v.isDirect || o.value.isExplicitDirect) then
            (numericOfInt i none .direct).map (fun nv => { o with kind := .direct, value := nv })
          else .ok { o with kind := .extended, value := v }
        | .address _ _ =>
          if o.value.isExplicitDirect then .ok { o with kind := .direct, value := v }         -- <label (fix A11)
          else .ok { o with kind := .extended, value := v }
        | _ => .ok { o with kind := .extended, value := v }

/-! ### translate -/

def regBits (right : Str) : Nat :=
  (if hasSub ['Y'] right then 0x20 else 0) ||| (if hasSub ['U'] right then 0x40 else 0) |||
  (if hasSub ['S'] right then 0x60 else 0)

def is4Bit (i : Nat) (neg : Bool) : Bool := if neg then i ≤ 16 else i ≤ 15
def is8Bit (i : Nat) (neg : Bool) : Bool := if neg then i ≤ 128 else i ≤ 127

/-- bit $40 stands for the OTHER stack pointer (`other` = "U" for PSHS/PULS, "S" for PSHU/PULU) -/
def regMaskPshPul (other : Str) (r : Str) : Nat :=
  (if r == str "D" then 0x06 else 0) ||| (if r == str "CC" then 0x01 else 0) ||| (if r == str "A" then 0x02 else 0) |||
  (if r == str "B" then 0x04 else 0) ||| (if r == str "DP" then 0x08 else 0) ||| (if r == str "X" then 0x10 else 0) |||
  (if r == str "Y" then 0x20 else 0) ||| (if r == other then 0x40 else 0) ||| (if r == str "PC" then 0x80 else 0)

/-- INDEX_REGISTER_REGEX: `-{0,2}[XYUS]`, `[XYUS]\+{1,2}` or `PCR` -/
def isXYUS (c : Char) : Bool := c == 'X' || c == 'Y' || c == 'U' || c == 'S'
def validIndexReg (right : Str) : Bool :=
  match right with
  | [c] => isXYUS c
  | ['-', c] => isXYUS c
  | ['-', '-', c] => isXYUS c
  | [c, '+'] => isXYUS c
  | [c, '+', '+'] => isXYUS c
  | ['P', 'C', 'R'] => true
  | _ => false

def regCodeTfr (r : Str) : Nat :=
  (if r == str "X" then 1 else 0) ||| (if r == str "Y" then 2 else 0) ||| (if r == str "U" then 3 else 0) |||
  (if r == str "S" then 4 else 0) ||| (if r == str "PC" then 5 else 0) ||| (if r == str "A" then 8 else 0) |||
  (if r == str "B" then 9 else 0) ||| (if r == str "CC" then 0xA else 0) ||| (if r == str "DP" then 0xB else 0)

def tfrLegal : List Nat :=
  [0x01, 0x10, 0x02, 0x20, 0x03, 0x30, 0x04, 0x40, 0x05, 0x50, 0x12, 0x21, 0x13, 0x31, 0x14, 0x41,
   0x15, 0x51, 0x23, 0x32, 0x24, 0x42, 0x25, 0x52, 0x34, 0x43, 0x35, 0x53, 0x45, 0x54, 0x89, 0x98,
   0x8A, 0xA8, 0x8B, 0xB8, 0x9A, 0xA9, 0x9B, 0xB9, 0xAB, 0xBA, 0x00, 0x11, 0x22, 0x33, 0x44, 0x55,
   0x88, 0x99, 0xAA, 0xBB]

def isReg (r : Str) : Bool := Gen.registers.any (fun x => x.toList == r)

def translateSpecial (o : Operand) (row : InstrRow) : R Pkg := do
  let mn := row.mnemonic
  let mut post := 0
  if mn == "PSHS" || mn == "PSHU" || mn == "PULS" || mn == "PULU" then
    if o.text.isEmpty then throw .operandType
    let (own, other) := if mn == "PSHS" || mn == "PULS" then (str "S", str "U") else (str "U", str "S")
    let regs := splitOn ',' o.text
    if !(regs.all (fun r => isReg r && r != own)) then throw .operandType     -- an instruction cannot stack its own pointer
    post := regs.foldl (fun acc r => acc ||| regMaskPshPul other r) 0
  if mn == "EXG" || mn == "TFR" then
    match splitOn ',' o.text with
    | [a, b] =>
      if !isReg a || !isReg b then throw .operandType
      post := post ||| (regCodeTfr a * 16) ||| regCodeTfr b
      if !(tfrLegal.contains post) then throw .operandType
    | _ => throw .operandType
  let op ← opVal row.imm
  let pb ← numV post
  return { opCode := op, postByte := pb, size := row.immSz, maxSize := row.immSz }

/-- the constant-offset part shared by IndexedOperand / ExtendedIndexedOperand.translate.
`ind` = inside brackets (no 5-bit form; negative offsets do not increase `size`). -/
def translateOffset (ind : Bool) (row : InstrRow) (left : Value) (right : Str) (raw0 : Nat) : R Pkg := do
  if hasSub ['+'] right || hasSub ['-'] right then throw .operandType
  let base := if ind then 0x90 else 0x80
  let mut needs := false
  let mut l := left
  match left with
  | .pyNone => throw .other
  | .address i _ => needs := true; l ← numV i
  | _ => pure ()
  if l.isExpression then needs := true
  if l.isAddrExpr then needs := true
  let op ← opVal row.ind
  let size := row.indSz
  if hasSub (str "PCR") right then
    if needs then
      let pb ← numV raw0
      return { opCode := op, postByte := pb, additional := l, size := size, maxSize := size + 2, needsRes := true,
               choices := [base + 0x0C, base + 0x0D] }
    else
      -- an offset that does not fit a signed byte needs the 16-bit form however it was spelt (fix A9)
      let e ← if l.mode == .extended then pure true else
        (match l with
         | .numeric i _ _ neg => pure (!(is4Bit i neg || is8Bit i neg))
         | _ => throw .other)                                      -- no is_4_bit on other classes
      let sz := size + (if e then 2 else 1)
      let pb ← numV (raw0 ||| (if e then base + 0x0D else base + 0x0C))
      return { opCode := op, postByte := pb, additional := l, size := sz, maxSize := sz }
  else if needs then
    -- a label (or label expression) as constant offset: its address is known after layout, so the 16-bit form is taken
    let pb ← numV (raw0 ||| (base + 0x09))
    return { opCode := op, postByte := pb, additional := l, size := size + 2, maxSize := size + 2, needsRes := true }
  else
    match l with
    | .numeric i _ _ neg =>
      if neg then
        if !ind && is4Bit i neg then
          let pb ← numV (raw0 ||| 0x10 ||| (0x10 - i))
          return { opCode := op, postByte := pb, additional := .none, size := size, maxSize := size, needsRes := needs }
        else if is8Bit i neg then
          let pb ← numV (raw0 ||| (base + 0x08))
          let a ← numV (0x100 - i)
          return { opCode := op, postByte := pb, additional := a, size := size + 1, maxSize := size + 1, needsRes := needs }
        else
          let pb ← numV (raw0 ||| (base + 0x09))
          let a ← numericOfInt ((0x10000 : Int) - i) none .none
          return { opCode := op, postByte := pb, additional := a, size := size + 2, maxSize := size + 2, needsRes := needs }
      else if !ind && is4Bit i neg then
        let pb ← numV (raw0 ||| i)
        return { opCode := op, postByte := pb, additional := .none, size := size, maxSize := size, needsRes := needs }
      else if is8Bit i neg then
        let pb ← numV (raw0 ||| (base + 0x08))
        return { opCode := op, postByte := pb, additional := l, size := size + 1, maxSize := size + 1, needsRes := needs }
      else
        let pb ← numV (raw0 ||| (base + 0x09))
        let a ← numericOfInt i (some 4) .none
        return { opCode := op, postByte := pb, additional := a, size := size + 2, maxSize := size + 2, needsRes := needs }
    | _ => throw .other                                           -- no is_4_bit / is_8_bit on other classes

def translateIndexed (o : Operand) (row : InstrRow) : R Pkg := do
  if row.ind.isNone || row.ind == some 0 then throw .operandType
  let right ← match o.right with | some r => pure r | none => throw .other
  if !validIndexReg right then throw .operandType                 -- "unknown index register" (fix A10)
  if right == str "PCR" && (match o.left with | .text l => l.isEmpty || isABD l | _ => false) then
    throw .operandType                                            -- "PCR needs an offset"
  let raw := regBits right
  let noOffset := match o.left with
    | .text [] => true
    | .val (.numeric 0 _ _ _) => !(hasSub (str "PCR") right)      -- 0,PCR is an offset of 0 from the PC (fix A9)
    | _ => false
  let op ← opVal row.ind
  if noOffset then
    let mut raw := raw ||| 0x80
    if hasSub ['-'] right || hasSub ['+'] right then
      if hasSub (str "++") right then raw := raw ||| 0x01
      if hasSub ['-'] right then raw := raw ||| 0x02
      if hasSub (str "--") right then raw := raw ||| 0x03
    else raw := raw ||| 0x04
    let pb ← numV raw
    return { opCode := op, postByte := pb, size := row.indSz, maxSize := row.indSz }
  else
    match o.left with
    | .text l =>
      if isABD l then
        if hasSub ['+'] right || hasSub ['-'] right then throw .operandType     -- A,X+ : "invalid indexed expression"
        let raw := raw ||| 0x80 ||| (if l == ['A'] then 0x06 else if l == ['B'] then 0x05 else 0x0B)
        let pb ← numV raw
        return { opCode := op, postByte := pb, size := row.indSz, maxSize := row.indSz }
      else throw .other                                           -- a str has no is_address()
    | .val v => translateOffset false row v right raw
    | .noneV => throw .other

def translateExtIndirect (o : Operand) (row : InstrRow) : R Pkg := do
  if row.ind.isNone || row.ind == some 0 then throw .operandType
  let op ← opVal row.ind
  if o.value.isAddress || o.value.isAddrExpr || o.value.isNumeric then        -- [label], [label+1], [number]
    let pb ← numV 0x9F
    return { opCode := op, postByte := pb, additional := o.value, size := row.indSz + 2, maxSize := row.indSz + 2 }
  let right ← match o.right with | some r => pure r | none => throw .other    -- regex match on None: TypeError
  if !validIndexReg right then throw .operandType                 -- "unknown index register" (fix A10)
  if right == str "PCR" && (match o.left with | .text l => l.isEmpty || isABD l | _ => false) then
    throw .operandType                                            -- "PCR needs an offset"
  let raw := 0x80 ||| regBits right
  let noOffset := match o.left with
    | .text [] => true
    | .val (.numeric 0 _ _ _) => !(hasSub (str "PCR") right)      -- [0,PCR] is an offset of 0 from the PC (fix A9)
    | _ => false
  if noOffset then
    let mut raw := raw
    if hasSub ['-'] right || hasSub ['+'] right then
      if right == str "X+" || right == str "Y+" || right == str "U+" || right == str "S+" then throw .operandType
      if right == str "-X" || right == str "-Y" || right == str "-U" || right == str "-S" then throw .operandType
      if hasSub (str "++") right then raw := raw ||| 0x11
      if hasSub (str "--") right then raw := raw ||| 0x13
    else raw := raw ||| 0x14
    let pb ← numV raw
    return { opCode := op, postByte := pb, size := row.indSz, maxSize := row.indSz }
  else
    match o.left with
    | .text l =>
      if isABD l then
        if hasSub ['+'] right || hasSub ['-'] right then throw .operandType     -- [D,--Y] : "invalid indexed expression"
        let raw := raw ||| (if l == ['A'] then 0x16 else if l == ['B'] then 0x15 else 0x1B)
        let pb ← numV raw
        return { opCode := op, postByte := pb, size := row.indSz, maxSize := row.indSz }
      else
        -- `if type(self.left) == str: self.left = Value.create_from_str(self.left)` (unreachable after resolve_symbols)
        let v ← createV l false false
        translateOffset true row v right raw
    | .val v => translateOffset true row v right raw
    | .noneV => throw .other

/-- `additional` of a single-value FCB / FDB / RMB -/
def translatePseudo (o : Operand) (row : InstrRow) : R Pkg := do
  let mn := row.mnemonic
  let noneGuard : R Unit := match o.value with | .pyNone => .error .other | _ => .ok ()   -- an attribute of None
  let byteLen : R Nat := match o.value.byteLen? with | some b => .ok b | none => .error .other
  if mn == "FCB" then
    noneGuard
    if o.value.isMultiByte then
      let bl ← byteLen
      return { additional := o.value, size := bl, maxSize := bl }
    else return { additional := o.value, size := 1, maxSize := 1 }      -- fitted to one byte after fix_addresses
  if mn == "FDB" then
    noneGuard
    if o.value.isMultiWord then
      let bl ← byteLen
      return { additional := o.value, size := bl, maxSize := bl }
    else return { additional := o.value, size := 2, maxSize := 2 }      -- fitted to two bytes after fix_addresses
  if mn == "RMB" then
    noneGuard
    if !o.value.isNumeric || o.value.isNegative then throw .operandType   -- "not a number of bytes to reserve"
    let int ← match o.value.int? with | some i => pure i | none => throw .other
    let a ← numericOfInt 0 (some (int * 2)) .none
    return { additional := a, size := int, maxSize := int }
  if mn == "ORG" then
    noneGuard
    if !o.value.isNumeric || o.value.isNegative then throw .operandType   -- "not an address"
    return { address := o.value }
  if mn == "FCC" then
    let bl ← byteLen
    return { additional := o.value, size := bl, maxSize := bl }
  return {}

/-- `Operand.translate()` of every class; `error` = any exception (wrapped into TranslationError) -/
def translateOperand (o : Operand) (row : InstrRow) : R Pkg :=
  match o.kind with
  | .pseudo => translatePseudo o row
  | .special => translateSpecial o row
  | .relative => do
    let op ← opVal row.rel
    match o.value with
    | .pyNone => throw .other
    | v =>
      if !v.isAddress then throw .operandType                         -- "a branch target must be a label"
      return { opCode := op, additional := v, size := row.relSz, maxSize := row.relSz }
  | .inherent => do
    if row.inh.isNone || row.inh == some 0 then throw .operandType
    let op ← opVal row.inh
    return { opCode := op, size := row.inhSz, maxSize := row.inhSz }
  | .immediate => do
    if row.imm.isNone || row.imm == some 0 then throw .operandType
    let op ← opVal row.imm
    return { opCode := op, additional := o.value, size := row.immSz, maxSize := row.immSz }
  | .direct => do
    if row.dir.isNone then throw .operandType
    let op ← opVal row.dir
    return { opCode := op, additional := o.value, size := row.dirSz, maxSize := row.dirSz }
  | .extended => do
    if row.ext.isNone || row.ext == some 0 then throw .operandType
    let op ← opVal row.ext
    return { opCode := op, additional := o.value, size := row.extSz, maxSize := row.extSz }
  | .extIndirect => translateExtIndirect o row
  | .indexed => translateIndexed o row
  | .unknown => .ok { additional := o.value }

end CoCo.Asm
