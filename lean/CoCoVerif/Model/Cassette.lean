/-
Model/Cassette.lean — bug-compatible model of cocoasm/virtualfiles/cassette.py
(CassetteFile.add_file / add_files / list_files / read_file / read_blocks / skip_to_sequence).

Pointers into the Python buffer are modelled as suffixes of the byte list: "pointer p" is
`buf.drop p`.  Every Python index that can raise IndexError is a guarded step returning
`Outcome.internal`; VirtualFileValidationError is `Outcome.diag`.
-/
import CoCoVerif.Model.Basic

namespace CoCo

/-- The fields of a `CoCoFile` that the containers read or write.  `NoneValue` addresses are 0
(their `high_byte()`/`low_byte()` are 0). Names and extensions are lists of code points. -/
structure CFile where
  name  : List Nat
  ext   : List Nat
  ftype : Nat
  dtype : Nat
  gaps  : Nat
  load  : Nat
  exec  : Nat
  data  : Bytes
deriving Repr, DecidableEq

namespace Cas

def blank : Bytes := List.replicate 128 0x00
def leader : Bytes := List.replicate 128 0x55

/-- `append_name`: the first 8 characters, padded with `$20` -/
def padName (name : List Nat) : List Nat :=
  name.take 8 ++ List.replicate (8 - name.length) 0x20

/-- the 15 payload bytes of the name-file block as `append_header` writes them -/
def hdrPayload (f : CFile) : Bytes :=
  padName f.name ++ [f.ftype, f.dtype, 0x00, f.load / 256, f.load % 256, f.exec / 256, f.exec % 256]

def header (f : CFile) : Bytes :=
  [0x55, 0x3C, 0x00, 0x0F] ++ hdrPayload f ++ [(0x0F + bsum (hdrPayload f)) % 256, 0x55]

/-- one data block of `append_data_blocks` (payload of at most 255 bytes) -/
def block (p : Bytes) : Bytes :=
  [0x55, 0x3C, 0x01, p.length] ++ p ++ [(0x01 + p.length + bsum p) % 256, 0x55]

/-- `append_data_blocks` (recursive in the Python; fuel = number of blocks + 1) -/
def dataBlocksF : Nat → Bytes → Bytes
  | 0, _ => []
  | fuel + 1, d =>
    if d.length = 0 then []
    else if d.length < 255 then block d
    else block (d.take 255) ++ dataBlocksF fuel (d.drop 255)

def dataBlocks (d : Bytes) : Bytes := dataBlocksF (d.length / 255 + 1) d

def eof : Bytes := [0x55, 0x3C, 0xFF, 0x00, 0xFF, 0x55]

/-- `add_file` appends to the buffer -/
def fileBytes (f : CFile) : Bytes :=
  blank ++ leader ++ header f ++ blank ++ leader ++ dataBlocks f.data ++ eof

def addFile (buf : Bytes) (f : CFile) : Bytes := buf ++ fileBytes f

/-- `CassetteFile().add_files(fs); get_buffer()` -/
def write (fs : List CFile) : Bytes := fs.foldl addFile []

/-! ### reader -/

/-- `skip_to_sequence`: the suffix starting at the first occurrence of `pat`, `none` for -1 -/
def skipTo (pat : Bytes) : Bytes → Option Bytes
  | [] => none
  | b :: rest => if pat.isPrefixOf (b :: rest) then some (b :: rest) else skipTo pat rest

/-- strict UTF-8 decoding of `bytearray(...).decode("utf-8")`; `none` = UnicodeDecodeError.
fuel = number of bytes. -/
def utf8DecodeF : Nat → Bytes → Option (List Nat)
  | 0, [] => some []
  | 0, _ => none
  | fuel + 1, bs =>
    match bs with
    | [] => some []
    | b0 :: r =>
      if b0 < 0x80 then (utf8DecodeF fuel r).map (b0 :: ·)
      else if 0xC2 ≤ b0 ∧ b0 ≤ 0xDF then
        match r with
        | b1 :: r' =>
          if 0x80 ≤ b1 ∧ b1 ≤ 0xBF then
            (utf8DecodeF fuel r').map (((b0 - 0xC0) * 64 + (b1 - 0x80)) :: ·)
          else none
        | _ => none
      else if 0xE0 ≤ b0 ∧ b0 ≤ 0xEF then
        match r with
        | b1 :: b2 :: r' =>
          let lo := if b0 = 0xE0 then 0xA0 else 0x80
          let hi := if b0 = 0xED then 0x9F else 0xBF
          if lo ≤ b1 ∧ b1 ≤ hi ∧ 0x80 ≤ b2 ∧ b2 ≤ 0xBF then
            (utf8DecodeF fuel r').map (((b0 - 0xE0) * 4096 + (b1 - 0x80) * 64 + (b2 - 0x80)) :: ·)
          else none
        | _ => none
      else if 0xF0 ≤ b0 ∧ b0 ≤ 0xF4 then
        match r with
        | b1 :: b2 :: b3 :: r' =>
          let lo := if b0 = 0xF0 then 0x90 else 0x80
          let hi := if b0 = 0xF4 then 0x8F else 0xBF
          if lo ≤ b1 ∧ b1 ≤ hi ∧ 0x80 ≤ b2 ∧ b2 ≤ 0xBF ∧ 0x80 ≤ b3 ∧ b3 ≤ 0xBF then
            (utf8DecodeF fuel r').map
              (((b0 - 0xF0) * 262144 + (b1 - 0x80) * 4096 + (b2 - 0x80) * 64 + (b3 - 0x80)) :: ·)
          else none
        | _ => none
      else none

def utf8Decode (bs : Bytes) : Option (List Nat) := utf8DecodeF bs.length bs

/-- `read_blocks`: returns (data, suffix after the EOF block). Each iteration consumes at least
three bytes, so fuel = length of the buffer + 1 always suffices (`readBlocks`). -/
def readBlocksF : Nat → Bytes → Bytes → Outcome (Bytes × Bytes)
  | 0, _, _ => .diverged
  | fuel + 1, buf, acc =>
    match skipTo [0x55, 0x3C] buf with
    | none => .diag                                   -- "Data or EOF block not found"
    | some s =>
      match s.drop 2 with
      | [] => .internal                               -- IndexError reading the block type
      | t :: s3 =>
        if t = 0xFF then .ok (acc, s3.drop 3)
        else if t = 0x01 then
          match s3 with
          | [] => .internal                           -- IndexError reading the length
          | len :: s4 =>
            if s4.length < len then .internal         -- IndexError inside the payload loop
            else readBlocksF fuel (s4.drop (len + 2)) (acc ++ s4.take len)
        else .diag                                    -- "Unknown block type found"

def readBlocks (buf : Bytes) : Outcome (Bytes × Bytes) := readBlocksF (buf.length + 1) buf []

/-- `read_file`: `ok none` is Python's `(None, pointer)` -/
def readFile (buf : Bytes) : Outcome (Option (CFile × Bytes)) :=
  match skipTo [0x55, 0x3C, 0x00] buf with
  | none => .ok none
  | some s0 =>
    let s := s0.drop 4
    if s.length < 8 then .internal                    -- IndexError in read_coco_file_name
    else
      match utf8Decode (s.take 8) with
      | none => .internal                             -- UnicodeDecodeError
      | some name =>
        match s.drop 8 with
        | ftype :: dtype :: gaps :: s11 =>
          if s11.length < 2 then .diag                -- read_word: insufficient bytes
          else if (s11.drop 2).length < 2 then .diag
          else
            let load := s11.getD 0 0 * 256 + s11.getD 1 0
            let exec := s11.getD 2 0 * 256 + s11.getD 3 0
            match readBlocks (s11.drop 6) with
            | .ok (data, rest) =>
              if data.isEmpty then .ok none           -- `if not data: return None, pointer`
              else .ok (some ({ name := name, ext := if ftype = 0x02 then [66, 73, 78] else [66, 65, 83],
                                ftype := ftype, dtype := dtype, gaps := gaps,
                                load := load, exec := exec, data := data }, rest))
            | .diag => .diag
            | .internal => .internal
            | .diverged => .diverged
        | _ => .internal                              -- IndexError on type / data type / gap byte

/-- `list_files()` -/
def listF : Nat → Bytes → List CFile → Outcome (List CFile)
  | 0, _, _ => .diverged
  | fuel + 1, buf, acc =>
    match readFile buf with
    | .ok none => .ok acc
    | .ok (some (f, rest)) => listF fuel rest (acc ++ [f])
    | .diag => .diag
    | .internal => .internal
    | .diverged => .diverged

def list (buf : Bytes) : Outcome (List CFile) := listF (buf.length + 1) buf []

/-- what a stored file looks like when listed from a cassette: name padded/truncated to 8,
extension derived from the type, gap flag 0 -/
def norm (f : CFile) : CFile :=
  { f with name := padName f.name, ext := if f.ftype = 0x02 then [66, 73, 78] else [66, 65, 83], gaps := 0 }

end Cas
end CoCo
