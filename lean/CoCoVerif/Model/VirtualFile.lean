/-
Model/VirtualFile.lean — bug-compatible model of cocoasm/virtualfiles/virtual_file.py (sniffing,
open_virtual_file / add_coco_file / save_virtual_file) over an abstract host file system, and of
the decision logic of the two command line tools (assembler.py, file_util.py).

Not modelled (trusted base): argparse, `open`/`read`/`write`/`os.path.exists` themselves — the host
file system is a finite map from path to content, a write replaces the content atomically.
-/
import CoCoVerif.Model.Cassette
import CoCoVerif.Model.Disk
import CoCoVerif.Model.Program

namespace CoCo.VF
open CoCo

abbrev Path := List Char
/-- the host file system: path ↦ content -/
abbrev FS := List (Path × Bytes)

def FS.get? (fs : FS) (p : Path) : Option Bytes := (fs.find? (·.1 == p)).map (·.2)
def FS.set (fs : FS) (p : Path) (b : Bytes) : FS :=
  if (fs.get? p).isSome then fs.map (fun e => if e.1 == p then (p, b) else e) else fs ++ [(p, b)]

inductive Kind | cassette | binary | disk
deriving Repr, DecidableEq

/-- `VirtualFile.get_coco_files`: disk first, then cassette (bytes holding at least one cassette file, or an
empty host file), else binary. Exceptions other than VirtualFileValidationError escape (`internal`). -/
def sniff (buf : Bytes) : Outcome (List CFile × Kind) :=
  match Dsk.list buf with
  | .ok fs => .ok (fs, .disk)
  | .diag =>
    (match Cas.list buf with
     | .ok fs => if !fs.isEmpty || buf.isEmpty then .ok (fs, .cassette) else .ok ([], .binary)
     | .diag => .ok ([], .binary)
     | .internal => .internal
     | .diverged => .diverged)
  | .internal => .internal
  | .diverged => .diverged

structure VFile where
  path : Path
  kind : Option Kind
  files : List CFile := []
  exists_ : Bool := false
deriving Repr

/-- `VirtualFile(SourceFile(path), kind).open_virtual_file()` -/
def openVF (fs : FS) (path : Path) (requested : Option Kind) : Outcome VFile :=
  match fs.get? path with
  | none => .ok { path := path, kind := requested }
  | some buf =>
    match sniff buf with
    | .ok (files, k) =>
      match requested with
      | some r => if r ≠ k then .diag else .ok { path := path, kind := some k, files := files, exists_ := true }
      | none => .ok { path := path, kind := some k, files := files, exists_ := true }
    | .diag => .diag
    | .internal => .internal
    | .diverged => .diverged

def addCoco (v : VFile) (f : CFile) : VFile := { v with files := v.files ++ [f] }

/-- the image `save_virtual_file` builds for the kind (before the exists/append test) -/
def buildImage (k : Kind) (files : List CFile) : Outcome Bytes :=
  match k with
  | .cassette => .ok (Cas.write files)
  | .binary => .ok (files.flatMap (·.data))
  | .disk => Dsk.write Gen.granuleFillOrder files

/-- `save_virtual_file(append_mode)`: the new host file system; `diag` = FileExistsError or
VirtualFileValidationError (nothing written) -/
def saveVF (fs : FS) (v : VFile) (append : Bool) : Outcome FS :=
  match v.kind with
  | none => .ok fs
  | some k =>
    match buildImage k v.files with
    | .ok img => if v.exists_ && !append then .diag else .ok (fs.set v.path img)
    | .diag => .diag
    | .internal => .internal
    | .diverged => .diverged

/-- open; add the files; save — what both tools do for one target -/
def storeTo (fs : FS) (path : Path) (k : Kind) (newFiles : List CFile) (append : Bool) : Outcome FS :=
  match openVF fs path (some k) with
  | .ok v => saveVF fs (newFiles.foldl addCoco v) append
  | .diag => .diag
  | .internal => .internal
  | .diverged => .diverged

/-! ### assembler.py -/

structure AsmArgs where
  toBin : Option Path := none
  toCas : Option Path := none
  toDsk : Option Path := none
  name : Option (List Char) := none
  append : Bool := false

/-- result of `assembler.main`: exit status and the host file system afterwards -/
structure CliResult where
  exit : Nat
  fs : FS
  refused : List Kind := []      -- targets for which "Unable to save ..." was printed

def chars (s : List Char) : List Nat := s.map Char.toNat

/-- the CoCoFile `main` builds from the assembled program -/
def cocoOfAssembly (a : Asm.Assembly) (argName : Option (List Char)) : Option CFile :=
  match a.image with
  | none => none
  | some img =>
    let name := match a.name with
      | some n => if n.isEmpty then argName.getD [] else n          -- `program.name or args.name`
      | none => argName.getD []
    -- load_addr / exec_addr are the origin Value: high_byte()/low_byte() go through its hex string
    let o := a.origin
    let hl := (o.hexLen?).getD 0
    let hx := (o.hex?).getD []
    let byteAt (cs : List Char) : Nat := cs.foldl (fun acc c => acc * 16 + Asm.digitVal c) 0
    let hi := if hl ≤ 2 then 0 else byteAt (hx.take 2)
    let lo := if hl = 0 then 0 else if hl ≤ 2 then byteAt (hx.take 2) else byteAt (hx.drop 2)
    some { name := chars name, ext := chars "bin".toList, ftype := 2, dtype := 0, gaps := 0,
           load := hi * 256 + lo, exec := hi * 256 + lo, data := img }

/-- `assembler.main(args)` for a source given as lines -/
def asmMain (fs : FS) (incl : Asm.Files) (lines : List (List Char)) (args : AsmArgs) : CliResult :=
  match Asm.assemble incl lines with
  | .ok a =>
    match cocoOfAssembly a args.name with
    | none => { exit := 1, fs := fs }                                 -- get_binary_array raised: traceback
    | some cf =>
      let step (st : FS × List Kind) (t : Option Path) (k : Kind) : FS × List Kind :=
        match t with
        | none => st
        | some p =>
          match storeTo st.1 p k [cf] args.append with
          | .ok fs' => (fs', st.2)
          | _ => (st.1, st.2 ++ [k])                                  -- `except Exception: print(...)`
      let s1 := step (fs, []) args.toBin .binary
      if args.toCas.isSome && cf.name.isEmpty then { exit := 0, fs := s1.1, refused := s1.2 }
      else
        let s2 := step s1 args.toCas .cassette
        if args.toDsk.isSome && cf.name.isEmpty then { exit := 0, fs := s2.1, refused := s2.2 }
        else
          let s3 := step s2 args.toDsk .disk
          { exit := 0, fs := s3.1, refused := s3.2 }
  | _ => { exit := 1, fs := fs }                                      -- diagnostic, or a traceback

/-! ### file_util.py -/

structure UtilArgs where
  host : Path
  toBin : Option Path := none
  toCas : Option Path := none
  toDsk : Option Path := none
  files : Option (List (List Char)) := none
  append : Bool := false

def upperS (s : List Char) : List Char := s.map Asm.upperC

/-- `file.name.strip().replace("\0", "")` then `.upper() in files_to_include` -/
def selected (sel : Option (List (List Char))) (f : CFile) : Bool :=
  match sel with
  | none => true
  | some names =>
    let nm := (Asm.strip (f.name.map Char.ofNat)).filter (· != Char.ofNat 0)
    (names.map upperS).contains (upperS nm)

/-- `file_util.main(args)` without `--list`; every exception is caught, printed, exit 1 -/
def utilMain (fs : FS) (args : UtilArgs) : CliResult :=
  match openVF fs args.host none with
  | .ok src =>
    let conv (st : Outcome FS) (t : Option Path) (k : Kind) : Outcome FS :=
      match st, t with
      | .ok cur, some p => storeTo cur p k (src.files.filter (selected args.files)) args.append
      | st, _ => st
    let s1 := conv (.ok fs) args.toCas .cassette
    let s2 := conv s1 args.toDsk .disk
    let s3 : Outcome FS :=
      match s2, args.toBin with
      | .ok cur, some p =>
        (match openVF cur p (some .binary) with
         | .ok tgt =>
           if src.files.length > 1 then .diag                          -- "More than one file ...": exit 1
           else
             match src.files with
             | [] => .internal                                          -- files[0]: IndexError (caught: exit 1)
             | f :: _ => saveVF cur (if selected args.files f then addCoco tgt f else tgt) args.append
         | o => (match o with | .diag => .diag | .internal => .internal | _ => .diverged))
      | st, _ => st
    -- a failing step leaves the effects of the earlier steps in place
    let fsAfter : FS :=
      match s3 with
      | .ok f => f
      | _ => (match s2 with | .ok f => f | _ => (match s1 with | .ok f => f | _ => fs))
    { exit := (match s3 with | .ok _ => 0 | _ => 1), fs := fsAfter }
  | _ => { exit := 1, fs := fs }

end CoCo.VF
