/-
Model/Program.lean — bug-compatible model of cocoasm/statement.py and cocoasm/program.py
(as they stand after the repairs recorded in known_findings.json): the line scanner (the three
compiled patterns of statement.py), `Statement.parse_line`, INCLUDE expansion, the symbol table,
`resolve_symbols` / `translate`, the PCR size fixpoint, address assignment, `fix_addresses`,
the listing and `get_binary_array`.

Input domain: ASCII lines without interior newline (a final newline is what a file gives).
-/
import CoCoVerif.Model.Operands

namespace CoCo.Asm
open CoCo
open CoCo.Gen (InstrRow)

structure Stmt where
  label : Str
  mnemonic : Str
  row : InstrRow
  operand : Operand
  origText : Str            -- original_operand.operand_string (listing)
  comment : Str
  pkg : Pkg := {}
  fixedSize : Bool := true
  pcrHint : Nat := 2
deriving Repr, Inhabited

/-! ### the line scanner -/

def isLabelCh (c : Char) : Bool := isWord c || c == '@'
def isOperandCh (c : Char) : Bool :=
  isWord c || "[]><'\"@:,.#?$%^&*()=!+-/".toList.contains c

def strip (s : Str) : Str := ((s.dropWhile isSpace).reverse.dropWhile isSpace).reverse

def upperC (c : Char) : Char := if 'a' ≤ c && c ≤ 'z' then Char.ofNat (c.toNat - 32) else c

/-- what is left for `.*$`: no newline except as the very last character -/
def dotStarEnd (s : Str) : Option Str :=
  let body := if s.getLast? == some '\n' then s.dropLast else s
  if body.contains '\n' then none else some body

inductive LineKind
  | blank
  | comment
  | asm (label mnemonic operands comment : Str)
  | bad

/-- BLANK_LINE_REGEX.search / COMMENT_LINE_REGEX.match / ASM_LINE_REGEX.match, in that order.
`asm` is only reported for the greedy parse; whenever the greedy parse fails Python's backtracking can
only produce an empty mnemonic or no match, both of which end in a ParseError (`bad`). -/
def scanLine (line : Str) : LineKind :=
  if line.all isSpace then .blank
  else
    let t := line.dropWhile isSpace
    if t.head? == some ';' ∧ (dotStarEnd t).isSome then .comment
    else
      let label := line.takeWhile isLabelCh
      let r1 := line.dropWhile isLabelCh
      if (r1.takeWhile isSpace).isEmpty then .bad else
      let r2 := r1.dropWhile isSpace
      let mn := r2.takeWhile isWord
      let r3 := r2.dropWhile isWord
      if mn.isEmpty ∨ (r3.takeWhile isSpace).isEmpty then .bad else
      let r4 := r3.dropWhile isSpace
      let ops := r4.takeWhile isOperandCh
      let r5 := r4.dropWhile isOperandCh
      let r7 := (r5.dropWhile isSpace).dropWhile (· == ';')
      match dotStarEnd r7 with
      | none => .bad
      | some c => .asm label mn ops c

/-- the line from the start of the `operands` group of ASM_LINE_REGEX (greedy parse: label, blanks, mnemonic, blanks) -/
def operandsTail (line : Str) : Str :=
  (((line.dropWhile isLabelCh).dropWhile isSpace).dropWhile isWord).dropWhile isSpace

/-- `str.rstrip()` -/
def rstrip (s : Str) : Str := (s.reverse.dropWhile isSpace).reverse

def findRow (mn : Str) : Option InstrRow := Gen.instructions.find? (fun r => r.mnemonic.toList == mn)

/-- index of the first occurrence of `c` at or after position 1 (`str.find(c, 1)`), -1 as `none` -/
def findFrom1 (c : Char) (s : Str) : Option Nat :=
  match (s.drop 1).findIdx? (· == c) with
  | some i => some (i + 1)
  | none => none

/-- `Statement(line)`: `ok none` for blank / comment-only lines; any failure is a ParseError -/
def parseLine (line : Str) : Outcome (Option Stmt) :=
  match scanLine line with
  | .blank | .comment => .ok none
  | .bad => .diag
  | .asm label mn0 ops comment =>
    let mn := mn0.map upperC
    match findRow mn with
    | none => .diag                                          -- invalid mnemonic
    | some row =>
      if row.isStringDefine then
        -- the string is taken from the line as it was written (fix d74c37d): `line[data.start("operands"):].rstrip()`
        let oo := rstrip (operandsTail line)
        match oo with
        | [] => .diag
        | c :: _ =>
          let endLoc : Nat := match findFrom1 c oo with | some i => i + 1 | none => 0     -- ending_location + 1
          match createOperand (strip (oo.take endLoc)) row with
          | .ok o => .ok (some { label := label, mnemonic := mn, row := row, operand := o, origText := o.text,
                                 comment := strip ((strip (oo.drop endLoc)).dropWhile (· == ';')) })
          | .error _ => .diag
      else
        match createOperand ops row with
        | .ok o => .ok (some { label := label, mnemonic := mn, row := row, operand := o, origText := o.text,
                               comment := strip comment })
        | .error _ => .diag

/-! ### Program -/

/-- an abstract host file system for INCLUDE: file name ↦ lines -/
abbrev Files := List (Str × List Str)

def Files.get? (fs : Files) (n : Str) : Option (List Str) := (fs.find? (·.1 == n)).map (·.2)

/-- `Program.parse` -/
def parseLines : List Str → Outcome (List Stmt)
  | [] => .ok []
  | l :: ls =>
    match parseLine l with
    | .ok none => parseLines ls
    | .ok (some s) => (match parseLines ls with | .ok r => .ok (s :: r) | o => o)
    | .diag => .diag
    | .internal => .internal
    | .diverged => .diverged

/-- the nesting budget of INCLUDE expansion: a file that is already being included is rejected, so a chain of nested
files never holds the same file twice and cannot be longer than the number of files there are; one more level is never
needed. (Python's own limit — its recursion limit, about 980 nested files — is reported as a diagnostic since fix
"INCLUDE files are nested too deeply" and is not modelled.) -/
def includeFuel (fs : Files) : Nat := fs.length + 1

/-- `process_mnemonics(statements, including)`: INCLUDE expansion (after the repair: a file that cannot be read
and a file that is already being included are TranslationErrors). `including` is the chain of files currently
being processed. The Python recursion is bounded by the number of distinct files, so with `includeFuel fs` the fuel
is never exhausted (`expand_includeFuel_ne_internal`); the `internal` of fuel 0 is unreachable from `assemble`. -/
def expand (fs : Files) : Nat → List Str → List Stmt → Outcome (List Stmt)
  | 0, _, _ => .internal
  | fuel + 1, including, stmts =>
    let rec go : List Stmt → Outcome (List Stmt)
      | [] => .ok []
      | s :: rest =>
        if s.row.isInclude && !s.operand.text.isEmpty then
          if including.contains s.operand.text then .diag            -- "[f] includes itself"
          else
            match fs.get? s.operand.text with
            | none => .diag                                           -- "Unable to read [f]"
            | some lines =>
              match parseLines lines with
              | .ok inc =>
                match expand fs fuel (including ++ [s.operand.text]) inc with
                | .ok e => (match go rest with | .ok r => .ok (e ++ r) | o => o)
                | o => o
              | o => o
        else (match go rest with | .ok r => .ok (s :: r) | o => o)
    go stmts

/-- `save_symbol` over all statements; `none` = label redefined (TranslationError) -/
def buildSymTab : List Stmt → Nat → SymTab → Option SymTab
  | [], _, t => some t
  | s :: rest, i, t =>
    if s.label.isEmpty then buildSymTab rest (i + 1) t
    else if (t.get? s.label).isSome then none
    else buildSymTab rest (i + 1) (t ++ [(s.label, if s.row.isPseudoDefine then s.operand.value else .address i .none)])

def resolveAll (t : SymTab) : List Stmt → Option (List Stmt)
  | [] => some []
  | s :: rest =>
    match resolveOperand s.operand s.row t with
    | .ok o => (resolveAll t rest).map ({ s with operand := o } :: ·)
    | .error _ => none

def translateAll : List Stmt → Option (List Stmt)
  | [] => some []
  | s :: rest =>
    match translateOperand s.operand s.row with
    | .ok p => (translateAll rest).map ({ s with pkg := p, fixedSize := p.choices.isEmpty } :: ·)      -- only a label,PCR operand has a size that is still open
    | .error _ => none

/-! #### PCR size fixpoint -/

def sumSizes (ss : List Stmt) (lo hi : Nat) : Nat × Nat :=     -- (Σ size, Σ max_size) over lo ≤ x < hi
  ((ss.drop lo).take (hi - lo)).foldl (fun (a : Nat × Nat) s => (a.1 + s.pkg.size, a.2 + s.pkg.maxSize)) (0, 0)

/-- `extract_address_index_from_expression` / `additional.int` -/
def relIndex (v : Value) : Option Nat :=
  match v with
  | .expr l r _ _ true => if l.isAddress then l.int? else r.int?
  | v => v.int?

def orPost (s : Stmt) (c : Nat) : Option Value :=
  match s.pkg.postByte.int? with
  | some raw => (match numV (raw ||| c) with | .ok v => some v | .error _ => none)
  | none => none

def settle (s : Stmt) (extra hint : Nat) (c : Nat) : Option Stmt :=
  (orPost s c).map (fun pb => { s with pkg := { s.pkg with size := s.pkg.size + extra, maxSize := s.pkg.size + extra, postByte := pb },
                                        pcrHint := hint, fixedSize := true })

/-- a label multiplied or divided, or combined with anything but a number (another label): the 16-bit form is taken at once -/
def exprForces (v : Value) : Bool :=
  match v with
  | .expr l r op _ true => !(op == '+' || op == '-') || !((if l.isAddress then r else l).isNumeric) || (op == '-' && r.isAddress)
  | _ => false

/-- magnitude of the constant of `label +- constant` (widens both distance estimates) -/
def exprExtra (v : Value) : Nat :=
  match v with
  | .expr l r _ _ true => ((if l.isAddress then r.int? else l.int?).getD 0)
  | _ => 0

/-- `determine_pcr_relative_sizes`: `diag` = TranslationError (no post byte choices), `internal` = IndexError etc. -/
def determine (ss : List Stmt) (i : Nat) (s : Stmt) : Outcome Stmt :=
  match s.pkg.choices with
  | [c0, c1] =>
    if exprForces s.pkg.additional then (match settle s 2 4 c1 with | some s' => .ok s' | none => .internal) else
    match relIndex s.pkg.additional with
    | none => .internal
    | some rel =>
      if rel > ss.length then .internal else
      let back := rel ≤ i                             -- the statement's own label counts as a backward reference
      let (mn, mx) := if back then sumSizes ss rel i else sumSizes ss i rel
      let adj := (if back then s.pkg.size - 1 else 0) + exprExtra s.pkg.additional
      let mn := mn + 2 + adj
      let mx := mx + 2 + adj
      let lim := if back then 128 else 127
      if mn ≤ lim ∧ mx ≤ lim then (match settle s 1 2 c0 with | some s' => .ok s' | none => .internal)
      else if mn > lim ∧ mx > lim then (match settle s 2 4 c1 with | some s' => .ok s' | none => .internal)
      else .ok s
  | [] => .diag
  | _ => .internal

/-- one pass of the `for` loop inside `while not all_sizes_fixed()`; returns the new list and whether a
statement became fixed -/
def pcrPass : Nat → List Stmt → Nat → Bool → Outcome (List Stmt × Bool)
  | 0, ss, _, p => .ok (ss, p)
  | n + 1, ss, i, p =>
    match ss[i]? with
    | none => .ok (ss, p)
    | some s =>
      if s.fixedSize then pcrPass n ss (i + 1) p
      else
        match determine ss i s with
        | .ok s' => pcrPass n (ss.set i s') (i + 1) (p || s'.fixedSize)
        | .diag => .diag
        | .internal => .internal
        | .diverged => .diverged

/-- `force_pcr_16_bit` on the first undecided statement -/
def forceFirst : List Stmt → Option (List Stmt)
  | [] => some []
  | s :: rest =>
    if s.fixedSize then (forceFirst rest).map (s :: ·)
    else
      match s.pkg.choices with
      | [_, c1] => (settle s 2 4 c1).map (· :: rest)
      | _ => none

def allFixed (ss : List Stmt) : Bool := ss.all (·.fixedSize)

/-- the `while` loop; every pass settles at least one statement, so `ss.length + 1` passes suffice -/
def pcrLoop : Nat → List Stmt → Outcome (List Stmt)
  | 0, ss => if allFixed ss then .ok ss else .diverged
  | fuel + 1, ss =>
    if allFixed ss then .ok ss
    else
      match pcrPass ss.length ss 0 false with
      | .ok (ss', true) => pcrLoop fuel ss'
      | .ok (ss', false) => (match forceFirst ss' with | some ss'' => pcrLoop fuel ss'' | none => .internal)
      | .diag => .diag
      | .internal => .internal
      | .diverged => .diverged

/-! #### addresses -/

/-- the check made in the address loop (fix for finding B1): the image is one contiguous block loaded at one origin, so
an ORG must come before the first label and the first byte of the program. `laid` = some earlier statement emits bytes
or carries a label that stands for an address. -/
def orgOK : List Stmt → Bool → Bool
  | [], _ => true
  | s :: rest, laid =>
    !(s.row.isOrigin && laid) && orgOK rest (laid || decide (0 < s.pkg.size) || (!s.label.isEmpty && !s.row.isPseudoDefine))

/-- `set_address` + `address += size` over all statements -/
def assignAddrs : List Stmt → Nat → Outcome (List Stmt)
  | [], _ => .ok []
  | s :: rest, a =>
    if s.pkg.address.isNone then
      match numV a with
      | .ok v => (match assignAddrs rest (a + s.pkg.size) with
                  | .ok r => .ok ({ s with pkg := { s.pkg with address := v } } :: r) | o => o)
      | .error _ => .diag                                     -- address above 65535: "outside the 64K address space" (after the repair)
    else
      match s.pkg.address.int? with
      | some a' => (match assignAddrs rest (a' + s.pkg.size) with | .ok r => .ok (s :: r) | o => o)
      | none => .internal

def addrOf (ss : List Stmt) (i : Nat) : Option Value := (ss[i]?).map (·.pkg.address)
def addrIntOf (ss : List Stmt) (i : Nat) : Option Nat := (addrOf ss i).bind Value.int?

/-- the value of one operand of a label expression: a label's ADDRESS, a (signed) number; anything else is an
"unresolved expression" (`diag`) -/
def addrOperand (ss : List Stmt) (x : Value) : Outcome Int :=
  if x.isAddress then (match x.int? with
                       | some j => (match addrIntOf ss j with | some a => .ok (a : Int) | none => .internal)
                       | none => .internal)
  else if x.isNumeric then (match x.int? with
                            | some n => .ok (if x.isNegative then -(n : Int) else n) | none => .internal)
  else .diag

/-- `ExpressionValue.calculate_address_offset`: left `op` right on the two operand values IN THIS ORDER; a result below
zero is reduced modulo 65536, one above 65535 and a division by zero are diagnostics -/
def addrOffset (ss : List Stmt) (v : Value) : Outcome Value :=
  match v with
  | .expr l r op _ _ =>
    match addrOperand ss l with
    | .ok a =>
      (match addrOperand ss r with
       | .ok b =>
         let z : Option Int :=
           if op == '+' then some (a + b) else if op == '-' then some (a - b)
           else if op == '*' then some (a * b) else (if b = 0 then none else some (Int.tdiv a b))
         (match z with
          | none => .diag                                          -- ZeroDivisionError, reported as a TranslationError
          | some z =>
            let z := if z < 0 then z % 65536 else z
            (match numericOfInt z (some 4) .extended with | .ok nv => .ok nv | .error _ => .diag))
       | o => (match o with | .diag => .diag | .internal => .internal | .diverged => .diverged | .ok _ => .internal))
    | .diag => .diag
    | .internal => .internal
    | .diverged => .diverged
  | _ => .internal

def sumSize (ss : List Stmt) (lo hi : Nat) : Nat := (sumSizes ss lo hi).1

/-- `fix_addresses`; `diag` = branch out of range -/
def fixOne (ss : List Stmt) (i : Nat) (s : Stmt) : Outcome Stmt :=
  if s.operand.kind == .relative then
    match s.pkg.additional.int? with
    | none => .internal
    | some b =>
      let short := s.row.isShortBranch
      let hint := if short then 2 else 4
      if b ≤ i then
        let len := 1 + sumSize ss b (i + 1)
        if (short ∧ len > 129) ∨ len > 0x10000 then .diag
        else match numericOfInt ((if short then (0x101 : Int) else 0x10001) - len) (some hint) .none with
          | .ok v => .ok { s with pkg := { s.pkg with additional := v } }
          | .error _ => .internal
      else
        let len := sumSize ss (i + 1) b
        if (short ∧ len > 127) ∨ len > 0xFFFF then .diag
        else match numericOfInt len (some hint) .none with
          | .ok v => .ok { s with pkg := { s.pkg with additional := v } }
          | .error _ => .internal
  else
    match s.operand.value with
    | .pyNone => .internal                                    -- None.is_address_expression()
    | ov =>
      let step1 : Outcome Stmt :=
        if ov.isAddrExpr then (match addrOffset ss ov with | .ok v => .ok { s with pkg := { s.pkg with additional := v } } | .diag => .diag | .internal => .internal | .diverged => .diverged)
        else .ok s
      match step1 with
      | .ok s1 =>
        let s2o : Outcome Stmt :=
          if ov.isAddress then
            match ov.int? with
            | some t => (match addrOf ss t with | some a => .ok { s1 with pkg := { s1.pkg with additional := a } } | none => .internal)
            | none => .internal
          else .ok s1
        match s2o with
        | .ok s2 =>
          if s2.pkg.needsRes then
            let idx := s2.operand.kind == .indexed || s2.operand.kind == .extIndirect
            let leftV : Option Value := match s2.pkg.additional with | .expr _ _ _ _ true => some s2.pkg.additional | _ => none
            let rel : Outcome Nat :=
              match idx, leftV with
              | true, some e => (match addrOffset ss e with | .ok v => (match v.int? with | some n => .ok n | none => .internal) | .diag => .diag | .internal => .internal | .diverged => .diverged)
              | _, _ => (match s2.pkg.additional.int? with
                         | some t => (match addrIntOf ss t with | some a => .ok a | none => .internal)
                         | none => .internal)
            if s2.pkg.choices.isEmpty then
              -- a label as constant offset of a pointer register (LDA TABLE,X): the address itself is the offset
              match rel with
              | .ok r => (match numericOfInt r (some 4) .none with
                          | .ok v => .ok { s2 with pkg := { s2.pkg with additional := v } }
                          | .error _ => .internal)
              | .diag => .diag
              | _ => .internal
            else
            match rel, addrIntOf ss i with
            | .ok r, some start =>
              let jump : Int := (r : Int) - start - s2.pkg.size
              let jump : Int := (jump + 0x8000) % 0x10000 - 0x8000      -- signed distance modulo 65536 (fix ec1693d)
              if s2.pcrHint ≠ 4 ∧ (jump < -128 ∨ jump > 127) then .diag   -- "out of range of the 8-bit offset" (a later ORG in between)
              else
              let jump : Int := if s2.pcrHint = 4 then jump % 0x10000 else jump
              (match numericOfInt jump (some s2.pcrHint) .none with
               | .ok v => .ok { s2 with pkg := { s2.pkg with additional := v } }
               | .error _ => .internal)
            | .ok _, none => .internal
            | .diag, _ => .diag
            | _, _ => .internal
          else .ok s2
        | o => o
      | o => o

/-- `Statement.fit_operand_width` (fix: the operand field is as wide as the instruction form says — the size
less op code and post byte — however the value was spelt; a value that does not fit is a TranslationError).
`digits` counts hex digits; a negative value is stored in two's complement at that width. -/
def fitWidth (s : Stmt) : Outcome Stmt :=
  if (s.row.isPseudo && !(s.row.isMultiByte || s.row.isMultiWord)) || s.row.isSpecial then .ok s else
  match s.pkg.additional with
  | .numeric n _ _ neg =>
    match s.pkg.opCode.hexLen?, s.pkg.postByte.hexLen? with
    | some a, some b =>
      let digits : Int := 2 * (s.pkg.size : Int) - a - b
      if digits = 2 ∨ digits = 4 then
        (match fitNum n neg digits.toNat with
         | .ok v => .ok { s with pkg := { s.pkg with additional := v } }
         | .error _ => .diag)
      else .diag
    | _, _ => .internal
  | _ => .ok s

/-- the loop `fix_addresses; fit_operand_width` over all statements -/
def fixAll (ss : List Stmt) : Nat → List Stmt → Outcome (List Stmt)
  | _, [] => .ok []
  | i, s :: rest =>
    match (match fixOne ss i s with | .ok s1 => fitWidth s1 | o => o) with
    | .ok s' => (match fixAll ss (i + 1) rest with | .ok r => .ok (s' :: r) | o => o)
    | .diag => .diag
    | .internal => .internal
    | .diverged => .diverged

/-! #### emission and listing -/

/-- the loop of `get_binary_array` over one hex string: `n` byte pairs taken from the front; `none` = IndexError -/
def emitPairs : Nat → Str → Bytes → Option Bytes
  | 0, _, acc => some acc.reverse
  | n + 1, a :: b :: rest, acc => emitPairs n rest ((digitVal a * 16 + digitVal b) :: acc)
  | _ + 1, _, _ => none

/-- `for index in range(0, hex_len, 2): int(hex[index] + hex[index + 1], 16)` -/
def emitHex (hex : Str) (hexLen : Nat) : Option Bytes := emitPairs ((hexLen + 1) / 2) hex []

def emitValue (v : Value) : Option Bytes :=
  match v.hex?, v.hexLen? with
  | some h, some l => emitHex h l
  | _, _ => none

/-- bytes of one statement -/
def stmtBytes (s : Stmt) : Option Bytes := do
  let a ← emitValue s.pkg.opCode
  let b ← emitValue s.pkg.postByte
  let c ← emitValue s.pkg.additional
  pure (a ++ b ++ c)

structure Assembly where
  stmts : List Stmt
  symtab : SymTab
  origin : Value
  name : Option Str
deriving Repr

/-- final symbol table: addresses replace statement indices -/
def finalSymTab (ss : List Stmt) : SymTab → Outcome SymTab
  | [] => .ok []
  | (k, v) :: rest =>
    match finalSymTab ss rest with
    | .ok r =>
      (match v with
       | .address i _ => (match addrOf ss i with | some a => .ok ((k, a) :: r) | none => .internal)
       | .pyNone => .internal
       | v => .ok ((k, v) :: r))
    | o => o

/-- one element of an FCB / FDB list that is a symbol or an expression (fix: such elements used to be rejected):
`resolve` against the label table, a label or label expression is replaced by its value on the final addresses, the
result is rendered at the width of the directive; anything that has no value of that width is a TranslationError -/
def evalElem (ss : List Stmt) (t : SymTab) (w : Nat) (x : Str) : Outcome Str :=
  match create 4 x false false true with
  | .error _ => .diag
  | .ok v =>
    match v.resolve t with
    | .error _ => .diag
    | .ok r =>
      let num : Outcome Value :=
        if r.isAddress then (match r.int? with
                             | some j => (match addrOf ss j with | some a => .ok a | none => .internal)
                             | none => .internal)
        else if r.isAddrExpr then addrOffset ss r
        else .ok r
      match num with
      | .ok (.numeric n _ _ neg) =>
        (match fitNum n neg w with
         | .ok f => (match f.hex? with | some h => .ok h | none => .internal)
         | .error _ => .diag)
      | .ok _ => .diag
      | .diag => .diag
      | .internal => .internal
      | .diverged => .diverged

/-- the elements of a list operand: literals keep the digits they were given at parse time (`hs`), the others are evaluated -/
def evalElems (ss : List Stmt) (t : SymTab) (w : Nat) : List Str → List Str → Outcome (List Str)
  | x :: xs, h :: hs =>
    let cur : Outcome Str := if pendingElem x && (elemHex w x matches .error _) then evalElem ss t w x else .ok h
    (match cur with
     | .ok h' => (match evalElems ss t w xs hs with | .ok r => .ok (h' :: r) | o => o)
     | .diag => .diag
     | .internal => .internal
     | .diverged => .diverged)
  | _, _ => .ok []

/-- `MultiByteValue.resolve` + `fix_addresses` for every FCB / FDB list statement, after `fix_addresses` of the program -/
def evalLists (t : SymTab) (ss : List Stmt) : List Stmt → Outcome (List Stmt)
  | [] => .ok []
  | s :: rest =>
    let cur : Outcome Stmt :=
      match s.pkg.additional with
      | .multiByte hs =>
        (match evalElems ss t 2 (listElems s.operand.text) hs with
         | .ok hs' => .ok { s with pkg := { s.pkg with additional := .multiByte hs' } }
         | .diag => .diag | .internal => .internal | .diverged => .diverged)
      | .multiWord hs =>
        (match evalElems ss t 4 (listElems s.operand.text) hs with
         | .ok hs' => .ok { s with pkg := { s.pkg with additional := .multiWord hs' } }
         | .diag => .diag | .internal => .internal | .diverged => .diverged)
      | _ => .ok s
    match cur with
    | .ok s' => (match evalLists t ss rest with | .ok r => .ok (s' :: r) | o => o)
    | .diag => .diag
    | .internal => .internal
    | .diverged => .diverged

/-- `fix_addresses; fit_operand_width` over all statements, then the elements of the FCB / FDB lists -/
def fixAllL (t : SymTab) (ss4 : List Stmt) : Outcome (List Stmt) :=
  match fixAll ss4 0 ss4 with
  | .ok ss5a => evalLists t ss5a ss5a
  | o => o

/-- the pass over the symbol table before the addresses are filled in (fixes 0f280be, d7356d4): an EQU defined by an
expression is replaced by its value — an expression of constants by `resolve`, a label expression by
`calculate_address_offset` on the final addresses; one that cannot be evaluated is a TranslationError. Every entry is
evaluated against the table as it was (`t`), the results are stored afterwards. -/
def evalSyms (ss : List Stmt) (t : SymTab) : SymTab → Outcome SymTab
  | [] => .ok []
  | (k, v) :: rest =>
    let cur : Outcome Value :=
      if v.isExpression || v.isAddrExpr then
        match v.resolve t with
        | .error _ => .diag
        | .ok r =>
          match (if r.isAddrExpr then addrOffset ss r else .ok r) with
          | .ok r' => .ok (if r'.isNumeric then r' else v)
          | o => o
      else .ok v
    match cur with
    | .ok v' => (match evalSyms ss t rest with | .ok r => .ok ((k, v') :: r) | o => o)
    | .diag => .diag
    | .internal => .internal
    | .diverged => .diverged

/-- `Program.process(lines)` up to and including the origin/name scan -/
def assemble (fs : Files) (lines : List Str) : Outcome Assembly :=
  match parseLines lines with
  | .ok parsed =>
    match expand fs (includeFuel fs) [] parsed with
    | .ok ss0 =>
      match buildSymTab ss0 0 [] with
      | none => .diag
      | some t =>
        match resolveAll t ss0 with
        | none => .diag
        | some ss1 =>
          match translateAll ss1 with
          | none => .diag
          | some ss2 =>
            match pcrLoop (ss2.length + 1) ss2 with
            | .ok ss3 =>
              if !orgOK ss3 false then .diag else                -- "ORG must come before the first label and the first byte"
              match assignAddrs ss3 0 with
              | .ok ss4 =>
                match fixAllL t ss4 with
                | .ok ss5 =>
                  match evalSyms ss5 t t with
                  | .ok t1 =>
                    match finalSymTab ss5 t1 with
                    | .ok t' =>
                      let origin := ss5.foldl (fun o s => if s.row.isOrigin then s.pkg.address else o) Value.none
                      let name := ss5.foldl (fun o s => if s.row.isName then some s.operand.text else o) none
                      .ok { stmts := ss5, symtab := t', origin := origin, name := name }
                    | .diag => .diag
                    | .internal => .internal
                    | .diverged => .diverged
                  | .diag => .diag
                  | .internal => .internal
                  | .diverged => .diverged
                | .diag => .diag
                | .internal => .internal
                | .diverged => .diverged
              | .diag => .diag
              | .internal => .internal
              | .diverged => .diverged
            | .diag => .diag
            | .internal => .internal
            | .diverged => .diverged
    | .diag => .diag
    | .internal => .internal
    | .diverged => .diverged
  | .diag => .diag
  | .internal => .internal
  | .diverged => .diverged

/-- `get_binary_array()`; `none` = IndexError / AttributeError -/
def Assembly.image (a : Assembly) : Option Bytes := (a.stmts.mapM stmtBytes).map List.flatten

end CoCo.Asm

namespace CoCo.Asm

/-! ### the printed listing (`Statement.__str__`) and symbol table (`Program.get_symbol_table`) -/

def ljust (n : Nat) (s : Str) : Str := s ++ List.replicate (n - s.length) ' '
def rjust (n : Nat) (s : Str) : Str := List.replicate (n - s.length) ' ' ++ s

/-- `"${} {:.10} {} {} {} ; {}".format(address.hex(size=4), codes.ljust(10), label.rjust(10), mnemonic.rjust(5),
operand.ljust(30), comment.ljust(40))`; `none` = AttributeError on a Python None -/
def Stmt.listing (s : Stmt) : Option Str := do
  let a ← s.pkg.address.hex? 4
  let o ← s.pkg.opCode.hex?
  let p ← s.pkg.postByte.hex?
  let d ← s.pkg.additional.hex?
  let codes := (ljust 10 (o ++ p ++ d)).take 10
  pure (['$'] ++ a ++ [' '] ++ codes ++ [' '] ++ rjust 10 s.label ++ [' '] ++ rjust 5 s.mnemonic ++ [' '] ++
        ljust 30 s.origText ++ " ; ".toList ++ ljust 40 s.comment)

/-- `"${} {}".format(value.hex().ljust(4, ' '), symbol)` for every entry of the final symbol table -/
def symtabLines (t : SymTab) : Option (List Str) :=
  -- a negative value is listed as its 16-bit two's complement, however it was defined (fix 21fb0e5)
  t.mapM (fun (k, v) => (if v.isNegative then v.hex? 4 else v.hex?).map (fun h => ['$'] ++ ljust 4 h ++ [' '] ++ k))

end CoCo.Asm
