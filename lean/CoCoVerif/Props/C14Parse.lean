/-
Props/C14Parse.lean — the strict tape parser (the harness's oracle) reads back exactly the files the
modelled cassette writer wrote: C14 (`WellFormed`) composed with completeness of `Spec.Tape.parse`.
-/
import CoCoVerif.Props.C14
import CoCoVerif.Lemmas.TapeParse

namespace CoCo.Props
open CoCo CoCo.Cas CoCo.Spec.Tape

/-- `ValidFile` inputs give in-range tape files -/
theorem toTape_ok (f : CFile) (hv : ValidFile f) : FileOK (toTape f) := by
  obtain ⟨hn, ht, hdt, hl, he, hd⟩ := hv
  refine ⟨?_, ht, hdt, by simp [toTape], hl, he, hd⟩
  intro c hc
  simp only [toTape, padName] at hc
  rcases List.mem_append.mp hc with h | h
  · exact hn c (List.mem_of_mem_take h)
  · simp [List.mem_replicate] at h; omega

/-- every image written by the model parses back, strictly, to exactly the files written -/
theorem parse_written (fs : List CFile) (hv : ∀ f ∈ fs, ValidFile f) :
    Spec.Tape.parse (Cas.write fs) = some (fs.map toTape) :=
  parse_complete _ _ (C14_full fs hv).1 (by
    intro f hf
    obtain ⟨g, hg, rfl⟩ := List.mem_map.mp hf
    exact toTape_ok g (hv g hg))

/-- … and the parser's answer is the only file list the image is a well-formed stream of -/
theorem written_unique (fs : List CFile) (hv : ∀ f ∈ fs, ValidFile f) (fs' : List Spec.Tape.File)
    (h : WellFormed fs' (Cas.write fs)) : fs' = fs.map toTape :=
  wellFormed_unique h (C14_full fs hv).1

end CoCo.Props
