/-
Props/C02Size.lean — C02, the byte count: every statement of an accepted program emits exactly `size` bytes.

This used to be FALSE (findings A3/A4/A5/A7/A8: negative index offsets, `$hh` under `>`, FCB/FDB operands of the
wrong width ...).  After the repairs — `fit_operand_width` (`fitWidth`) renders every numeric operand field at the
width `2 * size − digits(op code) − digits(post byte)` — it is a theorem, for every statement class:
instructions of every addressing mode (the field is a number of the width the size leaves), inherent and
register-list instructions and 5-bit offsets (no field; table facts relate the size to the op code), FCB / FDB
(single values and lists), RMB, FCC, EQU / ORG / END / SET / SETDP / NAM / INCLUDE.
Since batch B2 (`StringValue` raises on a character above 255, so `create_from_str` builds no such string) there
is NO hypothesis left: `C02_BytesEqSize_holds` proves `C02_BytesEqSize_Statement` itself, for every input
(`C02_bytes_eq_size`, `C02_stmt_bytes`).  Every string of an accepted program — operand value and operand field —
is made of characters below 256 (`C02_strings_narrow`).  The former counterexample `FCC 'Ā'` is a diagnostic now
(`C02_fcc_wide_counterexample_fixed`).  The variants with hypotheses on the input (`..._narrow_input`, `..._ascii`,
`..._nostring`, `C02_BytesEqSize_partial`) are kept as corollaries.
Batch B3 (a label as constant offset of a pointer register, `LDA TABLE,X`): the statements are unchanged; the new
form is covered by `C02_label_offset_field` (16-bit field, size = op code + post byte + 2) and the evaluated
`C02_label_offset_example`; `LDA A,X+` is a diagnostic (`C02_acc_autoinc_diag`).
Consequences: an accepted program has an image (`C02_image_exists`); `C02_offset_full`, the position of every
statement's bytes inside the image, without the size hypothesis of `C02_offset`.  Also here: `ORG SYM`
(`C02_org_symbol`, `C02_org_final`).
Batches 4 and 5 (EQU defined by an expression evaluated where it is used, `resolve` with fuel; EQU normalised only when
numeric; FCC string cut out of the line as written; `orgOK`, `evalSyms` in `assemble`): every statement is unchanged
and still holds for every input; added `C02_org_symbol_expr_translate`, the evaluated `C02_equ_expression_example` and
`C02_fcc_as_written_example`, and `C02_fcc_chars_of_line`.
Batch 8 (symbols, expressions and labels inside FCB / FDB lists, `evalLists` after `fixAll`): every statement is
unchanged and still holds for every input.  A list statement's final field is `.multiByte hs'` / `.multiWord hs'` with
`hs'` from `evalElems`: the list has one item per element of the operand text (`Trace.list_count`), every item — a
literal's digits, the zeros holding a pending element's place, an evaluated element — has 2 resp. 4 digits
(`evalElems_flatten_length`), so the byte count is the `size` that `translatePseudo` computed from the placeholders.
-/
import CoCoVerif.Lemmas.SizeAscii
import CoCoVerif.Props.C02

namespace CoCo.Props
open CoCo CoCo.Asm

/-- the characters of the string of statement `s` (FCC) are below 256 -/
def NarrowString (s : Stmt) : Prop := ∀ x, s.pkg.additional = .str x → ∀ c ∈ x, c.toNat < 256

/-- the same, said of the operand value (for an FCC the two coincide) -/
def NarrowOperand (s : Stmt) : Prop := ∀ x, s.operand.value = .str x → ∀ c ∈ x, c.toNat < 256

/-- C02, byte count, at full strength -/
def C02_BytesEqSize_Statement : Prop :=
  ∀ (fs : Files) (lines : List Str) (a : Assembly), assemble fs lines = .ok a →
    ∀ s ∈ a.stmts, (stmtBytes s).map List.length = some s.pkg.size

/-! ### one statement -/

/-- a statement of an accepted program emits `size` bytes, and a string in its operand field is the operand value
(hence made of characters below 256) -/
theorem C02_stmt_core {fs : Files} {lines : List Str} {a : Assembly} (h : assemble fs lines = .ok a)
    {i : Nat} {s : Stmt} (hs : a.stmts[i]? = some s) :
    (stmtBytes s).map List.length = some s.pkg.size ∧ NarrowString s := by
  obtain ⟨st⟩ := assemble_stages h
  have hnarrow : NarrowOperand s := st.operand_narrow hs
  obtain ⟨tr⟩ := st.trace hs
  have hrow := tr.rowFacts
  have sh1 := tr.shape1
  have kp := tr.kind_pseudo
  have ks := tr.kind_special
  have parsed := tr.parsed
  have hres := tr.hres
  have htr0 := tr.htr
  have t2 := tr.h2
  have t3 := tr.h3
  have tpcr := tr.pcr
  have tfixed := tr.fixed
  have taddr := tr.addr
  have tfix := tr.hfix
  have tfit := tr.hfit
  have tlist := tr.hlist
  have tcount := tr.list_count
  have tnolist := tr.plain_nolist
  have top : s.operand = tr.o := tr.operand_eq
  have hplain0 := tr.plainShape
  generalize tr.s0 = s0 at *
  generalize tr.o = o at *
  generalize tr.p = p at *
  generalize tr.s3 = s3 at *
  generalize tr.s4 = s4 at *
  generalize tr.sf = sf at *
  generalize tr.sw = sw at *
  generalize tr.x5 = x5 at *
  clear tr
  obtain ⟨_, _, _, _, _, f6, f7, f8⟩ := rowFacts_multi hrow
  have hss := st.addr4_numeric
  -- the statements of the history, field by field
  obtain ⟨sz3, mx3, pb3, hint3, fx3, e3⟩ := tpcr
  obtain ⟨ad4, e4⟩ := taddr
  obtain ⟨vf, ef⟩ := fixOne_same tfix
  have hpb3 : CodeVal (mkTranslated s0 o p).pkg.postByte → CodeVal s3.pkg.postByte :=
    (pcrLoop_pb _ _ st.hpcr).2 i _ _ t2 t3
  have hrow4 : s4.row = s0.row := by rw [e4, e3]; rfl
  have hop4 : s4.operand = o := by rw [e4, e3]; rfl
  have hrowf : sf.row = s0.row := by rw [ef]; exact hrow4
  -- when the size was fixed at translation the PCR loop changed nothing
  have hfixed : p.needsRes = false → p.choices = [] →
      s4.pkg = { p with address := ad4 } := by
    intro hn hc
    have : (mkTranslated s0 o p).fixedSize = true := by
      show p.choices.isEmpty = true
      rw [hc]; rfl
    rw [e4, tfixed this]; rfl
  cases hsk : fitSkipped s0.row with
  | false =>
    have psh := translateOperand_shape hrow sh1 hsk kp (fun hk => (ks hk).2) htr0
    cases hnum : sf.pkg.additional.isNumeric with
    | true =>
      -- the field is a number: `fitWidth` gives it the width the size leaves
      cases hv : sf.pkg.additional with
      | numeric n hh m neg =>
        obtain ⟨a', b', w, ha, hb, hw, hsz, _, _, rfl⟩ := fitWidth_numeric tfit (by rw [hrowf]; exact hsk) hv
        -- (batch 8) the list pass leaves a numeric field alone
        have esw : s = withAdditional sf (.numeric (fitInt n neg % 2 ^ (4 * w)).toNat (some w) .extended false) := by
          have := evalList1_numeric st.t x5
            (s := withAdditional sf (.numeric (fitInt n neg % 2 ^ (4 * w)).toNat (some w) .extended false)) rfl
          rw [this] at tlist
          exact (Outcome.ok.inj tlist).symm
        subst esw
        have hcop : CodeVal sf.pkg.opCode := by rw [ef, e4, e3]; exact psh.op
        have hcpb : CodeVal sf.pkg.postByte := by
          have := hpb3 psh.pb
          rw [ef, e4]; exact this
        obtain ⟨l1, ev1, m1⟩ := hcop.emits
        obtain ⟨l2, ev2, m2⟩ := hcpb.emits
        rw [ha] at l1; cases l1
        rw [hb] at l2; cases l2
        have m3 := fitted_emits (fitInt n neg % 2 ^ (4 * w)).toNat w .extended false hw
        have := stmtBytes_len (s := withAdditional sf (.numeric (fitInt n neg % 2 ^ (4 * w)).toNat (some w) .extended false))
          m1 m2 m3
        refine ⟨?_, fun x hx => by cases hx⟩
        rw [this]
        show some _ = some sf.pkg.size
        congr 1
        rcases hw with rfl | rfl <;> omega
      | _ => rw [hv] at hnum; cases hnum
    | false =>
      -- the field is not a number: nothing touched it since translation
      have esw : sw = sf := fitWidth_nonnumeric tfit hnum
      subst esw
      rcases fixOne_field hss tfix with hn | ⟨e5, hn5, ha5, hx5⟩
      · rw [hnum] at hn; cases hn
      · have hneeds : p.needsRes = false := by rw [e4, e3] at hn5; exact hn5
        have hadd : sw.pkg.additional = p.additional := by rw [e5, e4, e3]; rfl
        -- (batch 8) a field that is not a list is left alone by the list pass
        have keep : (∀ hs, p.additional ≠ .multiByte hs) → (∀ hs, p.additional ≠ .multiWord hs) → s = sw := by
          intro hb hw
          have := evalList1_keep st.t x5 (s := sw) (by rw [hadd]; exact hb) (by rw [hadd]; exact hw)
          rw [this] at tlist
          exact (Outcome.ok.inj tlist).symm
        rw [hop4] at ha5 hx5
        rcases psh.fld with ⟨p1, p2, p3⟩ | ⟨p1, p2⟩ | p1 | p1 | ⟨p1, p2, p3, hs', p4, p5, p5k, p6, p7⟩
        · -- no field
          have es : s = sw := keep (by rw [p1]; intro _ hh; cases hh) (by rw [p1]; intro _ hh; cases hh)
          have hpkg := hfixed hneeds p3
          obtain ⟨_, ev1, m1⟩ := psh.op.emits
          obtain ⟨_, ev2, m2⟩ := psh.pb.emits
          have := stmtBytes_len (s := s) (a := hl p.opCode / 2) (b := hl p.postByte / 2) (c := 0)
            (by rw [es, e5, hpkg]; exact m1) (by rw [es, e5, hpkg]; exact m2)
            (by rw [es, e5, hpkg]; show Emits p.additional 0; rw [p1]; exact none_emits)
          refine ⟨?_, fun x hx => by rw [es, hadd, p1] at hx; cases hx⟩
          rw [this, es, e5, hpkg]
          show some _ = some p.size
          congr 1; omega
        · -- the field is the operand value: a number, a label or a label expression
          rw [hadd, p1] at hnum
          rcases p2 with q | q | q
          · rw [q] at hnum; cases hnum
          · rw [q] at ha5; cases ha5
          · rw [q] at hx5; cases hx5
        · rw [hadd, p1] at hnum; cases hnum
        · rw [p1] at hneeds; cases hneeds
        · -- a list: the list pass (batch 8) replaces every pending element by as many digits as held its place
          have hpkg := hfixed hneeds p3
          have hopw : sw.operand = o := by rw [e5]; exact hop4
          have fin : ∀ (hs'' : List Str) (v : Value),
              s = { sw with pkg := { sw.pkg with additional := v } } → Emits v (hs''.flatten.length / 2) →
              hs''.flatten.length = hs'.flatten.length → (∀ x, v ≠ .str x) →
              (stmtBytes s).map List.length = some s.pkg.size ∧ NarrowString s := by
            intro hs'' v es hm hfl hns
            have := stmtBytes_len (s := s) (a := 0) (b := 0) (c := hs''.flatten.length / 2)
              (by rw [es]; show Emits sw.pkg.opCode 0; rw [e5, hpkg]; show Emits p.opCode 0; rw [p1]; exact none_emits)
              (by rw [es]; show Emits sw.pkg.postByte 0; rw [e5, hpkg]; show Emits p.postByte 0; rw [p2]; exact none_emits)
              (by rw [es]; exact hm)
            refine ⟨?_, fun x hx => by rw [es] at hx; exact absurd hx (hns x)⟩
            rw [this, es]
            show some _ = some sw.pkg.size
            rw [e5, hpkg]
            show some _ = some p.size
            rw [p7, hfl]; simp
          rcases p4 with ⟨q, qa⟩ | ⟨q, qa⟩
          · have hcnt := tcount p5k hs' (.inl (p5.trans q))
            obtain ⟨hs'', hev, es⟩ := evalList1_multiByte (hadd.trans q) tlist
            rw [hopw] at hev
            have hfl := evalElems_flatten_length (.inl rfl) hev hcnt.symm qa
            exact fin hs'' _ es (multiByte_emits (by rw [hfl]; exact p6)) hfl (fun x hx => by cases hx)
          · have hcnt := tcount p5k hs' (.inr (p5.trans q))
            obtain ⟨hs'', hev, es⟩ := evalList1_multiWord (hadd.trans q) tlist
            rw [hopw] at hev
            have hfl := evalElems_flatten_length (.inr rfl) hev hcnt.symm qa
            exact fin hs'' _ es (multiWord_emits (by rw [hfl]; exact p6)) hfl (fun x hx => by cases hx)
  | true =>
    -- PSHS / TFR ..., and the directives other than FCB / FDB: emitted as translated
    have esw : sw = sf := fitWidth_skipped tfit (by rw [hrowf]; exact hsk)
    subst esw
    have hplain : PlainShape o p := hplain0 hsk
    have hk : (s4.operand.kind == .relative) = false := by
      rw [hop4]
      cases hkk : o.kind <;> first | rfl | skip
      -- a relative operand belongs to a branch row, which is not skipped
      exfalso
      obtain ⟨txt, hcr⟩ := parsed.2
      have hk0 : s0.operand.kind = .relative := by
        rcases resolveOperand_kind hres with h' | ⟨_, h' | h'⟩
        · rw [← h']; exact hkk
        · rw [hkk] at h'; cases h'
        · rw [hkk] at h'; cases h'
      obtain ⟨k1, k2, _, _⟩ := createOperand_kind hcr
      unfold fitSkipped at hsk
      cases hp : s0.row.isPseudo with
      | true => have := k1 hp; rw [hk0] at this; cases this
      | false =>
        rw [hp] at hsk
        simp only [Bool.false_and, Bool.false_or] at hsk
        have := k2 hp hsk; rw [hk0] at this; cases this
    have hn4 : s4.pkg.needsRes = false := by rw [e4, e3]; exact hplain.needs
    have e5 : sw = s4 :=
      fixOne_still hk hn4 (by rw [hop4]; exact hplain.noaddr) (by rw [hop4]; exact hplain.noexpr) tfix
    have hpkg := hfixed hplain.needs hplain.choices
    -- (batch 8) no list here: the list pass changes nothing
    have es : s = sw := by
      have hnl := tnolist hsk
      have := evalList1_keep st.t x5 (s := sw) (by rw [e5, hpkg]; exact hnl.1) (by rw [e5, hpkg]; exact hnl.2)
      rw [this] at tlist
      exact (Outcome.ok.inj tlist).symm
    obtain ⟨a', b', c', m1, m2, m3, hsum⟩ := hplain.bytes
    have := stmtBytes_len (s := s) (a := a') (b := b') (c := c')
      (by rw [es, e5, hpkg]; exact m1) (by rw [es, e5, hpkg]; exact m2) (by rw [es, e5, hpkg]; exact m3)
    refine ⟨by rw [this, es, e5, hpkg, hsum], fun x hx => ?_⟩
    refine hnarrow x ?_
    rw [top]
    refine hplain.addl x ?_
    rw [es, e5, hpkg] at hx
    exact hx

/-- one statement of an accepted program: exactly `size` bytes -/
theorem C02_stmt_bytes {fs : Files} {lines : List Str} {a : Assembly} (h : assemble fs lines = .ok a)
    {i : Nat} {s : Stmt} (hs : a.stmts[i]? = some s) :
    (stmtBytes s).map List.length = some s.pkg.size := (C02_stmt_core h hs).1

/-! ### the theorem -/

/-- **C02, byte count**: every statement of an accepted program emits exactly `size` bytes — whatever the input -/
theorem C02_bytes_eq_size {fs : Files} {lines : List Str} {a : Assembly} (h : assemble fs lines = .ok a) :
    ∀ s ∈ a.stmts, (stmtBytes s).map List.length = some s.pkg.size := by
  intro s hs
  obtain ⟨i, hi⟩ := List.mem_iff_getElem?.mp hs
  exact C02_stmt_bytes h hi

/-- **C02, byte count, at full strength**: `C02_BytesEqSize_Statement` holds -/
theorem C02_BytesEqSize_holds : C02_BytesEqSize_Statement := fun _ _ _ h => C02_bytes_eq_size h

/-- every string of an accepted program — the operand field (what is emitted) and the operand value — is made of
characters below 256: `create_from_str` builds no other string, and no later stage makes or changes one -/
theorem C02_strings_narrow {fs : Files} {lines : List Str} {a : Assembly} (h : assemble fs lines = .ok a) :
    ∀ s ∈ a.stmts, NarrowString s ∧ NarrowOperand s := by
  intro s hs
  obtain ⟨i, hi⟩ := List.mem_iff_getElem?.mp hs
  obtain ⟨st⟩ := assemble_stages h
  exact ⟨(C02_stmt_core h hi).2, st.operand_narrow hi⟩

/-- (corollary, kept from the time the hypothesis was needed) a statement whose field is not a string -/
theorem C02_bytes_eq_size_nostring {fs : Files} {lines : List Str} {a : Assembly} (h : assemble fs lines = .ok a)
    {s : Stmt} (hs : s ∈ a.stmts) (_hns : ∀ x, s.pkg.additional ≠ .str x) :
    (stmtBytes s).map List.length = some s.pkg.size := C02_bytes_eq_size h s hs

/-- (corollary, kept from the time the hypothesis was needed) input made of characters below 256 -/
theorem C02_bytes_eq_size_narrow_input {fs : Files} {lines : List Str} {a : Assembly}
    (h : assemble fs lines = .ok a) (_hl : ∀ l ∈ lines, NarrowLine l) (_hfs : ∀ f ∈ fs, ∀ l ∈ f.2, NarrowLine l) :
    ∀ s ∈ a.stmts, (stmtBytes s).map List.length = some s.pkg.size := C02_bytes_eq_size h

/-- (corollary) ASCII input, the modelled domain -/
theorem C02_bytes_eq_size_ascii {fs : Files} {lines : List Str} {a : Assembly}
    (h : assemble fs lines = .ok a) (_hl : ∀ l ∈ lines, ∀ c ∈ l, c.toNat < 128)
    (_hfs : ∀ f ∈ fs, ∀ l ∈ f.2, ∀ c ∈ l, c.toNat < 128) :
    ∀ s ∈ a.stmts, (stmtBytes s).map List.length = some s.pkg.size := C02_bytes_eq_size h

/-- the image exists: every statement has bytes -/
theorem C02_image_of_sizes {a : Assembly}
    (hb : ∀ s ∈ a.stmts, (stmtBytes s).map List.length = some s.pkg.size) : ∃ img, a.image = some img := by
  have : ∀ (l : List Stmt), (∀ s ∈ l, ∃ b, stmtBytes s = some b) → ∃ bs, l.mapM stmtBytes = some bs := by
    intro l
    induction l with
    | nil => intro _; exact ⟨[], rfl⟩
    | cons x r ih =>
      intro hl
      obtain ⟨b, hb⟩ := hl x (by simp)
      obtain ⟨bs, hbs⟩ := ih (fun y hy => hl y (by simp [hy]))
      exact ⟨b :: bs, by rw [List.mapM_cons, hb, hbs]; rfl⟩
  obtain ⟨bs, hbs⟩ := this a.stmts (fun s hs => by
    have := hb s hs
    cases hsb : stmtBytes s with
    | none => rw [hsb] at this; cases this
    | some b => exact ⟨b, rfl⟩)
  exact ⟨bs.flatten, by unfold Assembly.image; rw [hbs]; rfl⟩

/-- an accepted program has an image -/
theorem C02_image_exists {fs : Files} {lines : List Str} {a : Assembly} (h : assemble fs lines = .ok a) :
    ∃ img, a.image = some img :=
  C02_image_of_sizes (C02_bytes_eq_size h)

/-- (corollary, kept from the time the hypothesis was needed) -/
theorem C02_image_exists_narrow_input {fs : Files} {lines : List Str} {a : Assembly}
    (h : assemble fs lines = .ok a) (_hl : ∀ l ∈ lines, NarrowLine l) (_hfs : ∀ f ∈ fs, ∀ l ∈ f.2, NarrowLine l) :
    ∃ img, a.image = some img := C02_image_exists h

/-! ### offsets inside the image, without the size hypothesis -/

/-- **C02, offsets**: let `k` be a statement before which nothing is emitted and after which there is no ORG
(typically the initial ORG, `k = 0`).  Then the bytes of statement `i ≥ k` sit at offset
`address i − address k` of the image.  (`C02_offset` with its hypothesis "bytes = size" discharged.) -/
theorem C02_offset_of_sizes {fs : Files} {lines : List Str} {a : Assembly} (h : assemble fs lines = .ok a)
    (hsz : ∀ s ∈ a.stmts, (stmtBytes s).map List.length = some s.pkg.size)
    (k : Nat) (hk0 : ∀ j s, j < k → a.stmts[j]? = some s → s.pkg.size = 0)
    (hk1 : ∀ j s, k < j → a.stmts[j]? = some s → s.row.mnemonic ≠ "ORG")
    {i : Nat} (hki : k ≤ i) {sk s : Stmt} (hsk : a.stmts[k]? = some sk) (hs : a.stmts[i]? = some s) :
    ∃ img pre b post ak ai, a.image = some img ∧ img = pre ++ b ++ post ∧ stmtBytes s = some b ∧
      b.length = s.pkg.size ∧ addrNat sk = some ak ∧ addrNat s = some ai ∧ pre.length + ak = ai := by
  obtain ⟨img, himg⟩ := C02_image_of_sizes hsz
  obtain ⟨pre, b, post, ak, ai, h1, h2, h3, h4, h5⟩ := C02_offset h himg hsz k hk0 hk1 hki hsk hs
  have hb := hsz s (List.mem_of_getElem? hs)
  rw [h2] at hb
  exact ⟨img, pre, b, post, ak, ai, himg, h1, h2, by simpa using hb, h3, h4, h5⟩

theorem C02_offset_full {fs : Files} {lines : List Str} {a : Assembly} (h : assemble fs lines = .ok a)
    (k : Nat) (hk0 : ∀ j s, j < k → a.stmts[j]? = some s → s.pkg.size = 0)
    (hk1 : ∀ j s, k < j → a.stmts[j]? = some s → s.row.mnemonic ≠ "ORG")
    {i : Nat} (hki : k ≤ i) {sk s : Stmt} (hsk : a.stmts[k]? = some sk) (hs : a.stmts[i]? = some s) :
    ∃ img pre b post ak ai, a.image = some img ∧ img = pre ++ b ++ post ∧ stmtBytes s = some b ∧
      b.length = s.pkg.size ∧ addrNat sk = some ak ∧ addrNat s = some ai ∧ pre.length + ak = ai :=
  C02_offset_of_sizes h (C02_bytes_eq_size h) k hk0 hk1 hki hsk hs

/-- (corollary, kept from the time the hypothesis was needed) -/
theorem C02_offset_full_narrow_input {fs : Files} {lines : List Str} {a : Assembly}
    (h : assemble fs lines = .ok a) (_hl : ∀ l ∈ lines, NarrowLine l) (_hfs : ∀ f ∈ fs, ∀ l ∈ f.2, NarrowLine l)
    (k : Nat) (hk0 : ∀ j s, j < k → a.stmts[j]? = some s → s.pkg.size = 0)
    (hk1 : ∀ j s, k < j → a.stmts[j]? = some s → s.row.mnemonic ≠ "ORG")
    {i : Nat} (hki : k ≤ i) {sk s : Stmt} (hsk : a.stmts[k]? = some sk) (hs : a.stmts[i]? = some s) :
    ∃ img pre b post ak ai, a.image = some img ∧ img = pre ++ b ++ post ∧ stmtBytes s = some b ∧
      b.length = s.pkg.size ∧ addrNat sk = some ak ∧ addrNat s = some ai ∧ pre.length + ak = ai :=
  C02_offset_full h k hk0 hk1 hki hsk hs

/-- with an ORG (or nothing) in front and no ORG later: statement `i` sits at `address i − origin` -/
theorem C02_offset_from_start {fs : Files} {lines : List Str} {a : Assembly} (h : assemble fs lines = .ok a)
    (hk1 : ∀ j s, 0 < j → a.stmts[j]? = some s → s.row.mnemonic ≠ "ORG")
    {i : Nat} {s0 s : Stmt} (hs0 : a.stmts[0]? = some s0) (hs : a.stmts[i]? = some s) :
    ∃ img pre b post a0 ai, a.image = some img ∧ img = pre ++ b ++ post ∧ stmtBytes s = some b ∧
      b.length = s.pkg.size ∧ addrNat s0 = some a0 ∧ addrNat s = some ai ∧ pre.length + a0 = ai :=
  C02_offset_full h 0 (fun j _ hj => absurd hj (Nat.not_lt_zero j)) hk1 (Nat.zero_le i) hs0 hs

/-! ### what is proved -/

/-- What is proved of the byte count: everything — the full statement and the existence of the image, for every
accepted program -/
theorem C02_BytesEqSize_full :
    ∀ (fs : Files) (lines : List Str) (a : Assembly), assemble fs lines = .ok a →
      (∀ s ∈ a.stmts, (stmtBytes s).map List.length = some s.pkg.size) ∧ (∃ img, a.image = some img) :=
  fun _ _ _ h => ⟨C02_bytes_eq_size h, C02_image_exists h⟩

/-- (corollary, kept from the time the hypothesis was needed: its disjunctive hypothesis is no longer used) -/
theorem C02_BytesEqSize_partial :
    ∀ (fs : Files) (lines : List Str) (a : Assembly), assemble fs lines = .ok a →
      ((∀ s ∈ a.stmts, NarrowString s) ∨ ((∀ l ∈ lines, NarrowLine l) ∧ (∀ f ∈ fs, ∀ l ∈ f.2, NarrowLine l))) →
      (∀ s ∈ a.stmts, (stmtBytes s).map List.length = some s.pkg.size) ∧ (∃ img, a.image = some img) :=
  fun fs lines a h _ => C02_BytesEqSize_full fs lines a h

/-! ### the former counterexample (a character above 255 in an FCC string), repaired -/

/-- `FCC 'Ā'` (U+0100).  Before batch B2 the string was accepted, the character rendered as three hex digits, the
statement had size 2 (5 digits halved) and `get_binary_array` ran off the end of the digit string (no bytes, no
image).  Now `StringValue` refuses a character above 255 and no other class takes the text: the line is a
diagnostic ("['Ā'] is an invalid value") -/
def C02_wideWitness : List Str := [" FCC 'Ā'\n"].map String.toList

private def isDiagO {α : Type} : Outcome α → Bool
  | .diag => true
  | _ => false

private theorem isDiagO_sound {α : Type} {o : Outcome α} (h : isDiagO o = true) : o = .diag := by
  cases o <;> first | rfl | cases h

private def isValueTypeErr : R Value → Bool
  | .error .valueType => true
  | _ => false

private theorem isValueTypeErr_sound {r : R Value} (h : isValueTypeErr r = true) : r = .error .valueType := by
  unfold isValueTypeErr at h
  split at h
  · rfl
  · cases h

/-- the program is rejected; so is its line by `parse_line`; and `create_from_str` (string flag set, as for FCC)
raises ValueTypeError on the operand text — `'Ā'`, which is what Python and (since fix d74c37d: the FCC string is
cut out of the line as written) the model hand to it, and `' Ā'`, what the model's ASCII scanner used to reassemble
(the quote, a blank, the rest taken for a comment): the string attempt fails on the wide character, and the text is
no expression, pair, number or symbol either -/
theorem C02_fcc_wide_counterexample_fixed (fs : Files) :
    assemble fs C02_wideWitness = .diag ∧ parseLine " FCC 'Ā'\n".toList = .diag ∧
    createV "'Ā'".toList true false false = .error .valueType ∧
    createV "' Ā'".toList true false false = .error .valueType := by
  have hl : parseLine " FCC 'Ā'\n".toList = .diag := isDiagO_sound (by decide +kernel)
  refine ⟨?_, hl, isValueTypeErr_sound (by decide +kernel), isValueTypeErr_sound (by decide +kernel)⟩
  have hp : parseLines C02_wideWitness = .diag := by
    show parseLines [" FCC 'Ā'\n".toList] = .diag
    rw [parseLines, hl]
  unfold assemble
  rw [hp]

/-- the boundary: `FCC 'ÿ'` (U+00FF) is accepted and every statement emits `size` bytes, the last of them `$FF` -/
def C02_edgeWitness : List Str := [" FCC 'ÿ'\n"].map String.toList

private def edgeCheck (a : Assembly) : Bool :=
  match a.stmts[0]? with
  | some s => (stmtBytes s).map List.length == some s.pkg.size && (stmtBytes s).bind List.getLast? == some 0xFF &&
      a.image.isSome
  | none => false

theorem C02_fcc_edge_example :
    ∃ a s b, assemble [] C02_edgeWitness = .ok a ∧ a.stmts[0]? = some s ∧ stmtBytes s = some b ∧
      b.length = s.pkg.size ∧ b.getLast? = some 0xFF := by
  obtain ⟨a, ha, hchk⟩ := checkProgram_sound (lines := C02_edgeWitness) (check := edgeCheck) (by decide +kernel) []
  unfold edgeCheck at hchk
  split at hchk
  · rename_i s hs
    simp only [Bool.and_eq_true, beq_iff_eq] at hchk
    cases hb : stmtBytes s with
    | none => rw [hb] at hchk; simp at hchk
    | some b =>
      rw [hb] at hchk
      exact ⟨a, s, b, ha, hs, hb, by simpa using hchk.1.1, by simpa using hchk.1.2⟩
  · cases hchk

/-! ### non-vacuity -/

/-- the decidable form of `NarrowString` -/
def narrowB (s : Stmt) : Bool :=
  match s.pkg.additional with
  | .str x => x.all (fun c => decide (c.toNat < 256))
  | _ => true

theorem narrowB_sound {s : Stmt} (h : narrowB s = true) : NarrowString s := by
  intro x hx c hc
  unfold narrowB at h
  rw [hx] at h
  simp only [List.all_eq_true, decide_eq_true_eq] at h
  exact h c hc

/-- one statement of every class: instructions of every addressing mode (negative 8- and 16-bit offsets, `>$10`,
PCR, extended indirect), branches, register lists, FCB / FDB (single, list, label, expression), RMB with
a symbol, FCC, EQU, ORG with a symbol -/
def C02_sizeExample : List Str :=
  ["S EQU $0E00\n", " ORG S\n", "START LDA #5\n", " LDX #START\n", " LDA <$10\n", " LDA >$10\n", " LDA $1000\n",
   " LDA -100,X\n", " LDA -300,X\n", " LDA 5,X\n", " LDA [5,X]\n", " LDA [$1000]\n", " LDA ,X++\n", " LDA A,X\n",
   " LEAX START,PCR\n", " LEAX FAR,PCR\n", " LDA 300,PCR\n", " NOP\n", " SWI2\n", " PSHS A,B,X\n", " TFR A,B\n",
   " BRA START\n", " LBRA START\n", " LBEQ FAR\n", " CMPD #5\n", " LDY 5\n", " JMP START+1\n",
   "N EQU 4\n", " RMB N\n", " RMB 300\n", " FCC 'AB'\n", " FCB 1,2,3\n", " FDB 1,2\n", " FCB -1\n", " FDB START\n",
   " FCB N+1\n", "FAR RTS\n", " END\n"].map String.toList

private def sizeExampleCheck (a : Assembly) : Bool :=
  a.stmts.length == 38 && a.stmts.all narrowB &&
  a.stmts.all (fun s => (stmtBytes s).map List.length == some s.pkg.size) &&
  (a.stmts.drop 2).all (fun s => s.row.mnemonic != "ORG") &&
  (a.stmts.take 2).all (fun s => s.pkg.size == 0)

/-- the hypotheses of `C02_bytes_eq_size` and of `C02_offset_full` (with `k = 1`, the ORG) are satisfiable, and the
conclusion of the former is confirmed by evaluation -/
theorem C02_size_example :
    ∃ a, assemble [] C02_sizeExample = .ok a ∧ (∀ s ∈ a.stmts, NarrowString s) ∧
      (∀ j s, j < 1 → a.stmts[j]? = some s → s.pkg.size = 0) ∧
      (∀ j s, 1 < j → a.stmts[j]? = some s → s.row.mnemonic ≠ "ORG") := by
  obtain ⟨a, ha, hchk⟩ := checkProgram_sound (lines := C02_sizeExample) (check := sizeExampleCheck)
    (by decide +kernel) []
  unfold sizeExampleCheck at hchk
  simp only [Bool.and_eq_true, List.all_eq_true, beq_iff_eq, bne_iff_ne, ne_eq] at hchk
  obtain ⟨⟨⟨⟨_, h2⟩, _⟩, h4⟩, h5⟩ := hchk
  refine ⟨a, ha, fun s hs => narrowB_sound (h2 s hs), ?_, ?_⟩
  · intro j s hj hs
    have : s ∈ a.stmts.take 2 := by
      rw [List.mem_iff_getElem?]
      exact ⟨j, by rw [List.getElem?_take]; simp [show j < 2 by omega, hs]⟩
    exact h5 s this
  · intro j s hj hs
    have : s ∈ a.stmts.drop 2 := by
      rw [List.mem_iff_getElem?]
      exact ⟨j - 2, by rw [List.getElem?_drop]; rw [show 2 + (j - 2) = j by omega]; exact hs⟩
    exact h4 s this

/-! ### a label as constant offset of a pointer register (batch B3) -/

/-- **the label-offset form** (`LDA TABLE,X`, batch B3): a statement of an accepted program that is resolved at
`fix_addresses` (`needsRes`) and has no post byte choices — a label or label expression as constant offset of a
pointer register, not of the PC — carries a 16-bit field: a number below 65536 in four hex digits; its size is
op code + post byte + 2 bytes -/
theorem C02_label_offset_field {fs : Files} {lines : List Str} {a : Assembly} (h : assemble fs lines = .ok a)
    {i : Nat} {s : Stmt} (hs : a.stmts[i]? = some s) (hn : s.pkg.needsRes = true) (hc : s.pkg.choices = []) :
    ∃ n a' b', s.pkg.additional = .numeric n (some 4) .extended false ∧ n < 65536 ∧
      s.pkg.opCode.hexLen? = some a' ∧ s.pkg.postByte.hexLen? = some b' ∧ 2 * s.pkg.size = a' + b' + 4 := by
  obtain ⟨st⟩ := assemble_stages h
  obtain ⟨tr⟩ := st.trace hs
  have hss := st.addr4_numeric
  have hrow := tr.rowFacts
  have sh1 := tr.shape1
  have kp := tr.kind_pseudo
  have ks := tr.kind_special
  have htr0 := tr.htr
  have tpcr := tr.pcr
  have tfixed := tr.fixed
  have taddr := tr.addr
  have tfix := tr.hfix
  have tfit := tr.hfit
  have tlist := tr.hlist
  have hplain0 := tr.plainShape
  generalize tr.s0 = s0 at *
  generalize tr.o = o at *
  generalize tr.p = p at *
  generalize tr.s3 = s3 at *
  generalize tr.s4 = s4 at *
  generalize tr.sf = sf at *
  generalize tr.sw = sw at *
  generalize tr.x5 = x5 at *
  clear tr
  obtain ⟨sz3, mx3, pb3, hint3, fx3, e3⟩ := tpcr
  obtain ⟨ad4, e4⟩ := taddr
  obtain ⟨vf, ef⟩ := fixOne_same tfix
  obtain ⟨vw, ew⟩ := fitWidth_same tfit
  obtain ⟨vl, el⟩ := evalList1_same tlist
  have hnp : p.needsRes = true := by rw [el, ew, ef, e4, e3] at hn; exact hn
  have hcp : p.choices = [] := by rw [el, ew, ef, e4, e3] at hc; exact hc
  have e3' : s3 = mkTranslated s0 o p := tfixed (by show p.choices.isEmpty = true; rw [hcp]; rfl)
  have hrowf : sf.row = s0.row := by rw [ef, e4, e3']; rfl
  cases hsk : fitSkipped s0.row with
  | true =>
    have := (hplain0 hsk).needs
    rw [hnp] at this; cases this
  | false =>
    have psh := translateOperand_shape hrow sh1 hsk kp (fun hk => (ks hk).2) htr0
    have hroom := psh.lbl hnp hcp
    rcases fixOne_field hss tfix with hnum | ⟨_, hn5, _, _⟩
    · cases hv : sf.pkg.additional with
      | numeric n hh m neg =>
        obtain ⟨a', b', w, ha, hb, hw, hsz, _, _, es0⟩ := fitWidth_numeric tfit (by rw [hrowf]; exact hsk) hv
        -- (batch 8) the list pass leaves a numeric field alone
        have es := es0
        rw [show sw = s from by
          have := evalList1_numeric st.t x5 (s := sw) (by rw [es0]; rfl)
          rw [this] at tlist
          exact Outcome.ok.inj tlist] at es
        have ho : sf.pkg.opCode = p.opCode := by rw [ef, e4, e3']; rfl
        have hp : sf.pkg.postByte = p.postByte := by rw [ef, e4, e3']; rfl
        have hz : sf.pkg.size = p.size := by rw [ef, e4, e3']; rfl
        have l1 := psh.op.emits.1
        have l2 := psh.pb.emits.1
        rw [ho, l1] at ha; cases ha
        rw [hp, l2] at hb; cases hb
        rw [hz] at hsz
        have hw4 : w = 4 := by omega
        subst hw4
        refine ⟨(fitInt n neg % 2 ^ (4 * 4)).toNat, hl p.opCode, hl p.postByte, by rw [es]; rfl, ?_,
          by rw [es]; show sf.pkg.opCode.hexLen? = _; rw [ho, l1],
          by rw [es]; show sf.pkg.postByte.hexLen? = _; rw [hp, l2],
          by rw [es]; show 2 * sf.pkg.size = _; rw [hz]; exact hsz⟩
        have h1 : fitInt n neg % 65536 < 65536 := Int.emod_lt_of_pos _ (by decide)
        have h0 : 0 ≤ fitInt n neg % 65536 := Int.emod_nonneg _ (by decide)
        show (fitInt n neg % 65536).toNat < 65536
        omega
      | _ => rw [hv] at hnum; cases hnum
    · rw [e4, e3] at hn5
      have hn5 : p.needsRes = false := hn5
      rw [hnp] at hn5; cases hn5

/-- `LDA T,X`, `LDB T+1,Y`, `LDD [T,U]`, `LDA [T+1]` before and after the definition of `T` (at `$0E10`) -/
def C02_labelOffsetExample : List Str :=
  [" ORG $0E00\n", " LDA T,X\n", " LDB T+1,Y\n", " LDD [T,U]\n", " LDA [T+1]\n", "T FCB 1\n",
   " LDA T,X\n", " LDB T+1,Y\n", " LDD [T,U]\n", " LDA [T+1]\n"].map String.toList

/-- the bytes of the four instructions: op code, post byte (16-bit constant offset `$89`/`$A9`, its indirect form
`$D9`, extended indirect `$9F`), and the ADDRESS of `T` resp. `T+1` as the 16-bit offset -/
def C02_labelOffsetBytes : List Bytes :=
  [[0xA6, 0x89, 0x0E, 0x10], [0xE6, 0xA9, 0x0E, 0x11], [0xEC, 0xD9, 0x0E, 0x10], [0xA6, 0x9F, 0x0E, 0x11]]

private def labelOffsetCheck (a : Assembly) : Bool :=
  a.stmts.all (fun s => (stmtBytes s).map List.length == some s.pkg.size) &&
  a.stmts.map (fun s => s.pkg.size) == [0, 4, 4, 4, 4, 1, 4, 4, 4, 4] &&
  a.stmts.map stmtBytes == ([[]] ++ C02_labelOffsetBytes ++ [[1]] ++ C02_labelOffsetBytes).map some &&
  a.image == some (C02_labelOffsetBytes.flatten ++ [1] ++ C02_labelOffsetBytes.flatten) &&
  a.origin.int? == some 0x0E00 && (a.symtab.get? "T".toList).bind Value.int? == some 0x0E10 &&
  (a.stmts[5]?).bind addrNat == some 0x0E10 &&
  a.stmts.map (fun s => s.pkg.needsRes && s.pkg.choices.isEmpty) ==
    [false, true, true, true, false, false, true, true, true, false]

/-- the program is accepted; every statement emits `size` bytes; each of the label-offset forms is 4 bytes long (op
code, post byte, 16-bit field) and carries the address of `T` (`$0E10`), resp. `T+1`, the same before and after the
definition; the image is stated; the six register-offset statements satisfy the hypotheses of
`C02_label_offset_field` (`[T+1]`, extended indirect, is the older form).  (Python, /tmp/wt-b3n, prints the same
listing.) -/
theorem C02_label_offset_example :
    ∃ a, assemble [] C02_labelOffsetExample = .ok a ∧
      (∀ s ∈ a.stmts, (stmtBytes s).map List.length = some s.pkg.size) ∧
      a.stmts.map (fun s => s.pkg.size) = [0, 4, 4, 4, 4, 1, 4, 4, 4, 4] ∧
      a.stmts.map stmtBytes = ([[]] ++ C02_labelOffsetBytes ++ [[1]] ++ C02_labelOffsetBytes).map some ∧
      a.image = some (C02_labelOffsetBytes.flatten ++ [1] ++ C02_labelOffsetBytes.flatten) ∧
      a.origin.int? = some 0x0E00 ∧ (a.stmts[5]?).bind addrNat = some 0x0E10 ∧
      (a.symtab.get? "T".toList).bind Value.int? = some 0x0E10 ∧
      a.stmts.map (fun s => s.pkg.needsRes && s.pkg.choices.isEmpty) =
        [false, true, true, true, false, false, true, true, true, false] := by
  obtain ⟨a, ha, hchk⟩ := checkProgram_sound (lines := C02_labelOffsetExample) (check := labelOffsetCheck)
    (by decide +kernel) []
  unfold labelOffsetCheck at hchk
  simp only [Bool.and_eq_true, List.all_eq_true, beq_iff_eq] at hchk
  obtain ⟨⟨⟨⟨⟨⟨⟨h1, h2⟩, h3⟩, h4⟩, h5⟩, h6⟩, h7⟩, h8⟩ := hchk
  exact ⟨a, ha, h1, h2, h3, h4, h5, h7, h6, h8⟩

/-- the same without an ORG: `T` sits at `$0010` and the field is `00 10` (a small address still takes the 16-bit
form: the size was fixed at translation, before the address was known) -/
def C02_labelOffsetSmall : List Str :=
  [" LDA T,X\n", " LDB T+1,Y\n", " LDD [T,U]\n", " LDA [T+1]\n", "T FCB 1\n"].map String.toList

private def labelOffsetSmallCheck (a : Assembly) : Bool :=
  a.stmts.all (fun s => (stmtBytes s).map List.length == some s.pkg.size) &&
  a.image == some [0xA6, 0x89, 0x00, 0x10, 0xE6, 0xA9, 0x00, 0x11, 0xEC, 0xD9, 0x00, 0x10, 0xA6, 0x9F, 0x00, 0x11, 1]

theorem C02_label_offset_small_example :
    ∃ a, assemble [] C02_labelOffsetSmall = .ok a ∧
      (∀ s ∈ a.stmts, (stmtBytes s).map List.length = some s.pkg.size) ∧
      a.image = some [0xA6, 0x89, 0x00, 0x10, 0xE6, 0xA9, 0x00, 0x11, 0xEC, 0xD9, 0x00, 0x10, 0xA6, 0x9F, 0x00, 0x11, 1] := by
  obtain ⟨a, ha, hchk⟩ := checkProgram_sound (lines := C02_labelOffsetSmall) (check := labelOffsetSmallCheck)
    (by decide +kernel) []
  unfold labelOffsetSmallCheck at hchk
  simp only [Bool.and_eq_true, List.all_eq_true, beq_iff_eq] at hchk
  exact ⟨a, ha, hchk.1, hchk.2⟩

/-- an accumulator offset with auto increment / decrement is a diagnostic ("invalid indexed expression"), plain and
inside brackets -/
theorem C02_acc_autoinc_diag (fs : Files) :
    assemble fs ([" LDA A,X+\n"].map String.toList) = .diag ∧
    assemble fs ([" LDA B,-X\n"].map String.toList) = .diag ∧
    assemble fs ([" LDA [D,--Y]\n"].map String.toList) = .diag ∧
    assemble fs ([" LDA [A,X++]\n"].map String.toList) = .diag :=
  ⟨diagProgram_sound (by decide +kernel) fs, diagProgram_sound (by decide +kernel) fs,
   diagProgram_sound (by decide +kernel) fs, diagProgram_sound (by decide +kernel) fs⟩

/-! ### ORG with a symbol (former finding B9, repaired) -/

/-- `resolve_symbols` and `translate` on `ORG SYM` where `SYM` is bound to the (non-negative) number `n`: the preset
address is `n` -/
theorem C02_org_symbol_translate {o : Operand} {row : Gen.InstrRow} {t : SymTab} {name : Str} {m mm : Mode}
    {n : Nat} {hh : Option Nat} (hk : o.kind = .pseudo) (hm : row.mnemonic = "ORG")
    (hv : o.value = .symbol name m) (ht : t.get? name = some (.numeric n hh mm false)) (hn : n ≤ 65535) :
    ∃ o' p, resolveOperand o row t = .ok o' ∧ translateOperand o' row = .ok p ∧ p.address.int? = some n ∧
      p.address.isNumeric = true := by
  have hres : (Value.symbol name m).resolve t = numericOfInt n none .none := by
    rw [resolve_symbol_of_get ht rfl]
    simp [symPost, Value.isAddress, Value.isNumeric]
  have hex : ∃ v, numV n = .ok v := by
    unfold numV numericOfInt
    rw [if_neg (by omega)]
    exact ⟨_, rfl⟩
  obtain ⟨v, hv'⟩ := hex
  obtain ⟨h1, m1, rfl, _⟩ := numV_shape hv'
  refine ⟨{ o with value := .numeric n h1 m1 false }, { address := .numeric n h1 m1 false }, ?_, ?_, rfl, rfl⟩
  · unfold resolveOperand
    have e : (("ORG" : String) == "FCB" || ("ORG" : String) == "FDB" || ("ORG" : String) == "RMB" ||
        ("ORG" : String) == "ORG") = true := by decide
    simp only [hk, hm, e, if_true, hv, Value.isSymbol, Bool.true_or]
    rw [hres]
    unfold numV at hv'
    rw [hv']
    rfl
  · unfold translateOperand
    simp only [hk]
    unfold translatePseudo
    have e1 : (("ORG" : String) == "FCB") = false := by decide
    have e2 : (("ORG" : String) == "FDB") = false := by decide
    have e3 : (("ORG" : String) == "RMB") = false := by decide
    have e4 : (("ORG" : String) == "ORG") = true := by decide
    simp [hm, e1, e2, e3, e4, bind, Except.bind, pure, Except.pure, Value.isNumeric, Value.isNegative]

/-- ... and where `SYM` is bound to a negative number (`S EQU -5`; the sign is kept since batch B2): "not an
address", `translate` raises OperandTypeError -/
theorem C02_org_symbol_negative {o : Operand} {row : Gen.InstrRow} {t : SymTab} {name : Str} {m mm : Mode}
    {n : Nat} {hh : Option Nat} (hk : o.kind = .pseudo) (hm : row.mnemonic = "ORG")
    (hv : o.value = .symbol name m) (ht : t.get? name = some (.numeric n hh mm true)) (hn0 : 0 < n) :
    ∃ o', resolveOperand o row t = .ok o' ∧ translateOperand o' row = .error .operandType := by
  have hres : (Value.symbol name m).resolve t = numericOfInt (-(n : Int)) none .none := by
    rw [resolve_symbol_of_get ht rfl]
    simp [symPost, Value.isAddress, Value.isNumeric]
  have hex : ∃ h1 m1, numericOfInt (-(n : Int)) none .none = .ok (.numeric n h1 m1 true) := by
    unfold numericOfInt
    rw [if_neg (by omega)]
    have h2 : (-(n : Int) < 0) := by omega
    simp only [h2, decide_true, Int.natAbs_neg, Int.natAbs_natCast]
    exact ⟨_, _, rfl⟩
  obtain ⟨h1, m1, hv'⟩ := hex
  refine ⟨{ o with value := .numeric n h1 m1 true }, ?_, ?_⟩
  · unfold resolveOperand
    have e : (("ORG" : String) == "FCB" || ("ORG" : String) == "FDB" || ("ORG" : String) == "RMB" ||
        ("ORG" : String) == "ORG") = true := by decide
    simp only [hk, hm, e, if_true, hv, Value.isSymbol, Bool.true_or]
    rw [hres, hv']
    rfl
  · unfold translateOperand
    simp only [hk]
    unfold translatePseudo
    have e1 : (("ORG" : String) == "FCB") = false := by decide
    have e2 : (("ORG" : String) == "FDB") = false := by decide
    have e3 : (("ORG" : String) == "RMB") = false := by decide
    have e4 : (("ORG" : String) == "ORG") = true := by decide
    simp [hm, e1, e2, e3, e4, bind, Except.bind, pure, Except.pure, Value.isNumeric, Value.isNegative, throw,
      throwThe, MonadExceptOf.throw]

/-- `S EQU -5`, `ORG S`: a diagnostic ("[S] is not an address") -/
theorem C02_org_symbol_negative_diag (fs : Files) :
    assemble fs (["S EQU -5\n", " ORG S\n", " NOP\n"].map String.toList) = .diag :=
  diagProgram_sound (by decide +kernel) fs

theorem assignAddrs_preset {l l' : List Stmt} {a : Nat} (h : assignAddrs l a = .ok l') :
    PW (fun s s' => s.preset = true → s' = s) l l' := by
  induction l generalizing a l' with
  | nil => simp [assignAddrs] at h; subst h; exact .nil
  | cons s rest ih =>
    obtain ⟨s', r, a0, rfl, _, _, _, hp, hr⟩ := assignAddrs_cons h
    exact .cons hp (ih hr)

/-- an ORG statement of an accepted program: its address is the (resolved) operand value, a number -/
theorem C02_org_final {fs : Files} {lines : List Str} {a : Assembly} (h : assemble fs lines = .ok a)
    {i : Nat} {s : Stmt} (hs : a.stmts[i]? = some s) (hm : s.row.mnemonic = "ORG") :
    s.pkg.address = s.operand.value ∧ s.operand.value.isNumeric = true := by
  obtain ⟨st⟩ := assemble_stages h
  obtain ⟨tr⟩ := st.trace hs
  have hrow : s.row = tr.s0.row := tr.row_eq
  have hop : s.operand = tr.o := tr.operand_eq
  rw [hrow] at hm
  have hp := org_pseudo _ tr.parsed.1 hm
  obtain ⟨txt, hcr⟩ := tr.parsed.2
  have hk : tr.o.kind = .pseudo := (resolveOperand_kind_pseudo tr.hres).2 ((createOperand_kind hcr).1 hp)
  have hadr := C02_org_address tr.o tr.s0.row tr.p hk hm tr.htr
  have hnum : tr.p.address.isNumeric = true := by
    have htr := tr.htr
    unfold translateOperand at htr
    rw [hk] at htr
    exact translatePseudo_org_numeric hm htr
  -- the address survives the PCR loop, address assignment (preset), `fixOne` and `fitWidth`
  obtain ⟨_, _, _, _, _, e3⟩ := tr.pcr
  have ha3 : tr.s3.pkg.address = tr.p.address := by rw [e3]; rfl
  have hpre : tr.s3.preset = true := by
    unfold Stmt.preset
    rw [ha3]
    cases hv : tr.p.address <;> rw [hv] at hnum <;> first | rfl | cases hnum
  have e4 : tr.s4 = tr.s3 := (assignAddrs_preset st.haddr).2 i _ _ tr.h3 tr.h4 hpre
  obtain ⟨_, ef⟩ := fixOne_same tr.hfix
  obtain ⟨_, ew⟩ := fitWidth_same tr.hfit
  obtain ⟨_, el⟩ := evalList1_same tr.hlist
  have hfin : s.pkg.address = tr.p.address := by
    have e0 := congrArg (fun x => x.pkg.address) el
    have e1 := congrArg (fun x => x.pkg.address) ew
    have e2 := congrArg (fun x => x.pkg.address) ef
    simp only at e0 e1 e2
    rw [e0, e1, e2, e4, ha3]
  rw [hfin, hop, hadr]
  exact ⟨rfl, by rw [← hadr]; exact hnum⟩

/-- `S EQU $200`, `ORG S`, a label: the program is accepted, the label sits at `$200` and so does the origin -/
def C02_orgSymbolWitness : List Str := ["S EQU $200\n", " ORG S\n", "L NOP\n", " FDB L\n"].map String.toList

private def orgSymbolCheck (a : Assembly) : Bool :=
  a.origin.int? == some 0x200 && a.symtab.get? "L".toList == (a.stmts[2]?).map (·.pkg.address) &&
  (match a.stmts[1]?, a.stmts[2]?, a.stmts[3]? with
   | some o, some s, some d => o.row.mnemonic == "ORG" && addrNat o == some 0x200 && addrNat s == some 0x200 &&
       stmtBytes d == some [0x02, 0x00]
   | _, _, _ => false)

theorem C02_org_symbol :
    ∃ a, assemble [] C02_orgSymbolWitness = .ok a ∧ orgSymbolCheck a = true :=
  checkProgram_sound (by decide +kernel) []

/-! ### after batches 4 and 5: EQU defined by an expression, FCC string as written -/

/-- `ORG SYM` where `SYM` is an EQU defined by an expression (`S EQU $100+$100`; since fix 0f280be `get_symbol`
evaluates it where it is used) whose value is the non-negative number `n`: as `C02_org_symbol_translate` -/
theorem C02_org_symbol_expr_translate {o : Operand} {row : Gen.InstrRow} {t : SymTab} {name : Str} {m mm : Mode}
    {e : Value} {n : Nat} {hh : Option Nat} (hk : o.kind = .pseudo) (hm : row.mnemonic = "ORG")
    (hv : o.value = .symbol name m) (ht : t.get? name = some e) (he : e.isExpression = true)
    (hr : resolveF t.length e t = .ok (.numeric n hh mm false)) (hn : n ≤ 65535) :
    ∃ o' p, resolveOperand o row t = .ok o' ∧ translateOperand o' row = .ok p ∧ p.address.int? = some n ∧
      p.address.isNumeric = true := by
  have hres : (Value.symbol name m).resolve t = numericOfInt n none .none := by
    rw [resolve_symbol_of_expr ht he, hr]
    simp [symPost, Value.isAddress, Value.isNumeric]
  have hex : ∃ v, numV n = .ok v := by
    unfold numV numericOfInt
    rw [if_neg (by omega)]
    exact ⟨_, rfl⟩
  obtain ⟨v, hv'⟩ := hex
  obtain ⟨h1, m1, rfl, _⟩ := numV_shape hv'
  refine ⟨{ o with value := .numeric n h1 m1 false }, { address := .numeric n h1 m1 false }, ?_, ?_, rfl, rfl⟩
  · unfold resolveOperand
    have e : (("ORG" : String) == "FCB" || ("ORG" : String) == "FDB" || ("ORG" : String) == "RMB" ||
        ("ORG" : String) == "ORG") = true := by decide
    simp only [hk, hm, e, if_true, hv, Value.isSymbol, Bool.true_or]
    rw [hres]
    unfold numV at hv'
    rw [hv']
    rfl
  · unfold translateOperand
    simp only [hk]
    unfold translatePseudo
    have e1 : (("ORG" : String) == "FCB") = false := by decide
    have e2 : (("ORG" : String) == "FDB") = false := by decide
    have e3 : (("ORG" : String) == "RMB") = false := by decide
    have e4 : (("ORG" : String) == "ORG") = true := by decide
    simp [hm, e1, e2, e3, e4, bind, Except.bind, pure, Except.pure, Value.isNumeric, Value.isNegative]

/-- EQUs defined by expressions, one of another (`N EQU A+3`, `M EQU N*2`), used as immediate operand, RMB count, FCB /
FDB value, inside an expression, and as the ORG address -/
def C02_equExprExample : List Str :=
  ["A EQU 2\n", "N EQU A+3\n", "M EQU N*2\n", "S EQU $100+$100\n", " ORG S\n", "L LDA #M\n", " RMB N\n", " FCB M\n",
   " FDB M+1\n", " LDA M,X\n", " FDB L\n"].map String.toList

private def equExprCheck (a : Assembly) : Bool :=
  a.stmts.all (fun s => (stmtBytes s).map List.length == some s.pkg.size) &&
  a.stmts.map (·.pkg.size) == [0, 0, 0, 0, 0, 2, 5, 1, 2, 2, 2] &&
  a.origin.int? == some 0x200 &&
  a.image == some [0x86, 0x0A, 0, 0, 0, 0, 0, 0x0A, 0x00, 0x0B, 0xA6, 0x0A, 0x02, 0x00]

/-- the program is accepted, every statement emits `size` bytes, the sizes and the image are as the values of the
expressions say (`M` = 10, `N` = 5, origin `$200`) -/
theorem C02_equ_expression_example :
    ∃ a, assemble [] C02_equExprExample = .ok a ∧
      (∀ s ∈ a.stmts, (stmtBytes s).map List.length = some s.pkg.size) ∧
      a.stmts.map (·.pkg.size) = [0, 0, 0, 0, 0, 2, 5, 1, 2, 2, 2] ∧ a.origin.int? = some 0x200 ∧
      a.image = some [0x86, 0x0A, 0, 0, 0, 0, 0, 0x0A, 0x00, 0x0B, 0xA6, 0x0A, 0x02, 0x00] := by
  obtain ⟨a, ha, hchk⟩ := checkProgram_sound (lines := C02_equExprExample) (check := equExprCheck)
    (by decide +kernel) []
  unfold equExprCheck at hchk
  simp only [Bool.and_eq_true, List.all_eq_true, beq_iff_eq] at hchk
  exact ⟨a, ha, hchk.1.1.1, hchk.1.1.2, hchk.1.2, hchk.2⟩

/-- FCC strings with blanks, a semicolon, several blanks in a row (since fix d74c37d the string is cut out of the line
as written), a comment behind the string -/
def C02_fccWrittenExample : List Str :=
  [" FCC 'A B'\n", " FCC /X;  Y/ ; note\n", " FCC \"a ; b\"  tail\n"].map String.toList

private def fccWrittenCheck (a : Assembly) : Bool :=
  a.stmts.all narrowB &&
  a.stmts.all (fun s => (stmtBytes s).map List.length == some s.pkg.size) &&
  a.stmts.map (·.pkg.size) == [3, 5, 5] &&
  a.image == some [0x41, 0x20, 0x42, 0x58, 0x3B, 0x20, 0x20, 0x59, 0x61, 0x20, 0x3B, 0x20, 0x62]

/-- every statement emits `size` bytes: one byte per character of the string as written, blanks and `;` included -/
theorem C02_fcc_as_written_example :
    ∃ a, assemble [] C02_fccWrittenExample = .ok a ∧ (∀ s ∈ a.stmts, NarrowString s) ∧
      (∀ s ∈ a.stmts, (stmtBytes s).map List.length = some s.pkg.size) ∧
      a.stmts.map (·.pkg.size) = [3, 5, 5] ∧
      a.image = some [0x41, 0x20, 0x42, 0x58, 0x3B, 0x20, 0x20, 0x59, 0x61, 0x20, 0x3B, 0x20, 0x62] := by
  obtain ⟨a, ha, hchk⟩ := checkProgram_sound (lines := C02_fccWrittenExample) (check := fccWrittenCheck)
    (by decide +kernel) []
  unfold fccWrittenCheck at hchk
  simp only [Bool.and_eq_true, List.all_eq_true, beq_iff_eq] at hchk
  exact ⟨a, ha, fun s hs => narrowB_sound (hchk.1.1.1 s hs), hchk.1.1.2, hchk.1.2, hchk.2⟩

/-- the string of an FCC statement as parsed consists of characters of its line (no blank put in between any more) -/
theorem C02_fcc_chars_of_line {l : Str} {s : Stmt} {x : Str} (h : parseLine l = .ok (some s))
    (hx : s.operand.value = .str x) : ∀ ch ∈ x, ch ∈ l := parseLine_str_mem_line h hx

end CoCo.Props
