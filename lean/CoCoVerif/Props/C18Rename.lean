/-
Props/C18Rename.lean — C18-R2 (renaming), a partial result at the level of values, operands and the symbol
table: `SymTab.get?`, `Value.resolve`, `buildSymTab`, and `resolveOperand` (for operands whose left part is
not a piece of source text) commute with an injective renaming `ρ` of symbol names.

Out of scope: the text level (renaming inside the source line) and the left part of an indexed operand,
which is still a STRING when `resolve_symbols` runs (`resolveLeft` re-parses it).
-/
import CoCoVerif.Props.C18
import CoCoVerif.Lemmas.FrontBranch
import CoCoVerif.Lemmas.LayoutRel

namespace CoCo.Props
open CoCo CoCo.Asm

/-- rename keys and the symbols inside the stored values -/
def renameTab (ρ : Str → Str) (t : SymTab) : SymTab := t.map (fun kv => (ρ kv.1, renameValue ρ kv.2))

def renameOperand (ρ : Str → Str) (o : Operand) : Operand :=
  { o with value := renameValue ρ o.value, left := renameSide ρ o.left }

section
variable {ρ : Str → Str}

/-! ### the shape of a value is not changed -/

@[simp] theorem renameValue_isAddress (v : Value) : (renameValue ρ v).isAddress = v.isAddress := by
  cases v <;> rfl
@[simp] theorem renameValue_isNumeric (v : Value) : (renameValue ρ v).isNumeric = v.isNumeric := by
  cases v <;> rfl
@[simp] theorem renameValue_isNone (v : Value) : (renameValue ρ v).isNone = v.isNone := by
  cases v <;> rfl
@[simp] theorem renameValue_isLeftRight (v : Value) : (renameValue ρ v).isLeftRight = v.isLeftRight := by
  cases v <;> rfl
@[simp] theorem renameValue_mode (v : Value) : (renameValue ρ v).mode = v.mode := by
  cases v <;> rfl
@[simp] theorem renameValue_isExtendedLike (v : Value) : (renameValue ρ v).isExtendedLike = v.isExtendedLike := by
  simp [Value.isExtendedLike]
@[simp] theorem renameValue_isDirect (v : Value) : (renameValue ρ v).isDirect = v.isDirect := by
  simp [Value.isDirect]
@[simp] theorem renameValue_isExplicitDirect (v : Value) :
    (renameValue ρ v).isExplicitDirect = v.isExplicitDirect := by
  simp [Value.isExplicitDirect]

@[simp] theorem renameValue_isExplicitExtended (v : Value) :
    (renameValue ρ v).isExplicitExtended = v.isExplicitExtended := by
  simp [Value.isExplicitExtended]
@[simp] theorem renameValue_isSymbol (v : Value) : (renameValue ρ v).isSymbol = v.isSymbol := by
  cases v <;> rfl
@[simp] theorem renameValue_isExpression (v : Value) : (renameValue ρ v).isExpression = v.isExpression := by
  cases v with
  | expr l r op m ae => cases ae <;> rfl
  | _ => rfl

theorem renameValue_of_numeric {v : Value} (h : v.isNumeric = true) : renameValue ρ v = v := by
  cases v <;> first | rfl | cases h

theorem numericOfInt_isNumeric {z : Int} {h : Option Nat} {m : Mode} {x : Value}
    (hx : numericOfInt z h m = .ok x) : x.isNumeric = true := by
  unfold numericOfInt at hx
  split at hx
  · cases hx
  · simp only [Except.ok.injEq] at hx
    subst hx; rfl

theorem numericOfStr_isNumeric {s : Str} {h : Option Nat} {m : Mode} {x : Value}
    (hx : numericOfStr s h m = .ok x) : x.isNumeric = true := by
  unfold numericOfStr at hx
  dsimp only at hx
  split at hx
  · rename_i heq
    simp only [Except.ok.injEq] at hx
    subst hx
    split at heq
    · split at heq
      · simp only [Option.some.injEq] at heq; subst heq; rfl
      · cases heq
    · cases heq
  · repeat' split at hx
    all_goals first | (cases hx; done) | (cases hx; rfl)

theorem numericOfInt_rename (z : Int) (h : Option Nat) (m : Mode) :
    (numericOfInt z h m).map (renameValue ρ) = numericOfInt z h m := by
  cases hx : numericOfInt z h m with
  | error e => rfl
  | ok x => simp [Except.map, renameValue_of_numeric (numericOfInt_isNumeric hx)]

theorem numericOfStr_rename (s : Str) (h : Option Nat) (m : Mode) :
    (numericOfStr s h m).map (renameValue ρ) = numericOfStr s h m := by
  cases hx : numericOfStr s h m with
  | error e => rfl
  | ok x => simp [Except.map, renameValue_of_numeric (numericOfStr_isNumeric hx)]

/-! ### lookups -/

theorem get?_rename (hinj : ∀ x y, ρ x = ρ y → x = y) (t : SymTab) (k : Str) :
    (renameTab ρ t).get? (ρ k) = (t.get? k).map (renameValue ρ) := by
  induction t with
  | nil => rfl
  | cons kv rest ih =>
    obtain ⟨k0, v0⟩ := kv
    have hb : (ρ k0 == ρ k) = (k0 == k) := by
      by_cases h : k0 = k
      · subst h; rw [beq_self_eq_true, beq_self_eq_true]
      · have : ρ k0 ≠ ρ k := fun hc => h (hinj _ _ hc)
        rw [beq_eq_false_iff_ne.mpr this, beq_eq_false_iff_ne.mpr h]
    simp only [SymTab.get?, renameTab, List.map_cons, List.find?_cons, hb] at ih ⊢
    cases k0 == k with
    | true => rfl
    | false => exact ih

theorem lookV_rename (hinj : ∀ x y, ρ x = ρ y → x = y) (t : SymTab) (x : Value) :
    lookV (renameTab ρ t) (renameValue ρ x) = (lookV t x).map (renameValue ρ) := by
  cases x with
  | symbol name m =>
    simp only [renameValue, lookV, get?_rename hinj]
    cases t.get? name <;> rfl
  | _ => rfl

/-! ### `Value.resolve` -/

theorem resolveExprCore_rename (l r : Value) (op : Char) (mode : Mode) :
    resolveExprCore (renameValue ρ l) (renameValue ρ r) op mode
      = (resolveExprCore l r op mode).map (renameValue ρ) := by
  by_cases hn : l.isNumeric = true ∧ r.isNumeric = true
  · obtain ⟨h1, h2⟩ := hn
    rw [renameValue_of_numeric h1, renameValue_of_numeric h2]
    cases l <;> first | cases h1 | skip
    cases r <;> first | cases h2 | skip
    unfold resolveExprCore
    dsimp only
    split
    · rfl
    · generalize hx : numericOfStr _ _ _ = x
      cases x with
      | error e => rfl
      | ok w => simp [Except.map, renameValue_of_numeric (numericOfStr_isNumeric hx)]
  · have key : ∀ a b : Value, ¬ (a.isNumeric = true ∧ b.isNumeric = true) →
        resolveExprCore a b op mode =
          if a.isAddress || b.isAddress then .ok (.expr a b op mode true) else .error .other := by
      intro a b hab
      cases a <;> cases b <;> first | rfl | (exfalso; exact hab ⟨rfl, rfl⟩)
    rw [key l r hn, key _ _ (by simpa using hn)]
    simp only [renameValue_isAddress]
    split <;> rfl

theorem symPost_rename (s : Value) : symPost (renameValue ρ s) = (symPost s).map (renameValue ρ) := by
  cases s with
  | address i m' => rfl
  | numeric i h m' n =>
    simp only [symPost, Value.isAddress, Value.isNumeric, renameValue, Bool.false_eq_true, if_false, if_true]
    exact (numericOfInt_rename _ _ _).symm
  | _ => rfl

theorem renameTab_length (t : SymTab) : (renameTab ρ t).length = t.length := by
  simp [renameTab]

/-- `resolveF` (the fuel-indexed `resolve`, batch 4) commutes with an injective renaming -/
theorem resolveF_rename (hinj : ∀ x y, ρ x = ρ y → x = y) (t : SymTab) : ∀ (n : Nat) (v : Value),
    resolveF n (renameValue ρ v) (renameTab ρ t) = (resolveF n v t).map (renameValue ρ) := by
  intro n
  induction n with
  | zero => intro v; rfl
  | succ n ih =>
    intro v
    have hsym : ∀ name : Str, getSymF n (renameTab ρ t) (ρ name) = (getSymF n t name).map (renameValue ρ) := by
      intro name
      unfold getSymF
      rw [get?_rename hinj]
      cases hg : t.get? name with
      | none => rfl
      | some s =>
        simp only [Option.map_some, renameValue_isExpression]
        split
        · exact ih s
        · rfl
    have hlook : ∀ x : Value, lookF n (renameTab ρ t) (renameValue ρ x) = (lookF n t x).map (renameValue ρ) := by
      intro x
      cases x with
      | symbol name m => exact hsym name
      | _ => rfl
    cases v with
    | symbol name m =>
      simp only [renameValue]
      rw [resolveF_symbol, resolveF_symbol, hsym]
      cases getSymF n t name with
      | error e => rfl
      | ok s => exact symPost_rename s
    | expr l r op mode ae =>
      simp only [renameValue]
      rw [resolveF_expr, resolveF_expr, hlook, hlook]
      cases lookF n t l with
      | error e => rfl
      | ok l' =>
        cases lookF n t r with
        | error e => rfl
        | ok r' => exact resolveExprCore_rename l' r' op mode
    | _ => rfl

/-- `Value.resolve` commutes with an injective renaming -/
theorem resolve_rename (hinj : ∀ x y, ρ x = ρ y → x = y) (t : SymTab) (v : Value) :
    (renameValue ρ v).resolve (renameTab ρ t) = (v.resolve t).map (renameValue ρ) := by
  rw [resolve_eq, resolve_eq, renameTab_length]
  exact resolveF_rename hinj t _ v

/-! ### `buildSymTab` -/

theorem renameTab_append (t d : SymTab) : renameTab ρ (t ++ d) = renameTab ρ t ++ renameTab ρ d := by
  simp [renameTab]

theorem get?_isSome_rename (hinj : ∀ x y, ρ x = ρ y → x = y) (t : SymTab) (k : Str) :
    ((renameTab ρ t).get? (ρ k)).isSome = (t.get? k).isSome := by
  rw [get?_rename hinj]; cases t.get? k <;> rfl

/-- `save_symbol` over renamed statements builds the renamed table -/
theorem buildSymTab_rename (hinj : ∀ x y, ρ x = ρ y → x = y) : ∀ (ss ss' : List Stmt) (i : Nat) (t : SymTab),
    PW (RenamedStmt ρ) ss ss' → (∀ s ∈ ss, s.label ≠ [] → ρ s.label ≠ []) →
    buildSymTab ss' i (renameTab ρ t) = (buildSymTab ss i t).map (renameTab ρ) := by
  intro ss
  induction ss with
  | nil =>
    intro ss' i t h _
    have : ss' = [] := List.eq_nil_of_length_eq_zero (by simpa using h.1)
    subst this; rfl
  | cons s rest ih =>
    intro ss' i t h hne
    cases ss' with
    | nil => have := h.1; simp at this
    | cons s' rest' =>
      have h0 := h.2 0 s s' (by simp) (by simp)
      have hrest : PW (RenamedStmt ρ) rest rest' :=
        ⟨by have := h.1; simpa using this,
         fun j a b ha hb => h.2 (j + 1) a b (by simpa using ha) (by simpa using hb)⟩
      have hne' : ∀ x ∈ rest, x.label ≠ [] → ρ x.label ≠ [] := fun x hx => hne x (by simp [hx])
      obtain ⟨hlab, hrow, _, hval, _, _⟩ := h0
      rw [buildSymTab, buildSymTab]
      by_cases hl : s.label = []
      · have hl' : s'.label = [] := by rw [hlab, if_pos hl]
        simp only [hl, hl', List.isEmpty_nil, if_true]
        exact ih rest' _ _ hrest hne'
      · have hl' : s'.label = ρ s.label := by rw [hlab, if_neg hl]
        have hne1 : ρ s.label ≠ [] := hne s (by simp) hl
        have e1 : s.label.isEmpty = false := by cases hs : s.label <;> simp_all
        have e2 : (ρ s.label).isEmpty = false := by cases hs : ρ s.label <;> simp_all
        rw [hl']
        simp only [e1, e2, Bool.false_eq_true, if_false, get?_isSome_rename hinj]
        have e3 : renameTab ρ t ++ [(ρ s.label, if s'.row.isPseudoDefine = true then s'.operand.value
            else Value.address i Mode.none)]
            = renameTab ρ (t ++ [(s.label, if s.row.isPseudoDefine = true then s.operand.value
                else Value.address i Mode.none)]) := by
          rw [renameTab_append, hrow, hval]
          congr 1
          simp only [renameTab, List.map_cons, List.map_nil]
          split <;> rfl
        by_cases hg : (t.get? s.label).isSome = true
        · simp only [hg, if_true]; rfl
        · simp only [hg, if_false, Bool.false_eq_true]
          rw [e3]
          exact ih rest' _ _ hrest hne'

/-! ### `resolveOperand` -/

/-- `resolve_symbols` commutes with the renaming for every operand class whose symbols sit in `value`
(everything except indexed operands and `[label,R]`, whose left part is still source text) -/
theorem resolveOperand_rename (hinj : ∀ x y, ρ x = ρ y → x = y) (t : SymTab) (o : Operand) (row : Gen.InstrRow)
    (hk : o.kind ≠ .indexed)
    (hx : o.kind = .extIndirect → o.value.isNone = false ∧ o.value.isLeftRight = false) :
    resolveOperand (renameOperand ρ o) row (renameTab ρ t)
      = (resolveOperand o row t).map (renameOperand ρ) := by
  unfold resolveOperand
  have ek : (renameOperand ρ o).kind = o.kind := rfl
  have ev : (renameOperand ρ o).value = renameValue ρ o.value := rfl
  rw [ek]
  cases hkind : o.kind with
  | pseudo =>
    dsimp only
    split
    · rw [ev]
      have hres := resolve_rename hinj t o.value
      cases hv : o.value with
      | pyNone => rfl
      | symbol name m =>
        rw [hv] at hres
        simp only [renameValue] at hres ⊢
        simp only [Value.isSymbol, Bool.true_or, if_true]
        rw [hres]
        cases (Value.symbol name m).resolve t <;> rfl
      | expr l r op m ae =>
        rw [hv] at hres
        simp only [renameValue] at hres ⊢
        cases ae with
        | false =>
          simp only [Value.isSymbol, Value.isExpression, Bool.or_true, if_true]
          rw [hres]
          cases (Value.expr l r op m false).resolve t <;> rfl
        | true => rfl
      | _ => rfl
    · rfl
  | special => rfl
  | indexed => exact absurd hkind hk
  | extIndirect =>
    obtain ⟨h1, h2⟩ := hx hkind
    simp only [ev, renameValue_isNone, renameValue_isLeftRight, h1, h2, Bool.not_false, Bool.and_self, if_true,
      resolve_rename hinj]
    cases o.value.resolve t <;> rfl
  | unknown =>
    dsimp only
    rw [ev, resolve_rename hinj]
    cases hr : o.value.resolve t with
    | error e => rfl
    | ok v =>
      have hb : (OpKind.unknown != OpKind.unknown) = false := by decide
      simp only [Except.map, hb, Bool.false_eq_true, if_false, renameValue_isDirect, renameValue_isExplicitDirect,
        renameValue_isExplicitExtended]
      split
      · rfl
      · cases v with
        | pyNone => rfl
        | numeric i h m n =>
          simp only [renameValue]
          split
          · cases hx : numericOfInt (i : Int) none .direct with
            | error e => rfl
            | ok w =>
              have := renameValue_of_numeric (ρ := ρ) (numericOfInt_isNumeric hx)
              simp only [renameOperand, this]
          · rfl
        | address i m =>
          simp only [renameValue]
          split <;> rfl
        | _ => rfl
  | relative | inherent | immediate | direct | extended =>
    dsimp only
    rw [ev, resolve_rename hinj]
    cases hr : o.value.resolve t with
    | error e => rfl
    | ok v =>
      simp (decide := true) only [Except.map, if_true, bne_iff_ne, ne_eq]
      rfl

end

/-! ### non-vacuity -/

/-- prefixing every name with `Z` is an injective renaming; a label `A` bound to statement 3 and the
expression `A+1` resolve to the same results under the new names -/
example :
    (renameValue (fun x => 'Z' :: x) (.expr (.symbol "A".toList .none) (.numeric 1 none .none false) '+' .none false)).resolve
      (renameTab (fun x => 'Z' :: x) [("A".toList, .address 3 .none)])
    = .ok (.expr (.address 3 .none) (.numeric 1 none .none false) '+' .none true) := by
  rw [resolve_rename (by intro x y h; simpa using h)]
  rfl

/-! ### names with an underscore or an at sign (batch 4, fix 4e31349: SYMBOL_REGEX and the operands of
EXPRESSION_REGEX are `[\w@]+`)

Before the repair a reference to a label containing `_` (not a symbol) and an expression over a label containing `@`
(not an expression) were rejected, so a renaming to such names turned an accepted program into a rejected one. Both
are accepted now. -/

/-- executable check on an INCLUDE-free program through `back` (cf. `okPlainB` in `Props/C18.lean`) -/
def plainCheckB (ls : List Str) (check : Assembly → Bool) : Bool :=
  match parseLines ls with
  | .ok p => p.all (fun s => !s.row.isInclude) && (match back p with | .ok A => check A | _ => false)
  | _ => false

theorem assemble_of_plainCheckB {fs : Files} {ls : List Str} {check : Assembly → Bool}
    (h : plainCheckB ls check = true) : ∃ A, assemble fs ls = .ok A ∧ check A = true := by
  unfold plainCheckB at h
  split at h
  · rename_i p hp
    simp only [Bool.and_eq_true, List.all_eq_true, Bool.not_eq_true'] at h
    rw [assemble_eq, front_plain hp h.1]
    cases hb : back p with
    | ok A => rw [hb] at h; exact ⟨A, by simp only [hb], h.2⟩
    | _ => rw [hb] at h; simp at h
  · cases h

/-- `M_1 NOP / JMP M_1` assembles: the label with an underscore is a symbol, `JMP M_1` is `7E 0000` -/
theorem C18_R2_underscore_label_fixed :
    ∃ A, assemble [] (["M_1 NOP\n", " JMP M_1\n"].map String.toList) = .ok A ∧ A.image = some [0x12, 0x7E, 0, 0] := by
  obtain ⟨A, hA, hc⟩ := assemble_of_plainCheckB (fs := []) (ls := ["M_1 NOP\n", " JMP M_1\n"].map String.toList)
    (check := fun A => A.image == some [0x12, 0x7E, 0, 0]) (by decide +kernel)
  exact ⟨A, hA, by simpa using hc⟩

/-- `A@ NOP / JMP A@+1` assembles: `A@+1` is an expression over the label `A@` -/
theorem C18_R2_at_expression_fixed :
    ∃ A, assemble [] (["A@ NOP\n", " JMP A@+1\n"].map String.toList) = .ok A ∧ A.image = some [0x12, 0x7E, 0, 1] := by
  obtain ⟨A, hA, hc⟩ := assemble_of_plainCheckB (fs := []) (ls := ["A@ NOP\n", " JMP A@+1\n"].map String.toList)
    (check := fun A => A.image == some [0x12, 0x7E, 0, 1]) (by decide +kernel)
  exact ⟨A, hA, by simpa using hc⟩

/-- renaming `M` to `M_1` in `M NOP / JMP M` keeps the image -/
theorem C18_R2_rename_underscore_fixed :
    ∃ A B, assemble [] (["M NOP\n", " JMP M\n"].map String.toList) = .ok A ∧
      assemble [] (["M_1 NOP\n", " JMP M_1\n"].map String.toList) = .ok B ∧ A.image = B.image := by
  obtain ⟨A, hA, hc⟩ := assemble_of_plainCheckB (fs := []) (ls := ["M NOP\n", " JMP M\n"].map String.toList)
    (check := fun A => A.image == some [0x12, 0x7E, 0, 0]) (by decide +kernel)
  obtain ⟨B, hB, hB2⟩ := C18_R2_underscore_label_fixed
  exact ⟨A, B, hA, hB, by rw [hB2]; simpa using hc⟩

end CoCo.Props
