/-
Props/C06.lean — cassette images round-trip every file exactly; the reader is complete for
every well-formed tape stream.
-/
import CoCoVerif.Props.C14

namespace CoCo.Props
open CoCo CoCo.Cas CoCo.Spec.Tape

/-- what listing returns for a file found on a tape -/
def ofTape (t : Spec.Tape.File) : CFile :=
  { name := t.name, ext := if t.ftype = 0x02 then [66, 73, 78] else [66, 65, 83],
    ftype := t.ftype, dtype := t.dtype, gaps := t.gap, load := t.load, exec := t.exec, data := t.data }

/-- names are ASCII (the reader UTF-8-decodes the 8 name bytes) -/
def AsciiName (n : List Nat) : Prop := ∀ c ∈ n, c < 128

/-- **Known finding E1** (pinned by test_read_file_empty_when_no_data): a file with empty data ends
the listing.  `K_C06_emptyData f` is the exclusion predicate. -/
def K_C06_emptyData (data : Bytes) : Bool := data.isEmpty

/-- C06 at full strength. (a) write-then-list returns the files; (b) listing any well-formed tape
stream returns exactly the files it contains. -/
def C06_Statement : Prop :=
  (∀ fs : List CFile, (∀ f ∈ fs, AsciiName f.name) →
      Cas.list (Cas.write fs) = .ok (fs.map Cas.norm)) ∧
  (∀ (ts : List Spec.Tape.File) (bytes : Bytes), WellFormed ts bytes → (∀ t ∈ ts, AsciiName t.name) →
      Cas.list bytes = .ok (ts.map ofTape))

/-! ### helpers local to the statement -/

theorem utf8_ascii (fuel : Nat) (l : Bytes) (h : AsciiName l) (hf : l.length ≤ fuel) :
    utf8DecodeF fuel l = some l := by
  induction fuel generalizing l with
  | zero => cases l <;> simp_all [utf8DecodeF]
  | succ fuel ih =>
    cases l with
    | nil => simp [utf8DecodeF]
    | cons b r =>
      have hb : b < 0x80 := h b List.mem_cons_self
      have := ih r (fun c hc => h c (List.mem_cons_of_mem _ hc)) (by simp at hf; omega)
      simp [utf8DecodeF, hb, this]

theorem list8 {α} (l : List α) (h : l.length = 8) : ∃ a b c d e f g i, l = [a, b, c, d, e, f, g, i] := by
  match l, h with
  | [a, b, c, d, e, f, g, i], _ => exact ⟨a, b, c, d, e, f, g, i, rfl⟩

theorem dataBlocks_length_le {d db : Bytes} (h : DataBlocks d db) : d.length ≤ db.length := by
  induction h with
  | nil => simp
  | cons _ _ _ _ ih => simp [frame] at ih ⊢; omega

/-- reading one well-formed file stream returns that file and the untouched rest -/
theorem readFile_stream (t : Spec.Tape.File) (b rest : Bytes) (hs : FileStream t b)
    (hn : AsciiName t.name) (hd : t.data ≠ []) :
    readFile (b ++ rest) = .ok (some (ofTape t, rest)) := by
  obtain ⟨hlen, g₁, db, g₂, hg₁, hdb, hg₂, rfl⟩ := hs
  obtain ⟨n0, n1, n2, n3, n4, n5, n6, n7, hname⟩ := list8 t.name hlen
  have hutf : utf8Decode [n0, n1, n2, n3, n4, n5, n6, n7] = some [n0, n1, n2, n3, n4, n5, n6, n7] := by
    rw [← hname]; exact utf8_ascii _ _ hn (Nat.le_refl _)
  have hle := dataBlocks_length_le hdb
  have hne : (t.data.isEmpty) = false := by cases h : t.data <;> simp_all
  obtain ⟨X, hX⟩ : ∃ X, X = db ++ (g₂ ++ (frame 0xFF [] ++ rest)) := ⟨_, rfl⟩
  have hrb : readBlocksF (X.length + 1) X [] = .ok (t.data, rest) := by
    have := readBlocksF_dataBlocks hdb hg₂ rest [] (X.length + 1) (by subst hX; simp; omega)
    simpa [hX] using this
  have hbuf : g₁ ++ frame 0x00 (namePayload t) ++ db ++ g₂ ++ frame 0xFF [] ++ rest
      = g₁ ++ (0x55 :: 0x3C :: 0x00 :: 15 :: n0 :: n1 :: n2 :: n3 :: n4 :: n5 :: n6 :: n7 :: t.ftype :: t.dtype ::
          t.gap :: (t.load / 256) :: (t.load % 256) :: (t.exec / 256) :: (t.exec % 256) ::
          ((0 + 15 + bsum (namePayload t)) % 256) :: 0x55 :: X) := by
    subst hX
    simp [namePayload, hname, frame, List.append_assoc]
  rw [hbuf]
  unfold readFile
  rw [skipTo3_filler hg₁]
  simp only [List.drop_succ_cons, List.drop_zero, List.take_succ_cons, List.take_zero, hutf, readBlocks]
  simp [hrb, hne, ofTape, hname, Nat.div_add_mod']
  rw [if_neg (by omega), if_neg (by omega), if_neg (by omega)]

/-- the listing loop over a well-formed tape -/
theorem listF_wellFormed {ts : List Spec.Tape.File} {bytes : Bytes} (h : WellFormed ts bytes)
    (hn : ∀ t ∈ ts, AsciiName t.name) (hd : ∀ t ∈ ts, t.data ≠ [])
    (acc : List CFile) (fuel : Nat) (hf : ts.length + 1 ≤ fuel) :
    listF fuel bytes acc = .ok (acc ++ ts.map ofTape) := by
  induction h generalizing acc fuel with
  | nil hg =>
    cases fuel with
    | zero => omega
    | succ f => simp [listF, readFile, skipTo3_filler_only hg]
  | @cons t ts b bs hs _ ih =>
    cases fuel with
    | zero => omega
    | succ f =>
      rw [listF, readFile_stream t b bs hs (hn t List.mem_cons_self) (hd t List.mem_cons_self)]
      simp only
      rw [ih (fun x hx => hn x (List.mem_cons_of_mem _ hx)) (fun x hx => hd x (List.mem_cons_of_mem _ hx))
        (acc ++ [ofTape t]) f (by simp at hf; omega)]
      simp [List.append_assoc]

theorem fileStream_length_pos {t : Spec.Tape.File} {b : Bytes} (h : FileStream t b) : 0 < b.length := by
  obtain ⟨_, g₁, db, g₂, _, _, _, rfl⟩ := h
  simp [frame]; omega

theorem wellFormed_length {ts : List Spec.Tape.File} {bytes : Bytes} (h : WellFormed ts bytes) :
    ts.length ≤ bytes.length := by
  induction h with
  | nil _ => simp
  | cons hs _ ih => have := fileStream_length_pos hs; simp; omega

/-- (b) under the exclusion of E1: **the reader is complete for every well-formed tape stream** whose
files all have data — any leader lengths, any gaps, any payload bytes (markers included). -/
theorem C06_reader_partial (ts : List Spec.Tape.File) (bytes : Bytes) (h : WellFormed ts bytes)
    (hn : ∀ t ∈ ts, AsciiName t.name) (hK : ∀ t ∈ ts, K_C06_emptyData t.data = false) :
    Cas.list bytes = .ok (ts.map ofTape) := by
  have hd : ∀ t ∈ ts, t.data ≠ [] := by
    intro t ht h0; have := hK t ht; simp [K_C06_emptyData, h0] at this
  have := listF_wellFormed h hn hd [] (bytes.length + 1) (by have := wellFormed_length h; omega)
  simpa [Cas.list] using this

theorem norm_eq (f : CFile) : ofTape (toTape f) = Cas.norm f := rfl

/-- (a) under the exclusion of E1: write-then-list is the identity up to `norm`, for every list of
files, every data length and content. Follows from (b) and C14. -/
theorem C06_roundtrip_partial (fs : List CFile) (hn : ∀ f ∈ fs, AsciiName f.name)
    (hv : ∀ f ∈ fs, ValidFile f) (hK : ∀ f ∈ fs, K_C06_emptyData f.data = false) :
    Cas.list (Cas.write fs) = .ok (fs.map Cas.norm) := by
  have hwf := (C14_full fs hv).1
  have := C06_reader_partial (fs.map toTape) (Cas.write fs) hwf
    (by
      intro t ht
      obtain ⟨f, hf, rfl⟩ := List.mem_map.mp ht
      intro c hc
      simp only [toTape, padName, List.mem_append, List.mem_replicate] at hc
      rcases hc with hc | hc
      · exact hn f hf c (List.mem_of_mem_take hc)
      · omega)
    (by
      intro t ht
      obtain ⟨f, hf, rfl⟩ := List.mem_map.mp ht
      simpa [toTape] using hK f hf)
  rw [this, List.map_map]
  rfl

/-- **C06_partial** = (a) ∧ (b) with the single exclusion `K_C06_emptyData`. -/
theorem C06_partial :
    (∀ fs : List CFile, (∀ f ∈ fs, AsciiName f.name) → (∀ f ∈ fs, ValidFile f) →
        (∀ f ∈ fs, K_C06_emptyData f.data = false) → Cas.list (Cas.write fs) = .ok (fs.map Cas.norm)) ∧
    (∀ (ts : List Spec.Tape.File) (bytes : Bytes), WellFormed ts bytes → (∀ t ∈ ts, AsciiName t.name) →
        (∀ t ∈ ts, K_C06_emptyData t.data = false) → Cas.list bytes = .ok (ts.map ofTape)) :=
  ⟨C06_roundtrip_partial, C06_reader_partial⟩

/-- the witness of E1: one file with no data -/
def e1File : CFile :=
  { name := [69], ext := [], ftype := 2, dtype := 0, gaps := 0, load := 0, exec := 0, data := [] }

/-- **finding E1 as a theorem**: on the model of the current code the full statement is false. -/
theorem C06_finding_E1 : Cas.list (Cas.write [e1File]) = .ok [] := by decide +kernel

theorem C06_Statement_false : ¬ C06_Statement := by
  intro h
  have h1 := h.1 [e1File] (by intro f hf; simp at hf; subst hf; intro c hc; simp [e1File] at hc; omega)
  rw [C06_finding_E1] at h1
  simp at h1

/-- non-vacuity of the partial theorem's hypotheses -/
example : (∀ f ∈ [{ e1File with data := [0x55, 0x3C, 0x00] }], AsciiName f.name) ∧
          (∀ f ∈ [{ e1File with data := [0x55, 0x3C, 0x00] }], ValidFile f) ∧
          (∀ f ∈ [{ e1File with data := [0x55, 0x3C, 0x00] }], K_C06_emptyData f.data = false) := by
  refine ⟨?_, ?_, ?_⟩ <;> intro f hf <;> simp at hf <;> subst hf <;> simp [AsciiName, ValidFile, K_C06_emptyData, e1File]

end CoCo.Props
