/-
Props/C12Full.lean — C12 at full strength (`C12_Statement`, Props/C12.lean): every operand the FRONT END builds for a
machine-instruction row against a table of EQU constants, if `translate` and `fit_operand_width` accept it, yields
exactly `size` bytes which the datasheet decoder reads back, in full, as one instruction of the row's operation.

Structure: `frontEnd_shape` (Lemmas/EncodeShape.lean) lists the shapes of such operands; each shape is shown sound
here: it is either rejected (by `translate` or by `fitWidth`) or encoded (`Encodes`, C01).  Since repair batch B2 the
index register text is validated (21 legal texts, `validRegs`), which is what makes the case analysis finite.
Repair batch B3: accumulator offsets with auto increment / decrement (`A,X+`) are among the rejected shapes; label offsets
(`LDA TABLE,X`) are outside the table-of-constants setting (`C12_setting_has_no_label_offsets`, see the section below).
-/
import CoCoVerif.Props.C01Text
import CoCoVerif.Props.C12
import CoCoVerif.Lemmas.EncodeShape

namespace CoCo.Props
open CoCo CoCo.Asm CoCo.Spec.MC6809
open CoCo.Gen (InstrRow)

/-! ### the generic step: a package with a numeric field of one or two bytes -/

theorem soundEnc_of_rejected {o : Asm.Operand} {r : InstrRow} {pkg : Pkg} (ht : translateOperand o r = .ok pkg)
    (h : ∀ s : Stmt, s.row = r → s.operand = o → s.pkg = pkg → fitWidth s = .diag) : SoundEnc o r := by
  refine C12_rejected_fit (fun pkg' hpkg' => ?_)
  rw [ht] at hpkg'
  have : pkg = pkg' := by injection hpkg'
  subst this
  exact h

/-- op code cell `c`, post byte bytes `pb`, a numeric field that `size` announces as ONE byte: if every byte in that
place is read back by the decoder as part of one instruction of the row, the operand is sound (the field either fits
and is emitted as its two's complement byte, or the statement is refused) -/
theorem soundEnc_of_byteField {o : Asm.Operand} {r : InstrRow} {c : Nat} {am : AM} {pkg : Pkg} {pb : Bytes}
    {n : Nat} {h : Option Nat} {m : Mode} {neg : Bool} (hp : r.isPseudo = false) (hsp : r.isSpecial = false)
    (hl : lookup c = some (opOf r.mnemonic, am)) (ht : translateOperand o r = .ok pkg) (hnr : pkg.needsRes = false)
    (hop : pkg.opCode = opv c) (hpb : PostOk pkg.postByte pb) (had : pkg.additional = .numeric n h m neg)
    (hsz : pkg.size = opcodeLen c + pb.length + 1)
    (hdec : ∀ b, ∃ x, decodeTail (opOf r.mnemonic) am (opcodeLen c) (pb ++ [b]) =
      some (⟨opOf r.mnemonic, x⟩, opcodeLen c + pb.length + 1)) : SoundEnc o r := by
  cases hf : fitsByte n neg
  · exact soundEnc_of_rejected ht (rejected_of_misfit (d := 2) hp hsp hl hop hpb had (by rw [hsz]; omega) (Or.inl rfl)
      (fitNum_byte_err hf))
  · obtain ⟨x, hx⟩ := hdec (byteField n neg)
    exact soundEnc_of_encodes (encodes_of_fit (ad := [byteField n neg]) hp hsp hl ht hnr hop hpb had (.byte hf)
      (by simpa using hsz) (by simpa using hx))

/-- the same for a field of TWO bytes -/
theorem soundEnc_of_wordField {o : Asm.Operand} {r : InstrRow} {c : Nat} {am : AM} {pkg : Pkg} {pb : Bytes}
    {n : Nat} {h : Option Nat} {m : Mode} {neg : Bool} (hp : r.isPseudo = false) (hsp : r.isSpecial = false)
    (hl : lookup c = some (opOf r.mnemonic, am)) (ht : translateOperand o r = .ok pkg) (hnr : pkg.needsRes = false)
    (hop : pkg.opCode = opv c) (hpb : PostOk pkg.postByte pb) (had : pkg.additional = .numeric n h m neg)
    (hsz : pkg.size = opcodeLen c + pb.length + 2)
    (hdec : ∀ hi lo, ∃ x, decodeTail (opOf r.mnemonic) am (opcodeLen c) (pb ++ [hi, lo]) =
      some (⟨opOf r.mnemonic, x⟩, opcodeLen c + pb.length + 2)) : SoundEnc o r := by
  cases hf : fitsWord n neg
  · exact soundEnc_of_rejected ht (rejected_of_misfit (d := 4) hp hsp hl hop hpb had (by rw [hsz]; omega) (Or.inr rfl)
      (fitNum_word_err hf))
  · obtain ⟨x, hx⟩ := hdec (wordField n neg / 256) (wordField n neg % 256)
    exact soundEnc_of_encodes (encodes_of_fit (ad := [wordField n neg / 256, wordField n neg % 256]) hp hsp hl ht hnr hop
      hpb had (.word hf) (by simpa using hsz) (by simpa using hx))


/-! ### the classes without an index register -/

section classes
variable {r : InstrRow} (hr : r ∈ Gen.instructions) (hp : r.isPseudo = false)
include hr hp

theorem sound_inherent {o : Asm.Operand} (hk : o.kind = .inherent) : SoundEnc o r := by
  cases hc : r.inh with
  | none => exact C12_rejected (e := .operandType) (by simp [translateOperand, hk, hc]; rfl)
  | some c =>
    by_cases h0 : c = 0
    · subst h0; exact C12_rejected (e := .operandType) (by simp [translateOperand, hk, hc]; rfl)
    · exact soundEnc_of_encodes (C01_inherent hr hp hk hc)

theorem sound_immediate {o : Asm.Operand} {n : Nat} {h : Option Nat} {m : Mode} {neg : Bool} (hsp : r.isSpecial = false)
    (hk : o.kind = .immediate) (hv : o.value = .numeric n h m neg) : SoundEnc o r := by
  cases hc : r.imm with
  | none => exact C12_rejected (e := .operandType) (by simp [translateOperand, hk, hc]; rfl)
  | some c =>
    by_cases h0 : c = 0
    · subst h0; exact C12_rejected (e := .operandType) (by simp [translateOperand, hk, hc]; rfl)
    · have hmode : lookup c = some (opOf r.mnemonic, if r.is16Bit then AM.imm16 else AM.imm8) := by
        have := immModeOk_all r hr
        simpa [immModeOk, hp, hsp, hc] using this
      have hcell := cell_imm hr hp hc hmode
      have ht := translateOperand_imm hk hc h0 (cell_lt hmode)
      cases h16 : r.is16Bit
      · rw [h16] at hmode hcell
        simp only [Bool.false_eq_true, if_false] at hmode hcell
        exact soundEnc_of_byteField (pb := []) hp hsp hmode ht rfl rfl .none hv (by simp [hcell.2, operandLen])
          (fun b => ⟨.imm 8 b, by simp [decodeTail]⟩)
      · rw [h16] at hmode hcell
        simp only [if_true] at hmode hcell
        exact soundEnc_of_wordField (pb := []) hp hsp hmode ht rfl rfl .none hv (by simp [hcell.2, operandLen])
          (fun hi lo => ⟨.imm 16 (hi * 256 + lo), by simp [decodeTail]⟩)

theorem sound_direct {o : Asm.Operand} {n : Nat} {h : Option Nat} {m : Mode} {neg : Bool}
    (hk : o.kind = .direct) (hv : o.value = .numeric n h m neg) : SoundEnc o r := by
  cases hc : r.dir with
  | none => exact C12_rejected (e := .operandType) (by simp [translateOperand, hk, hc]; rfl)
  | some c =>
    have hcell := cell_dir hr hp hc
    exact soundEnc_of_byteField (pb := []) hp (notSpecial_of_dir hr hc) hcell.1
      (translateOperand_dir hk hc (cell_lt hcell.1)) rfl rfl .none hv (by simp [hcell.2])
      (fun b => ⟨.dir b, by simp [decodeTail]⟩)

theorem sound_extended {o : Asm.Operand} {n : Nat} {h : Option Nat} {m : Mode} {neg : Bool}
    (hk : o.kind = .extended) (hv : o.value = .numeric n h m neg) : SoundEnc o r := by
  cases hc : r.ext with
  | none => exact C12_rejected (e := .operandType) (by simp [translateOperand, hk, hc]; rfl)
  | some c =>
    by_cases h0 : c = 0
    · subst h0; exact C12_rejected (e := .operandType) (by simp [translateOperand, hk, hc]; rfl)
    · have hcell := cell_ext hr hp hc
      exact soundEnc_of_wordField (pb := []) hp (notSpecial_of_ext hr hc) hcell.1
        (translateOperand_ext hk hc h0 (cell_lt hcell.1)) rfl rfl .none hv (by simp [hcell.2])
        (fun hi lo => ⟨.ext (hi * 256 + lo), by simp [decodeTail]⟩)

/-- `[number]`: post byte `$9F` and a two-byte address field -/
theorem sound_extInd_numeric {o : Asm.Operand} {n : Nat} {h : Option Nat} {m : Mode} {neg : Bool}
    (hk : o.kind = .extIndirect) (hv : o.value = .numeric n h m neg) : SoundEnc o r := by
  have hkk : translateOperand o r = translateExtIndirect o r := by simp [translateOperand, hk]
  cases hc : r.ind with
  | none => exact C12_rejected (e := .operandType) (by rw [hkk]; simp [translateExtIndirect, hc]; rfl)
  | some c =>
    by_cases h0 : c = 0
    · subst h0; exact C12_rejected (e := .operandType) (by rw [hkk]; simp [translateExtIndirect, hc]; rfl)
    · have hcell := cell_ind hr hp hc
      have ht := translateExtInd_numeric hc h0 (cell_lt hcell.1) (o := o) (by rw [hv]; rfl)
      rw [← hkk, hv] at ht
      exact soundEnc_of_wordField (pb := [0x9F]) hp (notSpecial_of_ind hr hc) hcell.1 ht rfl rfl (.byte (by omega)) rfl
        (by simp [hcell.2]) (fun hi lo => ⟨.idx (.extInd (hi * 256 + lo)), by simp [decodeTail, decodePostByte_cons]⟩)

end classes

/-! ### the index register texts -/

/-- the 21 register texts INDEX_REGISTER_REGEX accepts -/
def validRegs : List Str :=
  [str "X", str "Y", str "U", str "S", str "-X", str "-Y", str "-U", str "-S", str "--X", str "--Y", str "--U", str "--S",
   str "X+", str "Y+", str "U+", str "S+", str "X++", str "Y++", str "U++", str "S++", str "PCR"]

theorem isXYUS_cases {c : Char} (h : isXYUS c = true) : c = 'X' ∨ c = 'Y' ∨ c = 'U' ∨ c = 'S' := by
  simpa [isXYUS, or_assoc] using h

theorem validIndexReg_mem {right : Str} (h : validIndexReg right = true) : right ∈ validRegs := by
  unfold validIndexReg at h
  split at h
  · rcases isXYUS_cases h with rfl | rfl | rfl | rfl <;> decide
  · rcases isXYUS_cases h with rfl | rfl | rfl | rfl <;> decide
  · rcases isXYUS_cases h with rfl | rfl | rfl | rfl <;> decide
  · rcases isXYUS_cases h with rfl | rfl | rfl | rfl <;> decide
  · rcases isXYUS_cases h with rfl | rfl | rfl | rfl <;> decide
  · decide
  · cases h

/-- the decoder consumes exactly `k` bytes -/
def consumes (bs : Bytes) (k : Nat) : Bool := (decodePostByte bs).map Prod.snd == some k

theorem consumes_spec {bs : Bytes} {k : Nat} (h : consumes bs k = true) : ∃ i, decodePostByte bs = some (i, k) := by
  unfold consumes at h
  cases hd : decodePostByte bs with
  | none => rw [hd] at h; simp at h
  | some p => rw [hd] at h; obtain ⟨i, k'⟩ := p; simp at h; subst h; exact ⟨i, rfl⟩

theorem valid_noOff : ∀ right ∈ validRegs, (right == str "PCR") = false →
    hasSub (str "PCR") right = false ∧ noOffPost right < 256 ∧ consumes [noOffPost right] 1 = true := by decide

theorem valid_extNoOff : ∀ right ∈ validRegs, (right == str "PCR") = false →
    (badIndirect right = true ∧ (hasSub ['-'] right || hasSub ['+'] right) = true) ∨
    (badIndirect right = false ∧ extNoOffPost right < 256 ∧ consumes [extNoOffPost right] 1 = true) := by decide

theorem valid_acc : ∀ right ∈ validRegs, (right == str "PCR") = false → ∀ l ∈ [['A'], ['B'], ['D']],
    regBits right ||| 0x80 ||| accCode l < 256 ∧ consumes [regBits right ||| 0x80 ||| accCode l] 1 = true ∧
    0x80 ||| regBits right ||| accCodeInd l < 256 ∧ consumes [0x80 ||| regBits right ||| accCodeInd l] 1 = true := by decide

/-- a valid register text carries an auto increment / decrement, or is PCR, or is one of X Y U S -/
theorem valid_kinds : ∀ right ∈ validRegs,
    (hasSub ['+'] right || hasSub ['-'] right) = true ∨ right = str "PCR" ∨ ∃ k, k < 4 ∧ right = regName k := by
  intro right h
  simp only [validRegs, List.mem_cons, List.not_mem_nil, or_false] at h
  rcases h with rfl | rfl | rfl | rfl | rfl | rfl | rfl | rfl | rfl | rfl | rfl | rfl | rfl | rfl | rfl | rfl | rfl | rfl | rfl | rfl | rfl
  · exact Or.inr (Or.inr ⟨0, by omega, rfl⟩)
  · exact Or.inr (Or.inr ⟨1, by omega, rfl⟩)
  · exact Or.inr (Or.inr ⟨2, by omega, rfl⟩)
  · exact Or.inr (Or.inr ⟨3, by omega, rfl⟩)
  all_goals first | exact Or.inl (by decide) | exact Or.inr (Or.inl rfl)

/-! ### index operands -/

section index
variable {r : InstrRow} (hr : r ∈ Gen.instructions) (hp : r.isPseudo = false)
include hr hp

/-- `n,R` with a plain register and a number n ≠ 0 -/
theorem sound_offset_reg {o : Asm.Operand} {c k n : Nat} {h : Option Nat} {m : Mode} {neg : Bool}
    (hk : o.kind = .indexed) (hc : r.ind = some c) (hl : o.left = .val (.numeric n h m neg)) (hn : n ≠ 0)
    (hk4 : k < 4) (hrr : o.right = some (regName k)) : SoundEnc o r := by
  have hcell := cell_ind hr hp hc
  have hsp := notSpecial_of_ind hr hc
  have h0 := cell_ne_zero hcell.1 (by decide)
  have hlt := cell_lt hcell.1
  have ht : translateOperand o r = translateOffset false r (.numeric n h m neg) (regName k) (regBits (regName k)) := by
    simp only [translateOperand, hk]
    exact translateIndexed_offset hc h0 hlt hl hn hrr (regName_valid k)
  have hp9 : regBits (regName k) ||| ((if false = true then 0x90 else 0x80) + 0x09) = 128 + 32 * k + 9 := by
    rw [regBits_regName k hk4]; exact or_high k hk4 9 (by omega)
  have off := C01_offset hr hp hk hc hk4 hrr (i := n) (h := h) (m := m)
  cases neg
  · by_cases h1 : n ≤ 15
    · exact soundEnc_of_encodes (off.1 hl (by omega) h1)
    · by_cases h2 : n ≤ 127
      · exact soundEnc_of_encodes (off.2.2.1 hl (by omega) h2)
      · by_cases h3 : n < 65536
        · exact soundEnc_of_encodes (off.2.2.2.2.1 hl (by omega) h3)
        · obtain ⟨e, he⟩ := translateOffset_pos_big (ind := false) (h := h) (m := m) hc hlt (regName_plain k hk4)
            (show 65536 ≤ n by omega) (by rw [hp9]; omega)
          exact C12_rejected (by rw [ht]; exact he)
  · by_cases h1 : n ≤ 16
    · exact soundEnc_of_encodes (off.2.1 hl (by omega) h1)
    · by_cases h2 : n ≤ 128
      · exact soundEnc_of_encodes (off.2.2.2.1 hl (by omega) h2)
      · obtain ⟨n', h', m', neg', he⟩ := translateOffset_neg16_any (ind := false) (h := h) (m := m) hc hlt
          (regName_plain k hk4) (show 129 ≤ n by omega) (by rw [hp9]; omega)
        rw [hp9] at he
        rw [he] at ht
        exact soundEnc_of_wordField (pb := [128 + 32 * k + 9]) hp hsp hcell.1 ht rfl rfl (.byte (by omega)) rfl
          (by simp [hcell.2])
          (fun hi lo => ⟨.idx (.off k (sext (hi * 256 + lo) 16) false 16), by
            simp only [decodeTail, List.singleton_append, decode_off16 hk4 (Or.inl rfl)]
            simp⟩)


/-- `[n,R]` with a plain register and a number n ≠ 0 -/
theorem sound_offset_reg_ind {o : Asm.Operand} {c k n : Nat} {h : Option Nat} {m : Mode} {neg : Bool}
    (hb : Bracketed o) (hc : r.ind = some c) (hl : o.left = .val (.numeric n h m neg)) (hn : n ≠ 0)
    (hk4 : k < 4) (hrr : o.right = some (regName k)) : SoundEnc o r := by
  have hcell := cell_ind hr hp hc
  have hsp := notSpecial_of_ind hr hc
  have h0 := cell_ne_zero hcell.1 (by decide)
  have hlt := cell_lt hcell.1
  have ht : translateOperand o r =
      translateOffset true r (.numeric n h m neg) (regName k) (0x80 ||| regBits (regName k)) := by
    simp only [translateOperand, hb.1]
    exact translateExtInd_offset hc h0 hlt hb.2.1 hb.2.2.1 hb.2.2.2 hl hn hrr (regName_valid k)
  have hp9 : (0x80 ||| regBits (regName k)) ||| ((if true = true then 0x90 else 0x80) + 0x09) = 128 + 32 * k + 25 := by
    rw [regBits_regName k hk4]; exact or_high' k hk4 25 (by omega)
  have off := C01_indirect_offset hr hp hb hc hk4 hrr (i := n) (h := h) (m := m)
  cases neg
  · by_cases h2 : n ≤ 127
    · exact soundEnc_of_encodes (off.1 hl (by omega) h2)
    · by_cases h3 : n < 65536
      · exact soundEnc_of_encodes (off.2.2.1 hl (by omega) h3)
      · obtain ⟨e, he⟩ := translateOffset_pos_big (ind := true) (h := h) (m := m) hc hlt (regName_plain k hk4)
          (show 65536 ≤ n by omega) (by rw [hp9]; omega)
        exact C12_rejected (by rw [ht]; exact he)
  · by_cases h2 : n ≤ 128
    · exact soundEnc_of_encodes (off.2.1 hl (by omega) h2)
    · obtain ⟨n', h', m', neg', he⟩ := translateOffset_neg16_any (ind := true) (h := h) (m := m) hc hlt
        (regName_plain k hk4) (show 129 ≤ n by omega) (by rw [hp9]; omega)
      rw [hp9] at he
      rw [he] at ht
      exact soundEnc_of_wordField (pb := [128 + 32 * k + 25]) hp hsp hcell.1 ht rfl rfl (.byte (by omega)) rfl
        (by simp [hcell.2])
        (fun hi lo => ⟨.idx (.off k (sext (hi * 256 + lo) 16) true 16), by
          simp only [decodeTail, List.singleton_append, decode_off16 hk4 (Or.inr rfl)]
          simp⟩)

/-- `n,PCR` and `[n,PCR]` with a number: either width, the field fitted or the statement refused -/
theorem sound_pcr {o : Asm.Operand} {c n : Nat} {h : Option Nat} {m : Mode} {neg : Bool} (ind : Bool)
    (hk : if ind then Bracketed o else o.kind = .indexed) (hc : r.ind = some c)
    (hl : o.left = .val (.numeric n h m neg)) (hrr : o.right = some (str "PCR")) : SoundEnc o r := by
  have hcell := cell_ind hr hp hc
  have hsp := notSpecial_of_ind hr hc
  have h0 := cell_ne_zero hcell.1 (by decide)
  have hlt := cell_lt hcell.1
  have ht : translateOperand o r = translateOffset ind r (.numeric n h m neg) (str "PCR") (if ind then 0x80 else 0) := by
    cases ind
    · simp only [Bool.false_eq_true, if_false] at hk ⊢
      simp only [translateOperand, hk]
      exact translateIndexed_pcr hc h0 hlt hl hrr
    · simp only [if_true] at hk ⊢
      simp only [translateOperand, hk.1]
      exact translateExtInd_pcr hc h0 hlt hk.2.1 hk.2.2.1 hk.2.2.2 hl hrr
  cases hw : pcrWide n m neg
  · have hpb : (if ind then 0x80 else 0) ||| ((if ind then 0x90 else 0x80) + (if pcrWide n m neg then 0x0D else 0x0C)) =
        (if ind then 0x90 else 0x80) + 0x0C := by rw [hw]; cases ind <;> decide
    rw [translateOffset_pcr hc hlt (by rw [hpb]; cases ind <;> decide), hpb] at ht
    simp only [hw, Bool.false_eq_true, if_false] at ht
    exact soundEnc_of_byteField (pb := [(if ind then 0x90 else 0x80) + 0x0C]) hp hsp hcell.1 ht rfl rfl
      (.byte (by cases ind <;> decide)) rfl (by simp [hcell.2])
      (fun b => ⟨.idx (.pcr (sext b 8) (ind = true) 8), by
        simp only [decodeTail, List.singleton_append, decode_pcr8]
        simp⟩)
  · have hpb : (if ind then 0x80 else 0) ||| ((if ind then 0x90 else 0x80) + (if pcrWide n m neg then 0x0D else 0x0C)) =
        (if ind then 0x90 else 0x80) + 0x0D := by rw [hw]; cases ind <;> decide
    rw [translateOffset_pcr hc hlt (by rw [hpb]; cases ind <;> decide), hpb] at ht
    simp only [hw, if_true] at ht
    exact soundEnc_of_wordField (pb := [(if ind then 0x90 else 0x80) + 0x0D]) hp hsp hcell.1 ht rfl rfl
      (.byte (by cases ind <;> decide)) rfl (by simp [hcell.2])
      (fun hi lo => ⟨.idx (.pcr (sext (hi * 256 + lo) 16) (ind = true) 16), by
        simp only [decodeTail, List.singleton_append, decode_pcr16]
        simp⟩)


omit hr hp in
theorem abd_mem {l : Str} (h : isABD l = true) : l ∈ [['A'], ['B'], ['D']] := by
  simp only [isABD, Bool.or_eq_true, beq_iff_eq] at h
  rcases h with (rfl | rfl) | rfl <;> simp

/-- **every index operand the front end builds is sound** (`n,R`, `,R+`, `A,R`, `n,PCR`, ...) -/
theorem sound_indexed {o : Asm.Operand} (hk : o.kind = .indexed) (hs : IdxShape o) : SoundEnc o r := by
  obtain ⟨right, hrr, hleft⟩ := hs
  have hkk : translateOperand o r = translateIndexed o r := by simp [translateOperand, hk]
  cases hc : r.ind with
  | none => exact C12_rejected (e := .operandType) (by rw [hkk]; simp [translateIndexed, hc]; rfl)
  | some c =>
    by_cases hc0 : c = 0
    · subst hc0; exact C12_rejected (e := .operandType) (by rw [hkk]; simp [translateIndexed, hc]; rfl)
    · cases hv : validIndexReg right
      · exact C12_rejected (C12_unknown_index_register_rejected hk hrr hv)
      · have hmem := validIndexReg_mem hv
        have hcell := cell_ind hr hp hc
        cases hpc : right == str "PCR"
        · -- a register other than PCR
          obtain ⟨hnp, hno1, hno2⟩ := valid_noOff right hmem hpc
          have noOff : ∀ o' : Asm.Operand, o'.kind = .indexed → o'.left = .text [] → o'.right = some right →
              ∃ x, Encodes o' r x := by
            intro o' hk' hl' hr'
            obtain ⟨i, hi⟩ := consumes_spec hno2
            exact ⟨_, enc_indexed_noOff hk' hc hcell.1 hcell.2 hl' hr' hv hpc hno1 hi⟩
          rcases hleft with ⟨l, hl, rfl | habd⟩ | ⟨n, h, m, neg, hl⟩
          · obtain ⟨x, hx⟩ := noOff o hk hl hrr
            exact soundEnc_of_encodes hx
          · obtain ⟨a1, a2, _, _⟩ := valid_acc right hmem hpc l (abd_mem habd)
            obtain ⟨i, hi⟩ := consumes_spec a2
            cases hpm : (hasSub ['+'] right || hasSub ['-'] right)
            · exact soundEnc_of_encodes (enc_indexed_acc hk hc hcell.1 hcell.2 hl habd hrr hv hpc hpm a1 hi)
            · exact C12_rejected (C12_acc_autoincrement_rejected hk hc (cell_lt hcell.1) hl habd hrr hpm)
          · by_cases hn : n = 0
            · subst hn
              obtain ⟨x, hx⟩ := noOff { o with left := .text [] } hk rfl hrr
              exact soundEnc_of_encodes (encodes_congr (translateOperand_zero_val o r (Or.inl hk) hl hrr hnp) hx)
            · rcases valid_kinds right hmem with hpm | hpcr | ⟨k, hk4, rfl⟩
              · have h0 := cell_ne_zero hcell.1 (by decide)
                refine C12_rejected (e := .operandType) ?_
                rw [hkk, translateIndexed_offset hc h0 (cell_lt hcell.1) hl hn hrr hv]
                exact translateOffset_pm_reject hpm
              · subst hpcr; cases hpc
              · exact sound_offset_reg hr hp hk hc hl hn hk4 hrr
        · -- PCR
          have hpcr : right = str "PCR" := by simpa using hpc
          subst hpcr
          rcases hleft with ⟨l, hl, hl'⟩ | ⟨n, h, m, neg, hl⟩
          · exact C12_rejected (C12_pcr_without_offset_rejected hk hl hl' hrr)
          · exact sound_pcr hr hp false hk hc hl hrr

/-- **every bracketed index operand the front end builds is sound** (`[n,R]`, `[,R++]`, `[D,R]`, `[n,PCR]`, ...) -/
theorem sound_bracket {o : Asm.Operand} (hb : Bracketed o) (hs : IdxShape o) : SoundEnc o r := by
  obtain ⟨right, hrr, hleft⟩ := hs
  have hkk : translateOperand o r = translateExtIndirect o r := by simp [translateOperand, hb.1]
  cases hc : r.ind with
  | none => exact C12_rejected (e := .operandType) (by rw [hkk]; simp [translateExtIndirect, hc]; rfl)
  | some c =>
    by_cases hc0 : c = 0
    · subst hc0; exact C12_rejected (e := .operandType) (by rw [hkk]; simp [translateExtIndirect, hc]; rfl)
    · have hcell := cell_ind hr hp hc
      have hlt := cell_lt hcell.1
      cases hv : validIndexReg right
      · exact C12_rejected (C12_unknown_index_register_rejected_ind hb hc hlt hrr hv)
      · have hmem := validIndexReg_mem hv
        cases hpc : right == str "PCR"
        · obtain ⟨hnp, _, _⟩ := valid_noOff right hmem hpc
          have noOff : ∀ o' : Asm.Operand, Bracketed o' → o'.left = .text [] → o'.right = some right →
              SoundEnc o' r ∧ ((∃ x, Encodes o' r x) ∨ ∃ e, translateOperand o' r = .error e) := by
            intro o' hb' hl' hr'
            rcases valid_extNoOff right hmem hpc with ⟨hbad, hpm⟩ | ⟨hgood, e1, e2⟩
            · have h0 := cell_ne_zero hcell.1 (by decide)
              have : translateOperand o' r = .error .operandType := by
                simp only [translateOperand, hb'.1]
                exact translateExtInd_bad hc h0 hlt hb'.2.1 hb'.2.2.1 hb'.2.2.2 hl' hr' hv hpc hpm hbad
              exact ⟨C12_rejected this, Or.inr ⟨_, this⟩⟩
            · obtain ⟨i, hi⟩ := consumes_spec e2
              have := enc_extInd_noOff hb'.1 hc hcell.1 hcell.2 hb'.2.1 hb'.2.2.1 hb'.2.2.2 hl' hr' hv hpc hgood e1 hi
              exact ⟨soundEnc_of_encodes this, Or.inl ⟨_, this⟩⟩
          rcases hleft with ⟨l, hl, rfl | habd⟩ | ⟨n, h, m, neg, hl⟩
          · exact (noOff o hb hl hrr).1
          · obtain ⟨_, _, a1, a2⟩ := valid_acc right hmem hpc l (abd_mem habd)
            obtain ⟨i, hi⟩ := consumes_spec a2
            cases hpm : (hasSub ['+'] right || hasSub ['-'] right)
            · exact soundEnc_of_encodes
                (enc_extInd_acc hb.1 hc hcell.1 hcell.2 hb.2.1 hb.2.2.1 hb.2.2.2 hl habd hrr hv hpc hpm a1 hi)
            · exact C12_rejected (C12_acc_autoincrement_rejected_ind hb hc hlt hl habd hrr hpm)
          · by_cases hn : n = 0
            · subst hn
              have hz := translateOperand_zero_val o r (Or.inr hb.1) hl hrr hnp
              rcases (noOff { o with left := .text [] } hb rfl hrr).2 with ⟨x, hx⟩ | ⟨e, he⟩
              · exact soundEnc_of_encodes (encodes_congr hz hx)
              · exact C12_rejected (by rw [hz]; exact he)
            · rcases valid_kinds right hmem with hpm | hpcr | ⟨k, hk4, rfl⟩
              · have h0 := cell_ne_zero hcell.1 (by decide)
                refine C12_rejected (e := .operandType) ?_
                rw [hkk, translateExtInd_offset hc h0 hlt hb.2.1 hb.2.2.1 hb.2.2.2 hl hn hrr hv]
                exact translateOffset_pm_reject hpm
              · subst hpcr; cases hpc
              · exact sound_offset_reg_ind hr hp hb hc hl hn hk4 hrr
        · have hpcr : right = str "PCR" := by simpa using hpc
          subst hpcr
          rcases hleft with ⟨l, hl, hl'⟩ | ⟨n, h, m, neg, hl⟩
          · exact C12_rejected (C12_pcr_without_offset_rejected_ind hb hc hlt hl hl' hrr)
          · exact sound_pcr hr hp true hb hc hl hrr

end index

/-! ### register operands -/

/-- the register-operand rows are the four stack instructions and TFR / EXG -/
theorem special_mnemonics : ∀ r ∈ Gen.instructions, r.isSpecial = true →
    r.isPseudo = false ∧ (isStackMn r.mnemonic = true ∨ r.mnemonic = "TFR" ∨ r.mnemonic = "EXG") := by
  decide +kernel

/-- TFR / EXG: anything but two register names separated by one comma is refused -/
theorem translateSpecial_pair_reject {o : Asm.Operand} {r : InstrRow}
    (hm1 : (r.mnemonic == "PSHS" || r.mnemonic == "PSHU" || r.mnemonic == "PULS" || r.mnemonic == "PULU") = false)
    (hm2 : (r.mnemonic == "EXG" || r.mnemonic == "TFR") = true)
    (h : ¬ ∃ a b, splitOn ',' o.text = [a, b] ∧ isReg a = true ∧ isReg b = true) :
    translateSpecial o r = .error .operandType := by
  unfold translateSpecial
  simp only [hm1, hm2, Bool.false_eq_true, if_false, if_true]
  cases hs : splitOn ',' o.text with
  | nil => rfl
  | cons a t =>
    cases t with
    | nil => rfl
    | cons b t' =>
      cases t' with
      | cons _ _ => rfl
      | nil =>
        cases ha : isReg a
        · simp [ha]; rfl
        · cases hb : isReg b
          · simp [hb]; rfl
          · exact absurd ⟨a, b, hs, ha, hb⟩ h


/-- **every register operand (PSHS / PULS / PSHU / PULU lists, TFR / EXG pairs) is sound**, whatever its text -/
theorem sound_special {r : InstrRow} (hr : r ∈ Gen.instructions) {o : Asm.Operand} (hk : o.kind = .special)
    (hsp : r.isSpecial = true) : SoundEnc o r := by
  obtain ⟨hp, hmn⟩ := special_mnemonics r hr hsp
  rcases hmn with hm | hm
  · -- a stack instruction
    by_cases hbad : ∃ x ∈ splitOn ',' o.text, dsBit (isUStack r.mnemonic) x = none
    · exact C12_rejected (C01_push_pull_rejected hm hk hbad)
    · have hall : ∀ x ∈ splitOn ',' o.text, (dsBit (isUStack r.mnemonic) x).isSome := by
        intro x hx
        cases hd : dsBit (isUStack r.mnemonic) x with
        | none => exact absurd ⟨x, hx, hd⟩ hbad
        | some b => rfl
      exact soundEnc_of_encodes (C01_push_pull hr hm hk (splitOn_ne_nil ',' o.text) hall (joinWith_splitOn ',' o.text).symm)
  · -- TFR / EXG
    have hm' : r.mnemonic = "TFR" ∨ r.mnemonic = "EXG" := hm
    have hm1 : (r.mnemonic == "PSHS" || r.mnemonic == "PSHU" || r.mnemonic == "PULS" || r.mnemonic == "PULU") = false := by
      rcases hm' with h | h <;> rw [h] <;> decide
    have hm2 : (r.mnemonic == "EXG" || r.mnemonic == "TFR") = true := by
      rcases hm' with h | h <;> rw [h] <;> decide
    by_cases hpair : ∃ a b, splitOn ',' o.text = [a, b] ∧ isReg a = true ∧ isReg b = true
    · obtain ⟨a, b, hs, ha, hb⟩ := hpair
      obtain ⟨ya, hya, rfl⟩ := isReg_mem ha
      obtain ⟨yb, hyb, rfl⟩ := isReg_mem hb
      have htext : o.text = ya.toList ++ ',' :: yb.toList := by
        have := joinWith_splitOn ',' o.text
        rw [hs] at this
        simpa [joinWith] using this.symm
      have hte := C01_tfr_exg hr hm' hk hya hyb htext
      cases hok : dsPairOk ya yb
      · obtain ⟨e, he⟩ := hte.2 hok
        exact C12_rejected he
      · exact soundEnc_of_encodes (hte.1 hok)
    · refine C12_rejected (e := .operandType) ?_
      simp only [translateOperand, hk]
      exact translateSpecial_pair_reject hm1 hm2 hpair

/-! ### the theorem -/

/-- **C12 at full strength**: every operand the front end builds for a machine-instruction row against a table of EQU
constants, if accepted by `translate` and `fit_operand_width`, yields exactly `size` bytes that decode, as a whole, to
one instruction of the row's operation -/
theorem C12_full : C12_Statement := by
  intro r hr hp text t o0 o ht hc hres him
  have hsd := nonpseudo_not_stringDefine r hr hp
  have ht' : ConstTable t := ht
  have hshape := frontEnd_shape ht' hsd hp hc hres
  cases hshape with
  | relative hk => simp [Immediate, hk] at him
  | special hk hsp => exact sound_special hr hk hsp
  | inherent hk _ => exact sound_inherent hr hp hk
  | numeric hk hsp hv =>
    rcases hk with hk | hk | hk | hk
    · exact sound_immediate hr hp hsp hk hv
    · exact sound_direct hr hp hk hv
    · exact sound_extended hr hp hk hv
    · exact sound_extInd_numeric hr hp hk hv
  | indexed hk _ hs => exact sound_indexed hr hp hk hs
  | bracket hk _ h1 h2 h3 hs => exact sound_bracket hr hp ⟨hk, h1, h2, h3⟩ hs

/-! ### label offsets are outside the setting of `C12_Statement`

Repair batch B3 added a new operand shape: a LABEL (or label expression) as the constant offset of a pointer register
(`LDA TABLE,X`; `o.left = .val (.address j m)` or an address expression, `LabelLeft` in Lemmas/EncodeLabel.lean).
`C12_Statement` resolves the operand against a table of EQU CONSTANTS (`ConstTab`: every entry numeric), so no
`.address` value ever reaches an operand and the shape analysis (`frontEnd_shape`, `IdxShape`) is unchanged: the left part
of an index operand is an empty / accumulator text or a NUMBER.  The theorem below says so.  What is emitted for the
label-offset shape is not final after `translate` and `fit_operand_width` (the address pass in between supplies the
field), so it cannot be a `SoundEnc` statement; its soundness — `size` bytes that decode, in full, as one instruction of
the row — is `C01_label_offset` (Props/C01.lean), stated on the `fixAll` step. -/

/-- against a table of constants the front end never builds a label offset -/
theorem C12_setting_has_no_label_offsets :
    ∀ r ∈ Gen.instructions, r.isPseudo = false → ∀ (text : Str) (t : SymTab) (o0 o : Asm.Operand), ConstTab t →
      createOperand text r = .ok o0 → resolveOperand o0 r t = .ok o →
      (o.kind = .indexed ∨ (o.kind = .extIndirect ∧ o.value.isNumeric = false)) →
      ∀ left l, o.left = .val left → ¬ LabelLeft left l := by
  intro r hr hp text t o0 o ht hc hres hk left l hl hll
  have hsd := nonpseudo_not_stringDefine r hr hp
  have ht' : ConstTable t := ht
  have idx : IdxShape o → False := by
    rintro ⟨right, _, ⟨l', hl', _⟩ | ⟨n, h, m, neg, hl'⟩⟩
    · rw [hl] at hl'; cases hl'
    · rw [hl] at hl'
      injection hl' with e
      subst e
      cases hll
  cases frontEnd_shape ht' hsd hp hc hres with
  | relative hk' => rcases hk with h | ⟨h, _⟩ <;> rw [hk'] at h <;> cases h
  | special hk' _ => rcases hk with h | ⟨h, _⟩ <;> rw [hk'] at h <;> cases h
  | inherent hk' _ => rcases hk with h | ⟨h, _⟩ <;> rw [hk'] at h <;> cases h
  | numeric hk' _ hv =>
    rcases hk with h | ⟨_, h⟩
    · rcases hk' with h' | h' | h' | h' <;> rw [h] at h' <;> cases h'
    · rw [hv] at h; cases h
  | indexed _ _ hs => exact idx hs
  | bracket _ _ _ _ _ hs => exact idx hs

/-! ### non-vacuity: the hypotheses of `C12_full` are met by source texts, and the statements are accepted -/

/-- the front end builds an operand of kind `k` for `text` on row `r` (empty symbol table) and `translate` accepts it -/
def builtAndAccepted (r : InstrRow) (text : Str) (k : OpKind) : Bool :=
  match createOperand text r with
  | .ok o0 =>
    (match resolveOperand o0 r [] with
     | .ok o => o.kind == k && (match translateOperand o r with | .ok _ => true | .error _ => false)
     | .error _ => false)
  | .error _ => false

theorem builtAndAccepted_spec {r : InstrRow} {text : Str} {k : OpKind} (h : builtAndAccepted r text k = true) :
    ∃ o0 o pkg, createOperand text r = .ok o0 ∧ resolveOperand o0 r [] = .ok o ∧ o.kind = k ∧
      translateOperand o r = .ok pkg := by
  unfold builtAndAccepted at h
  cases h1 : createOperand text r with
  | error e => rw [h1] at h; cases h
  | ok o0 =>
    rw [h1] at h
    dsimp only at h
    cases h2 : resolveOperand o0 r [] with
    | error e => rw [h2] at h; cases h
    | ok o =>
      rw [h2] at h
      dsimp only at h
      simp only [Bool.and_eq_true, beq_iff_eq] at h
      cases h3 : translateOperand o r with
      | error e => rw [h3] at h; simp at h
      | ok pkg => exact ⟨o0, o, pkg, rfl, h2, h.1, h3⟩

/-- `C12_full` applied to `LDA 5,PCR`, `LDA [-200,PCR]`, `LDA A,X`, `PSHU S,X`, `LDX #-1`: each is built, accepted, and
therefore (by the theorem) emits `size` bytes that decode as one instruction -/
example : ∀ p ∈ [("LDA", "5,PCR", OpKind.indexed), ("LDA", "[-200,PCR]", .extIndirect), ("LDA", "A,X", .indexed),
      ("PSHU", "S,X", .special), ("LDX", "#-1", .immediate), ("LDA", "1-$FF", .extended)],
    ∃ r ∈ Gen.instructions, r.mnemonic = p.1 ∧ ∃ o0 o pkg, createOperand p.2.1.toList r = .ok o0 ∧
      resolveOperand o0 r [] = .ok o ∧ translateOperand o r = .ok pkg ∧ SoundEnc o r := by
  have hrows : ∀ p ∈ [("LDA", "5,PCR", OpKind.indexed), ("LDA", "[-200,PCR]", .extIndirect), ("LDA", "A,X", .indexed),
      ("PSHU", "S,X", .special), ("LDX", "#-1", .immediate), ("LDA", "1-$FF", .extended)],
      ∃ r ∈ Gen.instructions, r.mnemonic = p.1 ∧ r.isPseudo = false ∧ builtAndAccepted r p.2.1.toList p.2.2 = true := by
    decide +kernel
  intro p hp
  obtain ⟨r, hr, hm, hps, hb⟩ := hrows p hp
  obtain ⟨o0, o, pkg, h1, h2, h3, h4⟩ := builtAndAccepted_spec hb
  refine ⟨r, hr, hm, o0, o, pkg, h1, h2, h4, ?_⟩
  refine C12_full r hr hps _ [] o0 o (by intro e he; cases he) h1 h2 ?_
  simp only [List.mem_cons, List.not_mem_nil, or_false] at hp
  rcases hp with rfl | rfl | rfl | rfl | rfl | rfl <;> simp [Immediate, h3]

end CoCo.Props

section axioms
open CoCo.Props
#print axioms C12_full
#print axioms C12_setting_has_no_label_offsets
#print axioms sound_indexed
#print axioms sound_bracket
#print axioms sound_special
end axioms
