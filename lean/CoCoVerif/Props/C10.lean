/-
Props/C10.lean — an existing target file is never modified unless append applies to it.
Model level: host file system = finite map path ↦ bytes; `storeTo` = open_virtual_file; add_coco_file*;
save_virtual_file(append).  What the theorem cannot carry (named in DESIGN.md): the atomicity of
`open(path, "wb")`/`write`, and races of `os.path.exists`.
-/
import CoCoVerif.Lemmas.VirtualFile
import CoCoVerif.Spec.Tape
import CoCoVerif.Spec.DiskBasic

namespace CoCo.Props
open CoCo CoCo.VF

/-- the content is an image of kind `k` by the format specifications -/
def IsImage (k : Kind) (b : Bytes) : Prop :=
  match k with
  | .cassette => ∃ ts, Spec.Tape.WellFormed ts b ∧ (ts ≠ [] ∨ b = [])
  | .disk => Spec.DiskBasic.Fsck b
  | .binary => True

/-- the content is an image of kind `k` in the eyes of the tool's own sniffer -/
def SniffedAs (k : Kind) (b : Bytes) : Prop := ∃ files, sniff b = .ok (files, k)

/-- **C10** at full strength (one invocation; sequences follow by induction because each invocation only
depends on the file system it starts from): a change to an existing path happens only under append and only
if the old content is an image of the requested kind; everything else is untouched; a refusal writes nothing
(`storeTo` returns no file system at all in that case). -/
def C10_Statement : Prop :=
  ∀ (fs fs' : FS) (path : Path) (k : Kind) (files : List CFile) (append : Bool),
    storeTo fs path k files append = .ok fs' →
      (∀ q, q ≠ path → fs'.get? q = fs.get? q) ∧
      (∀ old, fs.get? path = some old → append = true ∧ IsImage k old)

/-- exclusion (known finding G1): the sniffer accepts the content as kind `k` but the format specification
does not (a long zero gap of a cassette lying over the directory offsets reads as an empty disk) -/
def K_C10_sniff (k : Kind) (old : Bytes) : Prop := SniffedAs k old ∧ ¬ IsImage k old

/-- **C10_partial**: as the full statement, with "is an image of the kind" judged by the tool's sniffer; and
the content written is exactly the image the writer builds from the old files followed by the new ones. -/
theorem C10_partial (fs fs' : FS) (path : Path) (k : Kind) (files : List CFile) (append : Bool)
    (h : storeTo fs path k files append = .ok fs') :
    (∀ q, q ≠ path → fs'.get? q = fs.get? q) ∧
    (∀ old, fs.get? path = some old → append = true ∧ SniffedAs k old ∧
        ∃ oldFiles img, sniff old = .ok (oldFiles, k) ∧ buildImage k (oldFiles ++ files) = .ok img ∧
          fs'.get? path = some img) ∧
    (fs.get? path = none → ∃ img, buildImage k files = .ok img ∧ fs'.get? path = some img) := by
  obtain ⟨hframe, hmain⟩ := storeTo_ok h
  refine ⟨hframe, ?_, ?_⟩
  · intro old hold
    rw [hold] at hmain
    obtain ⟨ha, oldFiles, img, hs, hb, hg⟩ := hmain
    exact ⟨ha, ⟨oldFiles, hs⟩, oldFiles, img, hs, hb, hg⟩
  · intro hnone
    rw [hnone] at hmain
    exact hmain

/-- hence: outside the exclusion the full statement holds -/
theorem C10_outside_exclusion (fs fs' : FS) (path : Path) (k : Kind) (files : List CFile) (append : Bool)
    (h : storeTo fs path k files append = .ok fs')
    (hK : ∀ old, fs.get? path = some old → ¬ K_C10_sniff k old) :
    (∀ q, q ≠ path → fs'.get? q = fs.get? q) ∧
    (∀ old, fs.get? path = some old → append = true ∧ IsImage k old) := by
  obtain ⟨hf, hm, _⟩ := C10_partial fs fs' path k files append h
  refine ⟨hf, fun old hold => ?_⟩
  obtain ⟨ha, hs, _⟩ := hm old hold
  refine ⟨ha, ?_⟩
  by_cases hi : IsImage k old
  · exact hi
  · exact absurd ⟨hs, hi⟩ (hK old hold)

/-- without the append flag an existing target is never written, whatever it holds -/
theorem C10_no_append (fs : FS) (path : Path) (k : Kind) (files : List CFile) (old : Bytes)
    (hold : fs.get? path = some old) : ¬ ∃ fs', storeTo fs path k files false = .ok fs' := by
  rintro ⟨fs', h⟩
  obtain ⟨_, hm, _⟩ := C10_partial fs fs' path k files false h
  have := (hm old hold).1
  simp at this

/-- the assembler's command line: every path other than the three targets is untouched, and when assembly
does not succeed the exit status is 1 and NO file is created or modified (C13, last sentence) -/
theorem asmMain_failure (fs : FS) (incl : Asm.Files) (lines : List (List Char)) (args : AsmArgs)
    (h : ∀ a, Asm.assemble incl lines ≠ .ok a) :
    (asmMain fs incl lines args).exit = 1 ∧ (asmMain fs incl lines args).fs = fs := by
  unfold asmMain
  cases ha : Asm.assemble incl lines with
  | ok a => exact absurd ha (h a)
  | diag => simp
  | internal => simp
  | diverged => simp

/-- non-vacuity: a fresh path, a cassette save -/
example : ∃ fs', storeTo [] "a.cas".toList .cassette [] false = .ok fs' := ⟨_, rfl⟩

end CoCo.Props
