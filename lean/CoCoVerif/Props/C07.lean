/-
Props/C07.lean — (a) write-then-list returns the stored files; (b) on every consistent Disk BASIC image
listing returns what the reference reader finds. The former exclusion `K_C07_zeroSectorAscii` (an ASCII file
whose last-granule marker says 0 sectors) is gone: `calculate_file_length` was repaired.
-/
import CoCoVerif.Props.DiskDefs
import CoCoVerif.Lemmas.DiskReaderB
import CoCoVerif.Lemmas.DiskWitness

namespace CoCo.Props
open CoCo CoCo.Dsk

/-- part (b) of C07, no exclusion -/
theorem C07_reader_full :
    ∀ (img : Bytes) (ds : List Spec.DiskBasic.DFile),
      Spec.DiskBasic.Fsck img → Spec.DiskBasic.read img = some ds →
      (∀ d ∈ ds, (∀ c ∈ d.name, c < 128) ∧ (∀ c ∈ d.ext, c < 128)) →
        Dsk.list img = .ok (ds.map ofDFile) :=
  fun _ _ hf hr ha => list_eq_read hf hr ha

/-- part (b) of C07 with the former exclusion (corollary of `C07_reader_full`) -/
theorem C07_reader_partial :
    ∀ (img : Bytes) (ds : List Spec.DiskBasic.DFile),
      Spec.DiskBasic.Fsck img → Spec.DiskBasic.read img = some ds →
      (∀ d ∈ ds, (∀ c ∈ d.name, c < 128) ∧ (∀ c ∈ d.ext, c < 128)) →
      K_C07_zeroSectorAscii img = false →
        Dsk.list img = .ok (ds.map ofDFile) :=
  fun img ds hf hr ha _ => C07_reader_full img ds hf hr ha

/-- part (a) of C07 -/
theorem C07_write_list :
    ∀ (order : List Nat) (fs : List CFile) (img : Bytes),
      ValidOrder order → (∀ f ∈ fs, ValidDFile f) → Dsk.write order fs = .ok img →
        Dsk.list img = .ok (fs.map Dsk.norm) := by
  intro order fs img ho hv hres
  obtain ⟨abs, hinv, hfs⟩ := Inv.write ho hv hres
  have hr := hinv.read_eq
  have := C07_reader_full img _ hinv.fsck hr
    (by
      intro d hd
      obtain ⟨e, he, rfl⟩ := List.mem_map.mp hd
      exact toDFile_ascii (hinv.valid e he))
  rw [this, ← hfs, List.map_map, List.map_map]
  rfl

theorem C07_partial :
    (∀ (order : List Nat) (fs : List CFile) (img : Bytes),
       ValidOrder order → (∀ f ∈ fs, ValidDFile f) → Dsk.write order fs = .ok img →
         Dsk.list img = .ok (fs.map Dsk.norm)) ∧
    (∀ (img : Bytes) (ds : List Spec.DiskBasic.DFile),
       Spec.DiskBasic.Fsck img → Spec.DiskBasic.read img = some ds →
       (∀ d ∈ ds, (∀ c ∈ d.name, c < 128) ∧ (∀ c ∈ d.ext, c < 128)) →
       K_C07_zeroSectorAscii img = false →
         Dsk.list img = .ok (ds.map ofDFile)) :=
  ⟨C07_write_list, C07_reader_partial⟩

/-- **C07** as stated, without any exclusion -/
theorem C07_full : C07_Statement := ⟨C07_write_list, C07_reader_full⟩

/-- the former counterexample to part (b): the image `Witness.img` (blank, one ASCII entry in slot 0 whose chain
is granule 0 with table entry $C0 = "0 sectors used") passes the consistency check and lies inside the former
exclusion; the reference reader finds one ASCII file with empty data, and the tool (which used to return 2048
bytes of $FF) now lists exactly that. -/
theorem C07_finding_zeroSector_fixed :
    Spec.DiskBasic.Fsck Witness.img ∧
    K_C07_zeroSectorAscii Witness.img = true ∧
    Spec.DiskBasic.read Witness.img = some [Witness.d0] ∧
    Witness.d0.data = [] ∧
    Dsk.list Witness.img = .ok ([Witness.d0].map ofDFile) ∧
    Dsk.list Witness.img = .ok [{ name := [65], ext := [84, 88, 84], ftype := 1, dtype := 0xFF, gaps := 0,
                                  load := 0, exec := 0, data := [] }] :=
  ⟨Witness.fsck Witness.wimg, Witness.K_true Witness.wimg, Witness.read_eq Witness.wimg, rfl,
   Witness.list_eq Witness.wimg, Witness.list_eq Witness.wimg⟩

end CoCo.Props
