/-
Props/C07.lean — (a) write-then-list returns the stored files; (b) on every consistent Disk BASIC image
outside the exclusion `K_C07_zeroSectorAscii`, listing returns what the reference reader finds.
-/
import CoCoVerif.Props.DiskDefs
import CoCoVerif.Lemmas.DiskReaderB
import CoCoVerif.Lemmas.DiskWitness

namespace CoCo.Props
open CoCo CoCo.Dsk

/-- part (b) of C07 with the one exclusion -/
theorem C07_reader_partial :
    ∀ (img : Bytes) (ds : List Spec.DiskBasic.DFile),
      Spec.DiskBasic.Fsck img → Spec.DiskBasic.read img = some ds →
      (∀ d ∈ ds, (∀ c ∈ d.name, c < 128) ∧ (∀ c ∈ d.ext, c < 128)) →
      K_C07_zeroSectorAscii img = false →
        Dsk.list img = .ok (ds.map ofDFile) :=
  fun _ _ hf hr ha hK => list_eq_read hf hr ha hK

/-- part (a) of C07 -/
theorem C07_write_list :
    ∀ (order : List Nat) (fs : List CFile) (img : Bytes),
      ValidOrder order → (∀ f ∈ fs, ValidDFile f) → Dsk.write order fs = .ok img →
        Dsk.list img = .ok (fs.map Dsk.norm) := by
  intro order fs img ho hv hres
  obtain ⟨abs, hinv, hfs⟩ := Inv.write ho hv hres
  have hr := hinv.read_eq
  have := C07_reader_partial img _ hinv.fsck hr
    (by
      intro d hd
      obtain ⟨e, he, rfl⟩ := List.mem_map.mp hd
      exact toDFile_ascii (hinv.valid e he))
    hinv.K_false
  rw [this, ← hfs, List.map_map, List.map_map]
  rfl

theorem C07_partial :
    (∀ (order : List Nat) (fs : List CFile) (img : Bytes),
       ValidOrder order → (∀ f ∈ fs, ValidDFile f) → Dsk.write order fs = .ok img →
         Dsk.list img = .ok (fs.map Dsk.norm)) ∧
    (∀ (img : Bytes) (ds : List Spec.DiskBasic.DFile),
       Spec.DiskBasic.Fsck img → Spec.DiskBasic.read img = some ds →
       (∀ d ∈ ds, (∀ c ∈ d.name, c < 128) ∧ (∀ c ∈ d.ext, c < 128)) →
       K_C07_zeroSectorAscii img = false →
         Dsk.list img = .ok (ds.map ofDFile)) :=
  ⟨C07_write_list, C07_reader_partial⟩

/-- part (b) of C07 is false without the exclusion: the image `Witness.img` (blank, one ASCII entry in slot 0
whose chain is granule 0 with table entry $C0 = "0 sectors used") passes the consistency check, the reference
reader finds an empty file, the tool returns 2048 bytes of $FF. -/
theorem C07_finding_zeroSector :
    ¬ (∀ (img : Bytes) (ds : List Spec.DiskBasic.DFile),
       Spec.DiskBasic.Fsck img → Spec.DiskBasic.read img = some ds →
       (∀ d ∈ ds, (∀ c ∈ d.name, c < 128) ∧ (∀ c ∈ d.ext, c < 128)) →
         Dsk.list img = .ok (ds.map ofDFile)) := by
  intro H
  apply Witness.list_ne Witness.wimg
  apply H Witness.img [Witness.d0] (Witness.fsck Witness.wimg) (Witness.read_eq Witness.wimg)
  intro d hd
  simp at hd
  subst hd
  exact ⟨by decide, by decide⟩

/-- hence C07 as stated (without the exclusion) does not hold for the tool -/
theorem C07_Statement_false : ¬ C07_Statement := fun h => C07_finding_zeroSector h.2

end CoCo.Props
