/-
Props/C07.lean — (a) write-then-list returns the stored files; (b) on every consistent Disk BASIC image
outside the exclusion `K_C07_zeroSectorAscii`, listing returns what the reference reader finds.
-/
import CoCoVerif.Props.DiskDefs
import CoCoVerif.Lemmas.DiskReaderB

namespace CoCo.Props
open CoCo CoCo.Dsk

/-- part (b) of C07 with the one exclusion -/
theorem C07_reader_partial :
    ∀ (img : Bytes) (ds : List Spec.DiskBasic.DFile),
      Spec.DiskBasic.Fsck img → Spec.DiskBasic.read img = some ds →
      (∀ d ∈ ds, (∀ c ∈ d.name, c < 128) ∧ (∀ c ∈ d.ext, c < 128)) →
      K_C07_zeroSectorAscii img = false →
        Dsk.list img = .ok (ds.map ofDFile) :=
  fun _ _ hf hr ha hK => list_eq_read hf hr ha hK

/-- part (a) of C07 -/
theorem C07_write_list :
    ∀ (order : List Nat) (fs : List CFile) (img : Bytes),
      ValidOrder order → (∀ f ∈ fs, ValidDFile f) → Dsk.write order fs = .ok img →
        Dsk.list img = .ok (fs.map Dsk.norm) := by
  intro order fs img ho hv hres
  obtain ⟨abs, hinv, hfs⟩ := Inv.write ho hv hres
  have hr := hinv.read_eq
  have := C07_reader_partial img _ hinv.fsck hr
    (by
      intro d hd
      obtain ⟨e, he, rfl⟩ := List.mem_map.mp hd
      exact toDFile_ascii (hinv.valid e he))
    hinv.K_false
  rw [this, ← hfs, List.map_map, List.map_map]
  rfl

theorem C07_partial :
    (∀ (order : List Nat) (fs : List CFile) (img : Bytes),
       ValidOrder order → (∀ f ∈ fs, ValidDFile f) → Dsk.write order fs = .ok img →
         Dsk.list img = .ok (fs.map Dsk.norm)) ∧
    (∀ (img : Bytes) (ds : List Spec.DiskBasic.DFile),
       Spec.DiskBasic.Fsck img → Spec.DiskBasic.read img = some ds →
       (∀ d ∈ ds, (∀ c ∈ d.name, c < 128) ∧ (∀ c ∈ d.ext, c < 128)) →
       K_C07_zeroSectorAscii img = false →
         Dsk.list img = .ok (ds.map ofDFile)) :=
  ⟨C07_write_list, C07_reader_partial⟩

end CoCo.Props
