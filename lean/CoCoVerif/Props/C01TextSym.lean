/-
Props/C01TextSym.lean — C01 (ii) from SOURCE TEXT for operands that NAME AN EQU SYMBOL.

`TextEncodesT t r text x` (Lemmas/FrontEndSymbol.lean) is `TextEncodes` of Props/C01Text.lean with a symbol table:
`createOperand` → `resolveOperand … t` → `translateOperand` → `fitWidth` → `stmtBytes` yields `(size, bytes)` with
`bytes.length = size`, and the datasheet decoder reads `bytes` back as the row's operation with operand `x`.

For a symbol name `nm` (`IsSymName`: not empty, made of `[\w@]`, not all digits) bound in `t` to a numeric constant of
signed value `z` (`Binds t nm z`: ANY numeric entry — `resolve_symbols` rebuilds `NumericValue(symbol.signed())`, so
the size hint and the mode the EQU stored play no role), the operand texts

    #nm    nm    <nm    >nm    [nm]    nm,R    [nm,R]    nm,PCR    [nm,PCR]          (R = X, Y, U, S)

are encoded as the datasheet operand that carries the VALUE of the symbol.  Each family is proved by computing the
front end symbolically (Lemmas/FrontEndSymbol.lean) and applying `C01_full` (Props/C01.lean) to the resolved operand.

What the front end does with a symbol (all proved below, `SymRegion`):
* `nm` alone is DIRECT exactly when 0 ≤ z < 256 (whatever the EQU spelling was: `SMALL EQU 5` and `SMALL EQU $0005`
  behave alike), EXTENDED for 256 ≤ z ≤ 65535;
* `<nm` is direct for 0 ≤ z < 256 and REJECTED for 256 ≤ z ≤ 65535; `>nm` is extended for every 0 ≤ z ≤ 65535;
* `#nm` takes the two's complement of a negative constant at the width of the row; out of range is REJECTED;
* `nm,R` takes the shortest offset form that holds z (none for 0, 5, 8, 16 bits), `[nm,R]` likewise without the
  5-bit form; `nm,PCR` the 8-bit form for −128 ≤ z ≤ 127, else the 16-bit form — on EVERY row (the row's size hint
  never reaches a symbol's value, unlike a literal's).
NOT covered: `nm` alone with a NEGATIVE constant (an ExtendedOperand with a negative value: outside `Intends`);
the accumulator names `A`, `B`, `D` as symbol names in `nm,R` (`A,X` is the accumulator offset: `isABD nm = false`
is a hypothesis of the indexed families).
-/
import CoCoVerif.Props.C01Text
import CoCoVerif.Lemmas.FrontEndSymbol
import CoCoVerif.Lemmas.LayoutEval

namespace CoCo.Props
open CoCo CoCo.Asm CoCo.Spec.MC6809
open CoCo.Gen (InstrRow)

theorem signedVal_symNum (z : Int) : signedVal z.natAbs (decide (z < 0)) = z := by
  by_cases h : z < 0 <;> simp [signedVal, h] <;> omega

/-- the front end yields an operand that stands for `x`: `C01_full` gives the bytes -/
theorem textEncodesT_of_intends {r : InstrRow} (h : PlainRow r) {t : SymTab} {text : Str} {o : Asm.Operand}
    {x : Spec.MC6809.Operand} (hf : frontEndT t r text = .ok o) (hi : Intends r o x) : TextEncodesT t r text x :=
  textEncodesT_of hf (C01_full r h.mem h.notPseudo o x hi)

theorem encodeTextT_none_of_rejected {r : InstrRow} {t : SymTab} {text : Str} {o : Asm.Operand}
    (hf : frontEndT t r text = .ok o) (hrej : RejectedByFit o r) : encodeTextT t r text = none := by
  obtain ⟨pkg, ht, hd⟩ := hrej
  exact encodeTextT_none_of_fit hf ht hd

section families
variable {r : InstrRow} (hr : PlainRow r) {t : SymTab} {nm : Str} (hn : IsSymName nm)
include hr hn

/-! ## 1. immediate: `#nm` -/

/-- `#nm`, 8-bit row, −128 ≤ z ≤ 255: the byte `z mod 256` -/
theorem C01_sym_imm8 {c : Nat} (hc : r.imm = some c) (h16 : r.is16Bit = false) {z : Int} (hb : Binds t nm z)
    (h1 : -128 ≤ z) (h2 : z ≤ 255) : TextEncodesT t r ('#' :: nm) (.imm 8 (twos z 8)) := by
  have hl := hr.imm_mode hc
  rw [h16] at hl
  have := Intends.imm8 (r := r) (o := { kind := .immediate, text := '#' :: nm, value := symNum z }) rfl hc hl rfl
    (by rw [signedVal_symNum]; exact h1) (by rw [signedVal_symNum]; exact h2)
  rw [signedVal_symNum] at this
  exact textEncodesT_of_intends hr (frontEndT_imm_sym hr.flags hn hb (by omega)) this

/-- `#nm`, `is_16_bit` row, −32768 ≤ z ≤ 65535: the word `z mod 65536` -/
theorem C01_sym_imm16 {c : Nat} (hc : r.imm = some c) (h16 : r.is16Bit = true) {z : Int} (hb : Binds t nm z)
    (h1 : -32768 ≤ z) (h2 : z ≤ 65535) : TextEncodesT t r ('#' :: nm) (.imm 16 (twos z 16)) := by
  have hl := hr.imm_mode hc
  rw [h16] at hl
  have := Intends.imm16 (r := r) (o := { kind := .immediate, text := '#' :: nm, value := symNum z }) rfl hc hl rfl
    (by rw [signedVal_symNum]; exact h1) (by rw [signedVal_symNum]; exact h2)
  rw [signedVal_symNum] at this
  exact textEncodesT_of_intends hr (frontEndT_imm_sym hr.flags hn hb h2) this

/-- `#nm`, 8-bit row, a value outside −128..255: REJECTED by `fitWidth` -/
theorem C01_sym_imm8_rejected {c : Nat} (hc : r.imm = some c) (h16 : r.is16Bit = false) {z : Int} (hb : Binds t nm z)
    (hout : ¬ (-128 ≤ z ∧ z ≤ 255)) (h2 : z ≤ 65535) : encodeTextT t r ('#' :: nm) = none := by
  have hl := hr.imm_mode hc
  rw [h16] at hl
  refine encodeTextT_none_of_rejected (frontEndT_imm_sym hr.flags hn hb h2)
    (C12_imm8_out_of_range_rejected hr.mem hr.notPseudo
      (o := { kind := .immediate, text := '#' :: nm, value := symNum z }) rfl hc hl rfl ?_)
  rw [signedVal_symNum]; exact hout

/-- `#nm`, `is_16_bit` row, a value below −32768: REJECTED -/
theorem C01_sym_imm16_rejected {c : Nat} (hc : r.imm = some c) (h16 : r.is16Bit = true) {z : Int} (hb : Binds t nm z)
    (hout : z < -32768) : encodeTextT t r ('#' :: nm) = none := by
  have hl := hr.imm_mode hc
  rw [h16] at hl
  refine encodeTextT_none_of_rejected (frontEndT_imm_sym hr.flags hn hb (by omega))
    (C12_imm16_out_of_range_rejected hr.mem hr.notPseudo
      (o := { kind := .immediate, text := '#' :: nm, value := symNum z }) rfl hc hl rfl ?_)
  rw [signedVal_symNum]; omega

/-! ## 2. direct and extended: `nm`, `<nm`, `>nm` -/

/-- `nm`, 0 ≤ n < 256: DIRECT — whatever the spelling of the EQU was -/
theorem C01_sym_dir {c : Nat} (hc : r.dir = some c) {n : Nat} (hb : Binds t nm n) (h8 : n < 256) :
    TextEncodesT t r nm (.dir n) := by
  have hf := frontEndT_direct_sym hr.flags hn hb (by omega) (by omega) (by omega)
  rw [Int.natAbs_natCast] at hf
  exact textEncodesT_of_intends hr hf (.direct rfl hc rfl h8)

/-- `nm`, 256 ≤ n ≤ 65535: EXTENDED -/
theorem C01_sym_ext {c : Nat} (hc : r.ext = some c) {n : Nat} (hb : Binds t nm n) (h1 : 256 ≤ n) (h2 : n < 65536) :
    TextEncodesT t r nm (.ext n) := by
  have hf := frontEndT_extended_sym hr.flags hn hb (by omega) (Or.inr (by omega))
  have hs : symNum (n : Int) = .numeric n none .extended false := by
    have : ¬ n < 256 := by omega
    simp [symNum, this]
  rw [hs] at hf
  exact textEncodesT_of_intends hr hf (.extended rfl hc rfl h2)

/-- `>nm`, 0 ≤ n ≤ 65535: EXTENDED, also below 256 -/
theorem C01_sym_ext_gt {c : Nat} (hc : r.ext = some c) {n : Nat} (hb : Binds t nm n) (h2 : n < 65536) :
    TextEncodesT t r ('>' :: nm) (.ext n) := by
  have hf := frontEndT_gt_sym hr.flags hn hb (by omega)
  have hs : symNum (n : Int) = .numeric n (if n < 256 then some 2 else none) (if n < 256 then .direct else .extended)
      false := by simp [symNum]
  rw [hs] at hf
  exact textEncodesT_of_intends hr hf (.extended rfl hc rfl h2)

/-- `<nm`, 0 ≤ n < 256: forced DIRECT -/
theorem C01_sym_dir_lt {c : Nat} (hc : r.dir = some c) {n : Nat} (hb : Binds t nm n) (h8 : n < 256) :
    TextEncodesT t r ('<' :: nm) (.dir n) := by
  have hf := frontEndT_lt_sym hr.flags hn hb (by omega) (by omega)
  rw [Int.natAbs_natCast] at hf
  exact textEncodesT_of_intends hr hf (.direct rfl hc rfl h8)

/-- `<nm`, 256 ≤ n ≤ 65535: REJECTED by `fitWidth` -/
theorem C01_sym_dir_lt_rejected {c : Nat} (hc : r.dir = some c) {n : Nat} (hb : Binds t nm n) (h1 : 256 ≤ n)
    (h2 : n < 65536) : encodeTextT t r ('<' :: nm) = none := by
  have hf := frontEndT_lt_sym hr.flags hn hb (by omega) (by omega)
  rw [Int.natAbs_natCast] at hf
  exact encodeTextT_none_of_rejected hf
    (C12_direct_out_of_range_rejected hr.mem hr.notPseudo (neg := false) rfl hc rfl (by simp [signedVal]; omega))

/-! ## 3. extended indirect: `[nm]` -/

/-- `[nm]`, 0 ≤ n ≤ 65535 -/
theorem C01_sym_extInd {c : Nat} (hc : r.ind = some c) {n : Nat} (hb : Binds t nm n) (h2 : n < 65536) :
    TextEncodesT t r ('[' :: (nm ++ [']'])) (.idx (.extInd n)) := by
  have hf := frontEndT_bracket_sym hr.flags hn hb (by omega)
  have hs : symNum (n : Int) = .numeric n (if n < 256 then some 2 else none) (if n < 256 then .direct else .extended)
      false := by simp [symNum]
  rw [hs] at hf
  exact textEncodesT_of_intends hr hf (.extInd rfl hc rfl h2)

/-! ## 4. constant offsets: `nm,R` and `[nm,R]`

The resolved operand carries `symNum z` on the left: exactly the operands `C01_offset` / `C01_indirect_offset`
(through `C01_full`) are about. -/

/-- the resolved operand of `nm,right` -/
def symIdx (nm right : Str) (z : Int) : Asm.Operand :=
  { kind := .indexed, text := nm ++ ',' :: right, value := .leftRight nm right .extended, left := .val (symNum z),
    right := some right }

/-- the resolved operand of `[nm,right]` -/
def symInd (nm right : Str) (z : Int) : Asm.Operand :=
  { kind := .extIndirect, text := '[' :: ((nm ++ ',' :: right) ++ [']']), value := .leftRight nm right .extended,
    left := .val (symNum z), right := some right }

omit hr hn in
theorem symInd_bracketed (nm right : Str) (z : Int) : Bracketed (symInd nm right z) := ⟨rfl, rfl, rfl, rfl⟩

omit hr hn in
theorem symNum_zero : symNum 0 = .numeric 0 (some 2) .direct false := by simp [symNum]

/-- `nm,R` with a symbol of value 0: assembled exactly like `,R` -/
theorem C01_sym_off0 {c k : Nat} (hc : r.ind = some c) (hk : k < 4) (hab : isABD nm = false) (hb : Binds t nm 0) :
    TextEncodesT t r (nm ++ ',' :: regName k) (.idx (.off k 0 false 0)) := by
  have hf := frontEndT_indexed_sym hr.flags hn hb (by omega) hab (comma_not_mem_regName hk)
  rw [symNum_zero] at hf
  refine textEncodesT_of hf
    (encodes_congr (translateOperand_zero_val _ r (Or.inl rfl) rfl rfl (regName_plain k hk).noPcr) ?_)
  exact C01_full r hr.mem hr.notPseudo _ _ (.zero rfl hc rfl hk rfl)

/-- `nm,R`, z ≠ 0, −16 ≤ z ≤ 15: the 5-bit form -/
theorem C01_sym_off5 {c k : Nat} (hc : r.ind = some c) (hk : k < 4) (hab : isABD nm = false) {z : Int}
    (hb : Binds t nm z) (h0 : z ≠ 0) (h1 : -16 ≤ z) (h2 : z ≤ 15) :
    TextEncodesT t r (nm ++ ',' :: regName k) (.idx (.off k z false 5)) := by
  have hf := frontEndT_indexed_sym hr.flags hn hb (by omega) hab (comma_not_mem_regName hk)
  have := Intends.off5 (r := r) (o := symIdx nm (regName k) z) rfl hc rfl (by omega) hk rfl
    (by rw [signedVal_symNum]; exact h1) (by rw [signedVal_symNum]; exact h2)
  rw [signedVal_symNum] at this
  exact textEncodesT_of_intends hr hf this

/-- `nm,R`, −128 ≤ z ≤ 127 outside −16..15: the 8-bit form — on every row -/
theorem C01_sym_off8 {c k : Nat} (hc : r.ind = some c) (hk : k < 4) (hab : isABD nm = false) {z : Int}
    (hb : Binds t nm z) (h0 : ¬ (-16 ≤ z ∧ z ≤ 15)) (h1 : -128 ≤ z) (h2 : z ≤ 127) :
    TextEncodesT t r (nm ++ ',' :: regName k) (.idx (.off k z false 8)) := by
  have hf := frontEndT_indexed_sym hr.flags hn hb (by omega) hab (comma_not_mem_regName hk)
  have := Intends.off8 (r := r) (o := symIdx nm (regName k) z) rfl hc rfl hk rfl
    (by rw [signedVal_symNum]; exact h0) (by rw [signedVal_symNum]; exact h1) (by rw [signedVal_symNum]; exact h2)
  rw [signedVal_symNum] at this
  exact textEncodesT_of_intends hr hf this

/-- `nm,R`, −32768 ≤ z ≤ 65535 outside −128..127: the 16-bit form; the decoder reads the two-byte field
sign-extended (`z` itself for z ≤ 32767) -/
theorem C01_sym_off16 {c k : Nat} (hc : r.ind = some c) (hk : k < 4) (hab : isABD nm = false) {z : Int}
    (hb : Binds t nm z) (h0 : ¬ (-128 ≤ z ∧ z ≤ 127)) (h1 : -32768 ≤ z) (h2 : z ≤ 65535) :
    TextEncodesT t r (nm ++ ',' :: regName k) (.idx (.off k (sext (twos z 16) 16) false 16)) := by
  have hf := frontEndT_indexed_sym hr.flags hn hb h2 hab (comma_not_mem_regName hk)
  have := Intends.off16 (r := r) (o := symIdx nm (regName k) z) rfl hc rfl hk rfl
    (by rw [signedVal_symNum]; exact h0) (by rw [signedVal_symNum]; exact h1) (by rw [signedVal_symNum]; exact h2)
  rw [signedVal_symNum] at this
  exact textEncodesT_of_intends hr hf this

/-- `[nm,R]` with a symbol of value 0: assembled exactly like `[,R]` -/
theorem C01_sym_ind_off0 {c k : Nat} (hc : r.ind = some c) (hk : k < 4) (hab : isABD nm = false) (hb : Binds t nm 0) :
    TextEncodesT t r ('[' :: ((nm ++ ',' :: regName k) ++ [']'])) (.idx (.off k 0 true 0)) := by
  have hf := frontEndT_bracket_indexed_sym hr.flags hn hb (by omega) hab (comma_not_mem_regName hk)
  rw [symNum_zero] at hf
  refine textEncodesT_of hf
    (encodes_congr (translateOperand_zero_val _ r (Or.inr rfl) rfl rfl (regName_plain k hk).noPcr) ?_)
  exact C01_full r hr.mem hr.notPseudo _ _ (.indZero ⟨rfl, rfl, rfl, rfl⟩ hc rfl hk rfl)

/-- `[nm,R]`, z ≠ 0, −128 ≤ z ≤ 127: the 8-bit form (there is no 5-bit indirect form) -/
theorem C01_sym_ind_off8 {c k : Nat} (hc : r.ind = some c) (hk : k < 4) (hab : isABD nm = false) {z : Int}
    (hb : Binds t nm z) (h0 : z ≠ 0) (h1 : -128 ≤ z) (h2 : z ≤ 127) :
    TextEncodesT t r ('[' :: ((nm ++ ',' :: regName k) ++ [']'])) (.idx (.off k z true 8)) := by
  have hf := frontEndT_bracket_indexed_sym hr.flags hn hb (by omega) hab (comma_not_mem_regName hk)
  have := Intends.indOff8 (r := r) (o := symInd nm (regName k) z) (symInd_bracketed _ _ _) hc rfl (by omega) hk rfl
    (by rw [signedVal_symNum]; exact h1) (by rw [signedVal_symNum]; exact h2)
  rw [signedVal_symNum] at this
  exact textEncodesT_of_intends hr hf this

/-- `[nm,R]`, −32768 ≤ z ≤ 65535 outside −128..127: the 16-bit form -/
theorem C01_sym_ind_off16 {c k : Nat} (hc : r.ind = some c) (hk : k < 4) (hab : isABD nm = false) {z : Int}
    (hb : Binds t nm z) (h0 : ¬ (-128 ≤ z ∧ z ≤ 127)) (h1 : -32768 ≤ z) (h2 : z ≤ 65535) :
    TextEncodesT t r ('[' :: ((nm ++ ',' :: regName k) ++ [']'])) (.idx (.off k (sext (twos z 16) 16) true 16)) := by
  have hf := frontEndT_bracket_indexed_sym hr.flags hn hb h2 hab (comma_not_mem_regName hk)
  have := Intends.indOff16 (r := r) (o := symInd nm (regName k) z) (symInd_bracketed _ _ _) hc rfl hk rfl
    (by rw [signedVal_symNum]; exact h0) (by rw [signedVal_symNum]; exact h1) (by rw [signedVal_symNum]; exact h2)
  rw [signedVal_symNum] at this
  exact textEncodesT_of_intends hr hf this

/-! ## 5. constant offsets from the program counter: `nm,PCR` and `[nm,PCR]`

The value of a symbol never carries the row's size hint, so — unlike a literal (`LDX 5,PCR` is `AE 8D 00 05`) — the
width depends on the value alone: `FIVE EQU 5`, `LDX FIVE,PCR` is `AE 8C 05`. -/

omit hr hn in
theorem symNum_mode_ne_extended {z : Int} (h1 : -128 ≤ z) (h2 : z ≤ 127) :
    (if z.natAbs < 256 then Mode.direct else Mode.extended) ≠ .extended := by
  have : z.natAbs < 256 := by omega
  simp [this]

/-- `nm,PCR`, −128 ≤ z ≤ 127: the 8-bit form, EVERY row -/
theorem C01_sym_pcr8 {c : Nat} (hc : r.ind = some c) (hab : isABD nm = false) {z : Int} (hb : Binds t nm z)
    (h1 : -128 ≤ z) (h2 : z ≤ 127) :
    TextEncodesT t r (nm ++ ',' :: str "PCR") (.idx (.pcr z false 8)) := by
  have hf := frontEndT_indexed_sym hr.flags hn hb (by omega) hab (r := str "PCR") (by decide)
  have := Intends.pcr8 (r := r) (o := symIdx nm (str "PCR") z) rfl hc rfl rfl (symNum_mode_ne_extended h1 h2)
    (by rw [signedVal_symNum]; exact h1) (by rw [signedVal_symNum]; exact h2)
  rw [signedVal_symNum] at this
  exact textEncodesT_of_intends hr hf this

/-- `nm,PCR`, −32768 ≤ z ≤ 65535 outside −128..127: the 16-bit form -/
theorem C01_sym_pcr16 {c : Nat} (hc : r.ind = some c) (hab : isABD nm = false) {z : Int} (hb : Binds t nm z)
    (h0 : ¬ (-128 ≤ z ∧ z ≤ 127)) (h1 : -32768 ≤ z) (h2 : z ≤ 65535) :
    TextEncodesT t r (nm ++ ',' :: str "PCR") (.idx (.pcr (sext (twos z 16) 16) false 16)) := by
  have hf := frontEndT_indexed_sym hr.flags hn hb h2 hab (r := str "PCR") (by decide)
  have := Intends.pcr16 (r := r) (o := symIdx nm (str "PCR") z) rfl hc rfl rfl
    (Or.inr (by rw [signedVal_symNum]; exact h0)) (by rw [signedVal_symNum]; exact h1)
    (by rw [signedVal_symNum]; exact h2)
  rw [signedVal_symNum] at this
  exact textEncodesT_of_intends hr hf this

/-- `[nm,PCR]`, 8-bit form -/
theorem C01_sym_ind_pcr8 {c : Nat} (hc : r.ind = some c) (hab : isABD nm = false) {z : Int} (hb : Binds t nm z)
    (h1 : -128 ≤ z) (h2 : z ≤ 127) :
    TextEncodesT t r ('[' :: ((nm ++ ',' :: str "PCR") ++ [']'])) (.idx (.pcr z true 8)) := by
  have hf := frontEndT_bracket_indexed_sym hr.flags hn hb (by omega) hab (r := str "PCR") (by decide)
  have := Intends.indPcr8 (r := r) (o := symInd nm (str "PCR") z) (symInd_bracketed _ _ _) hc rfl rfl
    (symNum_mode_ne_extended h1 h2) (by rw [signedVal_symNum]; exact h1) (by rw [signedVal_symNum]; exact h2)
  rw [signedVal_symNum] at this
  exact textEncodesT_of_intends hr hf this

/-- `[nm,PCR]`, 16-bit form -/
theorem C01_sym_ind_pcr16 {c : Nat} (hc : r.ind = some c) (hab : isABD nm = false) {z : Int} (hb : Binds t nm z)
    (h0 : ¬ (-128 ≤ z ∧ z ≤ 127)) (h1 : -32768 ≤ z) (h2 : z ≤ 65535) :
    TextEncodesT t r ('[' :: ((nm ++ ',' :: str "PCR") ++ [']'])) (.idx (.pcr (sext (twos z 16) 16) true 16)) := by
  have hf := frontEndT_bracket_indexed_sym hr.flags hn hb h2 hab (r := str "PCR") (by decide)
  have := Intends.indPcr16 (r := r) (o := symInd nm (str "PCR") z) (symInd_bracketed _ _ _) hc rfl rfl
    (Or.inr (by rw [signedVal_symNum]; exact h0)) (by rw [signedVal_symNum]; exact h1)
    (by rw [signedVal_symNum]; exact h2)
  rw [signedVal_symNum] at this
  exact textEncodesT_of_intends hr hf this

end families

/-! ## the proved region for symbol operands -/

/-- PROVED region: operand texts that name a bound symbol, with the datasheet operand they denote.  `z : Int` is the
signed value of the symbol, `n : Nat` a non-negative one. -/
inductive SymRegion (t : SymTab) (r : InstrRow) : Str → Spec.MC6809.Operand → Prop
  | imm8 {c : Nat} {nm : Str} {z : Int} : r.imm = some c → r.is16Bit = false → IsSymName nm → Binds t nm z →
      -128 ≤ z → z ≤ 255 → SymRegion t r ('#' :: nm) (.imm 8 (twos z 8))
  | imm16 {c : Nat} {nm : Str} {z : Int} : r.imm = some c → r.is16Bit = true → IsSymName nm → Binds t nm z →
      -32768 ≤ z → z ≤ 65535 → SymRegion t r ('#' :: nm) (.imm 16 (twos z 16))
  | dir {c : Nat} {nm : Str} {n : Nat} : r.dir = some c → IsSymName nm → Binds t nm n → n < 256 →
      SymRegion t r nm (.dir n)
  | ext {c : Nat} {nm : Str} {n : Nat} : r.ext = some c → IsSymName nm → Binds t nm n → 256 ≤ n → n < 65536 →
      SymRegion t r nm (.ext n)
  | extGt {c : Nat} {nm : Str} {n : Nat} : r.ext = some c → IsSymName nm → Binds t nm n → n < 65536 →
      SymRegion t r ('>' :: nm) (.ext n)
  | dirLt {c : Nat} {nm : Str} {n : Nat} : r.dir = some c → IsSymName nm → Binds t nm n → n < 256 →
      SymRegion t r ('<' :: nm) (.dir n)
  | extInd {c : Nat} {nm : Str} {n : Nat} : r.ind = some c → IsSymName nm → Binds t nm n → n < 65536 →
      SymRegion t r ('[' :: (nm ++ [']'])) (.idx (.extInd n))
  | off0 {c k : Nat} {nm : Str} : r.ind = some c → k < 4 → IsSymName nm → isABD nm = false → Binds t nm 0 →
      SymRegion t r (nm ++ ',' :: regName k) (.idx (.off k 0 false 0))
  | off5 {c k : Nat} {nm : Str} {z : Int} : r.ind = some c → k < 4 → IsSymName nm → isABD nm = false → Binds t nm z →
      z ≠ 0 → -16 ≤ z → z ≤ 15 → SymRegion t r (nm ++ ',' :: regName k) (.idx (.off k z false 5))
  | off8 {c k : Nat} {nm : Str} {z : Int} : r.ind = some c → k < 4 → IsSymName nm → isABD nm = false → Binds t nm z →
      ¬ (-16 ≤ z ∧ z ≤ 15) → -128 ≤ z → z ≤ 127 → SymRegion t r (nm ++ ',' :: regName k) (.idx (.off k z false 8))
  | off16 {c k : Nat} {nm : Str} {z : Int} : r.ind = some c → k < 4 → IsSymName nm → isABD nm = false → Binds t nm z →
      ¬ (-128 ≤ z ∧ z ≤ 127) → -32768 ≤ z → z ≤ 65535 →
      SymRegion t r (nm ++ ',' :: regName k) (.idx (.off k (sext (twos z 16) 16) false 16))
  | indOff0 {c k : Nat} {nm : Str} : r.ind = some c → k < 4 → IsSymName nm → isABD nm = false → Binds t nm 0 →
      SymRegion t r ('[' :: ((nm ++ ',' :: regName k) ++ [']'])) (.idx (.off k 0 true 0))
  | indOff8 {c k : Nat} {nm : Str} {z : Int} : r.ind = some c → k < 4 → IsSymName nm → isABD nm = false →
      Binds t nm z → z ≠ 0 → -128 ≤ z → z ≤ 127 →
      SymRegion t r ('[' :: ((nm ++ ',' :: regName k) ++ [']'])) (.idx (.off k z true 8))
  | indOff16 {c k : Nat} {nm : Str} {z : Int} : r.ind = some c → k < 4 → IsSymName nm → isABD nm = false →
      Binds t nm z → ¬ (-128 ≤ z ∧ z ≤ 127) → -32768 ≤ z → z ≤ 65535 →
      SymRegion t r ('[' :: ((nm ++ ',' :: regName k) ++ [']'])) (.idx (.off k (sext (twos z 16) 16) true 16))
  | pcr8 {c : Nat} {nm : Str} {z : Int} : r.ind = some c → IsSymName nm → isABD nm = false → Binds t nm z →
      -128 ≤ z → z ≤ 127 → SymRegion t r (nm ++ ',' :: str "PCR") (.idx (.pcr z false 8))
  | pcr16 {c : Nat} {nm : Str} {z : Int} : r.ind = some c → IsSymName nm → isABD nm = false → Binds t nm z →
      ¬ (-128 ≤ z ∧ z ≤ 127) → -32768 ≤ z → z ≤ 65535 →
      SymRegion t r (nm ++ ',' :: str "PCR") (.idx (.pcr (sext (twos z 16) 16) false 16))
  | indPcr8 {c : Nat} {nm : Str} {z : Int} : r.ind = some c → IsSymName nm → isABD nm = false → Binds t nm z →
      -128 ≤ z → z ≤ 127 → SymRegion t r ('[' :: ((nm ++ ',' :: str "PCR") ++ [']'])) (.idx (.pcr z true 8))
  | indPcr16 {c : Nat} {nm : Str} {z : Int} : r.ind = some c → IsSymName nm → isABD nm = false → Binds t nm z →
      ¬ (-128 ≤ z ∧ z ≤ 127) → -32768 ≤ z → z ≤ 65535 →
      SymRegion t r ('[' :: ((nm ++ ',' :: str "PCR") ++ [']'])) (.idx (.pcr (sext (twos z 16) 16) true 16))

/-- **C01 (ii) from source text for symbol operands**: for every ordinary machine-instruction row, every symbol table
and every operand text of the region, `encodeTextT` gives `(size, bytes)`, `bytes.length = size`, and the datasheet
decoder reads `bytes` back as the row's operation with the operand that carries the value of the symbol -/
theorem C01_text_symbol {t : SymTab} {r : InstrRow} (hr : PlainRow r) {text : Str} {x : Spec.MC6809.Operand}
    (h : SymRegion t r text x) : TextEncodesT t r text x := by
  cases h with
  | imm8 hc h16 hn hb h1 h2 => exact C01_sym_imm8 hr hn hc h16 hb h1 h2
  | imm16 hc h16 hn hb h1 h2 => exact C01_sym_imm16 hr hn hc h16 hb h1 h2
  | dir hc hn hb h8 => exact C01_sym_dir hr hn hc hb h8
  | ext hc hn hb h1 h2 => exact C01_sym_ext hr hn hc hb h1 h2
  | extGt hc hn hb h2 => exact C01_sym_ext_gt hr hn hc hb h2
  | dirLt hc hn hb h8 => exact C01_sym_dir_lt hr hn hc hb h8
  | extInd hc hn hb h2 => exact C01_sym_extInd hr hn hc hb h2
  | off0 hc hk hn hab hb => exact C01_sym_off0 hr hn hc hk hab hb
  | off5 hc hk hn hab hb h0 h1 h2 => exact C01_sym_off5 hr hn hc hk hab hb h0 h1 h2
  | off8 hc hk hn hab hb h0 h1 h2 => exact C01_sym_off8 hr hn hc hk hab hb h0 h1 h2
  | off16 hc hk hn hab hb h0 h1 h2 => exact C01_sym_off16 hr hn hc hk hab hb h0 h1 h2
  | indOff0 hc hk hn hab hb => exact C01_sym_ind_off0 hr hn hc hk hab hb
  | indOff8 hc hk hn hab hb h0 h1 h2 => exact C01_sym_ind_off8 hr hn hc hk hab hb h0 h1 h2
  | indOff16 hc hk hn hab hb h0 h1 h2 => exact C01_sym_ind_off16 hr hn hc hk hab hb h0 h1 h2
  | pcr8 hc hn hab hb h1 h2 => exact C01_sym_pcr8 hr hn hc hab hb h1 h2
  | pcr16 hc hn hab hb h0 h1 h2 => exact C01_sym_pcr16 hr hn hc hab hb h0 h1 h2
  | indPcr8 hc hn hab hb h1 h2 => exact C01_sym_ind_pcr8 hr hn hc hab hb h1 h2
  | indPcr16 hc hn hab hb h0 h1 h2 => exact C01_sym_ind_pcr16 hr hn hc hab hb h0 h1 h2

/-! ## the EQU spellings: what the table holds does not matter

`createOperand` normalises the value of `NAME EQU <literal>` (`numericOfInt i none .extended` for `$hhhh`, DIRECT for
a value with two hex digits, else the literal's value as created); `buildSymTab` stores that value.  Whatever it is,
as long as it is numeric: -/

/-- every numeric table entry binds its signed value -/
theorem binds_of_get {t : SymTab} {nm : Str} {i : Nat} {h : Option Nat} {m : Mode} {ng : Bool}
    (hg : t.get? nm = some (.numeric i h m ng)) : Binds t nm (signedVal i ng) :=
  ⟨i, h, m, ng, hg, rfl⟩

/-- a Boolean test for `Binds` (for kernel-checked witnesses) -/
def bindsB (t : SymTab) (nm : Str) (z : Int) : Bool :=
  match t.get? nm with
  | some (.numeric i _ _ ng) => decide (z = if ng then -(i : Int) else i)
  | _ => false

theorem bindsB_sound {t : SymTab} {nm : Str} {z : Int} (h : bindsB t nm z = true) : Binds t nm z := by
  unfold bindsB at h
  split at h
  · rename_i i hh m ng hg
    exact ⟨i, hh, m, ng, hg, of_decide_eq_true h⟩
  · cases h

/-- **`NAME EQU <literal>` binds the literal's value**: if statement `j` of the (parsed, expanded) program is
`label EQU lit` — its operand is what `createOperand lit EQU` builds, as in `parseLine` — then the table
`buildSymTab` makes for `resolve_symbols` binds `label` to the value of `lit`, for the four literal spellings
`n`, `-n`, `$hh`, `$hhhh` -/
theorem equ_binds {ss : List Stmt} {t : SymTab} (hbuild : buildSymTab ss 0 [] = some t) {j : Nat} {s : Stmt}
    (hs : ss[j]? = some s) (hl : s.label.isEmpty = false) (hrow : s.row = equRow) {lit : Str}
    (hop : createOperand lit equRow = .ok s.operand) :
    (∀ x, lit = x → IsDecLit x → parseBase 10 x < 65536 → Binds t s.label (parseBase 10 x : Nat)) ∧
    (∀ x, lit = '-' :: x → IsDecLit x → parseBase 10 x ≤ 32768 → Binds t s.label (-(parseBase 10 x : Nat))) ∧
    (∀ hs, lit = '$' :: hs → IsHexLit 2 hs → Binds t s.label (parseBase 16 hs : Nat)) ∧
    (∀ hs, lit = '$' :: hs → IsHexLit 4 hs → Binds t s.label (parseBase 16 hs : Nat)) := by
  have hd : s.row.isPseudoDefine = true := by rw [hrow]; exact equRow_flags.2.1
  refine ⟨?_, ?_, ?_, ?_⟩
  · rintro x rfl hx hv
    rw [createOperand_equ_dec hx hv] at hop
    have hv' : s.operand.value = .numeric (parseBase 10 lit) (some 4) .extended false := by
      injection hop with e; rw [← e]
    simpa using binds_of_equ_stmt hbuild hs hl hd hv'
  · rintro x rfl hx hv
    rw [createOperand_equ_neg hx hv] at hop
    have hv' : s.operand.value = .numeric (parseBase 10 x) (some 4) .extended true := by
      injection hop with e; rw [← e]
    simpa using binds_of_equ_stmt hbuild hs hl hd hv'
  · rintro hx rfl hh
    rw [createOperand_equ_hex2 hh] at hop
    have hv' : s.operand.value = .numeric (parseBase 16 hx) (some 2) .direct false := by
      injection hop with e; rw [← e]
    simpa using binds_of_equ_stmt hbuild hs hl hd hv'
  · rintro hx rfl hh
    rw [createOperand_equ_hex4 hh] at hop
    have hv' : s.operand.value = .numeric (parseBase 16 hx) (some 4) .extended false := by
      injection hop with e; rw [← e]
    simpa using binds_of_equ_stmt hbuild hs hl hd hv'

/-! ## non-vacuity: a whole program through `assemble` -/

/-- `SYM EQU $1234`, `SMALL EQU 5`, `NEG EQU -3` used in every position of the region -/
def symProg : List Str :=
  [" ORG $2000\n", "SYM EQU $1234\n", "SMALL EQU 5\n", "NEG EQU -3\n",
   " LDA #SMALL\n", " LDA #NEG\n", " LDX #SYM\n", " LDX #NEG\n", " LDX #SMALL\n",
   " LDA SMALL\n", " LDA SYM\n", " LDA <SMALL\n", " LDA >SMALL\n", " LDX SMALL\n",
   " LDA [SYM]\n", " LDA [SMALL]\n",
   " LDA SMALL,X\n", " LDA NEG,Y\n", " LDA SYM,U\n", " LDX SMALL,S\n",
   " LDA [SMALL,S]\n", " LDA [NEG,X]\n", " LDA [SYM,Y]\n",
   " LDA SMALL,PCR\n", " LDX SMALL,PCR\n", " LDA [NEG,PCR]\n", " LDX SYM,PCR\n",
   " END\n"].map String.toList

/-- the image, statement by statement -/
def symImage : Bytes :=
  [0x86, 0x05,                    -- LDA #SMALL
   0x86, 0xFD,                    -- LDA #NEG        the two's complement byte
   0x8E, 0x12, 0x34,              -- LDX #SYM
   0x8E, 0xFF, 0xFD,              -- LDX #NEG        the two's complement word
   0x8E, 0x00, 0x05,              -- LDX #SMALL
   0x96, 0x05,                    -- LDA SMALL       direct: the value is below 256
   0xB6, 0x12, 0x34,              -- LDA SYM         extended
   0x96, 0x05,                    -- LDA <SMALL
   0xB6, 0x00, 0x05,              -- LDA >SMALL
   0x9E, 0x05,                    -- LDX SMALL       direct on an is_16_bit row too (a literal `$05` would be extended)
   0xA6, 0x9F, 0x12, 0x34,        -- LDA [SYM]
   0xA6, 0x9F, 0x00, 0x05,        -- LDA [SMALL]
   0xA6, 0x05,                    -- LDA SMALL,X     5-bit offset
   0xA6, 0x3D,                    -- LDA NEG,Y       5-bit offset −3
   0xA6, 0xC9, 0x12, 0x34,        -- LDA SYM,U       16-bit offset
   0xAE, 0x65,                    -- LDX SMALL,S     5-bit offset on an is_16_bit row
   0xA6, 0xF8, 0x05,              -- LDA [SMALL,S]   8-bit offset
   0xA6, 0x98, 0xFD,              -- LDA [NEG,X]     8-bit offset −3
   0xA6, 0xB9, 0x12, 0x34,        -- LDA [SYM,Y]     16-bit offset
   0xA6, 0x8C, 0x05,              -- LDA SMALL,PCR   8-bit
   0xAE, 0x8C, 0x05,              -- LDX SMALL,PCR   8-bit on an is_16_bit row (the literal `5,PCR` takes 16 bits there)
   0xA6, 0x9C, 0xFD,              -- LDA [NEG,PCR]
   0xAE, 0x8D, 0x12, 0x34]        -- LDX SYM,PCR     16-bit

def SYM : Str := "SYM".toList
def SMALL : Str := "SMALL".toList
def NEGS : Str := "NEG".toList

set_option maxRecDepth 1000000 in
/-- the program assembles to exactly these bytes, and its final symbol table binds the three constants -/
theorem symProg_ok : checkProgram symProg (fun A => A.image == some symImage &&
    bindsB A.symtab SYM 0x1234 && bindsB A.symtab SMALL 5 && bindsB A.symtab NEGS (-3)) = true := by decide +kernel

theorem symProg_assembles (fs : Files) : ∃ A, assemble fs symProg = .ok A ∧ A.image = some symImage ∧
    Binds A.symtab SYM 0x1234 ∧ Binds A.symtab SMALL 5 ∧ Binds A.symtab NEGS (-3) := by
  obtain ⟨A, hA, c⟩ := checkProgram_sound symProg_ok fs
  simp only [Bool.and_eq_true, beq_iff_eq] at c
  exact ⟨A, hA, c.1.1.1, bindsB_sound c.1.1.2, bindsB_sound c.1.2, bindsB_sound c.2⟩

/-- the table `resolve_symbols` works with (`buildSymTab` of the parsed program) binds the three constants -/
def symProgTable : Option SymTab :=
  match parseLines symProg with
  | .ok p => buildSymTab p 0 []
  | _ => none

set_option maxRecDepth 1000000 in
theorem symProgTable_binds : ∃ t, symProgTable = some t ∧ Binds t SYM 0x1234 ∧ Binds t SMALL 5 ∧ Binds t NEGS (-3) := by
  have h : (match symProgTable with
      | some t => bindsB t SYM 0x1234 && bindsB t SMALL 5 && bindsB t NEGS (-3)
      | none => false) = true := by decide +kernel
  split at h
  · rename_i t ht
    simp only [Bool.and_eq_true] at h
    exact ⟨t, ht, bindsB_sound h.1.1, bindsB_sound h.1.2, bindsB_sound h.2⟩
  · cases h

theorem ldx_row' : (rowOf "LDX").dir = some 0x9E ∧ (rowOf "LDX").ext = some 0xBE :=
  ⟨by decide +kernel, by decide +kernel⟩

/-- **the tie**: under EVERY table that binds the three constants (in particular the one the assembler builds for
`symProg`, `symProgTable_binds`), every operand text of the program is in the proved region, with the datasheet
operand that carries the value of the symbol -/
theorem symProg_statements {t : SymTab} (h1 : Binds t SYM 0x1234) (h2 : Binds t SMALL 5) (h3 : Binds t NEGS (-3)) :
    TextEncodesT t (rowOf "LDA") "#SMALL".toList (.imm 8 5) ∧
    TextEncodesT t (rowOf "LDA") "#NEG".toList (.imm 8 0xFD) ∧
    TextEncodesT t (rowOf "LDX") "#SYM".toList (.imm 16 0x1234) ∧
    TextEncodesT t (rowOf "LDX") "#NEG".toList (.imm 16 0xFFFD) ∧
    TextEncodesT t (rowOf "LDX") "#SMALL".toList (.imm 16 5) ∧
    TextEncodesT t (rowOf "LDA") "SMALL".toList (.dir 5) ∧
    TextEncodesT t (rowOf "LDA") "SYM".toList (.ext 0x1234) ∧
    TextEncodesT t (rowOf "LDA") "<SMALL".toList (.dir 5) ∧
    TextEncodesT t (rowOf "LDA") ">SMALL".toList (.ext 5) ∧
    TextEncodesT t (rowOf "LDX") "SMALL".toList (.dir 5) ∧
    TextEncodesT t (rowOf "LDA") "[SYM]".toList (.idx (.extInd 0x1234)) ∧
    TextEncodesT t (rowOf "LDA") "[SMALL]".toList (.idx (.extInd 5)) ∧
    TextEncodesT t (rowOf "LDA") "SMALL,X".toList (.idx (.off 0 5 false 5)) ∧
    TextEncodesT t (rowOf "LDA") "NEG,Y".toList (.idx (.off 1 (-3) false 5)) ∧
    TextEncodesT t (rowOf "LDA") "SYM,U".toList (.idx (.off 2 0x1234 false 16)) ∧
    TextEncodesT t (rowOf "LDX") "SMALL,S".toList (.idx (.off 3 5 false 5)) ∧
    TextEncodesT t (rowOf "LDA") "[SMALL,S]".toList (.idx (.off 3 5 true 8)) ∧
    TextEncodesT t (rowOf "LDA") "[NEG,X]".toList (.idx (.off 0 (-3) true 8)) ∧
    TextEncodesT t (rowOf "LDA") "[SYM,Y]".toList (.idx (.off 1 0x1234 true 16)) ∧
    TextEncodesT t (rowOf "LDA") "SMALL,PCR".toList (.idx (.pcr 5 false 8)) ∧
    TextEncodesT t (rowOf "LDX") "SMALL,PCR".toList (.idx (.pcr 5 false 8)) ∧
    TextEncodesT t (rowOf "LDA") "[NEG,PCR]".toList (.idx (.pcr (-3) true 8)) ∧
    TextEncodesT t (rowOf "LDX") "SYM,PCR".toList (.idx (.pcr 0x1234 false 16)) := by
  have a := lda_row
  have x := ldx_row
  have x' := ldx_row'
  have h2' : Binds t SMALL ((5 : Nat) : Int) := h2
  have h1' : Binds t SYM ((0x1234 : Nat) : Int) := h1
  refine ⟨?_, ?_, ?_, ?_, ?_, ?_, ?_, ?_, ?_, ?_, ?_, ?_, ?_, ?_, ?_, ?_, ?_, ?_, ?_, ?_, ?_, ?_, ?_⟩
  · exact C01_text_symbol a.1 (.imm8 (nm := SMALL) a.2.2.1 a.2.1 (by decide) h2 (by decide) (by decide))
  · exact C01_text_symbol a.1 (.imm8 (nm := NEGS) a.2.2.1 a.2.1 (by decide) h3 (by decide) (by decide))
  · exact C01_text_symbol x.1 (.imm16 (nm := SYM) x.2.2.1 x.2.1 (by decide) h1 (by decide) (by decide))
  · exact C01_text_symbol x.1 (.imm16 (nm := NEGS) x.2.2.1 x.2.1 (by decide) h3 (by decide) (by decide))
  · exact C01_text_symbol x.1 (.imm16 (nm := SMALL) x.2.2.1 x.2.1 (by decide) h2 (by decide) (by decide))
  · exact C01_text_symbol a.1 (.dir (nm := SMALL) a.2.2.2.1 (by decide) h2' (by decide))
  · exact C01_text_symbol a.1 (.ext (nm := SYM) a.2.2.2.2.2 (by decide) h1' (by decide) (by decide))
  · exact C01_text_symbol a.1 (.dirLt (nm := SMALL) a.2.2.2.1 (by decide) h2' (by decide))
  · exact C01_text_symbol a.1 (.extGt (nm := SMALL) a.2.2.2.2.2 (by decide) h2' (by decide))
  · exact C01_text_symbol x.1 (.dir (nm := SMALL) x'.1 (by decide) h2' (by decide))
  · exact C01_text_symbol a.1 (.extInd (nm := SYM) a.2.2.2.2.1 (by decide) h1' (by decide))
  · exact C01_text_symbol a.1 (.extInd (nm := SMALL) a.2.2.2.2.1 (by decide) h2' (by decide))
  · exact C01_text_symbol a.1 (.off5 (nm := SMALL) (k := 0) a.2.2.2.2.1 (by decide) (by decide) (by decide) h2
      (by decide) (by decide) (by decide))
  · exact C01_text_symbol a.1 (.off5 (nm := NEGS) (k := 1) a.2.2.2.2.1 (by decide) (by decide) (by decide) h3
      (by decide) (by decide) (by decide))
  · exact C01_text_symbol a.1 (.off16 (nm := SYM) (k := 2) a.2.2.2.2.1 (by decide) (by decide) (by decide) h1
      (by decide) (by decide) (by decide))
  · exact C01_text_symbol x.1 (.off5 (nm := SMALL) (k := 3) x.2.2.2 (by decide) (by decide) (by decide) h2
      (by decide) (by decide) (by decide))
  · exact C01_text_symbol a.1 (.indOff8 (nm := SMALL) (k := 3) a.2.2.2.2.1 (by decide) (by decide) (by decide) h2
      (by decide) (by decide) (by decide))
  · exact C01_text_symbol a.1 (.indOff8 (nm := NEGS) (k := 0) a.2.2.2.2.1 (by decide) (by decide) (by decide) h3
      (by decide) (by decide) (by decide))
  · exact C01_text_symbol a.1 (.indOff16 (nm := SYM) (k := 1) a.2.2.2.2.1 (by decide) (by decide) (by decide) h1
      (by decide) (by decide) (by decide))
  · exact C01_text_symbol a.1 (.pcr8 (nm := SMALL) a.2.2.2.2.1 (by decide) (by decide) h2 (by decide) (by decide))
  · exact C01_text_symbol x.1 (.pcr8 (nm := SMALL) x.2.2.2 (by decide) (by decide) h2 (by decide) (by decide))
  · exact C01_text_symbol a.1 (.indPcr8 (nm := NEGS) a.2.2.2.2.1 (by decide) (by decide) h3 (by decide) (by decide))
  · exact C01_text_symbol x.1 (.pcr16 (nm := SYM) x.2.2.2 (by decide) (by decide) h1 (by decide) (by decide)
      (by decide))

/-- the same statements computed by the kernel on a concrete table (what `SYM EQU $1234`, `SMALL EQU 5`, `NEG EQU -3`
store) -/
def symTab3 : SymTab :=
  [(SYM, .numeric 0x1234 (some 4) .extended false), (SMALL, .numeric 5 (some 4) .extended false),
   (NEGS, .numeric 3 (some 4) .extended true)]

example : encodeTextT symTab3 (rowOf "LDA") "#NEG".toList = some (2, [0x86, 0xFD]) := by decide +kernel
example : encodeTextT symTab3 (rowOf "LDX") "#NEG".toList = some (3, [0x8E, 0xFF, 0xFD]) := by decide +kernel
example : encodeTextT symTab3 (rowOf "LDA") "SMALL".toList = some (2, [0x96, 0x05]) := by decide +kernel
example : encodeTextT symTab3 (rowOf "LDA") "SYM".toList = some (3, [0xB6, 0x12, 0x34]) := by decide +kernel
example : encodeTextT symTab3 (rowOf "LDA") ">SMALL".toList = some (3, [0xB6, 0x00, 0x05]) := by decide +kernel
example : encodeTextT symTab3 (rowOf "LDA") "<SYM".toList = none := by decide +kernel
example : encodeTextT symTab3 (rowOf "LDA") "#SYM".toList = none := by decide +kernel
example : encodeTextT symTab3 (rowOf "LDA") "[SYM]".toList = some (4, [0xA6, 0x9F, 0x12, 0x34]) := by decide +kernel
example : encodeTextT symTab3 (rowOf "LDA") "NEG,Y".toList = some (2, [0xA6, 0x3D]) := by decide +kernel
example : encodeTextT symTab3 (rowOf "LDA") "[SYM,Y]".toList = some (4, [0xA6, 0xB9, 0x12, 0x34]) := by decide +kernel
example : encodeTextT symTab3 (rowOf "LDX") "SMALL,PCR".toList = some (3, [0xAE, 0x8C, 0x05]) := by decide +kernel
/-- OUTSIDE the region (and outside `Intends`): a NEGATIVE constant as an address is an ExtendedOperand with the
16-bit two's complement, also after `<`; and a symbol called `A` in `A,X` is the accumulator -/
example : encodeTextT symTab3 (rowOf "LDA") "NEG".toList = some (3, [0xB6, 0xFF, 0xFD]) := by decide +kernel
example : encodeTextT symTab3 (rowOf "LDA") "<NEG".toList = some (3, [0xB6, 0xFF, 0xFD]) := by decide +kernel
example : encodeTextT symTab3 (rowOf "LDA") "[NEG]".toList = some (4, [0xA6, 0x9F, 0xFF, 0xFD]) := by decide +kernel
example : encodeTextT [("A".toList, .numeric 5 none .extended false)] (rowOf "LDA") "A,X".toList =
    some (2, [0xA6, 0x86]) := by decide +kernel
/-- the rejection theorems on concrete statements -/
example : encodeTextT symTab3 (rowOf "LDA") "<SYM".toList = none :=
  C01_sym_dir_lt_rejected lda_row.1 (nm := SYM) (n := 0x1234) (by decide) lda_row.2.2.2.1
    (binds_of_get (t := symTab3) (nm := SYM) (ng := false) rfl) (by decide) (by decide)
example : encodeTextT symTab3 (rowOf "LDA") "#SYM".toList = none :=
  C01_sym_imm8_rejected lda_row.1 (nm := SYM) (z := 0x1234) (by decide) lda_row.2.2.1 lda_row.2.1
    (binds_of_get (t := symTab3) (nm := SYM) (ng := false) rfl) (by decide) (by decide)

end CoCo.Props

section axioms
open CoCo.Props
#print axioms C01_text_symbol
#print axioms C01_sym_imm8_rejected
#print axioms C01_sym_imm16_rejected
#print axioms C01_sym_dir_lt_rejected
#print axioms equ_binds
#print axioms symProg_assembles
#print axioms symProgTable_binds
#print axioms symProg_statements
#print axioms CoCo.Asm.resolve_symbol_binds
#print axioms CoCo.Asm.frontEndT_indexed_sym
end axioms
