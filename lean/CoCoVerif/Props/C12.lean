/-
Props/C12.lean — soundness of the encoder: whatever `translate` ACCEPTS is a well-formed MC6809
instruction of the announced size.  The direction opposite to C01: no intended operand is mentioned, only
that the emitted bytes have length `pkg.size` and that the datasheet decoder reads exactly these bytes as
one instruction of the row's operation.
-/
import CoCoVerif.Props.C01

namespace CoCo.Props
open CoCo CoCo.Asm CoCo.Spec.MC6809
open CoCo.Gen (InstrRow)

/-- every package `translate` returns for `o` emits `pkg.size` bytes which decode, as a whole, to one
instruction of the row's operation -/
def SoundEnc (o : Asm.Operand) (r : InstrRow) : Prop :=
  ∀ pkg, translateOperand o r = .ok pkg →
    ∃ bytes, (∀ s : Stmt, s.pkg = pkg → stmtBytes s = some bytes) ∧ bytes.length = pkg.size ∧
      ∃ x, decode bytes = some (⟨opOf r.mnemonic, x⟩, bytes.length)

/-- operand classes whose bytes are final after `translate` (branches and PCR forms are completed later by
the address pass; pseudo operations are C05) -/
def Immediate (o : Asm.Operand) : Prop :=
  o.kind = .inherent ∨ o.kind = .immediate ∨ o.kind = .direct ∨ o.kind = .extended ∨ o.kind = .extIndirect ∨
  o.kind = .indexed ∨ o.kind = .special

/-- C12 at full strength: every accepted operand of these classes is well formed -/
def C12_Statement : Prop :=
  ∀ r ∈ Gen.instructions, r.isPseudo = false → ∀ o, Immediate o → SoundEnc o r

theorem soundEnc_of_encodes {o : Asm.Operand} {r : InstrRow} {x : Spec.MC6809.Operand} (h : Encodes o r x) :
    SoundEnc o r := by
  obtain ⟨pkg, bytes, ht, hb, hl, hd⟩ := h
  intro pkg' ht'
  rw [ht] at ht'
  have : pkg = pkg' := by injection ht'
  subst this
  exact ⟨bytes, hb, hl, x, hd⟩

/-- C12 on the proved region of C01 (all classes; see `Region` for the restrictions) -/
theorem C12_partial {r : InstrRow} (hr : r ∈ Gen.instructions) (hp : r.isPseudo = false) {o : Asm.Operand}
    {x : Spec.MC6809.Operand} (h : Region r o x) : SoundEnc o r :=
  soundEnc_of_encodes (C01_partial hr hp h)

theorem region_immediate {r : InstrRow} {o : Asm.Operand} {x : Spec.MC6809.Operand} (h : Region r o x) :
    Immediate o := by
  cases h <;> simp_all [Immediate, Bracketed]

/-- operands that are REJECTED are vacuously sound: `[,R+]`, `[,-R]`, and TFR / EXG of mixed width -/
theorem C12_rejected {o : Asm.Operand} {r : InstrRow} {e : Exn} (h : translateOperand o r = .error e) :
    SoundEnc o r := by
  intro pkg hpkg
  rw [h] at hpkg
  exact absurd hpkg (by simp)

/-! ### accepted but malformed -/

theorem not_soundEnc_of_size {o : Asm.Operand} {r : InstrRow} {sz : Nat} {bytes : Bytes}
    (h : sizeAndBytes o r = some (sz, bytes)) (hne : bytes.length ≠ sz) : ¬ SoundEnc o r := by
  obtain ⟨pkg, ht, hsz, hb⟩ := sizeAndBytes_ok h
  intro hs
  obtain ⟨bytes', hb', hl', _⟩ := hs pkg ht
  have h1 := hb' { (default : Stmt) with pkg := pkg } rfl
  rw [stmtBytes_eq_pkgBytes] at h1
  simp only at h1
  rw [hb] at h1
  have : bytes = bytes' := by injection h1
  subst this
  exact hne (by rw [hl', hsz])

/-- C12 at full strength does NOT hold: `LDD 100,X` is accepted with 4 bytes for size 3 -/
theorem C12_Statement_false : ¬ C12_Statement := by
  intro hall
  obtain ⟨r, hr, hp, _, hs⟩ := lddOffset_row
  exact not_soundEnc_of_size hs (by decide) (hall r hr hp lddOffset (by simp [Immediate, lddOffset]))

/-- `(size, bytes, what the decoder reads)` of accepted statements whose bytes are not one instruction of
the announced size -/
def malformed (mn operand : String) : Option (Nat × Bytes × Option (Instr × Nat)) :=
  (asmOne mn operand).map fun p => (p.1, p.2, decode p.2)

/-- size 3, four bytes; the decoder reads `LDD 0,X` (8-bit offset 0) and stops after 3 -/
theorem C12_finding_16bit_row_offset :
    malformed "LDD" "100,X" = some (3, [0xEC, 0x88, 0x00, 0x64], some (⟨"LDD", .idx (.off 0 0 false 8)⟩, 3)) := by
  decide +kernel

/-- size 2, three bytes -/
theorem C12_finding_neg8_offset :
    malformed "LDA" "-17,X" = some (2, [0xA6, 0x88, 0xEF], some (⟨"LDA", .idx (.off 0 (-17) false 8)⟩, 3)) := by
  decide +kernel

/-- size 2, four bytes -/
theorem C12_finding_neg16_offset :
    malformed "LDA" "-200,X" = some (2, [0xA6, 0x89, 0xFF, 0x38], some (⟨"LDA", .idx (.off 0 (-200) false 16)⟩, 4)) := by
  decide +kernel

/-- size 2, three bytes: the decoder reads `LDA #1` and leaves a stray `$00` -/
theorem C12_finding_imm8_256 :
    malformed "LDA" "#256" = some (2, [0x86, 0x01, 0x00], some (⟨"LDA", .imm 8 1⟩, 2)) := by decide +kernel

/-- size 4, three bytes: truncated `[address]`, undecodable -/
theorem C12_finding_extInd_hint2 : malformed "LDA" "[$10]" = some (4, [0xA6, 0x9F, 0x10], none) := by
  decide +kernel

/-- size 2, three bytes -/
theorem C12_finding_explicit_direct_wide :
    malformed "LDA" "<$1000" = some (2, [0x96, 0x10, 0x00], some (⟨"LDA", .dir 0x10⟩, 2)) := by decide +kernel

/-- for contrast, a correct rejection: `STA #5` (the immediate cell of STA is empty) -/
theorem C12_store_immediate_rejected : asmOne "STA" "#5" = none := by decide +kernel

/-- well-formed but WRONG: `LDA #-200` assembles to `LDA #$FF` without a diagnostic -/
theorem C12_finding_imm8_neg_wide :
    malformed "LDA" "#-200" = some (2, [0x86, 0xFF], some (⟨"LDA", .imm 8 0xFF⟩, 2)) := by decide +kernel

/-- well-formed but WRONG: `PSHU S` pushes nothing (post byte 0) -/
theorem C12_finding_push_S :
    malformed "PSHU" "S" = some (2, [0x36, 0x00], some (⟨"PSHU", .list 0⟩, 2)) := by decide +kernel

end CoCo.Props

section axioms
open CoCo.Props
end axioms
