/-
Props/C12.lean — soundness of the encoder: whatever is ACCEPTED is a well-formed MC6809 instruction of the
announced size.  The direction opposite to C01: no intended operand is mentioned, only that the emitted bytes
have length `pkg.size` and that the datasheet decoder reads exactly these bytes as one instruction of the
row's operation.  "Accepted" = `translate` returns a package AND `fitWidth` (`Statement.fit_operand_width`)
lets the statement through; a value that does not fit its field is rejected there (`C12_*_rejected`).
-/
import CoCoVerif.Props.C01
import CoCoVerif.Lemmas.EncodeProgram

namespace CoCo.Props
open CoCo CoCo.Asm CoCo.Spec.MC6809
open CoCo.Gen (InstrRow)

/-- every package `translate` returns for `o`, on every statement carrying row, operand and package that
passes `fitWidth`, emits `pkg.size` bytes which decode, as a whole, to one instruction of the row's operation -/
def SoundEnc (o : Asm.Operand) (r : InstrRow) : Prop :=
  ∀ pkg, translateOperand o r = .ok pkg →
    ∀ s s' : Stmt, s.row = r → s.operand = o → s.pkg = pkg → fitWidth s = .ok s' →
      ∃ bytes, stmtBytes s' = some bytes ∧ bytes.length = pkg.size ∧
        ∃ x, decode bytes = some (⟨opOf r.mnemonic, x⟩, bytes.length)

/-- operand classes whose bytes are final after `translate` and `fitWidth` (branches and PCR forms are completed
by the address pass in between; pseudo operations are C05) -/
def Immediate (o : Asm.Operand) : Prop :=
  o.kind = .inherent ∨ o.kind = .immediate ∨ o.kind = .direct ∨ o.kind = .extended ∨ o.kind = .extIndirect ∨
  o.kind = .indexed ∨ o.kind = .special

/-- a symbol table of EQU constants only (no labels): `fix_addresses` then has nothing to do -/
def ConstTab (t : SymTab) : Prop := ∀ e ∈ t, e.2.isNumeric = true

/-- C12 at full strength: every operand the FRONT END builds (`createOperand`, then `resolveOperand` against a
table of constants) for a machine-instruction row, if accepted, is well formed.
(The former statement quantified over ALL operand records, including ones no source text produces — e.g. a direct
operand carrying a string, see `C12_unreachable_operand` — and was refuted by `LDD 100,X`; that counterexample
is repaired, `C12_finding_16bit_row_offset_fixed`.)  PROVED since repair batch B2 (the index register text is validated,
so the case analysis is finite): `C12_full` in Props/C12Full.lean.  `C12_partial` is the part that follows from C01,
`C12_fitted_size` the size half for every statement. -/
def C12_Statement : Prop :=
  ∀ r ∈ Gen.instructions, r.isPseudo = false → ∀ (text : Str) (t : SymTab) (o0 o : Asm.Operand), ConstTab t →
    createOperand text r = .ok o0 → resolveOperand o0 r t = .ok o → Immediate o → SoundEnc o r

theorem soundEnc_of_encodes {o : Asm.Operand} {r : InstrRow} {x : Spec.MC6809.Operand} (h : Encodes o r x) :
    SoundEnc o r := by
  obtain ⟨pkg, bytes, ht, _, hb, hl, hd⟩ := h
  intro pkg' ht' s s' hr ho hp hf
  rw [ht] at ht'
  have : pkg = pkg' := by injection ht'
  subst this
  obtain ⟨s'', hf', hb'⟩ := hb s hr ho hp
  rw [hf] at hf'
  have : s' = s'' := by injection hf'
  subst this
  exact ⟨bytes, hb', hl, x, hd⟩

/-- C12 on the proved region of C01 (all classes; see `Region` for the two restrictions left) -/
theorem C12_partial {r : InstrRow} (hr : r ∈ Gen.instructions) (hp : r.isPseudo = false) {o : Asm.Operand}
    {x : Spec.MC6809.Operand} (h : Region r o x) : SoundEnc o r :=
  soundEnc_of_encodes (C01_partial hr hp h)

theorem region_immediate {r : InstrRow} {o : Asm.Operand} {x : Spec.MC6809.Operand} (h : Region r o x) :
    Immediate o := by
  cases h <;> simp_all [Immediate, Bracketed]

/-- operands that `translate` REJECTS are vacuously sound: `[,R+]`, `[,-R]`, and TFR / EXG of mixed width -/
theorem C12_rejected {o : Asm.Operand} {r : InstrRow} {e : Exn} (h : translateOperand o r = .error e) :
    SoundEnc o r := by
  intro pkg hpkg
  rw [h] at hpkg
  exact absurd hpkg (by simp)

/-- and so are the ones `fitWidth` rejects -/
theorem C12_rejected_fit {o : Asm.Operand} {r : InstrRow}
    (h : ∀ pkg, translateOperand o r = .ok pkg → ∀ s : Stmt, s.row = r → s.operand = o → s.pkg = pkg → fitWidth s = .diag) :
    SoundEnc o r := by
  intro pkg hpkg s s' hr ho hp hf
  rw [h pkg hpkg s hr ho hp] at hf
  cases hf

/-! ### values that do not fit are rejected (formerly accepted and malformed: findings A5, A7) -/

/-- the package is built and then every statement carrying it is refused by `fitWidth` -/
def RejectedByFit (o : Asm.Operand) (r : InstrRow) : Prop :=
  ∃ pkg, translateOperand o r = .ok pkg ∧
    ∀ s : Stmt, s.row = r → s.operand = o → s.pkg = pkg → fitWidth s = .diag

theorem fitsByte_iff (i : Nat) (neg : Bool) :
    fitsByte i neg = true ↔ (-128 ≤ signedVal i neg ∧ signedVal i neg ≤ 255) := by
  cases neg <;> simp [fitsByte, signedVal] <;> omega

theorem fitsWord_iff (i : Nat) (neg : Bool) :
    fitsWord i neg = true ↔ (-32768 ≤ signedVal i neg ∧ signedVal i neg ≤ 65535) := by
  cases neg <;> simp [fitsWord, signedVal] <;> omega

section rejected
variable {r : InstrRow} (hr : r ∈ Gen.instructions) (hp : r.isPseudo = false)
include hr hp

/-- **8-bit immediates: every value outside −128..255 is REJECTED** (`LDA #256`, `LDA #-129`, `LDA #-200`) -/
theorem C12_imm8_out_of_range_rejected {o : Asm.Operand} {c i : Nat} {op : String} {h : Option Nat} {m : Mode}
    {neg : Bool} (hk : o.kind = .immediate) (hc : r.imm = some c) (hl : lookup c = some (op, .imm8))
    (hv : o.value = .numeric i h m neg) (hout : ¬ (-128 ≤ signedVal i neg ∧ signedVal i neg ≤ 255)) :
    RejectedByFit o r := by
  have hcell := cell_imm hr hp hc hl
  have h0 := cell_ne_zero hcell.1 (by decide)
  have hf : fitsByte i neg = false := by
    cases hfb : fitsByte i neg
    · rfl
    · exact absurd ((fitsByte_iff i neg).mp hfb) hout
  refine ⟨_, translateOperand_imm hk hc h0 (cell_lt hcell.1), ?_⟩
  exact rejected_of_misfit (pb := []) (d := 2) hp (notSpecial_of_imm hr hc hl (Or.inl rfl)) hcell.1 rfl .none hv
    (by simp [hcell.2, operandLen]; omega) (Or.inl rfl) (fitNum_byte_err hf)

/-- 16-bit immediates: every value outside −32768..65535 is rejected -/
theorem C12_imm16_out_of_range_rejected {o : Asm.Operand} {c i : Nat} {op : String} {h : Option Nat} {m : Mode}
    {neg : Bool} (hk : o.kind = .immediate) (hc : r.imm = some c) (hl : lookup c = some (op, .imm16))
    (hv : o.value = .numeric i h m neg) (hout : ¬ (-32768 ≤ signedVal i neg ∧ signedVal i neg ≤ 65535)) :
    RejectedByFit o r := by
  have hcell := cell_imm hr hp hc hl
  have h0 := cell_ne_zero hcell.1 (by decide)
  have hf : fitsWord i neg = false := by
    cases hfb : fitsWord i neg
    · rfl
    · exact absurd ((fitsWord_iff i neg).mp hfb) hout
  refine ⟨_, translateOperand_imm hk hc h0 (cell_lt hcell.1), ?_⟩
  exact rejected_of_misfit (pb := []) (d := 4) hp (notSpecial_of_imm hr hc hl (Or.inr rfl)) hcell.1 rfl .none hv
    (by simp [hcell.2, operandLen]; omega) (Or.inr rfl) (fitNum_word_err hf)

/-- **a forced direct operand `<v` with v ≥ 256 is REJECTED** (`LDA <$1000`; also a negative one below −128) -/
theorem C12_direct_out_of_range_rejected {o : Asm.Operand} {c i : Nat} {h : Option Nat} {m : Mode} {neg : Bool}
    (hk : o.kind = .direct) (hc : r.dir = some c) (hv : o.value = .numeric i h m neg)
    (hout : ¬ (-128 ≤ signedVal i neg ∧ signedVal i neg ≤ 255)) : RejectedByFit o r := by
  have hcell := cell_dir hr hp hc
  have hf : fitsByte i neg = false := by
    cases hfb : fitsByte i neg
    · rfl
    · exact absurd ((fitsByte_iff i neg).mp hfb) hout
  refine ⟨_, translateOperand_dir hk hc (cell_lt hcell.1), ?_⟩
  exact rejected_of_misfit (pb := []) (d := 2) hp (notSpecial_of_dir hr hc) hcell.1 rfl .none hv
    (by simp [hcell.2]; omega) (Or.inl rfl) (fitNum_byte_err hf)

end rejected

/-- the hypotheses of the rejection theorems are met by `LDA #256`, `LDA #-129` and `LDA <$1000`:
kind and value of the operand the front end builds, and the cell of the row -/
structure Built where
  mnemonic : String
  kind : OpKind
  imm : Option Nat
  dir : Option Nat
  int : Nat
  neg : Bool
deriving DecidableEq, Repr

def builtAs (mn operand : String) : Option Built :=
  match asmOperand mn operand with
  | some (r, o) => (match o.value with | .numeric i _ _ n => some ⟨r.mnemonic, o.kind, r.imm, r.dir, i, n⟩ | _ => none)
  | none => none

example : builtAs "LDA" "#256" = some ⟨"LDA", .immediate, some 0x86, some 0x96, 256, false⟩ := by decide +kernel
example : builtAs "LDA" "#-129" = some ⟨"LDA", .immediate, some 0x86, some 0x96, 129, true⟩ := by decide +kernel
example : builtAs "LDA" "<$1000" = some ⟨"LDA", .direct, some 0x86, some 0x96, 0x1000, false⟩ := by decide +kernel
example : lookup 0x86 = some ("LDA", .imm8) := by decide +kernel

/-! ### the size half of C12, for every statement -/

theorem emitPairs_length : ∀ (n : Nat) (h : Str) (acc r : Bytes), emitPairs n h acc = some r → r.length = acc.length + n
  | 0, _, acc, r, h => by simp [emitPairs] at h; subst h; simp
  | n + 1, a :: b :: rest, acc, r, h => by
    simp only [emitPairs] at h
    have := emitPairs_length n rest _ r h
    simp at this; omega
  | _ + 1, [], _, _, h => by simp [emitPairs] at h
  | _ + 1, [_], _, _, h => by simp [emitPairs] at h

/-- `get_binary_array` reads `(hex_len + 1) / 2` bytes of a value -/
theorem emitValue_length {v : Value} {l : Nat} {bytes : Bytes} (hl : v.hexLen? = some l) (he : emitValue v = some bytes) :
    bytes.length = (l + 1) / 2 := by
  unfold emitValue at he
  rw [hl] at he
  cases hh : v.hex? with
  | none => rw [hh] at he; cases he
  | some hx =>
    rw [hh] at he
    have := emitPairs_length _ _ _ _ he
    simpa using this

/-- **C12, size**: for every instruction statement (neither pseudo operation nor register-operand instruction)
with a numeric operand field that passes `fitWidth`, the emitted bytes are exactly `pkg.size` many — op code digits
plus post byte digits plus field digits are `2 * size`.  (`a`, `b`: the hex lengths of op code and post byte, even
for everything `translate` builds: `NumericValue(code)` prints an even number of digits.) -/
theorem C12_fitted_size {s s' : Stmt} (hp : s.row.isPseudo = false) (hsp : s.row.isSpecial = false)
    (hnum : s.pkg.additional.isNumeric = true) (hf : fitWidth s = .ok s') {a b : Nat}
    (ha : s.pkg.opCode.hexLen? = some a) (hb : s.pkg.postByte.hexLen? = some b) (hae : a % 2 = 0) (hbe : b % 2 = 0)
    {bytes : Bytes} (hbytes : stmtBytes s' = some bytes) : bytes.length = s.pkg.size ∧ s'.pkg.size = s.pkg.size := by
  obtain ⟨p', hfp, rfl⟩ := fitWidth_ok_iff.mp hf
  have hrow : ((s.row.isPseudo && !(s.row.isMultiByte || s.row.isMultiWord)) || s.row.isSpecial) = false := by
    simp [hp, hsp]
  cases hadd : s.pkg.additional with
  | numeric n h m neg =>
    by_cases hd : (2 * (s.pkg.size : Int) - a - b = 2 ∨ 2 * (s.pkg.size : Int) - a - b = 4)
    · obtain ⟨d, hd2, hdsz⟩ : ∃ d : Nat, (d = 2 ∨ d = 4) ∧ 2 * s.pkg.size = a + b + d := by
        rcases hd with h2 | h4
        · exact ⟨2, Or.inl rfl, by omega⟩
        · exact ⟨4, Or.inr rfl, by omega⟩
      rw [fitPkg_numeric hrow hadd ha hb hdsz hd2] at hfp
      cases hfn : fitNum n neg d with
      | error e => rw [hfn] at hfp; cases hfp
      | ok v =>
        rw [hfn] at hfp
        have hp' : p' = { s.pkg with additional := v } := by injection hfp with e; exact e.symm
        subst hp'
        obtain ⟨w, rfl⟩ := fitNum_shape hfn
        rw [stmtBytes_eq_pkgBytes] at hbytes
        simp only [pkgBytes] at hbytes
        cases h1 : emitValue s.pkg.opCode with
        | none => simp [h1] at hbytes
        | some x =>
          cases h2 : emitValue s.pkg.postByte with
          | none => simp [h1, h2] at hbytes
          | some y =>
            cases h3 : emitValue (Value.numeric w (some d) .extended false) with
            | none => simp [h1, h2, h3] at hbytes
            | some z =>
              simp [h1, h2, h3] at hbytes
              subst hbytes
              have l1 := emitValue_length ha h1
              have l2 := emitValue_length hb h2
              have l3 := emitValue_length (v := Value.numeric w (some d) .extended false) (l := d) rfl h3
              refine ⟨?_, rfl⟩
              simp only [List.length_append, l1, l2, l3]
              omega
    · rw [fitPkg_badWidth hrow hadd ha hb hd] at hfp
      cases hfp
  | _ => rw [hadd] at hnum; simp [Value.isNumeric] at hnum

/-! ### the hex lengths `C12_fitted_size` asks to be even: everything `opVal` / `numV` build is

Every `translate` of the model sets `opCode` to an `opVal` result and `postByte` to a `numV` result (or leaves the
default `NoneValue`, hex length 0). -/

/-- a value with an even `hex_len()` -/
def EvenHex (v : Value) : Prop := ∃ a, v.hexLen? = some a ∧ a % 2 = 0

theorem evenHex_none : EvenHex .none := ⟨0, rfl, rfl⟩

/-- `NumericValue(int)` without size hint: `hex_len()` is 2 below 256, else the digit count rounded up to even -/
theorem evenHex_numericOfInt {v : Int} {x : Value} (h : numericOfInt v none .none = .ok x) : EvenHex x := by
  unfold numericOfInt at h
  split at h
  · cases h
  · simp only [initHint, postInit] at h
    by_cases hlt : v.natAbs < 256
    · simp [hlt] at h
      subst h
      exact ⟨2, rfl, rfl⟩
    · simp [hlt] at h
      subst h
      refine ⟨_, rfl, ?_⟩
      simp only [numHexLen]
      split <;> simp_all <;> omega

theorem evenHex_numV {v : Nat} {x : Value} (h : numV v = .ok x) : EvenHex x := evenHex_numericOfInt h

theorem evenHex_opVal {o : Option Nat} {x : Value} (h : opVal o = .ok x) : EvenHex x := by
  cases o with
  | none => cases h
  | some v => exact evenHex_numericOfInt h

/-- `C12_fitted_size` with the evenness hypotheses in this form -/
theorem C12_fitted_size_even {s s' : Stmt} (hp : s.row.isPseudo = false) (hsp : s.row.isSpecial = false)
    (hnum : s.pkg.additional.isNumeric = true) (hf : fitWidth s = .ok s') (ho : EvenHex s.pkg.opCode)
    (hb : EvenHex s.pkg.postByte) {bytes : Bytes} (hbytes : stmtBytes s' = some bytes) :
    bytes.length = s.pkg.size := by
  obtain ⟨a, ha, hae⟩ := ho
  obtain ⟨b, hb', hbe⟩ := hb
  exact (C12_fitted_size hp hsp hnum hf ha hb' hae hbe hbytes).1

/-- the hypotheses of `C12_fitted_size` hold for `LDD 100,X` (op code `EC`, post byte `88`, size 3: the field
has 2 digits) -/
def fittedSizeHyps (o : Asm.Operand) (r : InstrRow) : Bool :=
  match translateOperand o r with
  | .ok pkg =>
    !r.isPseudo && !r.isSpecial && pkg.additional.isNumeric && pkg.opCode.hexLen? == some 2 &&
    pkg.postByte.hexLen? == some 2 && pkg.size == 3 && (fitWidth (mkStmt r o pkg)).isOk
  | .error _ => false

example : ∃ r ∈ Gen.instructions, r.mnemonic = "LDD" ∧ fittedSizeHyps lddOffset r = true := by decide +kernel

/-! ### repaired findings: what used to be accepted and malformed -/

/-- `(size, bytes, what the decoder reads)` of accepted statements -/
def malformed (mn operand : String) : Option (Nat × Bytes × Option (Instr × Nat)) :=
  (asmOne mn operand).map fun p => (p.1, p.2, decode p.2)

/-- REPAIRED (formerly `C12_finding_16bit_row_offset`: size 3, four bytes): three bytes, read back in full -/
theorem C12_finding_16bit_row_offset_fixed :
    malformed "LDD" "100,X" = some (3, [0xEC, 0x88, 0x64], some (⟨"LDD", .idx (.off 0 100 false 8)⟩, 3)) := by
  decide +kernel

/-- REPAIRED (formerly `C12_finding_neg8_offset`: size 2, three bytes): size 3 -/
theorem C12_finding_neg8_offset_fixed :
    malformed "LDA" "-17,X" = some (3, [0xA6, 0x88, 0xEF], some (⟨"LDA", .idx (.off 0 (-17) false 8)⟩, 3)) := by
  decide +kernel

/-- REPAIRED (formerly `C12_finding_neg16_offset`: size 2, four bytes): size 4 -/
theorem C12_finding_neg16_offset_fixed :
    malformed "LDA" "-200,X" = some (4, [0xA6, 0x89, 0xFF, 0x38], some (⟨"LDA", .idx (.off 0 (-200) false 16)⟩, 4)) := by
  decide +kernel

/-- REPAIRED (formerly `C12_finding_imm8_256`: size 2, three bytes): rejected -/
theorem C12_finding_imm8_256_fixed : malformed "LDA" "#256" = none := by decide +kernel

/-- REPAIRED (formerly `C12_finding_extInd_hint2`: size 4, three bytes, undecodable): four bytes, `[$0010]` -/
theorem C12_finding_extInd_hint2_fixed :
    malformed "LDA" "[$10]" = some (4, [0xA6, 0x9F, 0x00, 0x10], some (⟨"LDA", .idx (.extInd 0x10)⟩, 4)) := by
  decide +kernel

/-- REPAIRED (formerly `C12_finding_explicit_direct_wide`: size 2, three bytes): rejected -/
theorem C12_finding_explicit_direct_wide_fixed : malformed "LDA" "<$1000" = none := by decide +kernel

/-- for contrast, a rejection by `translate`: `STA #5` (the immediate cell of STA is empty) -/
theorem C12_store_immediate_rejected : asmOne "STA" "#5" = none := by decide +kernel

/-- REPAIRED (formerly `C12_finding_imm8_neg_wide`: `LDA #-200` assembled to `LDA #$FF`): rejected -/
theorem C12_finding_imm8_neg_wide_fixed : malformed "LDA" "#-200" = none := by decide +kernel

/-- REPAIRED (A10; formerly `C12_finding_push_S`: `PSHU S` was well-formed but WRONG, post byte 0): `PSHU S` pushes S
(post byte `$40`, the other stack pointer), `PSHS U` pushes U, and an instruction naming its own stack pointer is
rejected -/
theorem C12_finding_push_S_fixed :
    malformed "PSHU" "S" = some (2, [0x36, 0x40], some (⟨"PSHU", .list 0x40⟩, 2)) ∧
    malformed "PSHS" "U" = some (2, [0x34, 0x40], some (⟨"PSHS", .list 0x40⟩, 2)) ∧
    malformed "PSHS" "S" = none ∧ malformed "PSHU" "U" = none := by decide +kernel

/-- REPAIRED (A9; formerly `C12_finding_numeric_pcr`): a NUMBER before `,PCR` is the offset itself, by definition
now; what was wrong is repaired: `128,PCR` (was `8C 80`, read back as −128) takes the 16-bit form, and `0,PCR`
(was assembled as `,X`: `A6 84`) is an offset of 0 from the program counter -/
theorem C12_finding_numeric_pcr_fixed :
    malformed "LDA" "5,PCR" = some (3, [0xA6, 0x8C, 0x05], some (⟨"LDA", .idx (.pcr 5 false 8)⟩, 3)) ∧
    malformed "LDA" "128,PCR" = some (4, [0xA6, 0x8D, 0x00, 0x80], some (⟨"LDA", .idx (.pcr 128 false 16)⟩, 4)) ∧
    malformed "LDA" "255,PCR" = some (4, [0xA6, 0x8D, 0x00, 0xFF], some (⟨"LDA", .idx (.pcr 255 false 16)⟩, 4)) ∧
    malformed "LDA" "0,PCR" = some (3, [0xA6, 0x8C, 0x00], some (⟨"LDA", .idx (.pcr 0 false 8)⟩, 3)) ∧
    malformed "LDA" "[0,PCR]" = some (3, [0xA6, 0x9C, 0x00], some (⟨"LDA", .idx (.pcr 0 true 8)⟩, 3)) := by
  refine ⟨?_, ?_, ?_, ?_, ?_⟩ <;> decide +kernel

/-- REPAIRED (batch B3; formerly `C12_finding_acc_autoincrement`: an accumulator offset before an auto increment /
decrement register was ACCEPTED and the increment silently dropped, `LDA A,X+` = `A6 86`, `LDA B,-X` = `A6 85`,
`LDA [D,--Y]` = `A6 BB`): the 6809 has no such mode and all three are rejected now ("invalid indexed expression"),
like a constant offset in that place (`5,X+`) -/
theorem C12_finding_acc_autoincrement_fixed :
    malformed "LDA" "A,X+" = none ∧ malformed "LDA" "B,-X" = none ∧ malformed "LDA" "[D,--Y]" = none ∧
    malformed "LDA" "5,X+" = none ∧
    asmOne "LDA" "A,X+" = none ∧ asmOne "LDA" "B,-X" = none ∧ asmOne "LDA" "[D,--Y]" = none := by
  refine ⟨?_, ?_, ?_, ?_, ?_, ?_, ?_⟩ <;> decide +kernel

/-- why `C12_Statement` speaks about operands the front end builds: an operand RECORD no source text produces
(a direct operand carrying a string) is accepted with four bytes for an announced size of two -/
theorem C12_unreachable_operand : ∃ r ∈ Gen.instructions, r.isPseudo = false ∧
    sizeAndBytes { kind := .direct, text := [], value := .str "ABC".toList } r = some (2, [0x96, 0x41, 0x42, 0x43]) := by
  decide +kernel

/-! ### rejection of operands the datasheet has no form for (repair A10) -/

/-- **an unknown index register is REJECTED** (`5,Z`, `1,PC`, `,X+++`, `5,y`): whatever the row and the left part -/
theorem C12_unknown_index_register_rejected {o : Asm.Operand} {r : InstrRow} {right : Str} (hk : o.kind = .indexed)
    (hr : o.right = some right) (hv : validIndexReg right = false) :
    translateOperand o r = .error .operandType := by
  simp only [translateOperand, hk, translateIndexed, hr, pure_bind, hv]
  cases hc : (r.ind.isNone || r.ind == some 0) <;> simp <;> rfl

/-- the same inside brackets (`[5,Z]`), for a row of the table -/
theorem C12_unknown_index_register_rejected_ind {o : Asm.Operand} {r : InstrRow} {right : Str} {c : Nat}
    (hb : Bracketed o) (hc : r.ind = some c) (hc' : c < 65536) (hr : o.right = some right)
    (hv : validIndexReg right = false) :
    translateOperand o r = .error .operandType := by
  simp only [translateOperand, hb.1, translateExtIndirect, hc, opVal_ok hc', hb.2.1, hb.2.2, hr, pure_bind, hv]
  by_cases h0 : c = 0 <;> simp [h0] <;> rfl

/-- **`,PCR`, `A,PCR`, `B,PCR`, `D,PCR` are REJECTED** ("PCR needs an offset") -/
theorem C12_pcr_without_offset_rejected {o : Asm.Operand} {r : InstrRow} {l : Str} (hk : o.kind = .indexed)
    (hl : o.left = .text l) (hl' : l = [] ∨ isABD l = true) (hr : o.right = some (str "PCR")) :
    translateOperand o r = .error .operandType := by
  have hv : validIndexReg (str "PCR") = true := by decide
  have hl'' : (l.isEmpty || isABD l) = true := by
    rcases hl' with rfl | h
    · rfl
    · simp [h]
  simp only [translateOperand, hk, translateIndexed, hr, pure_bind, hv, hl, hl'']
  cases hc : (r.ind.isNone || r.ind == some 0) <;> simp <;> rfl

theorem C12_pcr_without_offset_rejected_ind {o : Asm.Operand} {r : InstrRow} {l : Str} {c : Nat}
    (hb : Bracketed o) (hc : r.ind = some c) (hc' : c < 65536)
    (hl : o.left = .text l) (hl' : l = [] ∨ isABD l = true) (hr : o.right = some (str "PCR")) :
    translateOperand o r = .error .operandType := by
  have hv : validIndexReg (str "PCR") = true := by decide
  have hl'' : (l.isEmpty || isABD l) = true := by
    rcases hl' with rfl | h
    · rfl
    · simp [h]
  simp only [translateOperand, hb.1, translateExtIndirect, hc, opVal_ok hc', hb.2.1, hb.2.2, hr, pure_bind, hv, hl, hl'']
  by_cases h0 : c = 0 <;> simp [h0] <;> rfl


/-- **an accumulator offset with auto increment / decrement is REJECTED** (`A,X+`, `B,-X`, `D,--Y`; repair batch B3):
for a row of the table, whatever the register text -/
theorem C12_acc_autoincrement_rejected {o : Asm.Operand} {r : InstrRow} {l right : Str} {c : Nat} (hk : o.kind = .indexed)
    (hc : r.ind = some c) (hc' : c < 65536)
    (hl : o.left = .text l) (habd : isABD l = true) (hr : o.right = some right)
    (hpm : (hasSub ['+'] right || hasSub ['-'] right) = true) :
    translateOperand o r = .error .operandType := by
  obtain ⟨a, l', rfl⟩ : ∃ a l', l = a :: l' := by
    cases l with
    | nil => simp [isABD] at habd
    | cons a l' => exact ⟨a, l', rfl⟩
  simp only [translateOperand, hk, translateIndexed, hc, hr, hl, pure_bind, opVal_ok hc', habd, hpm]
  by_cases h0 : c = 0 <;> cases validIndexReg right <;> cases (right == str "PCR") <;> simp [h0] <;> rfl

/-- the same inside brackets (`[D,--Y]`) -/
theorem C12_acc_autoincrement_rejected_ind {o : Asm.Operand} {r : InstrRow} {l right : Str} {c : Nat}
    (hb : Bracketed o) (hc : r.ind = some c) (hc' : c < 65536)
    (hl : o.left = .text l) (habd : isABD l = true) (hr : o.right = some right)
    (hpm : (hasSub ['+'] right || hasSub ['-'] right) = true) :
    translateOperand o r = .error .operandType := by
  obtain ⟨a, l', rfl⟩ : ∃ a l', l = a :: l' := by
    cases l with
    | nil => simp [isABD] at habd
    | cons a l' => exact ⟨a, l', rfl⟩
  simp only [translateOperand, hb.1, translateExtIndirect, hc, opVal_ok hc', hb.2.1, hb.2.2, hr, hl, pure_bind, habd, hpm]
  by_cases h0 : c = 0 <;> cases validIndexReg right <;> cases (right == str "PCR") <;> simp [h0] <;> rfl

/-- **an instruction cannot stack its own pointer** (`PSHS S`, `PULS A,S`, `PSHU U`, `PULU U,X`): every register
list that names it is REJECTED -/
theorem C12_own_stack_pointer_rejected {r : InstrRow} {o : Asm.Operand} {regs : List Str}
    (hm : isStackMn r.mnemonic = true) (hk : o.kind = .special) (ht : o.text = joinWith ',' regs)
    (hnc : ∀ x ∈ regs, ',' ∉ x) (hown : ownSP (isUStack r.mnemonic) ∈ regs) :
    translateOperand o r = .error .operandType := by
  have hne : regs ≠ [] := by rintro rfl; cases hown
  refine C01_push_pull_rejected hm hk ⟨_, by rw [ht, splitOn_joinWith ',' regs hne hnc]; exact hown, ?_⟩
  cases isUStack r.mnemonic <;> decide

/-- ... and so is a list naming something that is no register (`PSHS Q`, `PSHS A,,B`) -/
theorem C12_unknown_register_rejected {r : InstrRow} {o : Asm.Operand} {regs : List Str} {x : Str}
    (hm : isStackMn r.mnemonic = true) (hk : o.kind = .special) (ht : o.text = joinWith ',' regs)
    (hnc : ∀ x ∈ regs, ',' ∉ x) (hx : x ∈ regs) (hbad : isReg x = false) :
    translateOperand o r = .error .operandType := by
  have hne : regs ≠ [] := by rintro rfl; cases hx
  simp only [translateOperand, hk]
  exact translateSpecial_psh_reject _ (by simpa [isStackMn] using hm) (stackMn_own hm)
    ⟨x, by rw [ht, splitOn_joinWith ',' regs hne hnc]; exact hx, Or.inl hbad⟩

/-- what the front end builds for the rejected spellings: the hypotheses of the rejection theorems are met -/
structure BuiltIdx where
  kind : OpKind
  leftText : Option Str
  right : Option Str
deriving DecidableEq, Repr

def builtIdx (mn operand : String) : Option BuiltIdx :=
  match asmOperand mn operand with
  | some (_, o) => some ⟨o.kind, (match o.left with | .text l => some l | _ => none), o.right⟩
  | none => none

example : builtIdx "LDA" "5,Z" = some ⟨.indexed, none, some ['Z']⟩ := by decide +kernel
example : builtIdx "LDA" "1,PC" = some ⟨.indexed, none, some ['P', 'C']⟩ := by decide +kernel
example : builtIdx "LDA" ",X+++" = some ⟨.indexed, some [], some ['X', '+', '+', '+']⟩ := by decide +kernel
example : builtIdx "LDA" "5,y" = some ⟨.indexed, none, some ['y']⟩ := by decide +kernel
example : builtIdx "LDA" "[5,Z]" = some ⟨.extIndirect, none, some ['Z']⟩ := by decide +kernel
example : builtIdx "LDA" ",PCR" = some ⟨.indexed, some [], some ['P', 'C', 'R']⟩ := by decide +kernel
example : builtIdx "LDA" "D,PCR" = some ⟨.indexed, some ['D'], some ['P', 'C', 'R']⟩ := by decide +kernel
example : validIndexReg ['Z'] = false ∧ validIndexReg ['P', 'C'] = false ∧ validIndexReg ['X', '+', '+', '+'] = false ∧
    validIndexReg ['y'] = false := by decide

/-- the same source statements end to end: none of them assembles -/
theorem C12_rejected_spellings :
    asmOne "LDA" "5,Z" = none ∧ asmOne "LDA" "1,PC" = none ∧ asmOne "LDA" ",X+++" = none ∧ asmOne "LDA" "5,y" = none ∧
    asmOne "LDA" "[5,Z]" = none ∧ asmOne "LDA" ",PCR" = none ∧ asmOne "LDA" "D,PCR" = none ∧ asmOne "LDA" "[,PCR]" = none ∧
    asmOne "PSHS" "S" = none ∧ asmOne "PSHU" "U" = none ∧ asmOne "PULS" "A,S" = none ∧ asmOne "PULU" "U,X" = none ∧
    asmOne "PSHS" "Q" = none := by
  refine ⟨?_, ?_, ?_, ?_, ?_, ?_, ?_, ?_, ?_, ?_, ?_, ?_, ?_⟩ <;> decide +kernel

/-- ... and as whole programs they end in a diagnostic -/
theorem C12_rejected_programs (fs : Files) :
    assemble fs [" LDA 5,Z\n".toList] = .diag ∧ assemble fs [" LDA 1,PC\n".toList] = .diag ∧
    assemble fs [" LDA ,X+++\n".toList] = .diag ∧ assemble fs [" LDA 5,y\n".toList] = .diag ∧
    assemble fs [" LDA ,PCR\n".toList] = .diag ∧ assemble fs [" LDA D,PCR\n".toList] = .diag ∧
    assemble fs [" PSHS S\n".toList] = .diag ∧ assemble fs [" PSHU U\n".toList] = .diag :=
  ⟨progDiag_sound (by decide +kernel) fs, progDiag_sound (by decide +kernel) fs, progDiag_sound (by decide +kernel) fs,
   progDiag_sound (by decide +kernel) fs, progDiag_sound (by decide +kernel) fs, progDiag_sound (by decide +kernel) fs,
   progDiag_sound (by decide +kernel) fs, progDiag_sound (by decide +kernel) fs⟩

/-- ... and so do the accumulator offsets with auto increment / decrement (repair batch B3) -/
theorem C12_acc_autoincrement_programs (fs : Files) :
    assemble fs [" LDA A,X+\n".toList] = .diag ∧ assemble fs [" LDA B,-X\n".toList] = .diag ∧
    assemble fs [" LDA [D,--Y]\n".toList] = .diag := C01_acc_autoincrement_programs fs

end CoCo.Props

section axioms
open CoCo.Props
#print axioms C12_partial
#print axioms C12_imm8_out_of_range_rejected
#print axioms C12_imm16_out_of_range_rejected
#print axioms C12_direct_out_of_range_rejected
#print axioms C12_fitted_size
#print axioms C12_fitted_size_even
#print axioms C12_unknown_index_register_rejected
#print axioms C12_pcr_without_offset_rejected
#print axioms C12_own_stack_pointer_rejected
#print axioms C12_acc_autoincrement_rejected
#print axioms C12_acc_autoincrement_rejected_ind
#print axioms C12_rejected_programs
end axioms
