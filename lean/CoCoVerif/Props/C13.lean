/-
Props/C13.lean — every input is either accepted or rejected with a documented diagnostic.

The full property is FALSE for the model (and for the Python): outcomes of kind `internal`
(an exception other than ParseError / TranslationError escaping) exist; the smallest witness is
an INCLUDE of a file that does not exist (FileNotFoundError).  What holds, and is proved here:
no stage of `assemble` diverges (the PCR size loop terminates within `length + 1` passes), and
the line parser never fails with anything but a diagnostic.
-/
import CoCoVerif.Lemmas.LayoutFix

namespace CoCo.Props
open CoCo CoCo.Asm

/-- C13 at full strength: assembly of any input ends in an image or a documented diagnostic. -/
def C13_Statement : Prop :=
  ∀ (fs : Files) (lines : List Str), (∃ a, assemble fs lines = .ok a) ∨ assemble fs lines = .diag

/-! ### termination -/

/-- the `while not all_sizes_fixed()` loop of `Program.translate` terminates: as many passes as there are
statements of undecided size (`unfixed`) suffice -/
theorem pcrLoop_not_diverged_of_fuel (fuel : Nat) (ss : List Stmt) (h : unfixed ss ≤ fuel) :
    pcrLoop fuel ss ≠ .diverged := Asm.pcrLoop_not_diverged_of_fuel fuel ss h

theorem pcrLoop_not_diverged (ss : List Stmt) : pcrLoop (ss.length + 1) ss ≠ .diverged :=
  Asm.pcrLoop_not_diverged ss

theorem assemble_not_diverged (fs : Files) (lines : List Str) : assemble fs lines ≠ .diverged :=
  Asm.assemble_not_diverged fs lines

/-- `Statement.__init__` raises nothing but ParseError -/
theorem parseLine_no_internal (l : Str) : parseLine l ≠ .internal ∧ parseLine l ≠ .diverged := by
  rcases parseLine_cases l with ⟨r, h⟩ | h <;> rw [h] <;> simp

theorem parseLines_no_internal (ls : List Str) : parseLines ls ≠ .internal ∧ parseLines ls ≠ .diverged := by
  rcases parseLines_cases ls with ⟨r, h⟩ | h <;> rw [h] <;> simp

/-! ### refutation of the full statement -/

/-- one line: ` INCLUDE x` -/
def C13_witness : List Str := [[' ', 'I', 'N', 'C', 'L', 'U', 'D', 'E', ' ', 'x']]

private def isIncludeOfX (o : Outcome (List Stmt)) : Bool :=
  match o with
  | .ok [s] => s.row.isInclude && s.operand.text == ['x']
  | _ => false

private theorem witness_parses : isIncludeOfX (parseLines C13_witness) = true := by decide

private theorem isIncludeOfX_elim (o : Outcome (List Stmt)) (h : isIncludeOfX o = true) :
    ∃ s, o = .ok [s] ∧ s.row.isInclude = true ∧ s.operand.text = ['x'] := by
  unfold isIncludeOfX at h
  split at h
  · rename_i s
    simp only [Bool.and_eq_true, beq_iff_eq] at h
    exact ⟨s, rfl, h.1, h.2⟩
  · cases h

private theorem internal_of_include (lines : List Str) (h : isIncludeOfX (parseLines lines) = true) :
    assemble [] lines = .internal := by
  obtain ⟨s, hp, h1, h2⟩ := isIncludeOfX_elim _ h
  have he : expand [] 64 [s] = .internal := by
    rw [expand, expand.go]
    simp [h1, h2, Files.get?]
  unfold assemble
  rw [hp]
  simp only [he]

/-- INCLUDE of a missing file: FileNotFoundError escapes `Program.process` -/
theorem C13_witness_internal : assemble [] C13_witness = .internal :=
  internal_of_include _ witness_parses

theorem C13_Statement_false : ¬ C13_Statement := by
  intro h
  rcases h [] C13_witness with ⟨a, ha⟩ | ha <;> rw [C13_witness_internal] at ha <;> cases ha

/-- What holds of C13: the PCR loop and the whole assembly never run out of fuel, and parsing a line
fails only with a diagnostic.  (Known finding: `internal` outcomes are reachable, `C13_Statement_false`.) -/
theorem C13_partial :
    (∀ ss : List Stmt, pcrLoop (ss.length + 1) ss ≠ .diverged) ∧
    (∀ fs lines, assemble fs lines ≠ .diverged) ∧
    (∀ l, parseLine l ≠ .internal ∧ parseLine l ≠ .diverged) ∧
    (∀ ls, parseLines ls ≠ .internal ∧ parseLines ls ≠ .diverged) :=
  ⟨pcrLoop_not_diverged, assemble_not_diverged, parseLine_no_internal, parseLines_no_internal⟩

end CoCo.Props
