/-
Props/C13.lean — every input is either accepted or rejected with a documented diagnostic.

The full property (`C13_Statement`) is a THEOREM since batch 6: `C13_full`.

History: outcomes of kind `internal` (an exception other than ParseError / TranslationError escaping
`Program.process`) used to exist, and refuted it.  The witnesses: an INCLUDE of a missing file (repaired, see
Props/C19.lean `include_missing_diag`); a program that runs past address 65535 (`ORG $FFFF`, `NOP`, `NOP`; repaired by
fix 0addc5e, now `C13_formerWitness_diag`); a program of more than 65536 statements in which a PCR offset expression
subtracts a label from a symbol that is neither a number nor an address (`calculate_address_offset` took the STATEMENT
INDEX of the label for the constant; repaired by fix 9045646, now `C13_witness_diag`, 70002 lines).
After fixes 0addc5e, dfad397, 145359a, 9045646 exactly ONE source was left, and that was a theorem
(`assemble_internal_iff_expand`, `assemble_internal_only_from_expand_fuel`): more than 64 nested INCLUDE files (the
fixed fuel of `expand`, standing for Python's RecursionError) — `C13_deepWitness`, 65 nested files.
Batch 6: the Python code reports its own recursion limit as a diagnostic, and the model's nesting budget is
`includeFuel fs` = number of files + 1, which is never exhausted because a file that is being included is rejected
(`expand_includeFuel_ne_internal`, Lemmas/FrontInclude.lean).  So `assemble` never ends in `internal`
(`assemble_never_internal`), never diverges (`assemble_not_diverged`), and C13 holds for every input (`C13_full`); the
former witness is accepted (`C13_deepWitness_fixed`).  The conditional forms of the earlier batches
(`C13_of_expand_ne_internal`, `C13_no_include`, `C13_partial`, ...) are kept; they are corollaries now.
-/
import CoCoVerif.Lemmas.LayoutFix
import CoCoVerif.Lemmas.LayoutEval
import CoCoVerif.Props.C19
import CoCoVerif.Lemmas.NoIntFix
import CoCoVerif.Lemmas.NoIntHuge

namespace CoCo.Props
open CoCo CoCo.Asm

/-- C13 at full strength: assembly of any input ends in an image or a documented diagnostic. -/
def C13_Statement : Prop :=
  ∀ (fs : Files) (lines : List Str), (∃ a, assemble fs lines = .ok a) ∨ assemble fs lines = .diag

/-! ### termination -/

/-- the `while not all_sizes_fixed()` loop of `Program.translate` terminates: as many passes as there are
statements of undecided size (`unfixed`) suffice -/
theorem pcrLoop_not_diverged_of_fuel (fuel : Nat) (ss : List Stmt) (h : unfixed ss ≤ fuel) :
    pcrLoop fuel ss ≠ .diverged := Asm.pcrLoop_not_diverged_of_fuel fuel ss h

theorem pcrLoop_not_diverged (ss : List Stmt) : pcrLoop (ss.length + 1) ss ≠ .diverged :=
  Asm.pcrLoop_not_diverged ss

theorem assemble_not_diverged (fs : Files) (lines : List Str) : assemble fs lines ≠ .diverged :=
  Asm.assemble_not_diverged fs lines

/-- `Statement.__init__` raises nothing but ParseError -/
theorem parseLine_no_internal (l : Str) : parseLine l ≠ .internal ∧ parseLine l ≠ .diverged := by
  rcases parseLine_cases l with ⟨r, h⟩ | h <;> rw [h] <;> simp

theorem parseLines_no_internal (ls : List Str) : parseLines ls ≠ .internal ∧ parseLines ls ≠ .diverged := by
  rcases parseLines_cases ls with ⟨r, h⟩ | h <;> rw [h] <;> simp

/-! ### the former refutations of the full statement -/

/-- REPAIRED (fix 0addc5e; formerly `C13_witness`): `ORG $FFFF`, `NOP`, `NOP` -- the second NOP would sit at
address 65536 -- is now a diagnostic ("outside the 64K address space") -/
def C13_formerWitness : List Str := [" ORG $FFFF\n", " NOP\n", " NOP\n"].map String.toList

theorem C13_formerWitness_diag (fs : Files) : assemble fs C13_formerWitness = .diag :=
  diagProgram_sound (by decide +kernel) fs

/-- the former witness 1: a chain of 65 nested INCLUDE files (`fsDeep` of Props/C19.lean).  The model's `expand` ran
out of its fixed fuel of 64, which stood for Python's RecursionError escaping `Program.process`. -/
def C13_deepWitness : List Str := [deepLine 63] ++ []

/-- RESTATED (was `C13_deepWitness_internal : assemble fsDeep C13_deepWitness = .internal`): with the nesting budget
`includeFuel fsDeep` = 70 the 64 files below the program are expanded; the program is the single `NOP` of the innermost
file and is accepted, with image `12` -/
theorem C13_deepWitness_fixed :
    ∃ a, assemble fsDeep C13_deepWitness = .ok a ∧ a.stmts.map stmtBytes = [some [0x12]] := by
  obtain ⟨a, ha, hc⟩ := checkProgram_sound (lines := [nopLine] ++ [])
    (check := fun a => a.stmts.map stmtBytes == [some [0x12]]) (by decide +kernel) fsDeep
  exact ⟨a, by rw [C13_deepWitness, deep63_fixed, ha], by simpa using hc⟩

/-- REPAIRED (formerly witness 2, `C13_witness_internal`): 70000 times ` ORG 0`, then `FAR LEAX X-FAR,PCR`, then
`X EQU 1,2`.  `X` is a symbol that is neither a number nor an address, so `X-FAR` stays an address expression.
`calculate_address_offset` used to take the STATEMENT INDEX of `FAR` (70000) for the constant, and
`NumericValue(70000 − 0 − 3, size_hint=2)` raised a ValueTypeError that nothing caught.  Now `X-FAR` is reported
as an unresolved expression. -/
def C13_witness : List Str := List.replicate 70000 hugeOrg ++ [hugeFar, hugeX]

/-- ... whatever the host files are -/
theorem C13_witness_diag' (fs : Files) : assemble fs C13_witness = .diag := huge_diag fs 70000 rfl

theorem C13_witness_diag : assemble [] C13_witness = .diag := C13_witness_diag' []

theorem C13_witness_length : C13_witness.length = 70002 := by
  unfold C13_witness; rw [List.length_append, List.length_replicate]; rfl

/-! ### where internal errors could come from: nowhere -/

/-- **C13, the main positive result of the batches before 6** (after fixes 0addc5e, dfad397, 145359a, 9045646).  An
internal error of `Program.process` has at most one cause: the INCLUDE expansion ran out of its nesting budget (in the
model the fuel of `expand`, in Python a RecursionError).  Every other stage -- symbol table,
`resolve_symbols` (batch 4: with EQUs defined by expressions evaluated where they are used, `resolveF`), `translate`,
the PCR size loop, the ORG check (batch 5, `orgOK`: a diagnostic), address assignment, `fix_addresses`, the evaluation
of the EQU expressions on the final addresses (batch 4, `evalSyms`: `evalSyms_good`), the final symbol table --
ends in a result or in a diagnostic on statements that came out of the parser, HOWEVER MANY there are.
(Before fix 9045646 a second cause existed: more than 65536 statements, see `C13_witness`.)
Since batch 6 the budget `includeFuel fs` is never exhausted either: `assemble_never_internal` below. -/
theorem assemble_internal_only_from_expand_fuel (fs : Files) (lines : List Str)
    (h : assemble fs lines = .internal) :
    ∃ parsed, parseLines lines = .ok parsed ∧ expand fs (includeFuel fs) [] parsed = .internal := by
  rcases parseLines_cases lines with ⟨parsed, hp⟩ | hp
  · refine ⟨parsed, hp, ?_⟩
    rw [assemble_eq] at h
    have hf : front fs lines = expand fs (includeFuel fs) [] parsed := by unfold front; rw [hp]
    rw [hf] at h
    cases he : expand fs (includeFuel fs) [] parsed with
    | ok ss0 =>
      rw [he] at h
      dsimp only at h
      exact absurd h (back_ne_internal (expand_parsed hp he))
    | diag => rw [he] at h; cases h
    | internal => rfl
    | diverged => rw [he] at h; cases h
  · unfold assemble at h
    rw [hp] at h
    cases h

/-- ... and conversely: an INCLUDE expansion that runs out of its budget IS an internal error of the whole run -/
theorem assemble_internal_of_expand (fs : Files) (lines : List Str) (parsed : List Stmt)
    (hp : parseLines lines = .ok parsed) (he : expand fs (includeFuel fs) [] parsed = .internal) :
    assemble fs lines = .internal := by
  unfold assemble
  rw [hp]
  dsimp only
  rw [he]

/-- the internal errors of `Program.process` are exactly the exhausted INCLUDE nesting budgets (since batch 6 there are none of either: `assemble_never_internal`, `expand_never_internal`) -/
theorem assemble_internal_iff_expand (fs : Files) (lines : List Str) :
    assemble fs lines = .internal ↔
      ∃ parsed, parseLines lines = .ok parsed ∧ expand fs (includeFuel fs) [] parsed = .internal :=
  ⟨assemble_internal_only_from_expand_fuel fs lines,
   fun ⟨parsed, hp, he⟩ => assemble_internal_of_expand fs lines parsed hp he⟩

/-- **the nesting budget is never exhausted** (batch 6; Lemmas/FrontInclude.lean `expand_ne_internal_of_fuel`: the chain
of files being included holds no file twice and only files that exist, so it is no longer than `fs`) -/
theorem expand_never_internal (fs : Files) (parsed : List Stmt) :
    expand fs (includeFuel fs) [] parsed ≠ .internal := expand_includeFuel_ne_internal fs parsed

/-- ... and every larger budget gives the same expansion -/
theorem expand_budget_irrelevant (fs : Files) (m : Nat) (parsed : List Stmt) (h : includeFuel fs ≤ m) :
    expand fs m [] parsed = expand fs (includeFuel fs) [] parsed := expand_fuel_irrelevant fs m parsed h

/-- **no internal error**: `Program.process` never ends in an exception other than ParseError / TranslationError,
whatever the program and the host files -/
theorem assemble_never_internal (fs : Files) (lines : List Str) : assemble fs lines ≠ .internal := by
  intro h
  obtain ⟨parsed, _, he⟩ := assemble_internal_only_from_expand_fuel fs lines h
  exact expand_never_internal fs parsed he

/-- **C13 at full strength**: assembly of any input ends in an image or a documented diagnostic -/
theorem C13_full : C13_Statement := by
  intro fs lines
  cases h : assemble fs lines with
  | ok a => exact Or.inl ⟨a, rfl⟩
  | diag => exact Or.inr rfl
  | internal => exact absurd h (assemble_never_internal fs lines)
  | diverged => exact absurd h (assemble_not_diverged fs lines)

/-- the weaker statement that was the headline before fix 9045646 (the second disjunct, "more than 65536
statements", can no longer occur); kept as a corollary -/
theorem assemble_internal_only_from_expand (fs : Files) (lines : List Str)
    (h : assemble fs lines = .internal) :
    ∃ parsed, parseLines lines = .ok parsed ∧
      (expand fs (includeFuel fs) [] parsed = .internal ∨
        ∃ ss0, expand fs (includeFuel fs) [] parsed = .ok ss0 ∧ 65536 < ss0.length) := by
  obtain ⟨parsed, hp, he⟩ := assemble_internal_only_from_expand_fuel fs lines h
  exact ⟨parsed, hp, Or.inl he⟩

/-- the contrapositive, in the form "accepted or rejected with a diagnostic": C13 holds for every input whose
INCLUDE expansion does not run out of its nesting budget -/
theorem C13_of_expand_ne_internal (fs : Files) (lines : List Str) (parsed : List Stmt)
    (hp : parseLines lines = .ok parsed) (he : expand fs (includeFuel fs) [] parsed ≠ .internal) :
    (∃ a, assemble fs lines = .ok a) ∨ assemble fs lines = .diag := by
  cases h : assemble fs lines with
  | ok a => exact Or.inl ⟨a, rfl⟩
  | diag => exact Or.inr rfl
  | internal =>
    obtain ⟨p', hp', h'⟩ := assemble_internal_only_from_expand_fuel fs lines h
    rw [hp] at hp'; cases hp'
    exact absurd h' he
  | diverged => exact absurd h (assemble_not_diverged fs lines)

/-- C13 for every input whose INCLUDE expansion succeeds (the bound `ss0.length ≤ 65536` of the former
statement is gone; the old form is `C13_of_expand_ok'`) -/
theorem C13_of_expand_ok (fs : Files) (lines : List Str) (parsed ss0 : List Stmt)
    (hp : parseLines lines = .ok parsed) (he : expand fs (includeFuel fs) [] parsed = .ok ss0) :
    (∃ a, assemble fs lines = .ok a) ∨ assemble fs lines = .diag :=
  C13_of_expand_ne_internal fs lines parsed hp (by rw [he]; simp)

/-- the former statement of `C13_of_expand_ok` (with the bound that is no longer needed), a corollary -/
theorem C13_of_expand_ok' (fs : Files) (lines : List Str) (parsed ss0 : List Stmt)
    (hp : parseLines lines = .ok parsed) (he : expand fs (includeFuel fs) [] parsed = .ok ss0) (_hN : ss0.length ≤ 65536) :
    (∃ a, assemble fs lines = .ok a) ∨ assemble fs lines = .diag :=
  C13_of_expand_ok fs lines parsed ss0 hp he

/-- without INCLUDE statements (so whatever the host files are): C13 holds, for a program of any length -/
theorem C13_no_include (fs : Files) (lines : List Str) (parsed : List Stmt)
    (hp : parseLines lines = .ok parsed) (hni : parsed.all (fun s => !s.row.isInclude) = true) :
    (∃ a, assemble fs lines = .ok a) ∨ assemble fs lines = .diag :=
  C13_of_expand_ok fs lines parsed parsed hp (expand_noinclude fs fs.length [] parsed hni)

theorem parseLines_length_le : ∀ (ls : List Str) (r : List Stmt), parseLines ls = .ok r → r.length ≤ ls.length := by
  intro ls
  induction ls with
  | nil => intro r h; simp [parseLines] at h; subst h; simp
  | cons l rest ih =>
    intro r h
    unfold parseLines at h
    split at h
    · have := ih r h; simp only [List.length_cons]; omega
    · cases hr : parseLines rest with
      | ok r2 =>
        rw [hr] at h; simp only [Outcome.ok.injEq] at h; subst h
        have := ih r2 hr; simp only [List.length_cons]; omega
      | _ => rw [hr] at h; cases h
    · cases h
    · cases h
    · cases h

/-- C13 for every program of at most 65536 lines without an INCLUDE statement (the former statement; the bound
is no longer needed, see `C13_no_include`) -/
theorem C13_short_program (fs : Files) (lines : List Str) (parsed : List Stmt)
    (hp : parseLines lines = .ok parsed) (hni : parsed.all (fun s => !s.row.isInclude) = true)
    (_hN : lines.length ≤ 65536) :
    (∃ a, assemble fs lines = .ok a) ∨ assemble fs lines = .diag :=
  C13_no_include fs lines parsed hp hni

/-! ### batch B2: the new branches (register validation, signed arithmetic, the 8-bit PCR range check)

The invariant of the NoInt* chain (`back_ne_internal`, hence `assemble_internal_iff_expand`) was re-proved on the model
after batch B2, so every new branch is covered by the general theorems above: the register checks of
`translateSpecial` / `translateIndexed` / `translateExtIndirect` raise `operandType` (a diagnostic), the signed
expression arithmetic (`Int.tdiv`, products and sums of negative numbers) goes through `numericOfStr` /
`numericOfInt`, which have no internal outcome (a negative number of ANY magnitude is a value: `addrOffset_good` no
longer bounds it, `fit_operand_width` rejects it later with a diagnostic), division by zero is `.error .other`
(a diagnostic), and the range check of `fix_addresses` is a diagnostic.  The programs below exercise each of
these branches; all were replayed on the repaired code with the same outcome. -/

private def prog (ls : List String) : List Str := ls.map String.toList

/-- statement images of an accepted program -/
private def imagesAre (bs : List (Option Bytes)) (a : Assembly) : Bool := a.stmts.map stmtBytes == bs

/-- **register validation is a diagnostic**: an instruction stacking its own pointer, an unknown register, an
unknown index register (plain and indirect), `PCR` without an offset or with an accumulator offset -/
theorem C13_b2_register_diag (fs : Files) :
    assemble fs (prog [" PSHS S\n"]) = .diag ∧ assemble fs (prog [" PSHU U,A\n"]) = .diag ∧
    assemble fs (prog [" PULS Q\n"]) = .diag ∧ assemble fs (prog [" LDA 1,Q\n"]) = .diag ∧
    assemble fs (prog [" LDA ,W\n"]) = .diag ∧ assemble fs (prog [" LDA [1,Q]\n"]) = .diag ∧
    assemble fs (prog [" LEAX ,PCR\n"]) = .diag ∧ assemble fs (prog [" LEAX A,PCR\n"]) = .diag ∧
    assemble fs (prog [" LDA [D,PCR]\n"]) = .diag :=
  ⟨diagProgram_sound (by decide +kernel) fs, diagProgram_sound (by decide +kernel) fs,
   diagProgram_sound (by decide +kernel) fs, diagProgram_sound (by decide +kernel) fs,
   diagProgram_sound (by decide +kernel) fs, diagProgram_sound (by decide +kernel) fs,
   diagProgram_sound (by decide +kernel) fs, diagProgram_sound (by decide +kernel) fs,
   diagProgram_sound (by decide +kernel) fs⟩

/-- ... and what the checks let through: the OTHER stack pointer, `0,PCR` (an offset of 0 from the PC, not the
no-offset form), a numeric `n,PCR` outside −128..127 in the 16-bit form -/
theorem C13_b2_register_ok :
    (∃ a, assemble [] (prog [" PSHS U,A\n"]) = .ok a ∧ imagesAre [some [0x34, 0x42]] a = true) ∧
    (∃ a, assemble [] (prog [" LEAX 0,PCR\n", " LDA [0,PCR]\n"]) = .ok a ∧
      imagesAre [some [0x30, 0x8C, 0x00], some [0xA6, 0x9C, 0x00]] a = true) ∧
    (∃ a, assemble [] (prog [" LEAX 200,PCR\n", " LEAX -129,PCR\n"]) = .ok a ∧
      imagesAre [some [0x30, 0x8D, 0x00, 0xC8], some [0x30, 0x8D, 0xFF, 0x7F]] a = true) :=
  ⟨checkProgram_sound (by decide +kernel) [], checkProgram_sound (by decide +kernel) [],
   checkProgram_sound (by decide +kernel) []⟩

/-- **signed arithmetic ends in a diagnostic or an image**: division by zero (numbers, and a label by a number),
a product `label * constant` above 65535 (batch B3: `label * negative` is reduced modulo 65536 and accepted, see
`C13_b2_signed_ok`), a negative EQU in a one-byte field, ORG of a negative number,
and the 8-bit PCR range check are diagnostics -/
theorem C13_b2_signed_diag (fs : Files) :
    assemble fs (prog ["N EQU 0\n", " LDX #5/N\n"]) = .diag ∧
    assemble fs (prog ["N EQU 0\n", "L LDX #L/N\n"]) = .diag ∧
    assemble fs (prog ["N EQU 300\n", " ORG $1000\n", "L LDX #L*N\n"]) = .diag ∧
    assemble fs (prog ["N EQU -200\n", " FDB N\n", " FCB N\n"]) = .diag ∧
    assemble fs (prog ["S EQU -5\n", " ORG S\n", " NOP\n"]) = .diag ∧
    assemble fs (prog ["S LEAX T,PCR\n", " ORG $CB\n", "T NOP\n"]) = .diag :=
  ⟨diagProgram_sound (by decide +kernel) fs, diagProgram_sound (by decide +kernel) fs,
   diagProgram_sound (by decide +kernel) fs, diagProgram_sound (by decide +kernel) fs,
   diagProgram_sound (by decide +kernel) fs, diagProgram_sound (by decide +kernel) fs⟩

/-- ... and the accepted ones: `N/M`, `M/N` (truncation toward zero: `−7/2 = −3`, `2/−7 = 0`), `N*N`, `N−M` on numbers;
`label / negative`, `label * negative` in a 16-bit field (two's complement); a negative value as an extended operand
(never direct, even with `<`); `label * negative` as an immediate and as a PCR target (batch B3: the product −1228800 is
reduced modulo 65536 by `calculate_address_offset`, the target is `$4000` — no internal error, whatever one thinks of
the operand) -/
theorem C13_b2_signed_ok :
    (∃ a, assemble [] (prog ["N EQU -7\n", "M EQU 2\n", " LDX #N/M\n", " LDX #M/N\n", " LDX #N*N\n", " LDX #N-M\n"])
        = .ok a ∧
      imagesAre [some [], some [], some [0x8E, 0xFF, 0xFD], some [0x8E, 0x00, 0x00], some [0x8E, 0x00, 0x31],
        some [0x8E, 0xFF, 0xF7]] a = true) ∧
    (∃ a, assemble [] (prog ["N EQU -2\n", " ORG $100\n", "L LDX #L/N\n", " LDX #L*N\n"]) = .ok a ∧
      imagesAre [some [], some [], some [0x8E, 0xFF, 0x80], some [0x8E, 0xFE, 0x00]] a = true) ∧
    (∃ a, assemble [] (prog ["N EQU -5\n", " LDA N\n", " LDA <N\n"]) = .ok a ∧
      imagesAre [some [], some [0xB6, 0xFF, 0xFB], some [0xB6, 0xFF, 0xFB]] a = true) ∧
    (∃ a, assemble [] (prog ["N EQU -300\n", " ORG $1000\n", "L LEAX L*N,PCR\n"]) = .ok a ∧
      imagesAre [some [], some [], some [0x30, 0x8D, 0x2F, 0xFC]] a = true) ∧
    (∃ a, assemble [] (prog ["N EQU -300\n", " ORG $1000\n", "L LDX #L*N\n"]) = .ok a ∧
      imagesAre [some [], some [], some [0x8E, 0x40, 0x00]] a = true) :=
  ⟨checkProgram_sound (by decide +kernel) [], checkProgram_sound (by decide +kernel) [],
   checkProgram_sound (by decide +kernel) [], checkProgram_sound (by decide +kernel) [],
   checkProgram_sound (by decide +kernel) []⟩

/-! ### batch B3: label offsets of a pointer register, the rewritten `calculate_address_offset`, `A,X+`

Again the NoInt* chain was re-proved on the model (`StmtOK.addl`: whatever `fix_addresses` has to resolve — with post byte
choices, the PCR forms, or without, the new label offset — is a label index below the number of statements or a good
label expression; `addrOffset_good`: the result of `calculate_address_offset` is a 16-bit magnitude again, so
`numericOfInt target (some 4)` of the new branch of `fixOne` cannot fail), hence `assemble_internal_iff_expand` is
unchanged.  The programs below exercise every new branch; all were replayed on the repaired code (/tmp/wt-b3n) with the
same outcome and the same bytes. -/

/-- **a label as constant offset of a pointer register** (16-bit offset form, post byte `$x9`): the label defined BEFORE
(`T`) and AFTER (`V`) its use, plain, with a constant, indirect, and the extended indirect `[label+1]`; an EQU symbol is
a number, not a label (5-bit form) -/
theorem C13_b3_label_offset_ok :
    (∃ a, assemble [] (prog ["T FCB 1\n", " LDA T,X\n", " LDB T+1,Y\n", " LDD [T,U]\n", " LDA [T+1]\n", " LDA V,S\n",
        " LDX [V-1,X]\n", "V FCB 2\n"]) = .ok a ∧
      imagesAre [some [0x01], some [0xA6, 0x89, 0x00, 0x00], some [0xE6, 0xA9, 0x00, 0x01], some [0xEC, 0xD9, 0x00, 0x00],
        some [0xA6, 0x9F, 0x00, 0x01], some [0xA6, 0xE9, 0x00, 0x19], some [0xAE, 0x99, 0x00, 0x18], some [0x02]] a = true) ∧
    (∃ a, assemble [] (prog [" LDA T,X\n", "T EQU 5\n"]) = .ok a ∧ imagesAre [some [0xA6, 0x05], some []] a = true) :=
  ⟨checkProgram_sound (by decide +kernel) [], checkProgram_sound (by decide +kernel) []⟩

/-- **left `op` right in the written order**: `5-L` is 5 minus the address (reduced modulo 65536), `$4000/L` divides BY the
address, `0/L` is 0, `3*L` as a label offset; `5-L` as a PCR target.
STATEMENT CHANGED in batch 4 (was `C13_b3_order_ok`, last image `30 8C DD`): a PCR operand `number - label` now always
takes the 16-bit form (`exprForces`, third disjunct), so `LEAX 5-L,PCR` is `30 8D FF DC` (target `$FFF5`, from `$0019`). -/
theorem C13_b3_order_ok_fixed :
    (∃ a, assemble [] (prog [" ORG $10\n", "L FDB 5-L\n", " LDX #$4000/L\n", " LEAX 5-L,PCR\n"]) = .ok a ∧
      imagesAre [some [], some [0xFF, 0xF5], some [0x8E, 0x04, 0x00], some [0x30, 0x8D, 0xFF, 0xDC]] a = true) ∧
    (∃ a, assemble [] (prog [" ORG $10\n", "L LDX #0/L\n", " LDA 3*L,X\n"]) = .ok a ∧
      imagesAre [some [], some [0x8E, 0x00, 0x00], some [0xA6, 0x89, 0x00, 0x30]] a = true) :=
  ⟨checkProgram_sound (by decide +kernel) [], checkProgram_sound (by decide +kernel) []⟩

/-- **the diagnostics of the new branches**: division of a label by zero (immediate and as a label offset), a label
offset above 65535 (product, and an address beyond the 64K space), an accumulator offset with auto increment or
decrement (plain and indirect) -/
theorem C13_b3_diag (fs : Files) :
    assemble fs (prog ["L LDX #L/0\n"]) = .diag ∧
    assemble fs (prog [" ORG 5\n", "L LDA L/0,X\n"]) = .diag ∧
    assemble fs (prog ["N EQU 300\n", " ORG $1000\n", "L LDA L*N,X\n"]) = .diag ∧
    assemble fs (prog [" ORG $FFFE\n", " NOP\n", "T NOP\n", " LDA T+1,X\n"]) = .diag ∧
    assemble fs (prog [" LDA A,X+\n"]) = .diag ∧ assemble fs (prog [" LDA B,-X\n"]) = .diag ∧
    assemble fs (prog [" LDA [D,--Y]\n"]) = .diag :=
  ⟨diagProgram_sound (by decide +kernel) fs, diagProgram_sound (by decide +kernel) fs,
   diagProgram_sound (by decide +kernel) fs, diagProgram_sound (by decide +kernel) fs,
   diagProgram_sound (by decide +kernel) fs, diagProgram_sound (by decide +kernel) fs,
   diagProgram_sound (by decide +kernel) fs⟩

/-! ### batches 4 and 5: EQUs defined by expressions (`resolveF`, `evalSyms`), the ORG rule (`orgOK`)

The NoInt* chain was re-proved on the model: `resolveF_good` (the invariant goes through every level of a chain of EQU
expressions; running out of fuel — a definition cycle, Python's RecursionError — is `.error .other`, a diagnostic),
`evalSyms_good` (an EQU expression is evaluated on the final addresses by `calculate_address_offset`, whose operands are
table entries — labels of existing statements — or numbers: `addrOffset_good'`), and `orgOK` is a Boolean check whose
failure is a diagnostic.  `assemble_internal_iff_expand` is unchanged.  The programs below exercise the new branches. -/

/-- **the diagnostics of the new steps**: a definition cycle met by an operand (`resolve_symbols`) and met only by the
symbol table pass (`evalSyms`); an EQU expression that divides a label by zero, that exceeds 65535, that names an
undefined symbol; an ORG after the first byte -/
theorem C13_b4_diag (fs : Files) :
    assemble fs (prog ["A EQU B+1\n", "B EQU A+1\n", " LDA #A\n"]) = .diag ∧
    assemble fs (prog ["A EQU B+1\n", "B EQU A+1\n", " NOP\n"]) = .diag ∧
    assemble fs (prog ["X EQU L/0\n", "L NOP\n"]) = .diag ∧
    assemble fs (prog ["X EQU L*L\n", " ORG $1000\n", "L NOP\n"]) = .diag ∧
    assemble fs (prog ["X EQU Q+1\n", " NOP\n"]) = .diag ∧
    assemble fs (prog [" NOP\n", " ORG $10\n"]) = .diag :=
  ⟨diagProgram_sound (by decide +kernel) fs, diagProgram_sound (by decide +kernel) fs,
   diagProgram_sound (by decide +kernel) fs, diagProgram_sound (by decide +kernel) fs,
   diagProgram_sound (by decide +kernel) fs, diagProgram_sound (by decide +kernel) fs⟩

/-- ... and accepted ones: an EQU of constants used as an operand (`N*3`), an EQU of a label expression below zero
(`0-L` at address 5: reduced modulo 65536, listed as `$FFFB`), an ORG after an EQU (which lays nothing out) -/
theorem C13_b4_ok :
    (∃ a, assemble [] (prog ["N EQU 2\n", "X EQU N*3\n", " LDA #X\n"]) = .ok a ∧
      (imagesAre [some [], some [], some [0x86, 0x06]] a &&
        symtabLines a.symtab == some (prog ["$0002 N", "$0006 X"])) = true) ∧
    (∃ a, assemble [] (prog ["X EQU 0-L\n", " ORG 5\n", "L NOP\n"]) = .ok a ∧
      (imagesAre [some [], some [], some [0x12]] a &&
        symtabLines a.symtab == some (prog ["$FFFB X", "$05   L"])) = true) ∧
    (∃ a, assemble [] (prog ["L EQU 5\n", " ORG $10\n", " NOP\n"]) = .ok a ∧
      (imagesAre [some [], some [], some [0x12]] a && symtabLines a.symtab == some (prog ["$0005 L"])) = true) :=
  ⟨checkProgram_sound (by decide +kernel) [], checkProgram_sound (by decide +kernel) [],
   checkProgram_sound (by decide +kernel) []⟩

/-! ### batch 8: symbols, expressions and labels inside FCB / FDB lists (`fixAllL`, `evalLists`)

`back_ne_internal` was re-proved on the model: the pass over the lists (`evalLists`) resolves an element against the
symbol table and looks a label up in the statements after `fix_addresses`; every label of the table points at an existing
statement whose address is a 16-bit number (`fixAllL_ne_internal`, Lemmas/EvalListsNoInt.lean), so the pass ends in a
list of statements or in a diagnostic.  `assemble_internal_iff_expand` is unchanged. -/

/-- **list elements that cannot be evaluated end in a diagnostic**: an undefined symbol, a division by zero, a label whose
address does not fit the byte of an FCB -/
theorem C13_b8_list_diag (fs : Files) :
    assemble fs (prog [" FCB 1,UNDEF\n"]) = .diag ∧
    assemble fs (prog [" FDB 5/Z,1\n", "Z EQU 0\n"]) = .diag ∧
    assemble fs (prog [" ORG $100\n", "L NOP\n", " FCB 1,L\n"]) = .diag :=
  ⟨diagProgram_sound (by decide +kernel) fs, diagProgram_sound (by decide +kernel) fs,
   diagProgram_sound (by decide +kernel) fs⟩

/-- **a jump table**: `T FDB L1,L2` with the labels defined after it assembles, each element the address of its label -/
theorem C13_b8_list_ok :
    ∃ a, assemble [] (prog ["T FDB L1,L2\n", "L1 NOP\n", "L2 RTS\n"]) = .ok a ∧
      imagesAre [some [0x00, 0x04, 0x00, 0x05], some [0x12], some [0x39]] a = true :=
  checkProgram_sound (by decide +kernel) []

/-- What was proved of C13 before batch 6 (kept; `C13_full` is the full statement).  (1)-(4): the PCR loop and the
whole assembly never run out of fuel, and parsing fails only with a diagnostic.  (5): an internal error comes from the
nesting budget of INCLUDE and from nothing else (and that budget is never exhausted: `expand_never_internal`, so both
sides of (5) are false).  (6): C13 itself whenever the INCLUDE expansion does not run out of that budget (always). -/
theorem C13_partial :
    (∀ ss : List Stmt, pcrLoop (ss.length + 1) ss ≠ .diverged) ∧
    (∀ fs lines, assemble fs lines ≠ .diverged) ∧
    (∀ l, parseLine l ≠ .internal ∧ parseLine l ≠ .diverged) ∧
    (∀ ls, parseLines ls ≠ .internal ∧ parseLines ls ≠ .diverged) ∧
    (∀ fs lines, assemble fs lines = .internal ↔
      ∃ parsed, parseLines lines = .ok parsed ∧ expand fs (includeFuel fs) [] parsed = .internal) ∧
    (∀ fs lines parsed, parseLines lines = .ok parsed → expand fs (includeFuel fs) [] parsed ≠ .internal →
      (∃ a, assemble fs lines = .ok a) ∨ assemble fs lines = .diag) :=
  ⟨pcrLoop_not_diverged, assemble_not_diverged, parseLine_no_internal, parseLines_no_internal,
   assemble_internal_iff_expand, C13_of_expand_ne_internal⟩

end CoCo.Props
