/-
Props/C13.lean — every input is either accepted or rejected with a documented diagnostic.

The full property is FALSE for the model (and for the Python): outcomes of kind `internal`
(an exception other than ParseError / TranslationError escaping) exist.  An INCLUDE of a file that
does not exist used to be the smallest witness; after the repair of INCLUDE handling it is a diagnostic
(see Props/C19.lean, `include_missing_diag`), and the witness kept here is a program that runs past
address 65535 (`ORG $FFFF`, `NOP`, `NOP`: the address of the second NOP is not a 16-bit value and the
ValueTypeError escapes `Program.process`).  What holds, and is proved here:
no stage of `assemble` diverges (the PCR size loop terminates within `length + 1` passes), and
the line parser never fails with anything but a diagnostic.
-/
import CoCoVerif.Lemmas.LayoutFix
import CoCoVerif.Lemmas.LayoutEval

namespace CoCo.Props
open CoCo CoCo.Asm

/-- C13 at full strength: assembly of any input ends in an image or a documented diagnostic. -/
def C13_Statement : Prop :=
  ∀ (fs : Files) (lines : List Str), (∃ a, assemble fs lines = .ok a) ∨ assemble fs lines = .diag

/-! ### termination -/

/-- the `while not all_sizes_fixed()` loop of `Program.translate` terminates: as many passes as there are
statements of undecided size (`unfixed`) suffice -/
theorem pcrLoop_not_diverged_of_fuel (fuel : Nat) (ss : List Stmt) (h : unfixed ss ≤ fuel) :
    pcrLoop fuel ss ≠ .diverged := Asm.pcrLoop_not_diverged_of_fuel fuel ss h

theorem pcrLoop_not_diverged (ss : List Stmt) : pcrLoop (ss.length + 1) ss ≠ .diverged :=
  Asm.pcrLoop_not_diverged ss

theorem assemble_not_diverged (fs : Files) (lines : List Str) : assemble fs lines ≠ .diverged :=
  Asm.assemble_not_diverged fs lines

/-- `Statement.__init__` raises nothing but ParseError -/
theorem parseLine_no_internal (l : Str) : parseLine l ≠ .internal ∧ parseLine l ≠ .diverged := by
  rcases parseLine_cases l with ⟨r, h⟩ | h <;> rw [h] <;> simp

theorem parseLines_no_internal (ls : List Str) : parseLines ls ≠ .internal ∧ parseLines ls ≠ .diverged := by
  rcases parseLines_cases ls with ⟨r, h⟩ | h <;> rw [h] <;> simp

/-! ### refutation of the full statement -/

/-- `ORG $FFFF`, `NOP`, `NOP`: the second NOP would sit at address 65536 -/
def C13_witness : List Str := [" ORG $FFFF\n", " NOP\n", " NOP\n"].map String.toList

/-- a program without INCLUDE whose assembly (computed by `assembleFrom`) ends in `internal` -/
private def endsInternal (lines : List Str) : Bool :=
  match parseLines lines with
  | .ok p => p.all (fun s => !s.row.isInclude) &&
      (match assembleFrom p with | .internal => true | _ => false)
  | _ => false

private theorem endsInternal_sound {lines : List Str} (h : endsInternal lines = true) (fs : Files) :
    assemble fs lines = .internal := by
  unfold endsInternal at h
  split at h
  · rename_i p hp
    simp only [Bool.and_eq_true] at h
    obtain ⟨h1, h2⟩ := h
    split at h2
    · rename_i ha
      rw [assemble_eq_from hp (expand_noinclude fs 63 [] p h1), ha]
    · cases h2
  · cases h

/-- an address above 65535: ValueTypeError escapes `Program.process` (whatever the host files are) -/
theorem C13_witness_internal' (fs : Files) : assemble fs C13_witness = .internal :=
  endsInternal_sound (by decide +kernel) fs

theorem C13_witness_internal : assemble [] C13_witness = .internal := C13_witness_internal' []

theorem C13_Statement_false : ¬ C13_Statement := by
  intro h
  rcases h [] C13_witness with ⟨a, ha⟩ | ha <;> rw [C13_witness_internal] at ha <;> cases ha

/-- What holds of C13: the PCR loop and the whole assembly never run out of fuel, and parsing a line
fails only with a diagnostic.  (Known finding: `internal` outcomes are reachable, `C13_Statement_false`.) -/
theorem C13_partial :
    (∀ ss : List Stmt, pcrLoop (ss.length + 1) ss ≠ .diverged) ∧
    (∀ fs lines, assemble fs lines ≠ .diverged) ∧
    (∀ l, parseLine l ≠ .internal ∧ parseLine l ≠ .diverged) ∧
    (∀ ls, parseLines ls ≠ .internal ∧ parseLines ls ≠ .diverged) :=
  ⟨pcrLoop_not_diverged, assemble_not_diverged, parseLine_no_internal, parseLines_no_internal⟩

end CoCo.Props
