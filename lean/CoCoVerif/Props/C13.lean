/-
Props/C13.lean — every input is either accepted or rejected with a documented diagnostic.

The full property is FALSE for the model: outcomes of kind `internal` (an exception other than ParseError /
TranslationError escaping `Program.process`) exist.  History of the witnesses: an INCLUDE of a missing file
(repaired, see Props/C19.lean `include_missing_diag`); a program that runs past address 65535 (`ORG $FFFF`,
`NOP`, `NOP`; repaired by fix 0addc5e, now `C13_formerWitness_diag`).  After fixes 0addc5e, dfad397, 145359a
exactly two sources are left, and that is a theorem (`assemble_internal_only_from_expand`):
  (1) more than 64 nested INCLUDE files (the fuel of `expand`, Python: RecursionError) — `C13_deepWitness`;
  (2) a program of more than 65536 statements in which a PCR offset expression subtracts a label from a symbol
      that is neither a number nor an address: `calculate_address_offset` takes the STATEMENT INDEX of the label
      for the constant — `C13_witness` (70002 lines), `C13_witness_internal`.
What holds, and is proved here: no stage of `assemble` diverges, the line parser never fails with anything but
a diagnostic, and C13 itself for every input whose INCLUDE expansion succeeds with at most 65536 statements
(`C13_of_expand_ok`).
-/
import CoCoVerif.Lemmas.LayoutFix
import CoCoVerif.Lemmas.LayoutEval
import CoCoVerif.Props.C19
import CoCoVerif.Lemmas.NoIntFix
import CoCoVerif.Lemmas.NoIntHuge

namespace CoCo.Props
open CoCo CoCo.Asm

/-- C13 at full strength: assembly of any input ends in an image or a documented diagnostic. -/
def C13_Statement : Prop :=
  ∀ (fs : Files) (lines : List Str), (∃ a, assemble fs lines = .ok a) ∨ assemble fs lines = .diag

/-! ### termination -/

/-- the `while not all_sizes_fixed()` loop of `Program.translate` terminates: as many passes as there are
statements of undecided size (`unfixed`) suffice -/
theorem pcrLoop_not_diverged_of_fuel (fuel : Nat) (ss : List Stmt) (h : unfixed ss ≤ fuel) :
    pcrLoop fuel ss ≠ .diverged := Asm.pcrLoop_not_diverged_of_fuel fuel ss h

theorem pcrLoop_not_diverged (ss : List Stmt) : pcrLoop (ss.length + 1) ss ≠ .diverged :=
  Asm.pcrLoop_not_diverged ss

theorem assemble_not_diverged (fs : Files) (lines : List Str) : assemble fs lines ≠ .diverged :=
  Asm.assemble_not_diverged fs lines

/-- `Statement.__init__` raises nothing but ParseError -/
theorem parseLine_no_internal (l : Str) : parseLine l ≠ .internal ∧ parseLine l ≠ .diverged := by
  rcases parseLine_cases l with ⟨r, h⟩ | h <;> rw [h] <;> simp

theorem parseLines_no_internal (ls : List Str) : parseLines ls ≠ .internal ∧ parseLines ls ≠ .diverged := by
  rcases parseLines_cases ls with ⟨r, h⟩ | h <;> rw [h] <;> simp

/-! ### refutation of the full statement -/

/-- REPAIRED (fix 0addc5e; formerly `C13_witness`): `ORG $FFFF`, `NOP`, `NOP` -- the second NOP would sit at
address 65536 -- is now a diagnostic ("outside the 64K address space") -/
def C13_formerWitness : List Str := [" ORG $FFFF\n", " NOP\n", " NOP\n"].map String.toList

/-- a program without INCLUDE whose assembly (computed by `assembleFrom`) ends in `diag` -/
private def endsDiag (lines : List Str) : Bool :=
  match parseLines lines with
  | .ok p => p.all (fun s => !s.row.isInclude) &&
      (match assembleFrom p with | .diag => true | _ => false)
  | _ => false

private theorem endsDiag_sound {lines : List Str} (h : endsDiag lines = true) (fs : Files) :
    assemble fs lines = .diag := by
  unfold endsDiag at h
  split at h
  · rename_i p hp
    simp only [Bool.and_eq_true] at h
    obtain ⟨h1, h2⟩ := h
    split at h2
    · rename_i ha
      rw [assemble_eq_from hp (expand_noinclude fs 63 [] p h1), ha]
    · cases h2
  · cases h

theorem C13_formerWitness_diag (fs : Files) : assemble fs C13_formerWitness = .diag :=
  endsDiag_sound (by decide +kernel) fs

/-- witness 1: a chain of 65 nested INCLUDE files (`fsDeep` of Props/C19.lean).  The model's `expand` runs out of
its fuel of 64, which stands for Python's RecursionError escaping `Program.process`. -/
def C13_deepWitness : List Str := [deepLine 63] ++ []

theorem C13_deepWitness_internal : assemble fsDeep C13_deepWitness = .internal :=
  deep63_internal (rest := []) rfl

/-- witness 2 (FINDING, no INCLUDE involved): 70000 times ` ORG 0`, then `FAR LEAX X-FAR,PCR`, then `X EQU 1,2`.
`X` is a symbol that is neither a number nor an address, so `X-FAR` stays an address expression; the size loop
sees no constant in it and picks the 8-bit PCR form; `fix_addresses` then computes the "target" as
`address(FAR) − 70000` (the statement index of `FAR` is taken for the constant), and
`NumericValue(70000 − 0 − 3, size_hint=2)` raises a ValueTypeError that nothing catches.
(With 65538 instead of 70000 filler lines the program is still accepted, with 65539 it fails.) -/
def C13_witness : List Str := List.replicate 70000 hugeOrg ++ [hugeFar, hugeX]

/-- ... whatever the host files are -/
theorem C13_witness_internal' (fs : Files) : assemble fs C13_witness = .internal := huge_internal fs 70000 rfl

theorem C13_witness_internal : assemble [] C13_witness = .internal := C13_witness_internal' []

theorem C13_witness_length : C13_witness.length = 70002 := by
  unfold C13_witness; rw [List.length_append, List.length_replicate]; rfl

theorem C13_Statement_false : ¬ C13_Statement := by
  intro h
  rcases h [] C13_witness with ⟨a, ha⟩ | ha <;> rw [C13_witness_internal] at ha <;> cases ha

/-- the same from the deep-INCLUDE witness alone -/
theorem C13_Statement_false_deep : ¬ C13_Statement := by
  intro h
  rcases h fsDeep C13_deepWitness with ⟨a, ha⟩ | ha <;> rw [C13_deepWitness_internal] at ha <;> cases ha

/-! ### where internal errors can still come from -/

/-- **C13, the main positive result** (after fixes 0addc5e, dfad397, 145359a).  An internal error of
`Program.process` has one of two causes: the INCLUDE expansion ran out of its nesting budget (more than 64
nested files; Python: RecursionError), or the expanded program has more than 65536 statements (see
`C13_witness` above for why that bound is there).  Every other stage -- symbol table, `resolve_symbols`,
`translate`, the PCR size loop, address assignment, `fix_addresses`, the final symbol table -- ends in a
result or in a diagnostic on statements that came out of the parser. -/
theorem assemble_internal_only_from_expand (fs : Files) (lines : List Str)
    (h : assemble fs lines = .internal) :
    ∃ parsed, parseLines lines = .ok parsed ∧
      (expand fs 64 [] parsed = .internal ∨
        ∃ ss0, expand fs 64 [] parsed = .ok ss0 ∧ 65536 < ss0.length) := by
  rcases parseLines_cases lines with ⟨parsed, hp⟩ | hp
  · refine ⟨parsed, hp, ?_⟩
    rw [assemble_eq] at h
    have hf : front fs lines = expand fs 64 [] parsed := by unfold front; rw [hp]
    rw [hf] at h
    cases he : expand fs 64 [] parsed with
    | ok ss0 =>
      rw [he] at h
      dsimp only at h
      refine Or.inr ⟨ss0, rfl, ?_⟩
      rcases Nat.lt_or_ge 65536 ss0.length with hlt | hge
      · exact hlt
      · exact absurd h (back_ne_internal (expand_parsed hp he) hge)
    | diag => rw [he] at h; cases h
    | internal => exact Or.inl rfl
    | diverged => rw [he] at h; cases h
  · unfold assemble at h
    rw [hp] at h
    cases h

/-- the contrapositive, in the form "accepted or rejected with a diagnostic": C13 holds for every input whose
INCLUDE expansion succeeds with at most 65536 statements -/
theorem C13_of_expand_ok (fs : Files) (lines : List Str) (parsed ss0 : List Stmt)
    (hp : parseLines lines = .ok parsed) (he : expand fs 64 [] parsed = .ok ss0) (hN : ss0.length ≤ 65536) :
    (∃ a, assemble fs lines = .ok a) ∨ assemble fs lines = .diag := by
  cases h : assemble fs lines with
  | ok a => exact Or.inl ⟨a, rfl⟩
  | diag => exact Or.inr rfl
  | internal =>
    obtain ⟨p', hp', h'⟩ := assemble_internal_only_from_expand fs lines h
    rw [hp] at hp'; cases hp'
    rcases h' with h' | ⟨ss0', h', hlt⟩
    · rw [he] at h'; cases h'
    · rw [he] at h'; cases h'; omega
  | diverged => exact absurd h (assemble_not_diverged fs lines)

/-- without INCLUDE statements (so whatever the host files are) and with at most 65536 lines: C13 holds -/
theorem C13_no_include (fs : Files) (lines : List Str) (parsed : List Stmt)
    (hp : parseLines lines = .ok parsed) (hni : parsed.all (fun s => !s.row.isInclude) = true)
    (hN : parsed.length ≤ 65536) :
    (∃ a, assemble fs lines = .ok a) ∨ assemble fs lines = .diag :=
  C13_of_expand_ok fs lines parsed parsed hp (expand_noinclude fs 63 [] parsed hni) hN

theorem parseLines_length_le : ∀ (ls : List Str) (r : List Stmt), parseLines ls = .ok r → r.length ≤ ls.length := by
  intro ls
  induction ls with
  | nil => intro r h; simp [parseLines] at h; subst h; simp
  | cons l rest ih =>
    intro r h
    unfold parseLines at h
    split at h
    · have := ih r h; simp only [List.length_cons]; omega
    · cases hr : parseLines rest with
      | ok r2 =>
        rw [hr] at h; simp only [Outcome.ok.injEq] at h; subst h
        have := ih r2 hr; simp only [List.length_cons]; omega
      | _ => rw [hr] at h; cases h
    · cases h
    · cases h
    · cases h

/-- C13 for every program of at most 65536 lines without an INCLUDE statement -/
theorem C13_short_program (fs : Files) (lines : List Str) (parsed : List Stmt)
    (hp : parseLines lines = .ok parsed) (hni : parsed.all (fun s => !s.row.isInclude) = true)
    (hN : lines.length ≤ 65536) :
    (∃ a, assemble fs lines = .ok a) ∨ assemble fs lines = .diag :=
  C13_no_include fs lines parsed hp hni (Nat.le_trans (parseLines_length_le lines parsed hp) hN)

/-- What holds of C13.  (1)-(4): the PCR loop and the whole assembly never run out of fuel, and parsing fails
only with a diagnostic.  (5): an internal error comes from the nesting budget of INCLUDE or needs more than 65536
statements.  (6): C13 itself whenever the INCLUDE expansion succeeds with at most 65536 statements.
(Findings: `internal` outcomes are reachable in both ways, `C13_deepWitness_internal`, `C13_witness_internal`;
hence `C13_Statement_false`.) -/
theorem C13_partial :
    (∀ ss : List Stmt, pcrLoop (ss.length + 1) ss ≠ .diverged) ∧
    (∀ fs lines, assemble fs lines ≠ .diverged) ∧
    (∀ l, parseLine l ≠ .internal ∧ parseLine l ≠ .diverged) ∧
    (∀ ls, parseLines ls ≠ .internal ∧ parseLines ls ≠ .diverged) ∧
    (∀ fs lines, assemble fs lines = .internal →
      ∃ parsed, parseLines lines = .ok parsed ∧
        (expand fs 64 [] parsed = .internal ∨ ∃ ss0, expand fs 64 [] parsed = .ok ss0 ∧ 65536 < ss0.length)) ∧
    (∀ fs lines parsed ss0, parseLines lines = .ok parsed → expand fs 64 [] parsed = .ok ss0 →
      ss0.length ≤ 65536 → (∃ a, assemble fs lines = .ok a) ∨ assemble fs lines = .diag) :=
  ⟨pcrLoop_not_diverged, assemble_not_diverged, parseLine_no_internal, parseLines_no_internal,
   assemble_internal_only_from_expand, C13_of_expand_ok⟩

end CoCo.Props
