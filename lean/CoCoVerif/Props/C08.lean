/-
Props/C08.lean — every image the tool writes is a structurally valid Disk BASIC filesystem and the
reference reader finds exactly the stored files on it.
-/
import CoCoVerif.Props.DiskDefs
import CoCoVerif.Lemmas.DiskFsck

namespace CoCo.Props
open CoCo CoCo.Dsk

theorem C08_full : C08_Statement := by
  intro order fs img ho hv hres
  obtain ⟨abs, hinv, hfs⟩ := Inv.write ho hv hres
  refine ⟨hinv.fsck, ?_⟩
  rw [hinv.read_eq, ← hfs, List.map_map]
  rfl

end CoCo.Props
