/-
Props/C18.lean — metamorphic invariances of the assembler.

R1 relocation (stated only), R2 label renaming (stated only), R3 reformatting (proved),
R4 appending statements (proved in full, `C18_R4`; the PCR size loop is handled by a stuttering
simulation, Lemmas/FrontPcr.lean).
Helpers are in Lemmas/FrontScan.lean, FrontAppend.lean, FrontFix.lean, FrontBranch.lean, FrontPcr.lean.
-/
import CoCoVerif.Lemmas.FrontScan
import CoCoVerif.Lemmas.FrontAppend
import CoCoVerif.Lemmas.FrontBranch
import CoCoVerif.Lemmas.FrontPcr

namespace CoCo.Props
open CoCo CoCo.Asm

/-! ## R3 reformatting -/

/-- the fields of a source line in canonical form:
`lab w1 mn w2 ops w3 semis c \n` -/
structure LineParts where
  lab : Str
  w1 : Str
  mn : Str
  w2 : Str
  ops : Str
  w3 : Str
  semis : Str
  c : Str
deriving Repr

def LineParts.render (p : LineParts) : Str :=
  p.lab ++ p.w1 ++ p.mn ++ p.w2 ++ p.ops ++ p.w3 ++ p.semis ++ p.c ++ ['\n']

/-- Well-formedness (all conditions are Boolean so that concrete lines are checked by `decide`).
`sep` is the exact condition under which the comment is not swallowed by the operand field: there is a
semicolon, or there is a nonempty operand field followed by white space, or the comment does not begin
with an operand character (in particular when there is no comment).  White space may be any of the six
ASCII white-space characters; the lemma does not even need `\n` to be excluded from `w1 w2 w3`. -/
structure LineParts.WF (p : LineParts) : Prop where
  lab : p.lab.all isLabelCh = true
  mn_ne : p.mn ≠ []
  mn : p.mn.all isWord = true
  ops : p.ops.all isOperandCh = true
  w1_ne : p.w1 ≠ []
  w1 : p.w1.all isSpace = true
  w2_ne : p.w2 ≠ []
  w2 : p.w2.all isSpace = true
  w3 : p.w3.all isSpace = true
  semis : p.semis.all (· == ';') = true
  c_nl : p.c.all (· != '\n') = true
  c_head : p.c.head?.all (fun x => !isSpace x && x != ';') = true
  sep : p.semis ≠ [] ∨ (p.ops ≠ [] ∧ p.w3 ≠ []) ∨ p.c.head?.all (fun x => !isOperandCh x) = true

theorem head_all {c : Str} {q : Char → Bool} (h : c.head?.all q = true) : ∀ x ∈ c.head?, q x = true := by
  intro x hx
  cases c with
  | nil => simp at hx
  | cons y ys => simp at hx; subst hx; simpa using h

theorem LineParts.WF.commentText {p : LineParts} (h : p.WF) : CommentText p.c := by
  refine ⟨by simpa using h.c_nl, fun x hx => ?_⟩
  simpa using head_all h.c_head x hx

/-- The canonical-form lemma: the scanner recovers the four fields. -/
theorem scanLine_render {p : LineParts} (h : p.WF) : scanLine p.render = .asm p.lab p.mn p.ops p.c := by
  apply scanLine_canonical (List.all_eq_true.mp h.lab) h.mn_ne (List.all_eq_true.mp h.mn)
    (List.all_eq_true.mp h.ops) h.w1_ne (List.all_eq_true.mp h.w1) h.w2_ne (List.all_eq_true.mp h.w2)
    (List.all_eq_true.mp h.w3) (List.all_eq_true.mp h.semis) h.commentText
  rcases h.sep with h1 | h1 | h1
  · exact .inl h1
  · exact .inr (.inl h1)
  · exact .inr (.inr (fun x hx => by simpa using head_all h1 x hx))

/-- C18-R3: (i) the scan result does not depend on the white space `w1 w2 w3` nor on the number of
semicolons; (ii) for a mnemonic that is not a string definition (FCC), two lines that differ only in
white space, semicolons, comment text and letter case of the mnemonic are both rejected, or parse to
statements that agree outside the `comment` field (and the `comment` fields are the stripped comments). -/
def C18_R3_Statement : Prop :=
  (∀ p : LineParts, p.WF → scanLine p.render = .asm p.lab p.mn p.ops p.c) ∧
  (∀ p q : LineParts, p.WF → q.WF → p.lab = q.lab → p.mn.map upperC = q.mn.map upperC → p.ops = q.ops →
    (∀ row, findRow (p.mn.map upperC) = some row → row.isStringDefine = false) →
    (parseLine p.render = .diag ∧ parseLine q.render = .diag) ∨
    ∃ s t, parseLine p.render = .ok (some s) ∧ parseLine q.render = .ok (some t) ∧
      s.eraseComment = t.eraseComment ∧ s.comment = strip p.c ∧ t.comment = strip q.c)

theorem C18_R3 : C18_R3_Statement := by
  refine ⟨fun p h => scanLine_render h, ?_⟩
  intro p q hp hq hlab hmn hops hrow
  have h1 := scanLine_render hp
  have h2 := scanLine_render hq
  rw [← hlab, ← hops] at h2
  exact parseLine_reformat h1 h2 hmn hrow

/-- corollary (i) in the "two lines" form -/
theorem scanLine_reformat {p q : LineParts} (hp : p.WF) (hq : q.WF)
    (h : p.lab = q.lab ∧ p.mn = q.mn ∧ p.ops = q.ops ∧ p.c = q.c) : scanLine p.render = scanLine q.render := by
  rw [scanLine_render hp, scanLine_render hq, h.1, h.2.1, h.2.2.1, h.2.2.2]

/-! ### non-vacuity of R3 -/

def lineP : LineParts :=
  { lab := "LOOP".toList, w1 := " ".toList, mn := "LDA".toList, w2 := " ".toList, ops := "#$10".toList,
    w3 := " ".toList, semis := ";".toList, c := "load".toList }
def lineQ : LineParts :=
  { lab := "LOOP".toList, w1 := "\t\t".toList, mn := "lda".toList, w2 := "   ".toList, ops := "#$10".toList,
    w3 := [], semis := [], c := [] }

example : lineP.render = "LOOP LDA #$10 ;load\n".toList := by decide
example : lineQ.render = "LOOP\t\tlda   #$10\n".toList := by decide

theorem lineP_wf : lineP.WF := by
  constructor <;> decide
theorem lineQ_wf : lineQ.WF := by
  constructor <;> decide

set_option maxRecDepth 100000 in
example : ∃ s t, parseLine lineP.render = .ok (some s) ∧ parseLine lineQ.render = .ok (some t) ∧
    s.eraseComment = t.eraseComment := by
  have hrow : ∀ row, findRow (lineP.mn.map upperC) = some row → row.isStringDefine = false := by
    decide
  rcases C18_R3.2 lineP lineQ lineP_wf lineQ_wf rfl (by decide) rfl hrow with h | ⟨s, t, h1, h2, h3, _⟩
  · exfalso
    have : (match parseLine lineP.render with | .diag => false | _ => true) = true := by decide
    rw [h.1] at this; cases this
  · exact ⟨s, t, h1, h2, h3⟩

/-- the side condition `sep` is needed: without a semicolon the text after an empty operand field is
taken for the operand -/
example : scanLine "L NOP hello\n".toList = .asm "L".toList "NOP".toList "hello".toList [] := by rfl

/-! ## R4 appending statements -/

/-- C18-R4 at full strength: whenever a program and an extension of it (more lines at the end) both
assemble, the statements of the shorter program (sizes, addresses, code) are the first statements of
the longer one, the final symbol table of the longer one extends that of the shorter one, and the
binary image of the shorter one is a prefix of the image of the longer one. -/
def C18_R4_Statement : Prop :=
  ∀ (fs : Files) (ls ext : List Str) (A B : Assembly),
    assemble fs ls = .ok A → assemble fs (ls ++ ext) = .ok B →
    (∃ r, B.stmts = A.stmts ++ r) ∧ (∃ d, B.symtab = A.symtab ++ d) ∧
    (∀ ib, B.image = some ib → ∃ ia rest, A.image = some ia ∧ ib = ia ++ rest)

/-- the program has no statement whose size is decided by the PCR loop
(`determine_pcr_relative_sizes`): after `translate` every statement has a fixed size -/
def NoPcrProgram (fs : Files) (lines : List Str) : Prop :=
  ∀ p ss0 t ss1 ss2, parseLines lines = .ok p → expand fs (includeFuel fs) [] p = .ok ss0 →
    buildSymTab ss0 0 [] = some t → resolveAll t ss0 = some ss1 → translateAll ss1 = some ss2 →
    allFixed ss2 = true

/-- C18-R4 holds as stated (PCR-sized statements included) -/
theorem C18_R4 : C18_R4_Statement :=
  fun _ _ _ _ _ hA hB => assemble_prefix_gen hA hB

/-- the earlier, weaker form: the conclusion for extended programs without PCR-sized statements
(proved independently of the PCR simulation, kept as a cross-check) -/
def C18_R4_Partial : Prop :=
  ∀ (fs : Files) (ls ext : List Str) (A B : Assembly),
    assemble fs ls = .ok A → assemble fs (ls ++ ext) = .ok B → NoPcrProgram fs (ls ++ ext) →
    (∃ r, B.stmts = A.stmts ++ r) ∧ (∃ d, B.symtab = A.symtab ++ d) ∧
    (∀ ib, B.image = some ib → ∃ ia rest, A.image = some ia ∧ ib = ia ++ rest)

theorem C18_R4_partial : C18_R4_Partial := by
  intro fs ls ext A B hA hB hn
  refine assemble_prefix hA hB ?_
  intro r hr t ss1 ss2 h0 h1 h2
  unfold front at hr
  cases hp : parseLines (ls ++ ext) with
  | ok p => rw [hp] at hr; exact hn p r t ss1 ss2 hp hr h0 h1 h2
  | _ => rw [hp] at hr; cases hr

/-- the stage-wise facts behind R4 that hold for every program (PCR or not).
Batch 4: the last fact (symbol resolution is monotone in the table) still holds although `resolve` now follows chains
of EQUs with the length of the table as fuel: a chain that can be evaluated has no cycle (`resolveF_depth`). -/
theorem C18_R4_stages :
    (∀ (ls ext : List Str) (r' : List Stmt), parseLines (ls ++ ext) = .ok r' →
      ∃ r rx, parseLines ls = .ok r ∧ parseLines ext = .ok rx ∧ r' = r ++ rx) ∧
    (∀ (fs : Files) (ls ext : List Str) (r' : List Stmt), front fs (ls ++ ext) = .ok r' →
      ∃ r rx, front fs ls = .ok r ∧ front fs ext = .ok rx ∧ r' = r ++ rx) ∧
    (∀ (a b : List Stmt) (t2 : SymTab), buildSymTab (a ++ b) 0 [] = some t2 →
      ∃ t1 d, buildSymTab a 0 [] = some t1 ∧ t2 = t1 ++ d ∧ SymTab.Le t1 t2) ∧
    (∀ (t t' : SymTab) (a r : List Stmt), SymTab.Le t t' → resolveAll t a = some r → resolveAll t' a = some r) :=
  ⟨fun _ _ _ h => parseLines_append_ok h, fun _ _ _ _ h => front_append_ok h,
   fun _ _ _ h => buildSymTab_append_le h, fun _ _ _ _ hle h => resolveAll_mono hle h⟩

/-! ### non-vacuity of R4 -/

/-- executable check: the lines parse, there is no INCLUDE, and the back end succeeds -/
def okPlainB (ls : List Str) : Bool :=
  match parseLines ls with
  | .ok p => p.all (fun s => !s.row.isInclude) && (back p).isOk
  | _ => false

theorem assemble_of_okPlainB {fs : Files} {ls : List Str} (h : okPlainB ls = true) :
    ∃ A, assemble fs ls = .ok A := by
  unfold okPlainB at h
  split at h
  · rename_i p hp
    simp only [Bool.and_eq_true, List.all_eq_true, Bool.not_eq_true'] at h
    rw [assemble_eq, front_plain hp h.1]
    cases hb : back p with
    | ok A => exact ⟨A, by simp only [hb]⟩
    | _ => rw [hb] at h; simp [Outcome.isOk] at h
  · cases h

/-- executable check of `NoPcrProgram` for INCLUDE-free programs -/
def noPcrB (ls : List Str) : Bool :=
  match parseLines ls with
  | .ok p =>
    p.all (fun s => !s.row.isInclude) &&
    (match buildSymTab p 0 [] with
     | some t =>
       (match resolveAll t p with
        | some s1 => (match translateAll s1 with | some s2 => allFixed s2 | none => true)
        | none => true)
     | none => true)
  | _ => true

theorem noPcrProgram_of_check {fs : Files} {ls : List Str} (h : noPcrB ls = true) : NoPcrProgram fs ls := by
  intro p ss0 t ss1 ss2 hp he h0 h1 h2
  unfold noPcrB at h
  rw [hp] at h
  simp only [Bool.and_eq_true, List.all_eq_true, Bool.not_eq_true'] at h
  have hpl := expand_plain fs fs.length [] p h.1
  rw [show fs.length + 1 = includeFuel fs from rfl, he] at hpl
  cases hpl
  have h3 := h.2
  rw [h0] at h3; dsimp only at h3
  rw [h1] at h3; dsimp only at h3
  rw [h2] at h3; exact h3

def progA : List Str := [" ORG $1000\n".toList, "START LDA #$10\n".toList, " BRA START\n".toList]
def extB : List Str := ["DATA FCB $01\n".toList, " LDX DATA\n".toList, " JMP START\n".toList]

set_option maxRecDepth 1000000 in
theorem progA_ok : okPlainB progA = true := by decide
set_option maxRecDepth 1000000 in
theorem progAB_ok : okPlainB (progA ++ extB) = true := by decide
set_option maxRecDepth 1000000 in
theorem progAB_noPcr : noPcrB (progA ++ extB) = true := by decide

/-- the hypotheses of `C18_R4_partial` are satisfiable -/
example : ∃ A B, assemble [] progA = .ok A ∧ assemble [] (progA ++ extB) = .ok B ∧
    NoPcrProgram [] (progA ++ extB) ∧ ∃ r, B.stmts = A.stmts ++ r := by
  obtain ⟨A, hA⟩ := assemble_of_okPlainB (fs := []) progA_ok
  obtain ⟨B, hB⟩ := assemble_of_okPlainB (fs := []) progAB_ok
  have hn := noPcrProgram_of_check (fs := []) progAB_noPcr
  exact ⟨A, B, hA, hB, hn, (C18_R4_partial [] progA extB A B hA hB hn).1⟩

/-- a prefix with PCR-sized statements (two `LEAX label,PCR`, one backward and one forward) -/
def progP : List Str :=
  [" ORG $2000\n".toList, "P1 LEAX P2,PCR\n".toList, " NOP\n".toList, "P2 LEAY P1,PCR\n".toList]
def extP : List Str := [" LEAU P1,PCR\n".toList, "P3 RTS\n".toList]

set_option maxRecDepth 1000000 in
theorem progP_ok : okPlainB progP = true := by decide
set_option maxRecDepth 1000000 in
theorem progPP_ok : okPlainB (progP ++ extP) = true := by decide
set_option maxRecDepth 1000000 in
theorem progP_pcr : noPcrB progP = false := by decide

/-- `C18_R4` applied to a program that does go through the PCR size loop -/
example : ∃ A B, assemble [] progP = .ok A ∧ assemble [] (progP ++ extP) = .ok B ∧
    ∃ r, B.stmts = A.stmts ++ r := by
  obtain ⟨A, hA⟩ := assemble_of_okPlainB (fs := []) progP_ok
  obtain ⟨B, hB⟩ := assemble_of_okPlainB (fs := []) progPP_ok
  exact ⟨A, B, hA, hB, (C18_R4 [] progP extP A B hA hB).1⟩

/-! ## R1 relocation and R2 renaming (first formalisation; R1 is PROVED in `Props/C18Reloc*.lean`, R2 partly in
`Props/C18Rename.lean`)

`C18_R1_Statement` below is the first formalisation. It is too loose in one place that has nothing to do with
the assembler: `orgLine lab n` accepts ANY string as `lab`, and `lab = "X NOP ;"` turns the line into a NOP with a
comment (`C18_R1_Statement_false` in `Props/C18RelocText.lean`). `C18_R1_Repaired` there adds `lab.all isLabelCh`
and `n < 65536` for the first line and is proved (`C18_R1`); `C18_R1_code` gives the byte-level half (identical
bytes, or the 16-bit field of an absolute own-label reference moved by exactly `D`). -/

/-- an ORG line in a fixed layout -/
def orgLine (lab : Str) (n : Nat) : Str := lab ++ " ORG $".toList ++ fmtHex 4 n ++ ['\n']

/-- `lb` is `la` with the operand of every ORG line shifted by `D`; other lines are neither ORG nor
INCLUDE and are unchanged -/
def ShiftOrg (D : Nat) (la lb : List Str) : Prop :=
  la.length = lb.length ∧ ∀ (i : Nat) (x y : Str), la[i]? = some x → lb[i]? = some y →
    (x = y ∧ ∀ s, parseLine x = .ok (some s) → s.row.isOrigin = false ∧ s.row.isInclude = false) ∨
    (∃ lab n, x = orgLine lab n ∧ y = orgLine lab (n + D) ∧ n + D < 65536)

/-- C18-R1: shifting every ORG operand by `D` (in a program that starts with an ORG) shifts every
statement address by `D` -/
def C18_R1_Statement : Prop :=
  ∀ (fs : Files) (la lb : List Str) (D : Nat) (A B : Assembly),
    ShiftOrg D la lb → (∃ lab n rest, la = orgLine lab n :: rest) →
    assemble fs la = .ok A → assemble fs lb = .ok B →
    A.stmts.length = B.stmts.length ∧
    ∀ (i : Nat) (s t : Stmt) (n : Nat), A.stmts[i]? = some s → B.stmts[i]? = some t →
      s.pkg.address.int? = some n → t.pkg.address.int? = some (n + D)

/-- renaming inside values: symbols and the left part of an indexed operand -/
def renameValue (ρ : Str → Str) : Value → Value
  | .symbol n m => .symbol (ρ n) m
  | .expr l r op m a => .expr (renameValue ρ l) (renameValue ρ r) op m a
  | .leftRight l r m => .leftRight (ρ l) r m
  | v => v

def renameSide (ρ : Str → Str) : Side → Side
  | .text l => .text (ρ l)
  | x => x

/-- statement `t` is statement `s` with labels renamed by `ρ` -/
def RenamedStmt (ρ : Str → Str) (s t : Stmt) : Prop :=
  t.label = (if s.label = [] then [] else ρ s.label) ∧ t.row = s.row ∧
  t.operand.kind = s.operand.kind ∧ t.operand.value = renameValue ρ s.operand.value ∧
  t.operand.left = renameSide ρ s.operand.left ∧ t.operand.right = s.operand.right

/-- C18-R2: renaming the labels of an INCLUDE-free program injectively (to names that are neither
registers nor otherwise used, `ρ` being the identity on strings that are not labels of the program)
changes neither addresses nor code, and the symbol table is renamed accordingly -/
def C18_R2_Statement : Prop :=
  ∀ (ρ : Str → Str) (la lb : List Str) (pa pb : List Stmt) (A B : Assembly),
    parseLines la = .ok pa → parseLines lb = .ok pb → (∀ s ∈ pa, s.row.isInclude = false) →
    pa.length = pb.length → (∀ (i : Nat) (s t : Stmt), pa[i]? = some s → pb[i]? = some t → RenamedStmt ρ s t) →
    (∀ x y, ρ x = ρ y → x = y) →
    (∀ x, (∀ s ∈ pa, s.label ≠ x) → ρ x = x) →
    (∀ s ∈ pa, s.label ≠ [] → ρ s.label ≠ [] ∧ (ρ s.label).all isSym = true ∧ isReg (ρ s.label) = false ∧
      isReg s.label = false) →
    assemble [] la = .ok A → assemble [] lb = .ok B →
    A.image = B.image ∧
    A.stmts.map (·.pkg.address) = B.stmts.map (·.pkg.address) ∧
    B.symtab = A.symtab.map (fun kv => (ρ kv.1, kv.2))

/-! ## C18 -/

def C18_Statement : Prop :=
  C18_R1_Statement ∧ C18_R2_Statement ∧ C18_R3_Statement ∧ C18_R4_Statement

/-- what is proved of C18 in this file: R3 and R4 in full (R1: `Props/C18RelocText.lean`; R2 partial: `Props/C18Rename.lean`) -/
theorem C18_partial : C18_R3_Statement ∧ C18_R4_Statement := ⟨C18_R3, C18_R4⟩

end CoCo.Props
