/-
Props/C11.lean — the saved image holds the assembled program, at its origin, under its name.
Independent of whether the assembly itself is correct: `a` is whatever `Asm.assemble` accepted.
-/
import CoCoVerif.Lemmas.VFAsm
import CoCoVerif.Lemmas.VFDsk
import CoCoVerif.Props.C08

namespace CoCo.Props
open CoCo CoCo.VF

/-- the file `assembler.main` hands to the containers: machine language, extension `bin`, the name from the
source (`NAM`) or else from `--name`, load = exec = the origin's address, data = the assembled image -/
def asmFile (a : Asm.Assembly) (nm : Option (List Char)) (img : Bytes) : CFile :=
  { name := chars (asmName a nm), ext := chars "bin".toList, ftype := 2, dtype := 0, gaps := 0,
    load := originAddr a.origin, exec := originAddr a.origin, data := img }

def AsciiStr (s : List Char) : Prop := ∀ c ∈ s, c.toNat < 128

/-- **C11** at full strength: for every accepted program, fresh target `p`, ASCII program name:
`--to_bin` writes exactly the image; `--to_cas` writes a well-formed tape holding exactly the file;
`--to_dsk` (when not refused) writes a consistent Disk BASIC image holding exactly the file; without a name no
cassette / disk file is made; a four-digit `ORG` is the load and exec address. -/
def C11_Statement : Prop :=
  ∀ (fs : FS) (incl : Asm.Files) (lines : List (List Char)) (a : Asm.Assembly) (nm : Option (List Char))
    (ap : Bool) (p : Path) (img : Bytes),
    Asm.assemble incl lines = .ok a → a.image = some img → fs.get? p = none → AsciiStr (asmName a nm) →
    (let r := asmMain fs incl lines { toBin := some p, name := nm, append := ap }
     r.exit = 0 ∧ r.fs.get? p = some img ∧ ∀ q, q ≠ p → r.fs.get? q = fs.get? q) ∧
    (asmName a nm ≠ [] →
      let r := asmMain fs incl lines { toCas := some p, name := nm, append := ap }
      r.exit = 0 ∧ (∀ q, q ≠ p → r.fs.get? q = fs.get? q) ∧
      ∃ b, r.fs.get? p = some b ∧ Spec.Tape.WellFormed [toTape (asmFile a nm img)] b) ∧
    (asmName a nm ≠ [] →
      let r := asmMain fs incl lines { toDsk := some p, name := nm, append := ap }
      r.exit = 0 ∧ (∀ q, q ≠ p → r.fs.get? q = fs.get? q) ∧
      (r.refused = [] → ∃ b, r.fs.get? p = some b ∧ Spec.DiskBasic.Fsck b ∧
        Spec.DiskBasic.read b = some [toDFile (asmFile a nm img)])) ∧
    (asmName a nm = [] → ∀ args : AsmArgs, args.name = nm → args.toBin = none →
      (asmMain fs incl lines args).fs = fs) ∧
    (∀ v m, v < 65536 → a.origin = .numeric v (some 4) m false → (asmFile a nm img).load = v)

/-! ### the file -/

theorem coco_eq {a : Asm.Assembly} {nm : Option (List Char)} {cf : CFile}
    (h : cocoOfAssembly a nm = some cf) : ∃ img, a.image = some img ∧ cf = asmFile a nm img :=
  cocoOfAssembly_some h

theorem coco_of_image {a : Asm.Assembly} {nm : Option (List Char)} {img : Bytes} (h : a.image = some img) :
    cocoOfAssembly a nm = some (asmFile a nm img) := by
  unfold cocoOfAssembly
  simp only [h]
  rfl

/-- data, type, addresses and name of the file -/
theorem C11_file {a : Asm.Assembly} {nm : Option (List Char)} {cf : CFile}
    (h : cocoOfAssembly a nm = some cf) :
    a.image = some cf.data ∧ cf.ftype = 2 ∧ cf.dtype = 0 ∧ cf.load = cf.exec ∧ cf.load = originAddr a.origin ∧
    cf.ext = [98, 105, 110] ∧
    cf.name = chars (match a.name with
                     | some n => if n.isEmpty then nm.getD [] else n
                     | none => nm.getD []) := by
  obtain ⟨img, hi, rfl⟩ := coco_eq h
  exact ⟨hi, rfl, rfl, rfl, rfl, rfl, rfl⟩

theorem C11_name_source {a : Asm.Assembly} {nm : Option (List Char)} {cf : CFile} {n : List Char}
    (h : cocoOfAssembly a nm = some cf) (hn : a.name = some n) (hne : n ≠ []) : cf.name = chars n := by
  obtain ⟨img, _, rfl⟩ := coco_eq h
  cases n with
  | nil => exact absurd rfl hne
  | cons c t => simp [asmFile, asmName, hn]

theorem C11_name_arg {a : Asm.Assembly} {nm : Option (List Char)} {cf : CFile}
    (h : cocoOfAssembly a nm = some cf) (hn : a.name = none ∨ a.name = some []) :
    cf.name = chars (nm.getD []) := by
  obtain ⟨img, _, rfl⟩ := coco_eq h
  rcases hn with hn | hn <;> simp [asmFile, asmName, hn]

/-- `ORG $xxxx`: load = exec = that address -/
theorem C11_load_org {a : Asm.Assembly} {nm : Option (List Char)} {cf : CFile} {v : Nat} {m : Asm.Mode}
    (h : cocoOfAssembly a nm = some cf) (ho : a.origin = .numeric v (some 4) m false) (hv : v < 65536) :
    cf.load = v ∧ cf.exec = v := by
  obtain ⟨img, _, rfl⟩ := coco_eq h
  simp [asmFile, ho, originAddr_numeric4 v m hv]

/-- `ORG $xx` (two hex digits) and decimal `ORG n`: load = exec = that address -/
theorem C11_load_org_other {a : Asm.Assembly} {nm : Option (List Char)} {cf : CFile} {v : Nat} {m : Asm.Mode}
    (h : cocoOfAssembly a nm = some cf)
    (ho : (a.origin = .numeric v (some 2) m false ∧ v < 256) ∨ (a.origin = .numeric v none m false ∧ v < 65536)) :
    cf.load = v ∧ cf.exec = v := by
  obtain ⟨img, _, rfl⟩ := coco_eq h
  rcases ho with ⟨ho, hv⟩ | ⟨ho, hv⟩
  · simp [asmFile, ho, originAddr_numeric2 v m hv]
  · simp [asmFile, ho, originAddr_numericNone v m hv]

/-- no `ORG`: load = exec = 0 -/
theorem C11_load_none {a : Asm.Assembly} {nm : Option (List Char)} {cf : CFile}
    (h : cocoOfAssembly a nm = some cf) (ho : a.origin = .none) : cf.load = 0 ∧ cf.exec = 0 := by
  obtain ⟨img, _, rfl⟩ := coco_eq h
  simp [asmFile, ho, originAddr_none]

theorem name_isEmpty_false {cf : CFile} (h : cf.name ≠ []) : cf.name.isEmpty = false := by
  cases hn : cf.name with
  | nil => exact absurd hn h
  | cons _ _ => rfl

/-! ### the three switches, one at a time, on a fresh target -/

/-- `--to_bin`: the raw binary is byte for byte the assembled image -/
theorem C11_bin (fs : FS) (incl : Asm.Files) (lines : List (List Char)) (a : Asm.Assembly)
    (nm : Option (List Char)) (ap : Bool) (p : Path) (cf : CFile)
    (ha : Asm.assemble incl lines = .ok a) (hc : cocoOfAssembly a nm = some cf) (hf : fs.get? p = none) :
    let r := asmMain fs incl lines { toBin := some p, name := nm, append := ap }
    r.fs.get? p = a.image ∧ r.exit = 0 ∧ r.refused = [] ∧ ∀ q, q ≠ p → r.fs.get? q = fs.get? q := by
  have hb : buildImage .binary [cf] = .ok cf.data := by simp [buildImage]
  have hstep := asmStep_fresh cf ap (fs, []) p .binary cf.data hf hb
  intro r
  have hr : r = { exit := 0, fs := fs.set p cf.data, refused := [] } := by
    show asmMain fs incl lines { toBin := some p, name := nm, append := ap } = _
    rw [asmMain_ok ha hc]
    simp [hstep, asmStep_none]
  rw [hr]
  exact ⟨by rw [FS.get?_set_same, (C11_file hc).1], rfl, rfl, fun q hq => FS.get?_set_other _ _ _ _ hq⟩

/-- `--to_cas` with a name: the file at `p` is the cassette written from the one file -/
theorem C11_cas_written (fs : FS) (incl : Asm.Files) (lines : List (List Char)) (a : Asm.Assembly)
    (nm : Option (List Char)) (ap : Bool) (p : Path) (cf : CFile)
    (ha : Asm.assemble incl lines = .ok a) (hc : cocoOfAssembly a nm = some cf) (hf : fs.get? p = none)
    (hname : cf.name ≠ []) :
    let r := asmMain fs incl lines { toCas := some p, name := nm, append := ap }
    r.fs.get? p = some (Cas.write [cf]) ∧ r.exit = 0 ∧ r.refused = [] ∧
      ∀ q, q ≠ p → r.fs.get? q = fs.get? q := by
  have hstep := asmStep_fresh cf ap (fs, []) p .cassette (Cas.write [cf]) hf rfl
  intro r
  have hr : r = { exit := 0, fs := fs.set p (Cas.write [cf]), refused := [] } := by
    show asmMain fs incl lines { toCas := some p, name := nm, append := ap } = _
    rw [asmMain_ok ha hc]
    simp [hstep, asmStep_none, name_isEmpty_false hname]
  rw [hr]
  exact ⟨FS.get?_set_same _ _ _, rfl, rfl, fun q hq => FS.get?_set_other _ _ _ _ hq⟩

/-- … it is a well-formed tape holding exactly that file (C14), and the tool lists it back (C06; E1 excluded) -/
theorem C11_cas (fs : FS) (incl : Asm.Files) (lines : List (List Char)) (a : Asm.Assembly)
    (nm : Option (List Char)) (ap : Bool) (p : Path) (cf : CFile)
    (ha : Asm.assemble incl lines = .ok a) (hc : cocoOfAssembly a nm = some cf) (hf : fs.get? p = none)
    (hname : cf.name ≠ []) (hv : ValidFile cf) :
    let r := asmMain fs incl lines { toCas := some p, name := nm, append := ap }
    r.fs.get? p = some (Cas.write [cf]) ∧ r.exit = 0 ∧
    Spec.Tape.WellFormed [toTape cf] (Cas.write [cf]) ∧
    (AsciiName cf.name → K_C06_emptyData cf.data = false → Cas.list (Cas.write [cf]) = .ok [Cas.norm cf]) ∧
    a.image = some cf.data ∧ cf.ftype = 2 ∧ cf.load = cf.exec := by
  obtain ⟨h1, h2, _, _⟩ := C11_cas_written fs incl lines a nm ap p cf ha hc hf hname
  obtain ⟨hi, ht, _, hl, _⟩ := C11_file hc
  have hvs : ∀ f ∈ [cf], ValidFile f := by intro f hf; simp at hf; subst hf; exact hv
  refine ⟨h1, h2, (C14_full [cf] hvs).1, ?_, hi, ht, hl⟩
  intro hn hK
  exact C06_roundtrip_partial [cf] (by intro f hf; simp at hf; subst hf; exact hn) hvs
    (by intro f hf; simp at hf; subst hf; exact hK)

/-- `--to_dsk` with a name, the disk writer succeeding: the file at `p` is that image -/
theorem C11_dsk_written (fs : FS) (incl : Asm.Files) (lines : List (List Char)) (a : Asm.Assembly)
    (nm : Option (List Char)) (ap : Bool) (p : Path) (cf : CFile) (img : Bytes)
    (ha : Asm.assemble incl lines = .ok a) (hc : cocoOfAssembly a nm = some cf) (hf : fs.get? p = none)
    (hname : cf.name ≠ []) (hw : Dsk.write Gen.granuleFillOrder [cf] = .ok img) :
    let r := asmMain fs incl lines { toDsk := some p, name := nm, append := ap }
    r.fs.get? p = some img ∧ r.exit = 0 ∧ r.refused = [] ∧ ∀ q, q ≠ p → r.fs.get? q = fs.get? q := by
  have hstep := asmStep_fresh cf ap (fs, []) p .disk img hf (by simpa [buildImage] using hw)
  intro r
  have hr : r = { exit := 0, fs := fs.set p img, refused := [] } := by
    show asmMain fs incl lines { toDsk := some p, name := nm, append := ap } = _
    rw [asmMain_ok ha hc]
    simp [hstep, asmStep_none, name_isEmpty_false hname]
  rw [hr]
  exact ⟨FS.get?_set_same _ _ _, rfl, rfl, fun q hq => FS.get?_set_other _ _ _ _ hq⟩

/-- … it is a consistent Disk BASIC image on which the reference reader finds exactly the file (C08) and the
tool lists it back (C07) -/
theorem C11_dsk (fs : FS) (incl : Asm.Files) (lines : List (List Char)) (a : Asm.Assembly)
    (nm : Option (List Char)) (ap : Bool) (p : Path) (cf : CFile) (img : Bytes)
    (ha : Asm.assemble incl lines = .ok a) (hc : cocoOfAssembly a nm = some cf) (hf : fs.get? p = none)
    (hname : cf.name ≠ []) (hv : ValidDFile cf) (hw : Dsk.write Gen.granuleFillOrder [cf] = .ok img) :
    let r := asmMain fs incl lines { toDsk := some p, name := nm, append := ap }
    r.fs.get? p = some img ∧ r.exit = 0 ∧
    Spec.DiskBasic.Fsck img ∧ Spec.DiskBasic.read img = some [toDFile cf] ∧
    Dsk.list img = .ok [Dsk.norm cf] ∧
    a.image = some cf.data ∧ cf.ftype = 2 ∧ cf.load = cf.exec := by
  obtain ⟨h1, h2, _, _⟩ := C11_dsk_written fs incl lines a nm ap p cf img ha hc hf hname hw
  obtain ⟨hi, ht, _, hl, _⟩ := C11_file hc
  have hvs : ∀ f ∈ [cf], ValidDFile f := by intro f hf; simp at hf; subst hf; exact hv
  obtain ⟨hfsck, hread⟩ := C08_full _ _ _ validOrder_default hvs hw
  exact ⟨h1, h2, hfsck, hread, C07_write_list _ _ _ validOrder_default hvs hw, hi, ht, hl⟩

/-- `--to_dsk` when the disk writer refuses (e.g. an image above 65535 bytes): nothing is written, the refusal
is reported, exit status 0 all the same -/
theorem C11_dsk_refused (fs : FS) (incl : Asm.Files) (lines : List (List Char)) (a : Asm.Assembly)
    (nm : Option (List Char)) (ap : Bool) (p : Path) (cf : CFile)
    (ha : Asm.assemble incl lines = .ok a) (hc : cocoOfAssembly a nm = some cf) (hf : fs.get? p = none)
    (hname : cf.name ≠ []) (hw : ∀ img, Dsk.write Gen.granuleFillOrder [cf] ≠ .ok img) :
    let r := asmMain fs incl lines { toDsk := some p, name := nm, append := ap }
    r.fs = fs ∧ r.exit = 0 ∧ r.refused = [.disk] := by
  intro r
  have hst : ∀ fs', storeTo fs p .disk [cf] ap ≠ .ok fs' := by
    intro fs' h
    have := (storeTo_ok h).2
    rw [hf] at this
    obtain ⟨img, hb, _⟩ := this
    exact hw img (by simpa [buildImage] using hb)
  have hstep : asmStep cf ap (fs, []) (some p) .disk = (fs, [.disk]) := by
    simp only [asmStep]
    cases hs : storeTo fs p .disk [cf] ap with
    | ok fs' => exact absurd hs (hst fs')
    | diag => rfl
    | internal => rfl
    | diverged => rfl
  have hr : r = { exit := 0, fs := fs, refused := [.disk] } := by
    show asmMain fs incl lines { toDsk := some p, name := nm, append := ap } = _
    rw [asmMain_ok ha hc]
    simp [hstep, asmStep_none, name_isEmpty_false hname]
  rw [hr]
  exact ⟨rfl, rfl, rfl⟩

/-- all three switches at once, three distinct fresh targets -/
theorem C11_all (fs : FS) (incl : Asm.Files) (lines : List (List Char)) (a : Asm.Assembly)
    (nm : Option (List Char)) (ap : Bool) (pb pc pd : Path) (cf : CFile) (img : Bytes)
    (ha : Asm.assemble incl lines = .ok a) (hc : cocoOfAssembly a nm = some cf)
    (hfb : fs.get? pb = none) (hfc : fs.get? pc = none) (hfd : fs.get? pd = none)
    (hbc : pc ≠ pb) (hbd : pd ≠ pb) (hcd : pd ≠ pc)
    (hname : cf.name ≠ []) (hw : Dsk.write Gen.granuleFillOrder [cf] = .ok img) :
    let r := asmMain fs incl lines { toBin := some pb, toCas := some pc, toDsk := some pd, name := nm, append := ap }
    r.exit = 0 ∧ r.refused = [] ∧ r.fs.get? pb = a.image ∧ r.fs.get? pc = some (Cas.write [cf]) ∧
    r.fs.get? pd = some img ∧ ∀ q, q ≠ pb → q ≠ pc → q ≠ pd → r.fs.get? q = fs.get? q := by
  have hb : buildImage .binary [cf] = .ok cf.data := by simp [buildImage]
  have h1 := asmStep_fresh cf ap (fs, []) pb .binary cf.data hfb hb
  have hfc' : (fs.set pb cf.data).get? pc = none := by rw [FS.get?_set_other _ _ _ _ hbc]; exact hfc
  have h2 := asmStep_fresh cf ap (fs.set pb cf.data, []) pc .cassette (Cas.write [cf]) hfc' rfl
  have hfd' : ((fs.set pb cf.data).set pc (Cas.write [cf])).get? pd = none := by
    rw [FS.get?_set_other _ _ _ _ hcd, FS.get?_set_other _ _ _ _ hbd]; exact hfd
  have h3 := asmStep_fresh cf ap ((fs.set pb cf.data).set pc (Cas.write [cf]), []) pd .disk img hfd'
    (by simpa [buildImage] using hw)
  intro r
  have hr : r = { exit := 0, fs := ((fs.set pb cf.data).set pc (Cas.write [cf])).set pd img, refused := [] } := by
    show asmMain fs incl lines
      { toBin := some pb, toCas := some pc, toDsk := some pd, name := nm, append := ap } = _
    rw [asmMain_ok ha hc]
    simp [h1, h2, h3, name_isEmpty_false hname]
  rw [hr]
  refine ⟨rfl, rfl, ?_, ?_, FS.get?_set_same _ _ _, ?_⟩
  · show (((fs.set pb cf.data).set pc _).set pd img).get? pb = _
    rw [FS.get?_set_other _ _ _ _ (Ne.symm hbd), FS.get?_set_other _ _ _ _ (Ne.symm hbc), FS.get?_set_same,
      (C11_file hc).1]
  · show (((fs.set pb cf.data).set pc _).set pd img).get? pc = _
    rw [FS.get?_set_other _ _ _ _ (Ne.symm hcd), FS.get?_set_same]
  · intro q h1 h2 h3
    show (((fs.set pb cf.data).set pc _).set pd img).get? q = _
    rw [FS.get?_set_other _ _ _ _ h3, FS.get?_set_other _ _ _ _ h2, FS.get?_set_other _ _ _ _ h1]

/-- no name: no cassette / disk file is created — every path other than the `--to_bin` target is untouched,
whatever the switches -/
theorem C11_noname (fs : FS) (incl : Asm.Files) (lines : List (List Char)) (a : Asm.Assembly) (args : AsmArgs)
    (cf : CFile) (ha : Asm.assemble incl lines = .ok a) (hc : cocoOfAssembly a args.name = some cf)
    (hname : cf.name = []) :
    (asmMain fs incl lines args).exit = 0 ∧
    ∀ q, args.toBin ≠ some q → (asmMain fs incl lines args).fs.get? q = fs.get? q := by
  rw [asmMain_ok ha hc]
  have he : cf.name.isEmpty = true := by rw [hname]; rfl
  have h1 : ∀ q, args.toBin ≠ some q →
      (asmStep cf args.append (fs, []) args.toBin .binary).1.get? q = fs.get? q :=
    fun q hq => asmStep_frame cf args.append (fs, []) args.toBin .binary q hq
  cases hcas : args.toCas with
  | some pc => simp [he]; exact h1
  | none =>
    cases hdsk : args.toDsk with
    | some pd => simp [he, asmStep_none]; exact h1
    | none => simp [asmStep_none]; exact h1

/-- in particular without `--to_bin` the host file system is unchanged -/
theorem C11_noname_unchanged (fs : FS) (incl : Asm.Files) (lines : List (List Char)) (a : Asm.Assembly)
    (args : AsmArgs) (cf : CFile) (ha : Asm.assemble incl lines = .ok a)
    (hc : cocoOfAssembly a args.name = some cf) (hname : cf.name = []) (hb : args.toBin = none) :
    (asmMain fs incl lines args).fs = fs := by
  rw [asmMain_ok ha hc]
  have he : cf.name.isEmpty = true := by rw [hname]; rfl
  cases hcas : args.toCas with
  | some pc => simp [he, hb, asmStep_none]
  | none =>
    cases hdsk : args.toDsk with
    | some pd => simp [he, hb, asmStep_none]
    | none => simp [hb, asmStep_none]

/-! ### the statement, under the two facts about the assembler's output it needs -/

theorem write_single_len {order : List Nat} {f : CFile} {img : Bytes} (h : Dsk.write order [f] = .ok img) :
    f.data.length ≤ 65535 := by
  unfold Dsk.write Dsk.addFiles Dsk.addFile at h
  by_cases hl : f.data.length > 65535
  · simp [hl] at h
  · omega

theorem asmFile_name_ne {a : Asm.Assembly} {nm : Option (List Char)} {img : Bytes} (h : asmName a nm ≠ []) :
    (asmFile a nm img).name ≠ [] := by
  simp [asmFile, chars, h]

theorem asmFile_name_ascii {a : Asm.Assembly} {nm : Option (List Char)} {img : Bytes}
    (h : AsciiStr (asmName a nm)) : ∀ c ∈ (asmFile a nm img).name, c < 128 := by
  intro c hc
  simp only [asmFile, chars, List.mem_map] at hc
  obtain ⟨ch, hch, rfl⟩ := hc
  exact h ch hch

theorem asmFile_valid {a : Asm.Assembly} {nm : Option (List Char)} {img : Bytes}
    (hn : AsciiStr (asmName a nm)) (hb : ∀ b ∈ img, b < 256) (ho : originAddr a.origin < 65536) :
    ValidFile (asmFile a nm img) := by
  refine ⟨fun c hc => ?_, by simp [asmFile], by simp [asmFile], ho, ho, hb⟩
  have := asmFile_name_ascii (img := img) hn c hc
  omega

theorem asmFile_dvalid {a : Asm.Assembly} {nm : Option (List Char)} {img : Bytes}
    (hn : AsciiStr (asmName a nm)) (hb : ∀ b ∈ img, b < 256) (ho : originAddr a.origin < 65536)
    (hl : img.length ≤ 65535) : ValidDFile (asmFile a nm img) := by
  refine ⟨asmFile_name_ascii hn, ?_, by simp [asmFile], by simp [asmFile], ho, ho, hb, hl⟩
  intro c hc
  have : c = 98 ∨ c = 105 ∨ c = 110 := by simpa [asmFile, chars] using hc
  omega

/-- **C11_partial**: `C11_Statement` with two extra hypotheses about the assembler's output which this property
does not establish itself: the image consists of bytes, and the origin's address as `main` derives it from
the hex string is below 65536 (shown below for `ORG $xxxx` and for no `ORG`). -/
theorem C11_partial :
    ∀ (fs : FS) (incl : Asm.Files) (lines : List (List Char)) (a : Asm.Assembly) (nm : Option (List Char))
      (ap : Bool) (p : Path) (img : Bytes),
      Asm.assemble incl lines = .ok a → a.image = some img → fs.get? p = none → AsciiStr (asmName a nm) →
      (∀ b ∈ img, b < 256) → originAddr a.origin < 65536 →
      (let r := asmMain fs incl lines { toBin := some p, name := nm, append := ap }
       r.exit = 0 ∧ r.fs.get? p = some img ∧ ∀ q, q ≠ p → r.fs.get? q = fs.get? q) ∧
      (asmName a nm ≠ [] →
        let r := asmMain fs incl lines { toCas := some p, name := nm, append := ap }
        r.exit = 0 ∧ (∀ q, q ≠ p → r.fs.get? q = fs.get? q) ∧
        ∃ b, r.fs.get? p = some b ∧ Spec.Tape.WellFormed [toTape (asmFile a nm img)] b) ∧
      (asmName a nm ≠ [] →
        let r := asmMain fs incl lines { toDsk := some p, name := nm, append := ap }
        r.exit = 0 ∧ (∀ q, q ≠ p → r.fs.get? q = fs.get? q) ∧
        (r.refused = [] → ∃ b, r.fs.get? p = some b ∧ Spec.DiskBasic.Fsck b ∧
          Spec.DiskBasic.read b = some [toDFile (asmFile a nm img)])) ∧
      (asmName a nm = [] → ∀ args : AsmArgs, args.name = nm → args.toBin = none →
        (asmMain fs incl lines args).fs = fs) ∧
      (∀ v m, v < 65536 → a.origin = .numeric v (some 4) m false → (asmFile a nm img).load = v) := by
  intro fs incl lines a nm ap p img ha hi hf hn hb ho
  have hc := coco_of_image (nm := nm) hi
  refine ⟨?_, ?_, ?_, ?_, ?_⟩
  · obtain ⟨h1, h2, _, h4⟩ := C11_bin fs incl lines a nm ap p _ ha hc hf
    exact ⟨h2, by rw [h1, hi], h4⟩
  · intro hne
    obtain ⟨h1, h2, _, h4⟩ := C11_cas_written fs incl lines a nm ap p _ ha hc hf (asmFile_name_ne hne)
    refine ⟨h2, h4, _, h1, ?_⟩
    exact (C14_full [asmFile a nm img]
      (by intro f hf; simp at hf; subst hf; exact asmFile_valid hn hb ho)).1
  · intro hne
    cases hw : Dsk.write Gen.granuleFillOrder [asmFile a nm img] with
    | ok b =>
      obtain ⟨h1, h2, _, h4⟩ := C11_dsk_written fs incl lines a nm ap p _ b ha hc hf (asmFile_name_ne hne) hw
      refine ⟨h2, h4, fun _ => ⟨b, h1, ?_⟩⟩
      exact C08_full _ _ _ validOrder_default
        (by intro f hf; simp at hf; subst hf; exact asmFile_dvalid hn hb ho (write_single_len hw)) hw
    | diag =>
      obtain ⟨h1, h2, h3⟩ := C11_dsk_refused fs incl lines a nm ap p _ ha hc hf (asmFile_name_ne hne)
        (by intro b; rw [hw]; simp)
      exact ⟨h2, fun q _ => by rw [h1], fun h => by rw [h3] at h; simp at h⟩
    | internal =>
      obtain ⟨h1, h2, h3⟩ := C11_dsk_refused fs incl lines a nm ap p _ ha hc hf (asmFile_name_ne hne)
        (by intro b; rw [hw]; simp)
      exact ⟨h2, fun q _ => by rw [h1], fun h => by rw [h3] at h; simp at h⟩
    | diverged =>
      obtain ⟨h1, h2, h3⟩ := C11_dsk_refused fs incl lines a nm ap p _ ha hc hf (asmFile_name_ne hne)
        (by intro b; rw [hw]; simp)
      exact ⟨h2, fun q _ => by rw [h1], fun h => by rw [h3] at h; simp at h⟩
  · intro he args hargs hbin
    subst hargs
    exact C11_noname_unchanged fs incl lines a args _ ha hc (by simp [asmFile, chars, he]) hbin
  · intro v m hv hov
    simp [asmFile, hov, originAddr_numeric4 v m hv]

/-- the origin hypothesis of `C11_partial` holds for `ORG $xxxx` and when there is no `ORG` -/
theorem originAddr_lt_cases (o : Asm.Value)
    (h : o = .none ∨ (∃ v m, v < 65536 ∧ o = .numeric v (some 4) m false) ∨
         (∃ v m, v < 256 ∧ o = .numeric v (some 2) m false) ∨ (∃ v m, v < 65536 ∧ o = .numeric v none m false)) :
    originAddr o < 65536 := by
  rcases h with rfl | ⟨v, m, hv, rfl⟩ | ⟨v, m, hv, rfl⟩ | ⟨v, m, hv, rfl⟩
  · rw [originAddr_none]; omega
  · rw [originAddr_numeric4 v m hv]; exact hv
  · rw [originAddr_numeric2 v m hv]; omega
  · rw [originAddr_numericNone v m hv]; exact hv

/-! ### non-vacuity: a small program is accepted, has an image, a name and a four-digit origin -/

def demoSrc : List (List Char) :=
  ["  NAM hello\n".toList, "  ORG $0E00\n".toList, "START LDA #$01\n".toList, "  RTS\n".toList]

/-- the model accepts it; image `86 01 39`; the origin's address is `$0E00`; the file name is `hello` -/
theorem demo_accepted : ∃ a, Asm.assemble [] demoSrc = .ok a ∧ a.image = some [0x86, 0x01, 0x39] ∧
    originAddr a.origin = 0x0E00 ∧ asmName a none = "hello".toList := by
  have h : checkNoInc demoSrc (fun a => a.image == some [0x86, 0x01, 0x39] && originAddr a.origin == 0x0E00 &&
      asmName a none == "hello".toList) = true := by decide +kernel
  obtain ⟨a, ha, hc⟩ := checkNoInc_sound (fs := []) h
  simp only [Bool.and_eq_true, beq_iff_eq] at hc
  exact ⟨a, ha, hc.1.1, hc.1.2, hc.2⟩

/-- so the hypotheses of `C11_partial` are satisfiable (with a non-empty name) -/
example : ∃ a img, Asm.assemble [] demoSrc = .ok a ∧ a.image = some img ∧ AsciiStr (asmName a none) ∧
    (∀ b ∈ img, b < 256) ∧ originAddr a.origin < 65536 ∧ asmName a none ≠ [] := by
  obtain ⟨a, ha, hi, ho, hn⟩ := demo_accepted
  refine ⟨a, _, ha, hi, ?_, ?_, ?_, ?_⟩
  · rw [hn]; unfold AsciiStr; decide
  · decide
  · omega
  · rw [hn]; decide

/-! ### the ORG check (fix for finding B1) seen from the command line -/

/-- an `ORG` after code: the program has already emitted a byte (and defined a label) when the origin moves -/
def orgLateSrc : List (List Char) :=
  ["START LDA #$01\n".toList, "  ORG $0E00\n".toList, "  RTS\n".toList]

/-- the assembler rejects it with a diagnostic … -/
theorem orgLate_rejected : Asm.assemble [] orgLateSrc = .diag :=
  orgRejectedNoInc_sound (fs := []) (by decide +kernel)

/-- … and `assembler.main` ends with a failure exit status, writes no file (whatever the switches and the targets)
and has no refusal to report -/
theorem C11_orgLate_no_file (fs : FS) (args : AsmArgs) :
    let r := asmMain fs [] orgLateSrc args
    r.exit = 1 ∧ r.fs = fs ∧ r.refused = [] := by
  intro r
  have hr : r = { exit := 1, fs := fs } := asmMain_diag orgLate_rejected
  rw [hr]
  exact ⟨rfl, rfl, rfl⟩

/-- the same lines with the `ORG` first are accepted (so the rejection is due to the position of the `ORG`) -/
theorem orgFirst_accepted : ∃ a, Asm.assemble [] ["  ORG $0E00\n".toList, "START LDA #$01\n".toList, "  RTS\n".toList] = .ok a ∧
    a.image = some [0x86, 0x01, 0x39] ∧ originAddr a.origin = 0x0E00 := by
  have h : checkNoInc ["  ORG $0E00\n".toList, "START LDA #$01\n".toList, "  RTS\n".toList]
      (fun a => a.image == some [0x86, 0x01, 0x39] && originAddr a.origin == 0x0E00) = true := by decide +kernel
  obtain ⟨a, ha, hc⟩ := checkNoInc_sound (fs := []) h
  simp only [Bool.and_eq_true, beq_iff_eq] at hc
  exact ⟨a, ha, hc.1, hc.2⟩

end CoCo.Props
