/-
Props/C03.lean — branch displacements and PC-relative offsets.

`fix_addresses` computes a displacement as a SUM OF SIZES of the statements between the branch and its
target; the CPU adds the displacement to the address of the next instruction.  The two agree when no ORG
lies between the branch and the target (`C02_telescope`).  With an ORG in between the stored displacement
is wrong: the full statement does not hold, the partial one carries the "no ORG in between" hypothesis.
-/
import CoCoVerif.Lemmas.LayoutEmit
import CoCoVerif.Props.C02

namespace CoCo.Props
open CoCo CoCo.Asm
open CoCo.Spec.MC6809 (sext)

/-- what the statement at index `i` (a branch to the statement of index `b`) must look like: the stored field,
sign-extended, added to the address of the next instruction, gives the address of the target -/
def BranchField (s t : Stmt) : Prop :=
  ∃ x y, addrNat s = some x ∧ addrNat t = some y ∧
    (s.row.isShortBranch = true →
      ∃ d8, d8 < 256 ∧ s.pkg.additional = branchValue true d8 ∧ (y : Int) = x + s.pkg.size + sext d8 8) ∧
    (s.row.isShortBranch = false →
      ∃ d16, d16 < 65536 ∧ s.pkg.additional = branchValue false d16 ∧
        ((y : Int) - (x + s.pkg.size)) % 65536 = d16)

/-- the stored PC-relative offset of statement `s` (index `i`) whose operand names statement `t`: `fix_addresses`
computes the value `v`, `fit_operand_width` renders it at the width of the field (`fitWidth_numeric`: a negative 8-bit
offset as its two's complement byte) -/
def PcrField (s t : Stmt) : Prop :=
  ∃ x y v, addrNat s = some x ∧ addrNat t = some y ∧
    numericOfInt (pcrJump s y x) (some s.pcrHint) .none = .ok v ∧ fitWidth (withAdditional s v) = .ok s ∧
    (s.pcrHint = 2 → -128 ≤ pcrJump s y x ∧ pcrJump s y x ≤ 127)

/-- C03 at full strength: every branch of an accepted program whose operand is a label carries the
displacement the CPU needs; every PCR operand carries `target − (address + size)` in a field wide enough.
(batch B3: a PCR operand with a label is recognised by its post byte choices, `choices ≠ []`: `needsRes` alone no longer
singles it out, the label offset of a pointer register — `LDA TABLE,X` — has it too and carries the ADDRESS, see
`C03_label_offset` in Props/C03Width.) -/
def C03_Statement : Prop :=
  ∀ (fs : Files) (lines : List Str) (a : Assembly), assemble fs lines = .ok a →
    (∀ (i b : Nat) (m : Mode) (s t : Stmt), a.stmts[i]? = some s → s.operand.kind = .relative →
        s.operand.value = .address b m → a.stmts[b]? = some t → BranchField s t) ∧
    (∀ (i b : Nat) (m : Mode) (s t : Stmt), a.stmts[i]? = some s → s.pkg.choices ≠ [] →
        s.operand.left = .val (.address b m) → a.stmts[b]? = some t → PcrField s t)

/-! ### the branch field at the level of `fixOne` -/

/-- `fix_addresses` on a relative statement: a diagnostic exactly for a short branch out of range or
(after fix 145359a) for any branch whose distance does not fit the 16-bit field -/
theorem C03_diag_iff {ss : List Stmt} {i b : Nat} {s : Stmt} (hk : s.operand.kind = .relative)
    (hb : s.pkg.additional.int? = some b) :
    fixOne ss i s = .diag ↔
      (s.row.isShortBranch = true ∧ (if b ≤ i then sumSize ss b (i + 1) > 128 else sumSize ss (i + 1) b > 127)) ∨
      (if b ≤ i then sumSize ss b (i + 1) > 65535 else sumSize ss (i + 1) b > 65535) :=
  fixOne_relative_diag_iff hk hb

/-- (after fix 145359a) no internal error on a relative statement whose own size is counted -/
theorem C03_no_internal {ss : List Stmt} {i b : Nat} {s : Stmt} (hk : s.operand.kind = .relative)
    (hb : s.pkg.additional.int? = some b)
    (hpos : s.row.isShortBranch = false → b ≤ i → 1 ≤ sumSize ss b (i + 1)) :
    fixOne ss i s ≠ .internal :=
  fixOne_relative_ne_internal hk hb hpos

/-- in range: the stored byte, sign-extended, is `−Σ size(b..i)` (backward) or `Σ size(i+1..b−1)` (forward);
long branches store the same quantity modulo 65536 in a 16-bit field -/
theorem C03_field {ss : List Stmt} {i b : Nat} {s : Stmt} (hk : s.operand.kind = .relative)
    (hb : s.pkg.additional.int? = some b) :
    (s.row.isShortBranch = true → b ≤ i → 1 ≤ sumSize ss b (i + 1) → sumSize ss b (i + 1) ≤ 128 →
      fixOne ss i s = .ok (withAdditional s (branchValue true (256 - sumSize ss b (i + 1)))) ∧
      256 - sumSize ss b (i + 1) < 256 ∧
      sext (256 - sumSize ss b (i + 1)) 8 = -(sumSize ss b (i + 1) : Int)) ∧
    (s.row.isShortBranch = true → ¬ b ≤ i → sumSize ss (i + 1) b ≤ 127 →
      fixOne ss i s = .ok (withAdditional s (branchValue true (sumSize ss (i + 1) b))) ∧
      sext (sumSize ss (i + 1) b) 8 = (sumSize ss (i + 1) b : Int)) ∧
    (s.row.isShortBranch = false → b ≤ i → 1 ≤ sumSize ss b (i + 1) → sumSize ss b (i + 1) ≤ 65535 →
      fixOne ss i s = .ok (withAdditional s (branchValue false (65536 - sumSize ss b (i + 1)))) ∧
      65536 - sumSize ss b (i + 1) < 65536 ∧
      sext (65536 - sumSize ss b (i + 1)) 16 % 65536 = (-(sumSize ss b (i + 1) : Int)) % 65536) ∧
    (s.row.isShortBranch = false → ¬ b ≤ i → sumSize ss (i + 1) b ≤ 65535 →
      fixOne ss i s = .ok (withAdditional s (branchValue false (sumSize ss (i + 1) b))) ∧
      sext (sumSize ss (i + 1) b) 16 % 65536 = (sumSize ss (i + 1) b : Int) % 65536) :=
  ⟨fun h1 h2 h3 h4 => fixOne_short_backward hk hb h1 h2 h3 h4,
   fun h1 h2 h3 => fixOne_short_forward hk hb h1 h2 h3,
   fun h1 h2 h3 h4 => fixOne_long_backward hk hb h1 h2 h3 h4,
   fun h1 h2 h3 => fixOne_long_forward hk hb h1 h2 h3⟩

/-! ### a branch to something that is not a label is rejected (former finding B3, repaired) -/

/-- `translate` of a relative operand whose resolved value is not a label (a number, an expression) raises:
the statement is never accepted -/
theorem C03_branch_nonlabel_rejected {o : Operand} {row : Gen.InstrRow} (hk : o.kind = .relative)
    (hv : o.value.isAddress = false) : ∀ p, translateOperand o row ≠ .ok p := by
  intro p h
  have := (translate_relative h hk).2.1
  rw [hv] at this
  cases this

/-- `BRA 5` and `LBRA $1000` are diagnostics -/
theorem C03_branch_number_diag (fs : Files) :
    assemble fs ([" BRA 5\n"].map String.toList) = .diag ∧
    assemble fs ([" LBRA $1000\n"].map String.toList) = .diag :=
  ⟨diagProgram_sound (by decide +kernel) fs, diagProgram_sound (by decide +kernel) fs⟩

/-- every relative statement of an accepted program names a label -/
theorem C03_branch_is_label {fs : Files} {lines : List Str} {a : Assembly} (h : assemble fs lines = .ok a)
    {i : Nat} {s : Stmt} (hs : a.stmts[i]? = some s) (hk : s.operand.kind = .relative) :
    ∃ b m, s.operand.value = .address b m := by
  obtain ⟨st⟩ := assemble_stages h
  obtain ⟨_, _, _, _, _, _, _, _, haddr, _⟩ := st.branch_pre hs hk
  cases hv : s.operand.value with
  | address b m => exact ⟨b, m, rfl⟩
  | _ => rw [hv] at haddr; cases haddr

/-! ### the branch field of an accepted program -/

/-- No ORG between the branch and its target (more precisely: none among the statements of index
`min b i < j ≤ max b i`) and a branch statement of non-zero size: the stored field is the displacement the
CPU needs.  (The former hypothesis `hwrap`, "no wrap beyond 65536 for a long backward branch", is no longer
needed: after fix 145359a a distance that does not fit is a diagnostic.) -/
theorem C03_branch {fs : Files} {lines : List Str} {a : Assembly} (h : assemble fs lines = .ok a)
    {i b : Nat} {m : Mode} {s t : Stmt} (hs : a.stmts[i]? = some s) (hk : s.operand.kind = .relative)
    (hv : s.operand.value = .address b m) (ht : a.stmts[b]? = some t)
    (hno : ∀ j u, min b i < j → j ≤ max b i → a.stmts[j]? = some u → u.row.mnemonic ≠ "ORG")
    (hsz : 0 < s.pkg.size) :
    BranchField s t := by
  obtain ⟨st⟩ := assemble_stages h
  obtain ⟨s4, s1, hs4, hfix, hfit, _, hsame, hadd, _, hrowmem, hbr, hopc, hpb, hsz4⟩ := st.branch_pre hs hk
  obtain ⟨x, hx⟩ := (C02_chain h).1 i s hs
  obtain ⟨y, hy⟩ := (C02_chain h).1 b t ht
  have hc := st.chained
  have hk4 : s4.operand.kind = .relative := by obtain ⟨v, rfl⟩ := hsame; exact hk
  have hb4 : s4.pkg.additional.int? = some b := by
    rw [hadd, hv]; simp [Value.int?]
  have hrow : s.row = s4.row := by obtain ⟨v, rfl⟩ := hsame; rfl
  have hsize : s.pkg.size = s4.pkg.size := by obtain ⟨v, rfl⟩ := hsame; rfl
  have hsum : ∀ lo hi, sumSize st.ss4 lo hi = sumSize a.stmts lo hi := fun lo hi =>
    (sumSize_congr ((fixAllL_pw st.hfix).mono (by rintro u u' ⟨_, rfl⟩; rfl)) lo hi).symm
  have hndiag : fixOne st.ss4 i s4 ≠ .diag := by rw [hfix]; simp
  -- `fitWidth` leaves the field `fixOne` stored as it is
  have key : ∀ d, d < 16 ^ (if s4.row.isShortBranch then 2 else 4) →
      fixOne st.ss4 i s4 = .ok (withAdditional s4 (branchValue s4.row.isShortBranch d)) →
      s.pkg.additional = branchValue s4.row.isShortBranch d := by
    intro d hd h1
    rw [hfix] at h1
    cases h1
    rw [branch_fit hrowmem hbr hopc hpb hsz4 hd] at hfit
    cases hfit
    rfl
  have hflag : ∀ j, min b i < j → j ≤ max b i → (st.ss3.map Stmt.preset)[j]? = some false := by
    intro j h1 h2
    have hlen : j < a.stmts.length := by
      have h3 : i < a.stmts.length := by
        rcases Nat.lt_or_ge i a.stmts.length with h' | h'
        · exact h'
        · rw [List.getElem?_eq_none_iff.mpr h'] at hs; cases hs
      have h4 : b < a.stmts.length := by
        rcases Nat.lt_or_ge b a.stmts.length with h' | h'
        · exact h'
        · rw [List.getElem?_eq_none_iff.mpr h'] at ht; cases ht
      omega
    have hu := List.getElem?_eq_getElem hlen
    exact st.flag_false hu (hno j _ h1 h2 hu)
  refine ⟨x, y, hx, hy, ?_, ?_⟩
  · intro hshort
    have hshort4 : s4.row.isShortBranch = true := by rw [← hrow]; exact hshort
    by_cases hbi : b ≤ i
    · -- backward
      have hlink := hc.backward hbi hs ht (fun j h1 h2 => hflag j (by rw [Nat.min_def]; split <;> omega) (by rw [Nat.max_def]; split <;> omega)) hx hy
      have hpos : 1 ≤ sumSize st.ss4 b (i + 1) := by rw [hsum, sumSize_succ hbi hs]; omega
      have hle : sumSize st.ss4 b (i + 1) ≤ 128 := by
        rcases Nat.lt_or_ge 128 (sumSize st.ss4 b (i + 1)) with h' | h'
        · exact absurd ((fixOne_relative_diag_iff hk4 hb4).mpr (Or.inl ⟨hshort4, by simp [hbi]; exact h'⟩)) hndiag
        · exact h'
      obtain ⟨h1, h2, h3⟩ := fixOne_short_backward hk4 hb4 hshort4 hbi hpos hle
      have hadd' := key _ (by rw [hshort4]; exact h2) (by rw [hshort4]; exact h1)
      rw [hshort4] at hadd'
      refine ⟨_, h2, hadd', ?_⟩
      rw [h3, hsum]; omega
    · -- forward
      have hib : i < b := by omega
      have hlink := hc.forward hib hs ht (fun j h1 h2 => hflag j (by rw [Nat.min_def]; split <;> omega) (by rw [Nat.max_def]; split <;> omega)) hx hy
      have hle : sumSize st.ss4 (i + 1) b ≤ 127 := by
        rcases Nat.lt_or_ge 127 (sumSize st.ss4 (i + 1) b) with h' | h'
        · exact absurd ((fixOne_relative_diag_iff hk4 hb4).mpr (Or.inl ⟨hshort4, by simp [hbi]; exact h'⟩)) hndiag
        · exact h'
      obtain ⟨h1, h3⟩ := fixOne_short_forward hk4 hb4 hshort4 hbi hle
      have hlt : sumSize st.ss4 (i + 1) b < 256 := by omega
      have hadd' := key _ (by rw [hshort4]; exact hlt) (by rw [hshort4]; exact h1)
      rw [hshort4] at hadd'
      refine ⟨_, hlt, hadd', ?_⟩
      rw [h3, hsum]; omega
  · intro hlong
    have hlong4 : s4.row.isShortBranch = false := by rw [← hrow]; exact hlong
    by_cases hbi : b ≤ i
    · have hlink := hc.backward hbi hs ht (fun j h1 h2 => hflag j (by rw [Nat.min_def]; split <;> omega) (by rw [Nat.max_def]; split <;> omega)) hx hy
      have hpos : 1 ≤ sumSize st.ss4 b (i + 1) := by rw [hsum, sumSize_succ hbi hs]; omega
      have hle : sumSize st.ss4 b (i + 1) ≤ 65535 := by
        rcases Nat.lt_or_ge 65535 (sumSize st.ss4 b (i + 1)) with h' | h'
        · exact absurd ((fixOne_relative_diag_iff hk4 hb4).mpr (Or.inr (by simp [hbi]; exact h'))) hndiag
        · exact h'
      obtain ⟨h1, h2, _⟩ := fixOne_long_backward hk4 hb4 hlong4 hbi hpos hle
      have hadd' := key _ (by rw [hlong4]; exact h2) (by rw [hlong4]; exact h1)
      rw [hlong4] at hadd'
      refine ⟨_, h2, hadd', ?_⟩
      rw [hsum]; rw [hsum] at hpos hle; omega
    · have hib : i < b := by omega
      have hlink := hc.forward hib hs ht (fun j h1 h2 => hflag j (by rw [Nat.min_def]; split <;> omega) (by rw [Nat.max_def]; split <;> omega)) hx hy
      have hle : sumSize st.ss4 (i + 1) b ≤ 65535 := by
        rcases Nat.lt_or_ge 65535 (sumSize st.ss4 (i + 1) b) with h' | h'
        · exact absurd ((fixOne_relative_diag_iff hk4 hb4).mpr (Or.inr (by simp [hbi]; exact h'))) hndiag
        · exact h'
      obtain ⟨h1, _⟩ := fixOne_long_forward hk4 hb4 hlong4 hbi hle
      have hlt : sumSize st.ss4 (i + 1) b < 65536 := by omega
      have hadd' := key _ (by rw [hlong4]; exact hlt) (by rw [hlong4]; exact h1)
      rw [hlong4] at hadd'
      refine ⟨_, hlt, hadd', ?_⟩
      rw [hsum]; rw [hsum] at hle; omega

/-- the branch field is what `get_binary_array` emits last for the statement: one byte for a short branch,
two bytes (high byte first) for a long branch -/
theorem C03_bytes {s : Stmt} {bs : Bytes} (h : stmtBytes s = some bs) :
    (∀ d8, d8 < 256 → s.pkg.additional = branchValue true d8 → ∃ pre, bs = pre ++ [d8]) ∧
    (∀ d16, d16 < 65536 → s.pkg.additional = branchValue false d16 → ∃ pre, bs = pre ++ [d16 / 256, d16 % 256]) := by
  constructor
  · intro d hd ha
    exact stmtBytes_suffix h (by rw [ha]; exact emit8 d hd)
  · intro d hd ha
    exact stmtBytes_suffix h (by rw [ha]; exact emit16 d hd)

/-! ### PC-relative operands -/

/-- `fix_addresses` on a PCR statement (`needsRes`), at the level of `fixOne`: the stored value is
`numericOfInt jump (some pcrHint)` with `jump = target − own address − own size` as a signed 16-bit distance (fix ec1693d), reduced mod 65536 for the
16-bit form; `target` is what `fixRel` computes (for a plain label: the address of the statement it names) -/
theorem C03_pcr_fixOne {ss : List Stmt} {i : Nat} {s s' : Stmt} (hk : (s.operand.kind == .relative) = false)
    (hv1 : s.operand.value.isAddrExpr = false) (hv2 : s.operand.value.isAddress = false)
    (hv3 : s.operand.value ≠ .pyNone) (hn : s.pkg.needsRes = true) (hc : s.pkg.choices.isEmpty = false)
    (h : fixOne ss i s = .ok s') :
    ∃ target start v, fixRel ss s = .ok target ∧ addrIntOf ss i = some start ∧
      numericOfInt (pcrJump s target start) (some s.pcrHint) .none = .ok v ∧ s' = withAdditional s v ∧
      pcrJump s target start =
        (let d : Int := ((target : Int) - start - s.pkg.size + 0x8000) % 0x10000 - 0x8000   -- signed distance mod 65536
         if s.pcrHint = 4 then d % 65536 else d) := by
  obtain ⟨r, start, v, h1, h2, h3, h4⟩ := fixOne_pcr hk hv1 hv2 hv3 hn hc h
  exact ⟨r, start, v, h1, h2, h3, h4, rfl⟩

/-- the same for an accepted program, in terms of the statement list `ss4` that enters `fix_addresses`
(equal to `a.stmts` except for `pkg.additional`): a PCR statement whose offset is the plain label of
statement `t` ends up with `numericOfInt (address t − own address − own size)` -/
theorem C03_pcr {fs : Files} {lines : List Str} {a : Assembly} (h : assemble fs lines = .ok a) :
    ∃ ss4 : List Stmt, PW SameButAdditional ss4 a.stmts ∧
      ∀ (i t : Nat) (s4 s : Stmt), ss4[i]? = some s4 → a.stmts[i]? = some s →
        s4.pkg.needsRes = true → s4.pkg.choices.isEmpty = false → (s4.operand.kind == .relative) = false → s4.operand.value.isAddrExpr = false →
        s4.operand.value.isAddress = false → s4.operand.value ≠ .pyNone →
        s4.pkg.additional.isAddrExpr = false → s4.pkg.additional.int? = some t →
        ∃ u x y v, a.stmts[t]? = some u ∧ addrNat s = some x ∧ addrNat u = some y ∧
          numericOfInt (pcrJump s y x) (some s.pcrHint) .none = .ok v ∧ fitWidth (withAdditional s v) = .ok s := by
  obtain ⟨st⟩ := assemble_stages h
  refine ⟨st.ss4, fixAllL_pw st.hfix, ?_⟩
  intro i t s4 s hs4 hs hn hc hk hv1 hv2 hv3 he ht
  -- (batch 8) the statements after `fixAll`; the pass over the FCB / FDB lists leaves a numeric field alone
  obtain ⟨x5, hx5, hl5⟩ := st.fix_split
  obtain ⟨s1, sw, hsw, hfix, hfit⟩ := (fixAll_ok2 hx5).2 i s4 hs4
  obtain ⟨s', hs', hlist⟩ := (evalLists_ok hl5).2 i sw hsw
  rw [hs] at hs'; cases hs'
  rw [Nat.zero_add] at hfix
  obtain ⟨r, start, v, h1, h2, h3, h4⟩ := fixOne_pcr hk hv1 hv2 hv3 hn hc hfix
  have hsws : s = sw := by
    have hnum : sw.pkg.additional.isNumeric = true :=
      fitWidth_isNumeric hfit (by rw [h4]; exact EL.numericOfInt_isNumeric h3)
    rw [evalList1_numeric _ _ hnum] at hlist
    exact (Outcome.ok.inj hlist).symm
  subst hsws
  rw [fixRel_plain he ht] at h1
  -- the target statement
  cases hat : addrIntOf st.ss4 t with
  | none => rw [hat] at h1; cases h1
  | some y =>
    rw [hat] at h1; cases h1
    unfold addrIntOf addrOf at hat h2
    cases hu4 : st.ss4[t]? with
    | none => rw [hu4] at hat; cases hat
    | some u4 =>
      rw [hu4] at hat
      rw [hs4] at h2
      obtain ⟨u, hu, w, rfl⟩ := (fixAllL_pw st.hfix).get hu4
      subst h4
      obtain ⟨w', hw'⟩ := (fixAllL_pw st.hfix).2 i s4 s hs4 hs
      have hwa : withAdditional s v = withAdditional s4 v := by rw [hw']; rfl
      have e1 : addrNat s = some start := by rw [hw']; exact h2
      have e2 : pcrJump s r start = pcrJump s4 r start := by rw [hw']; rfl
      have e3 : s.pcrHint = s4.pcrHint := by rw [hw']
      exact ⟨_, start, r, v, hu, e1, hat, by rw [e2, e3]; exact h3, by rw [hwa]; exact hfit⟩

/-! ### the full statement does not hold

History: this section used to contain `C03_pcrWitness` / `C03_pcr_range_counterexample`, a program
(`LEAX T1,PCR` over four `LDA 1000,X`, `RMB 100` and three undecided `LEAX FAR,PCR`) on which the size loop
chose the 8-bit PCR form for an offset of +128, because `translateOffset` returned `maxSize < size` for
8/16-bit constant offsets.  That defect was repaired (fix aafdc4b: `maxSize = size + 1` / `size + 2`); on the
repaired model the program is assembled with the 16-bit form (`pcrHint = 4`, `size = 4`, stored offset 128), so
the former counterexample is gone and the refutation was deleted.  Every `maxSize` the model produces is
now `≥ size`.  `C03_Statement` is still false, because of the ORG witness below (which was already here). -/

/-- a branch over an ORG -/
def C03_orgWitness : List Str := ["START BRA END\n", " ORG $100\n", "END NOP\n"].map String.toList

/-- REPAIRED (finding B1, formerly `C03_branch_org_counterexample` / `C03_Statement_false`): a branch over an ORG used to
be accepted with a displacement computed from sizes (stored byte 0, needed 254); since fix f9c374f an ORG after the
first label or byte is a diagnostic, so no accepted program has an ORG between a branch and its target. -/
theorem C03_branch_org_counterexample_fixed (fs : Files) : assemble fs C03_orgWitness = .diag :=
  diagProgram_sound (by decide +kernel) fs

/-! ### summary -/

/-- What is proved of C03. (1) `fix_addresses` reports a diagnostic exactly for short branches out of range and
(after fix 145359a) for distances that do not fit 16 bits;
(2) in range, the stored field encodes the sum of sizes, as a sign-extended byte or modulo 65536;
(3) for an accepted program without an ORG between branch and target, field + next instruction address =
target address; (4) PCR statements store `target − address − size` (`fixOne`; `fitWidth` then renders the value at the
width of the field).
The width invariant (the 8-bit PCR form is only chosen for offsets in −128..127) is proved in
`Props/C03Width.lean` (`C03_pcr8_width`, `C03_pcr_label`); five counterexamples met on the way were repaired in
/repo (aafdc4b, 8dc2b21, 0293787, 95bb240, ec1693d).  After repair batch B2 (`fix_addresses` range-checks the 8-bit
PCR form against ADDRESSES) the PCR clause of `C03_Statement` holds for every accepted program, ORG or not
(`C03_pcr_clause`, `C03_pcr8_in_range` in `Props/C03Width.lean`); `C03_Statement` is false through its BRANCH clause
only (`C03_branch_org_counterexample`). -/
theorem C03_partial :
    (∀ (ss : List Stmt) (i b : Nat) (s : Stmt), s.operand.kind = .relative → s.pkg.additional.int? = some b →
      (fixOne ss i s = .diag ↔
        (s.row.isShortBranch = true ∧ (if b ≤ i then sumSize ss b (i + 1) > 128 else sumSize ss (i + 1) b > 127)) ∨
        (if b ≤ i then sumSize ss b (i + 1) > 65535 else sumSize ss (i + 1) b > 65535))) ∧
    (∀ (fs : Files) (lines : List Str) (a : Assembly), assemble fs lines = .ok a →
      ∀ (i b : Nat) (m : Mode) (s t : Stmt), a.stmts[i]? = some s → s.operand.kind = .relative →
        s.operand.value = .address b m → a.stmts[b]? = some t →
        (∀ j u, min b i < j → j ≤ max b i → a.stmts[j]? = some u → u.row.mnemonic ≠ "ORG") →
        0 < s.pkg.size →
        BranchField s t) ∧
    (∀ (ss : List Stmt) (i : Nat) (s s' : Stmt), (s.operand.kind == .relative) = false →
      s.operand.value.isAddrExpr = false → s.operand.value.isAddress = false → s.operand.value ≠ .pyNone →
      s.pkg.needsRes = true → s.pkg.choices.isEmpty = false → fixOne ss i s = .ok s' →
      ∃ target start v, fixRel ss s = .ok target ∧ addrIntOf ss i = some start ∧
        numericOfInt (pcrJump s target start) (some s.pcrHint) .none = .ok v ∧ s' = withAdditional s v) :=
  ⟨fun _ _ _ _ hk hb => C03_diag_iff hk hb,
   fun _ _ _ h _ _ _ _ _ hs hk hv ht hno hsz => C03_branch h hs hk hv ht hno hsz,
   fun _ _ _ _ hk h1 h2 h3 hn hc h => fixOne_pcr hk h1 h2 h3 hn hc h⟩

/-! ### non-vacuity -/

/-- a backward and a forward short branch and a long branch, no ORG in between: the hypotheses of
`C03_branch` are satisfiable -/
def C03_example : List Str :=
  ["LOOP NOP\n", " BRA LOOP\n", " BNE DONE\n", " LBRA LOOP\n", "DONE RTS\n"].map String.toList

private def exampleCheck (a : Assembly) : Bool :=
  match a.stmts[1]?, a.stmts[2]?, a.stmts[3]? with
  | some s1, some s2, some s3 =>
    s1.operand.kind == .relative && s2.operand.kind == .relative && s3.operand.kind == .relative &&
    (match s1.operand.value, s2.operand.value, s3.operand.value with
     | .address 0 _, .address 4 _, .address 0 _ => true | _, _, _ => false) &&
    s1.pkg.size == 2 && s2.pkg.size == 2 && s3.pkg.size == 3 &&
    a.stmts.all (fun u => u.row.mnemonic != "ORG") &&
    (match s1.pkg.additional, s2.pkg.additional, s3.pkg.additional with
     | .numeric 0xFD _ _ _, .numeric 3 _ _ _, .numeric 0xFFF8 _ _ _ => true | _, _, _ => false)
  | _, _, _ => false

example : ∃ a, assemble [] C03_example = .ok a ∧ exampleCheck a = true :=
  checkProgram_sound (by decide +kernel) []

end CoCo.Props
