/-
Props/C03Width.lean — C03, the width invariant of PC-relative operands: a `label,PCR` / `label±k,PCR` operand
that the size loop settled on the 8-bit form (`pcrHint = 2`) stores a displacement that fits the 8-bit field.

Model: after the repairs 0293787 (label op label is sized 16-bit), 95bb240 (a reference to the statement's own
label is a backward reference), 1477b47 (`label − k` below zero wraps modulo 65536) and ec1693d (the displacement
is the signed distance modulo 65536).  Before these repairs the statement was false; the programs that refuted
it are kept below as regression witnesses (`C03_width_regressions`).

Main results
* `C03_size_sound`     — the soundness invariant of the size loop: final size ∈ [size, maxSize].
* `C03_pcr8_width`     — umbrella theorem on the statement list that enters `fix_addresses`.
* `C03_pcr8_in_range`  — (batch B2) EVERY 8-bit PCR statement of EVERY accepted program, ORG or not: the field is the
  two's complement byte of the signed 16-bit distance `d` from the end of the statement to its target, `−128 ≤ d ≤ 127`
  (`fix_addresses` now rejects an 8-bit form whose distance is out of range).
* `C03_pcr_label`      — plain label: `PcrField s t`, now WITHOUT the hypothesis "no ORG between";
  `C03_pcr_clause`: the PCR clause of `C03_Statement` holds for every accepted program.
* `C03_pcr_label_width`, `C03_pcr_expr_width` — (no ORG between) the distance `d` computed in ℤ lies in −128..127;
  `fix_addresses` computes `NumericValue(d, size_hint=2)`, `fit_operand_width` accepts it, and the final field is the
  two's complement byte `d mod 256`.  `C03_pcr_label_in_range`, `C03_pcr_expr_in_range`: the same without the ORG
  hypothesis, `d` being the signed 16-bit distance.
* `C03_pcr_org_counterexample_fixed` — `S LEAX T,PCR / ORG $CB / T NOP` (and the older `ORG $1000` witness) is a
  diagnostic now; `C03_pcr_org_example_fixed` (batch 5): so is an ORG in between with the target in range — an ORG after
  the first label or byte is rejected (`orgOK`), no accepted program has an ORG between a PCR statement and its target.
* batch 4: `number − label,PCR` always takes the 16-bit form (`C03_pcr_minus_label_16bit`;
  `C03_pcr_reversed_minus_finding_fixed`, `C03_b3_example_fixed`); the `c − label` cases of `Dist8` / `Target8` under
  `exprForces = false` are vacuous now, `C03_pcr_expr_field` (either width) still covers `c − label`.
* `C03_pcr_plus_negative_fixed` — (batch B3, formerly `C03_pcr_plus_negative_finding`) `L+N,PCR` with `N` negative below
  `−address(L)` aims at `(address + N) mod 65536` now.
* batch B3: a PCR operand is recognised by `pkg.choices ≠ []` (not `needsRes`, which the label offset of a pointer register
  has too).  `C03_pcr_field_target`, `C03_pcr_expr_field` — every PCR statement, either width, with the target spelt out
  (`≡ address ± c (mod 65536)` for every sign of `c`, `c − address` for `c − label`); `C03_label_offset_target`,
  `C03_label_offset`, `C03_label_offset_postbyte` — `LDA TABLE,X` carries the ADDRESS in a 16-bit field, post byte `$x9`.
-/
import CoCoVerif.Lemmas.PcrWidthFix
import CoCoVerif.Lemmas.PcrWidthPost
import CoCoVerif.Props.C03
import CoCoVerif.Props.C02Size

namespace CoCo.Props
open CoCo CoCo.Asm

/-! ### the size loop is sound -/

/-- **Soundness of `determine_pcr_relative_sizes`.**  Through the whole loop, the final size of every statement
lies between the `size` and the `maxSize` the translation gave it, and a statement whose size was fixed by the
translation is not touched.  (The same holds from every intermediate state of the loop: `pcrLoop_winv`.) -/
theorem C03_size_sound {ss1 ss2 fin : List Stmt} {fuel : Nat} (ht : translateAll ss1 = some ss2)
    (h : pcrLoop fuel ss2 = .ok fin) :
    PW (fun s f => s.pkg.size ≤ f.pkg.size ∧ f.pkg.size ≤ s.pkg.maxSize ∧ (s.fixedSize = true → f = s)) ss2 fin :=
  (pcrLoop_width ht h).1

/-- every translated statement has `size ≤ maxSize`; an undecided PCR statement has `maxSize = size + 2` -/
theorem C03_translate_sizes {ss1 ss2 : List Stmt} (ht : translateAll ss1 = some ss2) {j : Nat} {s : Stmt}
    (hs : ss2[j]? = some s) :
    s.pkg.size ≤ s.pkg.maxSize ∧ (s.pkg.choices ≠ [] → s.pkg.maxSize = s.pkg.size + 2) := by
  obtain ⟨hok, hfx, _⟩ := translateAll_winv ht j s hs
  refine ⟨hok.le, fun hc => ?_⟩
  cases hf : s.fixedSize with
  | false => exact (hok.und hf hc).1
  | true =>
    -- a statement with post-byte choices is never fixed by the translation
    exfalso
    obtain ⟨s1, hs1, p, htr, rfl⟩ := (translateAll_pw ht).get' hs
    have hc' : p.choices ≠ [] := hc
    have hf' : p.choices.isEmpty = true := hf
    cases hp : p.choices with
    | nil => exact hc' hp
    | cons c cs => rw [hp] at hf'; simp at hf'

/-- the 8-bit form is produced by `determine` under its distance test only: `force_pcr_16_bit` settles on 16 bits -/
theorem C03_force_is_16 {ss r : List Stmt} (h : forceFirst ss = some r) :
    r = ss ∨ ∃ i s s', ss[i]? = some s ∧ s.fixedSize = false ∧ r = ss.set i s' ∧ s'.pcrHint = 4 := by
  rcases forceFirst_step h with h1 | ⟨i, s, s', c, h1, h2, _, h4, h5⟩
  · exact .inl h1
  · exact .inr ⟨i, s, s', h1, h2, h5, (settle_eq h4).2.2.1⟩

/-! ### the umbrella theorem -/

/-- **Width of the 8-bit PCR form**, on the statement list `ss4` that enters `fix_addresses` (equal to `a.stmts`
except for `pkg.additional`).  For every PCR statement `s` (index `i`) settled on the 8-bit form:
its offset `s4.pkg.additional` names a statement `b` (`relIndex`), is a plain label or `label ± number`
(`exprForces = false`, `Dist8`), and when no ORG lies between `b` and `i` the signed distance `d` from the end
of `s` to the target — computed in ℤ, without any wrap — satisfies `−128 ≤ d ≤ 127`; `fix_addresses` computes
`NumericValue(d, size_hint=2)`, `fit_operand_width` accepts it (`fitWidth (withAdditional s v) = .ok s`), and the final
field is the two's complement byte `d mod 256` at two hex digits. -/
theorem C03_pcr8_width {fs : Files} {lines : List Str} {a : Assembly} (h : assemble fs lines = .ok a) :
    ∃ ss4 : List Stmt, PW SameButAdditional ss4 a.stmts ∧
      ∀ (i : Nat) (s4 s : Stmt), ss4[i]? = some s4 → a.stmts[i]? = some s →
        s.pkg.choices ≠ [] → s.pcrHint = 2 →
        ∃ b, relIndex s4.pkg.additional = some b ∧ exprForces s4.pkg.additional = false ∧
          ∀ t, a.stmts[b]? = some t →
            (∀ j u, min b i < j → j ≤ max b i → a.stmts[j]? = some u → u.row.mnemonic ≠ "ORG") →
            ∃ x y v, ∃ d : Int, addrNat s = some x ∧ addrNat t = some y ∧ -128 ≤ d ∧ d ≤ 127 ∧
              numericOfInt d (some 2) .none = .ok v ∧ fitWidth (withAdditional s v) = .ok s ∧
              s.pkg.additional = .numeric (d % 256).toNat (some 2) .extended false ∧
              Dist8 s4.pkg.additional x y s.pkg.size d := by
  obtain ⟨st⟩ := assemble_stages h
  refine ⟨st.ss4, fixAllL_pw st.hfix, ?_⟩
  intro i s4 s hs4 hs hc hh
  obtain ⟨s3, s4', pre⟩ := st.pcr_pre hs hc
  have : s4' = s4 := by have := pre.h4; rw [hs4] at this; exact (Option.some.inj this).symm
  subst this
  exact st.pcr8_stored hs hh pre

/-! ### plain labels -/

/-- the offset of a PCR statement whose operand's left side is the plain label of statement `b` -/
private theorem plain_addl {fs : Files} {lines : List Str} {a : Assembly} {st : Stages fs lines a}
    {i b : Nat} {m : Mode} {s s3 s4 : Stmt} (pre : PcrPre st i s s3 s4)
    (hl : s.operand.left = .val (.address b m)) :
    s4.pkg.additional.isAddrExpr = false ∧ relIndex s4.pkg.additional = some b := by
  have hop : s.operand = s4.operand := pre.same.2.2.2.2
  obtain ⟨hh, mm, hadd⟩ : ∃ hh mm, s4.pkg.additional = .numeric b hh mm false :=
    pre.left pre.needs (.address b m) (by rw [← hop]; exact hl)
  rw [hadd]
  exact ⟨rfl, rfl⟩

/-- **C03, PCR clause, plain label**: for every accepted program, every PCR statement `s` whose offset is the label
of statement `t` — ORG in between or not (batch B2: the hypothesis "no ORG between" is gone) — `PcrField s t`: the
field (before `fit_operand_width` re-renders it) is `NumericValue(pcrJump, size_hint = pcrHint)`, `pcrJump` the signed
16-bit distance from the end of `s` to the ADDRESS of `t`, and, on the 8-bit form, `−128 ≤ pcrJump ≤ 127`.
This is the second clause of `C03_Statement`. -/
theorem C03_pcr_label {fs : Files} {lines : List Str} {a : Assembly} (h : assemble fs lines = .ok a)
    {i b : Nat} {m : Mode} {s t : Stmt} (hs : a.stmts[i]? = some s) (hc : s.pkg.choices ≠ [])
    (hl : s.operand.left = .val (.address b m)) (ht : a.stmts[b]? = some t) :
    PcrField s t := by
  obtain ⟨st⟩ := assemble_stages h
  obtain ⟨s3, s4, pre⟩ := st.pcr_pre hs hc
  obtain ⟨he, hb⟩ := plain_addl pre hl
  obtain ⟨target, start, v, htgt, hstart, hnum, hsv, _⟩ := pre.stored
  obtain ⟨x, hx⟩ := st.chained.isSome hs
  obtain ⟨y, hy⟩ := st.chained.isSome ht
  have hstart' : start = x := by
    rw [st.addrIntOf4 hs, hx] at hstart; exact (Option.some.inj hstart).symm
  have hy' := fixRel_target_plain he hb htgt
  rw [st.addrIntOf4 ht, hy] at hy'
  have hty : target = y := (Option.some.inj hy').symm
  subst hstart' hty
  obtain ⟨hhint, _, hwa, hj', _⟩ := pre.same
  have hj : pcrJump s target start = pcrJump s4 target start := hj' _ _
  refine ⟨start, target, v, hx, hy, by rw [hj, hhint]; exact hnum, by rw [hwa]; exact hsv, ?_⟩
  intro hh
  obtain ⟨target', x', _, htgt', hx', hlo, hhi, _⟩ := st.pcr8_any hs hh pre
  rw [htgt] at htgt'; rw [hx] at hx'
  have e1 : target = target' := by cases htgt'; rfl
  have e2 : start = x' := Option.some.inj hx'
  subst e1 e2
  rw [pcrJump_hint2 hh]
  exact ⟨hlo, hhi⟩

/-- **the PCR clause of `C03_Statement` holds for every accepted program** -/
theorem C03_pcr_clause {fs : Files} {lines : List Str} {a : Assembly} (h : assemble fs lines = .ok a) :
    ∀ (i b : Nat) (m : Mode) (s t : Stmt), a.stmts[i]? = some s → s.pkg.choices ≠ [] →
      s.operand.left = .val (.address b m) → a.stmts[b]? = some t → PcrField s t :=
  fun _ _ _ _ _ hs hc hl ht => C03_pcr_label h hs hc hl ht

/-- plain label, 8-bit form, ORG or not: `d := address(t) − address(s) − size(s)` read as a signed 16-bit distance
satisfies `−128 ≤ d ≤ 127`, `NumericValue(d, size_hint=2)` is what `fix_addresses` computes and `fit_operand_width`
accepts, and the final field is the byte `d mod 256` -/
theorem C03_pcr_label_in_range {fs : Files} {lines : List Str} {a : Assembly} (h : assemble fs lines = .ok a)
    {i b : Nat} {m : Mode} {s t : Stmt} (hs : a.stmts[i]? = some s) (hc : s.pkg.choices ≠ [])
    (hh : s.pcrHint = 2) (hl : s.operand.left = .val (.address b m)) (ht : a.stmts[b]? = some t) :
    ∃ x y v, addrNat s = some x ∧ addrNat t = some y ∧
      -128 ≤ sdist16 ((y : Int) - x - s.pkg.size) ∧ sdist16 ((y : Int) - x - s.pkg.size) ≤ 127 ∧
      numericOfInt (sdist16 ((y : Int) - x - s.pkg.size)) (some 2) .none = .ok v ∧
      fitWidth (withAdditional s v) = .ok s ∧
      s.pkg.additional = .numeric (sdist16 ((y : Int) - x - s.pkg.size) % 256).toNat (some 2) .extended false := by
  obtain ⟨st⟩ := assemble_stages h
  obtain ⟨s3, s4, pre⟩ := st.pcr_pre hs hc
  obtain ⟨he, hb⟩ := plain_addl pre hl
  obtain ⟨b', t', x, y, target, v, hb', _, ht', hx, hy, htg, hlo, hhi, hnum, hfit, hadd⟩ :=
    st.pcr8_any_target hs hh pre
  rw [hb] at hb'
  have : b = b' := Option.some.inj hb'
  subst this
  rw [ht] at ht'; cases ht'
  rcases htg with ⟨_, rfl⟩ | ⟨l, r, op, m', k, _, _, _, hexp, _⟩
  · exact ⟨x, target, v, hx, hy, hlo, hhi, hnum, hfit, hadd⟩
  · rw [hexp] at he; simp [Value.isAddrExpr] at he

/-- plain label, 8-bit form, no ORG in between, in the terms of the task statement: `jump := address(t) − address(s) − size(s)`
computed in ℤ satisfies `−128 ≤ jump ≤ 127`, `NumericValue(jump, size_hint=2)` is what `fix_addresses` computes and
`fit_operand_width` accepts, and the final field is the byte `jump mod 256` -/
theorem C03_pcr_label_width {fs : Files} {lines : List Str} {a : Assembly} (h : assemble fs lines = .ok a)
    {i b : Nat} {m : Mode} {s t : Stmt} (hs : a.stmts[i]? = some s) (hc : s.pkg.choices ≠ [])
    (hh : s.pcrHint = 2) (hl : s.operand.left = .val (.address b m)) (ht : a.stmts[b]? = some t)
    (hno : ∀ j u, min b i < j → j ≤ max b i → a.stmts[j]? = some u → u.row.mnemonic ≠ "ORG") :
    ∃ x y v, addrNat s = some x ∧ addrNat t = some y ∧
      -128 ≤ (y : Int) - x - s.pkg.size ∧ (y : Int) - x - s.pkg.size ≤ 127 ∧
      numericOfInt ((y : Int) - x - s.pkg.size) (some 2) .none = .ok v ∧ fitWidth (withAdditional s v) = .ok s ∧
      s.pkg.additional = .numeric (((y : Int) - x - s.pkg.size) % 256).toNat (some 2) .extended false := by
  obtain ⟨st⟩ := assemble_stages h
  obtain ⟨s3, s4, pre⟩ := st.pcr_pre hs hc
  obtain ⟨he, hb⟩ := plain_addl pre hl
  obtain ⟨b', hb', _, hw⟩ := st.pcr8_stored hs hh pre
  rw [hb] at hb'
  have : b = b' := Option.some.inj hb'
  subst this
  obtain ⟨x, y, v, d, hx, hy, hlo, hhi, hnum, hfit, hadd, hd⟩ := hw t ht hno
  rcases hd with ⟨_, hd⟩ | ⟨l, r, op, m', k, _, _, _, hexp, _⟩
  · subst hd
    exact ⟨x, y, v, hx, hy, hlo, hhi, hnum, hfit, hadd⟩
  · rw [hexp] at he; simp [Value.isAddrExpr] at he

/-! ### `label ± k` -/

/-- **`label ± k,PCR` on the 8-bit form, no ORG in between.**  `l`, `r` are the two sides of the resolved expression,
one of them the label of statement `b` (`relIndex`).  Then the operator is `+` or `-`, the other side is a number with
signed value `c = signedK k nk` (a constant written or defined with a minus sign counts negatively), and the signed
distance `d` to `address(t) + c` resp. `address(t) − c`, computed in ℤ (no wrap, whatever the signs), lies in
`−128 .. 127`, is what `fix_addresses` computes as `NumericValue(d, size_hint=2)`, passes `fit_operand_width`, and ends
as the byte `d mod 256`.  Batch B3: no magnitude any more in the `+` case (`C03_pcr_plus_negative_fixed`); NEW case
`c − label` (the label on the right of the minus sign): the operand denotes `c − address(t)` modulo 65536, and `d` is the
signed 16-bit distance to THAT (in range because `fix_addresses` checks it). -/
theorem C03_pcr_expr_width {fs : Files} {lines : List Str} {a : Assembly} (h : assemble fs lines = .ok a)
    {i b : Nat} {l r : Value} {op : Char} {m : Mode} {s t : Stmt} (hs : a.stmts[i]? = some s)
    (hc : s.pkg.choices ≠ []) (hh : s.pcrHint = 2)
    (hl : s.operand.left = .val (.expr l r op m true))
    (hb : (if l.isAddress then l.int? else r.int?) = some b) (ht : a.stmts[b]? = some t)
    (hno : ∀ j u, min b i < j → j ≤ max b i → a.stmts[j]? = some u → u.row.mnemonic ≠ "ORG") :
    ∃ x y k hk mk nk v, ∃ d : Int, addrNat s = some x ∧ addrNat t = some y ∧
      (if l.isAddress then r else l) = .numeric k hk mk nk ∧
      ((op = '+' ∧ d = (y : Int) + signedK k nk - x - s.pkg.size) ∨
       (op = '-' ∧ l.isAddress = true ∧ d = (y : Int) - signedK k nk - x - s.pkg.size) ∨
       (op = '-' ∧ l.isAddress = false ∧ d = sdist16 (signedK k nk - (y : Int) - x - s.pkg.size))) ∧
      -128 ≤ d ∧ d ≤ 127 ∧ numericOfInt d (some 2) .none = .ok v ∧ fitWidth (withAdditional s v) = .ok s ∧
      s.pkg.additional = .numeric (d % 256).toNat (some 2) .extended false := by
  obtain ⟨st⟩ := assemble_stages h
  obtain ⟨s3, s4, pre⟩ := st.pcr_pre hs hc
  have hop : s.operand = s4.operand := pre.same.2.2.2.2
  have hadd4 : s4.pkg.additional = .expr l r op m true :=
    pre.left pre.needs (.expr l r op m true) (by rw [← hop]; exact hl)
  obtain ⟨b', hb', _, hw⟩ := st.pcr8_stored hs hh pre
  rw [hadd4] at hb'
  have hb'' : (if l.isAddress = true then l.int? else r.int?) = some b' := hb'
  rw [hb] at hb''
  have : b = b' := Option.some.inj hb''
  subst this
  obtain ⟨x, y, v, d, hx, hy, hlo, hhi, hnum, hfit, hadd, hd⟩ := hw t ht hno
  rw [hadd4] at hd
  rcases hd with ⟨he, _⟩ | ⟨l', r', op', m', k, hk, mk, nk, hexp, hoth, hcase⟩
  · simp [Value.isAddrExpr] at he
  · cases hexp
    exact ⟨x, y, k, hk, mk, nk, v, d, hx, hy, hoth, hcase, hlo, hhi, hnum, hfit, hadd⟩

/-- **`label ± k,PCR` on the 8-bit form, ORG or not**: the target is `(address(t) + c) mod 65536` resp.
`(address(t) − c) mod 65536` — batch B3: for EVERY sign of `c`, the exception for a negative sum is gone — or
`(c − address(t)) mod 65536` for `c − label` (`Target8`), and the signed 16-bit distance `d` from the end of `s` to it
lies in `−128 .. 127` and ends as the byte `d mod 256` -/
theorem C03_pcr_expr_in_range {fs : Files} {lines : List Str} {a : Assembly} (h : assemble fs lines = .ok a)
    {i b : Nat} {l r : Value} {op : Char} {m : Mode} {s t : Stmt} (hs : a.stmts[i]? = some s)
    (hc : s.pkg.choices ≠ []) (hh : s.pcrHint = 2)
    (hl : s.operand.left = .val (.expr l r op m true))
    (hb : (if l.isAddress then l.int? else r.int?) = some b) (ht : a.stmts[b]? = some t) :
    ∃ x y k hk mk nk target v, addrNat s = some x ∧ addrNat t = some y ∧
      (if l.isAddress then r else l) = .numeric k hk mk nk ∧
      ((op = '+' ∧ (target : Int) = ((y : Int) + signedK k nk) % 65536) ∨
       (op = '-' ∧ l.isAddress = true ∧ (target : Int) = ((y : Int) - signedK k nk) % 65536) ∨
       (op = '-' ∧ l.isAddress = false ∧ (target : Int) = (signedK k nk - (y : Int)) % 65536)) ∧
      -128 ≤ sdist16 ((target : Int) - x - s.pkg.size) ∧ sdist16 ((target : Int) - x - s.pkg.size) ≤ 127 ∧
      numericOfInt (sdist16 ((target : Int) - x - s.pkg.size)) (some 2) .none = .ok v ∧
      fitWidth (withAdditional s v) = .ok s ∧
      s.pkg.additional = .numeric (sdist16 ((target : Int) - x - s.pkg.size) % 256).toNat (some 2) .extended false := by
  obtain ⟨st⟩ := assemble_stages h
  obtain ⟨s3, s4, pre⟩ := st.pcr_pre hs hc
  have hop : s.operand = s4.operand := pre.same.2.2.2.2
  have hadd4 : s4.pkg.additional = .expr l r op m true :=
    pre.left pre.needs (.expr l r op m true) (by rw [← hop]; exact hl)
  obtain ⟨b', t', x, y, target, v, hb', _, ht', hx, hy, htg, hlo, hhi, hnum, hfit, hadd⟩ :=
    st.pcr8_any_target hs hh pre
  rw [hadd4] at hb'
  have hb'' : (if l.isAddress = true then l.int? else r.int?) = some b' := hb'
  rw [hb] at hb''
  have : b = b' := Option.some.inj hb''
  subst this
  rw [ht] at ht'; cases ht'
  rw [hadd4] at htg
  rcases htg with ⟨he, _⟩ | ⟨l', r', op', m', k, hk, mk, nk, hexp, hoth, hcase⟩
  · simp [Value.isAddrExpr] at he
  · cases hexp
    exact ⟨x, y, k, hk, mk, nk, target, v, hx, hy, hoth, hcase, hlo, hhi, hnum, hfit, hadd⟩

/-! ### batch B3: every PCR statement, either width, with the target; and the label offset of a pointer register -/

/-- **the PCR clause for every operand shape and both widths**: every PCR statement `s` of an accepted program stores
the signed 16-bit distance from its end to the target `fix_addresses` computed (`PcrFieldAt`: `NumericValue(pcrJump,
size_hint = pcrHint)`, accepted by `fit_operand_width`, a signed byte on the 8-bit form); and when the offset is a plain
label or `label ± number` / `number ± label` (`exprForces = false`) the target is `Target8`: the address `y` of the
statement `t` the operand names, `(y ± c) mod 65536` — for a NEGATIVE `c` as for a positive one — or `(c − y) mod 65536` -/
theorem C03_pcr_field_target {fs : Files} {lines : List Str} {a : Assembly} (h : assemble fs lines = .ok a) :
    ∃ ss4 : List Stmt, PW SameButAdditional ss4 a.stmts ∧
      ∀ (i : Nat) (s4 s : Stmt), ss4[i]? = some s4 → a.stmts[i]? = some s → s.pkg.choices ≠ [] →
        ∃ target, fixRel ss4 s4 = .ok target ∧ PcrFieldAt s target ∧
          (exprForces s4.pkg.additional = false →
            ∃ b t y, relIndex s4.pkg.additional = some b ∧ a.stmts[b]? = some t ∧ addrNat t = some y ∧
              Target8 s4.pkg.additional y target) := by
  obtain ⟨st⟩ := assemble_stages h
  refine ⟨st.ss4, fixAllL_pw st.hfix, ?_⟩
  intro i s4 s hs4 hs hc
  obtain ⟨s3, s4', pre⟩ := st.pcr_pre hs hc
  have : s4' = s4 := by have := pre.h4; rw [hs4] at this; exact (Option.some.inj this).symm
  subst this
  obtain ⟨target, htgt, hfield⟩ := st.pcr_field hs pre
  exact ⟨target, htgt, hfield, fun hf => pre.target htgt hf⟩

/-- **`label ± c,PCR`, both widths, in source terms** (Phase 2a): `l`, `r` the two sides of the resolved expression, one the
label of statement `b`, the other a number of signed value `c`; `op` is `+` or `-`.  Then the field of `s` aims at
`target ≡ address(t) ± c (mod 65536)` — `c − address(t)` when the label stands right of the minus sign -/
theorem C03_pcr_expr_field {fs : Files} {lines : List Str} {a : Assembly} (h : assemble fs lines = .ok a)
    {i b k : Nat} {l r : Value} {op : Char} {m mk : Mode} {hk : Option Nat} {nk : Bool} {s t : Stmt}
    (hs : a.stmts[i]? = some s) (hc : s.pkg.choices ≠ [])
    (hl : s.operand.left = .val (.expr l r op m true)) (hop : op = '+' ∨ op = '-')
    (hoth : (if l.isAddress then r else l) = .numeric k hk mk nk)
    (hb : (if l.isAddress then l.int? else r.int?) = some b) (ht : a.stmts[b]? = some t) :
    ∃ y target, addrNat t = some y ∧ PcrFieldAt s target ∧
      ((op = '+' ∧ (target : Int) = ((y : Int) + signedK k nk) % 65536) ∨
       (op = '-' ∧ l.isAddress = true ∧ (target : Int) = ((y : Int) - signedK k nk) % 65536) ∨
       (op = '-' ∧ l.isAddress = false ∧ (target : Int) = (signedK k nk - (y : Int)) % 65536)) := by
  obtain ⟨st⟩ := assemble_stages h
  obtain ⟨s3, s4, pre⟩ := st.pcr_pre hs hc
  have hop' : s.operand = s4.operand := pre.same.2.2.2.2
  have hadd4 : s4.pkg.additional = .expr l r op m true :=
    pre.left pre.needs (.expr l r op m true) (by rw [← hop']; exact hl)
  -- batch 4: `number - label` is forced to the 16-bit form (`exprForces = true`), so the target is taken from
  -- `fixRel_target_expr_pm`, which needs the shape of the expression only
  obtain ⟨target, htgt, hfield⟩ := st.pcr_field hs pre
  have hb4 : relIndex s4.pkg.additional = some b := by rw [hadd4]; exact hb
  obtain ⟨y, hy', _, hcase⟩ :=
    fixRel_target_expr_pm pre.idx hadd4 (pre.lr _ _ _ _ hadd4) hop hoth hb4 htgt
  obtain ⟨t', ht', hy⟩ := st.addrIntOf4_some hy'
  rw [ht] at ht'; cases ht'
  exact ⟨y, target, hy, hfield, hcase⟩

/-- **batch 4: `number − label,PCR` always takes the 16-bit form** (`exprForces`, third disjunct: the operand denotes
`c − address`, nowhere near the label, so the size loop does not estimate it).  For every accepted program, a PCR
statement whose resolved offset is `l − r` with the label on the RIGHT carries the 16-bit post byte. -/
theorem C03_pcr_minus_label_16bit {fs : Files} {lines : List Str} {a : Assembly} (h : assemble fs lines = .ok a)
    {i : Nat} {l r : Value} {m : Mode} {s : Stmt} (hs : a.stmts[i]? = some s) (hc : s.pkg.choices ≠ [])
    (hl : s.operand.left = .val (.expr l r '-' m true)) (hr : r.isAddress = true) : s.pcrHint = 4 := by
  obtain ⟨st⟩ := assemble_stages h
  obtain ⟨s3, s4, pre⟩ := st.pcr_pre hs hc
  have hop' : s.operand = s4.operand := pre.same.2.2.2.2
  have hadd4 : s4.pkg.additional = .expr l r '-' m true :=
    pre.left pre.needs (.expr l r '-' m true) (by rw [← hop']; exact hl)
  obtain ⟨pb, _, h2 | h4⟩ := st.pcr_postbyte pre
  · exfalso
    obtain ⟨b, _, hf, _⟩ := st.pcr8_dist hs h2.1 pre
    rw [hadd4] at hf
    have := exprForces_false_minus hf
    rw [hr] at this
    cases this
  · exact h4.1

/-! ### every 8-bit PCR statement of every accepted program (batch B2) -/

/-- **C03, second sentence: "a displacement is never emitted in a field too narrow for it"** — for EVERY accepted
program, ORG or not, on the statement list `ss4` that enters `fix_addresses` (equal to `a.stmts` except for
`pkg.additional`).  Every PCR statement `s` (index `i`) settled on the 8-bit form: its offset names a statement
`b` (`relIndex`), is a plain label or `label ± number` (`exprForces = false`), the statement `b` exists (`t`, address
`y`), the target is `y`, `|y + c|` or `(y − c) mod 65536` (`Target8`), and the stored field is the two's complement
byte (two hex digits) of `d = sdist16 (target − address(s) − size(s))`, the signed 16-bit distance from the end of
the statement to the target, with `−128 ≤ d ≤ 127`. -/
theorem C03_pcr8_in_range {fs : Files} {lines : List Str} {a : Assembly} (h : assemble fs lines = .ok a) :
    ∃ ss4 : List Stmt, PW SameButAdditional ss4 a.stmts ∧
      ∀ (i : Nat) (s4 s : Stmt), ss4[i]? = some s4 → a.stmts[i]? = some s →
        s.pkg.choices ≠ [] → s.pcrHint = 2 →
        ∃ b t x y target v, relIndex s4.pkg.additional = some b ∧ exprForces s4.pkg.additional = false ∧
          a.stmts[b]? = some t ∧ addrNat s = some x ∧ addrNat t = some y ∧ Target8 s4.pkg.additional y target ∧
          -128 ≤ sdist16 ((target : Int) - x - s.pkg.size) ∧ sdist16 ((target : Int) - x - s.pkg.size) ≤ 127 ∧
          numericOfInt (sdist16 ((target : Int) - x - s.pkg.size)) (some 2) .none = .ok v ∧
          fitWidth (withAdditional s v) = .ok s ∧
          s.pkg.additional =
            .numeric (sdist16 ((target : Int) - x - s.pkg.size) % 256).toNat (some 2) .extended false := by
  obtain ⟨st⟩ := assemble_stages h
  refine ⟨st.ss4, fixAllL_pw st.hfix, ?_⟩
  intro i s4 s hs4 hs hc hh
  obtain ⟨s3, s4', pre⟩ := st.pcr_pre hs hc
  have : s4' = s4 := by have := pre.h4; rw [hs4] at this; exact (Option.some.inj this).symm
  subst this
  exact st.pcr8_any_target hs hh pre

/-- **the width hint is the emitted post byte**: every PCR statement with a label offset of an accepted program has
`pcrHint = 2` and a post byte `1xx01100` (low nibble `$C`: "8-bit offset from PC") or `pcrHint = 4` and `1xx01101`
(low nibble `$D`: "16-bit offset from PC").  So the hypothesis `s.pcrHint = 2` of the width theorems says "the statement
carries the 8-bit post byte". -/
theorem C03_pcr_postbyte {fs : Files} {lines : List Str} {a : Assembly} (h : assemble fs lines = .ok a)
    {i : Nat} {s : Stmt} (hs : a.stmts[i]? = some s) (hc : s.pkg.choices ≠ []) :
    ∃ pb, s.pkg.postByte.int? = some pb ∧
      ((s.pcrHint = 2 ∧ pb % 16 = 12) ∨ (s.pcrHint = 4 ∧ pb % 16 = 13)) := by
  obtain ⟨st⟩ := assemble_stages h
  obtain ⟨s3, s4, pre⟩ := st.pcr_pre hs hc
  exact st.pcr_postbyte pre

/-- ... in particular a PCR statement whose post byte has the low nibble `$C` is on the 8-bit form -/
theorem C03_pcr_postbyte8 {fs : Files} {lines : List Str} {a : Assembly} (h : assemble fs lines = .ok a)
    {i pb : Nat} {s : Stmt} (hs : a.stmts[i]? = some s) (hc : s.pkg.choices ≠ [])
    (hpb : s.pkg.postByte.int? = some pb) (h8 : pb % 16 = 12) : s.pcrHint = 2 := by
  obtain ⟨pb', h1, h2⟩ := C03_pcr_postbyte h hs hc
  rw [hpb] at h1
  cases h1
  rcases h2 with ⟨h2, _⟩ | ⟨_, h2⟩
  · exact h2
  · omega

/-- `C03_pcr8_in_range` with the hypothesis on the EMITTED post byte (low nibble `$C`) instead of the width hint -/
theorem C03_pcr8_in_range_postbyte {fs : Files} {lines : List Str} {a : Assembly} (h : assemble fs lines = .ok a) :
    ∃ ss4 : List Stmt, PW SameButAdditional ss4 a.stmts ∧
      ∀ (i pb : Nat) (s4 s : Stmt), ss4[i]? = some s4 → a.stmts[i]? = some s →
        s.pkg.choices ≠ [] → s.pkg.postByte.int? = some pb → pb % 16 = 12 →
        ∃ b t x y target v, relIndex s4.pkg.additional = some b ∧ exprForces s4.pkg.additional = false ∧
          a.stmts[b]? = some t ∧ addrNat s = some x ∧ addrNat t = some y ∧ Target8 s4.pkg.additional y target ∧
          -128 ≤ sdist16 ((target : Int) - x - s.pkg.size) ∧ sdist16 ((target : Int) - x - s.pkg.size) ≤ 127 ∧
          numericOfInt (sdist16 ((target : Int) - x - s.pkg.size)) (some 2) .none = .ok v ∧
          fitWidth (withAdditional s v) = .ok s ∧
          s.pkg.additional =
            .numeric (sdist16 ((target : Int) - x - s.pkg.size) % 256).toNat (some 2) .extended false := by
  obtain ⟨ss4, hpw, hall⟩ := C03_pcr8_in_range h
  exact ⟨ss4, hpw, fun i pb s4 s hs4 hs hc hpb h8 => hall i s4 s hs4 hs hc (C03_pcr_postbyte8 h hs hc hpb h8)⟩

/-- the emitted byte: the last byte of an 8-bit PCR statement is `d mod 256`, `d` as in `C03_pcr8_in_range` -/
theorem C03_pcr8_byte {s : Stmt} {bs : Bytes} {d : Int} (hb : stmtBytes s = some bs)
    (ha : s.pkg.additional = .numeric (d % 256).toNat (some 2) .extended false) :
    ∃ pre, bs = pre ++ [(d % 256).toNat] := by
  have hlt : (d % 256).toNat < 256 := by omega
  exact stmtBytes_suffix hb (by rw [ha]; exact emit8 _ hlt)

/-! ### summary -/

/-- What is proved of the width invariant.  (1) the size loop is sound: final sizes lie in `[size, maxSize]`;
(2) plain label: `PcrField` for every accepted program (batch B2: no hypothesis on ORGs); (3) every 8-bit PCR
statement with no ORG in between: offset is a plain label or `label ± number`, the distance in ℤ fits `−128..127`,
and the final field is its two's complement byte; (4) (batch B2) every 8-bit PCR statement, ORG or not: the field is
the two's complement byte of the signed 16-bit distance to the target, which fits `−128..127`. -/
theorem C03_width_partial :
    (∀ (ss1 ss2 fin : List Stmt) (fuel : Nat), translateAll ss1 = some ss2 → pcrLoop fuel ss2 = .ok fin →
      PW (fun s f => s.pkg.size ≤ f.pkg.size ∧ f.pkg.size ≤ s.pkg.maxSize ∧ (s.fixedSize = true → f = s)) ss2 fin) ∧
    (∀ (fs : Files) (lines : List Str) (a : Assembly), assemble fs lines = .ok a →
      ∀ (i b : Nat) (m : Mode) (s t : Stmt), a.stmts[i]? = some s → s.pkg.choices ≠ [] →
        s.operand.left = .val (.address b m) → a.stmts[b]? = some t →
        PcrField s t) ∧
    (∀ (fs : Files) (lines : List Str) (a : Assembly), assemble fs lines = .ok a →
      ∃ ss4 : List Stmt, PW SameButAdditional ss4 a.stmts ∧
        ∀ (i : Nat) (s4 s : Stmt), ss4[i]? = some s4 → a.stmts[i]? = some s →
          s.pkg.choices ≠ [] → s.pcrHint = 2 →
          ∃ b, relIndex s4.pkg.additional = some b ∧ exprForces s4.pkg.additional = false ∧
            ∀ t, a.stmts[b]? = some t →
              (∀ j u, min b i < j → j ≤ max b i → a.stmts[j]? = some u → u.row.mnemonic ≠ "ORG") →
              ∃ x y v, ∃ d : Int, addrNat s = some x ∧ addrNat t = some y ∧ -128 ≤ d ∧ d ≤ 127 ∧
                numericOfInt d (some 2) .none = .ok v ∧ fitWidth (withAdditional s v) = .ok s ∧
                s.pkg.additional = .numeric (d % 256).toNat (some 2) .extended false ∧
                Dist8 s4.pkg.additional x y s.pkg.size d) ∧
    (∀ (fs : Files) (lines : List Str) (a : Assembly), assemble fs lines = .ok a →
      ∃ ss4 : List Stmt, PW SameButAdditional ss4 a.stmts ∧
        ∀ (i : Nat) (s4 s : Stmt), ss4[i]? = some s4 → a.stmts[i]? = some s →
          s.pkg.choices ≠ [] → s.pcrHint = 2 →
          ∃ b t x y target v, relIndex s4.pkg.additional = some b ∧ exprForces s4.pkg.additional = false ∧
            a.stmts[b]? = some t ∧ addrNat s = some x ∧ addrNat t = some y ∧ Target8 s4.pkg.additional y target ∧
            -128 ≤ sdist16 ((target : Int) - x - s.pkg.size) ∧ sdist16 ((target : Int) - x - s.pkg.size) ≤ 127 ∧
            numericOfInt (sdist16 ((target : Int) - x - s.pkg.size)) (some 2) .none = .ok v ∧
            fitWidth (withAdditional s v) = .ok s ∧
            s.pkg.additional =
              .numeric (sdist16 ((target : Int) - x - s.pkg.size) % 256).toNat (some 2) .extended false) :=
  ⟨fun _ _ _ _ ht h => C03_size_sound ht h,
   fun _ _ _ h _ _ _ _ _ hs hc hl ht => C03_pcr_label h hs hc hl ht,
   fun _ _ _ h => C03_pcr8_width h,
   fun _ _ _ h => C03_pcr8_in_range h⟩

/-! ### witnesses (kernel-checked) -/

/-- statement `i` is a PCR statement (post byte choices) with the given width hint, size, address and emitted bytes -/
private def pcrIs (a : Assembly) (i hint size addr : Nat) (bytes : Bytes) : Bool :=
  match a.stmts[i]? with
  | some s => !s.pkg.choices.isEmpty && s.pcrHint == hint && s.pkg.size == size && addrNat s == some addr &&
      stmtBytes s == some bytes
  | none => false

private theorem pcrIs_spec {a : Assembly} {i hint size addr : Nat} {bytes : Bytes}
    (h : pcrIs a i hint size addr bytes = true) :
    ∃ s, a.stmts[i]? = some s ∧ s.pkg.choices ≠ [] ∧ s.pcrHint = hint ∧ s.pkg.size = size ∧
      addrNat s = some addr ∧ stmtBytes s = some bytes := by
  unfold pcrIs at h
  split at h
  · rename_i s hs
    simp only [Bool.and_eq_true, beq_iff_eq, Bool.not_eq_true', List.isEmpty_eq_false_iff] at h
    obtain ⟨⟨⟨⟨h1, h2⟩, h3⟩, h4⟩, h5⟩ := h
    exact ⟨s, hs, h1, h2, h3, h4, h5⟩
  · cases h

/-- the bound −128 is attained: `LEAX T,PCR` 125 bytes after `T` takes the 8-bit form with displacement `$80` -/
def C03_tightWitness : List Str := ["T RMB 125\n", " LEAX T,PCR\n"].map String.toList

theorem C03_width_tight :
    ∃ a s, assemble [] C03_tightWitness = .ok a ∧ a.stmts[1]? = some s ∧ s.pkg.choices ≠ [] ∧ s.pcrHint = 2 ∧
      s.pkg.size = 3 ∧ addrNat s = some 125 ∧ stmtBytes s = some [0x30, 0x8C, 0x80] := by
  obtain ⟨a, ha, hc⟩ := checkProgram_sound (lines := C03_tightWitness)
    (check := fun a => pcrIs a 1 2 3 125 [0x30, 0x8C, 0x80]) (by decide +kernel) []
  obtain ⟨s, h1, h2, h3, h4, h5, h6⟩ := pcrIs_spec hc
  exact ⟨a, s, ha, h1, h2, h3, h4, h5, h6⟩

/-- one byte further the 16-bit form is taken -/
def C03_tightWitness16 : List Str := ["T RMB 126\n", " LEAX T,PCR\n"].map String.toList

theorem C03_width_tight16 :
    ∃ a s, assemble [] C03_tightWitness16 = .ok a ∧ a.stmts[1]? = some s ∧ s.pkg.choices ≠ [] ∧ s.pcrHint = 4 ∧
      s.pkg.size = 4 ∧ addrNat s = some 126 ∧ stmtBytes s = some [0x30, 0x8D, 0xFF, 0x7E] := by
  obtain ⟨a, ha, hc⟩ := checkProgram_sound (lines := C03_tightWitness16)
    (check := fun a => pcrIs a 1 4 4 126 [0x30, 0x8D, 0xFF, 0x7E]) (by decide +kernel) []
  obtain ⟨s, h1, h2, h3, h4, h5, h6⟩ := pcrIs_spec hc
  exact ⟨a, s, ha, h1, h2, h3, h4, h5, h6⟩

/-- forward reference, `label + k`, `label − k`, and a reference below address zero (`L-100` at address 0:
displacement −103, byte `$99`): the hypotheses of the width theorems are satisfiable -/
def C03_widthExample : List Str :=
  ["L LEAX L-100,PCR\n", " LEAX T,PCR\n", " RMB 100\n", "T NOP\n", " LEAX T+20,PCR\n", " LEAX T-20,PCR\n"].map
    String.toList

theorem C03_width_example :
    ∃ a, assemble [] C03_widthExample = .ok a ∧
      pcrIs a 0 2 3 0 [0x30, 0x8C, 0x99] = true ∧ pcrIs a 1 2 3 3 [0x30, 0x8C, 0x64] = true ∧
      pcrIs a 4 2 3 107 [0x30, 0x8C, 0x10] = true ∧ pcrIs a 5 2 3 110 [0x30, 0x8C, 0xE5] = true ∧
      a.stmts.all (fun u => u.row.mnemonic != "ORG") = true := by
  obtain ⟨a, ha, hc⟩ := checkProgram_sound (lines := C03_widthExample)
    (check := fun a => pcrIs a 0 2 3 0 [0x30, 0x8C, 0x99] && pcrIs a 1 2 3 3 [0x30, 0x8C, 0x64] &&
      pcrIs a 4 2 3 107 [0x30, 0x8C, 0x10] && pcrIs a 5 2 3 110 [0x30, 0x8C, 0xE5] &&
      a.stmts.all (fun u => u.row.mnemonic != "ORG")) (by decide +kernel) []
  simp only [Bool.and_eq_true] at hc
  obtain ⟨⟨⟨⟨h1, h2⟩, h3⟩, h4⟩, h5⟩ := hc
  exact ⟨a, ha, h1, h2, h3, h4, h5⟩

/-- **regression witnesses**: the three programs that refuted the width invariant before the repairs.
` RMB 125 / L LDY L-125,PCR` (own label: was 8-bit with distance −129, bytes `10 AE 8C FF`) and
` RMB 200 / M NOP / L LEAX L+M,PCR` (label + label: was 8-bit with distance 197, bytes `30 8C C5`) now take the
16-bit form; `L LEAX L-100,PCR` at address 0 is in `C03_width_example` -/
def C03_regressionA : List Str := [" RMB 125\n", "L LDY L-125,PCR\n"].map String.toList
def C03_regressionB : List Str := [" RMB 200\n", "M NOP\n", "L LEAX L+M,PCR\n"].map String.toList

theorem C03_width_regressions :
    (∃ a, assemble [] C03_regressionA = .ok a ∧ pcrIs a 1 4 5 125 [0x10, 0xAE, 0x8D, 0xFF, 0x7E] = true) ∧
    (∃ a, assemble [] C03_regressionB = .ok a ∧ pcrIs a 2 4 4 201 [0x30, 0x8D, 0x00, 0xC4] = true) :=
  ⟨checkProgram_sound (lines := C03_regressionA)
      (check := fun a => pcrIs a 1 4 5 125 [0x10, 0xAE, 0x8D, 0xFF, 0x7E]) (by decide +kernel) [],
   checkProgram_sound (lines := C03_regressionB)
      (check := fun a => pcrIs a 2 4 4 201 [0x30, 0x8D, 0x00, 0xC4]) (by decide +kernel) []⟩

/-! ### an ORG between statement and target (batch B2: the 8-bit form is range-checked against ADDRESSES) -/

/-- the size loop measures distances in sizes; an ORG between statement and target moves the target.
(The first witness: the target is 4093 bytes away.) -/
def C03_pcrOrgWitness : List Str := ["S LEAX T,PCR\n", " ORG $1000\n", "T NOP\n"].map String.toList

/-- the second witness: with the ORG at `$CB` the target is 200 bytes away; 200 fits one byte as an UNSIGNED number,
so `fit_operand_width` used to let it pass, and the CPU read the byte `$C8` as −56 -/
def C03_pcrOrgWitness200 : List Str := ["S LEAX T,PCR\n", " ORG $CB\n", "T NOP\n"].map String.toList

/-- REPAIRED (formerly `C03_pcr_org_counterexample`, twice): `S LEAX T,PCR / ORG $1000 / T NOP` used to be accepted
with the 8-bit form and the byte `$FF` although `T` is 4093 bytes away; after `fit_operand_width` rejected that one,
`S LEAX T,PCR / ORG $CB / T NOP` was still accepted with the byte `$C8` although `T` is 200 bytes away (`¬ PcrField`).
Both are diagnostics now ("out of range of the 8-bit offset"), whatever the host files are; and by `C03_pcr_label`
no accepted program violates `PcrField` any more -/
theorem C03_pcr_org_counterexample_fixed (fs : Files) :
    assemble fs C03_pcrOrgWitness = .diag ∧ assemble fs C03_pcrOrgWitness200 = .diag :=
  ⟨diagProgram_sound (by decide +kernel) fs, diagProgram_sound (by decide +kernel) fs⟩

/-- an ORG between the statement and an in-range target (`T` at `$10`, displacement `$10 − 0 − 3 = $0D`): until batch 5
this program was accepted on the 8-bit form and showed that the hypotheses of `C03_pcr_label` / `C03_pcr8_in_range` are
satisfiable across an ORG -/
def C03_pcrOrgExample : List Str := ["S LEAX T,PCR\n", " ORG $10\n", "T NOP\n"].map String.toList

/-- STATEMENT CHANGED in batch 5 (was `C03_pcr_org_example`: accepted, `30 8C 0D`, `PcrField s t`): an ORG after the
first label / the first byte of the program is rejected now (`orgOK`, fix f9c374f: "ORG must come before the first label
and the first byte"), so the program is a diagnostic, whatever the host files are; no accepted program has an ORG
between a PCR statement and its target any more (the statement emits bytes, the target carries a label). -/
theorem C03_pcr_org_example_fixed (fs : Files) : assemble fs C03_pcrOrgExample = .diag :=
  diagProgram_sound (by decide +kernel) fs

/-! ### REPAIRED (batch B3): `label + N,PCR` with a negative `N` below `−address(label)` -/

/-- `N EQU -5 / L LEAX L+N,PCR` at address 0.  Formerly `fix_addresses` took the `.int` (the MAGNITUDE) of
`calculate_address_offset`'s result `0 + (−5)`, so the target was 5 and the byte `$02` (`5 − 0 − 3`) was emitted. -/
def C03_plusNegativeWitness : List Str := ["N EQU -5\n", "L LEAX L+N,PCR\n", " LEAX L-5,PCR\n"].map String.toList

/-- REPAIRED (formerly `C03_pcr_plus_negative_finding`, byte `$02`): `calculate_address_offset` now reduces a result
below zero modulo 65536 for every operator, so `L+N` with `N = −5` at address 0 aims at `−5 mod 65536 = $FFFB` and the
byte `$F8` (`−5 − 0 − 3`) reaches `L−5`, exactly as `L-5,PCR` does (`$F5` at address 3).  Replayed on /tmp/wt-b3n: same
bytes.  The general statement: `C03_pcr_expr_in_range`, `C03_pcr_expr_field` (target `≡ address + c (mod 65536)`,
whatever the sign of `c`). -/
theorem C03_pcr_plus_negative_fixed :
    ∃ a, assemble [] C03_plusNegativeWitness = .ok a ∧
      pcrIs a 1 2 3 0 [0x30, 0x8C, 0xF8] = true ∧ pcrIs a 2 2 3 3 [0x30, 0x8C, 0xF5] = true := by
  obtain ⟨a, ha, hc⟩ := checkProgram_sound (lines := C03_plusNegativeWitness)
    (check := fun a => pcrIs a 1 2 3 0 [0x30, 0x8C, 0xF8] && pcrIs a 2 2 3 3 [0x30, 0x8C, 0xF5]) (by decide +kernel) []
  simp only [Bool.and_eq_true] at hc
  exact ⟨a, ha, hc.1, hc.2⟩

/-! ### batch B3: the label offset of a pointer register carries the ADDRESS -/

/-- the 16-bit offset field of `s` holds the address `target`: `fix_addresses` computes `NumericValue(target,
size_hint=4)`, `fit_operand_width` accepts it, and the final field is `target` at four hex digits -/
def AbsFieldAt (s : Stmt) (target : Nat) : Prop :=
  target ≤ 65535 ∧
  (∃ v, numericOfInt (target : Int) (some 4) .none = .ok v ∧ fitWidth (withAdditional s v) = .ok s) ∧
  s.pkg.additional = .numeric target (some 4) .extended false

/-- **a label (expression) as constant offset of a pointer register** (`LDA TABLE,X`, `LDB TBL+1,Y`, `LDD [TBL,U]`:
`needsRes` WITHOUT post byte choices): for every accepted program the 16-bit offset field is the target `fix_addresses`
computed, and for a plain label or `label ± number` / `number ± label` that target is `Target8`: the address `y` of the
statement the operand names, `(y ± c) mod 65536`, `(c − y) mod 65536`.  Not PC-relative: no distance is taken. -/
theorem C03_label_offset_target {fs : Files} {lines : List Str} {a : Assembly} (h : assemble fs lines = .ok a) :
    ∃ ss4 : List Stmt, PW SameButAdditional ss4 a.stmts ∧
      ∀ (i : Nat) (s4 s : Stmt), ss4[i]? = some s4 → a.stmts[i]? = some s →
        s.pkg.needsRes = true → s.pkg.choices = [] →
        ∃ target, fixRel ss4 s4 = .ok target ∧ AbsFieldAt s target ∧
          (exprForces s4.pkg.additional = false →
            ∃ b t y, relIndex s4.pkg.additional = some b ∧ a.stmts[b]? = some t ∧ addrNat t = some y ∧
              Target8 s4.pkg.additional y target) := by
  obtain ⟨st⟩ := assemble_stages h
  refine ⟨st.ss4, fixAllL_pw st.hfix, ?_⟩
  intro i s4 s hs4 hs hn hc
  obtain ⟨s4', pre⟩ := st.abs_pre hs hn hc
  have : s4 = s4' := by have := pre.h4; rw [hs4] at this; exact Option.some.inj this
  subst this
  obtain ⟨target, v, htgt, hnum, hfit⟩ := pre.stored
  obtain ⟨n, _, _, hadd, _, _, _, _⟩ := C02_label_offset_field h hs hn hc
  have hle : target ≤ 65535 := by have := (numericOfInt_int hnum).2; omega
  obtain ⟨hh, mm, rfl⟩ := numericOfInt_signed hnum
  have hneg : decide ((target : Int) < 0) = false := by simp
  rw [hneg] at hfit hnum
  have hnt : n = target := by simpa using fitWidth_abs_field hfit (by simpa using hle) hadd
  subst hnt
  have hw : ∀ v, withAdditional s v = withAdditional s4 v := by
    obtain ⟨w, hw⟩ := pre.rel4; rw [hw]; intro v; rfl
  exact ⟨n, htgt, ⟨hle, ⟨_, hnum, by rw [hw]; simpa using hfit⟩, hadd⟩,
    fun hf => st.fixRel_target8 pre.idx pre.lr htgt hf⟩

/-- plain label: `LDA T,X` carries the address of `T` in its 16-bit offset field, and the last two bytes emitted are
that address, high byte first -/
theorem C03_label_offset {fs : Files} {lines : List Str} {a : Assembly} (h : assemble fs lines = .ok a)
    {i b : Nat} {m : Mode} {s t : Stmt} (hs : a.stmts[i]? = some s) (hn : s.pkg.needsRes = true)
    (hc : s.pkg.choices = []) (hl : s.operand.left = .val (.address b m)) (ht : a.stmts[b]? = some t) :
    ∃ y, addrNat t = some y ∧ AbsFieldAt s y ∧
      ∀ bs, stmtBytes s = some bs → ∃ pre, bs = pre ++ [y / 256, y % 256] := by
  obtain ⟨st⟩ := assemble_stages h
  obtain ⟨s4, pre⟩ := st.abs_pre hs hn hc
  obtain ⟨target, v, htgt, hnum, hfit⟩ := pre.stored
  have hop : s.operand = s4.operand := by obtain ⟨w, hw⟩ := pre.rel4; rw [hw]
  obtain ⟨hh, mm, hadd4⟩ : ∃ hh mm, s4.pkg.additional = .numeric b hh mm false :=
    pre.left pre.needs (.address b m) (by rw [← hop]; exact hl)
  have he : s4.pkg.additional.isAddrExpr = false := by rw [hadd4]; rfl
  have hb : relIndex s4.pkg.additional = some b := by rw [hadd4]; rfl
  have hy' := fixRel_target_plain he hb htgt
  rw [st.addrIntOf4 ht] at hy'
  obtain ⟨n, _, _, hadd, _, _, _, _⟩ := C02_label_offset_field h hs hn hc
  have hle : target ≤ 65535 := by have := (numericOfInt_int hnum).2; omega
  obtain ⟨hh', mm', rfl⟩ := numericOfInt_signed hnum
  have hneg : decide ((target : Int) < 0) = false := by simp
  rw [hneg] at hfit hnum
  have hnt : n = target := by simpa using fitWidth_abs_field hfit (by simpa using hle) hadd
  subst hnt
  have hw : ∀ v, withAdditional s v = withAdditional s4 v := by
    obtain ⟨w, hw⟩ := pre.rel4; rw [hw]; intro v; rfl
  refine ⟨n, hy', ⟨hle, ⟨_, hnum, by rw [hw]; simpa using hfit⟩, hadd⟩, fun bs hbs => ?_⟩
  exact stmtBytes_suffix hbs (by rw [hadd]; exact emit16 n (by omega))

/-- **the class of a `needsRes` statement can be read off the emitted post byte**: low nibble `9` (16-bit constant offset
from the register) for a label offset — no post byte choices, the size loop never touched it —, `$C` / `$D` for a PCR
operand (`C03_pcr_postbyte`) -/
theorem C03_label_offset_postbyte {fs : Files} {lines : List Str} {a : Assembly} (h : assemble fs lines = .ok a)
    {i : Nat} {s : Stmt} (hs : a.stmts[i]? = some s) (hn : s.pkg.needsRes = true) (hc : s.pkg.choices = []) :
    ∃ pb, s.pkg.postByte.int? = some pb ∧ pb % 16 = 9 := by
  obtain ⟨st⟩ := assemble_stages h
  exact st.abs_postbyte hs hn hc

/-- batch B3 in one program (`ORG $20`, `N EQU -40`): `L+N,PCR` with a negative `N` (`$D5`: aims at `$FFF8 = L − 40`),
`5-L,PCR` (aims at `$FFE5 = 5 − L`; batch 4: on the 16-bit form, `FF BE`), `N+L,PCR` (the label on the right of `+`: same
target as `L+N`), on the 8-bit form; and the label offsets `L+N,X` (field `FFF8`), `L,Y` (field `0020`), `[L-1,U]` (field
`001F`): `needsRes` without choices, four bytes. -/
def C03_b3Witness : List Str :=
  [" ORG $20\n", "N EQU -40\n", "L LEAX L+N,PCR\n", " LEAX 5-L,PCR\n", " LDA L+N,X\n", " LDB L,Y\n", " LEAX N+L,PCR\n",
   " LDD [L-1,U]\n"].map String.toList

/-- statement `i` is a label offset (no post byte choices) with the given size, address and emitted bytes -/
private def absIs (a : Assembly) (i size addr : Nat) (bytes : Bytes) : Bool :=
  match a.stmts[i]? with
  | some s => s.pkg.needsRes && s.pkg.choices.isEmpty && s.pkg.size == size && addrNat s == some addr &&
      stmtBytes s == some bytes
  | none => false

/-- STATEMENT CHANGED in batch 4 (was `C03_b3_example`: `5-L,PCR` on the 8-bit form `30 8C BF` at `$23`, the following
statements at `$26`, `$2A`, `$2E` (`30 8C C7`), `$31`): `number − label,PCR` takes the 16-bit form now, `30 8D FF BE`
(`$FFE5 − $27`), and everything after it lies one byte higher. -/
theorem C03_b3_example_fixed :
    ∃ a, assemble [] C03_b3Witness = .ok a ∧
      pcrIs a 2 2 3 0x20 [0x30, 0x8C, 0xD5] = true ∧ pcrIs a 3 4 4 0x23 [0x30, 0x8D, 0xFF, 0xBE] = true ∧
      absIs a 4 4 0x27 [0xA6, 0x89, 0xFF, 0xF8] = true ∧ absIs a 5 4 0x2B [0xE6, 0xA9, 0x00, 0x20] = true ∧
      pcrIs a 6 2 3 0x2F [0x30, 0x8C, 0xC6] = true ∧ absIs a 7 4 0x32 [0xEC, 0xD9, 0x00, 0x1F] = true := by
  obtain ⟨a, ha, hc⟩ := checkProgram_sound (lines := C03_b3Witness)
    (check := fun a => pcrIs a 2 2 3 0x20 [0x30, 0x8C, 0xD5] && pcrIs a 3 4 4 0x23 [0x30, 0x8D, 0xFF, 0xBE] &&
      absIs a 4 4 0x27 [0xA6, 0x89, 0xFF, 0xF8] && absIs a 5 4 0x2B [0xE6, 0xA9, 0x00, 0x20] &&
      pcrIs a 6 2 3 0x2F [0x30, 0x8C, 0xC6] && absIs a 7 4 0x32 [0xEC, 0xD9, 0x00, 0x1F]) (by decide +kernel) []
  simp only [Bool.and_eq_true] at hc
  obtain ⟨⟨⟨⟨⟨h1, h2⟩, h3⟩, h4⟩, h5⟩, h6⟩ := hc
  exact ⟨a, ha, h1, h2, h3, h4, h5, h6⟩

/-! ### REPAIRED (batch 4; finding of batch B3): `number − label,PCR` was SIZED as if it were `label ± number` -/

/-- `A LEAX 5-A,PCR` at `$1000`: the operand denotes `5 − $1000 ≡ $F005`, `$E001` bytes from the end of the statement,
which the 16-bit PCR form encodes.  Until batch 4 the size loop (`exprForces = false`, `exprExtra = 5`) estimated the
distance as that of `A ± 5`, settled on the 8-bit form, and the range check of `fix_addresses` rejected the program (a
false rejection; theorem `C03_pcr_reversed_minus_finding`, first conjunct `= .diag`).
STATEMENT CHANGED in batch 4: `exprForces` has the disjunct `op == '-' && r.isAddress`, so `number − label` takes the
16-bit form at once (`C03_pcr_minus_label_16bit`) and the program is accepted, `30 8D E0 01`; the other two programs
(`$2000-A`, `2*A`) are accepted as before, same bytes. -/
theorem C03_pcr_reversed_minus_finding_fixed :
    (∃ a, assemble [] ([" ORG $1000\n", "A LEAX 5-A,PCR\n"].map String.toList) = .ok a ∧
      pcrIs a 1 4 4 0x1000 [0x30, 0x8D, 0xE0, 0x01] = true) ∧
    (∃ a, assemble [] ([" ORG $1000\n", "A LEAX $2000-A,PCR\n"].map String.toList) = .ok a ∧
      pcrIs a 1 4 4 0x1000 [0x30, 0x8D, 0xFF, 0xFC] = true) ∧
    (∃ a, assemble [] ([" ORG $1000\n", "A LEAX 2*A,PCR\n"].map String.toList) = .ok a ∧
      pcrIs a 1 4 4 0x1000 [0x30, 0x8D, 0x0F, 0xFC] = true) :=
  ⟨checkProgram_sound (check := fun a => pcrIs a 1 4 4 0x1000 [0x30, 0x8D, 0xE0, 0x01]) (by decide +kernel) [],
   checkProgram_sound (check := fun a => pcrIs a 1 4 4 0x1000 [0x30, 0x8D, 0xFF, 0xFC]) (by decide +kernel) [],
   checkProgram_sound (check := fun a => pcrIs a 1 4 4 0x1000 [0x30, 0x8D, 0x0F, 0xFC]) (by decide +kernel) []⟩

/-- batch B3, what is added.  (5) every PCR statement (post byte choices), 8-bit or 16-bit form: the field is the signed
16-bit distance to the target `fix_addresses` computed, and that target is `Target8` for a plain label or `label ± number` /
`number ± label`; (6) every label offset of a pointer register (`needsRes` without choices): the 16-bit field is the
target ADDRESS itself. -/
theorem C03_width_partial_b3 :
    (∀ (fs : Files) (lines : List Str) (a : Assembly), assemble fs lines = .ok a →
      ∃ ss4 : List Stmt, PW SameButAdditional ss4 a.stmts ∧
        ∀ (i : Nat) (s4 s : Stmt), ss4[i]? = some s4 → a.stmts[i]? = some s → s.pkg.choices ≠ [] →
          ∃ target, fixRel ss4 s4 = .ok target ∧ PcrFieldAt s target ∧
            (exprForces s4.pkg.additional = false →
              ∃ b t y, relIndex s4.pkg.additional = some b ∧ a.stmts[b]? = some t ∧ addrNat t = some y ∧
                Target8 s4.pkg.additional y target)) ∧
    (∀ (fs : Files) (lines : List Str) (a : Assembly), assemble fs lines = .ok a →
      ∃ ss4 : List Stmt, PW SameButAdditional ss4 a.stmts ∧
        ∀ (i : Nat) (s4 s : Stmt), ss4[i]? = some s4 → a.stmts[i]? = some s →
          s.pkg.needsRes = true → s.pkg.choices = [] →
          ∃ target, fixRel ss4 s4 = .ok target ∧ AbsFieldAt s target ∧
            (exprForces s4.pkg.additional = false →
              ∃ b t y, relIndex s4.pkg.additional = some b ∧ a.stmts[b]? = some t ∧ addrNat t = some y ∧
                Target8 s4.pkg.additional y target)) :=
  ⟨fun _ _ _ h => C03_pcr_field_target h, fun _ _ _ h => C03_label_offset_target h⟩

end CoCo.Props
