/-
Props/C03Width.lean — C03, the width invariant of PC-relative operands: a `label,PCR` / `label±k,PCR` operand
that the size loop settled on the 8-bit form (`pcrHint = 2`) stores a displacement that fits the 8-bit field.

Model: after the repairs 0293787 (label op label is sized 16-bit), 95bb240 (a reference to the statement's own
label is a backward reference), 1477b47 (`label − k` below zero wraps modulo 65536) and ec1693d (the displacement
is the signed distance modulo 65536).  Before these repairs the statement was false; the programs that refuted
it are kept below as regression witnesses (`C03_width_regressions`).

Main results
* `C03_size_sound`     — the soundness invariant of the size loop: final size ∈ [size, maxSize].
* `C03_pcr8_width`     — umbrella theorem on the statement list that enters `fix_addresses`.
* `C03_pcr8_in_range`  — (batch B2) EVERY 8-bit PCR statement of EVERY accepted program, ORG or not: the field is the
  two's complement byte of the signed 16-bit distance `d` from the end of the statement to its target, `−128 ≤ d ≤ 127`
  (`fix_addresses` now rejects an 8-bit form whose distance is out of range).
* `C03_pcr_label`      — plain label: `PcrField s t`, now WITHOUT the hypothesis "no ORG between";
  `C03_pcr_clause`: the PCR clause of `C03_Statement` holds for every accepted program.
* `C03_pcr_label_width`, `C03_pcr_expr_width` — (no ORG between) the distance `d` computed in ℤ lies in −128..127;
  `fix_addresses` computes `NumericValue(d, size_hint=2)`, `fit_operand_width` accepts it, and the final field is the
  two's complement byte `d mod 256`.  `C03_pcr_label_in_range`, `C03_pcr_expr_in_range`: the same without the ORG
  hypothesis, `d` being the signed 16-bit distance.
* `C03_pcr_org_counterexample_fixed` — `S LEAX T,PCR / ORG $CB / T NOP` (and the older `ORG $1000` witness) is a
  diagnostic now; `C03_pcr_org_example`: an ORG in between with the target in range is accepted and correct.
* `C03_pcr_plus_negative_finding` — `L+N,PCR` with `N` negative below `−address(L)`: the target is `|address + N|`.
-/
import CoCoVerif.Lemmas.PcrWidthFix
import CoCoVerif.Lemmas.PcrWidthPost
import CoCoVerif.Props.C03

namespace CoCo.Props
open CoCo CoCo.Asm

/-! ### the size loop is sound -/

/-- **Soundness of `determine_pcr_relative_sizes`.**  Through the whole loop, the final size of every statement
lies between the `size` and the `maxSize` the translation gave it, and a statement whose size was fixed by the
translation is not touched.  (The same holds from every intermediate state of the loop: `pcrLoop_winv`.) -/
theorem C03_size_sound {ss1 ss2 fin : List Stmt} {fuel : Nat} (ht : translateAll ss1 = some ss2)
    (h : pcrLoop fuel ss2 = .ok fin) :
    PW (fun s f => s.pkg.size ≤ f.pkg.size ∧ f.pkg.size ≤ s.pkg.maxSize ∧ (s.fixedSize = true → f = s)) ss2 fin :=
  (pcrLoop_width ht h).1

/-- every translated statement has `size ≤ maxSize`; an undecided PCR statement has `maxSize = size + 2` -/
theorem C03_translate_sizes {ss1 ss2 : List Stmt} (ht : translateAll ss1 = some ss2) {j : Nat} {s : Stmt}
    (hs : ss2[j]? = some s) :
    s.pkg.size ≤ s.pkg.maxSize ∧ (s.pkg.choices ≠ [] → s.pkg.maxSize = s.pkg.size + 2) := by
  obtain ⟨hok, hfx, _⟩ := translateAll_winv ht j s hs
  refine ⟨hok.le, fun hc => ?_⟩
  cases hf : s.fixedSize with
  | false => exact (hok.und hf hc).1
  | true =>
    -- a statement with post-byte choices is never fixed by the translation
    exfalso
    obtain ⟨s1, hs1, p, htr, rfl⟩ := (translateAll_pw ht).get' hs
    have hc' : p.choices ≠ [] := hc
    have hf' : (!(p.needsRes || !p.choices.isEmpty)) = true := hf
    cases hp : p.choices with
    | nil => exact hc' hp
    | cons c cs => rw [hp] at hf'; simp at hf'

/-- the 8-bit form is produced by `determine` under its distance test only: `force_pcr_16_bit` settles on 16 bits -/
theorem C03_force_is_16 {ss r : List Stmt} (h : forceFirst ss = some r) :
    r = ss ∨ ∃ i s s', ss[i]? = some s ∧ s.fixedSize = false ∧ r = ss.set i s' ∧ s'.pcrHint = 4 := by
  rcases forceFirst_step h with h1 | ⟨i, s, s', c, h1, h2, _, h4, h5⟩
  · exact .inl h1
  · exact .inr ⟨i, s, s', h1, h2, h5, (settle_eq h4).2.2.1⟩

/-! ### the umbrella theorem -/

/-- **Width of the 8-bit PCR form**, on the statement list `ss4` that enters `fix_addresses` (equal to `a.stmts`
except for `pkg.additional`).  For every PCR statement `s` (index `i`) settled on the 8-bit form:
its offset `s4.pkg.additional` names a statement `b` (`relIndex`), is a plain label or `label ± number`
(`exprForces = false`, `Dist8`), and when no ORG lies between `b` and `i` the signed distance `d` from the end
of `s` to the target — computed in ℤ, without any wrap — satisfies `−128 ≤ d ≤ 127`; `fix_addresses` computes
`NumericValue(d, size_hint=2)`, `fit_operand_width` accepts it (`fitWidth (withAdditional s v) = .ok s`), and the final
field is the two's complement byte `d mod 256` at two hex digits. -/
theorem C03_pcr8_width {fs : Files} {lines : List Str} {a : Assembly} (h : assemble fs lines = .ok a) :
    ∃ ss4 : List Stmt, PW SameButAdditional ss4 a.stmts ∧
      ∀ (i : Nat) (s4 s : Stmt), ss4[i]? = some s4 → a.stmts[i]? = some s →
        s.pkg.needsRes = true → s.pcrHint = 2 →
        ∃ b, relIndex s4.pkg.additional = some b ∧ exprForces s4.pkg.additional = false ∧
          ∀ t, a.stmts[b]? = some t →
            (∀ j u, min b i < j → j ≤ max b i → a.stmts[j]? = some u → u.row.mnemonic ≠ "ORG") →
            ∃ x y v, ∃ d : Int, addrNat s = some x ∧ addrNat t = some y ∧ -128 ≤ d ∧ d ≤ 127 ∧
              numericOfInt d (some 2) .none = .ok v ∧ fitWidth (withAdditional s v) = .ok s ∧
              s.pkg.additional = .numeric (d % 256).toNat (some 2) .extended false ∧
              Dist8 s4.pkg.additional x y s.pkg.size d := by
  obtain ⟨st⟩ := assemble_stages h
  refine ⟨st.ss4, fixAll_pw st.hfix, ?_⟩
  intro i s4 s hs4 hs hn hh
  obtain ⟨s3, s4', pre⟩ := st.pcr_pre hs hn
  have : s4' = s4 := by have := pre.h4; rw [hs4] at this; exact (Option.some.inj this).symm
  subst this
  exact st.pcr8_stored hs hn hh pre

/-! ### plain labels -/

/-- the offset of a PCR statement whose operand's left side is the plain label of statement `b` -/
private theorem plain_addl {fs : Files} {lines : List Str} {a : Assembly} {st : Stages fs lines a}
    {i b : Nat} {m : Mode} {s s3 s4 : Stmt} (pre : PcrPre st i s s3 s4)
    (hl : s.operand.left = .val (.address b m)) :
    s4.pkg.additional.isAddrExpr = false ∧ relIndex s4.pkg.additional = some b := by
  have hop : s.operand = s4.operand := pre.same.2.2.2.2
  obtain ⟨hh, mm, hadd⟩ : ∃ hh mm, s4.pkg.additional = .numeric b hh mm false :=
    pre.left pre.choices (.address b m) (by rw [← hop]; exact hl)
  rw [hadd]
  exact ⟨rfl, rfl⟩

/-- **C03, PCR clause, plain label**: for every accepted program, every PCR statement `s` whose offset is the label
of statement `t` — ORG in between or not (batch B2: the hypothesis "no ORG between" is gone) — `PcrField s t`: the
field (before `fit_operand_width` re-renders it) is `NumericValue(pcrJump, size_hint = pcrHint)`, `pcrJump` the signed
16-bit distance from the end of `s` to the ADDRESS of `t`, and, on the 8-bit form, `−128 ≤ pcrJump ≤ 127`.
This is the second clause of `C03_Statement`. -/
theorem C03_pcr_label {fs : Files} {lines : List Str} {a : Assembly} (h : assemble fs lines = .ok a)
    {i b : Nat} {m : Mode} {s t : Stmt} (hs : a.stmts[i]? = some s) (hn : s.pkg.needsRes = true)
    (hl : s.operand.left = .val (.address b m)) (ht : a.stmts[b]? = some t) :
    PcrField s t := by
  obtain ⟨st⟩ := assemble_stages h
  obtain ⟨s3, s4, pre⟩ := st.pcr_pre hs hn
  obtain ⟨he, hb⟩ := plain_addl pre hl
  obtain ⟨target, start, v, htgt, hstart, hnum, hsv, _⟩ := pre.stored
  obtain ⟨x, hx⟩ := st.chained.isSome hs
  obtain ⟨y, hy⟩ := st.chained.isSome ht
  have hstart' : start = x := by
    rw [st.addrIntOf4 hs, hx] at hstart; exact (Option.some.inj hstart).symm
  have hy' := fixRel_target_plain he hb htgt
  rw [st.addrIntOf4 ht, hy] at hy'
  have hty : target = y := (Option.some.inj hy').symm
  subst hstart' hty
  obtain ⟨hhint, _, hwa, hj', _⟩ := pre.same
  have hj : pcrJump s target start = pcrJump s4 target start := hj' _ _
  refine ⟨start, target, v, hx, hy, by rw [hj, hhint]; exact hnum, by rw [hwa]; exact hsv, ?_⟩
  intro hh
  obtain ⟨target', x', _, htgt', hx', hlo, hhi, _⟩ := st.pcr8_any hs hh pre
  rw [htgt] at htgt'; rw [hx] at hx'
  have e1 : target = target' := by cases htgt'; rfl
  have e2 : start = x' := Option.some.inj hx'
  subst e1 e2
  rw [pcrJump_hint2 hh]
  exact ⟨hlo, hhi⟩

/-- **the PCR clause of `C03_Statement` holds for every accepted program** -/
theorem C03_pcr_clause {fs : Files} {lines : List Str} {a : Assembly} (h : assemble fs lines = .ok a) :
    ∀ (i b : Nat) (m : Mode) (s t : Stmt), a.stmts[i]? = some s → s.pkg.needsRes = true →
      s.operand.left = .val (.address b m) → a.stmts[b]? = some t → PcrField s t :=
  fun _ _ _ _ _ hs hn hl ht => C03_pcr_label h hs hn hl ht

/-- plain label, 8-bit form, ORG or not: `d := address(t) − address(s) − size(s)` read as a signed 16-bit distance
satisfies `−128 ≤ d ≤ 127`, `NumericValue(d, size_hint=2)` is what `fix_addresses` computes and `fit_operand_width`
accepts, and the final field is the byte `d mod 256` -/
theorem C03_pcr_label_in_range {fs : Files} {lines : List Str} {a : Assembly} (h : assemble fs lines = .ok a)
    {i b : Nat} {m : Mode} {s t : Stmt} (hs : a.stmts[i]? = some s) (hn : s.pkg.needsRes = true)
    (hh : s.pcrHint = 2) (hl : s.operand.left = .val (.address b m)) (ht : a.stmts[b]? = some t) :
    ∃ x y v, addrNat s = some x ∧ addrNat t = some y ∧
      -128 ≤ sdist16 ((y : Int) - x - s.pkg.size) ∧ sdist16 ((y : Int) - x - s.pkg.size) ≤ 127 ∧
      numericOfInt (sdist16 ((y : Int) - x - s.pkg.size)) (some 2) .none = .ok v ∧
      fitWidth (withAdditional s v) = .ok s ∧
      s.pkg.additional = .numeric (sdist16 ((y : Int) - x - s.pkg.size) % 256).toNat (some 2) .extended false := by
  obtain ⟨st⟩ := assemble_stages h
  obtain ⟨s3, s4, pre⟩ := st.pcr_pre hs hn
  obtain ⟨he, hb⟩ := plain_addl pre hl
  obtain ⟨b', t', x, y, target, v, hb', _, ht', hx, hy, htg, hlo, hhi, hnum, hfit, hadd⟩ :=
    st.pcr8_any_target hs hn hh pre
  rw [hb] at hb'
  have : b = b' := Option.some.inj hb'
  subst this
  rw [ht] at ht'; cases ht'
  rcases htg with ⟨_, rfl⟩ | ⟨l, r, op, m', k, _, _, _, hexp, _⟩
  · exact ⟨x, target, v, hx, hy, hlo, hhi, hnum, hfit, hadd⟩
  · rw [hexp] at he; simp [Value.isAddrExpr] at he

/-- plain label, 8-bit form, no ORG in between, in the terms of the task statement: `jump := address(t) − address(s) − size(s)`
computed in ℤ satisfies `−128 ≤ jump ≤ 127`, `NumericValue(jump, size_hint=2)` is what `fix_addresses` computes and
`fit_operand_width` accepts, and the final field is the byte `jump mod 256` -/
theorem C03_pcr_label_width {fs : Files} {lines : List Str} {a : Assembly} (h : assemble fs lines = .ok a)
    {i b : Nat} {m : Mode} {s t : Stmt} (hs : a.stmts[i]? = some s) (hn : s.pkg.needsRes = true)
    (hh : s.pcrHint = 2) (hl : s.operand.left = .val (.address b m)) (ht : a.stmts[b]? = some t)
    (hno : ∀ j u, min b i < j → j ≤ max b i → a.stmts[j]? = some u → u.row.mnemonic ≠ "ORG") :
    ∃ x y v, addrNat s = some x ∧ addrNat t = some y ∧
      -128 ≤ (y : Int) - x - s.pkg.size ∧ (y : Int) - x - s.pkg.size ≤ 127 ∧
      numericOfInt ((y : Int) - x - s.pkg.size) (some 2) .none = .ok v ∧ fitWidth (withAdditional s v) = .ok s ∧
      s.pkg.additional = .numeric (((y : Int) - x - s.pkg.size) % 256).toNat (some 2) .extended false := by
  obtain ⟨st⟩ := assemble_stages h
  obtain ⟨s3, s4, pre⟩ := st.pcr_pre hs hn
  obtain ⟨he, hb⟩ := plain_addl pre hl
  obtain ⟨b', hb', _, hw⟩ := st.pcr8_stored hs hn hh pre
  rw [hb] at hb'
  have : b = b' := Option.some.inj hb'
  subst this
  obtain ⟨x, y, v, d, hx, hy, hlo, hhi, hnum, hfit, hadd, hd⟩ := hw t ht hno
  rcases hd with ⟨_, hd⟩ | ⟨l, r, op, m', k, _, _, _, hexp, _⟩
  · subst hd
    exact ⟨x, y, v, hx, hy, hlo, hhi, hnum, hfit, hadd⟩
  · rw [hexp] at he; simp [Value.isAddrExpr] at he

/-! ### `label ± k` -/

/-- **`label ± k,PCR` on the 8-bit form, no ORG in between.**  `l`, `r` are the two sides of the resolved expression,
one of them the label of statement `b` (`relIndex`).  Then the operator is `+` or `-`, the other side is a number with
signed value `c = signedK k nk` (batch B2: a constant written or defined with a minus sign counts negatively), and the
signed distance to `|address(t) + c|` resp. `address(t) − c` computed in ℤ (no wrap, even when `address(t) − c` is
negative) lies in `−128 .. 127`, is what `fix_addresses` computes as `NumericValue(d, size_hint=2)`, passes
`fit_operand_width`, and ends as the byte `d mod 256`.  (For the magnitude in the `+` case see
`C03_pcr_plus_negative_finding`.) -/
theorem C03_pcr_expr_width {fs : Files} {lines : List Str} {a : Assembly} (h : assemble fs lines = .ok a)
    {i b : Nat} {l r : Value} {op : Char} {m : Mode} {s t : Stmt} (hs : a.stmts[i]? = some s)
    (hn : s.pkg.needsRes = true) (hh : s.pcrHint = 2)
    (hl : s.operand.left = .val (.expr l r op m true))
    (hb : (if l.isAddress then l.int? else r.int?) = some b) (ht : a.stmts[b]? = some t)
    (hno : ∀ j u, min b i < j → j ≤ max b i → a.stmts[j]? = some u → u.row.mnemonic ≠ "ORG") :
    ∃ x y k hk mk nk v, addrNat s = some x ∧ addrNat t = some y ∧
      (if l.isAddress then r else l) = .numeric k hk mk nk ∧ (op = '+' ∨ op = '-') ∧
      -128 ≤ (if op = '+' then (((y : Int) + signedK k nk).natAbs : Int) else (y : Int) - signedK k nk) - x - s.pkg.size ∧
      (if op = '+' then (((y : Int) + signedK k nk).natAbs : Int) else (y : Int) - signedK k nk) - x - s.pkg.size ≤ 127 ∧
      numericOfInt ((if op = '+' then (((y : Int) + signedK k nk).natAbs : Int) else (y : Int) - signedK k nk)
        - x - s.pkg.size) (some 2) .none = .ok v ∧
      fitWidth (withAdditional s v) = .ok s ∧
      s.pkg.additional = .numeric
        (((if op = '+' then (((y : Int) + signedK k nk).natAbs : Int) else (y : Int) - signedK k nk)
          - x - s.pkg.size) % 256).toNat (some 2) .extended false := by
  obtain ⟨st⟩ := assemble_stages h
  obtain ⟨s3, s4, pre⟩ := st.pcr_pre hs hn
  have hop : s.operand = s4.operand := pre.same.2.2.2.2
  have hadd4 : s4.pkg.additional = .expr l r op m true :=
    pre.left pre.choices (.expr l r op m true) (by rw [← hop]; exact hl)
  obtain ⟨b', hb', _, hw⟩ := st.pcr8_stored hs hn hh pre
  rw [hadd4] at hb'
  have hb'' : (if l.isAddress = true then l.int? else r.int?) = some b' := hb'
  rw [hb] at hb''
  have : b = b' := Option.some.inj hb''
  subst this
  obtain ⟨x, y, v, d, hx, hy, hlo, hhi, hnum, hfit, hadd, hd⟩ := hw t ht hno
  rw [hadd4] at hd
  rcases hd with ⟨he, _⟩ | ⟨l', r', op', m', k, hk, mk, nk, hexp, hoth, hcase⟩
  · simp [Value.isAddrExpr] at he
  · cases hexp
    rcases hcase with ⟨rfl, hd⟩ | ⟨rfl, hd⟩
    · subst hd
      refine ⟨x, y, k, hk, mk, nk, v, hx, hy, hoth, .inl rfl, ?_, ?_, ?_, hfit, ?_⟩
      · simpa using hlo
      · simpa using hhi
      · simpa using hnum
      · simpa using hadd
    · subst hd
      have hne : ¬ ('-' = '+') := by decide
      refine ⟨x, y, k, hk, mk, nk, v, hx, hy, hoth, .inr rfl, ?_, ?_, ?_, hfit, ?_⟩
      · simpa [hne] using hlo
      · simpa [hne] using hhi
      · simpa [hne] using hnum
      · simpa [hne] using hadd

/-- **`label ± k,PCR` on the 8-bit form, ORG or not** (batch B2): the target is `|address(t) + c|` resp.
`(address(t) − c) mod 65536` (`Target8`), and the signed 16-bit distance `d` from the end of `s` to it lies in
`−128 .. 127` and ends as the byte `d mod 256` -/
theorem C03_pcr_expr_in_range {fs : Files} {lines : List Str} {a : Assembly} (h : assemble fs lines = .ok a)
    {i b : Nat} {l r : Value} {op : Char} {m : Mode} {s t : Stmt} (hs : a.stmts[i]? = some s)
    (hn : s.pkg.needsRes = true) (hh : s.pcrHint = 2)
    (hl : s.operand.left = .val (.expr l r op m true))
    (hb : (if l.isAddress then l.int? else r.int?) = some b) (ht : a.stmts[b]? = some t) :
    ∃ x y k hk mk nk target v, addrNat s = some x ∧ addrNat t = some y ∧
      (if l.isAddress then r else l) = .numeric k hk mk nk ∧
      ((op = '+' ∧ target = ((y : Int) + signedK k nk).natAbs) ∨
       (op = '-' ∧ (target : Int) = ((y : Int) - signedK k nk) % 65536)) ∧
      -128 ≤ sdist16 ((target : Int) - x - s.pkg.size) ∧ sdist16 ((target : Int) - x - s.pkg.size) ≤ 127 ∧
      numericOfInt (sdist16 ((target : Int) - x - s.pkg.size)) (some 2) .none = .ok v ∧
      fitWidth (withAdditional s v) = .ok s ∧
      s.pkg.additional = .numeric (sdist16 ((target : Int) - x - s.pkg.size) % 256).toNat (some 2) .extended false := by
  obtain ⟨st⟩ := assemble_stages h
  obtain ⟨s3, s4, pre⟩ := st.pcr_pre hs hn
  have hop : s.operand = s4.operand := pre.same.2.2.2.2
  have hadd4 : s4.pkg.additional = .expr l r op m true :=
    pre.left pre.choices (.expr l r op m true) (by rw [← hop]; exact hl)
  obtain ⟨b', t', x, y, target, v, hb', _, ht', hx, hy, htg, hlo, hhi, hnum, hfit, hadd⟩ :=
    st.pcr8_any_target hs hn hh pre
  rw [hadd4] at hb'
  have hb'' : (if l.isAddress = true then l.int? else r.int?) = some b' := hb'
  rw [hb] at hb''
  have : b = b' := Option.some.inj hb''
  subst this
  rw [ht] at ht'; cases ht'
  rw [hadd4] at htg
  rcases htg with ⟨he, _⟩ | ⟨l', r', op', m', k, hk, mk, nk, hexp, hoth, hcase⟩
  · simp [Value.isAddrExpr] at he
  · cases hexp
    exact ⟨x, y, k, hk, mk, nk, target, v, hx, hy, hoth, hcase, hlo, hhi, hnum, hfit, hadd⟩

/-! ### every 8-bit PCR statement of every accepted program (batch B2) -/

/-- **C03, second sentence: "a displacement is never emitted in a field too narrow for it"** — for EVERY accepted
program, ORG or not, on the statement list `ss4` that enters `fix_addresses` (equal to `a.stmts` except for
`pkg.additional`).  Every PCR statement `s` (index `i`) settled on the 8-bit form: its offset names a statement
`b` (`relIndex`), is a plain label or `label ± number` (`exprForces = false`), the statement `b` exists (`t`, address
`y`), the target is `y`, `|y + c|` or `(y − c) mod 65536` (`Target8`), and the stored field is the two's complement
byte (two hex digits) of `d = sdist16 (target − address(s) − size(s))`, the signed 16-bit distance from the end of
the statement to the target, with `−128 ≤ d ≤ 127`. -/
theorem C03_pcr8_in_range {fs : Files} {lines : List Str} {a : Assembly} (h : assemble fs lines = .ok a) :
    ∃ ss4 : List Stmt, PW SameButAdditional ss4 a.stmts ∧
      ∀ (i : Nat) (s4 s : Stmt), ss4[i]? = some s4 → a.stmts[i]? = some s →
        s.pkg.needsRes = true → s.pcrHint = 2 →
        ∃ b t x y target v, relIndex s4.pkg.additional = some b ∧ exprForces s4.pkg.additional = false ∧
          a.stmts[b]? = some t ∧ addrNat s = some x ∧ addrNat t = some y ∧ Target8 s4.pkg.additional y target ∧
          -128 ≤ sdist16 ((target : Int) - x - s.pkg.size) ∧ sdist16 ((target : Int) - x - s.pkg.size) ≤ 127 ∧
          numericOfInt (sdist16 ((target : Int) - x - s.pkg.size)) (some 2) .none = .ok v ∧
          fitWidth (withAdditional s v) = .ok s ∧
          s.pkg.additional =
            .numeric (sdist16 ((target : Int) - x - s.pkg.size) % 256).toNat (some 2) .extended false := by
  obtain ⟨st⟩ := assemble_stages h
  refine ⟨st.ss4, fixAll_pw st.hfix, ?_⟩
  intro i s4 s hs4 hs hn hh
  obtain ⟨s3, s4', pre⟩ := st.pcr_pre hs hn
  have : s4' = s4 := by have := pre.h4; rw [hs4] at this; exact (Option.some.inj this).symm
  subst this
  exact st.pcr8_any_target hs hn hh pre

/-- **the width hint is the emitted post byte**: every PCR statement with a label offset of an accepted program has
`pcrHint = 2` and a post byte `1xx01100` (low nibble `$C`: "8-bit offset from PC") or `pcrHint = 4` and `1xx01101`
(low nibble `$D`: "16-bit offset from PC").  So the hypothesis `s.pcrHint = 2` of the width theorems says "the statement
carries the 8-bit post byte". -/
theorem C03_pcr_postbyte {fs : Files} {lines : List Str} {a : Assembly} (h : assemble fs lines = .ok a)
    {i : Nat} {s : Stmt} (hs : a.stmts[i]? = some s) (hn : s.pkg.needsRes = true) :
    ∃ pb, s.pkg.postByte.int? = some pb ∧
      ((s.pcrHint = 2 ∧ pb % 16 = 12) ∨ (s.pcrHint = 4 ∧ pb % 16 = 13)) := by
  obtain ⟨st⟩ := assemble_stages h
  obtain ⟨s3, s4, pre⟩ := st.pcr_pre hs hn
  exact st.pcr_postbyte pre

/-- ... in particular a PCR statement whose post byte has the low nibble `$C` is on the 8-bit form -/
theorem C03_pcr_postbyte8 {fs : Files} {lines : List Str} {a : Assembly} (h : assemble fs lines = .ok a)
    {i pb : Nat} {s : Stmt} (hs : a.stmts[i]? = some s) (hn : s.pkg.needsRes = true)
    (hpb : s.pkg.postByte.int? = some pb) (h8 : pb % 16 = 12) : s.pcrHint = 2 := by
  obtain ⟨pb', h1, h2⟩ := C03_pcr_postbyte h hs hn
  rw [hpb] at h1
  cases h1
  rcases h2 with ⟨h2, _⟩ | ⟨_, h2⟩
  · exact h2
  · omega

/-- `C03_pcr8_in_range` with the hypothesis on the EMITTED post byte (low nibble `$C`) instead of the width hint -/
theorem C03_pcr8_in_range_postbyte {fs : Files} {lines : List Str} {a : Assembly} (h : assemble fs lines = .ok a) :
    ∃ ss4 : List Stmt, PW SameButAdditional ss4 a.stmts ∧
      ∀ (i pb : Nat) (s4 s : Stmt), ss4[i]? = some s4 → a.stmts[i]? = some s →
        s.pkg.needsRes = true → s.pkg.postByte.int? = some pb → pb % 16 = 12 →
        ∃ b t x y target v, relIndex s4.pkg.additional = some b ∧ exprForces s4.pkg.additional = false ∧
          a.stmts[b]? = some t ∧ addrNat s = some x ∧ addrNat t = some y ∧ Target8 s4.pkg.additional y target ∧
          -128 ≤ sdist16 ((target : Int) - x - s.pkg.size) ∧ sdist16 ((target : Int) - x - s.pkg.size) ≤ 127 ∧
          numericOfInt (sdist16 ((target : Int) - x - s.pkg.size)) (some 2) .none = .ok v ∧
          fitWidth (withAdditional s v) = .ok s ∧
          s.pkg.additional =
            .numeric (sdist16 ((target : Int) - x - s.pkg.size) % 256).toNat (some 2) .extended false := by
  obtain ⟨ss4, hpw, hall⟩ := C03_pcr8_in_range h
  exact ⟨ss4, hpw, fun i pb s4 s hs4 hs hn hpb h8 => hall i s4 s hs4 hs hn (C03_pcr_postbyte8 h hs hn hpb h8)⟩

/-- the emitted byte: the last byte of an 8-bit PCR statement is `d mod 256`, `d` as in `C03_pcr8_in_range` -/
theorem C03_pcr8_byte {s : Stmt} {bs : Bytes} {d : Int} (hb : stmtBytes s = some bs)
    (ha : s.pkg.additional = .numeric (d % 256).toNat (some 2) .extended false) :
    ∃ pre, bs = pre ++ [(d % 256).toNat] := by
  have hlt : (d % 256).toNat < 256 := by omega
  exact stmtBytes_suffix hb (by rw [ha]; exact emit8 _ hlt)

/-! ### summary -/

/-- What is proved of the width invariant.  (1) the size loop is sound: final sizes lie in `[size, maxSize]`;
(2) plain label: `PcrField` for every accepted program (batch B2: no hypothesis on ORGs); (3) every 8-bit PCR
statement with no ORG in between: offset is a plain label or `label ± number`, the distance in ℤ fits `−128..127`,
and the final field is its two's complement byte; (4) (batch B2) every 8-bit PCR statement, ORG or not: the field is
the two's complement byte of the signed 16-bit distance to the target, which fits `−128..127`. -/
theorem C03_width_partial :
    (∀ (ss1 ss2 fin : List Stmt) (fuel : Nat), translateAll ss1 = some ss2 → pcrLoop fuel ss2 = .ok fin →
      PW (fun s f => s.pkg.size ≤ f.pkg.size ∧ f.pkg.size ≤ s.pkg.maxSize ∧ (s.fixedSize = true → f = s)) ss2 fin) ∧
    (∀ (fs : Files) (lines : List Str) (a : Assembly), assemble fs lines = .ok a →
      ∀ (i b : Nat) (m : Mode) (s t : Stmt), a.stmts[i]? = some s → s.pkg.needsRes = true →
        s.operand.left = .val (.address b m) → a.stmts[b]? = some t →
        PcrField s t) ∧
    (∀ (fs : Files) (lines : List Str) (a : Assembly), assemble fs lines = .ok a →
      ∃ ss4 : List Stmt, PW SameButAdditional ss4 a.stmts ∧
        ∀ (i : Nat) (s4 s : Stmt), ss4[i]? = some s4 → a.stmts[i]? = some s →
          s.pkg.needsRes = true → s.pcrHint = 2 →
          ∃ b, relIndex s4.pkg.additional = some b ∧ exprForces s4.pkg.additional = false ∧
            ∀ t, a.stmts[b]? = some t →
              (∀ j u, min b i < j → j ≤ max b i → a.stmts[j]? = some u → u.row.mnemonic ≠ "ORG") →
              ∃ x y v, ∃ d : Int, addrNat s = some x ∧ addrNat t = some y ∧ -128 ≤ d ∧ d ≤ 127 ∧
                numericOfInt d (some 2) .none = .ok v ∧ fitWidth (withAdditional s v) = .ok s ∧
                s.pkg.additional = .numeric (d % 256).toNat (some 2) .extended false ∧
                Dist8 s4.pkg.additional x y s.pkg.size d) ∧
    (∀ (fs : Files) (lines : List Str) (a : Assembly), assemble fs lines = .ok a →
      ∃ ss4 : List Stmt, PW SameButAdditional ss4 a.stmts ∧
        ∀ (i : Nat) (s4 s : Stmt), ss4[i]? = some s4 → a.stmts[i]? = some s →
          s.pkg.needsRes = true → s.pcrHint = 2 →
          ∃ b t x y target v, relIndex s4.pkg.additional = some b ∧ exprForces s4.pkg.additional = false ∧
            a.stmts[b]? = some t ∧ addrNat s = some x ∧ addrNat t = some y ∧ Target8 s4.pkg.additional y target ∧
            -128 ≤ sdist16 ((target : Int) - x - s.pkg.size) ∧ sdist16 ((target : Int) - x - s.pkg.size) ≤ 127 ∧
            numericOfInt (sdist16 ((target : Int) - x - s.pkg.size)) (some 2) .none = .ok v ∧
            fitWidth (withAdditional s v) = .ok s ∧
            s.pkg.additional =
              .numeric (sdist16 ((target : Int) - x - s.pkg.size) % 256).toNat (some 2) .extended false) :=
  ⟨fun _ _ _ _ ht h => C03_size_sound ht h,
   fun _ _ _ h _ _ _ _ _ hs hn hl ht => C03_pcr_label h hs hn hl ht,
   fun _ _ _ h => C03_pcr8_width h,
   fun _ _ _ h => C03_pcr8_in_range h⟩

/-! ### witnesses (kernel-checked) -/

/-- statement `i` is a PCR statement with the given width hint, size, address and emitted bytes -/
private def pcrIs (a : Assembly) (i hint size addr : Nat) (bytes : Bytes) : Bool :=
  match a.stmts[i]? with
  | some s => s.pkg.needsRes && s.pcrHint == hint && s.pkg.size == size && addrNat s == some addr &&
      stmtBytes s == some bytes
  | none => false

private theorem pcrIs_spec {a : Assembly} {i hint size addr : Nat} {bytes : Bytes}
    (h : pcrIs a i hint size addr bytes = true) :
    ∃ s, a.stmts[i]? = some s ∧ s.pkg.needsRes = true ∧ s.pcrHint = hint ∧ s.pkg.size = size ∧
      addrNat s = some addr ∧ stmtBytes s = some bytes := by
  unfold pcrIs at h
  split at h
  · rename_i s hs
    simp only [Bool.and_eq_true, beq_iff_eq] at h
    obtain ⟨⟨⟨⟨h1, h2⟩, h3⟩, h4⟩, h5⟩ := h
    exact ⟨s, hs, h1, h2, h3, h4, h5⟩
  · cases h

/-- the bound −128 is attained: `LEAX T,PCR` 125 bytes after `T` takes the 8-bit form with displacement `$80` -/
def C03_tightWitness : List Str := ["T RMB 125\n", " LEAX T,PCR\n"].map String.toList

theorem C03_width_tight :
    ∃ a s, assemble [] C03_tightWitness = .ok a ∧ a.stmts[1]? = some s ∧ s.pkg.needsRes = true ∧ s.pcrHint = 2 ∧
      s.pkg.size = 3 ∧ addrNat s = some 125 ∧ stmtBytes s = some [0x30, 0x8C, 0x80] := by
  obtain ⟨a, ha, hc⟩ := checkProgram_sound (lines := C03_tightWitness)
    (check := fun a => pcrIs a 1 2 3 125 [0x30, 0x8C, 0x80]) (by decide +kernel) []
  obtain ⟨s, h1, h2, h3, h4, h5, h6⟩ := pcrIs_spec hc
  exact ⟨a, s, ha, h1, h2, h3, h4, h5, h6⟩

/-- one byte further the 16-bit form is taken -/
def C03_tightWitness16 : List Str := ["T RMB 126\n", " LEAX T,PCR\n"].map String.toList

theorem C03_width_tight16 :
    ∃ a s, assemble [] C03_tightWitness16 = .ok a ∧ a.stmts[1]? = some s ∧ s.pkg.needsRes = true ∧ s.pcrHint = 4 ∧
      s.pkg.size = 4 ∧ addrNat s = some 126 ∧ stmtBytes s = some [0x30, 0x8D, 0xFF, 0x7E] := by
  obtain ⟨a, ha, hc⟩ := checkProgram_sound (lines := C03_tightWitness16)
    (check := fun a => pcrIs a 1 4 4 126 [0x30, 0x8D, 0xFF, 0x7E]) (by decide +kernel) []
  obtain ⟨s, h1, h2, h3, h4, h5, h6⟩ := pcrIs_spec hc
  exact ⟨a, s, ha, h1, h2, h3, h4, h5, h6⟩

/-- forward reference, `label + k`, `label − k`, and a reference below address zero (`L-100` at address 0:
displacement −103, byte `$99`): the hypotheses of the width theorems are satisfiable -/
def C03_widthExample : List Str :=
  ["L LEAX L-100,PCR\n", " LEAX T,PCR\n", " RMB 100\n", "T NOP\n", " LEAX T+20,PCR\n", " LEAX T-20,PCR\n"].map
    String.toList

theorem C03_width_example :
    ∃ a, assemble [] C03_widthExample = .ok a ∧
      pcrIs a 0 2 3 0 [0x30, 0x8C, 0x99] = true ∧ pcrIs a 1 2 3 3 [0x30, 0x8C, 0x64] = true ∧
      pcrIs a 4 2 3 107 [0x30, 0x8C, 0x10] = true ∧ pcrIs a 5 2 3 110 [0x30, 0x8C, 0xE5] = true ∧
      a.stmts.all (fun u => u.row.mnemonic != "ORG") = true := by
  obtain ⟨a, ha, hc⟩ := checkProgram_sound (lines := C03_widthExample)
    (check := fun a => pcrIs a 0 2 3 0 [0x30, 0x8C, 0x99] && pcrIs a 1 2 3 3 [0x30, 0x8C, 0x64] &&
      pcrIs a 4 2 3 107 [0x30, 0x8C, 0x10] && pcrIs a 5 2 3 110 [0x30, 0x8C, 0xE5] &&
      a.stmts.all (fun u => u.row.mnemonic != "ORG")) (by decide +kernel) []
  simp only [Bool.and_eq_true] at hc
  obtain ⟨⟨⟨⟨h1, h2⟩, h3⟩, h4⟩, h5⟩ := hc
  exact ⟨a, ha, h1, h2, h3, h4, h5⟩

/-- **regression witnesses**: the three programs that refuted the width invariant before the repairs.
` RMB 125 / L LDY L-125,PCR` (own label: was 8-bit with distance −129, bytes `10 AE 8C FF`) and
` RMB 200 / M NOP / L LEAX L+M,PCR` (label + label: was 8-bit with distance 197, bytes `30 8C C5`) now take the
16-bit form; `L LEAX L-100,PCR` at address 0 is in `C03_width_example` -/
def C03_regressionA : List Str := [" RMB 125\n", "L LDY L-125,PCR\n"].map String.toList
def C03_regressionB : List Str := [" RMB 200\n", "M NOP\n", "L LEAX L+M,PCR\n"].map String.toList

theorem C03_width_regressions :
    (∃ a, assemble [] C03_regressionA = .ok a ∧ pcrIs a 1 4 5 125 [0x10, 0xAE, 0x8D, 0xFF, 0x7E] = true) ∧
    (∃ a, assemble [] C03_regressionB = .ok a ∧ pcrIs a 2 4 4 201 [0x30, 0x8D, 0x00, 0xC4] = true) :=
  ⟨checkProgram_sound (lines := C03_regressionA)
      (check := fun a => pcrIs a 1 4 5 125 [0x10, 0xAE, 0x8D, 0xFF, 0x7E]) (by decide +kernel) [],
   checkProgram_sound (lines := C03_regressionB)
      (check := fun a => pcrIs a 2 4 4 201 [0x30, 0x8D, 0x00, 0xC4]) (by decide +kernel) []⟩

/-! ### an ORG between statement and target (batch B2: the 8-bit form is range-checked against ADDRESSES) -/

/-- the size loop measures distances in sizes; an ORG between statement and target moves the target.
(The first witness: the target is 4093 bytes away.) -/
def C03_pcrOrgWitness : List Str := ["S LEAX T,PCR\n", " ORG $1000\n", "T NOP\n"].map String.toList

/-- the second witness: with the ORG at `$CB` the target is 200 bytes away; 200 fits one byte as an UNSIGNED number,
so `fit_operand_width` used to let it pass, and the CPU read the byte `$C8` as −56 -/
def C03_pcrOrgWitness200 : List Str := ["S LEAX T,PCR\n", " ORG $CB\n", "T NOP\n"].map String.toList

/-- REPAIRED (formerly `C03_pcr_org_counterexample`, twice): `S LEAX T,PCR / ORG $1000 / T NOP` used to be accepted
with the 8-bit form and the byte `$FF` although `T` is 4093 bytes away; after `fit_operand_width` rejected that one,
`S LEAX T,PCR / ORG $CB / T NOP` was still accepted with the byte `$C8` although `T` is 200 bytes away (`¬ PcrField`).
Both are diagnostics now ("out of range of the 8-bit offset"), whatever the host files are; and by `C03_pcr_label`
no accepted program violates `PcrField` any more -/
theorem C03_pcr_org_counterexample_fixed (fs : Files) :
    assemble fs C03_pcrOrgWitness = .diag ∧ assemble fs C03_pcrOrgWitness200 = .diag :=
  ⟨diagProgram_sound (by decide +kernel) fs, diagProgram_sound (by decide +kernel) fs⟩

/-- an ORG between the statement and an in-range target: accepted, 8-bit form, and the field reaches the target
(`T` at `$10`, displacement `$10 − 0 − 3 = $0D`); the hypotheses of `C03_pcr_label` / `C03_pcr8_in_range` are
satisfiable across an ORG -/
def C03_pcrOrgExample : List Str := ["S LEAX T,PCR\n", " ORG $10\n", "T NOP\n"].map String.toList

private def pcrOrgCheck (a : Assembly) : Bool :=
  pcrIs a 0 2 3 0 [0x30, 0x8C, 0x0D] &&
  (match a.stmts[0]?, a.stmts[1]?, a.stmts[2]? with
   | some s, some o, some t =>
     (match s.operand.left with | .val (.address 2 _) => true | _ => false) && o.row.mnemonic == "ORG" &&
       addrNat t == some 16
   | _, _, _ => false)

theorem C03_pcr_org_example :
    ∃ a s o t m, assemble [] C03_pcrOrgExample = .ok a ∧ a.stmts[0]? = some s ∧ a.stmts[1]? = some o ∧
      a.stmts[2]? = some t ∧ o.row.mnemonic = "ORG" ∧
      s.pkg.needsRes = true ∧ s.operand.left = .val (.address 2 m) ∧ s.pcrHint = 2 ∧ addrNat s = some 0 ∧
      addrNat t = some 16 ∧ stmtBytes s = some [0x30, 0x8C, 0x0D] ∧ PcrField s t := by
  obtain ⟨a, ha, hc⟩ := checkProgram_sound (lines := C03_pcrOrgExample) (check := pcrOrgCheck) (by decide +kernel) []
  unfold pcrOrgCheck at hc
  simp only [Bool.and_eq_true] at hc
  obtain ⟨h1, h2⟩ := hc
  obtain ⟨s, hs, hn, hh, hsz, hx, hb⟩ := pcrIs_spec h1
  rw [hs] at h2
  split at h2
  · rename_i s' o t hs' ho ht
    cases hs'
    simp only [Bool.and_eq_true, beq_iff_eq] at h2
    obtain ⟨⟨h3, h4⟩, h5⟩ := h2
    split at h3
    · rename_i m hl
      exact ⟨a, s, o, t, m, ha, hs, ho, ht, h4, hn, hl, hh, hx, h5, hb, C03_pcr_label ha hs hn hl ht⟩
    · cases h3
  · cases h2

/-! ### finding: `label + N,PCR` with a negative `N` below `−address(label)` -/

/-- `N EQU -5 / L LEAX L+N,PCR` at address 0: `fix_addresses` takes the `.int` (the MAGNITUDE) of
`calculate_address_offset`'s result `0 + (−5)`, so the target is 5, not `−5 mod 65536 = $FFFB`; the byte `$02`
(`5 − 0 − 3`) is emitted where `$F8` (`−5 − 0 − 3`) reaches `L−5`.  (`L-5,PCR` is right: `−` is reduced modulo 65536;
`FDB L+N`, `LDX #L+N`, `LDX L+N` are right too: `$FFFB`, two's complement at four digits.)  True of the model and of
the real code; see `fixRel_target_expr`, `Target8`. -/
def C03_plusNegativeWitness : List Str := ["N EQU -5\n", "L LEAX L+N,PCR\n", " LEAX L-5,PCR\n"].map String.toList

theorem C03_pcr_plus_negative_finding :
    ∃ a, assemble [] C03_plusNegativeWitness = .ok a ∧
      pcrIs a 1 2 3 0 [0x30, 0x8C, 0x02] = true ∧ pcrIs a 2 2 3 3 [0x30, 0x8C, 0xF5] = true := by
  obtain ⟨a, ha, hc⟩ := checkProgram_sound (lines := C03_plusNegativeWitness)
    (check := fun a => pcrIs a 1 2 3 0 [0x30, 0x8C, 0x02] && pcrIs a 2 2 3 3 [0x30, 0x8C, 0xF5]) (by decide +kernel) []
  simp only [Bool.and_eq_true] at hc
  exact ⟨a, ha, hc.1, hc.2⟩

end CoCo.Props
