/-
Props/DiskDefs.lean — the statements of the disk properties C07, C08, C15 (no proofs here).
-/
import CoCoVerif.Model.Disk
import CoCoVerif.Spec.DiskBasic

namespace CoCo.Props
open CoCo CoCo.Dsk

/-- a granule fill order all of whose entries are granule numbers -/
def ValidOrder (order : List Nat) : Prop := ∀ g ∈ order, g < 68

/-- a fill order that offers every granule (needed for "an empty disk offers all 68 granules") -/
def CompleteOrder (order : List Nat) : Prop := ValidOrder order ∧ ∀ g, g < 68 → g ∈ order

/-- inputs the disk writer is specified for -/
def ValidDFile (f : CFile) : Prop :=
  (∀ c ∈ f.name, c < 128) ∧ (∀ c ∈ f.ext, c < 128) ∧ f.ftype < 256 ∧ f.dtype < 256 ∧
  f.load < 65536 ∧ f.exec < 65536 ∧ (∀ b ∈ f.data, b < 256) ∧ f.data.length ≤ 65535

/-- the stored stream of a file: preamble, data, postamble -/
def streamOfFile (f : CFile) : Bytes :=
  let k := kindOf f.ftype f.dtype
  preamble k f.data.length f.load ++ f.data ++ (match postamble k f.exec with | some t => t | none => [])

/-- the disk-format view of a stored file -/
def toDFile (f : CFile) : Spec.DiskBasic.DFile :=
  let k := kindOf f.ftype f.dtype
  { name := padUpper 8 f.name, ext := padUpper 3 f.ext, ftype := f.ftype, ascii := f.dtype,
    load := if k = .ml then f.load else 0, exec := if k = .ml then f.exec else 0, data := f.data }

/-- what listing returns for a file found on a disk -/
def ofDFile (d : Spec.DiskBasic.DFile) : CFile :=
  { name := d.name.filter (· != 0x20), ext := d.ext, ftype := d.ftype, dtype := d.ascii, gaps := 0,
    load := d.load, exec := d.exec, data := d.data }

/-- **C08**: every image the tool writes (any valid fill order, any sequence of stored files) is a
structurally valid Disk BASIC filesystem, and the reference reader finds exactly the stored files on it. -/
def C08_Statement : Prop :=
  ∀ (order : List Nat) (fs : List CFile) (img : Bytes),
    ValidOrder order → (∀ f ∈ fs, ValidDFile f) → Dsk.write order fs = .ok img →
      Spec.DiskBasic.Fsck img ∧ Spec.DiskBasic.read img = some (fs.map toDFile)

/-- number of granules a file needs: minimum for its stored stream, one more at an exact multiple -/
def needs (f : CFile) : Nat := (streamOfFile f).length / 2304 + 1

/-- **C15**: space accounting is exact. For every image reachable from a blank one:
a file that fits is stored in exactly `needs f` granules that were free and one more slot;
a file that does not fit (granules or slot) fails with a diagnostic. -/
def C15_Statement : Prop :=
  (Spec.DiskBasic.freeGranules Dsk.blank = 68 ∧ Spec.DiskBasic.freeSlots Dsk.blank = 72) ∧
  ∀ (order : List Nat) (fs : List CFile) (img : Bytes) (f : CFile),
    CompleteOrder order → (∀ g ∈ fs, ValidDFile g) → ValidDFile f → Dsk.write order fs = .ok img →
      (needs f ≤ Spec.DiskBasic.freeGranules img ∧ 0 < Spec.DiskBasic.freeSlots img →
         ∃ img', Dsk.addFile order img f = .ok img' ∧
           Spec.DiskBasic.freeGranules img' = Spec.DiskBasic.freeGranules img - needs f ∧
           Spec.DiskBasic.freeSlots img' = Spec.DiskBasic.freeSlots img - 1 ∧
           (∀ g, g < 68 → Spec.DiskBasic.fatAt img g ≠ 0xFF → Spec.DiskBasic.fatAt img' g = Spec.DiskBasic.fatAt img g)) ∧
      (Spec.DiskBasic.freeGranules img < needs f ∨ Spec.DiskBasic.freeSlots img = 0 →
         Dsk.addFile order img f = .diag)

/-- ASCII files whose last-granule marker says "0 sectors". They used to be read wrongly by the tool
(calculate_file_length went negative) and were the exclusion of C07 (b); repaired (C07_full, C07_finding_zeroSector_fixed).
Such images are never written by the tool. -/
def K_C07_zeroSectorAscii (img : Bytes) : Bool :=
  (Spec.DiskBasic.liveSlots img).any (fun k =>
    let e := Spec.DiskBasic.dirEntry img k
    Spec.DiskBasic.entFtype e != 0x02 && Spec.DiskBasic.entAscii e == 0xFF &&
    (match Spec.DiskBasic.chainOf img k with | some (_, s) => s == 0 | none => false))

/-- **C07**: (a) write-then-list returns the files; (b) listing ANY well-formed Disk BASIC image — chains in
any order, not physically adjacent — returns exactly the files the reference reader finds. -/
def C07_Statement : Prop :=
  (∀ (order : List Nat) (fs : List CFile) (img : Bytes),
     ValidOrder order → (∀ f ∈ fs, ValidDFile f) → Dsk.write order fs = .ok img →
       Dsk.list img = .ok (fs.map Dsk.norm)) ∧
  (∀ (img : Bytes) (ds : List Spec.DiskBasic.DFile),
     Spec.DiskBasic.Fsck img → Spec.DiskBasic.read img = some ds →
     (∀ d ∈ ds, (∀ c ∈ d.name, c < 128) ∧ (∀ c ∈ d.ext, c < 128)) →
       Dsk.list img = .ok (ds.map ofDFile))

end CoCo.Props
