/-
Props/C18RelocText.lean — C18-R1 (relocation) for source text.

* `C18_R1_Statement` of Props/C18.lean is FALSE as stated (`C18_R1_Statement_false`): the label part of
  `orgLine lab n` is an arbitrary string, so `lab ORG $hhhh` need not be an ORG statement at all.
* `C18_R1` proves the repaired statement (`C18_R1_Repaired`: the label part consists of label characters).
* `C18_R1_code` is the value-level form: code bytes and symbol table.
* `C18_R1_equ` (model batch 4): the final symbol table entry by entry, EQUs defined by label expressions included;
  `reloc_equ_witness` is the evaluated sample.
-/
import CoCoVerif.Props.C18RelocSrc
import CoCoVerif.Lemmas.RelocCheck

namespace CoCo.Props
open CoCo CoCo.Asm

/-! ## lines -/

/-- two source lines: the same line, which is neither an ORG nor an INCLUDE; or `lab ORG $n` and
`lab ORG $(n+D)` with a well-formed label part -/
def LineShift (D : Nat) (P : Nat → Prop) (x y : Str) : Prop :=
  (x = y ∧ ∀ s, parseLine x = .ok (some s) → s.row.isOrigin = false ∧ s.row.isInclude = false) ∨
  (∃ lab n, lab.all isLabelCh = true ∧ P n ∧ x = orgLine lab n ∧ y = orgLine lab (n + D) ∧ n + D < 65536)

theorem orgStmt_rel {D : Nat} {P : Nat → Prop} (lab : Str) {n : Nat} (hP : P n) :
    OrgRel D P (orgStmt lab n) (orgStmt lab (n + D)) :=
  .inr ⟨rfl, rfl, rfl, rfl, rfl, n, hP, rfl, rfl⟩

theorem parseLines_shift {D : Nat} {P : Nat → Prop} : ∀ (la lb : List Str) (pa pb : List Stmt),
    PW (LineShift D P) la lb → parseLines la = .ok pa → parseLines lb = .ok pb →
    PW (OrgRel D P) pa pb ∧ ∀ s ∈ pa, s.row.isInclude = false := by
  intro la
  induction la with
  | nil =>
    intro lb pa pb h ha hb
    rw [h.nil_left] at hb
    simp [parseLines] at ha hb
    subst ha hb
    exact ⟨.nil, by simp⟩
  | cons x xs ih =>
    intro lb pa pb h ha hb
    obtain ⟨y, ys, rfl, hxy, hrest⟩ := h.cons_left
    rw [parseLines] at ha hb
    rcases hxy with ⟨rfl, hx⟩ | ⟨lab, n, hl, hP, rfl, rfl, hn⟩
    · cases hp : parseLine x with
      | ok o =>
        rw [hp] at ha hb
        cases o with
        | none => exact ih ys pa pb hrest ha hb
        | some s =>
          dsimp only at ha hb
          cases h1 : parseLines xs with
          | ok r =>
            cases h2 : parseLines ys with
            | ok r' =>
              rw [h1] at ha; rw [h2] at hb
              cases ha; cases hb
              obtain ⟨i1, i2⟩ := ih ys r r' hrest h1 h2
              have hs := hx s hp
              refine ⟨.cons (.inl ⟨rfl, parseLine_notOrg hp hs.1⟩) i1, ?_⟩
              intro t ht
              rcases List.mem_cons.mp ht with rfl | ht
              · exact hs.2
              · exact i2 t ht
            | _ => rw [h2] at hb; cases hb
          | _ => rw [h1] at ha; cases ha
      | _ => rw [hp] at ha; cases ha
    · rw [parseLine_org hl (by omega)] at ha
      rw [parseLine_org hl hn] at hb
      dsimp only at ha hb
      cases h1 : parseLines xs with
      | ok r =>
        cases h2 : parseLines ys with
        | ok r' =>
          rw [h1] at ha; rw [h2] at hb
          cases ha; cases hb
          obtain ⟨i1, i2⟩ := ih ys r r' hrest h1 h2
          refine ⟨.cons (orgStmt_rel lab hP) i1, ?_⟩
          intro t ht
          rcases List.mem_cons.mp ht with rfl | ht
          · rfl
          · exact i2 t ht
        | _ => rw [h2] at hb; cases hb
      | _ => rw [h1] at ha; cases ha

/-! ## the repaired statement -/

/-- `ShiftOrg` of Props/C18.lean with a well-formed label part (and a side condition `P` on the ORG
values) -/
def ShiftOrgP (D : Nat) (P : Nat → Prop) (la lb : List Str) : Prop :=
  la.length = lb.length ∧ ∀ (i : Nat) (x y : Str), la[i]? = some x → lb[i]? = some y → LineShift D P x y

theorem ShiftOrgP.pw {D : Nat} {P : Nat → Prop} {la lb : List Str} (h : ShiftOrgP D P la lb) :
    PW (LineShift D P) la lb := ⟨h.1.symm, h.2⟩

/-- C18-R1 repaired: as `C18_R1_Statement`, but the label part of every ORG line consists of label
characters (and the first line is such an ORG line with a value below `$10000`) -/
def C18_R1_Repaired : Prop :=
  ∀ (fs : Files) (la lb : List Str) (D : Nat) (A B : Assembly),
    ShiftOrgP D (fun _ => True) la lb →
    (∃ lab n rest, lab.all isLabelCh = true ∧ n < 65536 ∧ la = orgLine lab n :: rest) →
    assemble fs la = .ok A → assemble fs lb = .ok B →
    A.stmts.length = B.stmts.length ∧
    ∀ (i : Nat) (s t : Stmt) (n : Nat), A.stmts[i]? = some s → B.stmts[i]? = some t →
      s.pkg.address.int? = some n → t.pkg.address.int? = some (n + D)

theorem head_org {la : List Str} {pa : List Stmt} {lab : Str} {n : Nat} {rest : List Str}
    (hl : lab.all isLabelCh = true) (hn : n < 65536) (hla : la = orgLine lab n :: rest)
    (hpa : parseLines la = .ok pa) : ∃ s0 r0, pa = s0 :: r0 ∧ s0.row.mnemonic = "ORG" := by
  subst hla
  rw [parseLines, parseLine_org hl hn] at hpa
  dsimp only at hpa
  cases h1 : parseLines rest with
  | ok r => rw [h1] at hpa; cases hpa; exact ⟨_, r, rfl, rfl⟩
  | _ => rw [h1] at hpa; cases hpa

theorem C18_R1 : C18_R1_Repaired := by
  intro fs la lb D A B hsh ⟨lab, n, rest, hl, hn, hla⟩ hA hB
  obtain ⟨stA⟩ := assemble_stages hA
  obtain ⟨stB⟩ := assemble_stages hB
  obtain ⟨hrel, hinc⟩ := parseLines_shift la lb _ _ hsh.pw stA.hparse stB.hparse
  exact C18_R1_parsed stA.hparse stB.hparse hrel hinc (head_org hl hn hla stA.hparse) hA hB

/-- C18-R1, value level, for source text: every ORG at `$100` or above.  Conclusions as in
`C18_R1_parsed_code` (model batch 4: the last conjunct is about the table entries that are not EQUs defined by a label
expression, `EquConst`; `C18_R1_equ` is about all entries). -/
theorem C18_R1_code {fs : Files} {la lb : List Str} {D : Nat} {A B : Assembly}
    (hsh : ShiftOrgP D (OrgOk D) la lb)
    (hhead : ∃ lab n rest, lab.all isLabelCh = true ∧ n < 65536 ∧ la = orgLine lab n :: rest)
    (stA : Stages fs la A) (stB : Stages fs lb B) :
    stB.t = stA.t ∧ PW (AddrShift D) stA.ss4 stB.ss4 ∧ PW (AddrShift D) A.stmts B.stmts ∧
    (∀ (i : Nat) (s4 t t' : Stmt), stA.ss4[i]? = some s4 → A.stmts[i]? = some t → B.stmts[i]? = some t' →
      (Unmoved D stA.ss4 s4 → ListsConst stA.t s4 → t'.pkg.additional = t.pkg.additional ∧ stmtBytes t' = stmtBytes t) ∧
      (Moved D stA.ss4 s4 → t'.pkg.additional = shiftV D t.pkg.additional ∧
        ∀ bs, stmtBytes t = some bs →
          ∃ pre x, t.pkg.additional.int? = some x ∧ x + D < 65536 ∧ bs = pre ++ [x / 256, x % 256] ∧
            stmtBytes t' = some (pre ++ [(x + D) / 256, (x + D) % 256]))) ∧
    (∀ (j : Nat) (k : Str) (v : Value), stA.t[j]? = some (k, v) → EquConst stA.t v →
      ∃ kw, A.symtab[j]? = some kw ∧
        B.symtab[j]? = some (kw.1, if v.isAddress then shiftV D kw.2 else kw.2)) := by
  obtain ⟨lab, n, rest, hl, hn, hla⟩ := hhead
  obtain ⟨hrel, hinc⟩ := parseLines_shift la lb _ _ hsh.pw stA.hparse stB.hparse
  exact C18_R1_parsed_code stA.hparse stB.hparse hrel hinc (head_org hl hn hla stA.hparse) stA stB

/-- C18-R1, value level, for source text, the final symbol table entry by entry (model batch 4: an EQU defined by an
expression is listed with its value): conclusions as in `C18_R1_parsed_equ` — a label moves by `D`, an EQU that is not
defined by a label expression stays, an EQU defined by a label expression moves like that expression (`EquRel`) -/
theorem C18_R1_equ {fs : Files} {la lb : List Str} {D : Nat} {A B : Assembly}
    (hsh : ShiftOrgP D (OrgOk D) la lb)
    (hhead : ∃ lab n rest, lab.all isLabelCh = true ∧ n < 65536 ∧ la = orgLine lab n :: rest)
    (stA : Stages fs la A) (stB : Stages fs lb B) :
    ∀ (j : Nat) (k : Str) (v : Value), stA.t[j]? = some (k, v) →
      ∃ x x', A.symtab[j]? = some (k, x) ∧ B.symtab[j]? = some (k, x') ∧ EquRel D stA.ss4 stA.t v x x' := by
  obtain ⟨lab, n, rest, hl, hn, hla⟩ := hhead
  obtain ⟨hrel, hinc⟩ := parseLines_shift la lb _ _ hsh.pw stA.hparse stB.hparse
  exact C18_R1_parsed_equ stA.hparse stB.hparse hrel hinc (head_org hl hn hla stA.hparse) stA stB

/-- C18-R1, value level, for source text, the third class (`MovedMod`): conclusions as in
`C18_R1_parsed_code_mod` -/
theorem C18_R1_code_mod {fs : Files} {la lb : List Str} {D : Nat} {A B : Assembly}
    (hsh : ShiftOrgP D (OrgOk D) la lb)
    (hhead : ∃ lab n rest, lab.all isLabelCh = true ∧ n < 65536 ∧ la = orgLine lab n :: rest)
    (stA : Stages fs la A) (stB : Stages fs lb B) :
    ∀ (i : Nat) (s4 t t' : Stmt), stA.ss4[i]? = some s4 → A.stmts[i]? = some t → B.stmts[i]? = some t' →
      MovedMod D stA.ss4 s4 → t'.pkg.additional = shiftVmod D t.pkg.additional ∧
        ∀ bs, stmtBytes t = some bs →
          ∃ pre x, t.pkg.additional.int? = some x ∧ x < 65536 ∧ bs = pre ++ [x / 256, x % 256] ∧
            stmtBytes t' = some (pre ++ [(x + D) % 65536 / 256, (x + D) % 65536 % 256]) := by
  obtain ⟨lab, n, rest, hl, hn, hla⟩ := hhead
  obtain ⟨hrel, hinc⟩ := parseLines_shift la lb _ _ hsh.pw stA.hparse stB.hparse
  exact C18_R1_parsed_code_mod stA.hparse stB.hparse hrel hinc (head_org hl hn hla stA.hparse) stA stB

/-- C18-R1, value level, for source text, the fourth class (`MovedNeg`: `number - label`): conclusions as in
`C18_R1_parsed_code_neg` -/
theorem C18_R1_code_neg {fs : Files} {la lb : List Str} {D : Nat} {A B : Assembly}
    (hsh : ShiftOrgP D (OrgOk D) la lb)
    (hhead : ∃ lab n rest, lab.all isLabelCh = true ∧ n < 65536 ∧ la = orgLine lab n :: rest)
    (stA : Stages fs la A) (stB : Stages fs lb B) :
    ∀ (i : Nat) (s4 t t' : Stmt), stA.ss4[i]? = some s4 → A.stmts[i]? = some t → B.stmts[i]? = some t' →
      MovedNeg stA.ss4 s4 → t'.pkg.additional = shiftVneg D t.pkg.additional ∧
        ∀ bs, stmtBytes t = some bs →
          ∃ pre x y, t.pkg.additional.int? = some x ∧ x < 65536 ∧ y < 65536 ∧ (y + D) % 65536 = x ∧
            bs = pre ++ [x / 256, x % 256] ∧ stmtBytes t' = some (pre ++ [y / 256, y % 256]) := by
  obtain ⟨lab, n, rest, hl, hn, hla⟩ := hhead
  obtain ⟨hrel, hinc⟩ := parseLines_shift la lb _ _ hsh.pw stA.hparse stB.hparse
  exact C18_R1_parsed_code_neg stA.hparse stB.hparse hrel hinc (head_org hl hn hla stA.hparse) stA stB

/-! ## the statement of Props/C18.lean is false -/

def r1lineA : Str := "X NOP ; ORG $1000\n".toList
def r1lineB : Str := "X NOP ; ORG $1100\n".toList
def r1cexA : List Str := [r1lineA]
def r1cexB : List Str := [r1lineB]

set_option maxRecDepth 100000 in
theorem r1lineA_eq : r1lineA = orgLine "X NOP ;".toList 4096 := by decide
set_option maxRecDepth 100000 in
theorem r1lineB_eq : r1lineB = orgLine "X NOP ;".toList (4096 + 256) := by decide

set_option maxRecDepth 1000000 in
theorem r1cexA_ok : checkProgram r1cexA (fun A => A.stmts.map (·.pkg.address.int?) == [some 0]) = true := by decide
set_option maxRecDepth 1000000 in
theorem r1cexB_ok : checkProgram r1cexB (fun A => A.stmts.map (·.pkg.address.int?) == [some 0]) = true := by decide

attribute [irreducible] r1lineA r1lineB

/-- counterexample: `lab := "X NOP ;"`; the line `X NOP ; ORG $1000` is a NOP with a comment, the
"ORG operand" is comment text, and the NOP sits at address 0 in both programs -/
theorem C18_R1_Statement_false : ¬ C18_R1_Statement := by
  intro h
  obtain ⟨A, hA, cA⟩ := checkProgram_sound r1cexA_ok []
  obtain ⟨B, hB, cB⟩ := checkProgram_sound r1cexB_ok []
  have hsh : ShiftOrg 256 r1cexA r1cexB := by
    refine ⟨by simp [r1cexA, r1cexB], ?_⟩
    intro i x y hx hy
    right
    refine ⟨"X NOP ;".toList, 4096, ?_, ?_, by omega⟩
    · cases i with
      | zero =>
        simp only [r1cexA, List.getElem?_cons_zero, Option.some.injEq] at hx
        rw [← hx]; exact r1lineA_eq
      | succ j => simp [r1cexA] at hx
    · cases i with
      | zero =>
        simp only [r1cexB, List.getElem?_cons_zero, Option.some.injEq] at hy
        rw [← hy]; exact r1lineB_eq
      | succ j => simp [r1cexB] at hy
  have hhd : ∃ lab n rest, r1cexA = orgLine lab n :: rest :=
    ⟨"X NOP ;".toList, 4096, [], by rw [← r1lineA_eq]; rfl⟩
  obtain ⟨hlen, hall⟩ := h [] r1cexA r1cexB 256 A B hsh hhd hA hB
  simp only [beq_iff_eq] at cA cB
  cases hAs : A.stmts with
  | nil => rw [hAs] at cA; simp at cA
  | cons s rs =>
    cases hBs : B.stmts with
    | nil => rw [hBs] at cB; simp at cB
    | cons t rt =>
      rw [hAs] at cA; rw [hBs] at cB
      simp only [List.map_cons, List.cons.injEq] at cA cB
      have := hall 0 s t 0 (by rw [hAs]; rfl) (by rw [hBs]; rfl) cA.1
      rw [cB.1] at this
      cases this

/-! ## non-vacuity -/

/-- executable side condition on an unchanged line -/
def lineOkB (x : Str) : Bool :=
  match parseLine x with
  | .ok (some s) => !s.row.isOrigin && !s.row.isInclude
  | _ => true

theorem lineOkB_sound {x : Str} (h : lineOkB x = true) :
    ∀ s, parseLine x = .ok (some s) → s.row.isOrigin = false ∧ s.row.isInclude = false := by
  intro s hs
  unfold lineOkB at h
  rw [hs] at h
  simpa using h

/-- a program with one ORG, on the first line -/
theorem shiftOrgP_single {D : Nat} {P : Nat → Prop} (lab : Str) (n : Nat) (rest : List Str)
    (hl : lab.all isLabelCh = true) (hP : P n) (hn : n + D < 65536) (hrest : rest.all lineOkB = true) :
    ShiftOrgP D P (orgLine lab n :: rest) (orgLine lab (n + D) :: rest) := by
  refine ⟨rfl, ?_⟩
  intro i x y hx hy
  cases i with
  | zero =>
    simp at hx hy; subst hx hy
    exact .inr ⟨lab, n, hl, hP, rfl, rfl, hn⟩
  | succ j =>
    simp at hx hy
    rw [hx] at hy; cases hy
    exact .inl ⟨rfl, lineOkB_sound (List.all_eq_true.mp hrest x (List.mem_of_getElem? hx))⟩

/-- the body of the sample program: immediate label, `label+1`, PCR, short branch, absolute jump, data, EQU -/
def relocBody : List Str :=
  ["START LDX #DATA\n", " LDA DATA+1\n", " LEAY DATA,PCR\n", "LOOP DECA\n", " BNE LOOP\n", " JMP START\n",
   "DATA FCB 1,2\n", "LEN EQU 2\n", " END\n"].map String.toList

def relocA : List Str := orgLine [] 0x1000 :: relocBody
def relocB : List Str := orgLine [] 0x1100 :: relocBody

example : relocA.head? = some " ORG $1000\n".toList := by decide
example : relocB.head? = some " ORG $1100\n".toList := by decide

set_option maxRecDepth 1000000 in
theorem relocBody_ok : relocBody.all lineOkB = true := by decide

theorem reloc_shift : ShiftOrgP 0x100 (OrgOk 0x100) relocA relocB :=
  shiftOrgP_single [] 0x1000 relocBody (by decide) (by unfold OrgOk; omega) (by omega) relocBody_ok

/-- the images, evaluated: `LDX #DATA` (8E 100F / 8E 110F), `LDA DATA+1` (B6 1010 / B6 1110) and
`JMP START` (7E 1000 / 7E 1100) move; `LEAY DATA,PCR` (31 8C 06), `DECA`, `BNE LOOP` (26 FD) and the data
do not -/
def imageA : Bytes := [0x8E, 0x10, 0x0F, 0xB6, 0x10, 0x10, 0x31, 0x8C, 0x06, 0x4A, 0x26, 0xFD, 0x7E, 0x10, 0x00, 1, 2]
def imageB : Bytes := [0x8E, 0x11, 0x0F, 0xB6, 0x11, 0x10, 0x31, 0x8C, 0x06, 0x4A, 0x26, 0xFD, 0x7E, 0x11, 0x00, 1, 2]

set_option maxRecDepth 1000000 in
theorem relocA_ok : checkProgram relocA (fun A => A.image == some imageA) = true := by decide
set_option maxRecDepth 1000000 in
theorem relocB_ok : checkProgram relocB (fun A => A.image == some imageB) = true := by decide

/-- the hypotheses of `C18_R1` and `C18_R1_code` are satisfiable, and the conclusion of `C18_R1` holds of
the sample program relocated by `$100` -/
example : ∃ A B, assemble [] relocA = .ok A ∧ assemble [] relocB = .ok B ∧
    A.image = some imageA ∧ B.image = some imageB ∧
    A.stmts.length = B.stmts.length ∧
    (∀ (i : Nat) (s t : Stmt) (n : Nat), A.stmts[i]? = some s → B.stmts[i]? = some t →
      s.pkg.address.int? = some n → t.pkg.address.int? = some (n + 0x100)) ∧
    PW (AddrShift 0x100) A.stmts B.stmts := by
  obtain ⟨A, hA, cA⟩ := checkProgram_sound relocA_ok []
  obtain ⟨B, hB, cB⟩ := checkProgram_sound relocB_ok []
  have hsh0 : ShiftOrgP 0x100 (fun _ => True) relocA relocB :=
    shiftOrgP_single [] 0x1000 relocBody (by decide) trivial (by omega) relocBody_ok
  have hhd : ∃ lab n rest, lab.all isLabelCh = true ∧ n < 65536 ∧ relocA = orgLine lab n :: rest :=
    ⟨[], 0x1000, relocBody, by decide, by omega, rfl⟩
  obtain ⟨h1, h2⟩ := C18_R1 [] relocA relocB 0x100 A B hsh0 hhd hA hB
  obtain ⟨stA⟩ := assemble_stages hA
  obtain ⟨stB⟩ := assemble_stages hB
  have h3 := (C18_R1_code reloc_shift hhd stA stB).2.2.1
  exact ⟨A, B, hA, hB, by simpa using cA, by simpa using cB, h1, h2, h3⟩

/-! ## signed constants (repair batch B2): `label + N`, `label - N` with a negative EQU -/

/-- the body of the signed sample program: `N` is MINUS two; `A+N` in an FDB, `A-N` in a 16-bit immediate,
`A+N` as a PCR target -/
def signedBody : List Str :=
  ["N EQU -2\n", "A FDB A+N\n", " LDX #A-N\n", " LEAX A+N,PCR\n"].map String.toList

def signedA : List Str := orgLine [] 0x0100 :: signedBody
def signedB : List Str := orgLine [] 0x0200 :: signedBody

example : signedA.head? = some " ORG $0100\n".toList := by decide
example : signedB.head? = some " ORG $0200\n".toList := by decide

set_option maxRecDepth 1000000 in
theorem signedBody_ok : signedBody.all lineOkB = true := by decide

theorem signed_shift : ShiftOrgP 0x100 (OrgOk 0x100) signedA signedB :=
  shiftOrgP_single [] 0x0100 signedBody (by decide) (by unfold OrgOk; omega) (by omega) signedBody_ok

/-- the images, evaluated: `FDB A+N` is `A - 2` (`00FE` / `01FE`; before B2 the sign was dropped: `0102`),
`LDX #A-N` is `A + 2` (`8E 0102` / `8E 0202`); both move by `$100`.  `LEAX A+N,PCR` (`30 8C F6`: from `$0108` back to
`$00FE`) does not move. -/
def signedImageA : Bytes := [0x00, 0xFE, 0x8E, 0x01, 0x02, 0x30, 0x8C, 0xF6]
def signedImageB : Bytes := [0x01, 0xFE, 0x8E, 0x02, 0x02, 0x30, 0x8C, 0xF6]

set_option maxRecDepth 1000000 in
theorem signedA_ok : checkProgram signedA (fun A => A.image == some signedImageA) = true := by decide
set_option maxRecDepth 1000000 in
theorem signedB_ok : checkProgram signedB (fun A => A.image == some signedImageB) = true := by decide

set_option maxRecDepth 1000000 in
/-- every statement that enters `fixAll` is in one of the two classes (evaluated with the Bool versions of the
classes, Lemmas/RelocCheck.lean) -/
theorem signedA_cover : (stage4 signedA).map (coverB 0x100) = some true := by decide

set_option maxRecDepth 1000000 in
/-- (model batch 8) the program has no FCB / FDB list with a symbol or an expression in it -/
theorem signedA_lists : (stage4 signedA).map literalListsB = some true := by decide

set_option maxRecDepth 1000000 in
/-- statement by statement (`unmovedB`, `movedB`): ORG, EQU and `LEAX A+N,PCR` are `Unmoved`; `FDB A+N` and `LDX #A-N`
are `Moved` -/
theorem signedA_classes :
    (stage4 signedA).map (fun as => as.map (fun s => (unmovedB 0x100 as s, movedB 0x100 as s)))
      = some [(true, false), (true, false), (false, true), (false, true), (true, false)] := by decide

/-- the signed sample program relocated by `$100`: both assemble to the images above; the hypotheses of `C18_R1_code`
hold; EVERY statement that enters `fixAll` is in one of the two classes (so `reloc_fixAll` / `reloc_finish` speak
about the whole program), and statement by statement the operand field is identical (`Unmoved`) or moved by `$100`
(`Moved`) — with a NEGATIVE constant `N` in `A+N`, `A-N` and `A+N,PCR` -/
theorem reloc_signed_witness : ∃ A B, assemble [] signedA = .ok A ∧ assemble [] signedB = .ok B ∧
    A.image = some signedImageA ∧ B.image = some signedImageB ∧
    PW (AddrShift 0x100) A.stmts B.stmts ∧
    ∀ (stA : Stages [] signedA A),
      (∀ (i : Nat) (s : Stmt), stA.ss4[i]? = some s → Unmoved 0x100 stA.ss4 s ∨ Moved 0x100 stA.ss4 s) ∧
      ∀ (i : Nat) (s4 t t' : Stmt), stA.ss4[i]? = some s4 → A.stmts[i]? = some t → B.stmts[i]? = some t' →
        (Unmoved 0x100 stA.ss4 s4 ∧ t'.pkg.additional = t.pkg.additional ∧ stmtBytes t' = stmtBytes t) ∨
        (Moved 0x100 stA.ss4 s4 ∧ t'.pkg.additional = shiftV 0x100 t.pkg.additional) := by
  obtain ⟨A, hA, cA⟩ := checkProgram_sound signedA_ok []
  obtain ⟨B, hB, cB⟩ := checkProgram_sound signedB_ok []
  have hhd : ∃ lab n rest, lab.all isLabelCh = true ∧ n < 65536 ∧ signedA = orgLine lab n :: rest :=
    ⟨[], 0x0100, signedBody, by decide, by omega, rfl⟩
  obtain ⟨stB⟩ := assemble_stages hB
  have hcov : ∀ (stA : Stages [] signedA A) (i : Nat) (s : Stmt), stA.ss4[i]? = some s →
      Unmoved 0x100 stA.ss4 s ∨ Moved 0x100 stA.ss4 s := by
    intro stA
    have hc := signedA_cover
    cases h4 : stage4 signedA with
    | none => rw [h4] at hc; cases hc
    | some x =>
      rw [h4] at hc
      simp only [Option.map_some, Option.some.injEq] at hc
      rw [stage4_eq stA h4]
      exact coverB_sound hc
  obtain ⟨stA0⟩ := assemble_stages hA
  refine ⟨A, B, hA, hB, by simpa using cA, by simpa using cB, (C18_R1_code signed_shift hhd stA0 stB).2.2.1, ?_⟩
  intro stA
  refine ⟨hcov stA, ?_⟩
  intro i s4 t t' hs4 ht ht'
  obtain ⟨hu, hm⟩ := (C18_R1_code signed_shift hhd stA stB).2.2.2.1 i s4 t t' hs4 ht ht'
  rcases hcov stA i s4 hs4 with hc | hc
  · exact .inl ⟨hc, hu hc (listsConst_of_stage4 stA signedA_lists i s4 hs4)⟩
  · exact .inr ⟨hc, (hm hc).1⟩

/-! ## why the side conditions are there (evaluated counterexamples) -/

/-- the program is rejected with a diagnostic -/
def checkDiag (lines : List Str) : Bool :=
  match parseLines lines with
  | .ok p => p.all (fun s => !s.row.isInclude) &&
      (match assembleFrom p with | .diag => true | _ => false)
  | _ => false

theorem checkDiag_sound {lines : List Str} (h : checkDiag lines = true) (fs : Files) :
    assemble fs lines = .diag := by
  unfold checkDiag at h
  split at h
  · rename_i p hp
    simp only [Bool.and_eq_true] at h
    obtain ⟨h1, h2⟩ := h
    rw [assemble_eq_from hp (expand_noinclude fs fs.length [] p h1)]
    split at h2
    · assumption
    · cases h2
  · cases h

def lines (l : List String) : List Str := l.map String.toList

/-- (i) `o + D + total size ≤ $10000` is NOT enough for the relocated program to be accepted: a trailing
statement of size 0 (here `END`) sits at address `$10000`, which `set_address` rejects.  `$FEFF + $100 + 1 =
$10000`.  This is why `reloc_assign_fwd` / `reloc_assign_iff` bound every statement ADDRESS. -/
theorem reloc_end_at_64K :
    (∃ A, assemble [] (lines [" ORG $FEFF\n", " NOP\n", " END\n"]) = .ok A) ∧
    assemble [] (lines [" ORG $FFFF\n", " NOP\n", " END\n"]) = .diag := by
  constructor
  · obtain ⟨A, hA, _⟩ := checkProgram_sound (lines := lines [" ORG $FEFF\n", " NOP\n", " END\n"])
      (check := fun _ => true) (by decide) []
    exact ⟨A, hA⟩
  · exact checkDiag_sound (by decide) []

/-- (ii) crossing `$100` (known finding A11, REPAIRED in the code): below `$100` the address of a label used to
be rendered with ONE byte, so `JMP START` was two bytes (`7E F0`) at `$F0` and three bytes at `$1F0`
(`reloc_crossing_100` of the previous model).  With `fit_operand_width` the operand field of `JMP` has four hex
digits wherever the program sits: `7E 00F0` / `7E 01F0`, the CODE moves as it should.  What still differs is the
rendering of the address VALUE itself (one byte, DIRECT, below `$100`: the symbol table prints `$F0` against
`$01F0`), and the value-level theorems `C18_R1_code`, `C18_R1_equ`, ... speak of address values with the same hint and
mode (`AddrShift`, `WideAddr`); this is why THEY require every ORG at `$100` or above (`OrgBounds`, `OrgOk`).  The
theorems `C18_R1_code_any`, `C18_R1_equ_any`, ... at the end of this file relate the address values at int level
(`AddrShiftAny`, `IntAddr`) and hold at ANY origin; `reloc_crossing_100_witness` is a move across `$100`. -/
theorem reloc_crossing_100_fixed :
    (∃ A, assemble [] (lines [" ORG $00F0\n", "START JMP START\n"]) = .ok A ∧ A.image = some [0x7E, 0x00, 0xF0] ∧
      symtabLines A.symtab = some [("$F0   START").toList]) ∧
    (∃ B, assemble [] (lines [" ORG $01F0\n", "START JMP START\n"]) = .ok B ∧ B.image = some [0x7E, 0x01, 0xF0] ∧
      symtabLines B.symtab = some [("$01F0 START").toList]) := by
  constructor
  · obtain ⟨A, hA, c⟩ := checkProgram_sound (lines := lines [" ORG $00F0\n", "START JMP START\n"])
      (check := fun A => A.image == some [0x7E, 0x00, 0xF0] && symtabLines A.symtab == some [("$F0   START").toList])
      (by decide) []
    simp only [Bool.and_eq_true, beq_iff_eq] at c
    exact ⟨A, hA, c.1, c.2⟩
  · obtain ⟨B, hB, c⟩ := checkProgram_sound (lines := lines [" ORG $01F0\n", "START JMP START\n"])
      (check := fun A => A.image == some [0x7E, 0x01, 0xF0] && symtabLines A.symtab == some [("$01F0 START").toList])
      (by decide) []
    simp only [Bool.and_eq_true, beq_iff_eq] at c
    exact ⟨B, hB, c.1, c.2⟩

/-- (iii) the classes without a claim: `label * k` is multiplied AFTER the move (`#A*2`: `$2000` / `$2200`),
and a PCR operand whose target is a label DIFFERENCE aims at a fixed number, so its displacement changes
(`LEAX B-A,PCR`: `EFF3` / `EEF3`, i.e. minus `D`); `label - k` (`#A-2`: `$0FFE` / `$10FE`) and `label - label` (`#B-A`: `$0001`)
behave as `Moved` resp. `Unmoved` say. -/
theorem reloc_no_claim :
    (∃ A, assemble [] (lines [" ORG $1000\n", "A NOP\n", "B LDX #A-2\n", " LDX #B-A\n", " LDX #A*2\n", " LEAX B-A,PCR\n"]) = .ok A ∧
      A.image = some [0x12, 0x8E, 0x0F, 0xFE, 0x8E, 0x00, 0x01, 0x8E, 0x20, 0x00, 0x30, 0x8D, 0xEF, 0xF3]) ∧
    (∃ B, assemble [] (lines [" ORG $1100\n", "A NOP\n", "B LDX #A-2\n", " LDX #B-A\n", " LDX #A*2\n", " LEAX B-A,PCR\n"]) = .ok B ∧
      B.image = some [0x12, 0x8E, 0x10, 0xFE, 0x8E, 0x00, 0x01, 0x8E, 0x22, 0x00, 0x30, 0x8D, 0xEE, 0xF3]) := by
  constructor
  · obtain ⟨A, hA, c⟩ := checkProgram_sound
      (lines := lines [" ORG $1000\n", "A NOP\n", "B LDX #A-2\n", " LDX #B-A\n", " LDX #A*2\n", " LEAX B-A,PCR\n"])
      (check := fun A => A.image == some [0x12, 0x8E, 0x0F, 0xFE, 0x8E, 0x00, 0x01, 0x8E, 0x20, 0x00, 0x30, 0x8D, 0xEF, 0xF3])
      (by decide) []
    exact ⟨A, hA, by simpa using c⟩
  · obtain ⟨B, hB, c⟩ := checkProgram_sound
      (lines := lines [" ORG $1100\n", "A NOP\n", "B LDX #A-2\n", " LDX #B-A\n", " LDX #A*2\n", " LEAX B-A,PCR\n"])
      (check := fun A => A.image == some [0x12, 0x8E, 0x10, 0xFE, 0x8E, 0x00, 0x01, 0x8E, 0x22, 0x00, 0x30, 0x8D, 0xEE, 0xF3])
      (by decide) []
    exact ⟨B, hB, by simpa using c⟩

/-- (iv) why `Moved` asks for a 16-bit operand field (`FieldWide`): `A FCB A-$F0` is a `label - k` operand in a
ONE-byte field.  At `$0100` the value `$10` fits (`fit_operand_width`), at `$0200` the value `$110` does not
and the relocated program is rejected ("value 272 does not fit in 1 byte(s)"). -/
theorem reloc_narrow_field :
    (∃ A, assemble [] (lines [" ORG $0100\n", "A FCB A-$F0\n"]) = .ok A ∧ A.image = some [0x10]) ∧
    assemble [] (lines [" ORG $0200\n", "A FCB A-$F0\n"]) = .diag := by
  constructor
  · obtain ⟨A, hA, c⟩ := checkProgram_sound (lines := lines [" ORG $0100\n", "A FCB A-$F0\n"])
      (check := fun A => A.image == some [0x10]) (by decide) []
    exact ⟨A, hA, by simpa using c⟩
  · exact checkDiag_sound (by decide) []

/-- the body of the wrap-around sample: `A+N` with `N EQU -384` is negative when `A` is at `$0100` -/
def wrapBody : List Str := ["N EQU -384\n", "A FDB A+N\n", " LDX #A+N\n"].map String.toList
def wrapA : List Str := orgLine [] 0x0100 :: wrapBody
def wrapB : List Str := orgLine [] 0x0200 :: wrapBody

example : wrapA = lines [" ORG $0100\n", "N EQU -384\n", "A FDB A+N\n", " LDX #A+N\n"] := by decide
example : wrapB = lines [" ORG $0200\n", "N EQU -384\n", "A FDB A+N\n", " LDX #A+N\n"] := by decide

set_option maxRecDepth 1000000 in
theorem wrapA_ok : checkProgram wrapA (fun A => A.image == some [0xFF, 0x80, 0x8E, 0xFF, 0x80]) = true := by decide
set_option maxRecDepth 1000000 in
theorem wrapB_ok : checkProgram wrapB (fun A => A.image == some [0x00, 0x80, 0x8E, 0x00, 0x80]) = true := by decide

/-- (v) signed constants (repair batch B2), outside the class `Moved`: `A+N` with `N EQU -384` and `A` at `$0100` has
the NEGATIVE value `-$80`.  Since repair batch B3 `calculate_address_offset` reduces a negative `label + N` modulo
`$10000` itself (before, the value stayed a negative number that `fit_operand_width` stored in two's complement; the
bytes are the same): `FF80`.  At `$0200` the value is `$0080`.  Both programs are accepted and the 16-bit field moves by
`D` MODULO `$10000` (`reloc_fixFit_label_plus_mod`, class `MovedMod`), not by `D`: this is why `Moved` (`NumExpr`) asks
for a (reduced) value that stays at most `$FFFF` when moved.  Re-examined on the B3 model: images and classes are
unchanged. -/
theorem reloc_signed_wrap :
    (∃ A, assemble [] wrapA = .ok A ∧ A.image = some [0xFF, 0x80, 0x8E, 0xFF, 0x80]) ∧
    (∃ B, assemble [] wrapB = .ok B ∧ B.image = some [0x00, 0x80, 0x8E, 0x00, 0x80]) := by
  constructor
  · obtain ⟨A, hA, c⟩ := checkProgram_sound wrapA_ok []
    exact ⟨A, hA, by simpa using c⟩
  · obtain ⟨B, hB, c⟩ := checkProgram_sound wrapB_ok []
    exact ⟨B, hB, by simpa using c⟩

set_option maxRecDepth 1000000 in
/-- the classes of the wrap-around sample, statement by statement (`unmovedB`, `movedB`, `movedModB`): ORG and EQU are
`Unmoved`; `FDB A+N` and `LDX #A+N` are in NEITHER of the two old classes, they are `MovedMod` -/
theorem wrapA_classes :
    (stage4 wrapA).map (fun as => as.map (fun s => (unmovedB 0x100 as s, movedB 0x100 as s, movedModB 0x100 as s)))
      = some [(true, false, false), (true, false, false), (false, false, true), (false, false, true)] := by decide

set_option maxRecDepth 1000000 in
theorem wrapA_cover : (stage4 wrapA).map (coverModB 0x100) = some true := by decide

theorem wrap_shift : ShiftOrgP 0x100 (OrgOk 0x100) wrapA wrapB :=
  shiftOrgP_single [] 0x0100 wrapBody (by decide) (by unfold OrgOk; omega) (by omega) (by decide)

/-- the wrap-around sample under the three-class theorems: every statement that enters `fixAll` is `Unmoved`, `Moved`
or `MovedMod` (so `reloc_fixAll_mod` / `reloc_finish_mod` speak about the whole program), and for the `MovedMod`
statements the operand field moves by `$100` modulo `$10000` (`C18_R1_code_mod`) -/
theorem reloc_signed_wrap_witness : ∃ A B, assemble [] wrapA = .ok A ∧ assemble [] wrapB = .ok B ∧
    ∀ (stA : Stages [] wrapA A),
      (∀ (i : Nat) (s : Stmt), stA.ss4[i]? = some s →
        Unmoved 0x100 stA.ss4 s ∨ Moved 0x100 stA.ss4 s ∨ MovedMod 0x100 stA.ss4 s) ∧
      ∀ (i : Nat) (s4 t t' : Stmt), stA.ss4[i]? = some s4 → A.stmts[i]? = some t → B.stmts[i]? = some t' →
        MovedMod 0x100 stA.ss4 s4 → t'.pkg.additional = shiftVmod 0x100 t.pkg.additional := by
  obtain ⟨A, hA, _⟩ := checkProgram_sound wrapA_ok []
  obtain ⟨B, hB, _⟩ := checkProgram_sound wrapB_ok []
  obtain ⟨stB⟩ := assemble_stages hB
  have hhd : ∃ lab n rest, lab.all isLabelCh = true ∧ n < 65536 ∧ wrapA = orgLine lab n :: rest :=
    ⟨[], 0x0100, wrapBody, by decide, by omega, rfl⟩
  refine ⟨A, B, hA, hB, ?_⟩
  intro stA
  constructor
  · have hc := wrapA_cover
    cases h4 : stage4 wrapA with
    | none => rw [h4] at hc; cases hc
    | some x =>
      rw [h4] at hc
      simp only [Option.map_some, Option.some.injEq] at hc
      rw [stage4_eq stA h4]
      exact coverModB_sound hc
  · intro i s4 t t' hs4 ht ht' hc
    exact (C18_R1_code_mod wrap_shift hhd stA stB i s4 t t' hs4 ht ht' hc).1

/-- (vi) signed constants, a PCR operand whose target `A+N` is NEGATIVE — finding `reloc_signed_pcr_negative_target` of
batch B2, REPAIRED in batch B3.  With `N EQU -258` and `A` at `$0100` the target is `-2`; `fix_addresses` used to take
the magnitude of the value (`.int`), aimed at `+2` and stored the displacement `2 - $0104 = $FEFE`, against `$FEFA` at
`$0200`: the code of a PCR operand changed under relocation.  Now `calculate_address_offset` reduces the negative
target modulo `$10000` (`$FFFE`), the displacement is `$FFFE - $0104 = $FEFA` — it aims at `-2` — in both placements,
and the PCR code is IDENTICAL. -/
theorem reloc_signed_pcr_negative_target_fixed :
    (∃ A, assemble [] (lines [" ORG $0100\n", "N EQU -258\n", "A LEAX A+N,PCR\n"]) = .ok A ∧
      A.image = some [0x30, 0x8D, 0xFE, 0xFA]) ∧
    (∃ B, assemble [] (lines [" ORG $0200\n", "N EQU -258\n", "A LEAX A+N,PCR\n"]) = .ok B ∧
      B.image = some [0x30, 0x8D, 0xFE, 0xFA]) := by
  constructor
  · obtain ⟨A, hA, c⟩ := checkProgram_sound (lines := lines [" ORG $0100\n", "N EQU -258\n", "A LEAX A+N,PCR\n"])
      (check := fun A => A.image == some [0x30, 0x8D, 0xFE, 0xFA]) (by decide) []
    exact ⟨A, hA, by simpa using c⟩
  · obtain ⟨B, hB, c⟩ := checkProgram_sound (lines := lines [" ORG $0200\n", "N EQU -258\n", "A LEAX A+N,PCR\n"])
      (check := fun A => A.image == some [0x30, 0x8D, 0xFE, 0xFA]) (by decide) []
    exact ⟨B, hB, by simpa using c⟩

def pcrNegBody : List Str := ["N EQU -258\n", "A LEAX A+N,PCR\n"].map String.toList
def pcrNegA : List Str := orgLine [] 0x0100 :: pcrNegBody
def pcrNegB : List Str := orgLine [] 0x0200 :: pcrNegBody

example : pcrNegA = lines [" ORG $0100\n", "N EQU -258\n", "A LEAX A+N,PCR\n"] := by decide
example : pcrNegB = lines [" ORG $0200\n", "N EQU -258\n", "A LEAX A+N,PCR\n"] := by decide

theorem pcrNeg_shift : ShiftOrgP 0x100 (OrgOk 0x100) pcrNegA pcrNegB :=
  shiftOrgP_single [] 0x0100 pcrNegBody (by decide) (by unfold OrgOk; omega) (by omega) (by decide)

set_option maxRecDepth 1000000 in
/-- every statement of the repaired witness is `Unmoved` (evaluated): the PCR operand with the negative target through
`TargetMovesMod` (the target `$FFFE` moves to `$00FE`, i.e. by `$100` modulo `$10000`) -/
theorem pcrNegA_classes :
    (stage4 pcrNegA).map (fun as => as.map (fun s => unmovedB 0x100 as s)) = some [true, true, true] := by decide

set_option maxRecDepth 1000000 in
/-- (model batch 8) the program has no FCB / FDB list with a symbol or an expression in it -/
theorem pcrNegA_lists : (stage4 pcrNegA).map literalListsB = some true := by decide

/-- (vi, continued) the repaired witness under the class theorems: every statement that enters `fixAll` is `Unmoved`,
and statement by statement operand field and code are IDENTICAL in the two placements -/
theorem reloc_signed_pcr_negative_target_unmoved : ∃ A B, assemble [] pcrNegA = .ok A ∧ assemble [] pcrNegB = .ok B ∧
    ∀ (stA : Stages [] pcrNegA A),
      (∀ (i : Nat) (s : Stmt), stA.ss4[i]? = some s → Unmoved 0x100 stA.ss4 s) ∧
      ∀ (i : Nat) (t t' : Stmt), A.stmts[i]? = some t → B.stmts[i]? = some t' →
        t'.pkg.additional = t.pkg.additional ∧ stmtBytes t' = stmtBytes t := by
  obtain ⟨⟨A, hA, _⟩, ⟨B, hB, _⟩⟩ := reloc_signed_pcr_negative_target_fixed
  obtain ⟨stB⟩ := assemble_stages hB
  have hhd : ∃ lab n rest, lab.all isLabelCh = true ∧ n < 65536 ∧ pcrNegA = orgLine lab n :: rest :=
    ⟨[], 0x0100, pcrNegBody, by decide, by omega, rfl⟩
  refine ⟨A, B, hA, hB, ?_⟩
  intro stA
  have hcov : ∀ (i : Nat) (s : Stmt), stA.ss4[i]? = some s → Unmoved 0x100 stA.ss4 s := by
    have hc := pcrNegA_classes
    cases h4 : stage4 pcrNegA with
    | none => rw [h4] at hc; cases hc
    | some x =>
      rw [h4] at hc
      simp only [Option.map_some, Option.some.injEq] at hc
      rw [stage4_eq stA h4]
      intro i s hs
      have hm : unmovedB 0x100 x s ∈ x.map (fun s => unmovedB 0x100 x s) :=
        List.mem_map.mpr ⟨s, List.mem_of_getElem? hs, rfl⟩
      rw [hc] at hm
      simp at hm
      exact unmovedB_sound hm
  refine ⟨hcov, ?_⟩
  intro i t t' ht ht'
  obtain ⟨s4, hs4, _⟩ := (fixAllL_pw stA.hfix).get' ht
  exact ((C18_R1_code pcrNeg_shift hhd stA stB).2.2.2.1 i s4 t t' hs4 ht ht').1 (hcov i s4 hs4)
    (listsConst_of_stage4 stA pcrNegA_lists i s4 hs4)

/-! ## a label as constant offset of a pointer register, `[label+1]` (repair batch B3) -/

/-- the body of the indexed sample program: a plain label, `label+1` and a bracketed label as constant offset of a
pointer register (accepted since B3: the 16-bit offset form, post bytes `$89`, `$A9`, `$D9`), and `[label+1]` (extended
indirect with an address expression, post byte `$9F`, accepted since B3) -/
def idxBody : List Str :=
  ["T FCB 1\n", " LDA T,X\n", " LDB T+1,Y\n", " LDD [T,U]\n", " LDA [T+1]\n"].map String.toList

def idxA : List Str := orgLine [] 0x0100 :: idxBody
def idxB : List Str := orgLine [] 0x0200 :: idxBody

example : idxA = lines [" ORG $0100\n", "T FCB 1\n", " LDA T,X\n", " LDB T+1,Y\n", " LDD [T,U]\n", " LDA [T+1]\n"] := by
  decide
example : idxB = lines [" ORG $0200\n", "T FCB 1\n", " LDA T,X\n", " LDB T+1,Y\n", " LDD [T,U]\n", " LDA [T+1]\n"] := by
  decide

/-- the images, evaluated (and replayed on the Python): `LDA T,X` is `A6 89 0100` / `A6 89 0200`, `LDB T+1,Y` is
`E6 A9 0101` / `E6 A9 0201`, `LDD [T,U]` is `EC D9 0100` / `EC D9 0200`, `LDA [T+1]` is `A6 9F 0101` / `A6 9F 0201`: op
code and post byte identical, every 16-bit field moved by `$100` -/
def idxImageA : Bytes :=
  [0x01, 0xA6, 0x89, 0x01, 0x00, 0xE6, 0xA9, 0x01, 0x01, 0xEC, 0xD9, 0x01, 0x00, 0xA6, 0x9F, 0x01, 0x01]
def idxImageB : Bytes :=
  [0x01, 0xA6, 0x89, 0x02, 0x00, 0xE6, 0xA9, 0x02, 0x01, 0xEC, 0xD9, 0x02, 0x00, 0xA6, 0x9F, 0x02, 0x01]

set_option maxRecDepth 1000000 in
theorem idxA_ok : checkProgram idxA (fun A => A.image == some idxImageA) = true := by decide
set_option maxRecDepth 1000000 in
theorem idxB_ok : checkProgram idxB (fun A => A.image == some idxImageB) = true := by decide

theorem idx_shift : ShiftOrgP 0x100 (OrgOk 0x100) idxA idxB :=
  shiftOrgP_single [] 0x0100 idxBody (by decide) (by unfold OrgOk; omega) (by omega) (by decide)

set_option maxRecDepth 1000000 in
theorem idxA_cover : (stage4 idxA).map (coverB 0x100) = some true := by decide

set_option maxRecDepth 1000000 in
/-- (model batch 8) the lists of the program consist of literals -/
theorem idxA_lists : (stage4 idxA).map literalListsB = some true := by decide

set_option maxRecDepth 1000000 in
/-- statement by statement (`unmovedB`, `movedRefB`, `movedAbsB`): ORG and `FCB 1` are `Unmoved`; `LDA T,X`, `LDB T+1,Y`
and `LDD [T,U]` are in the NEW sub-class `MovedAbs` of `Moved` (and not `Unmoved`: `needsRes` without post byte
choices); `LDA [T+1]` is in the old sub-class `MovedRef` -/
theorem idxA_classes :
    (stage4 idxA).map (fun as => as.map (fun s => (unmovedB 0x100 as s, movedRefB 0x100 as s, movedAbsB 0x100 as s)))
      = some [(true, false, false), (true, false, false), (false, false, true), (false, false, true),
              (false, false, true), (false, true, false)] := by decide

/-- the indexed sample program relocated by `$100`: both assemble to the images above; the hypotheses of `C18_R1_code`
hold; EVERY statement that enters `fixAll` is in one of the two classes (so `reloc_fixAll` / `reloc_finish` speak about
the whole program), and statement by statement the operand field is identical (`Unmoved`) or moved by `$100` (`Moved`:
the label as constant offset of `X`, `Y`, `[,U]` and `[T+1]`), the emitted bytes ending with the moved 16-bit field -/
theorem reloc_indexed_witness : ∃ A B, assemble [] idxA = .ok A ∧ assemble [] idxB = .ok B ∧
    A.image = some idxImageA ∧ B.image = some idxImageB ∧
    PW (AddrShift 0x100) A.stmts B.stmts ∧
    ∀ (stA : Stages [] idxA A),
      (∀ (i : Nat) (s : Stmt), stA.ss4[i]? = some s → Unmoved 0x100 stA.ss4 s ∨ Moved 0x100 stA.ss4 s) ∧
      ∀ (i : Nat) (s4 t t' : Stmt), stA.ss4[i]? = some s4 → A.stmts[i]? = some t → B.stmts[i]? = some t' →
        (Unmoved 0x100 stA.ss4 s4 ∧ t'.pkg.additional = t.pkg.additional ∧ stmtBytes t' = stmtBytes t) ∨
        (Moved 0x100 stA.ss4 s4 ∧ t'.pkg.additional = shiftV 0x100 t.pkg.additional ∧
          ∀ bs, stmtBytes t = some bs →
            ∃ pre x, t.pkg.additional.int? = some x ∧ x + 0x100 < 65536 ∧ bs = pre ++ [x / 256, x % 256] ∧
              stmtBytes t' = some (pre ++ [(x + 0x100) / 256, (x + 0x100) % 256])) := by
  obtain ⟨A, hA, cA⟩ := checkProgram_sound idxA_ok []
  obtain ⟨B, hB, cB⟩ := checkProgram_sound idxB_ok []
  have hhd : ∃ lab n rest, lab.all isLabelCh = true ∧ n < 65536 ∧ idxA = orgLine lab n :: rest :=
    ⟨[], 0x0100, idxBody, by decide, by omega, rfl⟩
  obtain ⟨stB⟩ := assemble_stages hB
  have hcov : ∀ (stA : Stages [] idxA A) (i : Nat) (s : Stmt), stA.ss4[i]? = some s →
      Unmoved 0x100 stA.ss4 s ∨ Moved 0x100 stA.ss4 s := by
    intro stA
    have hc := idxA_cover
    cases h4 : stage4 idxA with
    | none => rw [h4] at hc; cases hc
    | some x =>
      rw [h4] at hc
      simp only [Option.map_some, Option.some.injEq] at hc
      rw [stage4_eq stA h4]
      exact coverB_sound hc
  obtain ⟨stA0⟩ := assemble_stages hA
  refine ⟨A, B, hA, hB, by simpa using cA, by simpa using cB, (C18_R1_code idx_shift hhd stA0 stB).2.2.1, ?_⟩
  intro stA
  refine ⟨hcov stA, ?_⟩
  intro i s4 t t' hs4 ht ht'
  obtain ⟨hu, hm⟩ := (C18_R1_code idx_shift hhd stA stB).2.2.2.1 i s4 t t' hs4 ht ht'
  rcases hcov stA i s4 hs4 with hc | hc
  · exact .inl ⟨hc, hu hc (listsConst_of_stage4 stA idxA_lists i s4 hs4)⟩
  · exact .inr ⟨hc, hm hc⟩

/-- the body of the wrap-around indexed sample: `A+N` with `N EQU -384` is negative when `A` is at `$0100`; as constant
offset of `X`, as PCR target, and as bracketed constant offset of `Y` -/
def idxWrapBody : List Str := ["N EQU -384\n", "A LDA A+N,X\n", " LEAX A+N,PCR\n", " LDD [A+N,Y]\n"].map String.toList
def idxWrapA : List Str := orgLine [] 0x0100 :: idxWrapBody
def idxWrapB : List Str := orgLine [] 0x0200 :: idxWrapBody

example : idxWrapA = lines [" ORG $0100\n", "N EQU -384\n", "A LDA A+N,X\n", " LEAX A+N,PCR\n", " LDD [A+N,Y]\n"] := by
  decide

/-- `LDA A+N,X` is `A6 89 FF80` / `A6 89 0080` and `LDD [A+N,Y]` is `EC B9 FF80` / `EC B9 0080` (the offset field moves
by `$100` modulo `$10000`); `LEAX A+N,PCR` is `30 8D FE78` in both placements -/
def idxWrapImageA : Bytes := [0xA6, 0x89, 0xFF, 0x80, 0x30, 0x8D, 0xFE, 0x78, 0xEC, 0xB9, 0xFF, 0x80]
def idxWrapImageB : Bytes := [0xA6, 0x89, 0x00, 0x80, 0x30, 0x8D, 0xFE, 0x78, 0xEC, 0xB9, 0x00, 0x80]

set_option maxRecDepth 1000000 in
theorem idxWrapA_ok : checkProgram idxWrapA (fun A => A.image == some idxWrapImageA) = true := by decide
set_option maxRecDepth 1000000 in
theorem idxWrapB_ok : checkProgram idxWrapB (fun A => A.image == some idxWrapImageB) = true := by decide

theorem idxWrap_shift : ShiftOrgP 0x100 (OrgOk 0x100) idxWrapA idxWrapB :=
  shiftOrgP_single [] 0x0100 idxWrapBody (by decide) (by unfold OrgOk; omega) (by omega) (by decide)

set_option maxRecDepth 1000000 in
/-- statement by statement (`unmovedB`, `movedB`, `movedModRefB`, `movedModAbsB`): ORG, EQU and `LEAX A+N,PCR` — a PCR
operand whose NEGATIVE target is reduced modulo `$10000` and moves by `D` modulo `$10000` (`TargetMovesMod`) — are
`Unmoved`; `LDA A+N,X` and `LDD [A+N,Y]` are in the new sub-class `MovedModAbs` of `MovedMod` -/
theorem idxWrapA_classes :
    (stage4 idxWrapA).map (fun as => as.map (fun s =>
        (unmovedB 0x100 as s, movedB 0x100 as s, movedModRefB 0x100 as s, movedModAbsB 0x100 as s)))
      = some [(true, false, false, false), (true, false, false, false), (false, false, false, true),
              (true, false, false, false), (false, false, false, true)] := by decide

set_option maxRecDepth 1000000 in
theorem idxWrapA_cover : (stage4 idxWrapA).map (coverModB 0x100) = some true := by decide

set_option maxRecDepth 1000000 in
/-- (model batch 8) the program has no FCB / FDB list with a symbol or an expression in it -/
theorem idxWrapA_lists : (stage4 idxWrapA).map literalListsB = some true := by decide

/-- the wrap-around indexed sample under the three-class theorems: both assemble to the images above; every statement
that enters `fixAll` is `Unmoved`, `Moved` or `MovedMod`; the `Unmoved` statements (the PCR operand with the negative
target among them) have IDENTICAL code, and for the `MovedMod` statements the 16-bit offset field moves by `$100` modulo
`$10000` -/
theorem reloc_indexed_wrap_witness : ∃ A B, assemble [] idxWrapA = .ok A ∧ assemble [] idxWrapB = .ok B ∧
    A.image = some idxWrapImageA ∧ B.image = some idxWrapImageB ∧
    ∀ (stA : Stages [] idxWrapA A),
      (∀ (i : Nat) (s : Stmt), stA.ss4[i]? = some s →
        Unmoved 0x100 stA.ss4 s ∨ Moved 0x100 stA.ss4 s ∨ MovedMod 0x100 stA.ss4 s) ∧
      ∀ (i : Nat) (s4 t t' : Stmt), stA.ss4[i]? = some s4 → A.stmts[i]? = some t → B.stmts[i]? = some t' →
        (Unmoved 0x100 stA.ss4 s4 → t'.pkg.additional = t.pkg.additional ∧ stmtBytes t' = stmtBytes t) ∧
        (MovedMod 0x100 stA.ss4 s4 → t'.pkg.additional = shiftVmod 0x100 t.pkg.additional) := by
  obtain ⟨A, hA, cA⟩ := checkProgram_sound idxWrapA_ok []
  obtain ⟨B, hB, cB⟩ := checkProgram_sound idxWrapB_ok []
  obtain ⟨stB⟩ := assemble_stages hB
  have hhd : ∃ lab n rest, lab.all isLabelCh = true ∧ n < 65536 ∧ idxWrapA = orgLine lab n :: rest :=
    ⟨[], 0x0100, idxWrapBody, by decide, by omega, rfl⟩
  refine ⟨A, B, hA, hB, by simpa using cA, by simpa using cB, ?_⟩
  intro stA
  constructor
  · have hc := idxWrapA_cover
    cases h4 : stage4 idxWrapA with
    | none => rw [h4] at hc; cases hc
    | some x =>
      rw [h4] at hc
      simp only [Option.map_some, Option.some.injEq] at hc
      rw [stage4_eq stA h4]
      exact coverModB_sound hc
  · intro i s4 t t' hs4 ht ht'
    exact ⟨fun hc => ((C18_R1_code idxWrap_shift hhd stA stB).2.2.2.1 i s4 t t' hs4 ht ht').1 hc
        (listsConst_of_stage4 stA idxWrapA_lists i s4 hs4),
      fun hc => (C18_R1_code_mod idxWrap_shift hhd stA stB i s4 t t' hs4 ht ht' hc).1⟩

/-! ## `number - label` (repair batch B3): the fourth class -/

/-- the body of the `number - label` sample -/
def negBody : List Str := ["L FDB 5-L\n", " LDX #$4000-L\n"].map String.toList
def negA : List Str := orgLine [] 0x0100 :: negBody
def negB : List Str := orgLine [] 0x0200 :: negBody

example : negA = lines [" ORG $0100\n", "L FDB 5-L\n", " LDX #$4000-L\n"] := by decide

/-- `FDB 5-L` is `5 - $0100 = $FF05` (modulo `$10000`) / `$FE05`, `LDX #$4000-L` is `8E 3F00` / `8E 3E00`: the fields
move by MINUS `$100` (before B3 `5-L` was read as `L-5`) -/
def negImageA : Bytes := [0xFF, 0x05, 0x8E, 0x3F, 0x00]
def negImageB : Bytes := [0xFE, 0x05, 0x8E, 0x3E, 0x00]

set_option maxRecDepth 1000000 in
theorem negA_ok : checkProgram negA (fun A => A.image == some negImageA) = true := by decide
set_option maxRecDepth 1000000 in
theorem negB_ok : checkProgram negB (fun A => A.image == some negImageB) = true := by decide

theorem neg_shift : ShiftOrgP 0x100 (OrgOk 0x100) negA negB :=
  shiftOrgP_single [] 0x0100 negBody (by decide) (by unfold OrgOk; omega) (by omega) (by decide)

set_option maxRecDepth 1000000 in
/-- statement by statement (`unmovedB`, `movedB`, `movedModB`, `movedNegB`): the ORG is `Unmoved`; `FDB 5-L` and
`LDX #$4000-L` are in NONE of the three old classes (the checkers say no), they are `MovedNeg` -/
theorem negA_classes :
    (stage4 negA).map (fun as => as.map (fun s =>
        (unmovedB 0x100 as s, movedB 0x100 as s, movedModB 0x100 as s, movedNegB as s)))
      = some [(true, false, false, false), (false, false, false, true), (false, false, false, true)] := by decide

set_option maxRecDepth 1000000 in
theorem negA_cover : (stage4 negA).map (coverNegB 0x100) = some true := by decide

/-- the `number - label` sample under the four-class theorems: both assemble to the images above; every statement that
enters `fixAll` is `Unmoved`, `Moved`, `MovedMod` or `MovedNeg` (so `reloc_fixAll_neg` / `reloc_finish_neg` speak about
the whole program), and for the `MovedNeg` statements the operand field moves by MINUS `$100` modulo `$10000`
(`C18_R1_code_neg`) -/
theorem reloc_neg_witness : ∃ A B, assemble [] negA = .ok A ∧ assemble [] negB = .ok B ∧
    A.image = some negImageA ∧ B.image = some negImageB ∧
    ∀ (stA : Stages [] negA A),
      (∀ (i : Nat) (s : Stmt), stA.ss4[i]? = some s →
        Unmoved 0x100 stA.ss4 s ∨ Moved 0x100 stA.ss4 s ∨ MovedMod 0x100 stA.ss4 s ∨ MovedNeg stA.ss4 s) ∧
      ∀ (i : Nat) (s4 t t' : Stmt), stA.ss4[i]? = some s4 → A.stmts[i]? = some t → B.stmts[i]? = some t' →
        MovedNeg stA.ss4 s4 → t'.pkg.additional = shiftVneg 0x100 t.pkg.additional := by
  obtain ⟨A, hA, cA⟩ := checkProgram_sound negA_ok []
  obtain ⟨B, hB, cB⟩ := checkProgram_sound negB_ok []
  obtain ⟨stB⟩ := assemble_stages hB
  have hhd : ∃ lab n rest, lab.all isLabelCh = true ∧ n < 65536 ∧ negA = orgLine lab n :: rest :=
    ⟨[], 0x0100, negBody, by decide, by omega, rfl⟩
  refine ⟨A, B, hA, hB, by simpa using cA, by simpa using cB, ?_⟩
  intro stA
  constructor
  · have hc := negA_cover
    cases h4 : stage4 negA with
    | none => rw [h4] at hc; cases hc
    | some x =>
      rw [h4] at hc
      simp only [Option.map_some, Option.some.injEq] at hc
      rw [stage4_eq stA h4]
      exact coverNegB_sound hc
  · intro i s4 t t' hs4 ht ht' hc
    exact (C18_R1_code_neg neg_shift hhd stA stB i s4 t t' hs4 ht ht' hc).1

set_option maxRecDepth 1000000 in
/-- the classes of the B3 no-claim sample (`unmovedB`, `movedB`, `movedModB`, `movedNegB`): ORG and `A NOP` are
`Unmoved`; `LDX #2*A`, `LDX #$8000/A` and `LDA 5-A,X` are in NONE of the four classes -/
theorem noClaimB3_classes :
    (stage4 (lines [" ORG $1000\n", "A NOP\n", " LDX #2*A\n", " LDX #$8000/A\n", " LDA 5-A,X\n"])).map
        (fun as => as.map (fun s => (unmovedB 0x100 as s, movedB 0x100 as s, movedModB 0x100 as s, movedNegB as s)))
      = some [(true, false, false, false), (true, false, false, false), (false, false, false, false),
              (false, false, false, false), (false, false, false, false)] := by decide

/-- (vii) the forms of B3 without a claim: `number * label` is multiplied AFTER the move (`#2*A`: `$2000` / `$2200`),
`number / label` is divided after the move (`#$8000/A`: `$0008` / `$0007`), and `number - label` as constant offset of a
pointer register (`LDA 5-A,X`: `A6 89 F005` / `A6 89 EF05`) moves by MINUS `D` like the operand form `MovedNeg`, for
which only the operand form has a class.  Both programs are accepted. -/
theorem reloc_no_claim_b3 :
    (∃ A, assemble [] (lines [" ORG $1000\n", "A NOP\n", " LDX #2*A\n", " LDX #$8000/A\n", " LDA 5-A,X\n"]) = .ok A ∧
      A.image = some [0x12, 0x8E, 0x20, 0x00, 0x8E, 0x00, 0x08, 0xA6, 0x89, 0xF0, 0x05]) ∧
    (∃ B, assemble [] (lines [" ORG $1100\n", "A NOP\n", " LDX #2*A\n", " LDX #$8000/A\n", " LDA 5-A,X\n"]) = .ok B ∧
      B.image = some [0x12, 0x8E, 0x22, 0x00, 0x8E, 0x00, 0x07, 0xA6, 0x89, 0xEF, 0x05]) := by
  constructor
  · obtain ⟨A, hA, c⟩ := checkProgram_sound
      (lines := lines [" ORG $1000\n", "A NOP\n", " LDX #2*A\n", " LDX #$8000/A\n", " LDA 5-A,X\n"])
      (check := fun A => A.image == some [0x12, 0x8E, 0x20, 0x00, 0x8E, 0x00, 0x08, 0xA6, 0x89, 0xF0, 0x05])
      (by decide) []
    exact ⟨A, hA, by simpa using c⟩
  · obtain ⟨B, hB, c⟩ := checkProgram_sound
      (lines := lines [" ORG $1100\n", "A NOP\n", " LDX #2*A\n", " LDX #$8000/A\n", " LDA 5-A,X\n"])
      (check := fun A => A.image == some [0x12, 0x8E, 0x22, 0x00, 0x8E, 0x00, 0x07, 0xA6, 0x89, 0xEF, 0x05])
      (by decide) []
    exact ⟨B, hB, by simpa using c⟩

/-- (viii) why `MovedMod` (`ModBound`) asks for `a - c + D ≤ $FFFF` for `label - N` as well since repair batch B3:
with a NEGATIVE `N` the difference can pass `$FFFF`, and `calculate_address_offset` now rejects it ("integer value cannot
exceed 65535"; before B3 `label - N` was reduced modulo `$10000` whatever its size and never rejected).  `A FDB A-N`
with `N EQU -256` is `$FF00` at `$FE00` and REJECTED at `$FF00`: through a signed constant the OUTCOME KIND changes under
relocation, although the relocated program itself fits the 64K space. -/
theorem reloc_label_minus_overflow :
    (∃ A, assemble [] (lines [" ORG $FE00\n", "N EQU -256\n", "A FDB A-N\n"]) = .ok A ∧ A.image = some [0xFF, 0x00]) ∧
    assemble [] (lines [" ORG $FF00\n", "N EQU -256\n", "A FDB A-N\n"]) = .diag := by
  constructor
  · obtain ⟨A, hA, c⟩ := checkProgram_sound (lines := lines [" ORG $FE00\n", "N EQU -256\n", "A FDB A-N\n"])
      (check := fun A => A.image == some [0xFF, 0x00]) (by decide) []
    exact ⟨A, hA, by simpa using c⟩
  · exact checkDiag_sound (by decide) []

set_option maxRecDepth 1000000 in
/-- the `FDB A-N` of (viii) is in none of the four classes for `D = $100` (evaluated) -/
theorem labelMinusOverflow_classes :
    (stage4 (lines [" ORG $FE00\n", "N EQU -256\n", "A FDB A-N\n"])).map
        (fun as => as.map (fun s => (unmovedB 0x100 as s, movedB 0x100 as s, movedModB 0x100 as s, movedNegB as s)))
      = some [(true, false, false, false), (true, false, false, false), (false, false, false, false)] := by decide

/-! ## EQUs defined by label expressions (model batch 4: `evalSyms`) -/

/-- the body of the EQU sample program: `T EQU L+1` (`label + k`), `W EQU L+N` with the negative `N` (`label + N`, negative
at `$0100`), `LEN EQU M-L` (`label - label`), `R EQU $4000-L` (`number - label`), and two EQUs that are not defined by
label expressions: `C EQU 5`, `E EQU C+1` (an expression of constants) -/
def equBody : List Str :=
  ["N EQU -384\n", "L NOP\n", "M NOP\n", "T EQU L+1\n", "W EQU L+N\n", "LEN EQU M-L\n", "R EQU $4000-L\n", "C EQU 5\n",
   "E EQU C+1\n", " LDX #E\n"].map String.toList

def equA : List Str := orgLine [] 0x0100 :: equBody
def equB : List Str := orgLine [] 0x0200 :: equBody

example : equA.head? = some " ORG $0100\n".toList := by decide
example : equB.head? = some " ORG $0200\n".toList := by decide

/-- the symbol table listings, evaluated: since batch 4 an EQU defined by an expression is listed with its VALUE.  The
labels `L`, `M` and `T EQU L+1` move by `$100`; `W EQU L+N` moves by `$100` modulo `$10000` (`$FF80` / `$0080`);
`LEN EQU M-L` does not move; `R EQU $4000-L` moves by MINUS `$100`; `N`, `C`, `E` are the same -/
def equSymsA : List Str :=
  lines ["$FE80 N", "$0100 L", "$0101 M", "$0101 T", "$FF80 W", "$0001 LEN", "$3F00 R", "$0005 C", "$0006 E"]
def equSymsB : List Str :=
  lines ["$FE80 N", "$0200 L", "$0201 M", "$0201 T", "$0080 W", "$0001 LEN", "$3E00 R", "$0005 C", "$0006 E"]

/-- the code (`NOP`, `NOP`, `LDX #E`) is the same in both placements -/
def equImage : Bytes := [0x12, 0x12, 0x8E, 0x00, 0x06]

set_option maxRecDepth 1000000 in
theorem equA_ok :
    checkProgram equA (fun A => symtabLines A.symtab == some equSymsA && A.image == some equImage) = true := by decide
set_option maxRecDepth 1000000 in
theorem equB_ok :
    checkProgram equB (fun A => symtabLines A.symtab == some equSymsB && A.image == some equImage) = true := by decide

theorem equ_shift : ShiftOrgP 0x100 (OrgOk 0x100) equA equB :=
  shiftOrgP_single [] 0x0100 equBody (by decide) (by unfold OrgOk; omega) (by omega) (by decide)

set_option maxRecDepth 1000000 in
/-- the classes of the table entries, entry by entry (is a label, `equConstB`, then `equLabelB` with `numExprB`, `modExprB`,
`diffExprB`, `negExprB`; Lemmas/RelocCheck.lean): `N`, `C`, `E` are EQUs not defined by a label expression; `L`, `M` are
labels; `T` is `NumExpr` (and `ModExpr`), `W` is `ModExpr` only (its value `$FF80` does not stay below `$10000` when
moved), `LEN` is `DiffExpr`, `R` is `NegExpr` -/
theorem equA_classes :
    (stage4 equA).bind (fun as => (stageT equA).map (fun t => t.map (fun kv =>
      [kv.2.isAddress, equConstB t kv.2, equLabelB (numExprB 0x100 as) t kv.2, equLabelB (modExprB 0x100 as) t kv.2,
        equLabelB diffExprB t kv.2, equLabelB (negExprB as) t kv.2])))
      = some [[false, true, false, false, false, false], [true, true, false, false, false, false],
              [true, true, false, false, false, false], [false, false, true, true, false, false],
              [false, false, false, true, false, false], [false, false, false, false, true, false],
              [false, false, false, false, false, true], [false, true, false, false, false, false],
              [false, true, false, false, false, false]] := by decide

set_option maxRecDepth 1000000 in
theorem equA_cover : (stage4 equA).map (coverB 0x100) = some true := by decide

set_option maxRecDepth 1000000 in
theorem equA_equCover : (stage4 equA).bind (fun as => (stageT equA).map (equCoverB 0x100 as)) = some true := by decide

/-- the EQU sample program relocated by `$100`: both assemble, with the symbol table listings above (the EQUs defined by
label expressions are NOT unchanged: this is why `reloc_finish` asks for `NoLabelEqu` and the last conjunct of
`C18_R1_code` for `EquConst`); every statement is `Unmoved` or `Moved` and every table entry is covered (`EquCovered`),
so `reloc_finish_equ` speaks about the whole program; and entry by entry the final values are related by `EquRel`
(`C18_R1_equ`) -/
theorem reloc_equ_witness : ∃ A B, assemble [] equA = .ok A ∧ assemble [] equB = .ok B ∧
    symtabLines A.symtab = some equSymsA ∧ symtabLines B.symtab = some equSymsB ∧
    A.image = some equImage ∧ B.image = some equImage ∧
    ∀ (stA : Stages [] equA A),
      (∀ (i : Nat) (s : Stmt), stA.ss4[i]? = some s → Unmoved 0x100 stA.ss4 s ∨ Moved 0x100 stA.ss4 s) ∧
      (∀ kv ∈ stA.t, EquCovered 0x100 stA.ss4 stA.t kv.2) ∧
      ∀ (j : Nat) (k : Str) (v : Value), stA.t[j]? = some (k, v) →
        ∃ x x', A.symtab[j]? = some (k, x) ∧ B.symtab[j]? = some (k, x') ∧ EquRel 0x100 stA.ss4 stA.t v x x' := by
  obtain ⟨A, hA, cA⟩ := checkProgram_sound equA_ok []
  obtain ⟨B, hB, cB⟩ := checkProgram_sound equB_ok []
  simp only [Bool.and_eq_true, beq_iff_eq] at cA cB
  obtain ⟨stB⟩ := assemble_stages hB
  have hhd : ∃ lab n rest, lab.all isLabelCh = true ∧ n < 65536 ∧ equA = orgLine lab n :: rest :=
    ⟨[], 0x0100, equBody, by decide, by omega, rfl⟩
  refine ⟨A, B, hA, hB, cA.1, cB.1, cA.2, cB.2, ?_⟩
  intro stA
  refine ⟨?_, ?_, C18_R1_equ equ_shift hhd stA stB⟩
  · have hc := equA_cover
    cases h4 : stage4 equA with
    | none => rw [h4] at hc; cases hc
    | some x =>
      rw [h4] at hc
      simp only [Option.map_some, Option.some.injEq] at hc
      rw [stage4_eq stA h4]
      exact coverB_sound hc
  · have hc := equA_equCover
    cases h4 : stage4 equA with
    | none => rw [h4] at hc; cases hc
    | some x =>
      cases hT : stageT equA with
      | none => rw [h4, hT] at hc; cases hc
      | some tt =>
        rw [h4, hT] at hc
        simp only [Option.bind_some, Option.map_some, Option.some.injEq] at hc
        rw [stage4_eq stA h4, stageT_eq stA hT]
        exact equCoverB_sound hc

/-! ## any origin: moves across `$100` included

The theorems `C18_R1_code`, `C18_R1_equ`, `C18_R1_code_mod`, `C18_R1_code_neg` above ask for every ORG at `$100` or above
(`OrgOk`), for a purely technical reason: they relate the address VALUES of the two programs with the same hint and mode.
The theorems below ask for nothing but what `C18_R1` asks (`ShiftOrgP D P la lb` with ANY side condition `P`; the line
relation itself says `n + D < $10000`): addresses, label values and the origin are related as numbers (`AddrShiftAny`,
`EquRelAny`), operand fields and emitted bytes exactly as above. -/

theorem LineShift.any {D : Nat} {P : Nat → Prop} {x y : Str} (h : LineShift D P x y) :
    LineShift D (OrgOkAny D) x y := by
  rcases h with h | ⟨lab, n, hl, _, hx, hy, hn⟩
  · exact .inl h
  · exact .inr ⟨lab, n, hl, hn, hx, hy, hn⟩

theorem ShiftOrgP.any {D : Nat} {P : Nat → Prop} {la lb : List Str} (h : ShiftOrgP D P la lb) :
    ShiftOrgP D (OrgOkAny D) la lb :=
  ⟨h.1, fun i x y hx hy => (h.2 i x y hx hy).any⟩

/-- C18-R1, code and symbol table, for source text at ANY origin.  Conclusions as in `C18_R1_parsed_code_any`: the
symbol tables before address assignment coincide; every statement address moves by `D` as a number inside the 64K space;
statement by statement the operand field after `fix_addresses; fit_operand_width` and the emitted bytes are identical
(`Unmoved`) or the 16-bit field moves by `D` (`Moved`); the final symbol tables are related entry by entry by
`EquRelAny`. -/
theorem C18_R1_code_any {fs : Files} {la lb : List Str} {D : Nat} {P : Nat → Prop} {A B : Assembly}
    (hsh : ShiftOrgP D P la lb)
    (hhead : ∃ lab n rest, lab.all isLabelCh = true ∧ n < 65536 ∧ la = orgLine lab n :: rest)
    (stA : Stages fs la A) (stB : Stages fs lb B) :
    stB.t = stA.t ∧ PW (AddrShiftAny D) stA.ss4 stB.ss4 ∧ PW (AddrShiftAny D) A.stmts B.stmts ∧
    (∀ (i : Nat) (s4 t t' : Stmt), stA.ss4[i]? = some s4 → A.stmts[i]? = some t → B.stmts[i]? = some t' →
      (Unmoved D stA.ss4 s4 → ListsConst stA.t s4 → t'.pkg.additional = t.pkg.additional ∧ stmtBytes t' = stmtBytes t) ∧
      (Moved D stA.ss4 s4 → t'.pkg.additional = shiftV D t.pkg.additional ∧
        ∀ bs, stmtBytes t = some bs →
          ∃ pre x, t.pkg.additional.int? = some x ∧ x + D < 65536 ∧ bs = pre ++ [x / 256, x % 256] ∧
            stmtBytes t' = some (pre ++ [(x + D) / 256, (x + D) % 256]))) ∧
    (∀ (j : Nat) (k : Str) (v : Value), stA.t[j]? = some (k, v) →
      ∃ x x', A.symtab[j]? = some (k, x) ∧ B.symtab[j]? = some (k, x') ∧ EquRelAny D stA.ss4 stA.t v x x') := by
  obtain ⟨lab, n, rest, hl, hn, hla⟩ := hhead
  obtain ⟨hrel, hinc⟩ := parseLines_shift la lb _ _ hsh.any.pw stA.hparse stB.hparse
  exact C18_R1_parsed_code_any stA.hparse stB.hparse hrel hinc (head_org hl hn hla stA.hparse) stA stB

/-- C18-R1 for source text at any origin, the final symbol table entry by entry: conclusions as in
`C18_R1_parsed_equ_any` -/
theorem C18_R1_equ_any {fs : Files} {la lb : List Str} {D : Nat} {P : Nat → Prop} {A B : Assembly}
    (hsh : ShiftOrgP D P la lb)
    (hhead : ∃ lab n rest, lab.all isLabelCh = true ∧ n < 65536 ∧ la = orgLine lab n :: rest)
    (stA : Stages fs la A) (stB : Stages fs lb B) :
    ∀ (j : Nat) (k : Str) (v : Value), stA.t[j]? = some (k, v) →
      ∃ x x', A.symtab[j]? = some (k, x) ∧ B.symtab[j]? = some (k, x') ∧ EquRelAny D stA.ss4 stA.t v x x' :=
  (C18_R1_code_any hsh hhead stA stB).2.2.2.2

/-- C18-R1 for source text at any origin, the third class (`MovedMod`): conclusions as in `C18_R1_code_mod` -/
theorem C18_R1_code_mod_any {fs : Files} {la lb : List Str} {D : Nat} {P : Nat → Prop} {A B : Assembly}
    (hsh : ShiftOrgP D P la lb)
    (hhead : ∃ lab n rest, lab.all isLabelCh = true ∧ n < 65536 ∧ la = orgLine lab n :: rest)
    (stA : Stages fs la A) (stB : Stages fs lb B) :
    ∀ (i : Nat) (s4 t t' : Stmt), stA.ss4[i]? = some s4 → A.stmts[i]? = some t → B.stmts[i]? = some t' →
      MovedMod D stA.ss4 s4 → t'.pkg.additional = shiftVmod D t.pkg.additional ∧
        ∀ bs, stmtBytes t = some bs →
          ∃ pre x, t.pkg.additional.int? = some x ∧ x < 65536 ∧ bs = pre ++ [x / 256, x % 256] ∧
            stmtBytes t' = some (pre ++ [(x + D) % 65536 / 256, (x + D) % 65536 % 256]) := by
  obtain ⟨lab, n, rest, hl, hn, hla⟩ := hhead
  obtain ⟨hrel, hinc⟩ := parseLines_shift la lb _ _ hsh.any.pw stA.hparse stB.hparse
  exact C18_R1_parsed_code_mod_any stA.hparse stB.hparse hrel hinc (head_org hl hn hla stA.hparse) stA stB

/-- C18-R1 for source text at any origin, the fourth class (`MovedNeg`: `number - label`): conclusions as in
`C18_R1_code_neg` -/
theorem C18_R1_code_neg_any {fs : Files} {la lb : List Str} {D : Nat} {P : Nat → Prop} {A B : Assembly}
    (hsh : ShiftOrgP D P la lb)
    (hhead : ∃ lab n rest, lab.all isLabelCh = true ∧ n < 65536 ∧ la = orgLine lab n :: rest)
    (stA : Stages fs la A) (stB : Stages fs lb B) :
    ∀ (i : Nat) (s4 t t' : Stmt), stA.ss4[i]? = some s4 → A.stmts[i]? = some t → B.stmts[i]? = some t' →
      MovedNeg stA.ss4 s4 → t'.pkg.additional = shiftVneg D t.pkg.additional ∧
        ∀ bs, stmtBytes t = some bs →
          ∃ pre x y, t.pkg.additional.int? = some x ∧ x < 65536 ∧ y < 65536 ∧ (y + D) % 65536 = x ∧
            bs = pre ++ [x / 256, x % 256] ∧ stmtBytes t' = some (pre ++ [y / 256, y % 256]) := by
  obtain ⟨lab, n, rest, hl, hn, hla⟩ := hhead
  obtain ⟨hrel, hinc⟩ := parseLines_shift la lb _ _ hsh.any.pw stA.hparse stB.hparse
  exact C18_R1_parsed_code_neg_any stA.hparse stB.hparse hrel hinc (head_org hl hn hla stA.hparse) stA stB

/-! ### the classes at any origin, executable -/

/-- `RefFitted`, executable -/
def refFittedB (s : Stmt) : Bool := !s.operand.value.isAddress || !fitSkipped s.row

theorem refFittedB_sound {s : Stmt} (h : refFittedB s = true) : RefFitted s := by
  intro ha
  unfold refFittedB at h
  rw [ha] at h
  simpa using h

/-- every statement of the list is `Unmoved`, or `Moved` and `RefFitted` -/
def coverAny2B (D : Nat) (as : List Stmt) : Bool :=
  as.all (fun s => unmovedB D as s || (movedB D as s && refFittedB s))

theorem coverAny2B_sound {D : Nat} {as : List Stmt} (h : coverAny2B D as = true) :
    ∀ (i : Nat) (s : Stmt), as[i]? = some s → Unmoved D as s ∨ (Moved D as s ∧ RefFitted s) := by
  intro i s hs
  have := List.all_eq_true.mp h s (List.mem_of_getElem? hs)
  simp only [Bool.or_eq_true, Bool.and_eq_true] at this
  rcases this with h1 | ⟨h1, h2⟩
  · exact .inl (unmovedB_sound h1)
  · exact .inr ⟨movedB_sound h1, refFittedB_sound h2⟩

/-- every statement of the list is in one of the four classes of a program at any origin (`CoveredAny`) -/
def coverAnyB (D : Nat) (as : List Stmt) : Bool :=
  as.all (fun s => unmovedB D as s || (movedB D as s && refFittedB s) || movedModB D as s || movedNegB as s)

theorem coverAnyB_sound {D : Nat} {as : List Stmt} (h : coverAnyB D as = true) :
    ∀ (i : Nat) (s : Stmt), as[i]? = some s → CoveredAny D as s := by
  intro i s hs
  have := List.all_eq_true.mp h s (List.mem_of_getElem? hs)
  simp only [Bool.or_eq_true, Bool.and_eq_true] at this
  rcases this with ((h1 | ⟨h1, h2⟩) | h1) | h1
  · exact .inl (unmovedB_sound h1)
  · exact .inr (.inl ⟨movedB_sound h1, refFittedB_sound h2⟩)
  · exact .inr (.inr (.inl (movedModB_sound h1)))
  · exact .inr (.inr (.inr (movedNegB_sound h1)))

/-! ### witness: a move across `$100` -/

/-- the body of the crossing sample: the label `L` referenced absolutely (`JMP L`, `LDX #L`, `LDA L,X`, `FDB L`),
relatively (`BRA L`, `LEAX L,PCR`) and in an EQU (`T EQU L+1`) -/
def crossBody : List Str :=
  ["L JMP L\n", " LDX #L\n", " LDA L,X\n", " FDB L\n", " BRA L\n", " LEAX L,PCR\n", "T EQU L+1\n"].map String.toList

/-- at `$00F8` the program itself straddles `$100` (`L` at `$F8`, the `FDB` at `$0102`); moved by `$100` all of it is
above `$100` -/
def crossA : List Str := orgLine [] 0x00F8 :: crossBody
def crossB : List Str := orgLine [] 0x01F8 :: crossBody

example : crossA = lines [" ORG $00F8\n", "L JMP L\n", " LDX #L\n", " LDA L,X\n", " FDB L\n", " BRA L\n",
    " LEAX L,PCR\n", "T EQU L+1\n"] := by decide
example : crossB = lines [" ORG $01F8\n", "L JMP L\n", " LDX #L\n", " LDA L,X\n", " FDB L\n", " BRA L\n",
    " LEAX L,PCR\n", "T EQU L+1\n"] := by decide

/-- the images, evaluated: `JMP L` (`7E 00F8` / `7E 01F8`), `LDX #L` (`8E 00F8` / `8E 01F8`), `LDA L,X`
(`A6 89 00F8` / `A6 89 01F8`) and `FDB L` (`00F8` / `01F8`) move by `$100`; `BRA L` (`20 F2`) and `LEAX L,PCR`
(`30 8C EF`) are identical -/
def crossImageA : Bytes :=
  [0x7E, 0x00, 0xF8, 0x8E, 0x00, 0xF8, 0xA6, 0x89, 0x00, 0xF8, 0x00, 0xF8, 0x20, 0xF2, 0x30, 0x8C, 0xEF]
def crossImageB : Bytes :=
  [0x7E, 0x01, 0xF8, 0x8E, 0x01, 0xF8, 0xA6, 0x89, 0x01, 0xF8, 0x01, 0xF8, 0x20, 0xF2, 0x30, 0x8C, 0xEF]

/-- statement addresses (ORG, `L JMP`, `LDX`, `LDA`, `FDB`, `BRA`, `LEAX`, `T EQU`) and label values (`L`, `T`) -/
def crossAddrsA : List (Option Nat) :=
  [some 0xF8, some 0xF8, some 0xFB, some 0xFE, some 0x102, some 0x104, some 0x106, some 0x109]
def crossAddrsB : List (Option Nat) :=
  [some 0x1F8, some 0x1F8, some 0x1FB, some 0x1FE, some 0x202, some 0x204, some 0x206, some 0x209]

set_option maxRecDepth 1000000 in
theorem crossA_ok : checkProgram crossA (fun A => A.image == some crossImageA &&
    symtabLines A.symtab == some (lines ["$F8   L", "$00F9 T"]) &&
    A.symtab.map (fun kv => kv.2.int?) == [some 0xF8, some 0xF9] &&
    A.stmts.map (fun s => s.pkg.address.int?) == crossAddrsA) = true := by decide
set_option maxRecDepth 1000000 in
theorem crossB_ok : checkProgram crossB (fun A => A.image == some crossImageB &&
    symtabLines A.symtab == some (lines ["$01F8 L", "$01F9 T"]) &&
    A.symtab.map (fun kv => kv.2.int?) == [some 0x1F8, some 0x1F9] &&
    A.stmts.map (fun s => s.pkg.address.int?) == crossAddrsB) = true := by decide

/-- the hypothesis of `C18_R1` / `C18_R1_code_any` (no side condition on the ORG value) -/
theorem cross_shift : ShiftOrgP 0x100 (fun _ => True) crossA crossB :=
  shiftOrgP_single [] 0x00F8 crossBody (by decide) trivial (by omega) (by decide)

/-- the OLD side condition fails: the ORG is below `$100` -/
theorem cross_not_orgOk : ¬ OrgOk 0x100 0x00F8 := by unfold OrgOk; omega

set_option maxRecDepth 1000000 in
/-- statement by statement (`unmovedB`, `movedB`, `refFittedB`): ORG, `BRA L`, `LEAX L,PCR` and the EQU are `Unmoved`;
`JMP L`, `LDX #L`, `LDA L,X`, `FDB L` are `Moved` (and looked at by `fit_operand_width`) -/
theorem crossA_classes :
    (stage4 crossA).map (fun as => as.map (fun s => (unmovedB 0x100 as s, movedB 0x100 as s && refFittedB s)))
      = some [(true, false), (false, true), (false, true), (false, true), (false, true), (true, false), (true, false),
              (true, false)] := by decide

set_option maxRecDepth 1000000 in
theorem crossA_cover : (stage4 crossA).map (coverAny2B 0x100) = some true := by decide

set_option maxRecDepth 1000000 in
/-- (model batch 8) the program has no FCB / FDB list with a symbol or an expression in it -/
theorem crossA_lists : (stage4 crossA).map literalListsB = some true := by decide

set_option maxRecDepth 1000000 in
theorem crossA_equCover : (stage4 crossA).bind (fun as => (stageT crossA).map (equCoverB 0x100 as)) = some true := by
  decide

set_option maxRecDepth 1000000 in
/-- the table entries: `L` is a label, `T EQU L+1` is an EQU defined by a label expression of the class `NumExpr` -/
theorem crossA_equClasses :
    (stage4 crossA).bind (fun as => (stageT crossA).map (fun t => t.map (fun kv =>
      (kv.2.isAddress, equLabelB (numExprB 0x100 as) t kv.2))))
      = some [(true, false), (false, true)] := by decide

/-- a move across `$100` under the any-origin theorems.  The program at `$00F8` and at `$01F8`: both assemble to the
images above — equal except the four absolute 16-bit fields, which are `$100` higher; the relative displacements
(`BRA L`, `LEAX L,PCR`) are identical.  Statement addresses and label values move by `$100` as numbers (evaluated, and
`PW (AddrShiftAny ..)` by `C18_R1_code_any`); the printed symbol table differs in FORMAT (`$F8` against `$01F8`: the
listing prints a value below `$100` with two digits).  The hypotheses of `C18_R1_code_any` hold (`cross_shift`; the old
`OrgOk` does not: `cross_not_orgOk`), EVERY statement that enters `fixAll` is `Unmoved` or `Moved` with `RefFitted`
(evaluated; `stages_refFitted` proves `RefFitted` for every accepted program) and every table entry is covered, so `reloc_fixAll_any` / `reloc_finish_any` speak about the whole program; statement by
statement operand field and code are identical (`Unmoved`) or the trailing 16-bit field moves by `$100` (`Moved`); entry
by entry the final symbol tables are related by `EquRelAny` (`L`: `IntAddr`; `T EQU L+1`: `shiftV`). -/
theorem reloc_crossing_100_witness : ∃ A B, assemble [] crossA = .ok A ∧ assemble [] crossB = .ok B ∧
    A.image = some crossImageA ∧ B.image = some crossImageB ∧
    symtabLines A.symtab = some (lines ["$F8   L", "$00F9 T"]) ∧
    symtabLines B.symtab = some (lines ["$01F8 L", "$01F9 T"]) ∧
    A.symtab.map (fun kv => kv.2.int?) = [some 0xF8, some 0xF9] ∧
    B.symtab.map (fun kv => kv.2.int?) = [some 0x1F8, some 0x1F9] ∧
    A.stmts.map (fun s => s.pkg.address.int?) = crossAddrsA ∧
    B.stmts.map (fun s => s.pkg.address.int?) = crossAddrsB ∧
    PW (AddrShiftAny 0x100) A.stmts B.stmts ∧
    ∀ (stA : Stages [] crossA A),
      (∀ (i : Nat) (s : Stmt), stA.ss4[i]? = some s → CoveredAny 0x100 stA.ss4 s) ∧
      (∀ kv ∈ stA.t, EquCovered 0x100 stA.ss4 stA.t kv.2) ∧
      (∀ (i : Nat) (s4 t t' : Stmt), stA.ss4[i]? = some s4 → A.stmts[i]? = some t → B.stmts[i]? = some t' →
        (Unmoved 0x100 stA.ss4 s4 ∧ t'.pkg.additional = t.pkg.additional ∧ stmtBytes t' = stmtBytes t) ∨
        (Moved 0x100 stA.ss4 s4 ∧ t'.pkg.additional = shiftV 0x100 t.pkg.additional ∧
          ∀ bs, stmtBytes t = some bs →
            ∃ pre x, t.pkg.additional.int? = some x ∧ x + 0x100 < 65536 ∧ bs = pre ++ [x / 256, x % 256] ∧
              stmtBytes t' = some (pre ++ [(x + 0x100) / 256, (x + 0x100) % 256]))) ∧
      ∀ (j : Nat) (k : Str) (v : Value), stA.t[j]? = some (k, v) →
        ∃ x x', A.symtab[j]? = some (k, x) ∧ B.symtab[j]? = some (k, x') ∧ EquRelAny 0x100 stA.ss4 stA.t v x x' := by
  obtain ⟨A, hA, cA⟩ := checkProgram_sound crossA_ok []
  obtain ⟨B, hB, cB⟩ := checkProgram_sound crossB_ok []
  simp only [Bool.and_eq_true, beq_iff_eq] at cA cB
  obtain ⟨⟨⟨a1, a2⟩, a3⟩, a4⟩ := cA
  obtain ⟨⟨⟨b1, b2⟩, b3⟩, b4⟩ := cB
  obtain ⟨stB⟩ := assemble_stages hB
  obtain ⟨stA0⟩ := assemble_stages hA
  have hhd : ∃ lab n rest, lab.all isLabelCh = true ∧ n < 65536 ∧ crossA = orgLine lab n :: rest :=
    ⟨[], 0x00F8, crossBody, by decide, by omega, rfl⟩
  have hcov : ∀ (stA : Stages [] crossA A) (i : Nat) (s : Stmt), stA.ss4[i]? = some s →
      Unmoved 0x100 stA.ss4 s ∨ (Moved 0x100 stA.ss4 s ∧ RefFitted s) := by
    intro stA
    have hc := crossA_cover
    cases h4 : stage4 crossA with
    | none => rw [h4] at hc; cases hc
    | some x =>
      rw [h4] at hc
      simp only [Option.map_some, Option.some.injEq] at hc
      rw [stage4_eq stA h4]
      exact coverAny2B_sound hc
  refine ⟨A, B, hA, hB, a1, b1, a2, b2, a3, b3, a4, b4, (C18_R1_code_any cross_shift hhd stA0 stB).2.2.1, ?_⟩
  intro stA
  refine ⟨?_, ?_, ?_, C18_R1_equ_any cross_shift hhd stA stB⟩
  · intro i s hs
    rcases hcov stA i s hs with hc | hc
    · exact .inl hc
    · exact .inr (.inl hc)
  · have hc := crossA_equCover
    cases h4 : stage4 crossA with
    | none => rw [h4] at hc; cases hc
    | some x =>
      cases hT : stageT crossA with
      | none => rw [h4, hT] at hc; cases hc
      | some tt =>
        rw [h4, hT] at hc
        simp only [Option.bind_some, Option.map_some, Option.some.injEq] at hc
        rw [stage4_eq stA h4, stageT_eq stA hT]
        exact equCoverB_sound hc
  · intro i s4 t t' hs4 ht ht'
    obtain ⟨hu, hm⟩ := (C18_R1_code_any cross_shift hhd stA stB).2.2.2.1 i s4 t t' hs4 ht ht'
    rcases hcov stA i s4 hs4 with hc | ⟨hc, _⟩
    · exact .inl ⟨hc, hu hc (listsConst_of_stage4 stA crossA_lists i s4 hs4)⟩
    · exact .inr ⟨hc, hm hc⟩

/-! ## model batch 8: symbols, expressions and labels inside FCB / FDB lists -/

def tblBody : List Str := ["K EQU 5\n", "A NOP\n", "T FDB A,T,K\n", "C FDB K,K+1,2\n"].map String.toList
def tblA : List Str := orgLine [] 0x1000 :: tblBody
def tblB : List Str := orgLine [] 0x1100 :: tblBody

set_option maxRecDepth 1000000 in
theorem tblA_ok : checkProgram tblA (fun A => A.image ==
    some [0x12, 0x10, 0x00, 0x10, 0x01, 0x00, 0x05, 0x00, 0x05, 0x00, 0x06, 0x00, 0x02]) = true := by decide
set_option maxRecDepth 1000000 in
theorem tblB_ok : checkProgram tblB (fun A => A.image ==
    some [0x12, 0x11, 0x00, 0x11, 0x01, 0x00, 0x05, 0x00, 0x05, 0x00, 0x06, 0x00, 0x02]) = true := by decide

set_option maxRecDepth 1000000 in
/-- statement by statement `listsConstB` on the label table of the program: the jump table `T FDB A,T,K` is NOT
`ListsConst` (two elements are labels), the list of constants `C FDB K,K+1,2` is -/
theorem tblA_lists :
    (stage4 tblA).bind (fun as => (stageT tblA).map (fun T => as.map (listsConstB T)))
      = some [true, true, true, false, true] := by decide

set_option maxRecDepth 1000000 in
/-- every statement of the sample is in the class `Unmoved` (the operand VALUE of a list statement holds no label) -/
theorem tblA_classes :
    (stage4 tblA).map (fun as => as.map (fun s => unmovedB 0x100 as s)) = some [true, true, true, true, true] := by decide

/-- (model batch 8) why the `Unmoved` clauses ask for `ListsConst`: the jump table `T FDB A,T,K` is in the class `Unmoved`,
it is not `ListsConst` (`tblA_lists`), and its code is NOT the same in the two placements: the label elements `A`, `T` move
by `$100` (`1000 1001` / `1100 1101`), the EQU element `K` stays (`0005`).  The list of constants `C FDB K,K+1,2` is
`ListsConst` and has the same code (`0005 0006 0002`).  For lists with label elements the relocation theorems make no
claim; the metamorphic oracle covers them. -/
theorem reloc_list_label_witness :
    (∃ A, assemble [] tblA = .ok A ∧
      A.image = some [0x12, 0x10, 0x00, 0x10, 0x01, 0x00, 0x05, 0x00, 0x05, 0x00, 0x06, 0x00, 0x02]) ∧
    (∃ B, assemble [] tblB = .ok B ∧
      B.image = some [0x12, 0x11, 0x00, 0x11, 0x01, 0x00, 0x05, 0x00, 0x05, 0x00, 0x06, 0x00, 0x02]) := by
  constructor
  · obtain ⟨A, hA, c⟩ := checkProgram_sound tblA_ok []
    exact ⟨A, hA, by simpa using c⟩
  · obtain ⟨B, hB, c⟩ := checkProgram_sound tblB_ok []
    exact ⟨B, hB, by simpa using c⟩

/-! ## axioms (the any-origin theorems) -/

#print axioms CoCo.Asm.assignAddrs_reloc_any
#print axioms CoCo.Asm.fixFit_moved_any_aux
#print axioms CoCo.Asm.symtab_reloc_entry_any
#print axioms reloc_assign_rel_any
#print axioms reloc_assign_iff_any
#print axioms reloc_fixFit_unmoved_any
#print axioms reloc_fixFit_moved_any
#print axioms reloc_bytes_unmoved_any
#print axioms reloc_bytes_moved_any
#print axioms reloc_bytes_movedMod_any
#print axioms reloc_bytes_movedNeg_any
#print axioms reloc_fixAll_any
#print axioms reloc_finish_any
#print axioms C18_R1_parsed_code_any
#print axioms C18_R1_parsed_equ_any
#print axioms C18_R1_parsed_code_mod_any
#print axioms C18_R1_parsed_code_neg_any
#print axioms C18_R1_code_any
#print axioms C18_R1_equ_any
#print axioms C18_R1_code_mod_any
#print axioms C18_R1_code_neg_any
#print axioms stages_refFitted
#print axioms coveredAny_of_stages
#print axioms reloc_crossing_100_witness
#print axioms reloc_list_label_witness
#print axioms reloc_signed_witness
#print axioms reloc_finish
#print axioms reloc_finish_equ
#print axioms C18_R1_code

end CoCo.Props
