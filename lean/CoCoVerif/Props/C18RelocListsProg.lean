/-
Props/C18RelocListsProg.lean — C18-R1 (relocation), model batch 8: LABEL elements of FCB / FDB lists (jump tables), WHOLE
PROGRAM.

`reloc_fixAllL_any` / `reloc_finish_any` (Props/C18Reloc.lean) ask for `ListsConst`: no list element resolves to a label.
Here the same with `ListsCovered` (Lemmas/RelocListLabel.lean: a list element may be a label, `label ± N`, `label - label`
or a constant; in an FCB list the moved values have two digits — `ElemFits`):

* `FinalRelL D fs t y y'`: the relation between a statement of the original program and of the program moved by `D` after
  `fixAllL` (`fs`: a layout with the addresses of the original program): a statement that is no list as in `FinalRelAny`; a
  list statement equal up to the address and the field, which is `movedList D fs t y` — the digits of the original program
  with every label (and `label ± N`) `+ D`;
* `reloc_fixAllL_lists`: when the original program gets through `fixAllL`, so does the moved program, and the statements are
  related by `FinalRelL` (on the layout `fixAll` gives; `reloc_fixAllL_lists'`: on the final statements themselves);
* `reloc_finish_lists_any`: the analogue of `reloc_finish_any`: when `finish` accepts the original program it accepts the
  moved one; statements related by `FinalRelL`, symbol tables by `SymRelAny`, origins by `OriginAny`, same name;
* `finalRelL_bytes`, `finalRelL_words`: the bytes of a list statement of the moved program — op code, post byte, the bytes
  of `movedList`, for a jump table: the big-endian bytes of `movedWords` (the words of the original program, labels `+ D`).

ONE DIRECTION (original accepted → moved accepted), not "same outcome kind": in an FCB list `label ± N` with more than two
digits in the original program may wrap to two digits in the moved one.  For `ListsConst` programs `reloc_finish_any` stays
the stronger statement.
-/
import CoCoVerif.Props.C18RelocLists
import CoCoVerif.Lemmas.RelocListProg

namespace CoCo.Props
open CoCo CoCo.Asm

section
variable {D : Nat}

/-- after `fixAllL`, list elements that move allowed: the addresses are numbers `D` apart inside the 64K space; a statement
that is no list is equal up to the address and the operand field, which is the same or moved in one of the three ways
(`AddlRel`, as in `FinalRelAny`); a list statement is equal up to the address and the field, which is `movedList D fs t y` -/
def FinalRelL (D : Nat) (fs : List Stmt) (t : SymTab) (y y' : Stmt) : Prop :=
  ((y.pkg.additional.isList = false ∧ AddlRel D y y') ∨
   (y.pkg.additional.isList = true ∧
     y' = ({ y with pkg := { y.pkg with additional := movedList D fs t y } } : Stmt).setAddress y'.pkg.address)) ∧
  AddrShiftAny D y y'

/-- a statement that is no list: `FinalRelL` is `FinalRelAny` -/
theorem FinalRelL.nonlist {fs : List Stmt} {t : SymTab} {y y' : Stmt} (h : FinalRelL D fs t y y')
    (hl : y.pkg.additional.isList = false) : FinalRelAny D y y' := by
  obtain ⟨h1 | h1, h2⟩ := h
  · exact ⟨h1.2, h2⟩
  · rw [hl] at h1; cases h1.1

/-- a list statement: equal up to the address and the field -/
theorem FinalRelL.list {fs : List Stmt} {t : SymTab} {y y' : Stmt} (h : FinalRelL D fs t y y')
    (hl : y.pkg.additional.isList = true) :
    y' = ({ y with pkg := { y.pkg with additional := movedList D fs t y } } : Stmt).setAddress y'.pkg.address ∧
      y'.pkg.additional = movedList D fs t y := by
  obtain ⟨h1 | h1, h2⟩ := h
  · rw [hl] at h1; cases h1.1
  · refine ⟨h1.2, ?_⟩
    generalize y'.pkg.address = a at h1
    rw [h1.2]
    rfl

theorem FinalRelAny.toL {fs : List Stmt} {t : SymTab} {y y' : Stmt} (h : FinalRelAny D y y')
    (hl : y.pkg.additional.isList = false) : FinalRelL D fs t y y' := ⟨.inl ⟨hl, h.1⟩, h.2⟩

theorem FinalRelL.row_addr {fs : List Stmt} {t : SymTab} {y y' : Stmt} (h : FinalRelL D fs t y y') :
    y'.row = y.row ∧ IntAddr D y.pkg.address y'.pkg.address := by
  obtain ⟨h1, _, hw⟩ := h
  refine ⟨?_, hw⟩
  rcases h1 with ⟨_, h1⟩ | ⟨_, h1⟩
  · rcases h1 with h1 | h1 | h1 | h1 <;> rw [h1] <;> rfl
  · rw [h1]; rfl

theorem FinalRelL.row_operand {fs : List Stmt} {t : SymTab} {y y' : Stmt} (h : FinalRelL D fs t y y') :
    y'.row = y.row ∧ y'.operand = y.operand := by
  obtain ⟨h1, _⟩ := h
  rcases h1 with ⟨_, h1⟩ | ⟨_, h1⟩
  · rcases h1 with h1 | h1 | h1 | h1 <;> rw [h1] <;> exact ⟨rfl, rfl⟩
  · rw [h1]; exact ⟨rfl, rfl⟩

/-- the layout of `FinalRelL` may be replaced by one with the same addresses -/
theorem FinalRelL.sameAddr {fs gs : List Stmt} (hs : PW SameAddr fs gs) {t : SymTab} {y y' : Stmt}
    (h : FinalRelL D fs t y y') : FinalRelL D gs t y y' := by
  unfold FinalRelL at h ⊢
  rw [movedList_sameAddr hs]
  exact h

/-- what `ListStep` (Lemmas/RelocListProg.lean) says for `FinalRelAny` -/
theorem ListStep.finalRelL {fs fs' : List Stmt} {t : SymTab} {y y' : Stmt}
    (h : ListStep (FinalRelAny D) D fs fs' t y y') : FinalRelL D fs t y y' := by
  obtain ⟨x, x', hx, _, hA, _, e⟩ := h
  cases hl : x.pkg.additional.isList with
  | false =>
    obtain ⟨b1, b2⟩ := Value.isList_false hl
    rw [evalList1_keep t fs b1 b2] at hA
    cases hA
    rw [hl] at e
    simp only [Bool.false_eq_true, if_false] at e
    subst e
    exact hx.toL hl
  | true =>
    rw [hl] at e
    simp only [if_true] at e
    obtain ⟨v, hv⟩ := evalList1_same hA
    have hyl : y.pkg.additional.isList = true := by
      rcases evalList1_additional hA with ⟨_, _, _, a2, _⟩ | ⟨_, _, _, a2, _⟩ | ⟨b1, b2, rfl⟩
      · rw [a2]; rfl
      · rw [a2]; rfl
      · exact hl
    have h3 : ({ x' with pkg := { x'.pkg with additional := movedList D fs t y } } : Stmt)
        = ({ y with pkg := { y.pkg with additional := movedList D fs t y } } : Stmt).setAddress x'.pkg.address := by
      rw [hv]
      exact AddlRel.set hx.toAddl _
    have ha : y'.pkg.address = x'.pkg.address := by rw [e]
    have hsz : y'.pkg.size = x'.pkg.size := by rw [e]
    refine ⟨.inr ⟨hyl, ?_⟩, ?_⟩
    · rw [ha, ← h3]
      exact e
    · obtain ⟨s1, s2⟩ := hx.2
      have hya : y.pkg.address = x.pkg.address := by rw [hv]
      have hys : y.pkg.size = x.pkg.size := by rw [hv]
      exact ⟨by rw [hsz, hys]; exact s1, by rw [ha, hya]; exact s2⟩

/-! ## `fixAllL` -/

variable {as as' : List Stmt}

/-- (C18-R1, lists; the analogue of `reloc_fixAllL_any`) `fixAll` and then the list pass, any origin, `ListsCovered` instead
of `ListsConst`: when the original program gets through, so does the program moved by `D`; the statements are related by
`FinalRelL` on the layout `fs` that `fixAll` gives for the original program -/
theorem reloc_fixAllL_lists (h : PW (RelocOutAny D) as as')
    (hcov : ∀ (i : Nat) (s : Stmt), as[i]? = some s → CoveredAny D as s) (t : SymTab)
    (hlist : ∀ (i : Nat) (s : Stmt), as[i]? = some s → ListsCovered D as t s)
    {ys : List Stmt} (hA : fixAllL t as = .ok ys) :
    ∃ fs fs' ys', fixAll as 0 as = .ok fs ∧ fixAll as' 0 as' = .ok fs' ∧ PW (FinalRelAny D) fs fs' ∧
      evalLists t fs fs = .ok ys ∧ fixAllL t as' = .ok ys' ∧ PW (FinalRelL D fs t) ys ys' := by
  obtain ⟨fs, fs', ys', e1, e2, hr, e3, e4, hp⟩ :=
    fixAllL_reloc FinalRelAny.listStable (fun _ _ r => r.2) t (reloc_fixAll_any h hcov)
      (fun _ hf => fixAll_listsCovered (addrOf_numeric_any (RelocOutAny.addrShiftAny h)) hlist hf) hA
  exact ⟨fs, fs', ys', e1, e2, hr, e3, e4, hp.mono (fun _ _ => ListStep.finalRelL)⟩

/-- the same, the digits of the moved lists computed on the statements `as` that enter `fixAll`, or on the final statements
`ys` of the original program (all three layouts have the same addresses) -/
theorem reloc_fixAllL_lists' (h : PW (RelocOutAny D) as as')
    (hcov : ∀ (i : Nat) (s : Stmt), as[i]? = some s → CoveredAny D as s) (t : SymTab)
    (hlist : ∀ (i : Nat) (s : Stmt), as[i]? = some s → ListsCovered D as t s)
    {ys : List Stmt} (hA : fixAllL t as = .ok ys) :
    ∃ ys', fixAllL t as' = .ok ys' ∧ PW (FinalRelL D as t) ys ys' ∧ PW (FinalRelL D ys t) ys ys' := by
  obtain ⟨fs, fs', ys', e1, _, _, _, e4, hp⟩ := reloc_fixAllL_lists h hcov t hlist hA
  have s1 : PW SameAddr as fs := fixAll_sameAddr e1
  have s2 : PW SameAddr as ys := fixAllL_sameAddr hA
  have s1' : PW SameAddr fs as := ⟨s1.1.symm, fun j a b ha hb => (s1.2 j b a hb ha).symm⟩
  refine ⟨ys', e4, hp.mono (fun _ _ r => r.sameAddr s1'), hp.mono (fun _ _ r => (r.sameAddr s1').sameAddr s2)⟩

/-! ## `finish` -/

/-- as `AsmRelAny`, the statements related by `FinalRelL` on the layout `as` (the statements that enter `fixAll`) -/
def AsmRelL (D : Nat) (as : List Stmt) (t : SymTab) (A B : Assembly) : Prop :=
  PW (FinalRelL D as t) A.stmts B.stmts ∧
  A.symtab.length = t.length ∧ B.symtab.length = t.length ∧ SymRelAny D as t A.symtab B.symtab ∧
  OriginAny D A.origin B.origin ∧ B.name = A.name

/-- (C18-R1, lists; the analogue of `reloc_finish_any`) any origin, four statement classes, EQUs defined by label
expressions, and list elements that are labels, `label ± N`, `label - label` or constants (`ListsCovered`, with `ElemFits`
for FCB lists): when `finish` (`fixAllL`, `evalSyms`, `finalSymTab`, origin and name) accepts the original program, it
accepts the program moved by `D`, and the results are related by `AsmRelL` -/
theorem reloc_finish_lists_any (h : PW (RelocOutAny D) as as')
    (hcov : ∀ (i : Nat) (s : Stmt), as[i]? = some s → CoveredAny D as s) (t : SymTab)
    (hequ : ∀ kv ∈ t, EquCovered D as t kv.2)
    (hlist : ∀ (i : Nat) (s : Stmt), as[i]? = some s → ListsCovered D as t s)
    {A : Assembly} (hA : finish t as = .ok A) :
    ∃ B, finish t as' = .ok B ∧ AsmRelL D as t A B := by
  have hI : PW (AddrShiftI D) as as' := RelocOutAny.addrShiftI h
  unfold finish at hA ⊢
  cases hfa : fixAllL t as with
  | ok fs =>
    rw [hfa] at hA
    dsimp only at hA
    obtain ⟨fs', hfb, hr, _⟩ := reloc_fixAllL_lists' h hcov t hlist hfa
    rw [hfb]
    dsimp only
    have hsh : PW (AddrShiftAny D) fs fs' := hr.mono (fun _ _ r => r.2)
    have hs := fixAllL_sameAddr hfa
    have hs' := fixAllL_sameAddr hfb
    have hev := evalSyms_outRel hI t t hequ
    rw [← evalSyms_sameAddr hs, ← evalSyms_sameAddr hs'] at hev
    cases he : evalSyms fs t t with
    | ok t1 =>
      rw [he] at hA hev
      dsimp only at hA
      generalize he' : evalSyms fs' t t = o1' at hev ⊢
      cases hev with
      | ok hp =>
        rename_i t1'
        dsimp only
        have hfin := finalSymTab_outRel (hsh.mono (fun _ _ => AddrShiftAny.toI)) t1 t1' hp
        cases hf : finalSymTab fs t1 with
        | ok r =>
          rw [hf] at hA hfin
          dsimp only at hA
          cases hA
          generalize hf' : finalSymTab fs' t1' = o2' at hfin ⊢
          cases hfin with
          | ok _ =>
            rename_i r'
            dsimp only
            refine ⟨_, rfl, hr, ?_, ?_, ?_, ?_, ?_⟩
            · exact (finalSymTab_length hf).trans (evalSyms_length he)
            · exact (finalSymTab_length hf').trans (evalSyms_length he')
            · intro j k v hj
              exact symtab_reloc_entry_any hI hs hs' hsh he he' hf hf' hj
            · exact origin_reloc_any fs fs' .none .none (.inl ⟨rfl, rfl⟩) (hr.mono (fun _ _ r => r.row_addr))
            · exact name_reloc fs fs' none (hr.mono (fun _ _ r => r.row_operand))
        | diag => rw [hf] at hA; cases hA
        | internal => rw [hf] at hA; cases hA
        | diverged => rw [hf] at hA; cases hA
    | diag => rw [he] at hA; cases hA
    | internal => rw [he] at hA; cases hA
    | diverged => rw [he] at hA; cases hA
  | diag => rw [hfa] at hA; cases hA
  | internal => rw [hfa] at hA; cases hA
  | diverged => rw [hfa] at hA; cases hA

/-- `reloc_finish_any` is the special case "no list element moves": the hypothesis `ListsConst` gives `ListsCovered` -/
theorem listsCovered_of_listsConst {t : SymTab}
    (hlist : ∀ (i : Nat) (s : Stmt), as[i]? = some s → ListsConst t s) :
    ∀ (i : Nat) (s : Stmt), as[i]? = some s → ListsCovered D as t s :=
  fun i s hs => (hlist i s hs).covered

/-! ## the bytes of a list statement of the moved program -/

/-- (C18-R1, lists) a list statement `y` of the original program and the statement `y'` of the moved program: the bytes of
`y'` are op code, post byte (those of `y`) and the bytes of the field `movedList D fs t y` -/
theorem finalRelL_bytes {fs : List Stmt} {t : SymTab} {y y' : Stmt} (h : FinalRelL D fs t y y')
    (hl : y.pkg.additional.isList = true) :
    stmtBytes y' = (do
      let a ← emitValue y.pkg.opCode
      let b ← emitValue y.pkg.postByte
      let c ← emitValue (movedList D fs t y)
      pure (a ++ b ++ c)) := by
  rw [(h.list hl).1, stmtBytes_setAddress]
  rfl

/-- (C18-R1, jump tables) a list statement whose words in the original program are `ns`: the bytes of the statement in the
original program are op code, post byte and the big-endian bytes of `ns`; in the moved program those of `movedWords` — the
words of the original program with every label element (and `label ± N`) `+ D` -/
theorem finalRelL_words {fs : List Stmt} {t : SymTab} {y y' : Stmt} (h : FinalRelL D fs t y y')
    {ns : List Nat} (hns : ∀ n ∈ ns, n < 65536) (hy : y.pkg.additional = .multiWord (ns.map wordHex)) :
    stmtBytes y = (do
      let a ← emitValue y.pkg.opCode
      let b ← emitValue y.pkg.postByte
      pure (a ++ b ++ wordBytes ns)) ∧
    stmtBytes y' = (do
      let a ← emitValue y.pkg.opCode
      let b ← emitValue y.pkg.postByte
      pure (a ++ b ++ wordBytes (movedWords D fs t (listElems y.operand.text) ns))) := by
  have hl : y.pkg.additional.isList = true := by rw [hy]; rfl
  constructor
  · unfold stmtBytes
    rw [hy, emitValue_multiWord ns hns]
    cases emitValue y.pkg.opCode <;> cases emitValue y.pkg.postByte <;> rfl
  · rw [finalRelL_bytes h hl]
    have : movedList D fs t y = .multiWord (movedDigits D fs t 4 (listElems y.operand.text) (ns.map wordHex)) := by
      unfold movedList
      rw [hy]
    rw [this, emitValue_movedWords D fs t _ ns hns]
    cases emitValue y.pkg.opCode <;> cases emitValue y.pkg.postByte <;> rfl

/-- a statement that is no list: the bytes as `FinalRelAny` says (the lemmas `reloc_bytes_*_any` apply) -/
theorem finalRelL_nonlist_stmt {fs : List Stmt} {t : SymTab} {A B : List Stmt} (h : PW (FinalRelL D fs t) A B)
    {j : Nat} {y y' : Stmt} (hy : A[j]? = some y) (hy' : B[j]? = some y') (hl : y.pkg.additional.isList = false) :
    FinalRelAny D y y' := (h.2 j y y' hy hy').nonlist hl

end

/-! ## source text: the list statements of the two assemblies -/

/-- `AddrShiftAny` looks at address and size only -/
theorem addrShiftAny_fixAll {D : Nat} {as as' fs fs' : List Stmt} (h : PW (AddrShiftAny D) as as')
    (hf : fixAll as 0 as = .ok fs) (hf' : fixAll as' 0 as' = .ok fs') : PW (AddrShiftAny D) fs fs' := by
  have p := fixAll_pw hf
  have p' := fixAll_pw hf'
  refine ⟨by rw [p'.1, p.1, h.1], ?_⟩
  intro j b b' hb hb'
  obtain ⟨a, ha, v, rfl⟩ := p.get' hb
  obtain ⟨a', ha', v', rfl⟩ := p'.get' hb'
  exact h.2 j a a' ha ha'

/-- (C18-R1, lists, parsed programs at any origin) a list statement `t` of the original assembly and the statement `t'` of
the assembly of the moved text: when the statement `s4` that entered `fixAll` is `Unmoved` and its list elements are
`ListsCovered`, `t` and `t'` are related by `FinalRelL` on the layout `stA.ss4` — equal up to the address and the field,
which holds `movedList …`: the digits of `t` with every label element (and `label ± N`) `+ D` -/
theorem C18_R1_parsed_lists_any {fs : Files} {la lb : List Str} {pa pb : List Stmt} {D : Nat} {A B : Assembly}
    (hpa : parseLines la = .ok pa) (hpb : parseLines lb = .ok pb) (hrel : PW (OrgRel D (OrgOkAny D)) pa pb)
    (hinc : ∀ s ∈ pa, s.row.isInclude = false)
    (hhead : ∃ s0 r0, pa = s0 :: r0 ∧ s0.row.mnemonic = "ORG")
    (stA : Stages fs la A) (stB : Stages fs lb B) :
    ∀ (i : Nat) (s4 t t' : Stmt), stA.ss4[i]? = some s4 → A.stmts[i]? = some t → B.stmts[i]? = some t' →
      t.pkg.additional.isList = true → Unmoved D stA.ss4 s4 → ListsCovered D stA.ss4 stA.t s4 →
      FinalRelL D stA.ss4 stA.t t t' := by
  intro i s4 t t' hs4 ht ht' hl hc hlc
  obtain ⟨htt, hshift, _⟩ := C18_R1_parsed_code_any hpa hpb hrel hinc hhead stA stB
  have hshiftI : PW (AddrShiftI D) stA.ss4 stB.ss4 := hshift.mono (fun _ _ => AddrShiftAny.toI)
  obtain ⟨s4', hs4', _⟩ := hshift.get hs4
  obtain ⟨x5, hx5, _, fA⟩ := fixAllL_steps stA.hfix
  obtain ⟨x5', hx5', _, fB⟩ := fixAllL_steps stB.hfix
  obtain ⟨u, t0, hfu, ht0, hlu⟩ := fA i s4 hs4
  obtain ⟨u', t0', hfu', ht0', hlu'⟩ := fB i s4' hs4'
  rw [ht] at ht0; cases ht0
  rw [ht'] at ht0'; cases ht0'
  rw [htt] at hlu'
  have hss : ∀ j v, addrOf stA.ss4 j = some v → v.isNumeric = true := addrOf_numeric_any hshift
  -- the statement is a list all the way back
  have hul : u.pkg.additional.isList = true := by
    rcases evalList1_additional hlu with ⟨_, _, a1, _, _⟩ | ⟨_, _, a1, _, _⟩ | ⟨_, _, e⟩
    · rw [a1]; rfl
    · rw [a1]; rfl
    · rw [← e]; exact hl
  have hs4l : s4.pkg.additional.isList = true := by
    obtain ⟨r1, r2⟩ := fixFit_list_rev hss hfu
    cases hua : u.pkg.additional with
    | multiByte hs => rw [r1 hs hua]; rfl
    | multiWord hs => rw [r2 hs hua]; rfl
    | _ => rw [hua] at hul; cases hul
  -- the statements that enter `fixAll` are equal up to the address
  obtain ⟨_, h3⟩ := reloc_stages hpa hpb hrel hinc stA stB
  have kA := assignAddrs_keep stA.haddr
  have kB := assignAddrs_keep stB.haddr
  obtain ⟨s3, hs3, ⟨v, hv⟩, hkeep⟩ := kA.get' hs4
  obtain ⟨s3', hs3', ⟨v', hv'⟩, hkeep'⟩ := kB.get' hs4'
  have he : s4' = s4.setAddress s4'.pkg.address := by
    rcases h3.2 i s3 s3' hs3 hs3' with ⟨rfl, _, _⟩ | ⟨hin, hm, hn, hk, hk', hnum, hnum', n, _, ha, ha'⟩
    · rw [hv, hv']; rfl
    · exfalso
      have e4 : s4 = s3 := hkeep (by simp [Stmt.preset, ha, Value.isNone])
      subst e4
      have hadd : s4.pkg.additional = .none := stages_org_additional stA hs4 ht hm hk
      rw [hadd] at hs4l
      cases hs4l
  obtain ⟨e, _⟩ := reloc_bytes_unmoved' hshiftI he hc hfu hfu'
  have hau : u'.pkg.address = s4'.pkg.address := by rw [e]; rfl
  have e' : u' = u.setAddress u'.pkg.address := by rw [hau]; exact e
  have hsh5 : PW (AddrShiftAny D) x5 x5' := addrShiftAny_fixAll hshift hx5 hx5'
  have hu5 : x5[i]? = some u := by
    obtain ⟨_, hp⟩ := fixAll_ok hx5
    obtain ⟨s', e1, e2⟩ := hp i s4 hs4
    rw [Nat.zero_add, hfu] at e2
    cases e2
    exact e1
  have hu5' : x5'[i]? = some u' := by
    obtain ⟨_, hp⟩ := fixAll_ok hx5'
    obtain ⟨s', e1, e2⟩ := hp i s4' hs4'
    rw [Nat.zero_add, hfu'] at e2
    cases e2
    exact e1
  have hx : FinalRelAny D u u' := ⟨.inl e', hsh5.2 i u u' hu5 hu5'⟩
  have s1 : PW SameAddr stA.ss4 x5 := fixAll_sameAddr hx5
  have s1' : PW SameAddr x5 stA.ss4 := ⟨s1.1.symm, fun j a b ha hb => (s1.2 j b a hb ha).symm⟩
  have hcu : ListsCovered D x5 stA.t u := (fixFit_listsCovered hss hfu hlc).sameAddr s1
  obtain ⟨y', ey, step⟩ := evalList1_step FinalRelAny.listStable hsh5 stA.t hx hcu hlu
  rw [hlu'] at ey
  cases ey
  exact (ListStep.finalRelL step).sameAddr s1'

/-- (C18-R1, lists, SOURCE TEXT at any origin) the list statements of the assemblies of a text and of the text with its ORG
lines moved by `D`: hypotheses as `C18_R1_code_any`; a list statement `t` whose statement `s4` is `Unmoved` and
`ListsCovered` (instead of `ListsConst`): the field of `t'` is `movedList …`, the bytes of `t'` are op code, post byte and
the bytes of that field; for a jump table with the words `ns`: the big-endian bytes of `movedWords …` — the words of the
original program with every label element (and `label ± N`) `+ D` -/
theorem C18_R1_lists_any {fs : Files} {la lb : List Str} {D : Nat} {P : Nat → Prop} {A B : Assembly}
    (hsh : ShiftOrgP D P la lb)
    (hhead : ∃ lab n rest, lab.all isLabelCh = true ∧ n < 65536 ∧ la = orgLine lab n :: rest)
    (stA : Stages fs la A) (stB : Stages fs lb B) :
    ∀ (i : Nat) (s4 t t' : Stmt), stA.ss4[i]? = some s4 → A.stmts[i]? = some t → B.stmts[i]? = some t' →
      t.pkg.additional.isList = true → Unmoved D stA.ss4 s4 → ListsCovered D stA.ss4 stA.t s4 →
      FinalRelL D stA.ss4 stA.t t t' ∧
      t'.pkg.additional = movedList D stA.ss4 stA.t t ∧
      stmtBytes t' = (do
        let a ← emitValue t.pkg.opCode
        let b ← emitValue t.pkg.postByte
        let c ← emitValue (movedList D stA.ss4 stA.t t)
        pure (a ++ b ++ c)) ∧
      ∀ ns : List Nat, (∀ n ∈ ns, n < 65536) → t.pkg.additional = .multiWord (ns.map wordHex) →
        stmtBytes t = (do
          let a ← emitValue t.pkg.opCode
          let b ← emitValue t.pkg.postByte
          pure (a ++ b ++ wordBytes ns)) ∧
        stmtBytes t' = (do
          let a ← emitValue t.pkg.opCode
          let b ← emitValue t.pkg.postByte
          pure (a ++ b ++ wordBytes (movedWords D stA.ss4 stA.t (listElems t.operand.text) ns))) := by
  intro i s4 t t' hs4 ht ht' hl hc hlc
  obtain ⟨lab, n, rest, hl0, hn, hla⟩ := hhead
  obtain ⟨hrel, hinc⟩ := parseLines_shift la lb _ _ hsh.any.pw stA.hparse stB.hparse
  have hr := C18_R1_parsed_lists_any stA.hparse stB.hparse hrel hinc (head_org hl0 hn hla stA.hparse) stA stB
    i s4 t t' hs4 ht ht' hl hc hlc
  exact ⟨hr, (hr.list hl).2, finalRelL_bytes hr hl, fun ns hns hy => finalRelL_words hr hns hy⟩

/-! ## the evaluated witness `tblA` / `tblB` is an instance -/

/-- `ListsCovered`, executable, for the simplest classes: in an FDB list every evaluated element is rejected, a constant or
a plain label (`elemCoveredB`); in an FCB list a constant (`elemConstB`) -/
def listsCoveredB (t : SymTab) (s : Stmt) : Bool :=
  match s.pkg.additional with
  | .multiByte _ => (listElems s.operand.text).all (fun x => !pendingAt 2 x || elemConstB t x)
  | .multiWord _ => (listElems s.operand.text).all (fun x => !pendingAt 4 x || elemCoveredB t x)
  | _ => true

theorem listsCoveredB_sound {D : Nat} {ssA : List Stmt} {t : SymTab} {s : Stmt} (h : listsCoveredB t s = true) :
    ListsCovered D ssA t s := by
  unfold listsCoveredB at h
  constructor
  · intro hs e x hx hp
    rw [e] at h
    have := List.all_eq_true.mp h x hx
    rw [hp] at this
    have hc : ElemConst t x := elemConstB_sound (by simpa using this)
    exact ⟨hc.covered, fun hm => by rw [elemMovesB_const hc] at hm; cases hm⟩
  · intro hs e x hx hp
    rw [e] at h
    have := List.all_eq_true.mp h x hx
    rw [hp] at this
    exact elemCoveredB_sound (by simpa using this)

theorem tbl_shift : ShiftOrgP 0x100 (fun _ => True) tblA tblB :=
  shiftOrgP_single [] 0x1000 tblBody (by decide) trivial (by omega) (by decide)

set_option maxRecDepth 1000000 in
/-- evaluated: every statement of `tblA` that enters `fixAll` is `Unmoved` and its list elements are labels or constants -/
theorem tblA_coveredLists :
    (stage4 tblA).bind (fun as => (stageT tblA).map (fun T => as.all (fun s => unmovedB 0x100 as s && listsCoveredB T s)))
      = some true := by decide

/-- the witness `reloc_list_label_witness` as an instance of `C18_R1_lists_any`: both texts assemble, and every list
statement of the assembly of `tblB` (the jump table `T FDB A,T,K` and the list of constants `C FDB K,K+1,2`) is the
statement of the assembly of `tblA` up to the address and the field, which is `movedList $100 …` -/
theorem tbl_lists_tie : ∃ A B, assemble [] tblA = .ok A ∧ assemble [] tblB = .ok B ∧
    ∀ (stA : Stages [] tblA A) (i : Nat) (s4 t t' : Stmt), stA.ss4[i]? = some s4 → A.stmts[i]? = some t →
      B.stmts[i]? = some t' → t.pkg.additional.isList = true →
      FinalRelL 0x100 stA.ss4 stA.t t t' ∧ t'.pkg.additional = movedList 0x100 stA.ss4 stA.t t := by
  obtain ⟨A, hA, _⟩ := checkProgram_sound tblA_ok []
  obtain ⟨B, hB, _⟩ := checkProgram_sound tblB_ok []
  obtain ⟨stB⟩ := assemble_stages hB
  refine ⟨A, B, hA, hB, ?_⟩
  intro stA i s4 t t' hs4 ht ht' hl
  have hhd : ∃ lab n rest, lab.all isLabelCh = true ∧ n < 65536 ∧ tblA = orgLine lab n :: rest :=
    ⟨[], 0x1000, tblBody, by decide, by omega, rfl⟩
  have hc := tblA_coveredLists
  cases h4 : stage4 tblA with
  | none => rw [h4] at hc; cases hc
  | some x =>
    cases hT : stageT tblA with
    | none => rw [h4, hT] at hc; cases hc
    | some tt =>
      rw [h4, hT] at hc
      simp only [Option.bind_some, Option.map_some, Option.some.injEq] at hc
      have h4e := stage4_eq stA h4
      have hTe := stageT_eq stA hT
      have hs4x : s4 ∈ x := by rw [← h4e]; exact List.mem_of_getElem? hs4
      have := List.all_eq_true.mp hc s4 hs4x
      rw [Bool.and_eq_true] at this
      obtain ⟨c1, c2⟩ := this
      have hu : Unmoved 0x100 stA.ss4 s4 := by rw [h4e]; exact unmovedB_sound c1
      have hlc : ListsCovered 0x100 stA.ss4 stA.t s4 := by rw [hTe]; exact listsCoveredB_sound c2
      obtain ⟨r1, r2, _⟩ := C18_R1_lists_any tbl_shift hhd stA stB i s4 t t' hs4 ht ht' hl hu hlc
      exact ⟨r1, r2⟩

/-! ## axioms -/

#print axioms CoCo.Asm.evalLists_reloc
#print axioms CoCo.Asm.fixAllL_reloc
#print axioms CoCo.Asm.ListsCovered.sameAddr
#print axioms CoCo.Asm.movedList_sameAddr
#print axioms CoCo.Asm.fixAll_listsCovered
#print axioms ListStep.finalRelL
#print axioms reloc_fixAllL_lists
#print axioms reloc_fixAllL_lists'
#print axioms reloc_finish_lists_any
#print axioms finalRelL_bytes
#print axioms finalRelL_words
#print axioms C18_R1_parsed_lists_any
#print axioms C18_R1_lists_any
#print axioms tbl_lists_tie

end CoCo.Props
