/-
Props/C15Host.lean — the last clause of C15 at the level of the host file system:
"a file that needs more granules than are free, or arrives when no slot is free, fails with an error
AND THE HOST FILE IS LEFT AS IT WAS."

Props/C15.lean proves the accounting on images (`Dsk.addFile`). Here the same is said one layer up, in the
VirtualFile / command line model (Model/VirtualFile.lean): `storeTo` (open; add; save), `asmMain`, `utilMain`.

  1. `write_disk_full` …: when a whole `Dsk.write` is a diagnostic (Lemmas/DiskFull.lean, from `C15_full`'s lemmas)
  2. `storeTo_disk_full` …: the disk target cannot hold old files ++ new files ⇒ `storeTo = .diag`, no file system
  3. `asmMain_disk_full`, `utilMain_disk_full` …: what the two command line tools report and leave behind
  4. `storeTo_frame` …: the general frame statement (re-exports of `storeTo_ok` / `C10_partial`)
  5. witnesses: 69 one-byte files; a full disk of 68 files on the host and one more file; through both tools.
     Nothing here evaluates an image: every disk fact comes from the accounting theorems.
-/
import CoCoVerif.Props.C15
import CoCoVerif.Props.C10
import CoCoVerif.Props.C11
import CoCoVerif.Props.C16
import CoCoVerif.Lemmas.DiskFull
import CoCoVerif.Lemmas.VFHist

namespace CoCo.Props
open CoCo CoCo.VF

/-! ### 1. when the disk writer refuses a list of files -/

/-- the fill order of the tool offers every granule -/
theorem completeOrder_default : CompleteOrder Gen.granuleFillOrder := by
  refine ⟨validOrder_default, ?_⟩
  unfold Gen.granuleFillOrder
  decide

/-- **characterisation, sufficient direction** (the corollary asked for): valid files that need more than 68
granules in all, or more than 72 files: `Dsk.write` is a diagnostic -/
theorem write_disk_full (order : List Nat) (fs : List CFile) (hc : CompleteOrder order)
    (hv : ∀ f ∈ fs, ValidDFile f) (h : 68 < (fs.map needs).sum ∨ 72 < fs.length) :
    Dsk.write order fs = .diag :=
  Dsk.write_overflow hc hv h

/-- **characterisation, both directions**: for valid files the write is a diagnostic exactly when the files
overflow the disk, it succeeds exactly when they do not, and there is no third outcome -/
theorem write_disk_full_iff (order : List Nat) (fs : List CFile) (hc : CompleteOrder order)
    (hv : ∀ f ∈ fs, ValidDFile f) :
    (Dsk.write order fs = .diag ↔ (68 < (fs.map needs).sum ∨ 72 < fs.length)) ∧
    ((∃ img, Dsk.write order fs = .ok img) ↔ ((fs.map needs).sum ≤ 68 ∧ fs.length ≤ 72)) ∧
    ((∃ img, Dsk.write order fs = .ok img) ∨ Dsk.write order fs = .diag) :=
  ⟨Dsk.write_diag_iff hc hv, Dsk.write_ok_iff hc hv, Dsk.write_ok_or_diag hc hv⟩

/-- the diagnostic is raised at a definite file: the files before it were stored on an image on which it needs
more granules than are free, or no slot is free — the hypothesis of the last clause of `C15_Statement` -/
theorem write_disk_full_point (order : List Nat) (fs : List CFile) (hc : CompleteOrder order)
    (hv : ∀ f ∈ fs, ValidDFile f) (hd : Dsk.write order fs = .diag) :
    ∃ pre f post img, fs = pre ++ f :: post ∧ Dsk.write order pre = .ok img ∧
      (Spec.DiskBasic.freeGranules img < needs f ∨ Spec.DiskBasic.freeSlots img = 0) ∧
      Dsk.addFile order img f = .diag := by
  obtain ⟨pre, f, post, img, hsplit, hpre, hfull⟩ := Dsk.write_diag_point hc hv hd
  refine ⟨pre, f, post, img, hsplit, hpre, hfull, ?_⟩
  have hvpre : ∀ g ∈ pre, ValidDFile g := fun g hg => hv g (by rw [hsplit]; simp [hg])
  have hvf : ValidDFile f := hv f (by rw [hsplit]; simp)
  exact (C15_full.2 order pre img f hc hvpre hvf hpre).2 hfull

/-- the free counts of a written image -/
theorem write_free_counts (order : List Nat) (fs : List CFile) (img : Bytes) (ho : ValidOrder order)
    (hv : ∀ f ∈ fs, ValidDFile f) (hw : Dsk.write order fs = .ok img) :
    Spec.DiskBasic.freeGranules img + (fs.map needs).sum = 68 ∧ Spec.DiskBasic.freeSlots img + fs.length = 72 :=
  Dsk.write_count ho hv hw

/-- remark: every file takes at least one granule and there are 72 slots for 68 granules, so on an image the tool
wrote at least four directory slots are always free: the "no slot free" refusal is never the first to strike -/
theorem write_slots_free (order : List Nat) (fs : List CFile) (img : Bytes) (ho : ValidOrder order)
    (hv : ∀ f ∈ fs, ValidDFile f) (hw : Dsk.write order fs = .ok img) :
    Spec.DiskBasic.freeGranules img + 4 ≤ Spec.DiskBasic.freeSlots img := by
  have h1 := Dsk.write_count ho hv hw
  have h2 := Dsk.length_le_totalNeeds fs
  unfold Dsk.totalNeeds at h1 h2
  omega

/-! ### 2. `storeTo` on a disk target that cannot hold the files -/

/-- opening with a requested kind: the virtual file has that kind and that path -/
theorem openVF_requested {fs : FS} {p : Path} {k : Kind} {v : VFile} (h : openVF fs p (some k) = .ok v) :
    v.path = p ∧ v.kind = some k := by
  unfold openVF at h
  cases hg : fs.get? p with
  | none =>
    simp only [hg] at h
    cases h
    exact ⟨rfl, rfl⟩
  | some buf =>
    simp only [hg] at h
    cases hs : sniff buf with
    | ok r =>
      obtain ⟨files, k'⟩ := r
      simp only [hs] at h
      by_cases hk : k ≠ k'
      · simp [hk] at h
      · have hk' : k = k' := by simpa using hk
        subst hk'
        simp only [ne_eq, not_true_eq_false, if_false] at h
        cases h
        exact ⟨rfl, rfl⟩
    | diag => simp [hs] at h
    | internal => simp [hs] at h
    | diverged => simp [hs] at h

/-- opening depends on the host file system only through the content of the path -/
theorem openVF_congr {fs fs' : FS} {p : Path} (r : Option Kind) (h : fs'.get? p = fs.get? p) :
    openVF fs' p r = openVF fs p r := by
  unfold openVF
  rw [h]

/-- `storeTo` once the target has opened: save the old files followed by the new ones -/
theorem storeTo_of_open {fs : FS} {p : Path} {k : Kind} {v : VFile} (files : List CFile) (ap : Bool)
    (ho : openVF fs p (some k) = .ok v) :
    storeTo fs p k files ap = saveVF fs { v with files := v.files ++ files } ap := by
  unfold storeTo
  simp only [ho]
  rw [foldl_addCoco]

/-- the outcome of `storeTo` in terms of the image builder -/
theorem storeTo_eq {fs : FS} {p : Path} {k : Kind} {v : VFile} (files : List CFile) (ap : Bool)
    (ho : openVF fs p (some k) = .ok v) :
    storeTo fs p k files ap =
      (match buildImage k (v.files ++ files) with
       | .ok img => if v.exists_ && !ap then .diag else .ok (fs.set p img)
       | .diag => .diag
       | .internal => .internal
       | .diverged => .diverged) := by
  obtain ⟨hp, hk⟩ := openVF_requested ho
  rw [storeTo_of_open files ap ho]
  unfold saveVF
  simp only [hk, hp]
  cases buildImage k (v.files ++ files) <;> rfl

/-- **`storeTo_disk_full`**: the disk target opens, and its files followed by the new ones do not fit:
`storeTo` is a diagnostic (VirtualFileValidationError) — and a diagnostic carries no new file system -/
theorem storeTo_disk_full (fs : FS) (p : Path) (v : VFile) (newFiles : List CFile) (append : Bool)
    (ho : openVF fs p (some .disk) = .ok v)
    (hw : Dsk.write Gen.granuleFillOrder (v.files ++ newFiles) = .diag) :
    storeTo fs p .disk newFiles append = .diag := by
  rw [storeTo_eq newFiles append ho]
  simp only [buildImage, hw]

/-- the same for any failure of the disk writer (e.g. a file above 65535 bytes: an uncaught exception of the
library, caught by both tools): no file system comes back -/
theorem storeTo_disk_not_ok (fs : FS) (p : Path) (v : VFile) (newFiles : List CFile) (append : Bool)
    (ho : openVF fs p (some .disk) = .ok v)
    (hw : ∀ img, Dsk.write Gen.granuleFillOrder (v.files ++ newFiles) ≠ .ok img) :
    ∀ fs', storeTo fs p .disk newFiles append ≠ .ok fs' := by
  intro fs' h
  rw [storeTo_eq newFiles append ho] at h
  simp only [buildImage] at h
  cases hb : Dsk.write Gen.granuleFillOrder (v.files ++ newFiles) with
  | ok img => exact hw img hb
  | diag => rw [hb] at h; cases h
  | internal => rw [hb] at h; cases h
  | diverged => rw [hb] at h; cases h

/-- with the characterisation: the files (old and new, valid) need more than 68 granules or are more than 72 -/
theorem storeTo_disk_overflow (fs : FS) (p : Path) (v : VFile) (newFiles : List CFile) (append : Bool)
    (ho : openVF fs p (some .disk) = .ok v) (hv : ∀ f ∈ v.files ++ newFiles, ValidDFile f)
    (h : 68 < ((v.files ++ newFiles).map needs).sum ∨ 72 < (v.files ++ newFiles).length) :
    storeTo fs p .disk newFiles append = .diag :=
  storeTo_disk_full fs p v newFiles append ho (write_disk_full _ _ completeOrder_default hv h)

/-- the host file system after an attempt: the new one when it succeeded, the one before otherwise — a refusal
(`diag`, `internal`, `diverged`) carries no file system, so there is nothing else it could be -/
def hostAfter (fs : FS) (o : Outcome FS) : FS :=
  match o with
  | .ok fs' => fs'
  | _ => fs

theorem hostAfter_not_ok {fs : FS} {o : Outcome FS} (h : ∀ fs', o ≠ .ok fs') : hostAfter fs o = fs := by
  cases o with
  | ok fs' => exact absurd rfl (h fs')
  | diag => rfl
  | internal => rfl
  | diverged => rfl

/-- the host is untouched when the disk is full (explicit form of "`.diag` carries no file system") -/
theorem storeTo_disk_full_host (fs : FS) (p : Path) (v : VFile) (newFiles : List CFile) (append : Bool)
    (ho : openVF fs p (some .disk) = .ok v)
    (hw : Dsk.write Gen.granuleFillOrder (v.files ++ newFiles) = .diag) :
    hostAfter fs (storeTo fs p .disk newFiles append) = fs := by
  rw [storeTo_disk_full fs p v newFiles append ho hw]
  rfl

/-- opening a host file that holds an image the tool wrote -/
theorem openVF_written (fs : FS) (p : Path) (done : List CFile) (img : Bytes)
    (hg : fs.get? p = some img) (hwd : Dsk.write Gen.granuleFillOrder done = .ok img)
    (hv : ∀ f ∈ done, ValidDFile f) :
    openVF fs p (some .disk) = .ok { path := p, kind := some .disk, files := done.map Dsk.norm, exists_ := true } := by
  unfold openVF
  simp only [hg, sniff_dsk_write validOrder_default hv hwd]
  simp

/-- **C15, last clause, on the host**: `p` holds a disk image the tool wrote from `done`, with `F` free granules;
the new files need more than `F` granules (or are more than the free slots): the save is refused with a diagnostic,
whatever the append flag, and the host file system — in particular the image at `p` — is as it was -/
theorem storeTo_disk_full_written (fs : FS) (p : Path) (done newFiles : List CFile) (img : Bytes) (append : Bool)
    (hg : fs.get? p = some img) (hwd : Dsk.write Gen.granuleFillOrder done = .ok img)
    (hok : DskOK done) (hvn : ∀ f ∈ newFiles, ValidDFile f)
    (hfull : Spec.DiskBasic.freeGranules img < (newFiles.map needs).sum ∨
             Spec.DiskBasic.freeSlots img < newFiles.length) :
    storeTo fs p .disk newFiles append = .diag ∧
    hostAfter fs (storeTo fs p .disk newFiles append) = fs := by
  have ho := openVF_written fs p done img hg hwd hok.1
  have hcnt := Dsk.write_count validOrder_default hok.1 hwd
  have hv : ∀ f ∈ done ++ newFiles, ValidDFile f := by
    intro f hf
    rcases List.mem_append.mp hf with h | h
    · exact hok.1 f h
    · exact hvn f h
  have hw : Dsk.write Gen.granuleFillOrder (done.map Dsk.norm ++ newFiles) = .diag := by
    rw [write_norm_append_dsk _ _ _ hok.2]
    apply Dsk.write_overflow completeOrder_default hv
    rw [Dsk.totalNeeds_append, List.length_append]
    unfold Dsk.totalNeeds at hcnt ⊢
    omega
  have hd := storeTo_disk_full fs p _ newFiles append ho hw
  exact ⟨hd, by rw [hd]; rfl⟩

/-! ### 4. the general frame statement

Already present as `storeTo_ok` (Lemmas/VirtualFile.lean) and `C10_partial` (first conjunct); re-exported here
in the form asked for. -/

/-- a successful `storeTo` changes no path but its target (= `(storeTo_ok h).1`, = `(C10_partial …).1`) -/
theorem storeTo_frame_ok (fs fs' : FS) (p : Path) (k : Kind) (files : List CFile) (append : Bool)
    (h : storeTo fs p k files append = .ok fs') : ∀ q, q ≠ p → fs'.get? q = fs.get? q :=
  (storeTo_ok h).1

/-- whatever the outcome, no path but the target changes; and without success nothing at all is written -/
theorem storeTo_frame (fs : FS) (p : Path) (k : Kind) (files : List CFile) (append : Bool) :
    (∀ q, q ≠ p → (hostAfter fs (storeTo fs p k files append)).get? q = fs.get? q) ∧
    ((∀ fs', storeTo fs p k files append ≠ .ok fs') → hostAfter fs (storeTo fs p k files append) = fs) := by
  refine ⟨fun q hq => ?_, hostAfter_not_ok⟩
  cases hs : storeTo fs p k files append with
  | ok fs' => exact (storeTo_ok hs).1 q hq
  | diag => rfl
  | internal => rfl
  | diverged => rfl

/-- an existing target is left as it was unless append was asked for (= `C10_no_append`) -/
theorem storeTo_existing_no_append (fs : FS) (p : Path) (k : Kind) (files : List CFile) (old : Bytes)
    (hold : fs.get? p = some old) : hostAfter fs (storeTo fs p k files false) = fs :=
  hostAfter_not_ok (fun fs' h => C10_no_append fs p k files old hold ⟨fs', h⟩)

/-! ### 3a. `assembler.main` -/

/-- a save step of `asmMain` that is refused: the file system stays, the kind is reported -/
theorem asmStep_refused (cf : CFile) (ap : Bool) (st : FS × List Kind) (p : Path) (k : Kind)
    (h : ∀ fs', storeTo st.1 p k [cf] ap ≠ .ok fs') : asmStep cf ap st (some p) k = (st.1, st.2 ++ [k]) := by
  cases hs : storeTo st.1 p k [cf] ap with
  | ok fs' => exact absurd hs (h fs')
  | diag => simp only [asmStep, hs]
  | internal => simp only [asmStep, hs]
  | diverged => simp only [asmStep, hs]

/-- **`asmMain` with a disk target the writer refuses** (general form). The program assembles, has a name (else the
disk step is not even tried), `--to_dsk p` with `p` not also the binary or cassette target; `p` opens as a disk (or
does not exist) and the writer does not accept its files followed by the new one. Then: the tool prints
"Unable to save …" for the disk (`refused` ends in `.disk`), goes on, EXITS WITH STATUS 0, and the result is in
every other respect the result of the same run without `--to_dsk`; `p` is as it was. -/
theorem asmMain_disk_refused (fs : FS) (incl : Asm.Files) (lines : List (List Char)) (args : AsmArgs)
    (a : Asm.Assembly) (cf : CFile) (p : Path) (v : VFile)
    (ha : Asm.assemble incl lines = .ok a) (hc : cocoOfAssembly a args.name = some cf) (hname : cf.name ≠ [])
    (hd : args.toDsk = some p) (hb : args.toBin ≠ some p) (hcas : args.toCas ≠ some p)
    (ho : openVF fs p (some .disk) = .ok v)
    (hw : ∀ img, Dsk.write Gen.granuleFillOrder (v.files ++ [cf]) ≠ .ok img) :
    let r := asmMain fs incl lines args
    let r0 := asmMain fs incl lines { args with toDsk := none }
    r.exit = 0 ∧ r.refused = r0.refused ++ [.disk] ∧ r.fs = r0.fs ∧ r.fs.get? p = fs.get? p := by
  intro r r0
  have hne := name_isEmpty_false hname
  let s1 := asmStep cf args.append (fs, []) args.toBin .binary
  let s2 := asmStep cf args.append s1 args.toCas .cassette
  have hget : s2.1.get? p = fs.get? p := by
    show (asmStep cf args.append s1 args.toCas .cassette).1.get? p = _
    rw [asmStep_frame cf args.append s1 args.toCas .cassette p hcas]
    exact asmStep_frame cf args.append (fs, []) args.toBin .binary p hb
  have ho2 : openVF s2.1 p (some .disk) = .ok v := by rw [openVF_congr _ hget]; exact ho
  have hstep : asmStep cf args.append s2 (some p) .disk = (s2.1, s2.2 ++ [.disk]) :=
    asmStep_refused cf args.append s2 p .disk (storeTo_disk_not_ok s2.1 p v [cf] args.append ho2 hw)
  have hr : r = { exit := 0, fs := s2.1, refused := s2.2 ++ [.disk] } := by
    show asmMain fs incl lines args = _
    rw [asmMain_ok ha hc]
    simp only [hne, Bool.and_false, Bool.false_eq_true, if_false, hd]
    rw [hstep]
  have hr0 : r0 = { exit := 0, fs := s2.1, refused := s2.2 } := by
    show asmMain fs incl lines { args with toDsk := none } = _
    rw [asmMain_ok (args := { args with toDsk := none }) ha hc]
    simp only [hne, Bool.and_false, Bool.false_eq_true, if_false, asmStep_none]
    rfl
  rw [hr, hr0]
  exact ⟨rfl, rfl, rfl, hget⟩

/-- **`asmMain_disk_full`**: the disk at `p` cannot hold the assembled file as well (`Dsk.write … = .diag`):
exit status 0, `.disk` is listed in `refused`, and the host file at `p` is as it was; the other targets are
served as if `--to_dsk` had not been given -/
theorem asmMain_disk_full (fs : FS) (incl : Asm.Files) (lines : List (List Char)) (args : AsmArgs)
    (a : Asm.Assembly) (cf : CFile) (p : Path) (v : VFile)
    (ha : Asm.assemble incl lines = .ok a) (hc : cocoOfAssembly a args.name = some cf) (hname : cf.name ≠ [])
    (hd : args.toDsk = some p) (hb : args.toBin ≠ some p) (hcas : args.toCas ≠ some p)
    (ho : openVF fs p (some .disk) = .ok v)
    (hw : Dsk.write Gen.granuleFillOrder (v.files ++ [cf]) = .diag) :
    let r := asmMain fs incl lines args
    r.exit = 0 ∧ .disk ∈ r.refused ∧ r.fs.get? p = fs.get? p ∧
    r.refused = (asmMain fs incl lines { args with toDsk := none }).refused ++ [.disk] ∧
    r.fs = (asmMain fs incl lines { args with toDsk := none }).fs := by
  intro r
  obtain ⟨h1, h2, h3, h4⟩ := asmMain_disk_refused fs incl lines args a cf p v ha hc hname hd hb hcas ho
    (fun img h => by rw [hw] at h; cases h)
  refine ⟨h1, ?_, h4, h2, h3⟩
  show Kind.disk ∈ (asmMain fs incl lines args).refused
  rw [h2]
  simp

/-- `--to_dsk` alone: the whole host file system is as it was -/
theorem asmMain_disk_full_only (fs : FS) (incl : Asm.Files) (lines : List (List Char)) (args : AsmArgs)
    (a : Asm.Assembly) (cf : CFile) (p : Path) (v : VFile)
    (ha : Asm.assemble incl lines = .ok a) (hc : cocoOfAssembly a args.name = some cf) (hname : cf.name ≠ [])
    (hd : args.toDsk = some p) (hb : args.toBin = none) (hcas : args.toCas = none)
    (ho : openVF fs p (some .disk) = .ok v)
    (hw : Dsk.write Gen.granuleFillOrder (v.files ++ [cf]) = .diag) :
    let r := asmMain fs incl lines args
    r.exit = 0 ∧ r.refused = [.disk] ∧ r.fs = fs := by
  intro r
  obtain ⟨h1, h2, h3, _⟩ := asmMain_disk_refused fs incl lines args a cf p v ha hc hname hd
    (by rw [hb]; simp) (by rw [hcas]; simp) ho (fun img h => by rw [hw] at h; cases h)
  have hr0 : asmMain fs incl lines { args with toDsk := none } = { exit := 0, fs := fs, refused := [] } := by
    rw [asmMain_ok (args := { args with toDsk := none }) ha hc]
    simp only [hb, hcas, asmStep_none]
    simp
  rw [hr0] at h2 h3
  exact ⟨h1, h2, h3⟩

/-! ### 3b. `file_util.main` -/

/-- the shape of a run of `utilMain` whose source opens (as `utilMain_ok`, from `openVF` itself: it also
covers a source path that does not exist) -/
theorem utilMain_open {fs : FS} {args : UtilArgs} {src : VFile} (hs : openVF fs args.host none = .ok src) :
    utilMain fs args =
      (let sel := src.files.filter (selected args.files)
       let s1 := utilConv sel args.append (.ok fs) args.toCas .cassette
       let s2 := utilConv sel args.append s1 args.toDsk .disk
       let s3 := utilBin src.files args.files args.append s2 args.toBin
       utilFinish fs s1 s2 s3) := by
  unfold utilMain
  simp only [hs]
  rfl

theorem utilBin_diag (files : List CFile) (sa : Option (List (List Char))) (ap : Bool) (t : Option Path) :
    utilBin files sa ap .diag t = .diag := by
  cases t <;> rfl

/-- **`utilMain_disk_full`**: `--to_dsk p` (no `--to_cas`) when the disk at `p` cannot hold the selected files as
well: the conversion fails, the chain stops there (`--to_bin` is not attempted), exit status 1, and the host file
system is as it was -/
theorem utilMain_disk_full (fs : FS) (args : UtilArgs) (src v : VFile) (p : Path)
    (hs : openVF fs args.host none = .ok src) (hc : args.toCas = none) (hd : args.toDsk = some p)
    (ho : openVF fs p (some .disk) = .ok v)
    (hw : Dsk.write Gen.granuleFillOrder (v.files ++ src.files.filter (selected args.files)) = .diag) :
    utilMain fs args = { exit := 1, fs := fs } := by
  rw [utilMain_open hs]
  simp only [hc, hd, utilConv_none]
  simp only [utilConv, storeTo_disk_full fs p v _ args.append ho hw, utilBin_diag]
  rfl

/-- the form asked for: exit status 1 and `r.fs = fs` -/
theorem utilMain_disk_full' (fs : FS) (args : UtilArgs) (src v : VFile) (p : Path)
    (hs : openVF fs args.host none = .ok src) (hc : args.toCas = none) (hd : args.toDsk = some p)
    (ho : openVF fs p (some .disk) = .ok v)
    (hw : Dsk.write Gen.granuleFillOrder (v.files ++ src.files.filter (selected args.files)) = .diag) :
    (utilMain fs args).exit = 1 ∧ (utilMain fs args).fs = fs ∧ (utilMain fs args).refused = [] := by
  rw [utilMain_disk_full fs args src v p hs hc hd ho hw]
  exact ⟨rfl, rfl, rfl⟩

/-- with `--to_cas c` before it (`c ≠ p`): the cassette step keeps its effect ("a failing step leaves the effects
of the earlier steps in place"), the disk step fails, exit status 1, and the disk at `p` — like every path but
`c` — is as it was -/
theorem utilMain_disk_full_after_cas (fs : FS) (args : UtilArgs) (src v : VFile) (c p : Path)
    (hs : openVF fs args.host none = .ok src) (hc : args.toCas = some c) (hne : p ≠ c) (hd : args.toDsk = some p)
    (ho : openVF fs p (some .disk) = .ok v)
    (hw : Dsk.write Gen.granuleFillOrder (v.files ++ src.files.filter (selected args.files)) = .diag) :
    let r := utilMain fs args
    r.exit = 1 ∧
    r.fs = hostAfter fs (storeTo fs c .cassette (src.files.filter (selected args.files)) args.append) ∧
    r.fs.get? p = fs.get? p ∧ (∀ q, q ≠ c → r.fs.get? q = fs.get? q) := by
  intro r
  have hr : r = utilMain fs args := rfl
  rw [utilMain_open hs] at hr
  simp only [hc, hd] at hr
  have hframe := (storeTo_frame fs c .cassette (src.files.filter (selected args.files)) args.append).1
  cases hst : storeTo fs c .cassette (src.files.filter (selected args.files)) args.append with
  | ok fs1 =>
    have hget : fs1.get? p = fs.get? p := (storeTo_ok hst).1 p hne
    have ho1 : openVF fs1 p (some .disk) = .ok v := by rw [openVF_congr _ hget]; exact ho
    have hd1 := storeTo_disk_full fs1 p v _ args.append ho1 hw
    simp only [utilConv, hst, hd1, utilBin_diag] at hr
    rw [hr]
    rw [hst] at hframe
    exact ⟨rfl, rfl, hframe p hne, hframe⟩
  | diag =>
    simp only [utilConv, hst, utilBin_diag] at hr
    rw [hr]
    exact ⟨rfl, rfl, rfl, fun _ _ => rfl⟩
  | internal =>
    simp only [utilConv, hst] at hr
    rw [hr]
    refine ⟨?_, ?_, ?_, ?_⟩ <;> cases args.toBin <;> first | rfl | exact fun _ _ => rfl
  | diverged =>
    simp only [utilConv, hst] at hr
    rw [hr]
    refine ⟨?_, ?_, ?_, ?_⟩ <;> cases args.toBin <;> first | rfl | exact fun _ _ => rfl

/-! ### 5. witnesses (no image is evaluated: the disk facts come from the accounting theorems) -/

/-- a one-byte machine language file `A.BIN`: stored stream of 11 bytes, one granule -/
def oneByte : CFile :=
  { name := [65], ext := [66, 73, 78], ftype := 2, dtype := 0, gaps := 0, load := 0, exec := 0, data := [0] }

theorem oneByte_valid : ValidDFile oneByte := by simp [ValidDFile, oneByte]

theorem oneByte_noSpace : NoSpace oneByte := by simp [NoSpace, oneByte]

theorem oneByte_needs : needs oneByte = 1 := by decide

/-- `n` copies of the one-byte file -/
def copies (n : Nat) : List CFile := List.replicate n oneByte

theorem copies_valid (n : Nat) : ∀ f ∈ copies n, ValidDFile f := by
  intro f hf
  rw [(List.mem_replicate.mp hf).2]
  exact oneByte_valid

theorem copies_ok (n : Nat) : DskOK (copies n) := by
  refine ⟨copies_valid n, ?_⟩
  intro f hf
  rw [(List.mem_replicate.mp hf).2]
  exact oneByte_noSpace

theorem copies_needs (n : Nat) : ((copies n).map needs).sum = n := by
  have := Dsk.totalNeeds_replicate n oneByte
  rw [oneByte_needs, Nat.mul_one] at this
  exact this

/-- **69 one-byte files need 69 granules > 68**: the write is a diagnostic — from the accounting theorem,
not by evaluation -/
theorem fs69_diag : Dsk.write Gen.granuleFillOrder (copies 69) = .diag :=
  write_disk_full _ _ completeOrder_default (copies_valid 69) (Or.inl (by rw [copies_needs]; omega))

/-- … it is raised at the 69th file, on an image with no free granule (and four free slots) -/
theorem fs69_point : ∃ img, Dsk.write Gen.granuleFillOrder (copies 68) = .ok img ∧
    Spec.DiskBasic.freeGranules img = 0 ∧ Spec.DiskBasic.freeSlots img = 4 ∧
    Dsk.addFile Gen.granuleFillOrder img oneByte = .diag := by
  obtain ⟨img, hw⟩ := Dsk.write_fits completeOrder_default (copies_valid 68)
    (by show ((copies 68).map needs).sum ≤ 68; rw [copies_needs]; omega) (by simp [copies])
  have hcnt := write_free_counts _ _ _ validOrder_default (copies_valid 68) hw
  rw [copies_needs] at hcnt
  have hlen : (copies 68).length = 68 := by simp [copies]
  rw [hlen] at hcnt
  have hg : Spec.DiskBasic.freeGranules img = 0 := by omega
  refine ⟨img, hw, hg, by omega, ?_⟩
  apply (C15_full.2 _ (copies 68) img oneByte completeOrder_default (copies_valid 68) oneByte_valid hw).2
  left
  rw [hg, oneByte_needs]
  omega

/-- a fresh target and 69 files: refused, for every host file system -/
theorem witness_fresh (fs : FS) (p : Path) (append : Bool) (hf : fs.get? p = none) :
    storeTo fs p .disk (copies 69) append = .diag ∧ hostAfter fs (storeTo fs p .disk (copies 69) append) = fs := by
  have ho : openVF fs p (some .disk) = .ok { path := p, kind := some .disk } := by
    unfold openVF; simp only [hf]
  have hd := storeTo_disk_full fs p _ (copies 69) append ho (by simpa using fs69_diag)
  exact ⟨hd, by rw [hd]; rfl⟩

/-- **a full disk on the host** (68 files, no free granule) **and one more file**: refused, and the host file
system — the full disk included — is as it was. For every host file system holding that image at `p`. -/
theorem witness_full_disk : ∃ img, Dsk.write Gen.granuleFillOrder (copies 68) = .ok img ∧
    ∀ (fs : FS) (p : Path) (append : Bool), fs.get? p = some img →
      storeTo fs p .disk [oneByte] append = .diag ∧
      hostAfter fs (storeTo fs p .disk [oneByte] append) = fs := by
  obtain ⟨img, hw, hg, _, _⟩ := fs69_point
  refine ⟨img, hw, fun fs p append hget => ?_⟩
  apply storeTo_disk_full_written fs p (copies 68) [oneByte] img append hget hw (copies_ok 68)
  · intro f hf
    rw [List.mem_singleton.mp hf]
    exact oneByte_valid
  · left
    rw [hg]
    simp [oneByte_needs]

/-- the same through `assembler.main`: the demo program of C11 (`NAM hello`, three bytes), `--to_dsk p --append`
on the full disk: exit status 0, the refusal of the disk is reported, nothing is written -/
theorem witness_asmMain : ∃ img, Dsk.write Gen.granuleFillOrder (copies 68) = .ok img ∧
    ∀ (fs : FS) (p : Path) (append : Bool), fs.get? p = some img →
      let r := asmMain fs [] demoSrc { toDsk := some p, append := append }
      r.exit = 0 ∧ r.refused = [.disk] ∧ r.fs = fs := by
  obtain ⟨img, hw, hg, _, _⟩ := fs69_point
  refine ⟨img, hw, fun fs p append hget => ?_⟩
  obtain ⟨a, ha, hi, horg, hn⟩ := demo_accepted
  have hc := coco_of_image (nm := none) hi
  have hnm : (asmFile a none [0x86, 0x01, 0x39]).name ≠ [] := asmFile_name_ne (by rw [hn]; decide)
  have hvalid : ValidDFile (asmFile a none [0x86, 0x01, 0x39]) :=
    asmFile_dvalid (by rw [hn]; unfold AsciiStr; decide) (by decide) (by omega) (by decide)
  have ho := openVF_written fs p (copies 68) img hget hw (copies_valid 68)
  have hcnt := Dsk.write_count validOrder_default (copies_valid 68) hw
  have hwd : Dsk.write Gen.granuleFillOrder ((copies 68).map Dsk.norm ++ [asmFile a none [0x86, 0x01, 0x39]]) = .diag := by
    rw [write_norm_append_dsk _ _ _ (copies_ok 68).2]
    apply Dsk.write_overflow completeOrder_default
    · intro f hf
      rcases List.mem_append.mp hf with h | h
      · exact copies_valid 68 f h
      · rw [List.mem_singleton.mp h]; exact hvalid
    · left
      rw [Dsk.totalNeeds_append, Dsk.totalNeeds_cons, Dsk.totalNeeds_nil]
      have := Dsk.needs_pos (asmFile a none [0x86, 0x01, 0x39])
      omega
  exact asmMain_disk_full_only fs [] demoSrc { toDsk := some p, append := append } a _ p _ ha hc hnm rfl rfl rfl
    ho hwd

/-- … and through `file_util.main`: source a full disk at `h`, `--to_dsk p` where `p` holds a full disk too
(`h = p` allowed): exit status 1, nothing is written -/
theorem witness_utilMain : ∃ img, Dsk.write Gen.granuleFillOrder (copies 68) = .ok img ∧
    ∀ (fs : FS) (h p : Path) (append : Bool), fs.get? h = some img → fs.get? p = some img →
      utilMain fs { host := h, toDsk := some p, append := append } = { exit := 1, fs := fs } := by
  obtain ⟨img, hw, hg, _, _⟩ := fs69_point
  refine ⟨img, hw, fun fs h p append hh hp => ?_⟩
  have hsn := sniff_dsk_write validOrder_default (copies_valid 68) hw
  have hs : openVF fs h none =
      .ok { path := h, kind := some .disk, files := (copies 68).map Dsk.norm, exists_ := true } := by
    unfold openVF
    simp only [hh, hsn]
  have ho := openVF_written fs p (copies 68) img hp hw (copies_valid 68)
  apply utilMain_disk_full fs { host := h, toDsk := some p, append := append } _ _ p hs rfl rfl ho
  show Dsk.write Gen.granuleFillOrder ((copies 68).map Dsk.norm ++
    ((copies 68).map Dsk.norm).filter (selected none)) = .diag
  rw [filter_selected_none, write_norm_append_dsk _ _ _ (copies_ok 68).2]
  have hvn : ∀ f ∈ (copies 68).map Dsk.norm, ValidDFile f ∧ 1 ≤ needs f := by
    intro f hf
    obtain ⟨g, hg', rfl⟩ := List.mem_map.mp hf
    rw [(List.mem_replicate.mp hg').2]
    exact ⟨by simp [ValidDFile, Dsk.norm, oneByte, Dsk.padUpper, Dsk.upper, Dsk.kindOf], Dsk.needs_pos _⟩
  apply Dsk.write_overflow completeOrder_default
  · intro f hf
    rcases List.mem_append.mp hf with h1 | h1
    · exact copies_valid 68 f h1
    · exact (hvn f h1).1
  · right
    simp [copies]

end CoCo.Props

#print axioms CoCo.Props.write_disk_full
#print axioms CoCo.Props.write_disk_full_iff
#print axioms CoCo.Props.write_disk_full_point
#print axioms CoCo.Props.write_slots_free
#print axioms CoCo.Props.storeTo_disk_full
#print axioms CoCo.Props.storeTo_disk_not_ok
#print axioms CoCo.Props.storeTo_disk_overflow
#print axioms CoCo.Props.storeTo_disk_full_host
#print axioms CoCo.Props.storeTo_disk_full_written
#print axioms CoCo.Props.storeTo_frame_ok
#print axioms CoCo.Props.storeTo_frame
#print axioms CoCo.Props.storeTo_existing_no_append
#print axioms CoCo.Props.asmMain_disk_refused
#print axioms CoCo.Props.asmMain_disk_full
#print axioms CoCo.Props.asmMain_disk_full_only
#print axioms CoCo.Props.utilMain_disk_full
#print axioms CoCo.Props.utilMain_disk_full'
#print axioms CoCo.Props.utilMain_disk_full_after_cas
#print axioms CoCo.Props.fs69_diag
#print axioms CoCo.Props.fs69_point
#print axioms CoCo.Props.witness_fresh
#print axioms CoCo.Props.witness_full_disk
#print axioms CoCo.Props.witness_asmMain
#print axioms CoCo.Props.witness_utilMain
