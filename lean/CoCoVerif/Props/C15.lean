/-
Props/C15.lean — space accounting is exact on every image reachable from the blank one.
-/
import CoCoVerif.Props.DiskDefs
import CoCoVerif.Lemmas.DiskSpace

namespace CoCo.Props
open CoCo CoCo.Dsk

theorem C15_full : C15_Statement := by
  refine ⟨⟨freeGranules_blank, freeSlots_blank⟩, ?_⟩
  intro order fs img f hc hvs hv hres
  obtain ⟨abs, hinv, _⟩ := Inv.write hc.1 hvs hres
  exact ⟨fun h => hinv.addFile_fits hc.1 hc.2 hv h.1 h.2, fun h => hinv.addFile_full hc.1 hv h⟩

end CoCo.Props
