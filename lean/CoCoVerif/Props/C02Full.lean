/-
Props/C02Full.lean — C02 at full strength, after batch 5 (fix f9c374f, finding B1: an ORG must come before the first label
and the first byte of the program).

The old `C02_Statement` (Props/C02.lean) contains the clause "an ORG is the statement of index 0".  That is stronger than
the property: an ORG after lines that lay nothing (EQU, NAM) is fine and accepted (`C02_Statement_too_strong`).  What the
property needs is that the image, loaded at the origin the tool reports, puts every byte at the address the listing
shows.  This file states that (`Placement`, `C02_Statement_v2`) and proves it for every accepted program:

* `C02_placement` — `Placement a`: from `C02_offset` with `k :=` the index of the last ORG (0 when there is none),
  `no_org_after_laid` / `Stages.org_before` (Lemmas/OrgFirst.lean) and `assemble_origin` (`a.origin` is the address of
  the last ORG).
* `C02_labels` — a label of an ordinary statement is bound to the statement's address; labels are unique.
* `C02_equ` — every EQU label is bound to its defined value (`EquDefined`): the operand value itself, or the value of the
  expression — `resolve` against the label table `t` (`LabelTable a t`), then `calculate_address_offset` on the final
  addresses for a label expression.  The side conditions of `SymbolsBound … PseudoValueHyp` (pseudo operand, not a
  statement index) are PROVED here, not assumed.
* `C02_v2_of_size` — all clauses of `C02_Statement_v2` for one accepted program, from the byte-count clause `hsz`
  (`C02_bytes_eq_size` of Props/C02Size.lean, which this file cannot import yet); `C02_full_v2_of_size` the same for all
  programs; the final corollary `C02_full_v2` is in a comment at the end.
-/
import CoCoVerif.Lemmas.OrgFirst
import CoCoVerif.Props.C02

namespace CoCo.Props
open CoCo CoCo.Asm

/-! ### the old statement is too strong -/

/-- an ORG after an EQU -/
def C02_orgSecondWitness : List Str := ["C1 EQU 5\n", " ORG $100\n", " NOP\n"].map String.toList

private def orgSecondCheck (a : Assembly) : Bool :=
  match a.stmts[1]? with
  | some s => s.row.mnemonic == "ORG"
  | none => false

/-- `C1 EQU 5 / ORG $100 / NOP` is accepted and its ORG is the statement of index 1 -/
theorem C02_org_second_accepted (fs : Files) :
    ∃ a s, assemble fs C02_orgSecondWitness = .ok a ∧ a.stmts[1]? = some s ∧ s.row.mnemonic = "ORG" := by
  obtain ⟨a, ha, hc⟩ := checkProgram_sound (lines := C02_orgSecondWitness) (check := orgSecondCheck)
    (by decide +kernel) fs
  unfold orgSecondCheck at hc
  split at hc
  · rename_i s hs
    exact ⟨a, s, ha, hs, by simpa using hc⟩
  · cases hc

/-- **`C02_Statement` is too strong**: its clause "an ORG is the statement of index 0" fails on
`C1 EQU 5 / ORG $100 / NOP`, which is accepted (and rightly so: the EQU lays nothing) -/
theorem C02_Statement_too_strong : ¬ C02_Statement := by
  intro H
  obtain ⟨a, s, ha, hs, hm⟩ := C02_org_second_accepted []
  obtain ⟨_, _, _, _, horg, _⟩ := H [] _ a ha
  have := horg 1 s hs hm
  omega

/-! ### the statement -/

/-- the origin the tool reports: the address of the last ORG, 0 when there is none -/
def originNat (a : Assembly) : Nat := (a.origin.int?).getD 0

/-- loading the image at the reported origin places each statement's bytes at the address the listing shows -/
def Placement (a : Assembly) : Prop :=
  ∀ img, a.image = some img → ∀ (i : Nat) (s : Stmt) (b : Bytes), a.stmts[i]? = some s → stmtBytes s = some b → b ≠ [] →
    ∃ pre post ai, img = pre ++ b ++ post ∧ addrNat s = some ai ∧ pre.length + originNat a = ai

/-- labels: a label of an ordinary statement (not an EQU) is bound to that statement's address; labels are unique -/
def LabelsBound (a : Assembly) : Prop :=
  (∀ (i : Nat) (s : Stmt), a.stmts[i]? = some s → s.label.isEmpty = false → s.row.isPseudoDefine = false →
      a.symtab.get? s.label = some s.pkg.address) ∧
  (∀ (i j : Nat) (s t : Stmt), a.stmts[i]? = some s → a.stmts[j]? = some t → s.label.isEmpty = false →
      s.label = t.label → i = j)

/-- the table of labels that expressions are evaluated against (`save_symbol`): the label of an ordinary statement stands
for that statement (its index; the address is filled in at the end), the label of an EQU for the operand value as
written; there are no other keys -/
def LabelTable (a : Assembly) (t : SymTab) : Prop :=
  (∀ (i : Nat) (s : Stmt), a.stmts[i]? = some s → s.label.isEmpty = false →
      t.get? s.label = some (if s.row.isPseudoDefine then s.operand.value else .address i .none)) ∧
  (∀ (k : Str) (v : Value), t.get? k = some v → ∃ (i : Nat) (s : Stmt), a.stmts[i]? = some s ∧ s.label.isEmpty = false ∧ s.label = k)

/-- every EQU symbol has its defined value: the operand value itself, or, for an EQU defined by an expression, the value
of the expression (of constants: `resolve`; of labels: `addrOffset` on the final addresses) -/
def EquDefined (t : SymTab) (ss : List Stmt) (v v' : Value) : Prop :=
  (v.isExpression = false ∧ v.isAddrExpr = false ∧ v' = v) ∨
  ((v.isExpression = true ∨ v.isAddrExpr = true) ∧
    ∃ r, v.resolve t = .ok r ∧
      ((r.isNumeric = true ∧ v' = r) ∨ (r.isAddrExpr = true ∧ addrOffset ss r = .ok v')))

/-- EQU: there is a label table `t` against which every EQU label has its defined value -/
def EquBound (a : Assembly) : Prop :=
  ∃ t : SymTab, LabelTable a t ∧
    ∀ (i : Nat) (s : Stmt), a.stmts[i]? = some s → s.label.isEmpty = false → s.row.isPseudoDefine = true →
      s.operand.kind = .pseudo ∧ s.operand.value.isAddress = false ∧
      ∃ v', a.symtab.get? s.label = some v' ∧ EquDefined t a.stmts s.operand.value v'

/-- **C02, restated**: the clause "an ORG is the statement of index 0" of `C02_Statement` is replaced by `Placement`; the
symbol clause is split into labels and EQUs, the EQU clause covering expressions -/
def C02_Statement_v2 : Prop :=
  ∀ (fs : Files) (lines : List Str) (a : Assembly), assemble fs lines = .ok a →
    (∃ img, a.image = some img) ∧ ImageConcat a ∧ AddressChain a ∧
    (∀ s ∈ a.stmts, (stmtBytes s).map List.length = some s.pkg.size) ∧
    Placement a ∧ LabelsBound a ∧ EquBound a

/-! ### Placement -/

private theorem lt_length_of_getElem? {α : Type} {l : List α} {i : Nat} {x : α} (h : l[i]? = some x) : i < l.length := by
  rcases Nat.lt_or_ge i l.length with h' | h'
  · exact h'
  · rw [List.getElem?_eq_none_iff.mpr h'] at h; cases h

/-- **Placement**: for every accepted program whose statements emit as many bytes as their size (`hsz`: every accepted
program, `C02_bytes_eq_size`), the image loaded at the reported origin has the bytes of every statement at the address
the listing shows -/
theorem C02_placement {fs : Files} {lines : List Str} {a : Assembly} (h : assemble fs lines = .ok a)
    (hsz : ∀ s ∈ a.stmts, (stmtBytes s).map List.length = some s.pkg.size) : Placement a := by
  intro img himg i s b hs hb hne
  obtain ⟨st⟩ := assemble_stages h
  have hi : i < a.stmts.length := lt_length_of_getElem? hs
  have hpos : 0 < s.pkg.size := by
    have := hsz s (List.mem_of_getElem? hs)
    rw [hb] at this
    simp only [Option.map_some, Option.some.injEq] at this
    cases b with
    | nil => exact absurd rfl hne
    | cons x xs => simp at this; omega
  have hafter := no_org_after_laid h hs (.inl hpos)
  have horigin := assemble_origin h
  rcases exists_last (fun j => ∃ u : Stmt, a.stmts[j]? = some u ∧ u.row.isOrigin = true) a.stmts.length with
    hnone | ⟨k, hk, ⟨sk, hsk, hok⟩, hlast⟩
  · -- no ORG at all: the first statement sits at 0, the origin is 0
    have hno : ∀ (j : Nat) (u : Stmt), a.stmts[j]? = some u → u.row.isOrigin = false := by
      intro j u hu
      cases ho : u.row.isOrigin with
      | false => rfl
      | true => exact absurd ⟨u, hu, ho⟩ (hnone j (lt_length_of_getElem? hu))
    have hnom : ∀ (j : Nat) (u : Stmt), a.stmts[j]? = some u → u.row.mnemonic ≠ "ORG" := by
      intro j u hu hm
      have := (st.isOrigin_iff hu).2 hm
      rw [hno j u hu] at this; cases this
    have h0 : a.stmts[0]? = some a.stmts[0] := List.getElem?_eq_getElem (by omega)
    obtain ⟨pre, b', post, ak, ai, himg', hb', hak, hai, hlen⟩ :=
      C02_offset h himg hsz 0 (fun j _ hj => by omega) (fun j u _ hu => hnom j u hu) (Nat.zero_le i) h0 hs
    rw [hb] at hb'; cases hb'
    have hak0 : ak = 0 := by
      have := (C02_chain h).2.1 _ h0 (hnom 0 _ h0)
      rw [hak] at this; exact Option.some.inj this
    have horg0 : originNat a = 0 := by
      unfold originNat
      rw [horigin, originScan_none (fun u hu => by
        obtain ⟨j, hj⟩ := List.mem_iff_getElem?.mp hu
        exact hno j u hj)]
      rfl
    exact ⟨pre, post, ai, himg', hai, by rw [horg0]; omega⟩
  · -- the last ORG is statement `k`
    have hmk : sk.row.mnemonic = "ORG" := (st.isOrigin_iff hsk).1 hok
    have hki : k ≤ i := by
      rcases Nat.lt_or_ge i k with hlt | hge
      · exact absurd hmk (hafter k sk hlt hsk)
      · exact hge
    have hk0 : ∀ j u, j < k → a.stmts[j]? = some u → u.pkg.size = 0 :=
      fun j u hj hu => (st.org_before hj hu hsk hok).1
    have hk1o : ∀ j u, k < j → a.stmts[j]? = some u → u.row.isOrigin = false := by
      intro j u hj hu
      cases ho : u.row.isOrigin with
      | false => rfl
      | true => exact absurd ⟨u, hu, ho⟩ (hlast j hj (lt_length_of_getElem? hu))
    have hk1 : ∀ j u, k < j → a.stmts[j]? = some u → u.row.mnemonic ≠ "ORG" := by
      intro j u hj hu hm
      have := (st.isOrigin_iff hu).2 hm
      rw [hk1o j u hj hu] at this; cases this
    obtain ⟨pre, b', post, ak, ai, himg', hb', hak, hai, hlen⟩ :=
      C02_offset h himg hsz k hk0 hk1 hki hsk hs
    rw [hb] at hb'; cases hb'
    have horgk : originNat a = ak := by
      unfold originNat
      rw [horigin, originScan_last hsk hok hk1o]
      have : sk.pkg.address.int? = some ak := hak
      rw [this]; rfl
    exact ⟨pre, post, ai, himg', hai, by rw [horgk]; exact hlen⟩

/-- the origin the tool reports, spelt out: the address of the last ORG ... -/
theorem C02_origin_last_org {fs : Files} {lines : List Str} {a : Assembly} (h : assemble fs lines = .ok a)
    {k : Nat} {sk : Stmt} (hsk : a.stmts[k]? = some sk) (hm : sk.row.mnemonic = "ORG")
    (hlast : ∀ j u, k < j → a.stmts[j]? = some u → u.row.mnemonic ≠ "ORG") :
    a.origin = sk.pkg.address ∧ addrNat sk = some (originNat a) := by
  obtain ⟨st⟩ := assemble_stages h
  have hor : a.origin = sk.pkg.address := by
    rw [assemble_origin h]
    refine originScan_last hsk ((st.isOrigin_iff hsk).2 hm) ?_ _
    intro j u hj hu
    cases ho : u.row.isOrigin with
    | false => rfl
    | true => exact absurd ((st.isOrigin_iff hu).1 ho) (hlast j u hj hu)
  refine ⟨hor, ?_⟩
  obtain ⟨x, hx⟩ := (C02_chain h).1 k sk hsk
  unfold originNat
  rw [hor]
  have : sk.pkg.address.int? = some x := hx
  rw [hx, this]; rfl

/-- ... and 0 (the value `NoneValue`) when the program has no ORG -/
theorem C02_origin_no_org {fs : Files} {lines : List Str} {a : Assembly} (h : assemble fs lines = .ok a)
    (hno : ∀ (j : Nat) (u : Stmt), a.stmts[j]? = some u → u.row.mnemonic ≠ "ORG") : a.origin = Value.none ∧ originNat a = 0 := by
  obtain ⟨st⟩ := assemble_stages h
  have hor : a.origin = Value.none := by
    rw [assemble_origin h]
    refine originScan_none ?_ _
    intro u hu
    obtain ⟨j, hj⟩ := List.mem_iff_getElem?.mp hu
    cases ho : u.row.isOrigin with
    | false => rfl
    | true => exact absurd ((st.isOrigin_iff hj).1 ho) (hno j u hj)
  exact ⟨hor, by unfold originNat; rw [hor]; rfl⟩

/-! ### symbols -/

/-- **labels**: a label of an ordinary statement is bound to the statement's address; labels are unique -/
theorem C02_labels {fs : Files} {lines : List Str} {a : Assembly} (h : assemble fs lines = .ok a) : LabelsBound a := by
  obtain ⟨h1, h2⟩ := C02_symbols h
  exact ⟨fun i s hs hl hpd => (h1 i s hs hl).1 hpd, h2⟩

/-- an EQU-like statement of an accepted program has a pseudo operand, exactly as the parser built it -/
theorem equ_operand {fs : Files} {lines : List Str} {a : Assembly} (st : Stages fs lines a)
    {i : Nat} {s : Stmt} (hs : a.stmts[i]? = some s) (hpd : s.row.isPseudoDefine = true) :
    ∃ s0, st.ss0[i]? = some s0 ∧ s.label = s0.label ∧ s.row = s0.row ∧ s.operand = s0.operand ∧
      s.operand.kind = .pseudo ∧ s.operand.value.isAddress = false := by
  obtain ⟨s0, hs0, hk⟩ := st.keep05.get' hs
  have hpd0 : s0.row.isPseudoDefine = true := by rw [← hk.2]; exact hpd
  have hrow0 : s0.row ∈ Gen.instructions := by rw [← hk.2]; exact st.row_mem hs
  have hdata : isDataRow s0.row = false := pseudoDefine_not_data s0.row hrow0 hpd0
  have hparsed : Parsed s0 := expand_parsed st.hparse st.hexpand s0 (List.mem_of_getElem? hs0)
  obtain ⟨txt, hcr⟩ := hparsed.2
  have hkind0 : s0.operand.kind = .pseudo :=
    (createOperand_kind hcr).1 (table_pseudoDefine_pseudo s0.row hrow0 hpd0)
  have hop : s.operand = s0.operand := (st.op05.2 i s0 s hs0 hs).2 hdata (Or.inl hkind0)
  exact ⟨s0, hs0, hk.1, hk.2, hop, by rw [hop]; exact hkind0,
    by rw [hop]; exact st.ss0_notAddr s0 (List.mem_of_getElem? hs0)⟩

/-- the table built from the labels is a `LabelTable` of the final statements -/
theorem C02_label_table {fs : Files} {lines : List Str} {a : Assembly} (st : Stages fs lines a) :
    LabelTable a st.t := by
  obtain ⟨htab, hnodup⟩ := buildSymTab_some st.hsym
  have hnodup := hnodup (by simp [SymTab.keys])
  simp only [List.nil_append] at htab
  refine ⟨?_, ?_⟩
  · intro i s hs hl
    obtain ⟨s0, hs0, hk⟩ := st.keep05.get' hs
    have hl0 : s0.label.isEmpty = false := by rw [← hk.1]; exact hl
    have hmem := symEntries_mem (i := 0) hs0 hl0
    rw [← htab, Nat.zero_add] at hmem
    have hget := get?_of_mem hnodup hmem
    rw [hk.1, hk.2]
    cases hpd0 : s0.row.isPseudoDefine with
    | false => rw [hpd0] at hget; exact hget
    | true =>
      obtain ⟨s0', hs0', _, _, hop, _⟩ := equ_operand st hs (by rw [hk.2]; exact hpd0)
      rw [hs0] at hs0'; cases hs0'
      rw [hpd0] at hget
      rw [hop]; exact hget
  · intro k v hkv
    have hmem := get?_mem_key hkv
    rw [htab] at hmem
    obtain ⟨j, s0, hs0, hl0, hlab⟩ := symEntries_key hmem
    obtain ⟨s, hs, hk⟩ := st.keep05.get hs0
    exact ⟨j, s, hs, by rw [hk.1]; exact hl0, by rw [hk.1]; exact hlab⟩

/-- `finalVal` keeps a number -/
private theorem finalVal_numeric {ss : List Stmt} {v v' : Value} (hn : v.isNumeric = true)
    (h : finalVal ss v = some v') : v' = v := by
  cases v with
  | numeric _ _ _ _ => simp only [finalVal, Option.some.injEq] at h; exact h.symm
  | _ => cases hn

/-- **EQU**: against the table built from the labels, every EQU label of an accepted program has its defined value -/
theorem C02_equ_defined {fs : Files} {lines : List Str} {a : Assembly} (st : Stages fs lines a)
    {i : Nat} {s : Stmt} (hs : a.stmts[i]? = some s) (hl : s.label.isEmpty = false)
    (hpd : s.row.isPseudoDefine = true) :
    s.operand.kind = .pseudo ∧ s.operand.value.isAddress = false ∧
      ∃ v', a.symtab.get? s.label = some v' ∧ EquDefined st.t a.stmts s.operand.value v' := by
  obtain ⟨s0, _, _, _, _, hkind, hna⟩ := equ_operand st hs hpd
  refine ⟨hkind, hna, ?_⟩
  obtain ⟨v1, v', hev, hfin, hget⟩ := C02_equ_symbol st hs hl hpd hkind
  refine ⟨v', hget, ?_⟩
  cases hv : s.operand.value with
  | expr l r op m ae =>
    right
    refine ⟨by cases ae <;> simp [Value.isExpression, Value.isAddrExpr], ?_⟩
    rw [hv, evalSym_expr] at hev
    cases hx : (Value.expr l r op m ae).resolve st.t with
    | error e => rw [hx] at hev; cases hev
    | ok x =>
      rw [hx] at hev
      dsimp only at hev
      refine ⟨x, rfl, ?_⟩
      cases hae : x.isAddrExpr with
      | true =>
        right
        rw [hae] at hev
        simp only [if_true] at hev
        cases hy : addrOffset a.stmts x with
        | ok y =>
          rw [hy] at hev
          have hn := addrOffset_isNumeric hy
          simp only [hn, if_true, Outcome.ok.injEq] at hev
          subst hev
          rw [finalVal_numeric hn hfin]
          exact ⟨rfl, rfl⟩
        | diag => rw [hy] at hev; cases hev
        | internal => rw [hy] at hev; cases hev
        | diverged => rw [hy] at hev; cases hev
      | false =>
        left
        have hn : x.isNumeric = true := by
          rcases resolve_expr_cases hx with hn | hae'
          · exact hn
          · rw [hae] at hae'; cases hae'
        rw [hae] at hev
        simp only [Bool.false_eq_true, if_false, hn, if_true, Outcome.ok.injEq] at hev
        subst hev
        exact ⟨hn, finalVal_numeric hn hfin⟩
  | _ =>
    left
    rw [hv] at hev hna
    refine ⟨rfl, rfl, ?_⟩
    simp only [evalSym, Value.isExpression, Value.isAddrExpr, Bool.or_self, Bool.false_eq_true, if_false,
      Outcome.ok.injEq] at hev
    subst hev
    first
      | (simp only [finalVal, Option.some.injEq] at hfin; exact hfin.symm)
      | (cases hna; done)
      | (simp only [finalVal] at hfin; cases hfin; done)

theorem C02_equ {fs : Files} {lines : List Str} {a : Assembly} (h : assemble fs lines = .ok a) : EquBound a := by
  obtain ⟨st⟩ := assemble_stages h
  exact ⟨st.t, C02_label_table st, fun _ _ hs hl hpd => C02_equ_defined st hs hl hpd⟩

/-- the new symbol clauses give back the symbol clause `Props/C02.lean` proves (`C02_symbols`): nothing was weakened -/
theorem symbolsBound_of_v2 {a : Assembly} (hl : LabelsBound a) (he : EquBound a) : SymbolsBound a PseudoValueHyp := by
  obtain ⟨t, _, hequ⟩ := he
  refine ⟨fun i s hs hne => ⟨fun hpd => hl.1 i s hs hne hpd, fun hpd hph => ?_⟩, hl.2⟩
  obtain ⟨_, _, v', hget, hdef⟩ := hequ i s hs hne hpd
  obtain ⟨_, _, hne1, hne2⟩ := hph
  rcases hdef with ⟨_, _, rfl⟩ | ⟨hx, _⟩
  · exact hget
  · rcases hx with hx | hx
    · rw [hne1] at hx; cases hx
    · rw [hne2] at hx; cases hx

/-! ### the theorem -/

/-- the image exists when every statement has bytes -/
theorem image_exists_of_sizes {a : Assembly}
    (hsz : ∀ s ∈ a.stmts, (stmtBytes s).map List.length = some s.pkg.size) : ∃ img, a.image = some img := by
  have : ∀ (l : List Stmt), (∀ s ∈ l, ∃ b, stmtBytes s = some b) → ∃ bs, l.mapM stmtBytes = some bs := by
    intro l
    induction l with
    | nil => intro _; exact ⟨[], rfl⟩
    | cons x r ih =>
      intro hl
      obtain ⟨b, hb⟩ := hl x (by simp)
      obtain ⟨bs, hbs⟩ := ih (fun y hy => hl y (by simp [hy]))
      exact ⟨b :: bs, by rw [List.mapM_cons, hb, hbs]; rfl⟩
  obtain ⟨bs, hbs⟩ := this a.stmts (fun s hs => by
    have := hsz s hs
    cases hsb : stmtBytes s with
    | none => rw [hsb] at this; cases this
    | some b => exact ⟨b, rfl⟩)
  exact ⟨bs.flatten, by unfold Assembly.image; rw [hbs]; rfl⟩

/-- **C02 (restated) for one accepted program**, from the byte-count clause `hsz` (which holds for every accepted
program: `C02_bytes_eq_size` in Props/C02Size.lean) -/
theorem C02_v2_of_size {fs : Files} {lines : List Str} {a : Assembly} (h : assemble fs lines = .ok a)
    (hsz : ∀ s ∈ a.stmts, (stmtBytes s).map List.length = some s.pkg.size) :
    (∃ img, a.image = some img) ∧ ImageConcat a ∧ AddressChain a ∧
    (∀ s ∈ a.stmts, (stmtBytes s).map List.length = some s.pkg.size) ∧
    Placement a ∧ LabelsBound a ∧ EquBound a :=
  ⟨image_exists_of_sizes hsz, C02_image h, C02_chain h, hsz, C02_placement h hsz, C02_labels h, C02_equ h⟩

/-- `C02_Statement_v2` from the byte-count statement (`C02_BytesEqSize_Statement` of Props/C02Size.lean, spelt out) -/
theorem C02_full_v2_of_size
    (H : ∀ (fs : Files) (lines : List Str) (a : Assembly), assemble fs lines = .ok a →
      ∀ s ∈ a.stmts, (stmtBytes s).map List.length = some s.pkg.size) : C02_Statement_v2 :=
  fun fs lines a h => C02_v2_of_size h (H fs lines a h)

/- To be enabled once `Props/C02Size.lean` builds (in a file that imports both, or here after
`import CoCoVerif.Props.C02Size`):

/-- **C02 at full strength (restated)** -/
theorem C02_full_v2 : C02_Statement_v2 := fun _ _ _ h => C02_v2_of_size h (C02_bytes_eq_size h)

#print axioms C02_full_v2
-/

/-! ### non-vacuity -/

/-- the bytes of every statement that emits some sit in the image at `address − origin` -/
def placedB (a : Assembly) : Bool :=
  match a.image with
  | none => false
  | some img =>
    a.stmts.all (fun s =>
      match stmtBytes s, addrNat s with
      | some b, some ai => b.isEmpty || (decide (originNat a ≤ ai) && (img.drop (ai - originNat a)).take b.length == b)
      | _, _ => false)

def sizesB (a : Assembly) : Bool := a.stmts.all (fun s => (stmtBytes s).map List.length == some s.pkg.size)

theorem sizesB_sound {a : Assembly} (h : sizesB a = true) :
    ∀ s ∈ a.stmts, (stmtBytes s).map List.length = some s.pkg.size := by
  intro s hs
  unfold sizesB at h
  rw [List.all_eq_true] at h
  simpa using h s hs

/-- `NAM / EQU / ORG $0E00 / code with labels / an EQU defined by a label expression`: the ORG is the statement of index 2 -/
def C02_fullExample : List Str :=
  [" NAM DEMO\n", "TEN EQU 10\n", " ORG $0E00\n", "START LDA #TEN\n", " NOP\n", "DONE RTS\n", "LEN EQU DONE-START\n"].map
    String.toList

private def fullCheck (a : Assembly) : Bool :=
  sizesB a && placedB a && originNat a == 0x0E00 && a.image == some [0x86, 10, 0x12, 0x39] &&
  (match a.stmts[2]?, a.stmts[3]?, a.stmts[5]? with
   | some o, some s, some d =>
     o.row.mnemonic == "ORG" && addrNat s == some 0x0E00 && addrNat d == some 0x0E03 &&
       a.symtab.get? d.label == some d.pkg.address
   | _, _, _ => false) &&
  symtabLines a.symtab == some ["$000A TEN".toList, "$0E00 START".toList, "$0E03 DONE".toList, "$0003 LEN".toList]

/-- the example is accepted; its image, loaded at the origin `$0E00` it reports, has every statement's bytes at the
listed address (checked concretely: `placedB`), and `Placement` holds by `C02_placement` -/
theorem C02_full_example :
    ∃ a, assemble [] C02_fullExample = .ok a ∧ originNat a = 0x0E00 ∧ a.image = some [0x86, 10, 0x12, 0x39] ∧
      placedB a = true ∧ Placement a ∧ LabelsBound a ∧ EquBound a := by
  obtain ⟨a, ha, hc⟩ := checkProgram_sound (lines := C02_fullExample) (check := fullCheck) (by decide +kernel) []
  unfold fullCheck at hc
  simp only [Bool.and_eq_true, beq_iff_eq] at hc
  obtain ⟨⟨⟨⟨⟨h1, h2⟩, h3⟩, h4⟩, _⟩, _⟩ := hc
  exact ⟨a, ha, h3, h4, h2, C02_placement ha (sizesB_sound h1), C02_labels ha, C02_equ ha⟩

/-- two ORGs before the first byte: the LAST one is the origin, and the code sits there -/
def C02_twoOrgExample : List Str := [" ORG $100\n", "C EQU 1\n", " ORG $200\n", "S NOP\n", " RTS\n"].map String.toList

theorem C02_two_org_example :
    ∃ a, assemble [] C02_twoOrgExample = .ok a ∧ originNat a = 0x200 ∧ a.image = some [0x12, 0x39] ∧
      placedB a = true ∧ Placement a := by
  obtain ⟨a, ha, hc⟩ := checkProgram_sound (lines := C02_twoOrgExample)
    (check := fun a => sizesB a && placedB a && originNat a == 0x200 && a.image == some [0x12, 0x39])
    (by decide +kernel) []
  simp only [Bool.and_eq_true, beq_iff_eq] at hc
  obtain ⟨⟨⟨h1, h2⟩, h3⟩, h4⟩ := hc
  exact ⟨a, ha, h3, h4, h2, C02_placement ha (sizesB_sound h1)⟩

/-- no ORG: the origin is 0 and the code starts at 0 -/
theorem C02_no_org_example :
    ∃ a, assemble [] ([" NAM X\n", "S NOP\n", " RTS\n"].map String.toList) = .ok a ∧ originNat a = 0 ∧
      a.image = some [0x12, 0x39] ∧ placedB a = true ∧ Placement a := by
  obtain ⟨a, ha, hc⟩ := checkProgram_sound (lines := [" NAM X\n", "S NOP\n", " RTS\n"].map String.toList)
    (check := fun a => sizesB a && placedB a && originNat a == 0 && a.image == some [0x12, 0x39])
    (by decide +kernel) []
  simp only [Bool.and_eq_true, beq_iff_eq] at hc
  obtain ⟨⟨⟨h1, h2⟩, h3⟩, h4⟩ := hc
  exact ⟨a, ha, h3, h4, h2, C02_placement ha (sizesB_sound h1)⟩

#print axioms C02_Statement_too_strong
#print axioms C02_placement
#print axioms C02_labels
#print axioms C02_equ
#print axioms symbolsBound_of_v2
#print axioms C02_v2_of_size
#print axioms C02_full_v2_of_size
#print axioms C02_full_example
#print axioms C02_two_org_example

end CoCo.Props
