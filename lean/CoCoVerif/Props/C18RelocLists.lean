/-
Props/C18RelocLists.lean — C18-R1 (relocation), model batch 8: LABEL elements of FCB / FDB lists (jump tables).

The finish theorems of the relocation family (`reloc_finish*`, `C18_R1_code*`) ask for `ListsConst`: no list element resolves
to a label.  A jump table `FDB L1,L2` legitimately changes when the program moves: every label element moves by `D`.
Here the general theorems for such elements (`fs`, `fs'`: the statements `fixAll` gives for the program and for the program
moved by `D`, related by `FinalRelAny D`; the list pass `evalLists` runs against them):

* `C18_R1_list_label`: a plain label element of an FDB list holds the address `a` of its statement, resp. `a + D`;
* `C18_R1_list_modExpr`, `C18_R1_list_diffExpr`: `label ± N` moves by `D` modulo `$10000`, `label - label` does not move;
* `C18_R1_list_elems`: position by position the digits of a list in the moved program are `movedDigits` — those of the
  original program except at the positions of labels and `label ± N`, which hold the value `+ D`;
* `reloc_list_stmt`: one list statement: field, statement and bytes in the moved program; `reloc_list_stmt_words`: the bytes
  of a moved jump table are the big-endian bytes of `movedWords`;
* `tbl_list_tie`: the evaluated witness `tblA` / `tblB` (`reloc_list_label_witness`) is an instance.

The whole-program theorems (`reloc_finish*`, `C18_R1_code*`) are left as they are (with `ListsConst`).
-/
import CoCoVerif.Props.C18RelocText
import CoCoVerif.Lemmas.RelocListLabel

namespace CoCo.Props
open CoCo CoCo.Asm

section
variable {D : Nat} {fs fs' : List Stmt}

theorem FinalRelAny.addrShiftAny (h : PW (FinalRelAny D) fs fs') : PW (AddrShiftAny D) fs fs' :=
  h.mono (fun _ _ r => r.2)

/-- (C18-R1, lists) a plain LABEL element `x` of an FDB list (`create` gives `v`, which the label table resolves to the
label of statement `j`): the original program renders the address `a` of statement `j`, the program moved by `D` renders
`a + D` -/
theorem C18_R1_list_label (h : PW (FinalRelAny D) fs fs') {t : SymTab} {x : Str} {v : Value} {j : Nat} {m : Mode}
    {gA : Str} (hv : create 4 x false false true = .ok v) (hr : v.resolve t = .ok (.address j m))
    (hA : evalElem fs t 4 x = .ok gA) :
    ∃ a, addrIntOf fs j = some a ∧ addrIntOf fs' j = some (a + D) ∧ a + D < 65536 ∧ gA = fmtHex 4 a ∧
      evalElem fs' t 4 x = .ok (fmtHex 4 (a + D)) :=
  evalElem_reloc_label_word (FinalRelAny.addrShiftAny h) hv hr hA

/-- (C18-R1, lists) a label element of an FCB list: accepted in the moved program while `a + D` has two digits -/
theorem C18_R1_list_label_byte (h : PW (FinalRelAny D) fs fs') {t : SymTab} {x : Str} {v : Value} {j : Nat} {m : Mode}
    {gA : Str} (hv : create 4 x false false true = .ok v) (hr : v.resolve t = .ok (.address j m))
    (hA : evalElem fs t 2 x = .ok gA) :
    ∃ a, addrIntOf fs j = some a ∧ addrIntOf fs' j = some (a + D) ∧ gA = fmtHex 2 a ∧
      (a + D < 256 → evalElem fs' t 2 x = .ok (fmtHex 2 (a + D))) ∧
      (256 ≤ a + D → evalElem fs' t 2 x = .diag) :=
  evalElem_reloc_label_byte (FinalRelAny.addrShiftAny h) hv hr hA

/-- (C18-R1, lists) an element `label ± N`: the value `z` moves by `D` modulo `$10000` -/
theorem C18_R1_list_modExpr (h : PW (FinalRelAny D) fs fs') {t : SymTab} {x : Str} {v r : Value} {gA : Str}
    (hv : create 4 x false false true = .ok v) (hr : v.resolve t = .ok r) (hc : ModExpr D fs r)
    (hA : evalElem fs t 4 x = .ok gA) :
    ∃ z, z < 65536 ∧ addrOffset fs r = .ok (.numeric z (some 4) .extended false) ∧ gA = fmtHex 4 z ∧
      evalElem fs' t 4 x = .ok (fmtHex 4 ((z + D) % 65536)) := by
  obtain ⟨z, hz, e1, e2, e3⟩ :=
    evalElem_reloc_modExpr ((FinalRelAny.addrShiftAny h).mono (fun _ _ => AddrShiftAny.toI)) (.inr rfl) hv hr hc hA
  refine ⟨z, hz, e1, e2, ?_⟩
  rw [e3, if_pos (by have : (16 : Nat) ^ 4 = 65536 := by decide
                     omega)]

/-- (C18-R1, lists) an element `label - label` does not move -/
theorem C18_R1_list_diffExpr (h : PW (FinalRelAny D) fs fs') {t : SymTab} (w : Nat) {x : Str} {v r : Value}
    (hv : create 4 x false false true = .ok v) (hr : v.resolve t = .ok r) (hc : DiffExpr r) :
    evalElem fs' t w x = evalElem fs t w x :=
  evalElem_reloc_diffExpr ((FinalRelAny.addrShiftAny h).mono (fun _ _ => AddrShiftAny.toI)) w hv hr hc

/-- (C18-R1, lists) the digits of an FDB list, position by position: the digits of the original program except at the
positions of labels and `label ± N`, which hold the value `+ D` (`movedDigits`) -/
theorem C18_R1_list_elems (h : PW (FinalRelAny D) fs fs') {t : SymTab} (xs hs gsA : List Str)
    (hc : ∀ x ∈ xs, pendingAt 4 x = true → ElemCovered D fs t x)
    (hA : evalElems fs t 4 xs hs = .ok gsA) :
    evalElems fs' t 4 xs hs = .ok (movedDigits D fs t 4 xs gsA) :=
  evalElems_reloc (FinalRelAny.addrShiftAny h) (.inr rfl) xs hs gsA hc (fun x _ _ => elemFits_word D fs t x) hA

/-- (C18-R1, lists) the digits of an FCB list: as `C18_R1_list_elems`, provided the moved values have two digits -/
theorem C18_R1_list_elems_byte (h : PW (FinalRelAny D) fs fs') {t : SymTab} (xs hs gsA : List Str)
    (hc : ∀ x ∈ xs, pendingAt 2 x = true → ElemCovered D fs t x)
    (hfit : ∀ x ∈ xs, pendingAt 2 x = true → ElemFits D fs t 2 x)
    (hA : evalElems fs t 2 xs hs = .ok gsA) :
    evalElems fs' t 2 xs hs = .ok (movedDigits D fs t 2 xs gsA) :=
  evalElems_reloc (FinalRelAny.addrShiftAny h) (.inl rfl) xs hs gsA hc hfit hA

/-- (C18-R1, lists) one list statement (`x`, `x'`: the statement after `fixAll` in the two programs; `y`: what the list
pass makes of `x`): in the moved program the list pass succeeds, the field holds the digits `movedList` says, everything
else but the address is as in `y`, and the bytes are op code, post byte and the bytes of that field -/
theorem reloc_list_stmt (h : PW (FinalRelAny D) fs fs') (t : SymTab) {x x' y : Stmt} (hx : FinalRelAny D x x')
    (hl : x.pkg.additional.isList = true) (hc : ListsCovered D fs t x) (hA : evalList1 t fs x = .ok y) :
    ∃ y', evalList1 t fs' x' = .ok y' ∧ y'.pkg.additional = movedList D fs t y ∧
      y' = ({ y with pkg := { y.pkg with additional := movedList D fs t y } } : Stmt).setAddress y'.pkg.address ∧
      stmtBytes y' = (do
        let a ← emitValue y.pkg.opCode
        let b ← emitValue y.pkg.postByte
        let c ← emitValue (movedList D fs t y)
        pure (a ++ b ++ c)) := by
  have h1 := evalList1_reloc FinalRelAny.listStable (FinalRelAny.addrShiftAny h) t hx hc hA
  rw [hl] at h1
  simp only [if_true] at h1
  have h3 : ({ x' with pkg := { x'.pkg with additional := movedList D fs t y } } : Stmt)
      = ({ y with pkg := { y.pkg with additional := movedList D fs t y } } : Stmt).setAddress x'.pkg.address := by
    obtain ⟨v, rfl⟩ := evalList1_same hA
    exact AddlRel.set hx.toAddl _
  refine ⟨_, h1, rfl, h3, ?_⟩
  rw [h3, stmtBytes_setAddress]
  rfl

/-- (C18-R1, jump tables) a list statement whose words in the original program are `ns`: the bytes of the statement in the
moved program are op code, post byte and the big-endian bytes of `movedWords` — the words of the original program with
every label element (and `label ± N`) `+ D` -/
theorem reloc_list_stmt_words (h : PW (FinalRelAny D) fs fs') (t : SymTab) {x x' y : Stmt} (hx : FinalRelAny D x x')
    (hl : x.pkg.additional.isList = true) (hc : ListsCovered D fs t x) (hA : evalList1 t fs x = .ok y)
    {ns : List Nat} (hns : ∀ n ∈ ns, n < 65536) (hy : y.pkg.additional = .multiWord (ns.map wordHex)) :
    ∃ y', evalList1 t fs' x' = .ok y' ∧
      stmtBytes y = (do
        let a ← emitValue y.pkg.opCode
        let b ← emitValue y.pkg.postByte
        pure (a ++ b ++ wordBytes ns)) ∧
      stmtBytes y' = (do
        let a ← emitValue y.pkg.opCode
        let b ← emitValue y.pkg.postByte
        pure (a ++ b ++ wordBytes (movedWords D fs t (listElems y.operand.text) ns))) := by
  obtain ⟨y', e1, _, _, e4⟩ := reloc_list_stmt h t hx hl hc hA
  refine ⟨y', e1, ?_, ?_⟩
  · unfold stmtBytes
    rw [hy, emitValue_multiWord ns hns]
    cases emitValue y.pkg.opCode <;> cases emitValue y.pkg.postByte <;> rfl
  · rw [e4]
    have : movedList D fs t y = .multiWord (movedDigits D fs t 4 (listElems y.operand.text) (ns.map wordHex)) := by
      unfold movedList
      rw [hy]
    rw [this, emitValue_movedWords D fs t _ ns hns]
    cases emitValue y.pkg.opCode <;> cases emitValue y.pkg.postByte <;> rfl

end

/-! ## the evaluated witness `tblA` / `tblB` is an instance -/

/-- the elements of the jump table `T FDB A,T,K` of `tblA` / `tblB` -/
def tblElems : List Str := listElems "A,T,K".toList

/-- evaluated on `tblA` (origin `$1000`) and `tblB` (origin `$1100`): the statements `fixAll` gives are `$100` apart
(`addrShiftAnyB`), every element of the jump table is a label or a constant (`elemCoveredB`), the list pass of `tblA` gives
the digits `1000 1001 0005`, and `movedDigits` makes `1100 1101 0005` of them -/
def tblTieB : Bool :=
  match stage4 tblA, stage4 tblB, stageT tblA with
  | some a, some b, some T =>
    (match fixAll a 0 a, fixAll b 0 b with
     | .ok fa, .ok fb =>
       pwB (addrShiftAnyB 0x100) fa fb && tblElems.all (elemCoveredB T) &&
       (match evalElems fa T 4 tblElems [[], [], []] with
        | .ok g => g == ["1000", "1001", "0005"].map String.toList &&
                   movedDigits 0x100 fa T 4 tblElems g == ["1100", "1101", "0005"].map String.toList
        | _ => false)
     | _, _ => false)
  | _, _, _ => false

set_option maxRecDepth 1000000 in
theorem tblTieB_ok : tblTieB = true := by decide

/-- the witness `reloc_list_label_witness` as an instance of the general theorem `evalElems_reloc`: the digits of the jump
table `T FDB A,T,K` in `tblB` (`1100 1101 0005`) follow from those in `tblA` (`1000 1001 0005`) -/
theorem tbl_list_tie :
    ∃ a b T fa fb, stage4 tblA = some a ∧ stage4 tblB = some b ∧ stageT tblA = some T ∧
      fixAll a 0 a = .ok fa ∧ fixAll b 0 b = .ok fb ∧
      evalElems fa T 4 tblElems [[], [], []] = .ok (["1000", "1001", "0005"].map String.toList) ∧
      evalElems fb T 4 tblElems [[], [], []] = .ok (["1100", "1101", "0005"].map String.toList) := by
  have h := tblTieB_ok
  unfold tblTieB at h
  cases ha : stage4 tblA with
  | none => rw [ha] at h; cases h
  | some a =>
    cases hb : stage4 tblB with
    | none => rw [ha, hb] at h; cases h
    | some b =>
      cases hT : stageT tblA with
      | none => rw [ha, hb, hT] at h; cases h
      | some T =>
        rw [ha, hb, hT] at h
        dsimp only at h
        cases hfa : fixAll a 0 a with
        | ok fa =>
          cases hfb : fixAll b 0 b with
          | ok fb =>
            rw [hfa, hfb] at h
            dsimp only at h
            cases hg : evalElems fa T 4 tblElems [[], [], []] with
            | ok g =>
              rw [hg] at h
              simp only [Bool.and_eq_true, beq_iff_eq] at h
              obtain ⟨⟨h1, h2⟩, h3, h4⟩ := h
              have hpw : PW (AddrShiftAny 0x100) fa fb := pwB_sound (fun _ _ => addrShiftAnyB_sound) fa fb h1
              have hcov : ∀ x ∈ tblElems, pendingAt 4 x = true → ElemCovered 0x100 fa T x :=
                fun x hx _ => elemCoveredB_sound (List.all_eq_true.mp h2 x hx)
              have := evalElems_reloc hpw (.inr rfl) tblElems [[], [], []] g hcov
                (fun x _ _ => elemFits_word 0x100 fa T x) hg
              rw [h4] at this
              exact ⟨a, b, T, fa, fb, rfl, rfl, rfl, hfa, hfb, by rw [← h3]; exact hg, this⟩
            | diag => rw [hg] at h; simp at h
            | internal => rw [hg] at h; simp at h
            | diverged => rw [hg] at h; simp at h
          | diag => rw [hfa, hfb] at h; cases h
          | internal => rw [hfa, hfb] at h; cases h
          | diverged => rw [hfa, hfb] at h; cases h
        | diag => rw [hfa] at h; cases h
        | internal => rw [hfa] at h; cases h
        | diverged => rw [hfa] at h; cases h

/-! ## axioms -/

#print axioms CoCo.Asm.evalElem_reloc_label
#print axioms CoCo.Asm.evalElem_reloc_modExpr
#print axioms CoCo.Asm.evalElem_reloc_diffExpr
#print axioms CoCo.Asm.evalElem_reloc
#print axioms CoCo.Asm.evalElems_reloc
#print axioms CoCo.Asm.evalList1_reloc
#print axioms CoCo.Asm.emitValue_movedWords
#print axioms C18_R1_list_label
#print axioms C18_R1_list_label_byte
#print axioms C18_R1_list_modExpr
#print axioms C18_R1_list_diffExpr
#print axioms C18_R1_list_elems
#print axioms C18_R1_list_elems_byte
#print axioms reloc_list_stmt
#print axioms reloc_list_stmt_words
#print axioms tbl_list_tie

end CoCo.Props
