/-
Props/C17.lean — assembler output depends only on the source text.

What a theorem can say here is little: the model `Asm.assemble` is a pure function of (include files, lines),
so a history of earlier assemblies cannot influence a later one and the source lines are taken by value.
Whether the PYTHON code shares and mutates state between assemblies (module-level `INSTRUCTIONS`, compiled
patterns, the default `NoneValue()` instances in signatures) is exactly what no statement about the model can
establish; that is decided by the `hist` correspondence stream (warm process vs history-free model, fresh
processes under different hash seeds, source list compared before/after). Level: translation validation.
-/
import CoCoVerif.Model.Program

namespace CoCo.Props
open CoCo CoCo.Asm

/-- assemble a sequence of programs one after the other "in one process" -/
def runAll (ps : List (Files × List Str)) : List (Outcome Assembly) := ps.map (fun p => assemble p.1 p.2)

/-- the model threads no state: the result for the last program does not depend on the programs before it -/
theorem C17_history_free (qs : List (Files × List Str)) (p : Files × List Str) :
    (runAll (qs ++ [p])).getLast? = some (assemble p.1 p.2) := by
  simp [runAll]

/-- and assembling twice gives the same result -/
theorem C17_repeatable (p : Files × List Str) : runAll [p, p] = [assemble p.1 p.2, assemble p.1 p.2] := rfl

end CoCo.Props
