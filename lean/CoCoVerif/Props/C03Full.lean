/-
Props/C03Full.lean — C03 at full strength, after batch 5 (fix f9c374f, finding B1: an ORG must come before the first label
and the first byte of the program).

`Props/C03.lean` proves the branch clause of `C03_Statement` under the hypothesis "no ORG between the branch and its
target" (`C03_branch`); before batch 5 the clause was false without it (`START BRA END / ORG $100 / END NOP`, now a
diagnostic: `C03_branch_org_counterexample_fixed`).  Here the hypothesis is DISCHARGED for every accepted program:

* `C03_no_org_between_branch`, `C03_no_org_between_pcr` — a relative statement (resp. a `label,PCR` statement) and the
  statement it names: no statement with index in `(min b i, max b i]` is an ORG.  Reason: the statement itself emits bytes,
  its target carries an address label (`Stages.relative_target`, `Stages.left_target`: the symbol table binds
  `.address b` only to a labelled statement that is not an EQU), and after either no ORG is accepted
  (`no_org_after_laid`).
* `C03_branch_full` — the branch clause of `C03_Statement`, no hypothesis left.
* `C03_full_of_pcr` — `C03_Statement` from the PCR clause, which is taken as a hypothesis here even in the weak form
  "under no ORG between" (the clause itself is `C03_pcr_label` / `C03_pcr_clause` of `Props/C03Width.lean`, which this
  file cannot import yet: its proof needs the width invariant of the size loop, not only `C03_pcr` of `Props/C03.lean`,
  for the part `pcrHint = 2 → −128 ≤ pcrJump ≤ 127` of `PcrField`).
-/
import CoCoVerif.Lemmas.OrgFirst
import CoCoVerif.Props.C03

namespace CoCo.Props
open CoCo CoCo.Asm

/-- statements `i` and `b` of an accepted program, `i` emitting bytes and `b` carrying an address label: no ORG among
the statements of index `min b i < j ≤ max b i` -/
theorem no_org_between {fs : Files} {lines : List Str} {a : Assembly} (h : assemble fs lines = .ok a)
    {i b : Nat} {s t : Stmt} (hs : a.stmts[i]? = some s) (ht : a.stmts[b]? = some t) (hsz : 0 < s.pkg.size)
    (hl : t.label.isEmpty = false) (hpd : t.row.isPseudoDefine = false) :
    ∀ j u, min b i < j → j ≤ max b i → a.stmts[j]? = some u → u.row.mnemonic ≠ "ORG" := by
  intro j u h1 _ hu
  rcases Nat.lt_or_ge b i with hbi | hbi
  · have : b < j := by rw [Nat.min_def] at h1; split at h1 <;> omega
    exact no_org_after_laid h ht (.inr ⟨hl, hpd⟩) j u this hu
  · have : i < j := by rw [Nat.min_def] at h1; split at h1 <;> omega
    exact no_org_after_laid h hs (.inl hsz) j u this hu

/-- **no ORG between a branch and its target** (in the form of the hypothesis `hno` of `C03_branch`) -/
theorem C03_no_org_between_branch {fs : Files} {lines : List Str} {a : Assembly} (h : assemble fs lines = .ok a)
    {i b : Nat} {m : Mode} {s : Stmt} (hs : a.stmts[i]? = some s) (hk : s.operand.kind = .relative)
    (hv : s.operand.value = .address b m) :
    ∀ j u, min b i < j → j ≤ max b i → a.stmts[j]? = some u → u.row.mnemonic ≠ "ORG" := by
  obtain ⟨st⟩ := assemble_stages h
  obtain ⟨t, ht, hl, hpd⟩ := st.relative_target hs hk hv
  exact no_org_between h hs ht (st.relative_size_pos hs hk) hl hpd

/-- **no ORG between a `label,PCR` statement and the statement its offset names** (in the form of the hypothesis `hno` of
`C03_pcr_label_width` / `C03_pcr8_width` of `Props/C03Width.lean`) -/
theorem C03_no_org_between_pcr {fs : Files} {lines : List Str} {a : Assembly} (h : assemble fs lines = .ok a)
    {i b : Nat} {m : Mode} {s : Stmt} (hs : a.stmts[i]? = some s) (hc : s.pkg.choices ≠ [])
    (hl : s.operand.left = .val (.address b m)) :
    ∀ j u, min b i < j → j ≤ max b i → a.stmts[j]? = some u → u.row.mnemonic ≠ "ORG" := by
  obtain ⟨st⟩ := assemble_stages h
  obtain ⟨t, ht, hlab, hpd⟩ := st.left_target hs hl
  exact no_org_between h hs ht (st.choices_size_pos hs hc) hlab hpd

/-- the target of a branch exists: a relative statement names a statement of the program -/
theorem C03_branch_target_exists {fs : Files} {lines : List Str} {a : Assembly} (h : assemble fs lines = .ok a)
    {i b : Nat} {m : Mode} {s : Stmt} (hs : a.stmts[i]? = some s) (hk : s.operand.kind = .relative)
    (hv : s.operand.value = .address b m) :
    ∃ t, a.stmts[b]? = some t ∧ t.label.isEmpty = false ∧ t.row.isPseudoDefine = false := by
  obtain ⟨st⟩ := assemble_stages h
  exact st.relative_target hs hk hv

/-- **C03, branch clause, at full strength**: every branch of an accepted program whose operand is a label carries the
displacement the CPU needs — no hypothesis on ORGs, none on the size of the branch statement -/
theorem C03_branch_full {fs : Files} {lines : List Str} {a : Assembly} (h : assemble fs lines = .ok a)
    {i b : Nat} {m : Mode} {s t : Stmt} (hs : a.stmts[i]? = some s) (hk : s.operand.kind = .relative)
    (hv : s.operand.value = .address b m) (ht : a.stmts[b]? = some t) : BranchField s t := by
  obtain ⟨st⟩ := assemble_stages h
  exact C03_branch h hs hk hv ht (C03_no_org_between_branch h hs hk hv) (st.relative_size_pos hs hk)

/-- the branch clause of `C03_Statement` -/
theorem C03_branch_clause {fs : Files} {lines : List Str} {a : Assembly} (h : assemble fs lines = .ok a) :
    ∀ (i b : Nat) (m : Mode) (s t : Stmt), a.stmts[i]? = some s → s.operand.kind = .relative →
      s.operand.value = .address b m → a.stmts[b]? = some t → BranchField s t :=
  fun _ _ _ _ _ hs hk hv ht => C03_branch_full h hs hk hv ht

/-- the PCR clause of `C03_Statement` under the hypothesis "no ORG between the statement and the statement its offset
names": what a proof of the width invariant gives at least (`Props/C03Width.lean`: `C03_pcr_label` proves `PcrField`
without that hypothesis, `C03_pcr_label_width` / `C03_pcr8_width` carry it) -/
def C03_PcrClauseNoOrg : Prop :=
  ∀ (fs : Files) (lines : List Str) (a : Assembly), assemble fs lines = .ok a →
    ∀ (i b : Nat) (m : Mode) (s t : Stmt), a.stmts[i]? = some s → s.pkg.choices ≠ [] →
      s.operand.left = .val (.address b m) → a.stmts[b]? = some t →
      (∀ j u, min b i < j → j ≤ max b i → a.stmts[j]? = some u → u.row.mnemonic ≠ "ORG") →
      PcrField s t

/-- **`C03_Statement` from the PCR clause**: the branch clause holds (`C03_branch_full`), and the hypothesis "no ORG
between" of the PCR clause holds in every accepted program (`C03_no_org_between_pcr`) -/
theorem C03_full_of_pcr (H : C03_PcrClauseNoOrg) : C03_Statement := by
  intro fs lines a h
  refine ⟨C03_branch_clause h, ?_⟩
  intro i b m s t hs hc hl ht
  exact H fs lines a h i b m s t hs hc hl ht (C03_no_org_between_pcr h hs hc hl)

/- To be enabled once `Props/C03Width.lean` builds (add `import CoCoVerif.Props.C03Width` to a file that imports this one,
or here):

/-- **C03 at full strength** -/
theorem C03_full : C03_Statement :=
  C03_full_of_pcr (fun _ _ _ h _ _ _ _ _ hs hc hl ht _ => C03_pcr_label h hs hc hl ht)

#print axioms C03_full
-/

/-! ### what `Props/C03.lean` alone gives for the PCR clause -/

/-- the part of `PcrField` that does not need the width invariant: for every accepted program and every `label,PCR`
statement `s` whose offset is the plain label of statement `t`, the stored value is `NumericValue(pcrJump, size_hint =
pcrHint)` of the ADDRESSES, and `fit_operand_width` accepts it.  (From `C03_pcr`, with its side conditions taken as
hypotheses on the statement `s4` that enters `fix_addresses`.) -/
theorem C03_pcr_field_of_fixOne {fs : Files} {lines : List Str} {a : Assembly} (h : assemble fs lines = .ok a) :
    ∃ ss4 : List Stmt, PW SameButAdditional ss4 a.stmts ∧
      ∀ (i t : Nat) (s4 s : Stmt), ss4[i]? = some s4 → a.stmts[i]? = some s →
        s4.pkg.needsRes = true → s4.pkg.choices.isEmpty = false → (s4.operand.kind == .relative) = false →
        s4.operand.value.isAddrExpr = false → s4.operand.value.isAddress = false → s4.operand.value ≠ .pyNone →
        s4.pkg.additional.isAddrExpr = false → s4.pkg.additional.int? = some t →
        ∃ u x y v, a.stmts[t]? = some u ∧ addrNat s = some x ∧ addrNat u = some y ∧
          numericOfInt (pcrJump s y x) (some s.pcrHint) .none = .ok v ∧ fitWidth (withAdditional s v) = .ok s :=
  C03_pcr h

/-! ### non-vacuity -/

/-- `NAM / EQU / ORG $0E00 / code`: an ORG after statements that lay nothing, then a backward short branch, a forward short
branch, a long branch and a `label,PCR` operand: the hypotheses of `C03_branch_full` and `C03_no_org_between_pcr` hold, the
displacements are the ones the CPU needs -/
def C03_fullExample : List Str :=
  [" NAM DEMO\n", "TEN EQU 10\n", " ORG $0E00\n", "LOOP NOP\n", " BRA LOOP\n", " BNE DONE\n", " LBRA LOOP\n",
   " LEAX DONE,PCR\n", "DONE RTS\n"].map String.toList

private def fullCheck (a : Assembly) : Bool :=
  match a.stmts[2]?, a.stmts[4]?, a.stmts[5]?, a.stmts[6]?, a.stmts[7]?, a.stmts[8]? with
  | some o, some s1, some s2, some s3, some s4, some t =>
    o.row.mnemonic == "ORG" &&
    s1.operand.kind == .relative && s2.operand.kind == .relative && s3.operand.kind == .relative &&
    (match s1.operand.value, s2.operand.value, s3.operand.value with
     | .address 3 _, .address 8 _, .address 3 _ => true | _, _, _ => false) &&
    !s4.pkg.choices.isEmpty && (match s4.operand.left with | .val (.address 8 _) => true | _ => false) &&
    addrNat s1 == some 0x0E01 && addrNat t == some 0x0E0B &&
    stmtBytes s1 == some [0x20, 0xFD] && stmtBytes s2 == some [0x26, 0x06] &&
    stmtBytes s3 == some [0x16, 0xFF, 0xF8] && stmtBytes s4 == some [0x30, 0x8C, 0x00]
  | _, _, _, _, _, _ => false

example : ∃ a, assemble [] C03_fullExample = .ok a ∧ fullCheck a = true :=
  checkProgram_sound (by decide +kernel) []

private def fullCheck2 (a : Assembly) : Bool :=
  match a.stmts[3]?, a.stmts[4]?, a.stmts[5]?, a.stmts[6]?, a.stmts[8]? with
  | some _, some s1, some s2, some s3, some _ =>
    s1.operand.kind == .relative && s2.operand.kind == .relative && s3.operand.kind == .relative &&
    (match s1.operand.value, s2.operand.value, s3.operand.value with
     | .address 3 _, .address 8 _, .address 3 _ => true | _, _, _ => false)
  | _, _, _, _, _ => false

/-- the same program, the theorems applied: the three branches satisfy `BranchField` although the program has an ORG -/
theorem C03_full_example :
    ∃ a s1 s2 s3 l t, assemble [] C03_fullExample = .ok a ∧ a.stmts[4]? = some s1 ∧ a.stmts[5]? = some s2 ∧
      a.stmts[6]? = some s3 ∧ a.stmts[3]? = some l ∧ a.stmts[8]? = some t ∧
      BranchField s1 l ∧ BranchField s2 t ∧ BranchField s3 l := by
  obtain ⟨a, ha, hc⟩ := checkProgram_sound (lines := C03_fullExample) (check := fullCheck2) (by decide +kernel) []
  unfold fullCheck2 at hc
  split at hc
  · rename_i l s1 s2 s3 t hl h1 h2 h3 ht
    simp only [Bool.and_eq_true, beq_iff_eq] at hc
    obtain ⟨⟨⟨k1, k2⟩, k3⟩, hv⟩ := hc
    split at hv
    · rename_i m1 m2 m3 v1 v2 v3
      exact ⟨a, s1, s2, s3, l, t, ha, h1, h2, h3, hl, ht, C03_branch_full ha h1 k1 v1 hl,
        C03_branch_full ha h2 k2 v2 ht, C03_branch_full ha h3 k3 v3 hl⟩
    · cases hv
  · cases hc

#print axioms no_org_between
#print axioms C03_no_org_between_branch
#print axioms C03_no_org_between_pcr
#print axioms C03_branch_full
#print axioms C03_full_of_pcr
#print axioms C03_full_example

end CoCo.Props
