/-
Props/C19.lean — INCLUDE is textual inclusion.

`assemble fs (pre ++ [l] ++ post)` where `l` is an `INCLUDE f` line equals the assembly of the program
in which the line is replaced by the lines of `f`.

After the repair of INCLUDE handling a missing include file and an inclusion cycle are diagnostics
(`include_missing_diag`, `include_cycle_diag`); they used to escape as FileNotFoundError / RecursionError.

Batch 6: until then the model bounded the nesting of INCLUDE files by a fixed budget of 64 levels (standing for
Python's RecursionError), and that residue refuted the statement at full strength (`C19_not_full`, through a chain
of 65 nested files) and forced two side conditions on the equality (`include_textual`), neither of which could be
dropped (`C19_finding_depth_textual`, `include_textual_rhs_needed`).  The Python code now reports its own recursion
limit as a diagnostic, and the model's budget is `includeFuel fs` = number of files + 1, which is NEVER exhausted:
a file that is being included is rejected, so the chain of files being processed holds no file twice
(`expand_includeFuel_ne_internal`, `front_never_internal` in Lemmas/FrontInclude.lean).  Hence

* `include_textual_full`: the equality without side conditions (clause 1, `C19_textual_full`);
* `include_missing_full`, `include_cycle_full`: clauses 2 and 3 whatever precedes and follows the INCLUDE;
* `C19_full : C19_Statement`;
* `include_textual_star_full`: any number of substitutions at any depth.

The earlier, weaker forms (`include_textual_cases` with its three cases, `include_textual` with its side conditions,
`include_textual_ok`, `C19_partial`) are kept; they are corollaries.  The former counterexamples are restated with
what they give now (`*_fixed`).  Helpers are in Lemmas/FrontInclude.lean.
-/
import CoCoVerif.Lemmas.FrontInclude

namespace CoCo.Props
open CoCo CoCo.Asm

/-- `l` is a well-formed `INCLUDE f` line -/
def IsInclude (l : Str) (f : Str) : Prop :=
  ∃ s, parseLine l = .ok (some s) ∧ s.row.isInclude = true ∧ s.operand.text = f ∧ f ≠ []

/-- `s` is an `INCLUDE f` statement -/
def IsIncludeStmt (s : Stmt) (f : Str) : Prop :=
  s.row.isInclude = true ∧ s.operand.text = f ∧ f ≠ []

/-- executable criterion for `IsInclude` (used for the concrete examples) -/
def isIncludeB (l f : Str) : Bool :=
  match parseLine l with
  | .ok (some s) => s.row.isInclude && s.operand.text == f && !f.isEmpty
  | _ => false

theorem isInclude_of_check {l f : Str} (h : isIncludeB l f = true) : IsInclude l f := by
  unfold isIncludeB at h
  split at h
  · rename_i s hs
    simp only [Bool.and_eq_true, beq_iff_eq, Bool.not_eq_true', List.isEmpty_eq_false_iff] at h
    exact ⟨s, hs, h.1.1, h.1.2, h.2⟩
  · cases h

theorem IsInclude.cond {f : Str} {s : Stmt} (h : s.row.isInclude = true ∧ s.operand.text = f ∧ f ≠ []) :
    (s.row.isInclude && !s.operand.text.isEmpty) = true := by
  obtain ⟨h1, h2, h3⟩ := h
  subst h2
  simp [h1, h3]

/-! ### the statement at full strength (a theorem since batch 6: `C19_full`) -/

/-- clause 1: unconditional textual inclusion -/
def C19_Textual : Prop :=
  ∀ (fs : Files) (pre post ls : List Str) (l f : Str), IsInclude l f → fs.get? f = some ls →
    assemble fs (pre ++ [l] ++ post) = assemble fs (pre ++ ls ++ post)

/-- clause 2: an INCLUDE of a file that does not exist is diagnosed -/
def C19_MissingDiag : Prop :=
  ∀ (fs : Files) (pre post : List Str) (l f : Str), IsInclude l f → fs.get? f = none →
    assemble fs (pre ++ [l] ++ post) = .diag

/-- clause 3: a file whose only line includes the file itself is diagnosed -/
def C19_CycleDiag : Prop :=
  ∀ (fs : Files) (pre post : List Str) (l f : Str), IsInclude l f → fs.get? f = some [l] →
    assemble fs (pre ++ [l] ++ post) = .diag

def C19_Statement : Prop := C19_Textual ∧ C19_MissingDiag ∧ C19_CycleDiag

/-! ### textual inclusion: what holds -/

/-- The three-case form that was the unconditional statement while the nesting budget was a fixed 64 levels: the two
sides agree; or the INCLUDE side exhausts the budget (`internal`); or the INCLUDE side reports a diagnostic and the
substituted side exhausts the budget.  Since batch 6 only the first case arises (`include_textual_full`); kept. -/
theorem include_textual_cases (fs : Files) (pre post ls : List Str) (l f : Str)
    (hl : IsInclude l f) (hf : fs.get? f = some ls) :
    assemble fs (pre ++ [l] ++ post) = assemble fs (pre ++ ls ++ post) ∨
    assemble fs (pre ++ [l] ++ post) = .internal ∨
    (assemble fs (pre ++ [l] ++ post) = .diag ∧ assemble fs (pre ++ ls ++ post) = .internal) := by
  obtain ⟨s, hs, h⟩ := hl
  have hc := IsInclude.cond h
  obtain ⟨_, h2, _⟩ := h
  subst h2
  rcases front_include_cases (pre := pre) (post := post) hs hc hf with h | h | ⟨h1, h2⟩
  · exact .inl (assemble_congr h)
  · exact .inr (.inl (front_internal h))
  · exact .inr (.inr ⟨front_diag h1, front_internal h2⟩)

/-- Strong form: the equality holds as soon as the parse-and-expand stage `front` ends in `internal` on
neither side (a later `internal` -- after fix 0addc5e only the one of Props/C13.lean `C13_witness` is known --
is the same on both sides). -/
theorem include_textual_strong (fs : Files) (pre post ls : List Str) (l f : Str)
    (hl : IsInclude l f) (hf : fs.get? f = some ls)
    (hne : front fs (pre ++ [l] ++ post) ≠ .internal)
    (hne' : front fs (pre ++ ls ++ post) ≠ .internal) :
    assemble fs (pre ++ [l] ++ post) = assemble fs (pre ++ ls ++ post) := by
  obtain ⟨s, hs, h⟩ := hl
  have hc := IsInclude.cond h
  obtain ⟨_, h2, _⟩ := h
  subst h2
  exact assemble_congr (front_include hs hc hf hne hne')

/-- If the INCLUDE side gets through parsing and expansion, the substituted side gets through with the
same statements and the assemblies agree (no condition on the substituted side). -/
theorem include_textual_front_ok (fs : Files) (pre post ls : List Str) (l f : Str) (ss : List Stmt)
    (hl : IsInclude l f) (hf : fs.get? f = some ls)
    (hok : front fs (pre ++ [l] ++ post) = .ok ss) :
    front fs (pre ++ ls ++ post) = .ok ss ∧
    assemble fs (pre ++ [l] ++ post) = assemble fs (pre ++ ls ++ post) := by
  obtain ⟨s, hs, h⟩ := hl
  have hc := IsInclude.cond h
  obtain ⟨_, h2, _⟩ := h
  subst h2
  have h' := front_include_ok hs hc hf hok
  exact ⟨h', assemble_congr (by rw [hok, h'])⟩

/-- The main theorem of C19 until batch 6, with its two side conditions (with the fixed budget of 64 levels neither
could be dropped: the former `C19_finding_depth_textual` and `include_textual_rhs_needed`).  Both hypotheses always hold
now: `include_textual_full` is the same equality without them.  Kept. -/
theorem include_textual (fs : Files) (pre post ls : List Str) (l f : Str)
    (hl : IsInclude l f) (hf : fs.get? f = some ls)
    (hne : assemble fs (pre ++ [l] ++ post) ≠ .internal)
    (hne' : assemble fs (pre ++ ls ++ post) ≠ .internal) :
    assemble fs (pre ++ [l] ++ post) = assemble fs (pre ++ ls ++ post) :=
  include_textual_strong fs pre post ls l f hl hf (front_ne_internal hne) (front_ne_internal hne')

/-- for accepted programs no side condition is needed -/
theorem include_textual_ok (fs : Files) (pre post ls : List Str) (l f : Str) (a : Assembly)
    (hl : IsInclude l f) (hf : fs.get? f = some ls)
    (hok : assemble fs (pre ++ [l] ++ post) = .ok a) :
    assemble fs (pre ++ ls ++ post) = .ok a := by
  rcases include_textual_cases fs pre post ls l f hl hf with h | h | ⟨h, _⟩
  · rw [← h, hok]
  · rw [hok] at h; cases h
  · rw [hok] at h; cases h

/-- a diagnostic on the INCLUDE side is a diagnostic on the substituted side, unless the budget runs out (it does not:
`include_textual_diag_full`) -/
theorem include_textual_diag (fs : Files) (pre post ls : List Str) (l f : Str)
    (hl : IsInclude l f) (hf : fs.get? f = some ls)
    (hd : assemble fs (pre ++ [l] ++ post) = .diag) :
    assemble fs (pre ++ ls ++ post) = .diag ∨ assemble fs (pre ++ ls ++ post) = .internal := by
  rcases include_textual_cases fs pre post ls l f hl hf with h | h | ⟨_, h⟩
  · exact .inl (by rw [← h, hd])
  · rw [hd] at h; cases h
  · exact .inr h

/-- read right to left: a successful assembly of the substituted program is what the INCLUDE gives,
unless the INCLUDE version exhausts the recursion budget (it does not: `include_textual_conv_full`) -/
theorem include_textual_conv (fs : Files) (pre post ls : List Str) (l f : Str) (a : Assembly)
    (hl : IsInclude l f) (hf : fs.get? f = some ls)
    (hok : assemble fs (pre ++ ls ++ post) = .ok a) :
    assemble fs (pre ++ [l] ++ post) = .ok a ∨ assemble fs (pre ++ [l] ++ post) = .internal := by
  rcases include_textual_cases fs pre post ls l f hl hf with h | h | ⟨_, h⟩
  · exact .inl (by rw [h, hok])
  · exact .inr h
  · rw [hok] at h; cases h

/-- **C19 clause 1 at full strength: INCLUDE is textual inclusion, without side conditions.**  Both sides run with
the same nesting budget `includeFuel fs`, which neither exhausts (`front_never_internal`). -/
theorem include_textual_full (fs : Files) (pre post ls : List Str) (l f : Str)
    (hl : IsInclude l f) (hf : fs.get? f = some ls) :
    assemble fs (pre ++ [l] ++ post) = assemble fs (pre ++ ls ++ post) :=
  include_textual_strong fs pre post ls l f hl hf (front_never_internal fs _) (front_never_internal fs _)

theorem C19_textual_full : C19_Textual := include_textual_full

/-- a diagnostic on the INCLUDE side is a diagnostic on the substituted side (the second case of
`include_textual_diag` does not arise) -/
theorem include_textual_diag_full (fs : Files) (pre post ls : List Str) (l f : Str)
    (hl : IsInclude l f) (hf : fs.get? f = some ls)
    (hd : assemble fs (pre ++ [l] ++ post) = .diag) :
    assemble fs (pre ++ ls ++ post) = .diag := by
  rw [← include_textual_full fs pre post ls l f hl hf, hd]

/-- read right to left (the second case of `include_textual_conv` does not arise) -/
theorem include_textual_conv_full (fs : Files) (pre post ls : List Str) (l f : Str) (a : Assembly)
    (hl : IsInclude l f) (hf : fs.get? f = some ls)
    (hok : assemble fs (pre ++ ls ++ post) = .ok a) :
    assemble fs (pre ++ [l] ++ post) = .ok a := by
  rw [include_textual_full fs pre post ls l f hl hf, hok]

/-- `b` is obtained from `a` by replacing INCLUDE lines by file contents, any number of times, at any
depth -/
inductive Inlines (fs : Files) : List Str → List Str → Prop
  | refl (a : List Str) : Inlines fs a a
  | step {pre post ls : List Str} {l f : Str} {b : List Str} :
      IsInclude l f → fs.get? f = some ls → Inlines fs (pre ++ ls ++ post) b →
      Inlines fs (pre ++ [l] ++ post) b

/-- the same, where no intermediate program exhausts the recursion budget -/
inductive InlinesG (fs : Files) : List Str → List Str → Prop
  | refl (a : List Str) : InlinesG fs a a
  | step {pre post ls : List Str} {l f : Str} {b : List Str} :
      IsInclude l f → fs.get? f = some ls → assemble fs (pre ++ ls ++ post) ≠ .internal →
      InlinesG fs (pre ++ ls ++ post) b → InlinesG fs (pre ++ [l] ++ post) b

/-- nested includes: any sequence of substitutions, starting from a program that gets through parsing
and expansion -/
theorem include_textual_star {fs : Files} {a b : List Str} {ss : List Stmt} (h : Inlines fs a b)
    (hok : front fs a = .ok ss) : front fs b = .ok ss ∧ assemble fs a = assemble fs b := by
  induction h with
  | refl a => exact ⟨hok, rfl⟩
  | step hl hf _ ih =>
    obtain ⟨h1, h2⟩ := include_textual_front_ok fs _ _ _ _ _ ss hl hf hok
    obtain ⟨h3, h4⟩ := ih h1
    exact ⟨h3, h2.trans h4⟩

/-- nested includes, accepted programs -/
theorem include_textual_star_ok {fs : Files} {a b : List Str} {x : Assembly} (h : Inlines fs a b)
    (hok : assemble fs a = .ok x) : assemble fs b = .ok x := by
  obtain ⟨ss, hss⟩ := front_ok_of_assemble_ok hok
  rw [← (include_textual_star h hss).2, hok]

/-- nested includes, any outcome, as long as no intermediate program exhausts the budget -/
theorem include_textual_starG {fs : Files} {a b : List Str} (h : InlinesG fs a b)
    (hne : assemble fs a ≠ .internal) : assemble fs a = assemble fs b := by
  induction h with
  | refl a => rfl
  | step hl hf hne' _ ih =>
    have h1 := include_textual fs _ _ _ _ _ hl hf hne hne'
    rw [h1]
    exact ih hne'

/-- **nested includes at full strength**: any sequence of substitutions, at any depth, any outcome -/
theorem include_textual_star_full {fs : Files} {a b : List Str} (h : Inlines fs a b) :
    assemble fs a = assemble fs b := by
  induction h with
  | refl a => rfl
  | step hl hf _ ih => exact (include_textual_full fs _ _ _ _ _ hl hf).trans ih

/-- the depth-2 instance: `f` itself contains an `INCLUDE f'` line -/
theorem include_textual_nested (fs : Files) (pre post pre' post' ls' : List Str) (l f l' f' : Str)
    (hl : IsInclude l f) (hf : fs.get? f = some (pre' ++ [l'] ++ post'))
    (hl' : IsInclude l' f') (hf' : fs.get? f' = some ls')
    (hne : assemble fs (pre ++ [l] ++ post) ≠ .internal)
    (hne1 : assemble fs (pre ++ (pre' ++ [l'] ++ post') ++ post) ≠ .internal)
    (hne2 : assemble fs (pre ++ (pre' ++ ls' ++ post') ++ post) ≠ .internal) :
    assemble fs (pre ++ [l] ++ post) = assemble fs (pre ++ (pre' ++ ls' ++ post') ++ post) := by
  apply include_textual_starG _ hne
  refine .step hl hf hne1 ?_
  have e1 : pre ++ (pre' ++ [l'] ++ post') ++ post = (pre ++ pre') ++ [l'] ++ (post' ++ post) := by
    simp [List.append_assoc]
  have e2 : pre ++ (pre' ++ ls' ++ post') ++ post = (pre ++ pre') ++ ls' ++ (post' ++ post) := by
    simp [List.append_assoc]
  rw [e2] at hne2
  rw [e1, e2]
  exact .step hl' hf' hne2 (.refl _)

/-- the depth-2 instance for accepted programs -/
theorem include_textual_nested_ok (fs : Files) (pre post pre' post' ls' : List Str) (l f l' f' : Str)
    (x : Assembly)
    (hl : IsInclude l f) (hf : fs.get? f = some (pre' ++ [l'] ++ post'))
    (hl' : IsInclude l' f') (hf' : fs.get? f' = some ls')
    (hok : assemble fs (pre ++ [l] ++ post) = .ok x) :
    assemble fs (pre ++ (pre' ++ ls' ++ post') ++ post) = .ok x := by
  apply include_textual_star_ok _ hok
  refine .step hl hf ?_
  have e1 : pre ++ (pre' ++ [l'] ++ post') ++ post = (pre ++ pre') ++ [l'] ++ (post' ++ post) := by
    simp [List.append_assoc]
  have e2 : pre ++ (pre' ++ ls' ++ post') ++ post = (pre ++ pre') ++ ls' ++ (post' ++ post) := by
    simp [List.append_assoc]
  rw [e1, e2]
  exact .step hl' hf' (.refl _)

/-! ### missing file and inclusion cycle: diagnostics -/

theorem IsIncludeStmt.cond {s : Stmt} {f : Str} (h : IsIncludeStmt s f) :
    (s.row.isInclude && !s.operand.text.isEmpty) = true := IsInclude.cond h

/-- Missing file, at the level of `expand`: whatever the fuel (at least one unit), whatever the chain of
files being processed, whatever follows: if the statements before the INCLUDE expand, the result is
`diag` ("Unable to read ..."). -/
theorem include_missing_diag_expand (fs : Files) (n : Nat) (inc : List Str) (pre post e : List Stmt)
    (s : Stmt) (f : Str) (hs : IsIncludeStmt s f) (hf : fs.get? f = none)
    (he : expand fs (n + 1) inc pre = .ok e) :
    expand fs (n + 1) inc (pre ++ [s] ++ post) = .diag := by
  have hc := hs.cond
  obtain ⟨_, h2, _⟩ := hs
  subst h2
  exact expand_missing hc hf (by rw [← expand_succ]; exact he)

/-- Cycle, general statement at the level of `expand`: an INCLUDE of a file that is in the chain of files
being processed gives `diag` ("... includes itself"), if the statements before it expand. -/
theorem include_cycle_diag_expand (fs : Files) (n : Nat) (inc : List Str) (pre post e : List Stmt)
    (s : Stmt) (f : Str) (hs : IsIncludeStmt s f) (hc : f ∈ inc)
    (he : expand fs (n + 1) inc pre = .ok e) :
    expand fs (n + 1) inc (pre ++ [s] ++ post) = .diag := by
  have hcond := hs.cond
  obtain ⟨_, h2, _⟩ := hs
  subst h2
  exact expand_cycle hcond hc (by rw [← expand_succ]; exact he)

/-- a diagnostic inside an included file is a diagnostic of the including file (this is how a cycle
through several files surfaces) -/
theorem include_diag_up (fs : Files) (n : Nat) (inc : List Str) (pre post e pg : List Stmt)
    (s : Stmt) (g : Str) (lg : List Str) (hs : IsIncludeStmt s g) (hg : g ∉ inc)
    (hf : fs.get? g = some lg) (hp : parseLines lg = .ok pg)
    (hd : expand fs n (inc ++ [g]) pg = .diag)
    (he : expand fs (n + 1) inc pre = .ok e) :
    expand fs (n + 1) inc (pre ++ [s] ++ post) = .diag := by
  have hcond := hs.cond
  obtain ⟨_, h2, _⟩ := hs
  subst h2
  rw [expand_succ] at he ⊢
  rw [go_append, go_append, go_single, expandOne_some hcond (by simpa using hg) hf, hp, he]
  show oapp (oapp _ (expand fs n _ pg)) _ = _
  rw [hd]; rfl

/-- Missing file: the rest of the program parses and the statements before the line expand:
`assemble` ends in `diag` (was: `internal`, FileNotFoundError escaping). -/
theorem include_missing_diag (fs : Files) (pre post : List Str) (l f : Str) (rp rq e : List Stmt)
    (hl : IsInclude l f) (hf : fs.get? f = none)
    (hp : parseLines pre = .ok rp) (hq : parseLines post = .ok rq) (he : expand fs (includeFuel fs) [] rp = .ok e) :
    assemble fs (pre ++ [l] ++ post) = .diag := by
  obtain ⟨s, hs, h⟩ := hl
  have hc := IsInclude.cond h
  obtain ⟨_, h2, _⟩ := h
  subst h2
  exact front_diag (front_missing hs hc hf hp hq he)

/-- Direct cycle: file `f` contains an `INCLUDE f` line (after lines without INCLUDE); any program that
reaches an `INCLUDE f` ends in `diag` (was: `internal`, RecursionError escaping). -/
theorem include_cycle_diag (fs : Files) (pre post pre0 post0 : List Str) (l f : Str)
    (rp rq rp0 rq0 e : List Stmt)
    (hl : IsInclude l f) (hf : fs.get? f = some (pre ++ [l] ++ post))
    (hp : parseLines pre = .ok rp) (hnp : ∀ x ∈ rp, x.row.isInclude = false)
    (hq : parseLines post = .ok rq)
    (hp0 : parseLines pre0 = .ok rp0) (hq0 : parseLines post0 = .ok rq0) (he : expand fs (includeFuel fs) [] rp0 = .ok e) :
    assemble fs (pre0 ++ [l] ++ post0) = .diag := by
  obtain ⟨s, hs, h⟩ := hl
  have hc := IsInclude.cond h
  obtain ⟨_, h2, _⟩ := h
  subst h2
  exact front_diag (front_self_include hs hc hf hp hnp hq hp0 hq0 he)

/-- **C19 clause 2 at full strength**: an INCLUDE of a file that does not exist is a diagnostic, whatever precedes
and follows it (the lines before it end in a result or a diagnostic, never in an exhausted nesting budget) -/
theorem include_missing_full (fs : Files) (pre post : List Str) (l f : Str)
    (hl : IsInclude l f) (hf : fs.get? f = none) :
    assemble fs (pre ++ [l] ++ post) = .diag := by
  obtain ⟨s, hs, h⟩ := hl
  have hc := IsInclude.cond h
  obtain ⟨_, h2, _⟩ := h
  subst h2
  exact front_diag (front_missing_full hs hc hf)

/-- **C19 clause 3 at full strength**: a file whose only line includes the file itself is a diagnostic, whatever
precedes and follows the INCLUDE -/
theorem include_cycle_full (fs : Files) (pre post : List Str) (l f : Str)
    (hl : IsInclude l f) (hf : fs.get? f = some [l]) :
    assemble fs (pre ++ [l] ++ post) = .diag := by
  obtain ⟨s, hs, h⟩ := hl
  have hc := IsInclude.cond h
  obtain ⟨_, h2, _⟩ := h
  subst h2
  exact front_diag (front_self_include_full hs hc hf)

/-- **C19 at full strength** (was refuted until batch 6, `C19_not_full`, by programs nesting more than 64 files) -/
theorem C19_full : C19_Statement := ⟨include_textual_full, include_missing_full, include_cycle_full⟩

/-! ### concrete witnesses -/

def incA : Str := " INCLUDE a.asm\n".toList
def incB : Str := "        include  b.asm   ; second file\n".toList
def incM : Str := " INCLUDE m.asm\n".toList

set_option maxRecDepth 100000 in
theorem isInclude_incA : IsInclude incA "a.asm".toList := isInclude_of_check (by decide)
set_option maxRecDepth 100000 in
theorem isInclude_incB : IsInclude incB "b.asm".toList := isInclude_of_check (by decide)
set_option maxRecDepth 100000 in
theorem isInclude_incM : IsInclude incM "m.asm".toList := isInclude_of_check (by decide)

theorem expand_nil (fs : Files) (inc : List Str) : expand fs (includeFuel fs) inc [] = .ok [] := by
  rw [show includeFuel fs = fs.length + 1 from rfl, expand_succ, go_nil]

/-- missing file: `INCLUDE a.asm` with an empty host file system -/
theorem missing_example : assemble [] [incA] = .diag :=
  include_missing_diag [] [] [] incA _ [] [] [] isInclude_incA rfl rfl rfl (expand_nil _ _)

/-- direct cycle: `a.asm` consists of the line `INCLUDE a.asm` -/
theorem cycle_example : assemble [("a.asm".toList, [incA])] [incA] = .diag :=
  include_cycle_diag _ [] [] [] [] incA _ [] [] [] [] [] isInclude_incA (by decide)
    rfl (by simp) rfl rfl rfl (expand_nil _ _)

/-- cycle through two files: `a.asm` includes `b.asm`, `b.asm` includes `a.asm` -/
theorem cycle2_example :
    assemble [("a.asm".toList, [incB]), ("b.asm".toList, [incA])] [incA] = .diag := by
  obtain ⟨sa, ha, hsa⟩ := isInclude_incA
  obtain ⟨sb, hb, hsb⟩ := isInclude_incB
  apply front_diag
  unfold front
  rw [parseLines_single_some ha]
  -- the top-level INCLUDE a.asm: its lines end in `diag` under the chain [a.asm] ...
  refine include_diag_up _ 2 [] [] [] [] [sb] sa _ [incB] hsa (by simp) (by decide)
    (parseLines_single_some hb) ?_ (expand_nil _ _)
  -- ... because INCLUDE b.asm does, under the chain [a.asm, b.asm] ...
  refine include_diag_up _ 1 _ [] [] [] [sa] sb _ [incA] hsb (by decide) (by decide)
    (parseLines_single_some ha) ?_ (by rw [expand_succ, go_nil])
  -- ... where INCLUDE a.asm is an INCLUDE of a file in the chain
  exact include_cycle_diag_expand _ 0 _ [] [] [] sa _ hsa (by decide) (by rw [expand_succ, go_nil])

def bogus : Str := " BOGUS\n".toList

set_option maxRecDepth 100000 in
theorem parseLine_bogus : parseLine bogus = .diag := by
  have : (match parseLine bogus with | .diag => true | _ => false) = true := by decide
  split at this <;> simp_all

/-- The former detection-order counterexample is gone: `INCLUDE m.asm` (missing) followed by
`INCLUDE b.asm` where `b.asm` holds a syntax error.  With the INCLUDE the missing file is hit first
(during expansion), after substitution the syntax error is found first (during parsing) — both are
diagnostics now. -/
theorem order_example :
    assemble [("b.asm".toList, [bogus])] ([incM] ++ [incB] ++ []) = .diag ∧
    assemble [("b.asm".toList, [bogus])] ([incM] ++ [bogus] ++ []) = .diag := by
  constructor
  · obtain ⟨sb, hb, _⟩ := isInclude_incB
    exact include_missing_diag _ [] [incB] incM _ [] [sb] [] isInclude_incM (by decide) rfl
      (parseLines_single_some hb) (expand_nil _ _)
  · obtain ⟨sm, hm, _⟩ := isInclude_incM
    have : parseLines ([incM] ++ [bogus] ++ []) = .diag := by
      simp [parseLines, hm, parseLine_bogus]
    rw [assemble_eq, front, this]

/-! ### the former residue: more than 64 nested files

`D` is a file without INCLUDE, `DD` includes `D`, `DDD` includes `DD`, ... (65 files).  `INCLUDE D⁶⁴`
(64 letters; 64 files below the program) exhausted the recursion budget of 64 levels that the model had until
batch 6; these programs were the counterexamples to `C19_Statement` (`C19_not_full`).  The budget is now
`includeFuel fs` (one more than the number of files), which is never exhausted
(`expand_includeFuel_ne_internal`): the same witnesses are restated below (`*_fixed`) with what they give now, and
`C19_Statement` is a theorem (`C19_full`). -/

def deepName (i : Nat) : Str := List.replicate (i + 1) 'D'
def deepLine (i : Nat) : Str := " INCLUDE ".toList ++ deepName i ++ ['\n']

/-- the 65 chain files after some `extra` files -/
def deepFs (extra : Files) : Files :=
  extra ++ (List.range 65).map (fun i => (deepName i, if i = 0 then [" NOP\n".toList] else [deepLine (i - 1)]))

def linkOk (fs : Files) (i : Nat) : Bool :=
  match fs.get? (deepName (i + 1)) with
  | some ls =>
    (match parseLines ls with
     | .ok [s] => s.row.isInclude && !s.operand.text.isEmpty && s.operand.text == deepName i
     | _ => false)
  | none => false

def baseOk (fs : Files) : Bool :=
  match fs.get? (deepName 0) with
  | some ls => (match parseLines ls with | .ok [s] => !s.row.isInclude | _ => false)
  | none => false

/-- executable check that `fs` contains the chain -/
def deepOk (fs : Files) : Bool := baseOk fs && (List.range 64).all (linkOk fs)

theorem deepName_inj {i j : Nat} (h : deepName i = deepName j) : i = j := by
  have := congrArg List.length h
  simpa [deepName] using this

theorem deepName_ne {j : Nat} {c : Char} {t : Str} (hc : c ≠ 'D') : deepName j ≠ c :: t := by
  intro h
  rw [deepName, List.replicate_succ] at h
  exact hc (List.cons.inj h).1.symm

/-- fuel needed below an `INCLUDE` of the `k`-th chain file; `p0` are the statements of the innermost file -/
theorem deep_expandOne_base {fs : Files} (h : deepOk fs = true) :
    ∃ (ls0 : List Str) (p0 : List Stmt), fs.get? (deepName 0) = some ls0 ∧ parseLines ls0 = .ok p0 ∧
      (∀ x ∈ p0, x.row.isInclude = false) ∧
      ∀ k ≤ 64, ∀ s : Stmt, (s.row.isInclude && !s.operand.text.isEmpty) = true →
      s.operand.text = deepName k → ∀ (n : Nat) (I : List Str), (∀ j ≤ k, deepName j ∉ I) →
      expandOne fs n I s = if n ≤ k then .internal else .ok p0 := by
  unfold deepOk at h
  simp only [Bool.and_eq_true, List.all_eq_true, List.mem_range] at h
  obtain ⟨hb, hl⟩ := h
  unfold baseOk at hb
  split at hb
  · rename_i ls0 hf0
    split at hb
    · rename_i s0 hp0
      have hpl : ∀ x ∈ [s0], x.row.isInclude = false := by
        intro x hx
        simp only [List.mem_singleton] at hx
        subst hx
        simpa using hb
      refine ⟨ls0, [s0], hf0, hp0, hpl, expandOne_deep fs deepName 64 [s0] ⟨ls0, hf0, hp0⟩ hpl ?_ ?_⟩
      · intro i hi
        have := hl i hi
        unfold linkOk at this
        split at this
        · rename_i ls hf
          split at this
          · rename_i s hp
            simp only [Bool.and_eq_true, beq_iff_eq] at this
            exact ⟨ls, s, hf, hp, by simp [this.1.1, this.1.2], this.2⟩
          · cases this
        · cases this
      · intro i _ j _ hij
        exact deepName_inj hij
    · cases hb
  · cases hb

/-- fuel needed below an `INCLUDE` of the `k`-th chain file -/
theorem deep_expandOne {fs : Files} (h : deepOk fs = true) :
    ∃ p0 : List Stmt, ∀ k ≤ 64, ∀ s : Stmt, (s.row.isInclude && !s.operand.text.isEmpty) = true →
      s.operand.text = deepName k → ∀ (n : Nat) (I : List Str), (∀ j ≤ k, deepName j ∉ I) →
      expandOne fs n I s = if n ≤ k then .internal else .ok p0 := by
  obtain ⟨_, p0, _, _, _, h⟩ := deep_expandOne_base h
  exact ⟨p0, h⟩

/-- RESTATED (was `deep_prefix_internal`, with the hypothesis `expandOne fs 63 [] s = .internal`, which cannot hold
for the budget `includeFuel fs`): a program whose first line is an INCLUDE that expands to `p`, if the rest parses -/
theorem deep_prefix_fixed {fs : Files} {l : Str} {s : Stmt} {rest : List Str} {rq p : List Stmt}
    (hl : parseLine l = .ok (some s)) (hgo : expandOne fs fs.length [] s = .ok p)
    (hq : parseLines rest = .ok rq) :
    front fs ([l] ++ rest) = oapp (.ok p) (expand.go fs fs.length [] rq) := by
  have hp : parseLines ([l] ++ rest) = .ok ([s] ++ rq) := by
    rw [parseLines_append, parseLines_single_some hl, hq]; rfl
  rw [front_of_parsed hp, go_append, go_single, hgo]

/-- host files: the chain, `a.asm` = `INCLUDE a.asm`, `b.asm` = a syntax error, `f.asm` = `INCLUDE D⁶²`
then `INCLUDE g.asm`, `g.asm` = `INCLUDE f.asm`; no `m.asm` -/
def incF : Str := " INCLUDE f.asm\n".toList
def incG : Str := " INCLUDE g.asm\n".toList

def fsDeep : Files :=
  deepFs [("a.asm".toList, [incA]), ("b.asm".toList, [bogus]),
          ("f.asm".toList, [deepLine 61, incG]), ("g.asm".toList, [incF])]

set_option maxRecDepth 1000000 in
theorem fsDeep_ok : deepOk fsDeep = true := by decide +kernel

/-- 69 files: the nesting budget of `assemble fsDeep` is 70 levels -/
theorem fsDeep_length : fsDeep.length = 69 := by decide +kernel

set_option maxRecDepth 1000000 in
theorem isInclude_deep63 : IsInclude (deepLine 63) (deepName 63) := isInclude_of_check (by decide +kernel)
set_option maxRecDepth 1000000 in
theorem isInclude_deep61 : IsInclude (deepLine 61) (deepName 61) := isInclude_of_check (by decide +kernel)
set_option maxRecDepth 100000 in
theorem isInclude_incF : IsInclude incF "f.asm".toList := isInclude_of_check (by decide)
set_option maxRecDepth 100000 in
theorem isInclude_incG : IsInclude incG "g.asm".toList := isInclude_of_check (by decide)

/-- the only line of the innermost chain file -/
def nopLine : Str := " NOP\n".toList

/-- RESTATED (was `deep63_internal`: `… = .internal` when `rest` parses): `INCLUDE D⁶⁴` followed by anything is
the program `NOP` followed by the same lines — 64 files below the program are expanded, the budget is 70 levels -/
theorem deep63_fixed {rest : List Str} :
    assemble fsDeep ([deepLine 63] ++ rest) = assemble fsDeep ([nopLine] ++ rest) := by
  apply assemble_congr
  obtain ⟨s, hs, h⟩ := isInclude_deep63
  obtain ⟨ls0, p0, hf0, hp0, hpl, hdeep⟩ := deep_expandOne_base fsDeep_ok
  have hf0' : fsDeep.get? (deepName 0) = some [nopLine] := by decide +kernel
  rw [hf0'] at hf0
  cases hf0
  unfold front
  rw [parseLines_append, parseLines_append, parseLines_single_some hs, hp0]
  rcases parseLines_ok_or_diag rest with ⟨rq, hq⟩ | hq <;> rw [hq]
  · simp only [oapp_ok_ok]
    rw [show includeFuel fsDeep = fsDeep.length + 1 from rfl, expand_succ, expand_succ, go_append, go_append,
      go_single, go_plain _ _ _ p0 hpl,
      hdeep 63 (by omega) s (IsInclude.cond h) h.2.1 fsDeep.length [] (by simp),
      if_neg (by rw [fsDeep_length]; omega)]
  · rfl

/-- RESTATED (was `C19_finding_depth_missing : ¬ C19_MissingDiag`, "a missing file after a line that nests too deep is
not diagnosed"): the same program is a diagnostic now -/
theorem C19_finding_depth_missing_fixed : assemble fsDeep ([deepLine 63] ++ [incM] ++ []) = .diag :=
  include_missing_full fsDeep [deepLine 63] [] incM _ isInclude_incM (by decide +kernel)

/-- RESTATED (was `C19_finding_depth_cycle : ¬ C19_CycleDiag`): a file that includes itself, after a line that nests
64 files deep, is a diagnostic now -/
theorem C19_finding_depth_cycle_fixed : assemble fsDeep ([deepLine 63] ++ [incA] ++ []) = .diag :=
  include_cycle_full fsDeep [deepLine 63] [] incA _ isInclude_incA (by decide +kernel)

/-- RESTATED (was `depth_order_example`: `.internal` with the INCLUDE, `.diag` after substitution): `INCLUDE D⁶⁴`
followed by `INCLUDE b.asm`, where `b.asm` holds a syntax error.  With the INCLUDE the syntax error is found during
expansion, after substitution during parsing: a diagnostic on both sides. -/
theorem depth_order_example_fixed :
    assemble fsDeep ([deepLine 63] ++ [incB] ++ []) = .diag ∧
    assemble fsDeep ([deepLine 63] ++ [bogus] ++ []) = .diag := by
  have h2 : assemble fsDeep ([deepLine 63] ++ [bogus] ++ []) = .diag := by
    obtain ⟨s, hs, _⟩ := isInclude_deep63
    have : parseLines ([deepLine 63] ++ [bogus] ++ []) = .diag := by
      simp [parseLines, hs, parseLine_bogus]
    rw [assemble_eq, front, this]
  refine ⟨?_, h2⟩
  rw [include_textual_full fsDeep [deepLine 63] [] [bogus] incB _ isInclude_incB (by decide +kernel), h2]

/-- RESTATED (was `include_textual_rhs_needed`: INCLUDE side `.diag`, substituted side `.internal`).  `f.asm` is
`INCLUDE D⁶²`, `INCLUDE g.asm`, and `g.asm` is `INCLUDE f.asm`.  The program `INCLUDE f.asm` ends in `diag`: `D⁶²` is
expanded, then `g.asm` hits `INCLUDE f.asm` while `f.asm` is in the chain.  The program consisting of the lines of
`f.asm` has no `f.asm` in the chain: `g.asm` expands `f.asm` once more, two levels further down, and the cycle is
reported there: `diag` as well. -/
theorem include_textual_rhs_needed_fixed :
    assemble fsDeep ([] ++ [incF] ++ []) = .diag ∧
    assemble fsDeep ([] ++ [deepLine 61, incG] ++ []) = .diag := by
  obtain ⟨sf, hf, hsf⟩ := isInclude_incF
  obtain ⟨sg, hg, hsg⟩ := isInclude_incG
  obtain ⟨sd, hd, hsd⟩ := isInclude_deep61
  obtain ⟨p0, hdeep⟩ := deep_expandOne fsDeep_ok
  have hcf := IsInclude.cond hsf
  have hcg := IsInclude.cond hsg
  have hcd := IsInclude.cond hsd
  have hgetf : fsDeep.get? sf.operand.text = some [deepLine 61, incG] := by rw [hsf.2.1]; decide +kernel
  have hgetg : fsDeep.get? sg.operand.text = some [incF] := by rw [hsg.2.1]; decide +kernel
  have hpF : parseLines [deepLine 61, incG] = .ok [sd, sg] := by simp [parseLines, hd, hg]
  have hpG : parseLines [incF] = .ok [sf] := parseLines_single_some hf
  have hnf : ∀ j, deepName j ≠ "f.asm".toList := fun j => deepName_ne (by decide)
  have hd68 : ∀ I, (∀ j ≤ 61, deepName j ∉ I) → expandOne fsDeep 68 I sd = .ok p0 := fun I hI => by
    rw [hdeep 61 (by omega) sd hcd hsd.2.1 68 I hI, if_neg (by omega)]
  have h1 : assemble fsDeep ([] ++ [incF] ++ []) = .diag := by
    apply front_diag
    rw [show ([] : List Str) ++ [incF] ++ [] = [incF] from rfl, front_of_parsed hpG, fsDeep_length, go_single,
      expandOne_some hcf (by simp) hgetf, hpF]
    show expand fsDeep 69 _ [sd, sg] = _
    rw [expand_succ, go_cons, go_single, hd68 _ (by
        intro j _; simp only [List.nil_append, List.mem_singleton]; rw [hsf.2.1]; exact hnf j),
      expandOne_some hcg (by rw [hsg.2.1, hsf.2.1]; decide) hgetg, hpG]
    show oapp _ (expand fsDeep 68 _ [sf]) = _
    rw [expand_succ, go_single, expandOne_cycle hcf (by simp)]
    rfl
  refine ⟨h1, ?_⟩
  rw [← include_textual_full fsDeep [] [] [deepLine 61, incG] incF _ isInclude_incF (by decide +kernel), h1]

/-! ### the partial statement that was proved before batch 6 (kept; `C19_full` is the full statement) -/

def C19_Partial : Prop :=
  -- textual inclusion, unconditional three-way form
  (∀ (fs : Files) (pre post ls : List Str) (l f : Str), IsInclude l f → fs.get? f = some ls →
    assemble fs (pre ++ [l] ++ post) = assemble fs (pre ++ ls ++ post) ∨
    assemble fs (pre ++ [l] ++ post) = .internal ∨
    (assemble fs (pre ++ [l] ++ post) = .diag ∧ assemble fs (pre ++ ls ++ post) = .internal)) ∧
  -- textual inclusion, equality
  (∀ (fs : Files) (pre post ls : List Str) (l f : Str), IsInclude l f → fs.get? f = some ls →
    assemble fs (pre ++ [l] ++ post) ≠ .internal → assemble fs (pre ++ ls ++ post) ≠ .internal →
    assemble fs (pre ++ [l] ++ post) = assemble fs (pre ++ ls ++ post)) ∧
  -- nested includes
  (∀ (fs : Files) (a b : List Str) (x : Assembly), Inlines fs a b → assemble fs a = .ok x →
    assemble fs b = .ok x) ∧
  (∀ (fs : Files) (a b : List Str), InlinesG fs a b → assemble fs a ≠ .internal →
    assemble fs a = assemble fs b) ∧
  -- a missing file is a diagnostic
  (∀ (fs : Files) (pre post : List Str) (l f : Str) (rp rq e : List Stmt), IsInclude l f →
    fs.get? f = none → parseLines pre = .ok rp → parseLines post = .ok rq → expand fs (includeFuel fs) [] rp = .ok e →
    assemble fs (pre ++ [l] ++ post) = .diag) ∧
  -- an INCLUDE of a file in the chain of files being processed is a diagnostic
  (∀ (fs : Files) (n : Nat) (inc : List Str) (pre post e : List Stmt) (s : Stmt) (f : Str),
    IsIncludeStmt s f → f ∈ inc → expand fs (n + 1) inc pre = .ok e →
    expand fs (n + 1) inc (pre ++ [s] ++ post) = .diag) ∧
  -- a file that includes itself is a diagnostic
  (∀ (fs : Files) (pre0 post0 : List Str) (l f : Str) (rp0 rq0 e : List Stmt), IsInclude l f →
    fs.get? f = some [l] → parseLines pre0 = .ok rp0 → parseLines post0 = .ok rq0 →
    expand fs (includeFuel fs) [] rp0 = .ok e → assemble fs (pre0 ++ [l] ++ post0) = .diag)

theorem C19_partial : C19_Partial :=
  ⟨include_textual_cases, include_textual,
   fun _ _ _ _ h hok => include_textual_star_ok h hok,
   fun _ _ _ h hne => include_textual_starG h hne,
   include_missing_diag, include_cycle_diag_expand,
   fun fs pre0 post0 l f rp0 rq0 e hl hf hp0 hq0 he =>
     include_cycle_diag fs [] [] pre0 post0 l f [] [] rp0 rq0 e hl hf rfl (by simp) rfl hp0 hq0 he⟩

/-! ### non-vacuity -/

example : IsInclude " INCLUDE a.asm\n".toList "a.asm".toList := isInclude_incA

/-- a run where the hypothesis of `include_textual` holds and the include does something -/
def fsOk : Files := [("a.asm".toList, [" NOP\n".toList, "X RTS\n".toList])]

def fileA : List Str := [" NOP\n".toList, "X RTS\n".toList]

set_option maxRecDepth 100000 in
theorem fileA_plain : ∃ r, parseLines fileA = .ok r ∧ ∀ x ∈ r, x.row.isInclude = false := by
  have h : (match parseLines fileA with | .ok r => r.all (fun x => !x.row.isInclude) | _ => false) = true := by
    decide
  split at h
  · rename_i r hr
    exact ⟨r, hr, by simpa using h⟩
  · cases h

/-- the hypothesis of `include_textual_front_ok` (hence those of `include_textual_strong`) is satisfiable,
and the conclusion is not trivial -/
example : (∃ ss, front fsOk ([] ++ [incA] ++ []) = .ok ss) ∧
    assemble fsOk [incA] = assemble fsOk fileA := by
  obtain ⟨s, hs, h⟩ := isInclude_incA
  have hc := IsInclude.cond h
  obtain ⟨r, hr, hpl⟩ := fileA_plain
  have hf : fsOk.get? s.operand.text = some fileA := by rw [h.2.1]; decide
  have hfr : front fsOk ([] ++ [incA] ++ []) = .ok r := by
    show front fsOk [incA] = _
    exact front_single_include_plain hs hc hf hr hpl
  refine ⟨⟨r, hfr⟩, ?_⟩
  have := (include_textual_front_ok fsOk [] [] fileA incA _ r isInclude_incA (by decide) hfr).2
  simpa using this

end CoCo.Props
