/-
Props/C19.lean — INCLUDE is textual inclusion.

`assemble fs (pre ++ [l] ++ post)` where `l` is an `INCLUDE f` line equals the assembly of the program
in which the line is replaced by the lines of `f`.  The equality needs a side condition: the Python
code (and the model) detect a missing file / unbounded recursion (`internal`) while *expanding*, i.e.
after the whole top-level file has been parsed, but a syntax error inside the included file while
expanding too, whereas after textual substitution the same syntax error is found while *parsing*, before
any expansion.  So when the left side ends in `internal` the right side may end differently
(`C19_finding_order`).  Known finding: a missing include file and an include cycle escape as
FileNotFoundError / RecursionError instead of a diagnostic (`C19_finding_missing`, `C19_finding_cycle`).
Helpers are in Lemmas/FrontInclude.lean.
-/
import CoCoVerif.Lemmas.FrontInclude

namespace CoCo.Props
open CoCo CoCo.Asm

/-- `l` is a well-formed `INCLUDE f` line -/
def IsInclude (l : Str) (f : Str) : Prop :=
  ∃ s, parseLine l = .ok (some s) ∧ s.row.isInclude = true ∧ s.operand.text = f ∧ f ≠ []

/-- executable criterion for `IsInclude` (used for the concrete examples) -/
def isIncludeB (l f : Str) : Bool :=
  match parseLine l with
  | .ok (some s) => s.row.isInclude && s.operand.text == f && !f.isEmpty
  | _ => false

theorem isInclude_of_check {l f : Str} (h : isIncludeB l f = true) : IsInclude l f := by
  unfold isIncludeB at h
  split at h
  · rename_i s hs
    simp only [Bool.and_eq_true, beq_iff_eq, Bool.not_eq_true', List.isEmpty_eq_false_iff] at h
    exact ⟨s, hs, h.1.1, h.1.2, h.2⟩
  · cases h

theorem IsInclude.cond {f : Str} {s : Stmt} (h : s.row.isInclude = true ∧ s.operand.text = f ∧ f ≠ []) :
    (s.row.isInclude && !s.operand.text.isEmpty) = true := by
  obtain ⟨h1, h2, h3⟩ := h
  subst h2
  simp [h1, h3]

/-! ### the statement at full strength (false for the code as it stands) -/

/-- clause 1: unconditional textual inclusion -/
def C19_Textual : Prop :=
  ∀ (fs : Files) (pre post ls : List Str) (l f : Str), IsInclude l f → fs.get? f = some ls →
    assemble fs (pre ++ [l] ++ post) = assemble fs (pre ++ ls ++ post)

/-- clause 2: an INCLUDE of a file that does not exist is diagnosed -/
def C19_MissingDiag : Prop :=
  ∀ (fs : Files) (pre post : List Str) (l f : Str), IsInclude l f → fs.get? f = none →
    assemble fs (pre ++ [l] ++ post) = .diag

/-- clause 3: a file whose only line includes the file itself is diagnosed -/
def C19_CycleDiag : Prop :=
  ∀ (fs : Files) (pre post : List Str) (l f : Str), IsInclude l f → fs.get? f = some [l] →
    assemble fs (pre ++ [l] ++ post) = .diag

def C19_Statement : Prop := C19_Textual ∧ C19_MissingDiag ∧ C19_CycleDiag

/-! ### what holds -/

/-- Strong form: the equality holds as soon as the parse-and-expand stage `front` of the left side does
not end in `internal` (a later `internal`, e.g. an address above 65535, is the same on both sides). -/
theorem include_textual_strong (fs : Files) (pre post ls : List Str) (l f : Str)
    (hl : IsInclude l f) (hf : fs.get? f = some ls)
    (hne : front fs (pre ++ [l] ++ post) ≠ .internal) :
    assemble fs (pre ++ [l] ++ post) = assemble fs (pre ++ ls ++ post) := by
  obtain ⟨s, hs, h⟩ := hl
  have hc := IsInclude.cond h
  obtain ⟨_, h2, _⟩ := h
  subst h2
  exact assemble_congr (front_include hs hc hf hne)

/-- Main theorem of C19.  The hypothesis `≠ .internal` cannot be dropped: a missing file or exhausted
recursion elsewhere in the program is detected at a different moment on the two sides
(see `C19_finding_order`). -/
theorem include_textual (fs : Files) (pre post ls : List Str) (l f : Str)
    (hl : IsInclude l f) (hf : fs.get? f = some ls)
    (hne : assemble fs (pre ++ [l] ++ post) ≠ .internal) :
    assemble fs (pre ++ [l] ++ post) = assemble fs (pre ++ ls ++ post) :=
  include_textual_strong fs pre post ls l f hl hf (front_ne_internal hne)

/-- read right to left: a successful assembly of the substituted program is what the INCLUDE gives,
unless the INCLUDE version escapes with an internal error -/
theorem include_textual_conv (fs : Files) (pre post ls : List Str) (l f : Str)
    (hl : IsInclude l f) (hf : fs.get? f = some ls) :
    assemble fs (pre ++ [l] ++ post) = assemble fs (pre ++ ls ++ post) ∨
    assemble fs (pre ++ [l] ++ post) = .internal := by
  by_cases h : assemble fs (pre ++ [l] ++ post) = .internal
  · exact .inr h
  · exact .inl (include_textual fs pre post ls l f hl hf h)

/-- `b` is obtained from `a` by replacing INCLUDE lines by file contents, any number of times, at any
depth -/
inductive Inlines (fs : Files) : List Str → List Str → Prop
  | refl (a : List Str) : Inlines fs a a
  | step {pre post ls : List Str} {l f : Str} {b : List Str} :
      IsInclude l f → fs.get? f = some ls → Inlines fs (pre ++ ls ++ post) b →
      Inlines fs (pre ++ [l] ++ post) b

/-- nested includes: any sequence of substitutions -/
theorem include_textual_star {fs : Files} {a b : List Str} (h : Inlines fs a b)
    (hne : assemble fs a ≠ .internal) : assemble fs a = assemble fs b := by
  induction h with
  | refl a => rfl
  | step hl hf _ ih =>
    have h1 := include_textual fs _ _ _ _ _ hl hf hne
    rw [h1]
    exact ih (by rw [← h1]; exact hne)

/-- the depth-2 instance: `f` itself contains an `INCLUDE f'` line -/
theorem include_textual_nested (fs : Files) (pre post pre' post' ls' : List Str) (l f l' f' : Str)
    (hl : IsInclude l f) (hf : fs.get? f = some (pre' ++ [l'] ++ post'))
    (hl' : IsInclude l' f') (hf' : fs.get? f' = some ls')
    (hne : assemble fs (pre ++ [l] ++ post) ≠ .internal) :
    assemble fs (pre ++ [l] ++ post) = assemble fs (pre ++ (pre' ++ ls' ++ post') ++ post) := by
  apply include_textual_star _ hne
  refine .step hl hf ?_
  have e1 : pre ++ (pre' ++ [l'] ++ post') ++ post = (pre ++ pre') ++ [l'] ++ (post' ++ post) := by
    simp [List.append_assoc]
  have e2 : pre ++ (pre' ++ ls' ++ post') ++ post = (pre ++ pre') ++ ls' ++ (post' ++ post) := by
    simp [List.append_assoc]
  rw [e1, e2]
  exact .step hl' hf' (.refl _)

/-- Known finding, general form: the file is missing, the rest of the program parses and the includes
before the line expand: `assemble` ends in `internal` (FileNotFoundError escapes). -/
theorem include_missing_internal (fs : Files) (pre post : List Str) (l f : Str) (rp rq e : List Stmt)
    (hl : IsInclude l f) (hf : fs.get? f = none)
    (hp : parseLines pre = .ok rp) (hq : parseLines post = .ok rq) (he : expand fs 64 rp = .ok e) :
    assemble fs (pre ++ [l] ++ post) = .internal := by
  obtain ⟨s, hs, h⟩ := hl
  have hc := IsInclude.cond h
  obtain ⟨_, h2, _⟩ := h
  subst h2
  exact front_internal (front_missing hs hc hf hp hq he)

/-- Known finding, general form: file `f` contains an `INCLUDE f` line (after lines without INCLUDE);
any program that reaches an `INCLUDE f` ends in `internal` (RecursionError escapes). -/
theorem include_cycle_internal (fs : Files) (pre post pre0 post0 : List Str) (l f : Str)
    (rp rq rp0 rq0 e : List Stmt)
    (hl : IsInclude l f) (hf : fs.get? f = some (pre ++ [l] ++ post))
    (hp : parseLines pre = .ok rp) (hnp : ∀ x ∈ rp, x.row.isInclude = false)
    (hq : parseLines post = .ok rq)
    (hp0 : parseLines pre0 = .ok rp0) (hq0 : parseLines post0 = .ok rq0) (he : expand fs 64 rp0 = .ok e) :
    assemble fs (pre0 ++ [l] ++ post0) = .internal := by
  obtain ⟨s, hs, h⟩ := hl
  have hc := IsInclude.cond h
  obtain ⟨_, h2, _⟩ := h
  subst h2
  exact front_internal (front_self_include hs hc hf hp hnp hq hp0 hq0 he)

/-! ### concrete witnesses -/

def incA : Str := " INCLUDE a.asm\n".toList
def incB : Str := "        include  b.asm   ; second file\n".toList
def incM : Str := " INCLUDE m.asm\n".toList

set_option maxRecDepth 100000 in
theorem isInclude_incA : IsInclude incA "a.asm".toList := isInclude_of_check (by decide)
set_option maxRecDepth 100000 in
theorem isInclude_incB : IsInclude incB "b.asm".toList := isInclude_of_check (by decide)
set_option maxRecDepth 100000 in
theorem isInclude_incM : IsInclude incM "m.asm".toList := isInclude_of_check (by decide)

theorem expand_nil (fs : Files) : expand fs 64 [] = .ok [] := by
  rw [show (64 : Nat) = 63 + 1 from rfl, expand_succ, go_nil]

/-- missing file: `INCLUDE a.asm` with an empty host file system -/
theorem missing_example : assemble [] [incA] = .internal :=
  include_missing_internal [] [] [] incA _ [] [] [] isInclude_incA rfl rfl rfl (expand_nil _)

/-- cycle: `a.asm` consists of the line `INCLUDE a.asm` -/
theorem cycle_example : assemble [("a.asm".toList, [incA])] [incA] = .internal :=
  include_cycle_internal _ [] [] [] [] incA _ [] [] [] [] [] isInclude_incA (by decide)
    rfl (by simp) rfl rfl rfl (expand_nil _)

theorem C19_finding_missing : ¬ C19_MissingDiag := by
  intro h
  have := h [] [] [] incA _ isInclude_incA rfl
  rw [show ([] : List Str) ++ [incA] ++ [] = [incA] from rfl, missing_example] at this
  cases this

theorem C19_finding_cycle : ¬ C19_CycleDiag := by
  intro h
  have := h [("a.asm".toList, [incA])] [] [] incA _ isInclude_incA (by decide)
  rw [show ([] : List Str) ++ [incA] ++ [] = [incA] from rfl, cycle_example] at this
  cases this

def bogus : Str := " BOGUS\n".toList

set_option maxRecDepth 100000 in
theorem parseLine_bogus : parseLine bogus = .diag := by
  have : (match parseLine bogus with | .diag => true | _ => false) = true := by decide
  split at this <;> simp_all

/-- The side condition of `include_textual` is needed: `INCLUDE m.asm` (missing) followed by
`INCLUDE b.asm` where `b.asm` holds a syntax error.  With the INCLUDE the run ends in `internal`
(the missing file is hit first, during expansion); after substituting the text of `b.asm` the syntax
error is found first, during parsing: `diag`. -/
theorem order_example :
    assemble [("b.asm".toList, [bogus])] ([incM] ++ [incB] ++ []) = .internal ∧
    assemble [("b.asm".toList, [bogus])] ([incM] ++ [bogus] ++ []) = .diag := by
  constructor
  · obtain ⟨sb, hb, _⟩ := isInclude_incB
    exact include_missing_internal _ [] [incB] incM _ [] [sb] [] isInclude_incM (by decide) rfl
      (parseLines_single_some hb) (expand_nil _)
  · obtain ⟨sm, hm, _⟩ := isInclude_incM
    have : parseLines ([incM] ++ [bogus] ++ []) = .diag := by
      simp [parseLines, hm, parseLine_bogus]
    rw [assemble_eq, front, this]

theorem C19_finding_order : ¬ C19_Textual := by
  intro h
  have := h [("b.asm".toList, [bogus])] [incM] [] [bogus] incB _ isInclude_incB (by decide)
  rw [order_example.1, order_example.2] at this
  cases this

theorem C19_not_full : ¬ C19_Statement := fun h => C19_finding_missing h.2.1

/-! ### the partial statement that is proved -/

def C19_Partial : Prop :=
  (∀ (fs : Files) (pre post ls : List Str) (l f : Str), IsInclude l f → fs.get? f = some ls →
    assemble fs (pre ++ [l] ++ post) ≠ .internal →
    assemble fs (pre ++ [l] ++ post) = assemble fs (pre ++ ls ++ post)) ∧
  (∀ (fs : Files) (a b : List Str), Inlines fs a b → assemble fs a ≠ .internal →
    assemble fs a = assemble fs b) ∧
  (∀ (fs : Files) (pre post : List Str) (l f : Str) (rp rq e : List Stmt), IsInclude l f →
    fs.get? f = none → parseLines pre = .ok rp → parseLines post = .ok rq → expand fs 64 rp = .ok e →
    assemble fs (pre ++ [l] ++ post) = .internal)

theorem C19_partial : C19_Partial :=
  ⟨include_textual, fun _ _ _ h hne => include_textual_star h hne, include_missing_internal⟩

/-! ### non-vacuity -/

example : IsInclude " INCLUDE a.asm\n".toList "a.asm".toList := isInclude_incA

/-- a run where the hypothesis of `include_textual` holds and the include does something -/
def fsOk : Files := [("a.asm".toList, [" NOP\n".toList, "X RTS\n".toList])]

def fileA : List Str := [" NOP\n".toList, "X RTS\n".toList]

set_option maxRecDepth 100000 in
theorem fileA_plain : ∃ r, parseLines fileA = .ok r ∧ ∀ x ∈ r, x.row.isInclude = false := by
  have h : (match parseLines fileA with | .ok r => r.all (fun x => !x.row.isInclude) | _ => false) = true := by
    decide
  split at h
  · rename_i r hr
    exact ⟨r, hr, by simpa using h⟩
  · cases h

/-- the hypothesis of `include_textual_strong` is satisfiable, and the conclusion is not trivial -/
example : front fsOk ([] ++ [incA] ++ []) ≠ .internal ∧
    assemble fsOk [incA] = assemble fsOk fileA := by
  obtain ⟨s, hs, h⟩ := isInclude_incA
  have hc := IsInclude.cond h
  obtain ⟨r, hr, hpl⟩ := fileA_plain
  have hf : fsOk.get? s.operand.text = some fileA := by rw [h.2.1]; decide
  have hfr : front fsOk ([] ++ [incA] ++ []) ≠ .internal := by
    show front fsOk [incA] ≠ _
    rw [front_single_include_plain hs hc hf hr hpl]; simp
  refine ⟨hfr, ?_⟩
  have := include_textual_strong fsOk [] [] fileA incA _ isInclude_incA (by decide) hfr
  simpa using this

end CoCo.Props
