/-
Props/C11Full.lean — C11 without the two hypotheses about the assembler's output.

`C11_partial` (Props/C11.lean) assumed of the accepted program that its image consists of bytes and that the address
`main` derives from the origin's hex string is below 65536.  Both are theorems about the assembler model
(Lemmas/ImageBytes.lean):

* `C11_image_bytes`: every number of the image is below 256 — every hex string a final statement carries (op code, post
  byte, operand field) is made of hex digits, the literal lists of FCB / FDB included (`Value.MOK`, carried from the
  parser through every stage);
* `C11_origin_lt`: the origin is `NoneValue` or the operand of an ORG, a non-negative number of at most 16 bits with a
  size hint of 2 or 4 digits or none (`C11_origin_shape`), whose hex string has at most four hex digits.

`C11_full_partial` is `C11_partial` without them.  What is left of "partial" is the restriction of the INPUT to program
names made of ASCII characters (`AsciiStr (asmName a nm)`) and to a fresh target path (`fs.get? p = none`); the statement
itself is `C11_Statement`, so `C11_Statement_holds` proves it.
-/
import CoCoVerif.Lemmas.ImageBytes
import CoCoVerif.Props.C11

namespace CoCo.Props
open CoCo CoCo.VF

/-- the image of an accepted program consists of bytes -/
theorem C11_image_bytes {incl : Asm.Files} {lines : List (List Char)} {a : Asm.Assembly} {img : Bytes}
    (h : Asm.assemble incl lines = .ok a) (hi : a.image = some img) : ∀ b ∈ img, b < 256 :=
  Asm.image_bytes h hi

/-- the origin of an accepted program: `NoneValue` (no ORG) or a non-negative number of at most 16 bits whose size hint
is none, 2 or 4 -/
theorem C11_origin_shape {incl : Asm.Files} {lines : List (List Char)} {a : Asm.Assembly}
    (h : Asm.assemble incl lines = .ok a) :
    a.origin = .none ∨ ∃ i hint m, a.origin = .numeric i hint m false ∧ i ≤ 65535 ∧
      (hint = none ∨ hint = some 2 ∨ hint = some 4) :=
  Asm.assemble_origin_val h

/-- the load address `main` derives from the origin of an accepted program is a 16-bit address -/
theorem C11_origin_lt {incl : Asm.Files} {lines : List (List Char)} {a : Asm.Assembly}
    (h : Asm.assemble incl lines = .ok a) : originAddr a.origin < 65536 :=
  originAddr_lt h

/-- the file `main` hands to the containers is a valid cassette file, whatever the accepted program (ASCII name) -/
theorem C11_file_valid {incl : Asm.Files} {lines : List (List Char)} {a : Asm.Assembly} {nm : Option (List Char)}
    {img : Bytes} (h : Asm.assemble incl lines = .ok a) (hi : a.image = some img) (hn : AsciiStr (asmName a nm)) :
    ValidFile (asmFile a nm img) :=
  asmFile_valid hn (C11_image_bytes h hi) (C11_origin_lt h)

/-- **C11_full_partial**: `C11_partial` without its two hypotheses about the assembler's output.  For every accepted
program, fresh target `p` and ASCII program name: `--to_bin` writes exactly the image; `--to_cas` writes a well-formed
tape holding exactly the file; `--to_dsk` (when not refused) writes a consistent Disk BASIC image holding exactly the
file; without a name no cassette / disk file is made; a four-digit `ORG` is the load and exec address. -/
theorem C11_full_partial :
    ∀ (fs : FS) (incl : Asm.Files) (lines : List (List Char)) (a : Asm.Assembly) (nm : Option (List Char))
      (ap : Bool) (p : Path) (img : Bytes),
      Asm.assemble incl lines = .ok a → a.image = some img → fs.get? p = none → AsciiStr (asmName a nm) →
      (let r := asmMain fs incl lines { toBin := some p, name := nm, append := ap }
       r.exit = 0 ∧ r.fs.get? p = some img ∧ ∀ q, q ≠ p → r.fs.get? q = fs.get? q) ∧
      (asmName a nm ≠ [] →
        let r := asmMain fs incl lines { toCas := some p, name := nm, append := ap }
        r.exit = 0 ∧ (∀ q, q ≠ p → r.fs.get? q = fs.get? q) ∧
        ∃ b, r.fs.get? p = some b ∧ Spec.Tape.WellFormed [toTape (asmFile a nm img)] b) ∧
      (asmName a nm ≠ [] →
        let r := asmMain fs incl lines { toDsk := some p, name := nm, append := ap }
        r.exit = 0 ∧ (∀ q, q ≠ p → r.fs.get? q = fs.get? q) ∧
        (r.refused = [] → ∃ b, r.fs.get? p = some b ∧ Spec.DiskBasic.Fsck b ∧
          Spec.DiskBasic.read b = some [toDFile (asmFile a nm img)])) ∧
      (asmName a nm = [] → ∀ args : AsmArgs, args.name = nm → args.toBin = none →
        (asmMain fs incl lines args).fs = fs) ∧
      (∀ v m, v < 65536 → a.origin = .numeric v (some 4) m false → (asmFile a nm img).load = v) :=
  fun fs incl lines a nm ap p img ha hi hf hn =>
    C11_partial fs incl lines a nm ap p img ha hi hf hn (C11_image_bytes ha hi) (C11_origin_lt ha)

/-- `C11_Statement` (Props/C11.lean) holds -/
theorem C11_Statement_holds : C11_Statement := C11_full_partial

/-! ### non-vacuity -/

/-- the hypotheses of `C11_full_partial` are satisfiable, with a non-empty name and a four-digit origin: the program
`demoSrc` of Props/C11.lean (`NAM hello`, `ORG $0E00`, two instructions) on an empty file system -/
example : ∃ (fs : FS) (a : Asm.Assembly) (img : Bytes) (p : Path),
    Asm.assemble [] demoSrc = .ok a ∧ a.image = some img ∧ fs.get? p = none ∧ AsciiStr (asmName a none) ∧
    asmName a none ≠ [] := by
  obtain ⟨a, ha, hi, _, hn⟩ := demo_accepted
  refine ⟨[], a, _, [], ha, hi, rfl, ?_, ?_⟩
  · rw [hn]; unfold AsciiStr; decide
  · rw [hn]; decide

/-- … and its conclusions for that program: the image `86 01 39` is what `--to_bin` writes, and the cassette / disk
file is loaded at `$0E00` -/
theorem C11_demo (p : Path) :
    ∃ a, Asm.assemble [] demoSrc = .ok a ∧
      (let r := asmMain [] [] demoSrc { toBin := some p, name := none, append := false }
       r.exit = 0 ∧ r.fs.get? p = some [0x86, 0x01, 0x39]) ∧
      (asmFile a none [0x86, 0x01, 0x39]).load = 0x0E00 ∧
      ValidFile (asmFile a none [0x86, 0x01, 0x39]) := by
  obtain ⟨a, ha, hi, ho, hn⟩ := demo_accepted
  have hascii : AsciiStr (asmName a none) := by rw [hn]; unfold AsciiStr; decide
  obtain ⟨h1, _, _, _, _⟩ := C11_full_partial [] [] demoSrc a none false p _ ha hi rfl hascii
  exact ⟨a, ha, ⟨h1.1, h1.2.1⟩, by show originAddr a.origin = _; rw [ho], C11_file_valid ha hi hascii⟩

end CoCo.Props

#print axioms CoCo.Props.C11_image_bytes
#print axioms CoCo.Props.C11_origin_lt
#print axioms CoCo.Props.C11_full_partial
#print axioms CoCo.Props.C11_Statement_holds
#print axioms CoCo.Props.C11_demo
