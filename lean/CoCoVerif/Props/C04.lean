/-
Props/C04.lean — expressions: what `ExpressionValue.resolve` and `calculate_address_offset`
compute (T5).  Only statements, main theorems, finding witnesses and non-vacuity examples live
here; helpers are in Lemmas/EncodeDecimal.lean and Lemmas/EncodeExpr.lean.

Summary of what the model (bug-compatibly) does:
* the two operands are looked up first (a symbol is replaced by its table entry — an entry that is an EQU EXPRESSION
  by the value of that expression, fix 0f280be: `resolve_symbol_equ_expression`, `C04_equ_expression_fixed`; a
  definition cycle is an error, `C04_equ_expression_cycle`), then their SIGNED values
  (`NumericValue.signed()`: magnitude and `negative` flag; repair batch B2 — before, the magnitudes) are combined;
  division is `int(left / right)`, truncation towards zero;
* the Python int is printed with `"{}".format` and re-read by the STRING constructor, so the range is
  −32768..65535 and everything outside is an error; division by zero is an error;
* the mode of the result is extended if an operand is, else direct — except that a result above 255 is extended
  whatever the operands were (fix A13: `$80+$80` used to become a truncated direct operand);
* `calculate_address_offset` (repair batch B3) computes `left op right` IN THE WRITTEN ORDER on the two operand values —
  a label is the ADDRESS of its statement, a number its SIGNED value, anything else is a diagnostic — reduces a result
  below zero modulo 65536 (every operator) and refuses one above 65535 or a division by zero (`C04_LabelStatement`,
  `C04_label_full`).  (Before B3: `address op constant` on whichever side the address stood.)
-/
import CoCoVerif.Lemmas.EncodeExpr
import CoCoVerif.Lemmas.EncodeWitness
import CoCoVerif.Lemmas.EncodeProgram
import CoCoVerif.Props.C01

namespace CoCo.Props
open CoCo CoCo.Asm

/-! ### the result values -/

theorem numResult_ofNat (m : Mode) (n : Nat) :
    numResult m (n : Int) = if n > 65535 then .error .other else .ok (posNum m n) := by
  have h : ¬ ((n : Int) < 0) := by omega
  simp [numResult, h]

theorem numResult_negOfNat (m : Mode) (n : Nat) (hn : 0 < n) :
    numResult m (-(n : Int)) = if n > 32768 then .error .other else .ok (negNum m n) := by
  have h : (-(n : Int)) < 0 := by omega
  unfold numResult
  rw [if_pos h, Int.natAbs_neg, Int.natAbs_natCast]

/-- `numResult` is the signed range check −32768..65535 (hint and mode as the model picks them) -/
theorem numResult_spec (m : Mode) (z : Int) :
    numResult m z =
      if -32768 ≤ z ∧ z ≤ 65535 then
        .ok (if z < 0 then negNum m z.natAbs else posNum m z.natAbs)
      else .error .other := by
  unfold numResult
  by_cases hz : z < 0
  · by_cases h : z.natAbs > 32768
    · have : ¬ (-32768 ≤ z ∧ z ≤ 65535) := by omega
      simp [hz, h, this]
    · have : (-32768 ≤ z ∧ z ≤ 65535) := by omega
      simp [hz, h, this]
  · by_cases h : z.natAbs > 65535
    · have : ¬ (-32768 ≤ z ∧ z ≤ 65535) := by omega
      simp [hz, h, this]
    · have : (-32768 ≤ z ∧ z ≤ 65535) := by omega
      simp [hz, h, this]

/-! ### `resolve` on two numeric operands, operator by operator

`exprMode ma mb` is `.extended` if either operand is extended or explicit-extended, else `.direct`;
`resMode ma mb z` (the mode of a result `z`) is `.extended` for `z > 255` and `exprMode ma mb` otherwise (fix A13);
`posNum m n = .numeric n (if m = .extended then some 4 else if n < 256 then some 2 else none) m false`,
`negNum m n = .numeric n (if m = .extended then some 4 else none) m true`.
These are the statements for NON-NEGATIVE operands (neg flag `false`); operands of either sign: `resolve_signed`,
`numericArith` below. -/

section numeric
variable (a b : Nat) (ha hb : Option Nat) (ma mb : Mode) (m : Mode) (ae : Bool) (t : SymTab)

theorem resolve_add :
    (Value.expr (.numeric a ha ma false) (.numeric b hb mb false) '+' m ae).resolve t =
      if a + b > 65535 then .error .other else .ok (posNum (resMode ma mb ((a + b : Nat) : Int)) (a + b)) := by
  rw [resolve_expr_numeric]
  have : modelArith '+' (sInt a false) (sInt b false) = some (((a + b : Nat) : Int)) := by simp [modelArith]
  rw [this]; exact numResult_ofNat _ _

theorem resolve_add_ok (h : a + b ≤ 65535) :
    (Value.expr (.numeric a ha ma false) (.numeric b hb mb false) '+' m ae).resolve t =
      .ok (posNum (resMode ma mb ((a + b : Nat) : Int)) (a + b)) := by
  rw [resolve_add]; simp; omega

theorem resolve_add_overflow (h : a + b > 65535) :
    (Value.expr (.numeric a ha ma false) (.numeric b hb mb false) '+' m ae).resolve t = .error .other := by
  rw [resolve_add]; simp [h]

theorem resolve_sub_nonneg (h : b ≤ a) :
    (Value.expr (.numeric a ha ma false) (.numeric b hb mb false) '-' m ae).resolve t =
      if a - b > 65535 then .error .other else .ok (posNum (resMode ma mb ((a - b : Nat) : Int)) (a - b)) := by
  rw [resolve_expr_numeric]
  have : modelArith '-' (sInt a false) (sInt b false) = some (((a - b : Nat) : Int)) := by
    have : (a : Int) - b = ((a - b : Nat) : Int) := by omega
    simp [modelArith, this]
  rw [this]; exact numResult_ofNat _ _

theorem resolve_sub_neg (h : a < b) :
    (Value.expr (.numeric a ha ma false) (.numeric b hb mb false) '-' m ae).resolve t =
      if b - a > 32768 then .error .other else .ok (negNum (exprMode ma mb) (b - a)) := by
  rw [resolve_expr_numeric]
  have : modelArith '-' (sInt a false) (sInt b false) = some (-(((b - a : Nat) : Int))) := by
    have : (a : Int) - b = -((b - a : Nat) : Int) := by omega
    simp [modelArith, this]
  rw [this]
  have hm : resMode ma mb (-(((b - a : Nat) : Int))) = exprMode ma mb := by
    have : ¬ (-(((b - a : Nat) : Int)) > 255) := by omega
    simp [resMode, this]
  simp only [hm]; exact numResult_negOfNat _ _ (by omega)

theorem resolve_mul :
    (Value.expr (.numeric a ha ma false) (.numeric b hb mb false) '*' m ae).resolve t =
      if a * b > 65535 then .error .other else .ok (posNum (resMode ma mb ((a * b : Nat) : Int)) (a * b)) := by
  rw [resolve_expr_numeric]
  have : modelArith '*' (sInt a false) (sInt b false) = some (((a * b : Nat) : Int)) := by simp [modelArith]
  rw [this]; exact numResult_ofNat _ _

theorem resolve_div_zero :
    (Value.expr (.numeric a ha ma false) (.numeric 0 hb mb false) '/' m ae).resolve t = .error .other := by
  rw [resolve_expr_numeric]
  have : modelArith '/' (sInt a false) (sInt 0 false) = none := by simp [modelArith]
  rw [this]

theorem resolve_div (h : b ≠ 0) :
    (Value.expr (.numeric a ha ma false) (.numeric b hb mb false) '/' m ae).resolve t =
      if a / b > 65535 then .error .other else .ok (posNum (resMode ma mb ((a / b : Nat) : Int)) (a / b)) := by
  rw [resolve_expr_numeric]
  have : modelArith '/' (sInt a false) (sInt b false) = some (((a / b : Nat) : Int)) := by simp [modelArith, h]
  rw [this]; exact numResult_ofNat _ _

/-- a 16-bit dividend never overflows -/
theorem resolve_div_ok (h : b ≠ 0) (hab : a ≤ 65535) :
    (Value.expr (.numeric a ha ma false) (.numeric b hb mb false) '/' m ae).resolve t =
      .ok (posNum (resMode ma mb ((a / b : Nat) : Int)) (a / b)) := by
  rw [resolve_div _ _ _ _ _ _ _ _ _ h]
  have : a / b ≤ a := Nat.div_le_self a b
  have : ¬ (a / b > 65535) := by omega
  simp [this]

/-- model oddity (unreachable through `createV`, whose splitter only yields the four operators):
any other operator character resolves to 0 -/
theorem resolve_other_op (op : Char) (h : opChar op = false) :
    (Value.expr (.numeric a ha ma false) (.numeric b hb mb false) op m ae).resolve t =
      .ok (posNum (exprMode ma mb) 0) := by
  rw [resolve_expr_numeric]
  simp only [opChar, Bool.or_eq_false_iff] at h
  have : modelArith op (sInt a false) (sInt b false) = some ((0 : Nat) : Int) := by simp [modelArith, h.1.1.1, h.1.1.2, h.1.2, h.2]
  rw [this]
  have hm : resMode ma mb ((0 : Nat) : Int) = exprMode ma mb := by simp [resMode]
  simp only [hm]; exact numResult_ofNat _ 0

end numeric

/-! ### symbols are looked up first; the result depends only on the lookups -/

theorem resolve_symbol_left (x : Str) (mx : Mode) (a : Nat) (ha : Option Nat) (ma : Mode) (na : Bool)
    (r : Value) (op : Char) (m : Mode) (ae : Bool) (t : SymTab)
    (hx : t.get? x = some (.numeric a ha ma na)) :
    (Value.expr (.symbol x mx) r op m ae).resolve t = (Value.expr (.numeric a ha ma na) r op m ae).resolve t :=
  resolve_expr_symbol_left x mx _ r op m ae t hx rfl rfl

theorem resolve_symbol_right (x : Str) (mx : Mode) (b : Nat) (hb : Option Nat) (mb : Mode) (nb : Bool)
    (l : Value) (op : Char) (m : Mode) (ae : Bool) (t : SymTab)
    (hx : t.get? x = some (.numeric b hb mb nb)) :
    (Value.expr l (.symbol x mx) op m ae).resolve t = (Value.expr l (.numeric b hb mb nb) op m ae).resolve t :=
  resolve_expr_symbol_right x mx _ l op m ae t hx rfl rfl

theorem resolve_undefined_left (x : Str) (mx : Mode) (r : Value) (op : Char) (m : Mode) (ae : Bool)
    (t : SymTab) (hx : t.get? x = none) :
    (Value.expr (.symbol x mx) r op m ae).resolve t = .error .other :=
  resolve_expr_undefined_left x mx r op m ae t hx

theorem resolve_undefined_right (x : Str) (mx : Mode) (l : Value) (op : Char) (m : Mode) (ae : Bool)
    (t : SymTab) (hx : t.get? x = none) :
    (Value.expr l (.symbol x mx) op m ae).resolve t = .error .other :=
  resolve_expr_undefined_right x mx l op m ae t hx

/-- order independence: the result of resolving ANY value depends only on what the table returns for
each name, not on where or when a symbol was entered -/
theorem resolve_depends_only_on_lookup (v : Value) (t1 t2 : SymTab)
    (h : ∀ k, t1.get? k = t2.get? k) : v.resolve t1 = v.resolve t2 :=
  resolve_congr_lookup v t1 t2 h

/-! ### address expressions (`calculate_address_offset`)

Repair batch B3: the two operands are evaluated IN THE WRITTEN ORDER (a label is its statement's address, a number its
signed value; `AddrOpd`), `left op right` is computed on the integers (division truncates towards zero), a result
below zero is reduced modulo 65536 — for every operator — and `NumericValue(int, size_hint=4, mode=EXTENDED)` checks
the upper bound 65535.  A result above 65535 and a division by zero are a TranslationError (`diag`).  (Before B3 the
model computed `address op constant` on whichever side the address stood, and only `-` wrapped.) -/

/-- the general form with the result named: `left op right = z`, and `n` is `z` (or `z mod 65536` below zero) -/
theorem addrOffset_res {ss : List Stmt} {l r : Value} {x y : Int} (hl : AddrOpd ss l x) (hr : AddrOpd ss r y)
    (op : Char) (m : Mode) (ae : Bool) {z : Int} (hz : addrArith op x y = some z) {n : Nat} (hn : addrWrap z = n) :
    addrOffset ss (.expr l r op m ae) =
      if n > 65535 then .diag else .ok (.numeric n (some 4) .extended false) := by
  rw [addrOffset_opd hl hr, hz]
  simp only [hn, Int.toNat_natCast]
  by_cases h : n > 65535
  · have : (n : Int) > 65535 := by omega
    simp [h, this]
  · have : ¬ (n : Int) > 65535 := by omega
    simp [h, this]

/-- ... and when it fits -/
theorem addrOffset_res_ok {ss : List Stmt} {l r : Value} {x y : Int} (hl : AddrOpd ss l x) (hr : AddrOpd ss r y)
    (op : Char) (m : Mode) (ae : Bool) {z : Int} (hz : addrArith op x y = some z) {n : Nat} (hn : addrWrap z = n)
    (hb : n ≤ 65535) :
    addrOffset ss (.expr l r op m ae) = .ok (.numeric n (some 4) .extended false) := by
  rw [addrOffset_res hl hr op m ae hz hn]
  have : ¬ n > 65535 := by omega
  simp [this]

/-- a NEGATIVE result never fails: it is reduced modulo 65536 -/
theorem addrOffset_res_neg {ss : List Stmt} {l r : Value} {x y : Int} (hl : AddrOpd ss l x) (hr : AddrOpd ss r y)
    (op : Char) (m : Mode) (ae : Bool) {z : Int} (hz : addrArith op x y = some z) (hneg : z < 0) :
    addrOffset ss (.expr l r op m ae) = .ok (.numeric (z % 65536).toNat (some 4) .extended false) :=
  addrOffset_res_ok hl hr op m ae hz (by rw [addrWrap_of_neg hneg]; omega) (by omega)

section addr
variable (ss : List Stmt) (ai a k : Nat) (ma mk m : Mode) (hk : Option Nat) (nk ae : Bool)

/-! #### label `op` non-negative constant -/

theorem addrOffset_add (h : addrIntOf ss ai = some a) :
    addrOffset ss (.expr (.address ai ma) (.numeric k hk mk false) '+' m ae) =
      if a + k > 65535 then .diag else .ok (.numeric (a + k) (some 4) .extended false) :=
  addrOffset_res (.label h) .num _ _ _ (z := ((a + k : Nat) : Int)) (by simp [addrArith])
    (addrWrap_of_nonneg (by omega))

theorem addrOffset_add_ok (h : addrIntOf ss ai = some a) (hr : a + k ≤ 65535) :
    addrOffset ss (.expr (.address ai ma) (.numeric k hk mk false) '+' m ae) =
      .ok (.numeric (a + k) (some 4) .extended false) := by
  rw [addrOffset_add ss ai a k ma mk m hk ae h]
  have : ¬ (a + k > 65535) := by omega
  simp [this]

theorem addrOffset_add_overflow (h : addrIntOf ss ai = some a) (hr : a + k > 65535) :
    addrOffset ss (.expr (.address ai ma) (.numeric k hk mk false) '+' m ae) = .diag := by
  rw [addrOffset_add ss ai a k ma mk m hk ae h]; simp [hr]

theorem addrOffset_sub_nonneg (h : addrIntOf ss ai = some a) (hr : k ≤ a) (hb : a - k ≤ 65535) :
    addrOffset ss (.expr (.address ai ma) (.numeric k hk mk false) '-' m ae) =
      .ok (.numeric (a - k) (some 4) .extended false) :=
  addrOffset_res_ok (.label h) .num _ _ _ (z := (a : Int) - k) (by simp [addrArith])
    (by rw [addrWrap_of_nonneg (by omega)]; omega) hb

/-- a result below zero is reduced modulo 65536 (since fix 1477b47; before it the magnitude `k - a` was stored
with the sign flag and encoded as a positive word) -/
theorem addrOffset_sub_neg (h : addrIntOf ss ai = some a) (hr : a < k) (hk16 : k - a ≤ 65536) :
    addrOffset ss (.expr (.address ai ma) (.numeric k hk mk false) '-' m ae) =
      .ok (.numeric (65536 - (k - a)) (some 4) .extended false) :=
  addrOffset_res_ok (.label h) .num _ _ _ (z := (a : Int) - k) (by simp [addrArith])
    (by rw [addrWrap_of_neg (by omega)]; omega) (by omega)

/-- subtraction of a constant from an address below 65536 never fails and always lands in 0..65535 -/
theorem addrOffset_sub_total (h : addrIntOf ss ai = some a) (ha : a ≤ 65535) :
    ∃ z, z ≤ 65535 ∧ addrOffset ss (.expr (.address ai ma) (.numeric k hk mk false) '-' m ae) =
      .ok (.numeric z (some 4) .extended false) ∧ (z : Int) = ((a : Int) - k) % 65536 := by
  by_cases hlt : (a : Int) - k < 0
  · exact ⟨(((a : Int) - k) % 65536).toNat, by omega,
      addrOffset_res_neg (.label h) .num _ _ _ (by simp [addrArith]) hlt, by omega⟩
  · exact ⟨a - k, by omega,
      addrOffset_res_ok (.label h) .num _ _ _ (z := (a : Int) - k) (by simp [addrArith])
        (by rw [addrWrap_of_nonneg (by omega)]; omega) (by omega), by omega⟩

theorem addrOffset_mul (h : addrIntOf ss ai = some a) :
    addrOffset ss (.expr (.address ai ma) (.numeric k hk mk false) '*' m ae) =
      if a * k > 65535 then .diag else .ok (.numeric (a * k) (some 4) .extended false) :=
  addrOffset_res (.label h) .num _ _ _ (z := ((a * k : Nat) : Int)) (by simp [addrArith])
    (addrWrap_of_nonneg (Int.natCast_nonneg _))

theorem addrOffset_div_zero (h : addrIntOf ss ai = some a) :
    addrOffset ss (.expr (.address ai ma) (.numeric 0 hk mk nk) '/' m ae) = .diag := by
  rw [addrOffset_opd (.label h) .num]
  cases nk <;> rfl

theorem addrOffset_div (h : addrIntOf ss ai = some a) (hk0 : k ≠ 0) (hb : a / k ≤ 65535) :
    addrOffset ss (.expr (.address ai ma) (.numeric k hk mk false) '/' m ae) =
      .ok (.numeric (a / k) (some 4) .extended false) :=
  addrOffset_res_ok (.label h) .num _ _ _ (z := ((a / k : Nat) : Int)) (by simp [addrArith, hk0])
    (addrWrap_of_nonneg (Int.natCast_nonneg _)) hb

/-! #### non-negative constant `op` label: the WRITTEN order (repair batch B3) -/

/-- `+` and `*` commute, so the mirrored spelling gives the same result ... -/
theorem addrOffset_mirror_add (h : addrIntOf ss ai = some a) :
    addrOffset ss (.expr (.numeric k hk mk nk) (.address ai ma) '+' m ae) =
      addrOffset ss (.expr (.address ai ma) (.numeric k hk mk nk) '+' m ae) := by
  rw [addrOffset_opd .num (.label h), addrOffset_opd (.label h) .num]
  simp [addrArith, Int.add_comm]

theorem addrOffset_mirror_mul (h : addrIntOf ss ai = some a) :
    addrOffset ss (.expr (.numeric k hk mk nk) (.address ai ma) '*' m ae) =
      addrOffset ss (.expr (.address ai ma) (.numeric k hk mk nk) '*' m ae) := by
  rw [addrOffset_opd .num (.label h), addrOffset_opd (.label h) .num]
  simp [addrArith, Int.mul_comm]

theorem addrOffset_mirror_add_ok (h : addrIntOf ss ai = some a) (hr : a + k ≤ 65535) :
    addrOffset ss (.expr (.numeric k hk mk false) (.address ai ma) '+' m ae) =
      .ok (.numeric (a + k) (some 4) .extended false) := by
  rw [addrOffset_mirror_add ss ai a k ma mk m hk false ae h]
  exact addrOffset_add_ok ss ai a k ma mk m hk ae h hr

/-- ... `k - LABEL` is `k` minus the address: non-negative when the address is not above `k` ... -/
theorem addrOffset_num_sub_label (h : addrIntOf ss ai = some a) (hr : a ≤ k) (hb : k - a ≤ 65535) :
    addrOffset ss (.expr (.numeric k hk mk false) (.address ai ma) '-' m ae) =
      .ok (.numeric (k - a) (some 4) .extended false) :=
  addrOffset_res_ok .num (.label h) _ _ _ (z := (k : Int) - a) (by simp [addrArith])
    (by rw [addrWrap_of_nonneg (by omega)]; omega) hb

/-- ... and reduced modulo 65536 when the address is above `k` (`5-LABEL` with the label at 100 is 65536 − 95; before
the repair the model answered `LABEL-5` = 95) -/
theorem addrOffset_num_sub_label_neg (h : addrIntOf ss ai = some a) (hr : k < a) (hb : a - k ≤ 65536) :
    addrOffset ss (.expr (.numeric k hk mk false) (.address ai ma) '-' m ae) =
      .ok (.numeric (65536 - (a - k)) (some 4) .extended false) :=
  addrOffset_res_ok .num (.label h) _ _ _ (z := (k : Int) - a) (by simp [addrArith])
    (by rw [addrWrap_of_neg (by omega)]; omega) (by omega)

/-- `k/LABEL` divides the constant BY the address (before the repair: the address by the constant) -/
theorem addrOffset_num_div_label (h : addrIntOf ss ai = some a) (ha0 : a ≠ 0) (hb : k / a ≤ 65535) :
    addrOffset ss (.expr (.numeric k hk mk false) (.address ai ma) '/' m ae) =
      .ok (.numeric (k / a) (some 4) .extended false) :=
  addrOffset_res_ok .num (.label h) _ _ _ (z := ((k / a : Nat) : Int)) (by simp [addrArith, ha0])
    (addrWrap_of_nonneg (Int.natCast_nonneg _)) hb

/-- `k/LABEL` with the label at address 0: division by zero, a diagnostic -/
theorem addrOffset_num_div_label_zero (h : addrIntOf ss ai = some 0) :
    addrOffset ss (.expr (.numeric k hk mk nk) (.address ai ma) '/' m ae) = .diag := by
  rw [addrOffset_opd .num (.label h)]; rfl

end addr

/-! ### label `op` label, and operands that are neither (since fix 9045646)

Each operand of a label expression is the ADDRESS of its statement when it is a label, its signed number when numeric,
and anything else is an "unresolved expression" diagnostic.  (Before fix 9045646 the STATEMENT INDEX of a second
label, or the `.int` of an arbitrary value, was used as the constant.) -/

section addr2
variable (ss : List Stmt) (ai aj a b : Nat) (ma mb m : Mode) (ae : Bool)

/-- `L2 - L1` with `L1` not above `L2`: the difference of the two ADDRESSES -/
theorem addrOffset_label_sub_label (h : addrIntOf ss ai = some a) (h' : addrIntOf ss aj = some b)
    (hr : b ≤ a) (hb : a - b ≤ 65535) :
    addrOffset ss (.expr (.address ai ma) (.address aj mb) '-' m ae) =
      .ok (.numeric (a - b) (some 4) .extended false) :=
  addrOffset_res_ok (.label h) (.label h') _ _ _ (z := (a : Int) - b) (by simp [addrArith])
    (by rw [addrWrap_of_nonneg (by omega)]; omega) hb

/-- `L1 - L2` with `L1` below `L2`: the difference reduced modulo 65536 (since fix 1477b47) -/
theorem addrOffset_label_sub_label_neg (h : addrIntOf ss ai = some a) (h' : addrIntOf ss aj = some b)
    (hr : a < b) (hb16 : b - a ≤ 65536) :
    addrOffset ss (.expr (.address ai ma) (.address aj mb) '-' m ae) =
      .ok (.numeric (65536 - (b - a)) (some 4) .extended false) :=
  addrOffset_res_ok (.label h) (.label h') _ _ _ (z := (a : Int) - b) (by simp [addrArith])
    (by rw [addrWrap_of_neg (by omega)]; omega) (by omega)

/-- `L1 + L2`: the sum of the two addresses, a diagnostic when it does not fit 16 bits -/
theorem addrOffset_label_add_label (h : addrIntOf ss ai = some a) (h' : addrIntOf ss aj = some b) :
    addrOffset ss (.expr (.address ai ma) (.address aj mb) '+' m ae) =
      if a + b > 65535 then .diag else .ok (.numeric (a + b) (some 4) .extended false) :=
  addrOffset_res (.label h) (.label h') _ _ _ (z := ((a + b : Nat) : Int)) (by simp [addrArith])
    (addrWrap_of_nonneg (by omega))

/-- `L1 * L2`: the product of the two addresses, a diagnostic when it does not fit 16 bits -/
theorem addrOffset_label_mul_label (h : addrIntOf ss ai = some a) (h' : addrIntOf ss aj = some b) :
    addrOffset ss (.expr (.address ai ma) (.address aj mb) '*' m ae) =
      if a * b > 65535 then .diag else .ok (.numeric (a * b) (some 4) .extended false) :=
  addrOffset_res (.label h) (.label h') _ _ _ (z := ((a * b : Nat) : Int)) (by simp [addrArith])
    (addrWrap_of_nonneg (Int.natCast_nonneg _))

/-- `L1 / L2`: the quotient of the two addresses; `L2` at address 0 is a division by zero (a diagnostic) -/
theorem addrOffset_label_div_label (h : addrIntOf ss ai = some a) (h' : addrIntOf ss aj = some b) :
    addrOffset ss (.expr (.address ai ma) (.address aj mb) '/' m ae) =
      if b = 0 then .diag else if a / b > 65535 then .diag else .ok (.numeric (a / b) (some 4) .extended false) := by
  by_cases hb0 : b = 0
  · subst hb0; rw [addrOffset_opd (.label h) (.label h')]; simp [addrArith]
  · rw [if_neg hb0]
    exact addrOffset_res (.label h) (.label h') _ _ _ (z := ((a / b : Nat) : Int)) (by simp [addrArith, hb0])
      (addrWrap_of_nonneg (Int.natCast_nonneg _))

/-- label `op` label in general: exactly what label `op` number computes for the number `address(L2)` ... -/
theorem addrOffset_label_label_as_number (op : Char) (hk : Option Nat) (mk : Mode)
    (h : addrIntOf ss ai = some a) (h' : addrIntOf ss aj = some b) :
    addrOffset ss (.expr (.address ai ma) (.address aj mb) op m ae) =
      addrOffset ss (.expr (.address ai ma) (.numeric b hk mk false) op m ae) := by
  rw [addrOffset_opd (.label h) (.label h'), addrOffset_opd (.label h) .num]; rfl

/-- ... and what number `op` label computes for the number `address(L1)` -/
theorem addrOffset_label_label_as_number_left (op : Char) (hk : Option Nat) (mk : Mode)
    (h : addrIntOf ss ai = some a) (h' : addrIntOf ss aj = some b) :
    addrOffset ss (.expr (.address ai ma) (.address aj mb) op m ae) =
      addrOffset ss (.expr (.numeric a hk mk false) (.address aj mb) op m ae) := by
  rw [addrOffset_opd (.label h) (.label h'), addrOffset_opd .num (.label h')]; rfl

/-- the statement INDEX of the second label plays no role: two labels with the same address are interchangeable -/
theorem addrOffset_label_label_index_irrelevant (op : Char) (aj' : Nat)
    (h : addrIntOf ss ai = some a) (h' : addrIntOf ss aj = some b) (h'' : addrIntOf ss aj' = some b) :
    addrOffset ss (.expr (.address ai ma) (.address aj mb) op m ae) =
      addrOffset ss (.expr (.address ai ma) (.address aj' mb) op m ae) := by
  rw [addrOffset_opd (.label h) (.label h'), addrOffset_opd (.label h) (.label h'')]

/-- an operand that is neither a number nor a label next to a label (that names a statement): "unresolved expression"
(a diagnostic), on either side -/
theorem addrOffset_unresolved (op : Char) (v : Value) (h : addrIntOf ss ai = some a)
    (hv1 : v.isAddress = false) (hv2 : v.isNumeric = false) :
    addrOffset ss (.expr (.address ai ma) v op m ae) = .diag ∧
    addrOffset ss (.expr v (.address ai ma) op m ae) = .diag :=
  ⟨addrOffset_addr_other ss ai a ma m ae op v h hv1 hv2, addrOffset_other_addr ss m ae op v _ hv1 hv2⟩

end addr2

/-- `L2 - L1` on a concrete three-statement program: `L1` is statement 0 at address 100, `L2` is statement 2 at
address 4196; the result is 4096 = 4196 − 100 (the old model answered 4196 − 0, using the index of `L1`) -/
theorem C04_label_minus_label_concrete :
    addrOffset [{ (default : Stmt) with pkg := { address := .numeric 100 (some 4) .extended false } },
                { (default : Stmt) with pkg := { address := .numeric 103 (some 4) .extended false } },
                { (default : Stmt) with pkg := { address := .numeric 4196 (some 4) .extended false } }]
        (.expr (.address 2 .none) (.address 0 .none) '-' .extended true) =
      .ok (.numeric 4096 (some 4) .extended false) :=
  addrOffset_label_sub_label _ 2 0 4196 100 _ _ _ _ rfl rfl (by decide) (by decide)

/-- `X EQU 1,2` leaves `X` a value that is neither number nor label: `X-L` is an unresolved expression -/
theorem C04_unresolved_concrete (ss : List Stmt) :
    addrOffset ss (.expr (.leftRight "1".toList "2".toList .none) (.address 0 .none) '-' .extended true) = .diag :=
  addrOffset_other_addr ss .extended true '-' _ _ rfl rfl

/-! ### operands of either sign (repair batch B2: `signed()` instead of `.int`) -/

/-- **`resolve` on two numeric operands of either sign**: the integer arithmetic of their SIGNED values
(`sInt n neg` = `-n` when the neg flag is set), range-checked and rendered by `numResult` -/
theorem resolve_signed (a b : Nat) (ha hb : Option Nat) (ma mb : Mode) (na nb : Bool) (op : Char) (m : Mode)
    (ae : Bool) (t : SymTab) :
    (Value.expr (.numeric a ha ma na) (.numeric b hb mb nb) op m ae).resolve t =
      (match modelArith op (sInt a na) (sInt b nb) with
       | none => .error .other
       | some z => numResult (resMode ma mb z) z) :=
  resolve_expr_numeric a b ha hb ma mb na nb op m ae t

/-- the same with the result spelt out: a value in −32768..65535 is returned as magnitude and sign -/
theorem resolve_signed_ok (a b : Nat) (ha hb : Option Nat) (ma mb : Mode) (na nb : Bool) (op : Char) (m : Mode)
    (ae : Bool) (t : SymTab) {z : Int} (hz : modelArith op (sInt a na) (sInt b nb) = some z)
    (h1 : -32768 ≤ z) (h2 : z ≤ 65535) :
    (Value.expr (.numeric a ha ma na) (.numeric b hb mb nb) op m ae).resolve t =
      .ok (if z < 0 then negNum (resMode ma mb z) z.natAbs else posNum (resMode ma mb z) z.natAbs) := by
  rw [resolve_signed, hz]
  simp only [numResult_spec, h1, h2, and_self, if_true]

/-- **`X op Y` with EQU constants of either sign** (`X EQU -5`, `Y EQU -3`): the symbols are looked up and the signed
arithmetic value is returned -/
theorem resolve_symbols_signed (x y : Str) (mx my : Mode) (a b : Nat) (ha hb : Option Nat) (ma mb : Mode)
    (na nb : Bool) (op : Char) (m : Mode) (ae : Bool) (t : SymTab)
    (hx : t.get? x = some (.numeric a ha ma na)) (hy : t.get? y = some (.numeric b hb mb nb)) :
    (Value.expr (.symbol x mx) (.symbol y my) op m ae).resolve t =
      (match modelArith op (sInt a na) (sInt b nb) with
       | none => .error .other
       | some z => numResult (resMode ma mb z) z) := by
  rw [resolve_symbol_left x mx a ha ma na _ op m ae t hx, resolve_symbol_right y my b hb mb nb _ op m ae t hy]
  exact resolve_signed a b ha hb ma mb na nb op m ae t

/-- a plain symbol keeps the sign of its EQU (before the repair: the magnitude) -/
theorem resolve_symbol_signed (x : Str) (mx : Mode) (a : Nat) (ha : Option Nat) (ma : Mode) (na : Bool) (t : SymTab)
    (hx : t.get? x = some (.numeric a ha ma na)) :
    (Value.symbol x mx).resolve t = numericOfInt (sInt a na) none .none := by
  rw [resolve_symbol_of_get hx rfl]
  simp [symPost, Value.isAddress, Value.isNumeric, sInt]

/-- `(−5) + 3 = −2`, `(−5) * (−3) = 15`, `(−7) / 2 = −3` (truncation towards zero), `(−5) − (−3) = −2` -/
example : modelArith '+' (sInt 5 true) (sInt 3 false) = some (-2) ∧ modelArith '*' (sInt 5 true) (sInt 3 true) = some 15 ∧
    modelArith '/' (sInt 7 true) (sInt 2 false) = some (-3) ∧ modelArith '-' (sInt 5 true) (sInt 3 true) = some (-2) := by
  decide

/-- **label `op` signed constant**: `calculate_address_offset` with a constant of either sign -/
theorem addrOffset_signed (ss : List Stmt) (ai a k : Nat) (ma mk m : Mode) (hk : Option Nat) (nk ae : Bool) (op : Char)
    (h : addrIntOf ss ai = some a) :
    addrOffset ss (.expr (.address ai ma) (.numeric k hk mk nk) op m ae) =
      (match addrArith op a (sInt k nk) with | none => .diag | some z => addrResult (addrWrap z)) :=
  addrOffset_addr_num ss ai a k ma mk m hk nk ae op h

/-- **signed constant `op` label**, in the written order -/
theorem addrOffset_signed_left (ss : List Stmt) (ai a k : Nat) (ma mk m : Mode) (hk : Option Nat) (nk ae : Bool) (op : Char)
    (h : addrIntOf ss ai = some a) :
    addrOffset ss (.expr (.numeric k hk mk nk) (.address ai ma) op m ae) =
      (match addrArith op (sInt k nk) a with | none => .diag | some z => addrResult (addrWrap z)) :=
  addrOffset_num_addr ss ai a k ma mk m hk nk ae op h

/-- `L + X` with `X EQU -k`, k not above the address of `L`: the address minus `k` (before repair B2: plus `k`) -/
theorem addrOffset_add_negative (ss : List Stmt) (ai a k : Nat) (ma mk m : Mode) (hk : Option Nat) (ae : Bool)
    (h : addrIntOf ss ai = some a) (hle : k ≤ a) (hb : a - k ≤ 65535) :
    addrOffset ss (.expr (.address ai ma) (.numeric k hk mk true) '+' m ae) =
      .ok (.numeric (a - k) (some 4) .extended false) :=
  addrOffset_res_ok (.label h) .num _ _ _ (z := (a : Int) + -(k : Int)) (by simp [addrArith])
    (by rw [addrWrap_of_nonneg (by omega)]; omega) hb

/-- `L + X` with `X EQU -k`, k ABOVE the address of `L`: the address minus `k` modulo 65536 (repair batch B3; before it
the result kept its minus sign and a `L+X,PCR` operand aimed `k` bytes BEHIND the label, `C03_pcr_plus_negative_finding`) -/
theorem addrOffset_add_negative_wrap (ss : List Stmt) (ai a k : Nat) (ma mk m : Mode) (hk : Option Nat) (ae : Bool)
    (h : addrIntOf ss ai = some a) (hlt : a < k) (hb : k - a ≤ 65536) :
    addrOffset ss (.expr (.address ai ma) (.numeric k hk mk true) '+' m ae) =
      .ok (.numeric (65536 - (k - a)) (some 4) .extended false) :=
  addrOffset_res_ok (.label h) .num _ _ _ (z := (a : Int) + -(k : Int)) (by simp [addrArith])
    (by rw [addrWrap_of_neg (by omega)]; omega) (by omega)

/-- `L - X` with `X EQU -k`: the address plus `k`; a diagnostic when that leaves the 16 bits (since repair batch B3 only
results BELOW zero are reduced; before, every difference was taken modulo 65536) -/
theorem addrOffset_sub_negative (ss : List Stmt) (ai a k : Nat) (ma mk m : Mode) (hk : Option Nat) (ae : Bool)
    (h : addrIntOf ss ai = some a) :
    addrOffset ss (.expr (.address ai ma) (.numeric k hk mk true) '-' m ae) =
      if a + k > 65535 then .diag else .ok (.numeric (a + k) (some 4) .extended false) :=
  addrOffset_res (.label h) .num _ _ _ (z := ((a + k : Nat) : Int)) (by simp [addrArith])
    (addrWrap_of_nonneg (by omega))

/-- `L * X` with `X EQU -k`: minus the product, modulo 65536 -/
theorem addrOffset_mul_negative (ss : List Stmt) (ai a k : Nat) (ma mk m : Mode) (hk : Option Nat) (ae : Bool)
    (h : addrIntOf ss ai = some a) (hpos : 0 < a * k) :
    addrOffset ss (.expr (.address ai ma) (.numeric k hk mk true) '*' m ae) =
      .ok (.numeric ((-((a * k : Nat) : Int)) % 65536).toNat (some 4) .extended false) :=
  addrOffset_res_neg (.label h) .num _ _ _ (z := -((a * k : Nat) : Int)) (by simp [addrArith, Int.mul_neg]) (by omega)

/-- `X - L` with `X EQU -k`: minus (k + address), modulo 65536 -/
theorem addrOffset_negative_sub_label (ss : List Stmt) (ai a k : Nat) (ma mk m : Mode) (hk : Option Nat) (ae : Bool)
    (h : addrIntOf ss ai = some a) (hpos : 0 < k + a) :
    addrOffset ss (.expr (.numeric k hk mk true) (.address ai ma) '-' m ae) =
      .ok (.numeric ((-((k + a : Nat) : Int)) % 65536).toNat (some 4) .extended false) :=
  addrOffset_res_neg .num (.label h) _ _ _ (z := -((k + a : Nat) : Int))
    (by simp [addrArith]; omega) (by omega)

/-! ### a negative value as a memory operand: extended, the address modulo 65536 -/

/-- `resolve_symbols` of an operand whose value resolves to a NEGATIVE number: never a direct operand (even when the
magnitude is below 256, even with an explicit `<`); it becomes an ExtendedOperand carrying the signed value -/
theorem resolveOperand_unknown_negative (row : Gen.InstrRow) (s : Str) (v0 : Value) (t : SymTab) {i : Nat}
    {h : Option Nat} {m : Mode} (hv : v0.resolve t = .ok (.numeric i h m true)) :
    resolveOperand { kind := .unknown, text := s, value := v0 } row t =
      .ok { kind := .extended, text := s, value := .numeric i h m true } := by
  cases hx : v0.isExplicitExtended <;> simp [resolveOperand, hv, hx]

/-- ... and the extended operand of a negative value −i, 1 ≤ i ≤ 32768, is encoded as the address 65536 − i -/
theorem C04_negative_extended {r : Gen.InstrRow} (hr : r ∈ Gen.instructions) (hp : r.isPseudo = false)
    {o : Asm.Operand} {c i : Nat} {h : Option Nat} {m : Mode} (hk : o.kind = .extended) (hc : r.ext = some c)
    (hv : o.value = .numeric i h m true) (h1 : 1 ≤ i) (h2 : i ≤ 32768) : Encodes o r (.ext (65536 - i)) := by
  have hf : fitsWord i true = true := by simp [fitsWord]; omega
  have hw : wordField i true = 65536 - i := by simp only [wordField, if_true]; omega
  have := enc_ext_gen (ad := [wordField i true / 256, wordField i true % 256]) (operand := .ext (wordField i true))
    hp (notSpecial_of_ext hr hc) hk hc (cell_ext hr hp hc).1 hv (.word hf) (by simpa using (cell_ext hr hp hc).2)
    (by simp [decodeTail, hi_lo])
  rwa [hw] at this

/-! ### repaired findings (kernel-checked witnesses on the same source statements) -/

/-- REPAIRED (batch B2; formerly `C04_finding_neg_operand_ignored`: 8): with `X EQU -5`, `X+3` resolves to −2 -/
theorem C04_finding_neg_operand_ignored_fixed :
    (Value.expr (.symbol ['X'] .none) (.numeric 3 (some 2) .direct false) '+' .none false).resolve
        [(['X'], .numeric 5 none .none true)] = .ok (.numeric 2 none .direct true) := by
  rw [resolve_symbol_left ['X'] .none 5 none .none true _ _ _ _ _ rfl,
    resolve_signed_ok 5 3 none (some 2) .none .direct true false '+' .none false _ (z := -2) (by decide) (by decide)
      (by decide)]
  rfl

/-- REPAIRED (batch B3; formerly `C04_finding_const_minus_address`: `5-LABEL` was computed as `LABEL-5`, +95 with the
label at address 100): constant minus address, −95, stored modulo 65536 as 65441 = `$FFA1` -/
theorem C04_finding_const_minus_address_fixed (ss : List Stmt) (ai : Nat) (h : addrIntOf ss ai = some 100) :
    addrOffset ss (.expr (.numeric 5 (some 2) .direct false) (.address ai .none) '-' .extended true) =
      .ok (.numeric 65441 (some 4) .extended false) :=
  addrOffset_num_sub_label_neg ss ai 100 5 _ _ _ _ _ h (by decide) (by decide)

/-- the same on a concrete one-statement program -/
theorem C04_finding_const_minus_address_concrete_fixed :
    addrOffset [{ (default : Stmt) with pkg := { address := .numeric 100 (some 4) .extended false } }]
        (.expr (.numeric 5 (some 2) .direct false) (.address 0 .none) '-' .extended true) =
      .ok (.numeric 65441 (some 4) .extended false) :=
  C04_finding_const_minus_address_fixed _ 0 rfl

/-- REPAIRED (batch B3; formerly `C04_finding_const_div_address`: `20/LABEL` was computed as `LABEL/20` = 5): the
constant divided by the address, 20/100 = 0; and `$4000/LABEL` with the label at 100 is 163 -/
theorem C04_finding_const_div_address_fixed (ss : List Stmt) (ai : Nat) (h : addrIntOf ss ai = some 100) :
    addrOffset ss (.expr (.numeric 20 (some 2) .direct false) (.address ai .none) '/' .extended true) =
      .ok (.numeric 0 (some 4) .extended false) ∧
    addrOffset ss (.expr (.numeric 0x4000 none .extended false) (.address ai .none) '/' .extended true) =
      .ok (.numeric 163 (some 4) .extended false) :=
  ⟨addrOffset_num_div_label ss ai 100 20 _ _ _ _ _ h (by decide) (by decide),
   addrOffset_num_div_label ss ai 100 0x4000 _ _ _ _ _ h (by decide) (by decide)⟩

/-! ### the result mode (fix A13) and the sign of the result (batch B2) -/

/-- REPAIRED (A13): a sum of two direct-page values that leaves the direct page is an EXTENDED value with size hint 4
(before the repair it stayed direct and the operand was truncated) -/
theorem resolve_add_leaves_direct_page (a b : Nat) (ha hb : Option Nat) (ma mb : Mode) (m : Mode)
    (ae : Bool) (t : SymTab) (h1 : 256 ≤ a + b) (h2 : a + b ≤ 65535) :
    (Value.expr (.numeric a ha ma false) (.numeric b hb mb false) '+' m ae).resolve t =
      .ok (.numeric (a + b) (some 4) .extended false) := by
  rw [resolve_add_ok a b ha hb ma mb m ae t h2]
  have hm : resMode ma mb ((a + b : Nat) : Int) = .extended := by
    have : ((a + b : Nat) : Int) > 255 := by omega
    unfold resMode; rw [if_pos this]
  rw [hm]; simp [posNum]

/-- ... and a result that stays below 256 keeps the mode of its operands -/
theorem resolve_add_stays (a b : Nat) (ha hb : Option Nat) (ma mb : Mode) (m : Mode)
    (ae : Bool) (t : SymTab) (h : a + b ≤ 255) :
    (Value.expr (.numeric a ha ma false) (.numeric b hb mb false) '+' m ae).resolve t =
      .ok (posNum (exprMode ma mb) (a + b)) := by
  rw [resolve_add_ok a b ha hb ma mb m ae t (by omega)]
  have hm : resMode ma mb ((a + b : Nat) : Int) = exprMode ma mb := by
    have : ¬ ((a + b : Nat) : Int) > 255 := by omega
    unfold resMode; rw [if_neg this]
  rw [hm]

/-- the hypotheses are met by what the parser builds for `$F0+$20` -/
example : ∃ v, createV "$F0+$20".toList false false = .ok v ∧
    v.resolve [] = .ok (.numeric 0x110 (some 4) .extended false) :=
  ⟨.expr (.numeric 0xF0 (some 2) .direct false) (.numeric 0x20 (some 2) .direct false) '+' .extended false, rfl,
    resolve_add_leaves_direct_page 0xF0 0x20 _ _ _ _ _ _ _ (by decide) (by decide)⟩

/-- the same end to end: `LDA $F0+$20` is the extended `B6 01 10`, `LDA $10+$20` the direct `96 30` -/
theorem C04_direct_sum_fixed :
    asmOne "LDA" "$F0+$20" = some (3, [0xB6, 0x01, 0x10]) ∧ asmOne "LDA" "$10+$20" = some (2, [0x96, 0x30]) := by
  decide +kernel

/-- REPAIRED (batch B2; formerly `C04_finding_negative_result_loses_sign`: `96 FE`, `96 01`): a NEGATIVE expression
result as a memory operand is an extended operand, the address modulo 65536: `LDA 1-$FF` is `B6 FF 02` (−254),
`LDA 1-2` is `B6 FF FF`; as an immediate the sign was and is kept -/
theorem C04_finding_negative_result_loses_sign_fixed :
    asmOne "LDA" "1-$FF" = some (3, [0xB6, 0xFF, 0x02]) ∧ asmOne "LDA" "1-2" = some (3, [0xB6, 0xFF, 0xFF]) ∧
    asmOne "LDA" "#1-2" = some (2, [0x86, 0xFF]) ∧ asmOne "LDX" "#1-2" = some (3, [0x8E, 0xFF, 0xFF]) := by
  decide +kernel

/-- whole-program witness: the image of an INCLUDE-free program -/
theorem image_of (lines : List Str) (img : Bytes) (h : progCheck lines (fun a => a.image == some img) = true)
    (fs : Files) : ∃ a, assemble fs lines = .ok a ∧ a.image = some img := progImage_sound h fs

/-! ### an EQU defined by an expression (fixes 0f280be, d7356d4; finding C4 closed)

`get_symbol` evaluates the expression where the symbol is used (`resolveF`, one unit of fuel per level), and the pass
`evalSyms` replaces the table entry by its value before the table is listed. -/

/-- REPAIRED (batch 4, fix 0f280be; formerly `C04_finding_equ_expression`: a diagnostic, "a symbol defined by `EQU` of
an EXPRESSION has no value when it is used"): `X EQU 1+2`, `LDA #X` is `86 03` -/
theorem C04_finding_equ_expression_fixed (fs : Files) :
    ∃ a, assemble fs ["X EQU 1+2\n".toList, " LDA #X\n".toList] = .ok a ∧ a.image = some [0x86, 0x03] :=
  image_of _ _ (by decide +kernel) fs

/-- the same with a 16-bit register: `R EQU 1+2`, `LDX #R` is `8E 00 03` -/
theorem C04_equ_expression_fixed (fs : Files) :
    ∃ a, assemble fs ["R EQU 1+2\n".toList, " LDX #R\n".toList] = .ok a ∧ a.image = some [0x8E, 0x00, 0x03] :=
  image_of _ _ (by decide +kernel) fs

/-- ... and the symbol table lists the VALUE of the expression (`evalSyms`) -/
theorem C04_equ_expression_symtab (fs : Files) :
    ∃ a, assemble fs ["R EQU 1+2\n".toList, " LDX #R\n".toList] = .ok a ∧
      symtabLines a.symtab = some ["$03   R".toList] := by
  obtain ⟨a, ha, hc⟩ := progCheck_sound (check := fun a => symtabLines a.symtab == some ["$03   R".toList])
    (lines := ["R EQU 1+2\n".toList, " LDX #R\n".toList]) (by decide +kernel) fs
  exact ⟨a, ha, by simpa using hc⟩

/-- **an EQU defined by an expression of constants, used as a plain symbol**: the symbol resolves to the arithmetic
value of the expression (in −32768..65535), exactly as if the EQU had been written with that number -/
theorem resolve_symbol_equ_expression (x : Str) (mx : Mode) (a b : Nat) (ha hb : Option Nat) (ma mb : Mode)
    (na nb : Bool) (op : Char) (m : Mode) (t : SymTab)
    (hx : t.get? x = some (.expr (.numeric a ha ma na) (.numeric b hb mb nb) op m false))
    {z : Int} (hz : modelArith op (sInt a na) (sInt b nb) = some z) (h1 : -32768 ≤ z) (h2 : z ≤ 65535) :
    (Value.symbol x mx).resolve t = numericOfInt z none .none := by
  rw [resolve_symbol_of_expr hx rfl]
  cases t with
  | nil => cases hx
  | cons e t' =>
    rw [List.length_cons, resolveF_expr_numeric, hz]
    simp only [numResult_spec, h1, h2, and_self, if_true]
    by_cases hneg : z < 0
    · have : (-(z.natAbs : Int)) = z := by omega
      simp [hneg, negNum, symPost, Value.isAddress, Value.isNumeric, this]
    · have : ((z.natAbs : Nat) : Int) = z := by omega
      simp [hneg, posNum, symPost, Value.isAddress, Value.isNumeric, this]

/-- an EQU expression that cannot be evaluated (overflow, division by zero) makes the symbol an error where it is used -/
theorem resolve_symbol_equ_expression_error (x : Str) (mx : Mode) (a b : Nat) (ha hb : Option Nat) (ma mb : Mode)
    (na nb : Bool) (op : Char) (m : Mode) (t : SymTab)
    (hx : t.get? x = some (.expr (.numeric a ha ma na) (.numeric b hb mb nb) op m false))
    (hz : ∀ z, modelArith op (sInt a na) (sInt b nb) = some z → ¬ (-32768 ≤ z ∧ z ≤ 65535)) :
    (Value.symbol x mx).resolve t = .error .other := by
  rw [resolve_symbol_of_expr hx rfl]
  cases t with
  | nil => cases hx
  | cons e t' =>
    rw [List.length_cons, resolveF_expr_numeric]
    cases hm : modelArith op (sInt a na) (sInt b nb) with
    | none => rfl
    | some z => simp only [numResult_spec, hz z hm, if_false]

/-- **the same inside an expression**: an operand that names an EQU expression of constants stands for its value -/
theorem resolve_expr_equ_expression_left (x : Str) (mx : Mode) (a b : Nat) (ha hb : Option Nat) (ma mb : Mode)
    (na nb : Bool) (op : Char) (m : Mode) (r : Value) (op' : Char) (m' : Mode) (ae : Bool) (t : SymTab)
    (hx : t.get? x = some (.expr (.numeric a ha ma na) (.numeric b hb mb nb) op m false))
    {z : Int} (hz : modelArith op (sInt a na) (sInt b nb) = some z) (h1 : -32768 ≤ z) (h2 : z ≤ 65535) :
    (Value.expr (.symbol x mx) r op' m' ae).resolve t =
      (Value.expr (if z < 0 then negNum (resMode ma mb z) z.natAbs else posNum (resMode ma mb z) z.natAbs) r op' m' ae).resolve t := by
  cases t with
  | nil => cases hx
  | cons e t' =>
    refine resolve_expr_symbol_left_expr x mx _ _ r op' m' ae _ hx rfl ?_ ?_
    · rw [List.length_cons, resolveF_expr_numeric, hz]
      simp only [numResult_spec, h1, h2, and_self, if_true]
    · split <;> rfl

/-- a chain of EQU expressions is followed: `A EQU B+1`, `B EQU C*2`, `C EQU 5`: `A` = 11, `A+B` = 21; the symbol table
lists the three values -/
theorem C04_equ_expression_chain (fs : Files) :
    ∃ a, assemble fs ["A EQU B+1\n".toList, "B EQU C*2\n".toList, "C EQU 5\n".toList, " LDX #A\n".toList,
        " LDA #A+B\n".toList] = .ok a ∧
      a.image = some [0x8E, 0x00, 0x0B, 0x86, 0x15] ∧
      symtabLines a.symtab = some ["$000B A".toList, "$000A B".toList, "$0005 C".toList] := by
  obtain ⟨a, ha, hc⟩ := progCheck_sound
    (check := fun a => a.image == some [0x8E, 0x00, 0x0B, 0x86, 0x15] &&
      symtabLines a.symtab == some ["$000B A".toList, "$000A B".toList, "$0005 C".toList])
    (lines := ["A EQU B+1\n".toList, "B EQU C*2\n".toList, "C EQU 5\n".toList, " LDX #A\n".toList,
      " LDA #A+B\n".toList]) (by decide +kernel) fs
  simp only [Bool.and_eq_true, beq_iff_eq] at hc
  exact ⟨a, ha, hc.1, hc.2⟩

/-- a definition CYCLE (`A EQU B+1`, `B EQU A+1`; Python's RecursionError, the fuel of `resolveF` running out) is a
diagnostic, whether the symbol is used (`LDX #A`) or not (`evalSyms` evaluates every EQU expression); so is an EQU
expression that divides by zero -/
theorem C04_equ_expression_cycle (fs : Files) :
    assemble fs ["A EQU B+1\n".toList, "B EQU A+1\n".toList, " LDX #A\n".toList] = .diag ∧
    assemble fs ["A EQU A+1\n".toList, " NOP\n".toList] = .diag ∧
    assemble fs ["A EQU 7/0\n".toList, " NOP\n".toList] = .diag :=
  ⟨progDiag_sound (by decide +kernel) fs, progDiag_sound (by decide +kernel) fs, progDiag_sound (by decide +kernel) fs⟩

/-- the cycle at the level of `resolve`: fuel `t.length + 1` = 3 runs out -/
theorem C04_equ_expression_cycle_resolve :
    (Value.symbol ['A'] .none).resolve
      [(['A'], .expr (.symbol ['B'] .none) (.numeric 1 (some 2) .direct false) '+' .extended false),
       (['B'], .expr (.symbol ['A'] .none) (.numeric 1 (some 2) .direct false) '+' .extended false)] =
      .error .other := rfl

/-- **a definition that needs itself never has a value**, in general: if the EQU expression of `x` names `x` as an
operand (on either side), `x` is an error wherever it is used, whatever else the table holds (Python: RecursionError) -/
theorem resolve_symbol_self_reference (x : Str) (mx mx' : Mode) (o : Value) (op : Char) (m : Mode) (t : SymTab)
    (hx : t.get? x = some (.expr (.symbol x mx') o op m false) ∨ t.get? x = some (.expr o (.symbol x mx') op m false)) :
    (Value.symbol x mx).resolve t = .error .other := by
  have key : ∀ e, t.get? x = some e → e.isExpression = true →
      (∀ n, resolveStep (getSymF n (t.without x)) e = .error .other) →
      (Value.symbol x mx).resolve t = .error .other := by
    intro e he hexp hstep
    rw [resolve_symbol_of_expr he hexp]
    cases hr : resolveF t.length e t with
    | error err => rw [resolveF_isExpression_error hexp hr]
    | ok s =>
      have h1 := resolveF_to_without t x e he hexp _ _ hr
      cases hn : t.length with
      | zero => rw [hn] at h1; cases h1
      | succ n => rw [hn, resolveF_succ, hstep n] at h1; cases h1
  have hnone : ∀ n, getSymF n (t.without x) x = .error .other := fun n =>
    getSymF_none (by rw [SymTab.get?_without]; simp)
  rcases hx with hx | hx
  · refine key _ hx rfl (fun n => ?_)
    simp only [resolveStep, lookStep_symbol, hnone]
  · refine key _ hx rfl (fun n => ?_)
    simp only [resolveStep, lookStep_symbol, hnone]
    split <;> simp_all

/-- REPAIRED (fix 4e31349): a symbol may contain `_` (and `@`, also as an operand of an expression): `MY_SYM EQU 5`,
`LDA #MY_SYM` is `86 05`, `LDA #MY_SYM+1` is `86 06`, the label `A_B` is an address; `X@ EQU 2`, `X@+1` = `1+X@` = 3 -/
theorem C04_symbol_characters_fixed (fs : Files) :
    (∃ a, assemble fs ["MY_SYM EQU 5\n".toList, " LDA #MY_SYM\n".toList, " LDA #MY_SYM+1\n".toList, "A_B NOP\n".toList,
        " LDX #A_B\n".toList] = .ok a ∧ a.image = some [0x86, 0x05, 0x86, 0x06, 0x12, 0x8E, 0x00, 0x04]) ∧
    (∃ a, assemble fs ["X@ EQU 2\n".toList, " LDA #X@+1\n".toList, " LDA #1+X@\n".toList] = .ok a ∧
      a.image = some [0x86, 0x03, 0x86, 0x03]) :=
  ⟨image_of _ _ (by decide +kernel) fs, image_of _ _ (by decide +kernel) fs⟩

/-- an EQU of a LABEL expression (fix d7356d4): `L NOP`, `E EQU L+1` — the symbol table lists `E` as the address of `L`
plus one -/
theorem C04_equ_label_expression_symtab (fs : Files) :
    ∃ a, assemble fs ["L NOP\n".toList, "E EQU L+1\n".toList, " NOP\n".toList] = .ok a ∧
      symtabLines a.symtab = some ["$00   L".toList, "$0001 E".toList] := by
  obtain ⟨a, ha, hc⟩ := progCheck_sound
    (check := fun a => symtabLines a.symtab == some ["$00   L".toList, "$0001 E".toList])
    (lines := ["L NOP\n".toList, "E EQU L+1\n".toList, " NOP\n".toList]) (by decide +kernel) fs
  exact ⟨a, ha, by simpa using hc⟩

/-- REPAIRED (batch B3, C3; formerly `C04_finding_label_index_offset`: a diagnostic): a label as a constant (non-PCR)
index offset is assembled in the 16-bit offset form, the label's ADDRESS being the offset: `L` at 0, `LDA L,X` is
`A6 89 00 00` -/
theorem C04_finding_label_index_offset_fixed (fs : Files) :
    ∃ a, assemble fs ["L NOP\n".toList, " LDA L,X\n".toList] = .ok a ∧ a.image = some [0x12, 0xA6, 0x89, 0x00, 0x00] :=
  image_of _ _ (by decide +kernel) fs

/-- REPAIRED (batch B2; formerly `C04_finding_negative_equ`: `86 05`): a negative EQU constant keeps its sign,
`X EQU -5`, `LDA #X` is `86 FB` -/
theorem C04_finding_negative_equ_fixed (fs : Files) :
    ∃ a, assemble fs ["X EQU -5\n".toList, " LDA #X\n".toList] = .ok a ∧ a.image = some [0x86, 0xFB] :=
  image_of _ _ (by decide +kernel) fs

/-- `X EQU -5`, `LDX #X` is `8E FF FB` -/
theorem C04_negative_equ_word (fs : Files) :
    ∃ a, assemble fs ["X EQU -5\n".toList, " LDX #X\n".toList] = .ok a ∧ a.image = some [0x8E, 0xFF, 0xFB] :=
  image_of _ _ (by decide +kernel) fs

/-- `X EQU -5` is listed in the symbol table as `$FFFB` (`numHex`: four digits hold the 16-bit two's complement) -/
theorem C04_negative_equ_symtab (fs : Files) :
    ∃ a, assemble fs ["X EQU -5\n".toList, " LDX #X\n".toList] = .ok a ∧
      symtabLines a.symtab = some ["$FFFB X".toList] := by
  obtain ⟨a, ha, hc⟩ := progCheck_sound (check := fun a => symtabLines a.symtab == some ["$FFFB X".toList])
    (lines := ["X EQU -5\n".toList, " LDX #X\n".toList]) (by decide +kernel) fs
  exact ⟨a, ha, by simpa using hc⟩

/-- `X EQU -5`, `LDA X`: the memory operand is the extended address `$FFFB` -/
theorem C04_negative_equ_memory (fs : Files) :
    ∃ a, assemble fs ["X EQU -5\n".toList, " LDA X\n".toList] = .ok a ∧ a.image = some [0xB6, 0xFF, 0xFB] :=
  image_of _ _ (by decide +kernel) fs

/-- `X EQU -5`, `Y EQU -3`: `X*Y` = 15, `X/Y` = 1, `X-Y` = −2, `X+Y` = −8, and `X EQU -7`: `X/2` = −3 -/
theorem C04_negative_equ_arith (fs : Files) :
    (∃ a, assemble fs ["X EQU -5\n".toList, "Y EQU -3\n".toList, " LDA #X*Y\n".toList, " LDA #X/Y\n".toList,
        " LDA #X-Y\n".toList, " LDX #X+Y\n".toList] = .ok a ∧
      a.image = some [0x86, 0x0F, 0x86, 0x01, 0x86, 0xFE, 0x8E, 0xFF, 0xF8]) ∧
    (∃ a, assemble fs ["X EQU -7\n".toList, " LDA #X/2\n".toList, " LDA #X+3\n".toList] = .ok a ∧
      a.image = some [0x86, 0xFD, 0x86, 0xFC]) :=
  ⟨image_of _ _ (by decide +kernel) fs, image_of _ _ (by decide +kernel) fs⟩

/-- label ± negative constant: `X EQU -5`, `L` at address 0: `L+X` is `$FFFB`, `L-X` is 5 -/
theorem C04_label_negative_constant (fs : Files) :
    ∃ a, assemble fs ["X EQU -5\n".toList, "L NOP\n".toList, " LDX #L+X\n".toList, " LDX #L-X\n".toList] = .ok a ∧
      a.image = some [0x12, 0x8E, 0xFF, 0xFB, 0x8E, 0x00, 0x05] :=
  image_of _ _ (by decide +kernel) fs

/-- label expressions in the WRITTEN order, end to end (repair batch B3): `L` at `$1001`: `5-L` = 5 − `$1001` = `$F004`
(modulo 65536), `$4000/L` = 3; the old model answered `$0FFC` and `$1001/$4000` = 0 -/
theorem C04_label_order_programs (fs : Files) :
    ∃ a, assemble fs [" ORG $1000\n".toList, " NOP\n".toList, "L FDB $2000\n".toList, " LDX #5-L\n".toList,
        " LDX #$4000/L\n".toList] = .ok a ∧
      a.image = some [0x12, 0x20, 0x00, 0x8E, 0xF0, 0x04, 0x8E, 0x00, 0x03] :=
  image_of _ _ (by decide +kernel) fs

/-- `L+N` with `N EQU -5` and `L` at address 1: −4, stored modulo 65536 as `$FFFC` (repair batch B3) — as an immediate
`8E FF FC`, and before `,PCR` the operand aims at `$FFFC` (`A6 8C F4`: −12 from `$0008`), no longer 5 bytes behind `L` -/
theorem C04_label_plus_negative_wraps (fs : Files) :
    ∃ a, assemble fs ["N EQU -5\n".toList, " NOP\n".toList, "L NOP\n".toList, " LDX #L+N\n".toList,
        " LDA L+N,PCR\n".toList] = .ok a ∧
      a.image = some [0x12, 0x12, 0x8E, 0xFF, 0xFC, 0xA6, 0x8C, 0xF4] :=
  image_of _ _ (by decide +kernel) fs

/-- `L-X` with `X EQU -5` and `L` at `$FFFE`: `$FFFE + 5` leaves the 16 bits, a diagnostic ("integer value cannot
exceed 65535"); `L+X` in the same place is `$FFF9` -/
theorem C04_label_minus_negative_overflow (fs : Files) :
    assemble fs [" ORG $FFFE\n".toList, "X EQU -5\n".toList, "L NOP\n".toList, " LDX #L-X\n".toList] = .diag ∧
    ∃ a, assemble fs [" ORG $FFFE\n".toList, "X EQU -5\n".toList, "L NOP\n".toList, " LDX #L+X\n".toList] = .ok a ∧
      a.image = some [0x12, 0x8E, 0xFF, 0xF9] :=
  ⟨progDiag_sound (by decide +kernel) fs, image_of _ _ (by decide +kernel) fs⟩

/-- all four operators, both orders, a negative constant (`N EQU -2`, `L` at `$10`): `L*N` = −32 (`$FFE0`), `L/N` = −8
(`$FFF8`), `N/L` = 0 (truncation towards zero), `N-L` = −18 (`$FFEE`), `7/L` = 0, `L/7` = 2, `N*L` = `$FFE0`; and a
division BY a label at address 0 is a diagnostic -/
theorem C04_label_signed_programs (fs : Files) :
    (∃ a, assemble fs [" ORG $10\n".toList, "N EQU -2\n".toList, "L NOP\n".toList, " LDX #L*N\n".toList,
        " LDX #L/N\n".toList, " LDX #N/L\n".toList, " LDX #N-L\n".toList, " LDX #7/L\n".toList, " LDX #L/7\n".toList,
        " LDX #N*L\n".toList] = .ok a ∧
      a.image = some [0x12, 0x8E, 0xFF, 0xE0, 0x8E, 0xFF, 0xF8, 0x8E, 0x00, 0x00, 0x8E, 0xFF, 0xEE, 0x8E, 0x00, 0x00,
        0x8E, 0x00, 0x02, 0x8E, 0xFF, 0xE0]) ∧
    assemble fs ["L NOP\n".toList, " LDX #7/L\n".toList] = .diag ∧
    assemble fs ["L NOP\n".toList, "M NOP\n".toList, " LDX #M/L\n".toList] = .diag :=
  ⟨image_of _ _ (by decide +kernel) fs, progDiag_sound (by decide +kernel) fs, progDiag_sound (by decide +kernel) fs⟩

/-! ### the full-strength statement, now proved -/

/-- the signed value a numeric operand denotes -/
def sval (n : Nat) (neg : Bool) : Int := if neg then -(n : Int) else n

/-- integer arithmetic of the four operators (`int(x / y)` truncates toward zero); `none` = division by zero -/
def arith (op : Char) (x y : Int) : Option Int :=
  if op = '+' then some (x + y) else if op = '-' then some (x - y) else if op = '*' then some (x * y)
  else if y = 0 then none else some (x.tdiv y)

/-- numeric part of C04 for operands with the given neg flags: the signed result when it lies in
−32768..65535 (as magnitude plus neg flag, in the mode `resMode`: extended above 255, else `exprMode`), an error
otherwise -/
def NumericArith (na nb : Bool) : Prop :=
  ∀ (a b : Nat) (ha hb : Option Nat) (ma mb : Mode) (op : Char) (m : Mode) (ae : Bool) (t : SymTab),
    opChar op = true →
    match arith op (sval a na) (sval b nb) with
    | some z =>
      if -32768 ≤ z ∧ z ≤ 65535 then
        ∃ h, (Value.expr (.numeric a ha ma na) (.numeric b hb mb nb) op m ae).resolve t =
          .ok (.numeric z.natAbs h (resMode ma mb z) (decide (z < 0)))
      else (Value.expr (.numeric a ha ma na) (.numeric b hb mb nb) op m ae).resolve t = .error .other
    | none => (Value.expr (.numeric a ha ma na) (.numeric b hb mb nb) op m ae).resolve t = .error .other

/-- symbols are replaced by their table entry, undefined symbols are errors, and the result depends
only on the lookups (order independence) -/
def SymbolPart : Prop :=
  (∀ (x : Str) (mx : Mode) (a : Nat) (ha : Option Nat) (ma : Mode) (na : Bool) (r : Value) (op : Char)
      (m : Mode) (ae : Bool) (t : SymTab), t.get? x = some (.numeric a ha ma na) →
      (Value.expr (.symbol x mx) r op m ae).resolve t = (Value.expr (.numeric a ha ma na) r op m ae).resolve t) ∧
  (∀ (x : Str) (mx : Mode) (b : Nat) (hb : Option Nat) (mb : Mode) (nb : Bool) (l : Value) (op : Char)
      (m : Mode) (ae : Bool) (t : SymTab), t.get? x = some (.numeric b hb mb nb) →
      (Value.expr l (.symbol x mx) op m ae).resolve t = (Value.expr l (.numeric b hb mb nb) op m ae).resolve t) ∧
  (∀ (x : Str) (mx : Mode) (o : Value) (op : Char) (m : Mode) (ae : Bool) (t : SymTab), t.get? x = none →
      (Value.expr (.symbol x mx) o op m ae).resolve t = .error .other ∧
      (Value.expr o (.symbol x mx) op m ae).resolve t = .error .other) ∧
  (∀ (v : Value) (t1 t2 : SymTab), (∀ k, t1.get? k = t2.get? k) → v.resolve t1 = v.resolve t2)

/-- C04 at full strength: signed arithmetic for operands of either sign, plus the symbol part -/
def C04_Statement : Prop := (∀ na nb, NumericArith na nb) ∧ SymbolPart

/-- the part that held before batch B2: the numeric part restricted to NON-NEGATIVE operands, plus the symbol part -/
def C04_PartialStatement : Prop := NumericArith false false ∧ SymbolPart

theorem symbolPart : SymbolPart :=
  ⟨fun x mx a ha ma na r op m ae t h => resolve_symbol_left x mx a ha ma na r op m ae t h,
   fun x mx b hb mb nb l op m ae t h => resolve_symbol_right x mx b hb mb nb l op m ae t h,
   fun x mx o op m ae t h => ⟨resolve_undefined_left x mx o op m ae t h, resolve_undefined_right x mx o op m ae t h⟩,
   resolve_depends_only_on_lookup⟩

/-- the specification's arithmetic is the model's, on the four operators -/
theorem arith_eq_model (op : Char) (hop : opChar op = true) (x y : Int) : arith op x y = modelArith op x y := by
  simp only [opChar, Bool.or_eq_true, beq_iff_eq] at hop
  rcases hop with ((rfl | rfl) | rfl) | rfl
  · simp [arith, modelArith]
  · simp [arith, modelArith]
  · simp [arith, modelArith]
  · simp [arith, modelArith]

/-- the numeric part for operands of EITHER sign (true since batch B2) -/
theorem numericArith (na nb : Bool) : NumericArith na nb := by
  intro a b ha hb ma mb op m ae t hop
  have hs : ∀ (n : Nat) (g : Bool), sval n g = sInt n g := fun _ _ => rfl
  rw [hs, hs, arith_eq_model op hop, resolve_signed]
  cases modelArith op (sInt a na) (sInt b nb) with
  | none => rfl
  | some z =>
    simp only
    rw [numResult_spec]
    by_cases hr : -32768 ≤ z ∧ z ≤ 65535
    · simp only [hr, and_self, if_true]
      by_cases hz : z < 0
      · exact ⟨_, by simp [hz, negNum]; rfl⟩
      · exact ⟨_, by simp [hz, posNum]; rfl⟩
    · simp only [hr, if_false]

theorem numericArith_nonneg : NumericArith false false := numericArith false false

/-- C04, the part that held before batch B2 -/
theorem C04_partial : C04_PartialStatement := ⟨numericArith_nonneg, symbolPart⟩

/-- **C04 at full strength** (formerly `C04_Statement_false`: a negative operand, reachable through `X EQU -5`, was
used as its magnitude; the counterexample (−5) + 3 now gives −2, `C04_Statement_false_fixed`) -/
theorem C04_full : C04_Statement := ⟨numericArith, symbolPart⟩

/-- REPAIRED: the former counterexample of `C04_Statement_false`, (−5) + 3 -/
theorem C04_Statement_false_fixed :
    (Value.expr (.numeric 5 none .none true) (.numeric 3 none .none false) '+' .none false).resolve [] =
      .ok (.numeric 2 none .direct true) := by
  rw [resolve_signed_ok 5 3 none none .none .none true false '+' .none false [] (z := -2) (by decide) (by decide)
    (by decide)]
  rfl

/-! ### the label part: `calculate_address_offset` (repair batch B3) -/

/-- what one operand of a label expression denotes once the statements have addresses: a label the address of its
statement, a number its signed value -/
inductive OperandValue (ss : List Stmt) : Value → Int → Prop
  | label {i a : Nat} {m : Mode} : addrIntOf ss i = some a → OperandValue ss (.address i m) (a : Int)
  | number {k : Nat} {h : Option Nat} {m : Mode} {neg : Bool} : OperandValue ss (.numeric k h m neg) (sval k neg)

/-- **the label part of C04** (expressions with at least one label, evaluated after layout): for operands that are
labels or numbers, in ANY combination and ORDER, the result is `left op right` on the denoted integers; a result below
zero is stored modulo 65536 (an address), one above 65535 and a division by zero are diagnostics; an operand that is
neither a label nor a number makes the expression an "unresolved expression" diagnostic -/
def C04_LabelStatement : Prop :=
  (∀ (ss : List Stmt) (l r : Value) (x y : Int) (op : Char) (m : Mode) (ae : Bool), opChar op = true →
    OperandValue ss l x → OperandValue ss r y →
    match arith op x y with
    | none => addrOffset ss (.expr l r op m ae) = .diag
    | some z =>
      if (if z < 0 then z % 65536 else z) ≤ 65535 then
        addrOffset ss (.expr l r op m ae) =
          .ok (.numeric (if z < 0 then z % 65536 else z).toNat (some 4) .extended false)
      else addrOffset ss (.expr l r op m ae) = .diag) ∧
  (∀ (ss : List Stmt) (l r : Value) (op : Char) (m : Mode) (ae : Bool),
    l.isAddress = false → l.isNumeric = false → addrOffset ss (.expr l r op m ae) = .diag) ∧
  (∀ (ss : List Stmt) (l r : Value) (x : Int) (op : Char) (m : Mode) (ae : Bool), OperandValue ss l x →
    r.isAddress = false → r.isNumeric = false → addrOffset ss (.expr l r op m ae) = .diag)

theorem OperandValue.opd {ss : List Stmt} {v : Value} {x : Int} (h : OperandValue ss v x) : AddrOpd ss v x := by
  cases h with
  | label h => exact .label h
  | number => exact .num

/-- the specification's arithmetic is `calculate_address_offset`'s, on the four operators -/
theorem arith_eq_addrArith (op : Char) (hop : opChar op = true) (x y : Int) : arith op x y = addrArith op x y := by
  simp only [opChar, Bool.or_eq_true, beq_iff_eq] at hop
  rcases hop with ((rfl | rfl) | rfl) | rfl <;> simp [arith, addrArith]

/-- **the label part of C04, proved** -/
theorem C04_label_full : C04_LabelStatement := by
  refine ⟨?_, ?_, ?_⟩
  · intro ss l r x y op m ae hop hl hr
    rw [arith_eq_addrArith op hop, addrOffset_opd hl.opd hr.opd]
    cases addrArith op x y with
    | none => rfl
    | some z =>
      simp only
      by_cases hw : addrWrap z > 65535
      · have : ¬ (if z < 0 then z % 65536 else z) ≤ 65535 := by unfold addrWrap at hw; omega
        simp [hw, this]
      · have : (if z < 0 then z % 65536 else z) ≤ 65535 := by unfold addrWrap at hw; omega
        simp only [hw, this, if_false, if_true]; rfl
  · intro ss l r op m ae h1 h2
    exact addrOffset_other_addr ss m ae op l r h1 h2
  · intro ss l r x op m ae hl h1 h2
    rw [addrOffset_expr, hl.opd.operand, addrOperand_other ss r h1 h2]

/-- C04 with its label part -/
theorem C04_full_with_labels : C04_Statement ∧ C04_LabelStatement := ⟨C04_full, C04_label_full⟩

/-- non-vacuity of the label part on a two-statement list (`L` is statement 1 at address 100): `5-L` = −95 mod 65536,
`L-5` = 95, `L/0` a diagnostic, `$4000/L` = 163, `L*L` = 10000 -/
example :
    let ss : List Stmt := [{ (default : Stmt) with pkg := { address := .numeric 97 (some 4) .extended false } },
                           { (default : Stmt) with pkg := { address := .numeric 100 (some 4) .extended false } }]
    addrOffset ss (.expr (.numeric 5 (some 2) .direct false) (.address 1 .none) '-' .extended true) =
        .ok (.numeric 65441 (some 4) .extended false) ∧
    addrOffset ss (.expr (.address 1 .none) (.numeric 5 (some 2) .direct false) '-' .extended true) =
        .ok (.numeric 95 (some 4) .extended false) ∧
    addrOffset ss (.expr (.address 1 .none) (.numeric 0 (some 2) .direct false) '/' .extended true) = .diag ∧
    addrOffset ss (.expr (.numeric 0x4000 none .extended false) (.address 1 .none) '/' .extended true) =
        .ok (.numeric 163 (some 4) .extended false) ∧
    addrOffset ss (.expr (.address 1 .none) (.address 1 .none) '*' .extended true) =
        .ok (.numeric 10000 (some 4) .extended false) := by
  intro ss
  have h : addrIntOf ss 1 = some 100 := rfl
  have p := C04_label_full.1 ss
  refine ⟨?_, ?_, ?_, ?_, ?_⟩
  · have q := p (.numeric 5 (some 2) .direct false) (.address 1 .none) _ _ '-' .extended true (by decide) .number (.label h)
    simpa [arith, sval] using q
  · have q := p (.address 1 .none) (.numeric 5 (some 2) .direct false) _ _ '-' .extended true (by decide) (.label h) .number
    simpa [arith, sval] using q
  · have q := p (.address 1 .none) (.numeric 0 (some 2) .direct false) _ _ '/' .extended true (by decide) (.label h) .number
    simpa [arith, sval] using q
  · have q := p (.numeric 0x4000 none .extended false) (.address 1 .none) _ _ '/' .extended true (by decide) .number (.label h)
    simpa [arith, sval] using q
  · have q := p (.address 1 .none) (.address 1 .none) _ _ '*' .extended true (by decide) (.label h) (.label h)
    simpa [arith] using q

/-! ### non-vacuity: concrete expressions through `createV` and `resolve` -/

example : ∃ v, createV "5+3".toList false false = .ok v ∧
    v.resolve [] = .ok (.numeric 8 (some 2) .direct false) :=
  ⟨.expr (.numeric 5 (some 2) .direct false) (.numeric 3 (some 2) .direct false) '+' .extended false, rfl,
    resolve_add_ok 5 3 _ _ _ _ _ _ _ (by decide)⟩

/-- `X EQU 3`, then `X-10` is −7 (magnitude 7 with the neg flag) -/
example : ∃ v, createV "X-10".toList false false = .ok v ∧
    v.resolve [("X".toList, .numeric 3 (some 2) .direct false)] = .ok (.numeric 7 none .direct true) :=
  ⟨.expr (.symbol ['X'] .none) (.numeric 10 (some 2) .direct false) '-' .extended false, rfl, by
    rw [resolve_symbol_left ['X'] .none 3 (some 2) .direct false _ _ _ _ _ rfl,
      resolve_sub_neg 3 10 _ _ _ _ _ _ _ (by decide)]
    rfl⟩

example : ∃ v, createV "$FFFF+1".toList false false = .ok v ∧ v.resolve [] = .error .other :=
  ⟨.expr (.numeric 65535 none .extended false) (.numeric 1 (some 2) .direct false) '+' .extended false, rfl,
    resolve_add_overflow 65535 1 _ _ _ _ _ _ _ (by decide)⟩

example : ∃ v, createV "7/0".toList false false = .ok v ∧ v.resolve [] = .error .other :=
  ⟨.expr (.numeric 7 (some 2) .direct false) (.numeric 0 (some 2) .direct false) '/' .extended false, rfl,
    resolve_div_zero 7 _ _ _ _ _ _ _⟩

example : ∃ v, createV "300*2".toList false false = .ok v ∧
    v.resolve [] = .ok (.numeric 600 (some 4) .extended false) :=
  ⟨.expr (.numeric 300 none .extended false) (.numeric 2 (some 2) .direct false) '*' .extended false, rfl,
    resolve_mul 300 2 _ _ _ _ _ _ _⟩

example : ∃ v, createV "UNDEF+1".toList false false = .ok v ∧ v.resolve [] = .error .other :=
  ⟨.expr (.symbol "UNDEF".toList .none) (.numeric 1 (some 2) .direct false) '+' .extended false, rfl,
    resolve_undefined_left _ _ _ _ _ _ [] rfl⟩

end CoCo.Props

section axioms
open CoCo.Props
#print axioms C04_partial
#print axioms C04_full
#print axioms C04_label_full
#print axioms C04_label_order_programs
#print axioms resolve_symbols_signed
#print axioms C04_negative_extended
#print axioms C04_negative_equ_word
#print axioms addrOffset_add_negative
#print axioms resolve_add_leaves_direct_page
#print axioms C04_finding_equ_expression_fixed
#print axioms C04_equ_expression_fixed
#print axioms resolve_symbol_equ_expression
#print axioms C04_equ_expression_cycle
#print axioms C04_equ_expression_cycle_resolve
#print axioms resolve_symbol_self_reference
#print axioms C04_symbol_characters_fixed
end axioms
