/-
Props/C01Text.lean — C01 (ii) from SOURCE TEXT: for every machine-instruction row of the table and every
operand text of the literal spelling families below, `encodeText` (createOperand → resolveOperand with
the empty symbol table → translateOperand → fitWidth → stmtBytes) yields `(size, bytes)` with `bytes.length = size`
and the datasheet decoder reads `bytes` back as the row's operation with the operand the text denotes.

`TextEncodes r text x` (Lemmas/FrontEndOperand.lean) is that statement.  Each family is proved by
computing the cascade symbolically (Lemmas/FrontEndLit.lean, Lemmas/FrontEndOperand.lean) and then
applying `C01_partial` (Props/C01.lean) to the resolved operand.

Literals are quantified as STRINGS: `IsDecLit x` (a nonempty string of decimal digits, leading zeros
allowed, value `parseBase 10 x`) and `IsHexLit n hs` (exactly `n` hex digits of either case, value
`parseBase 16 hs`); the `_render` corollaries instantiate them with Python's renderings `decStr n`
(`"{}".format(n)`), `hex2 v` (`"{:02X}"`), `hex4 v` (`"{:04X}"`) for ALL values in range.
-/
import CoCoVerif.Props.C01
import CoCoVerif.Props.C12
import CoCoVerif.Lemmas.FrontEndOperand
import CoCoVerif.Lemmas.EncodeDecimal

namespace CoCo.Props
open CoCo CoCo.Asm CoCo.Spec.MC6809
open CoCo.Gen (InstrRow)

/-! ## rows -/

/-- a machine instruction of the table that takes an ordinary operand: not a pseudo operation, not a
register-operand instruction (PSHS … TFR), not a branch -/
structure PlainRow (r : InstrRow) : Prop where
  mem : r ∈ Gen.instructions
  notPseudo : r.isPseudo = false
  notSpecial : r.isSpecial = false
  notShort : r.isShortBranch = false
  notLong : r.isLongBranch = false

theorem nonpseudo_not_stringDefine :
    ∀ r ∈ Gen.instructions, r.isPseudo = false → r.isStringDefine = false := by decide +kernel

theorem PlainRow.flags {r : InstrRow} (h : PlainRow r) : InstrFlags r :=
  ⟨h.notPseudo, h.notSpecial, h.notShort, h.notLong, nonpseudo_not_stringDefine r h.mem h.notPseudo⟩

/-- the immediate cell of an ordinary row is an 8-bit immediate, or a 16-bit one exactly on `is_16_bit` rows -/
def immModeOk (r : InstrRow) : Bool :=
  r.isPseudo || r.isSpecial ||
  match r.imm with
  | none => true
  | some c => decide (lookup c = some (opOf r.mnemonic, if r.is16Bit then AM.imm16 else AM.imm8))

theorem immModeOk_all : ∀ r ∈ Gen.instructions, immModeOk r = true := by decide +kernel

theorem PlainRow.imm_mode {r : InstrRow} (h : PlainRow r) {c : Nat} (hc : r.imm = some c) :
    lookup c = some (opOf r.mnemonic, if r.is16Bit then AM.imm16 else AM.imm8) := by
  have := immModeOk_all r h.mem
  simpa [immModeOk, h.notPseudo, h.notSpecial, hc] using this

theorem textEncodes_of_region {r : InstrRow} (h : PlainRow r) {text : Str} {o : Asm.Operand}
    {x : Spec.MC6809.Operand} (hf : frontEnd r text = .ok o) (hreg : Region r o x) : TextEncodes r text x :=
  textEncodes_of hf (C01_partial h.mem h.notPseudo hreg)

section families
variable {r : InstrRow} (hr : PlainRow r)
include hr

/-! ## 1. inherent: the empty operand text -/

theorem C01_text_inherent {c : Nat} (hc : r.inh = some c) : TextEncodes r [] .none :=
  textEncodes_of_region hr (frontEnd_empty hr.flags) (.inherent rfl hc)

/-! ## 2. immediate -/

/-- `#n`, 8-bit row, 0 ≤ n ≤ 255.  (`#256` … are rejected: `C01_text_imm8_dec_rejected`) -/
theorem C01_text_imm8_dec {c : Nat} (hc : r.imm = some c) (h16 : r.is16Bit = false) {x : Str} (hx : IsDecLit x)
    (hv : parseBase 10 x < 256) : TextEncodes r ('#' :: x) (.imm 8 (parseBase 10 x)) := by
  have hl := hr.imm_mode hc
  rw [h16] at hl
  have hcv := createV_imm_dec hx (by omega) r.is16Bit
  exact textEncodes_of_region hr (frontEnd_immediate hr.flags hcv)
    (.imm8 rfl hc hl rfl hv)

/-- `#$hh`, 8-bit row -/
theorem C01_text_imm8_hex {c : Nat} (hc : r.imm = some c) (h16 : r.is16Bit = false) {hs : Str} (hh : IsHexLit 2 hs) :
    TextEncodes r ('#' :: '$' :: hs) (.imm 8 (parseBase 16 hs)) := by
  have hl := hr.imm_mode hc
  rw [h16] at hl
  have hcv := createV_imm_hex2 hh r.is16Bit
  exact textEncodes_of_region hr (frontEnd_immediate hr.flags hcv)
    (.imm8 rfl hc hl rfl (parseBase_hexLit2 hh))

/-- `#n`, `is_16_bit` row, 0 ≤ n ≤ 65535 -/
theorem C01_text_imm16_dec {c : Nat} (hc : r.imm = some c) (h16 : r.is16Bit = true) {x : Str} (hx : IsDecLit x)
    (hv : parseBase 10 x < 65536) : TextEncodes r ('#' :: x) (.imm 16 (parseBase 10 x)) := by
  have hl := hr.imm_mode hc
  rw [h16] at hl
  have hcv := createV_imm_dec hx hv r.is16Bit
  exact textEncodes_of_region hr (frontEnd_immediate hr.flags hcv)
    (.imm16 rfl hc hl rfl hv)

/-- `#$hhhh`, `is_16_bit` row -/
theorem C01_text_imm16_hex {c : Nat} (hc : r.imm = some c) (h16 : r.is16Bit = true) {hs : Str} (hh : IsHexLit 4 hs) :
    TextEncodes r ('#' :: '$' :: hs) (.imm 16 (parseBase 16 hs)) := by
  have hl := hr.imm_mode hc
  rw [h16] at hl
  have hcv := createV_imm_hex4 hh r.is16Bit
  exact textEncodes_of_region hr (frontEnd_immediate hr.flags hcv)
    (.imm16 rfl hc hl rfl (parseBase_hexLit4 hh))

/-- `#$hh` on an `is_16_bit` row: the row's size hint widens the two digits to a word -/
theorem C01_text_imm16_hex2 {c : Nat} (hc : r.imm = some c) (h16 : r.is16Bit = true) {hs : Str} (hh : IsHexLit 2 hs) :
    TextEncodes r ('#' :: '$' :: hs) (.imm 16 (parseBase 16 hs)) := by
  have hl := hr.imm_mode hc
  rw [h16] at hl
  have hcv := createV_imm_hex2 hh r.is16Bit
  have := parseBase_hexLit2 hh
  exact textEncodes_of_region hr (frontEnd_immediate hr.flags hcv)
    (.imm16 rfl hc hl rfl (by omega))

/-- `#-n`, 8-bit row, 1 ≤ n ≤ 128: the two's complement byte.  (`#-129` … are rejected:
`C01_text_imm8_neg_rejected`.) -/
theorem C01_text_imm8_neg {c : Nat} (hc : r.imm = some c) (h16 : r.is16Bit = false) {x : Str} (hx : IsDecLit x)
    (h1 : 1 ≤ parseBase 10 x) (h2 : parseBase 10 x ≤ 128) :
    TextEncodes r ('#' :: '-' :: x) (.imm 8 (256 - parseBase 10 x)) := by
  have hl := hr.imm_mode hc
  rw [h16] at hl
  have hcv := createV_imm_neg hx (by omega) r.is16Bit
  exact textEncodes_of_region hr (frontEnd_immediate hr.flags hcv)
    (.imm8neg rfl hc hl rfl h1 h2)

/-- `#-n`, `is_16_bit` row, 1 ≤ n ≤ 32768: the two's complement WORD, also for the small magnitudes
(`LDX #-1` is `8E FF FF`; before the repair it was `8E 00 FF`) -/
theorem C01_text_imm16_neg {c : Nat} (hc : r.imm = some c) (h16 : r.is16Bit = true) {x : Str} (hx : IsDecLit x)
    (h1 : 1 ≤ parseBase 10 x) (h2 : parseBase 10 x ≤ 32768) :
    TextEncodes r ('#' :: '-' :: x) (.imm 16 (65536 - parseBase 10 x)) := by
  have hl := hr.imm_mode hc
  rw [h16] at hl
  have hcv := createV_imm_neg hx h2 r.is16Bit
  exact textEncodes_of_region hr (frontEnd_immediate hr.flags hcv)
    (.imm16neg rfl hc hl rfl h1 h2)

/-- `#n`, 8-bit row, 256 ≤ n ≤ 65535: REJECTED by `fitWidth` (before the repair: three bytes for size 2) -/
theorem C01_text_imm8_dec_rejected {c : Nat} (hc : r.imm = some c) (h16 : r.is16Bit = false) {x : Str} (hx : IsDecLit x)
    (h1 : 256 ≤ parseBase 10 x) (h2 : parseBase 10 x < 65536) : encodeText r ('#' :: x) = none := by
  have hl := hr.imm_mode hc
  rw [h16] at hl
  have hfe := frontEnd_immediate hr.flags (createV_imm_dec hx h2 r.is16Bit)
  obtain ⟨pkg, ht, hd⟩ := C12_imm8_out_of_range_rejected hr.mem hr.notPseudo
    (o := { kind := .immediate, text := '#' :: x,
            value := .numeric (parseBase 10 x) (if r.is16Bit then some 4 else none) .immediate false })
    (neg := false) rfl hc hl rfl (by simp [signedVal]; omega)
  exact encodeText_none_of_fit hfe ht hd

/-- `#-n`, 8-bit row, 129 ≤ n ≤ 32768: REJECTED (before the repair: the high byte of the 16-bit complement) -/
theorem C01_text_imm8_neg_rejected {c : Nat} (hc : r.imm = some c) (h16 : r.is16Bit = false) {x : Str} (hx : IsDecLit x)
    (h1 : 129 ≤ parseBase 10 x) (h2 : parseBase 10 x ≤ 32768) : encodeText r ('#' :: '-' :: x) = none := by
  have hl := hr.imm_mode hc
  rw [h16] at hl
  have hfe := frontEnd_immediate hr.flags (createV_imm_neg hx h2 r.is16Bit)
  obtain ⟨pkg, ht, hd⟩ := C12_imm8_out_of_range_rejected hr.mem hr.notPseudo
    (o := { kind := .immediate, text := '#' :: '-' :: x,
            value := .numeric (parseBase 10 x) (if r.is16Bit then some 4 else none) .immediate true })
    (neg := true) rfl hc hl rfl (by simp [signedVal]; omega)
  exact encodeText_none_of_fit hfe ht hd

/-! ## 3. extended and direct

`Operand.create_from_str` calls `Value.create_from_str` with `default_mode_extended=True`; the EXTENDED
mode forces size hint 4 in `Value.__init__`, so `post_init_direct_check` never fires: a DECIMAL literal is
an extended address whatever its value (`LDA 5` is `B6 00 05`).  Only the two-digit `$hh` branch of the
string constructor produces a DIRECT value, and only when the row carries no size hint. -/

/-- `$hhhh`: extended, every row -/
theorem C01_text_ext_hex4 {c : Nat} (hc : r.ext = some c) {hs : Str} (hh : IsHexLit 4 hs) :
    TextEncodes r ('$' :: hs) (.ext (parseBase 16 hs)) :=
  textEncodes_of_region hr
    (frontEnd_extended hr.flags (operandHead_dollar hs) (by simp) (createV_hex4 hh r.is16Bit))
    (.extended rfl hc rfl (parseBase_hexLit4 hh))

/-- decimal `n`, 0 ≤ n ≤ 65535: extended, every row — INCLUDING n < 256 -/
theorem C01_text_ext_dec {c : Nat} (hc : r.ext = some c) {x : Str} (hx : IsDecLit x) (hv : parseBase 10 x < 65536) :
    TextEncodes r x (.ext (parseBase 10 x)) :=
  textEncodes_of_region hr
    (frontEnd_extended hr.flags (by simpa using operandHead_dec hx []) hx.1 (createV_decLit hx hv r.is16Bit))
    (.extended rfl hc rfl hv)

/-- `$hh`: direct, on a row without `is_16_bit` -/
theorem C01_text_dir_hex2 {c : Nat} (hc : r.dir = some c) (h16 : r.is16Bit = false) {hs : Str} (hh : IsHexLit 2 hs) :
    TextEncodes r ('$' :: hs) (.dir (parseBase 16 hs)) := by
  have hcv : createV ('$' :: hs) false r.is16Bit =
      .ok (.numeric (parseBase 16 hs) (some 2) .direct false) := by rw [h16]; exact createV_hex2 hh
  exact textEncodes_of_region hr
    (frontEnd_direct hr.flags (operandHead_dollar hs) (by simp) hcv (parseBase_hexLit2 hh))
    (.direct rfl hc rfl (parseBase_hexLit2 hh))

/-- `$hh` on an `is_16_bit` row (LDX, LDD, CMPX, …): NOT direct — the row's size hint makes it extended -/
theorem C01_text_ext_hex2_16 {c : Nat} (hc : r.ext = some c) (h16 : r.is16Bit = true) {hs : Str} (hh : IsHexLit 2 hs) :
    TextEncodes r ('$' :: hs) (.ext (parseBase 16 hs)) := by
  have hcv : createV ('$' :: hs) false r.is16Bit =
      .ok (.numeric (parseBase 16 hs) (some 4) .extended false) := by rw [h16]; exact createV_hex2_16 hh
  have := parseBase_hexLit2 hh
  exact textEncodes_of_region hr
    (frontEnd_extended hr.flags (operandHead_dollar hs) (by simp) hcv)
    (.extended rfl hc rfl (by omega))

/-- `>$hh`: the explicit `>` makes a two-digit literal EXTENDED on every row (before the repair A6 it was direct) -/
theorem C01_text_ext_gt_hex2 {c : Nat} (hc : r.ext = some c) {hs : Str} (hh : IsHexLit 2 hs) :
    TextEncodes r ('>' :: '$' :: hs) (.ext (parseBase 16 hs)) := by
  have := parseBase_hexLit2 hh
  exact textEncodes_of_region hr (frontEnd_explExtended hr.flags (createV_gt_hex2 hh r.is16Bit))
    (.extended rfl hc rfl (by omega))

/-- `>n`, decimal 0 ≤ n ≤ 65535: extended -/
theorem C01_text_ext_gt_dec {c : Nat} (hc : r.ext = some c) {x : Str} (hx : IsDecLit x) (hv : parseBase 10 x < 65536) :
    TextEncodes r ('>' :: x) (.ext (parseBase 10 x)) :=
  textEncodes_of_region hr (frontEnd_explExtended hr.flags (createV_gt_dec hx hv r.is16Bit))
    (.extended rfl hc rfl hv)

/-- `<n`, decimal 0 ≤ n ≤ 255: forced direct, every row -/
theorem C01_text_dir_lt_dec {c : Nat} (hc : r.dir = some c) {x : Str} (hx : IsDecLit x) (hv : parseBase 10 x < 256) :
    TextEncodes r ('<' :: x) (.dir (parseBase 10 x)) :=
  textEncodes_of_region hr (frontEnd_explDirect_dec hr.flags hx (by omega)) (.direct rfl hc rfl hv)

/-- `<n`, 256 ≤ n ≤ 65535: REJECTED (before the repair A7 two address bytes were emitted for size 2) -/
theorem C01_text_dir_lt_rejected {c : Nat} (hc : r.dir = some c) {x : Str} (hx : IsDecLit x)
    (h1 : 256 ≤ parseBase 10 x) (h2 : parseBase 10 x < 65536) : encodeText r ('<' :: x) = none := by
  have hfe := frontEnd_explDirect_dec hr.flags hx h2
  have hlt : ¬ parseBase 10 x < 256 := by omega
  simp only [hlt, if_false] at hfe
  obtain ⟨pkg, ht, hd⟩ := C12_direct_out_of_range_rejected hr.mem hr.notPseudo
    (o := { kind := .direct, text := '<' :: x, value := .numeric (parseBase 10 x) none .direct false })
    (neg := false) rfl hc rfl (by simp [signedVal]; omega)
  exact encodeText_none_of_fit hfe ht hd

/-! ## 4. extended indirect -/

/-- `[$hhhh]`.  (`[$hh]`: `C01_text_extInd_hex2`.) -/
theorem C01_text_extInd_hex4 {c : Nat} (hc : r.ind = some c) {hs : Str} (hh : IsHexLit 4 hs) :
    TextEncodes r ('[' :: (('$' :: hs) ++ [']'])) (.idx (.extInd (parseBase 16 hs))) :=
  textEncodes_of_region hr (frontEnd_bracket_numeric hr.flags (createV_hex4 hh r.is16Bit))
    (.extInd rfl hc rfl (parseBase_hexLit4 hh))

/-- `[n]` decimal, 0 ≤ n ≤ 65535 (hint 4 as for the extended operand) -/
theorem C01_text_extInd_dec {c : Nat} (hc : r.ind = some c) {x : Str} (hx : IsDecLit x) (hv : parseBase 10 x < 65536) :
    TextEncodes r ('[' :: (x ++ [']'])) (.idx (.extInd (parseBase 10 x))) :=
  textEncodes_of_region hr (frontEnd_bracket_numeric hr.flags (createV_decLit hx hv r.is16Bit))
    (.extInd rfl hc rfl hv)

/-- `[$hh]`, every row: two address bytes `00 hh` (before the repair A6 one byte, undecodable) -/
theorem C01_text_extInd_hex2 {c : Nat} (hc : r.ind = some c) {hs : Str} (hh : IsHexLit 2 hs) :
    TextEncodes r ('[' :: (('$' :: hs) ++ [']'])) (.idx (.extInd (parseBase 16 hs))) := by
  have hv := parseBase_hexLit2 hh
  cases h16 : r.is16Bit
  · have hcv : createV ('$' :: hs) false r.is16Bit = .ok (.numeric (parseBase 16 hs) (some 2) .direct false) := by
      rw [h16]; exact createV_hex2 hh
    exact textEncodes_of_region hr (frontEnd_bracket_numeric hr.flags hcv) (.extInd rfl hc rfl (by omega))
  · have hcv : createV ('$' :: hs) false r.is16Bit = .ok (.numeric (parseBase 16 hs) (some 4) .extended false) := by
      rw [h16]; exact createV_hex2_16 hh
    exact textEncodes_of_region hr (frontEnd_bracket_numeric hr.flags hcv) (.extInd rfl hc rfl (by omega))

/-! ## 5. indexed without offset, accumulator offsets -/

omit hr in
theorem comma_not_mem_reg {k : Nat} (hk : k < 4) {pre post : Str} (h1 : ',' ∉ pre) (h2 : ',' ∉ post) :
    ',' ∉ pre ++ regName k ++ post := by
  rcases k_cases hk with rfl | rfl | rfl | rfl <;> simp [regName, h1, h2]

omit hr in
theorem comma_not_mem_regName {k : Nat} (hk : k < 4) : ',' ∉ regName k := by
  simpa using comma_not_mem_reg hk (pre := []) (post := []) (by simp) (by simp)

/-- what the front end builds for `,right` -/
theorem frontEnd_noOffset (right : Str) (hc : ',' ∉ right) :
    frontEnd r (',' :: right) =
      .ok { kind := .indexed, text := ',' :: right, value := .leftRight [] right .extended, left := .text [],
            right := some right } :=
  frontEnd_indexed_keep hr.flags (l := []) (operandHead_comma right)
    (splitExpr_head_nonword ',' right (by decide) (by decide)) (by simp) hc (Or.inl rfl)

/-- what the front end builds for `[,right]` -/
theorem frontEnd_ind_noOffset (right : Str) (hc : ',' ∉ right) :
    frontEnd r ('[' :: ((',' :: right) ++ [']'])) =
      .ok { kind := .extIndirect, text := '[' :: ((',' :: right) ++ [']']), value := .leftRight [] right .extended,
            left := .text [], right := some right } :=
  frontEnd_bracket_keep hr.flags (l := []) (operandHead_comma right)
    (splitExpr_head_nonword ',' right (by decide) (by decide)) (by simp) hc (Or.inl rfl)

/-- `,R  ,R+  ,R++  ,-R  ,--R` for R = X, Y, U, S -/
theorem C01_text_indexed_noOffset {c k : Nat} (hc : r.ind = some c) (hk : k < 4) :
    TextEncodes r (',' :: regName k) (.idx (.off k 0 false 0)) ∧
    TextEncodes r (',' :: (regName k ++ ['+'])) (.idx (.inc1 k)) ∧
    TextEncodes r (',' :: (regName k ++ ['+', '+'])) (.idx (.inc2 k false)) ∧
    TextEncodes r (',' :: '-' :: regName k) (.idx (.dec1 k)) ∧
    TextEncodes r (',' :: '-' :: '-' :: regName k) (.idx (.dec2 k false)) := by
  have c0 := comma_not_mem_regName hk
  have c1 : ',' ∉ regName k ++ ['+'] := by
    simpa using comma_not_mem_reg hk (pre := []) (post := ['+']) (by simp) (by simp)
  have c2 : ',' ∉ regName k ++ ['+', '+'] := by
    simpa using comma_not_mem_reg hk (pre := []) (post := ['+', '+']) (by simp) (by simp)
  have c3 : ',' ∉ '-' :: regName k := by
    simpa using comma_not_mem_reg hk (pre := ['-']) (post := []) (by simp) (by simp)
  have c4 : ',' ∉ '-' :: '-' :: regName k := by
    simpa using comma_not_mem_reg hk (pre := ['-', '-']) (post := []) (by simp) (by simp)
  exact ⟨textEncodes_of_region hr (frontEnd_noOffset hr _ c0) (.zero rfl hc rfl hk rfl),
    textEncodes_of_region hr (frontEnd_noOffset hr _ c1) (.inc1 rfl hc rfl hk rfl),
    textEncodes_of_region hr (frontEnd_noOffset hr _ c2) (.inc2 rfl hc rfl hk rfl),
    textEncodes_of_region hr (frontEnd_noOffset hr _ c3) (.dec1 rfl hc rfl hk rfl),
    textEncodes_of_region hr (frontEnd_noOffset hr _ c4) (.dec2 rfl hc rfl hk rfl)⟩

/-- `[,R]  [,R++]  [,--R]`; `[,R+]` and `[,-R]` do not assemble -/
theorem C01_text_indirect_noOffset {c k : Nat} (hc : r.ind = some c) (hk : k < 4) :
    TextEncodes r ('[' :: ((',' :: regName k) ++ [']'])) (.idx (.off k 0 true 0)) ∧
    TextEncodes r ('[' :: ((',' :: (regName k ++ ['+', '+'])) ++ [']'])) (.idx (.inc2 k true)) ∧
    TextEncodes r ('[' :: ((',' :: '-' :: '-' :: regName k) ++ [']'])) (.idx (.dec2 k true)) ∧
    encodeText r ('[' :: ((',' :: (regName k ++ ['+'])) ++ [']'])) = none ∧
    encodeText r ('[' :: ((',' :: '-' :: regName k) ++ [']'])) = none := by
  have c0 := comma_not_mem_regName hk
  have c1 : ',' ∉ regName k ++ ['+'] := by
    simpa using comma_not_mem_reg hk (pre := []) (post := ['+']) (by simp) (by simp)
  have c2 : ',' ∉ regName k ++ ['+', '+'] := by
    simpa using comma_not_mem_reg hk (pre := []) (post := ['+', '+']) (by simp) (by simp)
  have c3 : ',' ∉ '-' :: regName k := by
    simpa using comma_not_mem_reg hk (pre := ['-']) (post := []) (by simp) (by simp)
  have c4 : ',' ∉ '-' :: '-' :: regName k := by
    simpa using comma_not_mem_reg hk (pre := ['-', '-']) (post := []) (by simp) (by simp)
  have hb : ∀ right : Str, Bracketed
      { kind := .extIndirect, text := '[' :: ((',' :: right) ++ [']']), value := .leftRight [] right .extended,
        left := .text [], right := some right } := fun _ => ⟨rfl, rfl, rfl, rfl⟩
  refine ⟨textEncodes_of_region hr (frontEnd_ind_noOffset hr _ c0) (.indZero (hb _) hc rfl hk rfl),
    textEncodes_of_region hr (frontEnd_ind_noOffset hr _ c2) (.indInc2 (hb _) hc rfl hk rfl),
    textEncodes_of_region hr (frontEnd_ind_noOffset hr _ c4) (.indDec2 (hb _) hc rfl hk rfl), ?_, ?_⟩
  · have hrej := (C01_indirect_noOffset hr.mem hr.notPseudo (hb (regName k ++ ['+'])) hc rfl hk).2.2.2 (Or.inl rfl)
    exact encodeText_none_of (frontEnd_ind_noOffset hr _ c1) hrej
  · have hrej := (C01_indirect_noOffset hr.mem hr.notPseudo (hb ('-' :: regName k)) hc rfl hk).2.2.2 (Or.inr rfl)
    exact encodeText_none_of (frontEnd_ind_noOffset hr _ c3) hrej

omit hr in
theorem accNames_facts {l : Str} {a : Nat} (h : (l, a) ∈ accNames) :
    l ≠ [] ∧ (∀ ch ∈ l, isWord ch = true) ∧ ',' ∉ l ∧ isABD l = true := by
  simp only [accNames, List.mem_cons, Prod.mk.injEq, List.not_mem_nil, or_false] at h
  rcases h with ⟨rfl, _⟩ | ⟨rfl, _⟩ | ⟨rfl, _⟩ <;> exact ⟨by simp, by decide, by decide, by decide⟩

/-- `A,R  B,R  D,R` and `[A,R]  [B,R]  [D,R]` -/
theorem C01_text_accumulator {c k a : Nat} {l : Str} (hc : r.ind = some c) (hla : (l, a) ∈ accNames) (hk : k < 4) :
    TextEncodes r (l ++ ',' :: regName k) (.idx (.acc a k false)) ∧
    TextEncodes r ('[' :: ((l ++ ',' :: regName k) ++ [']'])) (.idx (.acc a k true)) := by
  obtain ⟨hne, hw, hcl, habd⟩ := accNames_facts hla
  have hh := operandHead_word_append hne hw (',' :: regName k)
  have hs := splitExpr_word_comma l (regName k) hw
  have c0 := comma_not_mem_regName hk
  exact ⟨textEncodes_of_region hr (frontEnd_indexed_keep hr.flags hh hs hcl c0 (Or.inr habd))
      (.acc rfl hc hla rfl hk rfl),
    textEncodes_of_region hr (frontEnd_bracket_keep hr.flags hh hs hcl c0 (Or.inr habd))
      (.indAcc ⟨rfl, rfl, rfl, rfl⟩ hc hla rfl hk rfl)⟩

/-! ## 6. constant offsets

The offset text goes through `Value.create_from_str` with the default mode NONE, so here
`post_init_direct_check` does fire: a value below 256 gets hint 2 — unless the row is `is_16_bit`, whose
size hint 4 is passed down to the OFFSET literal.  Since the repair of A3 / A4 neither matters: the offset field is
fitted to the width of the form `translate` chose (`fitWidth`), and negative 8- and 16-bit offsets are counted in
`size`.  So every family below holds on EVERY row. -/

/-- what the front end builds for `n,R` -/
theorem frontEnd_offset {x : Str} (hx : IsDecLit x) (hv : parseBase 10 x < 65536) {k : Nat} (hk : k < 4) :
    frontEnd r (x ++ ',' :: regName k) =
      .ok { kind := .indexed, text := x ++ ',' :: regName k, value := .leftRight x (regName k) .extended,
            left := .val (.numeric (parseBase 10 x)
              (if r.is16Bit then some 4 else if parseBase 10 x < 256 then some 2 else none)
              (if r.is16Bit then .extended else if parseBase 10 x < 256 then .direct else .extended) false),
            right := some (regName k) } :=
  frontEnd_indexed_val hr.flags (operandHead_dec hx _) (splitExpr_word_comma x _ (decLit_word hx))
    (decLit_no_comma hx) (comma_not_mem_regName hk) hx.1 (isABD_dec hx) (resolveLeft_dec hr.flags.notStr hx hv [])

/-- what the front end builds for `[n,R]` -/
theorem frontEnd_ind_offset {x : Str} (hx : IsDecLit x) (hv : parseBase 10 x < 65536) {k : Nat} (hk : k < 4) :
    frontEnd r ('[' :: ((x ++ ',' :: regName k) ++ [']'])) =
      .ok { kind := .extIndirect, text := '[' :: ((x ++ ',' :: regName k) ++ [']']),
            value := .leftRight x (regName k) .extended,
            left := .val (.numeric (parseBase 10 x)
              (if r.is16Bit then some 4 else if parseBase 10 x < 256 then some 2 else none)
              (if r.is16Bit then .extended else if parseBase 10 x < 256 then .direct else .extended) false),
            right := some (regName k) } :=
  frontEnd_bracket_val hr.flags (operandHead_dec hx _) (splitExpr_word_comma x _ (decLit_word hx))
    (decLit_no_comma hx) (comma_not_mem_regName hk) hx.1 (isABD_dec hx) (resolveLeft_dec hr.flags.notStr hx hv [])

/-- what the front end builds for `-n,R` -/
theorem frontEnd_neg_offset {x : Str} (hx : IsDecLit x) (hv : parseBase 10 x ≤ 32768) {k : Nat} (hk : k < 4) :
    frontEnd r (('-' :: x) ++ ',' :: regName k) =
      .ok { kind := .indexed, text := ('-' :: x) ++ ',' :: regName k, value := .leftRight ('-' :: x) (regName k) .extended,
            left := .val (.numeric (parseBase 10 x) (if r.is16Bit then some 4 else none) .none true),
            right := some (regName k) } :=
  frontEnd_indexed_val hr.flags (operandHead_minus _) (splitExpr_head_nonword '-' _ (by decide) (by decide))
    (by have := decLit_no_comma hx; simpa using this) (comma_not_mem_regName hk) (by simp) (isABD_neg x)
    (resolveLeft_neg hr.flags.notStr hx hv [])

/-- what the front end builds for `[-n,R]` -/
theorem frontEnd_ind_neg_offset {x : Str} (hx : IsDecLit x) (hv : parseBase 10 x ≤ 32768) {k : Nat} (hk : k < 4) :
    frontEnd r ('[' :: ((('-' :: x) ++ ',' :: regName k) ++ [']'])) =
      .ok { kind := .extIndirect, text := '[' :: ((('-' :: x) ++ ',' :: regName k) ++ [']']),
            value := .leftRight ('-' :: x) (regName k) .extended,
            left := .val (.numeric (parseBase 10 x) (if r.is16Bit then some 4 else none) .none true),
            right := some (regName k) } :=
  frontEnd_bracket_val hr.flags (operandHead_minus _) (splitExpr_head_nonword '-' _ (by decide) (by decide))
    (by have := decLit_no_comma hx; simpa using this) (comma_not_mem_regName hk) (by simp) (isABD_neg x)
    (resolveLeft_neg hr.flags.notStr hx hv [])

/-- `n,R`, 1 ≤ n ≤ 15: the 5-bit form, every row -/
theorem C01_text_off5 {c k : Nat} (hc : r.ind = some c) (hk : k < 4) {x : Str} (hx : IsDecLit x)
    (h1 : 1 ≤ parseBase 10 x) (h2 : parseBase 10 x ≤ 15) :
    TextEncodes r (x ++ ',' :: regName k) (.idx (.off k (parseBase 10 x) false 5)) :=
  textEncodes_of_region hr (frontEnd_offset hr hx (by omega) hk) (.off5pos rfl hc rfl h1 h2 hk rfl)

/-- `-n,R`, 1 ≤ n ≤ 16: the 5-bit form, every row -/
theorem C01_text_off5_neg {c k : Nat} (hc : r.ind = some c) (hk : k < 4) {x : Str} (hx : IsDecLit x)
    (h1 : 1 ≤ parseBase 10 x) (h2 : parseBase 10 x ≤ 16) :
    TextEncodes r (('-' :: x) ++ ',' :: regName k) (.idx (.off k (-(parseBase 10 x : Int)) false 5)) :=
  textEncodes_of_region hr (frontEnd_neg_offset hr hx (by omega) hk) (.off5neg rfl hc rfl h1 h2 hk rfl)

/-- `n,R`, 16 ≤ n ≤ 127: the 8-bit form, on EVERY row (`LDD 100,X` is `EC 88 64`; finding A3 is repaired) -/
theorem C01_text_off8 {c k : Nat} (hc : r.ind = some c) (hk : k < 4) {x : Str}
    (hx : IsDecLit x) (h1 : 16 ≤ parseBase 10 x) (h2 : parseBase 10 x ≤ 127) :
    TextEncodes r (x ++ ',' :: regName k) (.idx (.off k (parseBase 10 x) false 8)) :=
  textEncodes_of_region hr (frontEnd_offset hr hx (by omega) hk) (.off8pos rfl hc rfl h1 h2 hk rfl)

/-- `-n,R`, 17 ≤ n ≤ 128: the 8-bit form with the two's complement byte (`LDA -17,X` is `A6 88 EF`, size 3;
finding A4 is repaired) -/
theorem C01_text_off8_neg {c k : Nat} (hc : r.ind = some c) (hk : k < 4) {x : Str}
    (hx : IsDecLit x) (h1 : 17 ≤ parseBase 10 x) (h2 : parseBase 10 x ≤ 128) :
    TextEncodes r (('-' :: x) ++ ',' :: regName k) (.idx (.off k (-(parseBase 10 x : Int)) false 8)) :=
  textEncodes_of_region hr (frontEnd_neg_offset hr hx (by omega) hk) (.off8neg rfl hc rfl h1 h2 hk rfl)

/-- `n,R`, 128 ≤ n ≤ 65535: the 16-bit form, every row -/
theorem C01_text_off16 {c k : Nat} (hc : r.ind = some c) (hk : k < 4) {x : Str} (hx : IsDecLit x)
    (h1 : 128 ≤ parseBase 10 x) (h2 : parseBase 10 x < 65536) :
    TextEncodes r (x ++ ',' :: regName k) (.idx (.off k (sext (parseBase 10 x) 16) false 16)) :=
  textEncodes_of_region hr (frontEnd_offset hr hx h2 hk) (.off16pos rfl hc rfl h1 h2 hk rfl)

/-- `-n,R`, 129 ≤ n ≤ 32768: the 16-bit form with the two's complement word (`LDA -200,X` is `A6 89 FF 38`, size 4) -/
theorem C01_text_off16_neg {c k : Nat} (hc : r.ind = some c) (hk : k < 4) {x : Str} (hx : IsDecLit x)
    (h1 : 129 ≤ parseBase 10 x) (h2 : parseBase 10 x ≤ 32768) :
    TextEncodes r (('-' :: x) ++ ',' :: regName k) (.idx (.off k (-(parseBase 10 x : Int)) false 16)) :=
  textEncodes_of_region hr (frontEnd_neg_offset hr hx h2 hk) (.off16neg rfl hc rfl h1 h2 hk rfl)

/-- `[n,R]`, 1 ≤ n ≤ 127: 8-bit (there is no 5-bit indirect form), EVERY row -/
theorem C01_text_ind_off8 {c k : Nat} (hc : r.ind = some c) (hk : k < 4) {x : Str}
    (hx : IsDecLit x) (h1 : 1 ≤ parseBase 10 x) (h2 : parseBase 10 x ≤ 127) :
    TextEncodes r ('[' :: ((x ++ ',' :: regName k) ++ [']'])) (.idx (.off k (parseBase 10 x) true 8)) :=
  textEncodes_of_region hr (frontEnd_ind_offset hr hx (by omega) hk)
    (.indOff8pos ⟨rfl, rfl, rfl, rfl⟩ hc rfl h1 h2 hk rfl)

/-- `[-n,R]`, 1 ≤ n ≤ 128: 8-bit, every row (`LDA [-5,X]` is `A6 98 FB`, size 3) -/
theorem C01_text_ind_off8_neg {c k : Nat} (hc : r.ind = some c) (hk : k < 4) {x : Str}
    (hx : IsDecLit x) (h1 : 1 ≤ parseBase 10 x) (h2 : parseBase 10 x ≤ 128) :
    TextEncodes r ('[' :: ((('-' :: x) ++ ',' :: regName k) ++ [']'])) (.idx (.off k (-(parseBase 10 x : Int)) true 8)) :=
  textEncodes_of_region hr (frontEnd_ind_neg_offset hr hx (by omega) hk)
    (.indOff8neg ⟨rfl, rfl, rfl, rfl⟩ hc rfl h1 h2 hk rfl)

/-- `[n,R]`, 128 ≤ n ≤ 65535: 16-bit, every row -/
theorem C01_text_ind_off16 {c k : Nat} (hc : r.ind = some c) (hk : k < 4) {x : Str} (hx : IsDecLit x)
    (h1 : 128 ≤ parseBase 10 x) (h2 : parseBase 10 x < 65536) :
    TextEncodes r ('[' :: ((x ++ ',' :: regName k) ++ [']'])) (.idx (.off k (sext (parseBase 10 x) 16) true 16)) :=
  textEncodes_of_region hr (frontEnd_ind_offset hr hx h2 hk) (.indOff16pos ⟨rfl, rfl, rfl, rfl⟩ hc rfl h1 h2 hk rfl)

/-- `[-n,R]`, 129 ≤ n ≤ 32768: 16-bit, every row -/
theorem C01_text_ind_off16_neg {c k : Nat} (hc : r.ind = some c) (hk : k < 4) {x : Str} (hx : IsDecLit x)
    (h1 : 129 ≤ parseBase 10 x) (h2 : parseBase 10 x ≤ 32768) :
    TextEncodes r ('[' :: ((('-' :: x) ++ ',' :: regName k) ++ [']'])) (.idx (.off k (-(parseBase 10 x : Int)) true 16)) :=
  textEncodes_of_region hr (frontEnd_ind_neg_offset hr hx h2 hk) (.indOff16neg ⟨rfl, rfl, rfl, rfl⟩ hc rfl h1 h2 hk rfl)

/-- `0,R` (any spelling of zero): assembled exactly like `,R` -/
theorem C01_text_off0 {c k : Nat} (hc : r.ind = some c) (hk : k < 4) {x : Str} (hx : IsDecLit x)
    (h0 : parseBase 10 x = 0) :
    TextEncodes r (x ++ ',' :: regName k) (.idx (.off k 0 false 0)) := by
  have hfe := frontEnd_offset hr hx (by omega) hk
  rw [h0] at hfe
  refine textEncodes_of hfe (encodes_congr (translateOperand_zero_val _ r (Or.inl rfl) rfl rfl (regName_plain k hk).noPcr) ?_)
  exact C01_partial hr.mem hr.notPseudo (.zero rfl hc rfl hk rfl)

/-- `[0,R]`: assembled exactly like `[,R]` -/
theorem C01_text_ind_off0 {c k : Nat} (hc : r.ind = some c) (hk : k < 4) {x : Str} (hx : IsDecLit x)
    (h0 : parseBase 10 x = 0) :
    TextEncodes r ('[' :: ((x ++ ',' :: regName k) ++ [']'])) (.idx (.off k 0 true 0)) := by
  have hfe := frontEnd_ind_offset hr hx (by omega) hk
  rw [h0] at hfe
  refine textEncodes_of hfe (encodes_congr (translateOperand_zero_val _ r (Or.inr rfl) rfl rfl (regName_plain k hk).noPcr) ?_)
  exact C01_partial hr.mem hr.notPseudo (.indZero ⟨rfl, rfl, rfl, rfl⟩ hc rfl hk rfl)

end families

section pcrFamilies
variable {r : InstrRow} (hr : PlainRow r)
include hr

/-! ## 7. numeric offsets from the program counter: `n,PCR  -n,PCR  [n,PCR]  [-n,PCR]` (repair A9)

The offset is the number itself.  A non-negative literal on an `is_16_bit` row carries the row's size hint and is in
EXTENDED mode, so it always takes the 16-bit form there (`LDX 5,PCR` is `AE 8D 00 05`); a negative literal never is
(`LDX -5,PCR` is `AE 8C FB`). -/

theorem frontEnd_pcr {x : Str} (hx : IsDecLit x) (hv : parseBase 10 x < 65536) :
    frontEnd r (x ++ ',' :: str "PCR") =
      .ok { kind := .indexed, text := x ++ ',' :: str "PCR", value := .leftRight x (str "PCR") .extended,
            left := .val (.numeric (parseBase 10 x)
              (if r.is16Bit then some 4 else if parseBase 10 x < 256 then some 2 else none)
              (if r.is16Bit then .extended else if parseBase 10 x < 256 then .direct else .extended) false),
            right := some (str "PCR") } :=
  frontEnd_indexed_val hr.flags (operandHead_dec hx _) (splitExpr_word_comma x _ (decLit_word hx))
    (decLit_no_comma hx) (by decide) hx.1 (isABD_dec hx) (resolveLeft_dec hr.flags.notStr hx hv [])

theorem frontEnd_ind_pcr {x : Str} (hx : IsDecLit x) (hv : parseBase 10 x < 65536) :
    frontEnd r ('[' :: ((x ++ ',' :: str "PCR") ++ [']'])) =
      .ok { kind := .extIndirect, text := '[' :: ((x ++ ',' :: str "PCR") ++ [']']),
            value := .leftRight x (str "PCR") .extended,
            left := .val (.numeric (parseBase 10 x)
              (if r.is16Bit then some 4 else if parseBase 10 x < 256 then some 2 else none)
              (if r.is16Bit then .extended else if parseBase 10 x < 256 then .direct else .extended) false),
            right := some (str "PCR") } :=
  frontEnd_bracket_val hr.flags (operandHead_dec hx _) (splitExpr_word_comma x _ (decLit_word hx))
    (decLit_no_comma hx) (by decide) hx.1 (isABD_dec hx) (resolveLeft_dec hr.flags.notStr hx hv [])

theorem frontEnd_neg_pcr {x : Str} (hx : IsDecLit x) (hv : parseBase 10 x ≤ 32768) :
    frontEnd r (('-' :: x) ++ ',' :: str "PCR") =
      .ok { kind := .indexed, text := ('-' :: x) ++ ',' :: str "PCR", value := .leftRight ('-' :: x) (str "PCR") .extended,
            left := .val (.numeric (parseBase 10 x) (if r.is16Bit then some 4 else none) .none true),
            right := some (str "PCR") } :=
  frontEnd_indexed_val hr.flags (operandHead_minus _) (splitExpr_head_nonword '-' _ (by decide) (by decide))
    (by have := decLit_no_comma hx; simpa using this) (by decide) (by simp) (isABD_neg x)
    (resolveLeft_neg hr.flags.notStr hx hv [])

theorem frontEnd_ind_neg_pcr {x : Str} (hx : IsDecLit x) (hv : parseBase 10 x ≤ 32768) :
    frontEnd r ('[' :: ((('-' :: x) ++ ',' :: str "PCR") ++ [']'])) =
      .ok { kind := .extIndirect, text := '[' :: ((('-' :: x) ++ ',' :: str "PCR") ++ [']']),
            value := .leftRight ('-' :: x) (str "PCR") .extended,
            left := .val (.numeric (parseBase 10 x) (if r.is16Bit then some 4 else none) .none true),
            right := some (str "PCR") } :=
  frontEnd_bracket_val hr.flags (operandHead_minus _) (splitExpr_head_nonword '-' _ (by decide) (by decide))
    (by have := decLit_no_comma hx; simpa using this) (by decide) (by simp) (isABD_neg x)
    (resolveLeft_neg hr.flags.notStr hx hv [])

omit hr in
theorem mode_ne_extended {n : Nat} (h16 : r.is16Bit = false) (hn : n < 256) :
    (if r.is16Bit then Mode.extended else if n < 256 then .direct else .extended) ≠ .extended := by
  simp [h16, hn]

/-- `n,PCR`, 0 ≤ n ≤ 127, on a row without `is_16_bit`: the 8-bit form (`LDA 5,PCR` is `A6 8C 05`, `LDA 0,PCR` is
`A6 8C 00`) -/
theorem C01_text_pcr8 {c : Nat} (hc : r.ind = some c) (h16 : r.is16Bit = false) {x : Str} (hx : IsDecLit x)
    (h2 : parseBase 10 x ≤ 127) :
    TextEncodes r (x ++ ',' :: str "PCR") (.idx (.pcr (parseBase 10 x) false 8)) := by
  have := textEncodes_of_region hr (frontEnd_pcr hr hx (by omega))
    (.pcr8 rfl hc rfl rfl (mode_ne_extended h16 (by omega)) (by simp [signedVal] <;> omega) (by simp [signedVal] <;> omega))
  simpa [signedVal] using this

/-- `n,PCR`, 128 ≤ n ≤ 65535, or any n ≤ 65535 on an `is_16_bit` row: the 16-bit form (`LDA 128,PCR` is
`A6 8D 00 80`; formerly `8C 80`, read back as −128) -/
theorem C01_text_pcr16 {c : Nat} (hc : r.ind = some c) {x : Str} (hx : IsDecLit x)
    (h1 : r.is16Bit = true ∨ 128 ≤ parseBase 10 x) (h2 : parseBase 10 x < 65536) :
    TextEncodes r (x ++ ',' :: str "PCR") (.idx (.pcr (sext (parseBase 10 x) 16) false 16)) := by
  have hw : (if r.is16Bit then Mode.extended else if parseBase 10 x < 256 then .direct else .extended) = .extended ∨
      ¬ (-128 ≤ signedVal (parseBase 10 x) false ∧ signedVal (parseBase 10 x) false ≤ 127) := by
    rcases h1 with h | h
    · left; simp [h]
    · right; simp [signedVal]; omega
  have := textEncodes_of_region hr (frontEnd_pcr hr hx h2)
    (.pcr16 rfl hc rfl rfl hw (by simp [signedVal] <;> omega) (by simp [signedVal] <;> omega))
  rwa [twos16_pos h2] at this

/-- `-n,PCR`, 0 ≤ n ≤ 128, EVERY row: the 8-bit form with the two's complement byte -/
theorem C01_text_pcr8_neg {c : Nat} (hc : r.ind = some c) {x : Str} (hx : IsDecLit x) (h2 : parseBase 10 x ≤ 128) :
    TextEncodes r (('-' :: x) ++ ',' :: str "PCR") (.idx (.pcr (-(parseBase 10 x : Int)) false 8)) := by
  have := textEncodes_of_region hr (frontEnd_neg_pcr hr hx (by omega))
    (.pcr8 rfl hc rfl rfl (by decide) (by simp [signedVal] <;> omega) (by simp [signedVal] <;> omega))
  simpa [signedVal] using this

/-- `-n,PCR`, 129 ≤ n ≤ 32768: the 16-bit form with the two's complement word -/
theorem C01_text_pcr16_neg {c : Nat} (hc : r.ind = some c) {x : Str} (hx : IsDecLit x)
    (h1 : 129 ≤ parseBase 10 x) (h2 : parseBase 10 x ≤ 32768) :
    TextEncodes r (('-' :: x) ++ ',' :: str "PCR") (.idx (.pcr (-(parseBase 10 x : Int)) false 16)) := by
  have := textEncodes_of_region hr (frontEnd_neg_pcr hr hx h2)
    (.pcr16 rfl hc rfl rfl (Or.inr (by simp [signedVal]; omega)) (by simp [signedVal] <;> omega)
      (by simp [signedVal] <;> omega))
  rwa [twos16_neg (by omega) h2, sext16_neg (by omega) h2] at this

/-- `[n,PCR]`, 8-bit form -/
theorem C01_text_ind_pcr8 {c : Nat} (hc : r.ind = some c) (h16 : r.is16Bit = false) {x : Str} (hx : IsDecLit x)
    (h2 : parseBase 10 x ≤ 127) :
    TextEncodes r ('[' :: ((x ++ ',' :: str "PCR") ++ [']'])) (.idx (.pcr (parseBase 10 x) true 8)) := by
  have := textEncodes_of_region hr (frontEnd_ind_pcr hr hx (by omega))
    (.indPcr8 ⟨rfl, rfl, rfl, rfl⟩ hc rfl rfl (mode_ne_extended h16 (by omega)) (by simp [signedVal] <;> omega)
      (by simp [signedVal] <;> omega))
  simpa [signedVal] using this

/-- `[n,PCR]`, 16-bit form -/
theorem C01_text_ind_pcr16 {c : Nat} (hc : r.ind = some c) {x : Str} (hx : IsDecLit x)
    (h1 : r.is16Bit = true ∨ 128 ≤ parseBase 10 x) (h2 : parseBase 10 x < 65536) :
    TextEncodes r ('[' :: ((x ++ ',' :: str "PCR") ++ [']'])) (.idx (.pcr (sext (parseBase 10 x) 16) true 16)) := by
  have hw : (if r.is16Bit then Mode.extended else if parseBase 10 x < 256 then .direct else .extended) = .extended ∨
      ¬ (-128 ≤ signedVal (parseBase 10 x) false ∧ signedVal (parseBase 10 x) false ≤ 127) := by
    rcases h1 with h | h
    · left; simp [h]
    · right; simp [signedVal]; omega
  have := textEncodes_of_region hr (frontEnd_ind_pcr hr hx h2)
    (.indPcr16 ⟨rfl, rfl, rfl, rfl⟩ hc rfl rfl hw (by simp [signedVal] <;> omega) (by simp [signedVal] <;> omega))
  rwa [twos16_pos h2] at this

/-- `[-n,PCR]`, 8-bit form -/
theorem C01_text_ind_pcr8_neg {c : Nat} (hc : r.ind = some c) {x : Str} (hx : IsDecLit x) (h2 : parseBase 10 x ≤ 128) :
    TextEncodes r ('[' :: ((('-' :: x) ++ ',' :: str "PCR") ++ [']'])) (.idx (.pcr (-(parseBase 10 x : Int)) true 8)) := by
  have := textEncodes_of_region hr (frontEnd_ind_neg_pcr hr hx (by omega))
    (.indPcr8 ⟨rfl, rfl, rfl, rfl⟩ hc rfl rfl (by decide) (by simp [signedVal] <;> omega) (by simp [signedVal] <;> omega))
  simpa [signedVal] using this

/-- `[-n,PCR]`, 16-bit form -/
theorem C01_text_ind_pcr16_neg {c : Nat} (hc : r.ind = some c) {x : Str} (hx : IsDecLit x)
    (h1 : 129 ≤ parseBase 10 x) (h2 : parseBase 10 x ≤ 32768) :
    TextEncodes r ('[' :: ((('-' :: x) ++ ',' :: str "PCR") ++ [']'])) (.idx (.pcr (-(parseBase 10 x : Int)) true 16)) := by
  have := textEncodes_of_region hr (frontEnd_ind_neg_pcr hr hx h2)
    (.indPcr16 ⟨rfl, rfl, rfl, rfl⟩ hc rfl rfl (Or.inr (by simp [signedVal]; omega)) (by simp [signedVal] <;> omega)
      (by simp [signedVal] <;> omega))
  rwa [twos16_neg (by omega) h2, sext16_neg (by omega) h2] at this

end pcrFamilies

/-! ## the proved text region -/

/-- PROVED text region: operand texts (as strings) with the datasheet operand they denote.  Since the repairs of
A3–A7 nothing of the literal spelling families is excluded any more: 8-bit offsets on `is_16_bit` rows, negative
offsets of every width, `[$hh]`, `>$hh`, `<n` and small negative 16-bit immediates are all inside; what does not fit
its field (`#256`, `#-129` on an 8-bit row, `<256`) is REJECTED (`C01_text_*_rejected`).  Not literal spellings of
this file: register lists (C01 `list`, `C01_push_pull`), expressions (C04).  Numeric `n,PCR` (repair A9) is inside
since batch B2: the `pcr*` constructors. -/
inductive TextRegion (r : InstrRow) : Str → Spec.MC6809.Operand → Prop
  | inherent {c : Nat} : r.inh = some c → TextRegion r [] .none
  | imm8Dec {c : Nat} {x : Str} : r.imm = some c → r.is16Bit = false → IsDecLit x → parseBase 10 x < 256 →
      TextRegion r ('#' :: x) (.imm 8 (parseBase 10 x))
  | imm8Hex {c : Nat} {hs : Str} : r.imm = some c → r.is16Bit = false → IsHexLit 2 hs →
      TextRegion r ('#' :: '$' :: hs) (.imm 8 (parseBase 16 hs))
  | imm16Dec {c : Nat} {x : Str} : r.imm = some c → r.is16Bit = true → IsDecLit x → parseBase 10 x < 65536 →
      TextRegion r ('#' :: x) (.imm 16 (parseBase 10 x))
  | imm16Hex {c : Nat} {hs : Str} : r.imm = some c → r.is16Bit = true → IsHexLit 4 hs →
      TextRegion r ('#' :: '$' :: hs) (.imm 16 (parseBase 16 hs))
  | imm16Hex2 {c : Nat} {hs : Str} : r.imm = some c → r.is16Bit = true → IsHexLit 2 hs →
      TextRegion r ('#' :: '$' :: hs) (.imm 16 (parseBase 16 hs))
  | imm8Neg {c : Nat} {x : Str} : r.imm = some c → r.is16Bit = false → IsDecLit x → 1 ≤ parseBase 10 x →
      parseBase 10 x ≤ 128 → TextRegion r ('#' :: '-' :: x) (.imm 8 (256 - parseBase 10 x))
  | imm16Neg {c : Nat} {x : Str} : r.imm = some c → r.is16Bit = true → IsDecLit x → 1 ≤ parseBase 10 x →
      parseBase 10 x ≤ 32768 → TextRegion r ('#' :: '-' :: x) (.imm 16 (65536 - parseBase 10 x))
  | extHex4 {c : Nat} {hs : Str} : r.ext = some c → IsHexLit 4 hs → TextRegion r ('$' :: hs) (.ext (parseBase 16 hs))
  | extDec {c : Nat} {x : Str} : r.ext = some c → IsDecLit x → parseBase 10 x < 65536 →
      TextRegion r x (.ext (parseBase 10 x))
  | dirHex2 {c : Nat} {hs : Str} : r.dir = some c → r.is16Bit = false → IsHexLit 2 hs →
      TextRegion r ('$' :: hs) (.dir (parseBase 16 hs))
  | extHex2On16 {c : Nat} {hs : Str} : r.ext = some c → r.is16Bit = true → IsHexLit 2 hs →
      TextRegion r ('$' :: hs) (.ext (parseBase 16 hs))
  | extGtHex2 {c : Nat} {hs : Str} : r.ext = some c → IsHexLit 2 hs →
      TextRegion r ('>' :: '$' :: hs) (.ext (parseBase 16 hs))
  | extGtDec {c : Nat} {x : Str} : r.ext = some c → IsDecLit x → parseBase 10 x < 65536 →
      TextRegion r ('>' :: x) (.ext (parseBase 10 x))
  | dirLtDec {c : Nat} {x : Str} : r.dir = some c → IsDecLit x → parseBase 10 x < 256 →
      TextRegion r ('<' :: x) (.dir (parseBase 10 x))
  | extIndHex4 {c : Nat} {hs : Str} : r.ind = some c → IsHexLit 4 hs →
      TextRegion r ('[' :: (('$' :: hs) ++ [']'])) (.idx (.extInd (parseBase 16 hs)))
  | extIndHex2 {c : Nat} {hs : Str} : r.ind = some c → IsHexLit 2 hs →
      TextRegion r ('[' :: (('$' :: hs) ++ [']'])) (.idx (.extInd (parseBase 16 hs)))
  | extIndDec {c : Nat} {x : Str} : r.ind = some c → IsDecLit x → parseBase 10 x < 65536 →
      TextRegion r ('[' :: (x ++ [']'])) (.idx (.extInd (parseBase 10 x)))
  | zero {c k : Nat} : r.ind = some c → k < 4 → TextRegion r (',' :: regName k) (.idx (.off k 0 false 0))
  | inc1 {c k : Nat} : r.ind = some c → k < 4 → TextRegion r (',' :: (regName k ++ ['+'])) (.idx (.inc1 k))
  | inc2 {c k : Nat} : r.ind = some c → k < 4 → TextRegion r (',' :: (regName k ++ ['+', '+'])) (.idx (.inc2 k false))
  | dec1 {c k : Nat} : r.ind = some c → k < 4 → TextRegion r (',' :: '-' :: regName k) (.idx (.dec1 k))
  | dec2 {c k : Nat} : r.ind = some c → k < 4 → TextRegion r (',' :: '-' :: '-' :: regName k) (.idx (.dec2 k false))
  | indZero {c k : Nat} : r.ind = some c → k < 4 →
      TextRegion r ('[' :: ((',' :: regName k) ++ [']'])) (.idx (.off k 0 true 0))
  | indInc2 {c k : Nat} : r.ind = some c → k < 4 →
      TextRegion r ('[' :: ((',' :: (regName k ++ ['+', '+'])) ++ [']'])) (.idx (.inc2 k true))
  | indDec2 {c k : Nat} : r.ind = some c → k < 4 →
      TextRegion r ('[' :: ((',' :: '-' :: '-' :: regName k) ++ [']'])) (.idx (.dec2 k true))
  | acc {c k a : Nat} {l : Str} : r.ind = some c → (l, a) ∈ accNames → k < 4 →
      TextRegion r (l ++ ',' :: regName k) (.idx (.acc a k false))
  | indAcc {c k a : Nat} {l : Str} : r.ind = some c → (l, a) ∈ accNames → k < 4 →
      TextRegion r ('[' :: ((l ++ ',' :: regName k) ++ [']'])) (.idx (.acc a k true))
  | off0 {c k : Nat} {x : Str} : r.ind = some c → k < 4 → IsDecLit x → parseBase 10 x = 0 →
      TextRegion r (x ++ ',' :: regName k) (.idx (.off k 0 false 0))
  | off5 {c k : Nat} {x : Str} : r.ind = some c → k < 4 → IsDecLit x → 1 ≤ parseBase 10 x → parseBase 10 x ≤ 15 →
      TextRegion r (x ++ ',' :: regName k) (.idx (.off k (parseBase 10 x) false 5))
  | off5neg {c k : Nat} {x : Str} : r.ind = some c → k < 4 → IsDecLit x → 1 ≤ parseBase 10 x → parseBase 10 x ≤ 16 →
      TextRegion r (('-' :: x) ++ ',' :: regName k) (.idx (.off k (-(parseBase 10 x : Int)) false 5))
  | off8 {c k : Nat} {x : Str} : r.ind = some c → k < 4 → IsDecLit x → 16 ≤ parseBase 10 x →
      parseBase 10 x ≤ 127 → TextRegion r (x ++ ',' :: regName k) (.idx (.off k (parseBase 10 x) false 8))
  | off8neg {c k : Nat} {x : Str} : r.ind = some c → k < 4 → IsDecLit x → 17 ≤ parseBase 10 x →
      parseBase 10 x ≤ 128 →
      TextRegion r (('-' :: x) ++ ',' :: regName k) (.idx (.off k (-(parseBase 10 x : Int)) false 8))
  | off16 {c k : Nat} {x : Str} : r.ind = some c → k < 4 → IsDecLit x → 128 ≤ parseBase 10 x → parseBase 10 x < 65536 →
      TextRegion r (x ++ ',' :: regName k) (.idx (.off k (sext (parseBase 10 x) 16) false 16))
  | off16neg {c k : Nat} {x : Str} : r.ind = some c → k < 4 → IsDecLit x → 129 ≤ parseBase 10 x →
      parseBase 10 x ≤ 32768 →
      TextRegion r (('-' :: x) ++ ',' :: regName k) (.idx (.off k (-(parseBase 10 x : Int)) false 16))
  | indOff0 {c k : Nat} {x : Str} : r.ind = some c → k < 4 → IsDecLit x → parseBase 10 x = 0 →
      TextRegion r ('[' :: ((x ++ ',' :: regName k) ++ [']'])) (.idx (.off k 0 true 0))
  | indOff8 {c k : Nat} {x : Str} : r.ind = some c → k < 4 → IsDecLit x → 1 ≤ parseBase 10 x →
      parseBase 10 x ≤ 127 →
      TextRegion r ('[' :: ((x ++ ',' :: regName k) ++ [']'])) (.idx (.off k (parseBase 10 x) true 8))
  | indOff8neg {c k : Nat} {x : Str} : r.ind = some c → k < 4 → IsDecLit x → 1 ≤ parseBase 10 x →
      parseBase 10 x ≤ 128 →
      TextRegion r ('[' :: ((('-' :: x) ++ ',' :: regName k) ++ [']'])) (.idx (.off k (-(parseBase 10 x : Int)) true 8))
  | indOff16 {c k : Nat} {x : Str} : r.ind = some c → k < 4 → IsDecLit x → 128 ≤ parseBase 10 x →
      parseBase 10 x < 65536 →
      TextRegion r ('[' :: ((x ++ ',' :: regName k) ++ [']'])) (.idx (.off k (sext (parseBase 10 x) 16) true 16))
  | indOff16neg {c k : Nat} {x : Str} : r.ind = some c → k < 4 → IsDecLit x → 129 ≤ parseBase 10 x →
      parseBase 10 x ≤ 32768 →
      TextRegion r ('[' :: ((('-' :: x) ++ ',' :: regName k) ++ [']'])) (.idx (.off k (-(parseBase 10 x : Int)) true 16))
  | pcr8 {c : Nat} {x : Str} : r.ind = some c → r.is16Bit = false → IsDecLit x → parseBase 10 x ≤ 127 →
      TextRegion r (x ++ ',' :: str "PCR") (.idx (.pcr (parseBase 10 x) false 8))
  | pcr16 {c : Nat} {x : Str} : r.ind = some c → IsDecLit x → (r.is16Bit = true ∨ 128 ≤ parseBase 10 x) →
      parseBase 10 x < 65536 → TextRegion r (x ++ ',' :: str "PCR") (.idx (.pcr (sext (parseBase 10 x) 16) false 16))
  | pcr8neg {c : Nat} {x : Str} : r.ind = some c → IsDecLit x → parseBase 10 x ≤ 128 →
      TextRegion r (('-' :: x) ++ ',' :: str "PCR") (.idx (.pcr (-(parseBase 10 x : Int)) false 8))
  | pcr16neg {c : Nat} {x : Str} : r.ind = some c → IsDecLit x → 129 ≤ parseBase 10 x → parseBase 10 x ≤ 32768 →
      TextRegion r (('-' :: x) ++ ',' :: str "PCR") (.idx (.pcr (-(parseBase 10 x : Int)) false 16))
  | indPcr8 {c : Nat} {x : Str} : r.ind = some c → r.is16Bit = false → IsDecLit x → parseBase 10 x ≤ 127 →
      TextRegion r ('[' :: ((x ++ ',' :: str "PCR") ++ [']'])) (.idx (.pcr (parseBase 10 x) true 8))
  | indPcr16 {c : Nat} {x : Str} : r.ind = some c → IsDecLit x → (r.is16Bit = true ∨ 128 ≤ parseBase 10 x) →
      parseBase 10 x < 65536 →
      TextRegion r ('[' :: ((x ++ ',' :: str "PCR") ++ [']'])) (.idx (.pcr (sext (parseBase 10 x) 16) true 16))
  | indPcr8neg {c : Nat} {x : Str} : r.ind = some c → IsDecLit x → parseBase 10 x ≤ 128 →
      TextRegion r ('[' :: ((('-' :: x) ++ ',' :: str "PCR") ++ [']'])) (.idx (.pcr (-(parseBase 10 x : Int)) true 8))
  | indPcr16neg {c : Nat} {x : Str} : r.ind = some c → IsDecLit x → 129 ≤ parseBase 10 x → parseBase 10 x ≤ 32768 →
      TextRegion r ('[' :: ((('-' :: x) ++ ',' :: str "PCR") ++ [']'])) (.idx (.pcr (-(parseBase 10 x : Int)) true 16))

/-- C01 (ii) from source text, on the proved text region: for every ordinary machine-instruction row and every
operand text of the region, `encodeText` gives `(size, bytes)`, `bytes.length = size`, and the datasheet decoder
reads `bytes` back as the row's operation with the denoted operand -/
theorem C01_text_partial {r : InstrRow} (hr : PlainRow r) {text : Str} {x : Spec.MC6809.Operand}
    (h : TextRegion r text x) : TextEncodes r text x := by
  cases h with
  | inherent hc => exact C01_text_inherent hr hc
  | imm8Dec hc h16 hx hv => exact C01_text_imm8_dec hr hc h16 hx hv
  | imm8Hex hc h16 hh => exact C01_text_imm8_hex hr hc h16 hh
  | imm16Dec hc h16 hx hv => exact C01_text_imm16_dec hr hc h16 hx hv
  | imm16Hex hc h16 hh => exact C01_text_imm16_hex hr hc h16 hh
  | imm16Hex2 hc h16 hh => exact C01_text_imm16_hex2 hr hc h16 hh
  | imm8Neg hc h16 hx h1 h2 => exact C01_text_imm8_neg hr hc h16 hx h1 h2
  | imm16Neg hc h16 hx h1 h2 => exact C01_text_imm16_neg hr hc h16 hx h1 h2
  | extHex4 hc hh => exact C01_text_ext_hex4 hr hc hh
  | extDec hc hx hv => exact C01_text_ext_dec hr hc hx hv
  | dirHex2 hc h16 hh => exact C01_text_dir_hex2 hr hc h16 hh
  | extHex2On16 hc h16 hh => exact C01_text_ext_hex2_16 hr hc h16 hh
  | extGtHex2 hc hh => exact C01_text_ext_gt_hex2 hr hc hh
  | extGtDec hc hx hv => exact C01_text_ext_gt_dec hr hc hx hv
  | dirLtDec hc hx hv => exact C01_text_dir_lt_dec hr hc hx hv
  | extIndHex4 hc hh => exact C01_text_extInd_hex4 hr hc hh
  | extIndHex2 hc hh => exact C01_text_extInd_hex2 hr hc hh
  | extIndDec hc hx hv => exact C01_text_extInd_dec hr hc hx hv
  | zero hc hk => exact (C01_text_indexed_noOffset hr hc hk).1
  | inc1 hc hk => exact (C01_text_indexed_noOffset hr hc hk).2.1
  | inc2 hc hk => exact (C01_text_indexed_noOffset hr hc hk).2.2.1
  | dec1 hc hk => exact (C01_text_indexed_noOffset hr hc hk).2.2.2.1
  | dec2 hc hk => exact (C01_text_indexed_noOffset hr hc hk).2.2.2.2
  | indZero hc hk => exact (C01_text_indirect_noOffset hr hc hk).1
  | indInc2 hc hk => exact (C01_text_indirect_noOffset hr hc hk).2.1
  | indDec2 hc hk => exact (C01_text_indirect_noOffset hr hc hk).2.2.1
  | acc hc hla hk => exact (C01_text_accumulator hr hc hla hk).1
  | indAcc hc hla hk => exact (C01_text_accumulator hr hc hla hk).2
  | off0 hc hk hx h0 => exact C01_text_off0 hr hc hk hx h0
  | off5 hc hk hx h1 h2 => exact C01_text_off5 hr hc hk hx h1 h2
  | off5neg hc hk hx h1 h2 => exact C01_text_off5_neg hr hc hk hx h1 h2
  | off8 hc hk hx h1 h2 => exact C01_text_off8 hr hc hk hx h1 h2
  | off8neg hc hk hx h1 h2 => exact C01_text_off8_neg hr hc hk hx h1 h2
  | off16 hc hk hx h1 h2 => exact C01_text_off16 hr hc hk hx h1 h2
  | off16neg hc hk hx h1 h2 => exact C01_text_off16_neg hr hc hk hx h1 h2
  | indOff0 hc hk hx h0 => exact C01_text_ind_off0 hr hc hk hx h0
  | indOff8 hc hk hx h1 h2 => exact C01_text_ind_off8 hr hc hk hx h1 h2
  | indOff8neg hc hk hx h1 h2 => exact C01_text_ind_off8_neg hr hc hk hx h1 h2
  | indOff16 hc hk hx h1 h2 => exact C01_text_ind_off16 hr hc hk hx h1 h2
  | indOff16neg hc hk hx h1 h2 => exact C01_text_ind_off16_neg hr hc hk hx h1 h2
  | pcr8 hc h16 hx h2 => exact C01_text_pcr8 hr hc h16 hx h2
  | pcr16 hc hx h1 h2 => exact C01_text_pcr16 hr hc hx h1 h2
  | pcr8neg hc hx h2 => exact C01_text_pcr8_neg hr hc hx h2
  | pcr16neg hc hx h1 h2 => exact C01_text_pcr16_neg hr hc hx h1 h2
  | indPcr8 hc h16 hx h2 => exact C01_text_ind_pcr8 hr hc h16 hx h2
  | indPcr16 hc hx h1 h2 => exact C01_text_ind_pcr16 hr hc hx h1 h2
  | indPcr8neg hc hx h2 => exact C01_text_ind_pcr8_neg hr hc hx h2
  | indPcr16neg hc hx h1 h2 => exact C01_text_ind_pcr16_neg hr hc hx h1 h2

/-! ## the renderings: ALL values in range

`decStr n` is `"{}".format(n)`, `hex2 v` is `"{:02X}".format(v)`, `hex4 v` is `"{:04X}".format(v)`. -/

theorem isDecLit_decStr (n : Nat) : IsDecLit (decStr n) := ⟨decStr_ne_nil n, decStr_all_isDigit n⟩

/-- every value in range, in Python's decimal and upper-case hex renderings -/
theorem C01_text_rendered {r : InstrRow} (hr : PlainRow r) :
    -- 1. inherent
    (∀ c, r.inh = some c → TextEncodes r [] .none) ∧
    -- 2. immediate, 8-bit rows:  #n  #$hh  #-n ; out of range: rejected
    (∀ c, r.imm = some c → r.is16Bit = false → ∀ n, n < 256 →
      TextEncodes r ('#' :: decStr n) (.imm 8 n) ∧ TextEncodes r ('#' :: '$' :: hex2 n) (.imm 8 n)) ∧
    (∀ c, r.imm = some c → r.is16Bit = false → ∀ n, 1 ≤ n → n ≤ 128 →
      TextEncodes r ('#' :: '-' :: decStr n) (.imm 8 (256 - n))) ∧
    (∀ c, r.imm = some c → r.is16Bit = false → ∀ n,
      (256 ≤ n → n < 65536 → encodeText r ('#' :: decStr n) = none) ∧
      (129 ≤ n → n ≤ 32768 → encodeText r ('#' :: '-' :: decStr n) = none)) ∧
    --    immediate, 16-bit rows:  #n  #$hhhh  #-n
    (∀ c, r.imm = some c → r.is16Bit = true → ∀ n, n < 65536 →
      TextEncodes r ('#' :: decStr n) (.imm 16 n) ∧ TextEncodes r ('#' :: '$' :: hex4 n) (.imm 16 n)) ∧
    (∀ c, r.imm = some c → r.is16Bit = true → ∀ n, 1 ≤ n → n ≤ 32768 →
      TextEncodes r ('#' :: '-' :: decStr n) (.imm 16 (65536 - n))) ∧
    -- 3. extended:  $hhhh  decimal n (ANY n: a decimal below 256 is extended too)  >n  >$hh
    (∀ c, r.ext = some c → ∀ n, n < 65536 →
      TextEncodes r ('$' :: hex4 n) (.ext n) ∧ TextEncodes r (decStr n) (.ext n) ∧
      TextEncodes r ('>' :: decStr n) (.ext n)) ∧
    (∀ c, r.ext = some c → ∀ n, n < 256 → TextEncodes r ('>' :: '$' :: hex2 n) (.ext n)) ∧
    --    direct:  $hh  (rows without is_16_bit; on is_16_bit rows the same text is extended)  <n
    (∀ c, r.dir = some c → r.is16Bit = false → ∀ n, n < 256 → TextEncodes r ('$' :: hex2 n) (.dir n)) ∧
    (∀ c, r.ext = some c → r.is16Bit = true → ∀ n, n < 256 → TextEncodes r ('$' :: hex2 n) (.ext n)) ∧
    (∀ c, r.dir = some c → ∀ n,
      (n < 256 → TextEncodes r ('<' :: decStr n) (.dir n)) ∧
      (256 ≤ n → n < 65536 → encodeText r ('<' :: decStr n) = none)) ∧
    -- 4. extended indirect:  [$hhhh]  [$hh]  [n]
    (∀ c, r.ind = some c → ∀ n, n < 65536 →
      TextEncodes r ('[' :: (('$' :: hex4 n) ++ [']'])) (.idx (.extInd n)) ∧
      TextEncodes r ('[' :: (decStr n ++ [']'])) (.idx (.extInd n))) ∧
    (∀ c, r.ind = some c → ∀ n, n < 256 → TextEncodes r ('[' :: (('$' :: hex2 n) ++ [']'])) (.idx (.extInd n))) ∧
    -- 6. constant offsets  n,R  -n,R  [n,R]  [-n,R]  on every row
    (∀ c, r.ind = some c → ∀ k, k < 4 → ∀ n : Nat,
      (n = 0 → TextEncodes r (decStr n ++ ',' :: regName k) (.idx (.off k 0 false 0))) ∧
      (1 ≤ n → n ≤ 15 → TextEncodes r (decStr n ++ ',' :: regName k) (.idx (.off k n false 5))) ∧
      (1 ≤ n → n ≤ 16 → TextEncodes r (('-' :: decStr n) ++ ',' :: regName k) (.idx (.off k (-(n : Int)) false 5))) ∧
      (16 ≤ n → n ≤ 127 → TextEncodes r (decStr n ++ ',' :: regName k) (.idx (.off k n false 8))) ∧
      (17 ≤ n → n ≤ 128 → TextEncodes r (('-' :: decStr n) ++ ',' :: regName k) (.idx (.off k (-(n : Int)) false 8))) ∧
      (128 ≤ n → n < 65536 → TextEncodes r (decStr n ++ ',' :: regName k) (.idx (.off k (sext n 16) false 16))) ∧
      (129 ≤ n → n ≤ 32768 →
        TextEncodes r (('-' :: decStr n) ++ ',' :: regName k) (.idx (.off k (-(n : Int)) false 16))) ∧
      (n = 0 → TextEncodes r ('[' :: ((decStr n ++ ',' :: regName k) ++ [']'])) (.idx (.off k 0 true 0))) ∧
      (1 ≤ n → n ≤ 127 →
        TextEncodes r ('[' :: ((decStr n ++ ',' :: regName k) ++ [']'])) (.idx (.off k n true 8))) ∧
      (1 ≤ n → n ≤ 128 →
        TextEncodes r ('[' :: ((('-' :: decStr n) ++ ',' :: regName k) ++ [']'])) (.idx (.off k (-(n : Int)) true 8))) ∧
      (128 ≤ n → n < 65536 →
        TextEncodes r ('[' :: ((decStr n ++ ',' :: regName k) ++ [']'])) (.idx (.off k (sext n 16) true 16))) ∧
      (129 ≤ n → n ≤ 32768 →
        TextEncodes r ('[' :: ((('-' :: decStr n) ++ ',' :: regName k) ++ [']'])) (.idx (.off k (-(n : Int)) true 16)))) := by
  have hd : ∀ n, IsDecLit (decStr n) := isDecLit_decStr
  have pd : ∀ n, parseBase 10 (decStr n) = n := parseBase_decStr
  refine ⟨fun c hc => C01_text_inherent hr hc, ?_, ?_, ?_, ?_, ?_, ?_, ?_, ?_, ?_, ?_, ?_, ?_, ?_⟩
  · intro c hc h16 n hn
    have h1 := C01_text_imm8_dec hr hc h16 (hd n) (by rw [pd]; exact hn)
    have h2 := C01_text_imm8_hex hr hc h16 (isHexLit_hex2 hn)
    rw [pd] at h1; rw [parseBase_hex2 hn] at h2
    exact ⟨h1, h2⟩
  · intro c hc h16 n h1 h2
    have := C01_text_imm8_neg hr hc h16 (hd n) (by rw [pd]; exact h1) (by rw [pd]; exact h2)
    rwa [pd] at this
  · intro c hc h16 n
    exact ⟨fun h1 h2 => C01_text_imm8_dec_rejected hr hc h16 (hd n) (by rw [pd]; exact h1) (by rw [pd]; exact h2),
      fun h1 h2 => C01_text_imm8_neg_rejected hr hc h16 (hd n) (by rw [pd]; exact h1) (by rw [pd]; exact h2)⟩
  · intro c hc h16 n hn
    have h1 := C01_text_imm16_dec hr hc h16 (hd n) (by rw [pd]; exact hn)
    have h2 := C01_text_imm16_hex hr hc h16 (isHexLit_hex4 hn)
    rw [pd] at h1; rw [parseBase_hex4 hn] at h2
    exact ⟨h1, h2⟩
  · intro c hc h16 n h1 h2
    have := C01_text_imm16_neg hr hc h16 (hd n) (by rw [pd]; exact h1) (by rw [pd]; exact h2)
    rwa [pd] at this
  · intro c hc n hn
    have h1 := C01_text_ext_hex4 hr hc (isHexLit_hex4 hn)
    have h2 := C01_text_ext_dec hr hc (hd n) (by rw [pd]; exact hn)
    have h3 := C01_text_ext_gt_dec hr hc (hd n) (by rw [pd]; exact hn)
    rw [parseBase_hex4 hn] at h1; rw [pd] at h2 h3
    exact ⟨h1, h2, h3⟩
  · intro c hc n hn
    have h1 := C01_text_ext_gt_hex2 hr hc (isHexLit_hex2 hn)
    rwa [parseBase_hex2 hn] at h1
  · intro c hc h16 n hn
    have h1 := C01_text_dir_hex2 hr hc h16 (isHexLit_hex2 hn)
    rwa [parseBase_hex2 hn] at h1
  · intro c hc h16 n hn
    have h1 := C01_text_ext_hex2_16 hr hc h16 (isHexLit_hex2 hn)
    rwa [parseBase_hex2 hn] at h1
  · intro c hc n
    refine ⟨fun hn => ?_, fun h1 h2 => C01_text_dir_lt_rejected hr hc (hd n) (by rw [pd]; exact h1) (by rw [pd]; exact h2)⟩
    have := C01_text_dir_lt_dec hr hc (hd n) (by rw [pd]; exact hn)
    rwa [pd] at this
  · intro c hc n hn
    have h1 := C01_text_extInd_hex4 hr hc (isHexLit_hex4 hn)
    have h2 := C01_text_extInd_dec hr hc (hd n) (by rw [pd]; exact hn)
    rw [parseBase_hex4 hn] at h1; rw [pd] at h2
    exact ⟨h1, h2⟩
  · intro c hc n hn
    have h1 := C01_text_extInd_hex2 hr hc (isHexLit_hex2 hn)
    rwa [parseBase_hex2 hn] at h1
  · intro c hc k hk n
    refine ⟨fun h0 => C01_text_off0 hr hc hk (hd n) (by rw [pd]; exact h0), ?_, ?_, ?_, ?_, ?_, ?_,
      fun h0 => C01_text_ind_off0 hr hc hk (hd n) (by rw [pd]; exact h0), ?_, ?_, ?_, ?_⟩
    · intro h1 h2
      have := C01_text_off5 hr hc hk (hd n) (by rw [pd]; exact h1) (by rw [pd]; exact h2)
      rwa [pd] at this
    · intro h1 h2
      have := C01_text_off5_neg hr hc hk (hd n) (by rw [pd]; exact h1) (by rw [pd]; exact h2)
      rwa [pd] at this
    · intro h1 h2
      have := C01_text_off8 hr hc hk (hd n) (by rw [pd]; exact h1) (by rw [pd]; exact h2)
      rwa [pd] at this
    · intro h1 h2
      have := C01_text_off8_neg hr hc hk (hd n) (by rw [pd]; exact h1) (by rw [pd]; exact h2)
      rwa [pd] at this
    · intro h1 h2
      have := C01_text_off16 hr hc hk (hd n) (by rw [pd]; exact h1) (by rw [pd]; exact h2)
      rwa [pd] at this
    · intro h1 h2
      have := C01_text_off16_neg hr hc hk (hd n) (by rw [pd]; exact h1) (by rw [pd]; exact h2)
      rwa [pd] at this
    · intro h1 h2
      have := C01_text_ind_off8 hr hc hk (hd n) (by rw [pd]; exact h1) (by rw [pd]; exact h2)
      rwa [pd] at this
    · intro h1 h2
      have := C01_text_ind_off8_neg hr hc hk (hd n) (by rw [pd]; exact h1) (by rw [pd]; exact h2)
      rwa [pd] at this
    · intro h1 h2
      have := C01_text_ind_off16 hr hc hk (hd n) (by rw [pd]; exact h1) (by rw [pd]; exact h2)
      rwa [pd] at this
    · intro h1 h2
      have := C01_text_ind_off16_neg hr hc hk (hd n) (by rw [pd]; exact h1) (by rw [pd]; exact h2)
      rwa [pd] at this

/-- Python's `"{}".format(n)` of an int -/
def decInt (n : Int) : Str := if n < 0 then '-' :: decStr n.natAbs else decStr n.natAbs

/-- the width the assembler chooses for the numeric PC offset `n` on row `r` -/
def pcrWidth (r : InstrRow) (n : Int) : Nat :=
  if -128 ≤ n ∧ n ≤ 127 ∧ (r.is16Bit = false ∨ n < 0) then 8 else 16

/-- the offset the datasheet decoder reads: `n` itself in the 8-bit form; in the 16-bit form the two-byte field
sign-extended (so `n` for −32768 ≤ n ≤ 32767, and `n − 65536` for the unsigned spellings 32768..65535) -/
def pcrOffset (r : InstrRow) (n : Int) : Int := if pcrWidth r n = 8 then n else sext (twos n 16) 16

theorem pcrOffset_eq (r : InstrRow) {n : Int} (h1 : -32768 ≤ n) (h2 : n ≤ 32767) : pcrOffset r n = n := by
  unfold pcrOffset
  split
  · rfl
  · simp only [sext, twos]; omega

/-- **numeric `n,PCR` and `[n,PCR]`, EVERY n in −32768..65535** (Python's rendering of `n`): the bytes decode as a
PC-relative operand with offset `n`, in the 8-bit form iff −128 ≤ n ≤ 127 and the literal is not in extended mode
(i.e. the row is not `is_16_bit`, or `n` is negative) -/
theorem C01_text_pcr_rendered {r : InstrRow} (hr : PlainRow r) {c : Nat} (hc : r.ind = some c) (n : Int)
    (h1 : -32768 ≤ n) (h2 : n ≤ 65535) :
    TextEncodes r (decInt n ++ ',' :: str "PCR") (.idx (.pcr (pcrOffset r n) false (pcrWidth r n))) ∧
    TextEncodes r ('[' :: ((decInt n ++ ',' :: str "PCR") ++ [']'])) (.idx (.pcr (pcrOffset r n) true (pcrWidth r n))) := by
  have hd : ∀ n, IsDecLit (decStr n) := isDecLit_decStr
  have pd : ∀ n, parseBase 10 (decStr n) = n := parseBase_decStr
  by_cases hn : n < 0
  · obtain ⟨k, rfl⟩ : ∃ k : Nat, n = -(k : Int) := ⟨n.natAbs, by omega⟩
    have hk : (-(k : Int)).natAbs = k := by omega
    simp only [decInt, hn, if_true, hk]
    by_cases h8 : k ≤ 128
    · have hw : pcrWidth r (-(k : Int)) = 8 := by
        unfold pcrWidth; rw [if_pos ⟨by omega, by omega, Or.inr hn⟩]
      have ho : pcrOffset r (-(k : Int)) = -(k : Int) := by simp [pcrOffset, hw]
      rw [hw, ho]
      have a := C01_text_pcr8_neg hr hc (hd k) (by rw [pd]; exact h8)
      have b := C01_text_ind_pcr8_neg hr hc (hd k) (by rw [pd]; exact h8)
      rw [pd] at a b
      exact ⟨a, b⟩
    · have hw : pcrWidth r (-(k : Int)) = 16 := by
        unfold pcrWidth; rw [if_neg (by omega)]
      have ho : pcrOffset r (-(k : Int)) = -(k : Int) := pcrOffset_eq r (by omega) (by omega)
      rw [hw, ho]
      have a := C01_text_pcr16_neg hr hc (hd k) (by rw [pd]; omega) (by rw [pd]; omega)
      have b := C01_text_ind_pcr16_neg hr hc (hd k) (by rw [pd]; omega) (by rw [pd]; omega)
      rw [pd] at a b
      exact ⟨a, b⟩
  · obtain ⟨k, rfl⟩ : ∃ k : Nat, n = (k : Int) := ⟨n.natAbs, by omega⟩
    have hk : ((k : Int)).natAbs = k := by omega
    simp only [decInt, hn, if_false, hk]
    by_cases h8 : k ≤ 127 ∧ r.is16Bit = false
    · have hw : pcrWidth r (k : Int) = 8 := by
        unfold pcrWidth; rw [if_pos ⟨by omega, by omega, Or.inl h8.2⟩]
      have ho : pcrOffset r (k : Int) = (k : Int) := by simp [pcrOffset, hw]
      rw [hw, ho]
      have a := C01_text_pcr8 hr hc h8.2 (hd k) (by rw [pd]; exact h8.1)
      have b := C01_text_ind_pcr8 hr hc h8.2 (hd k) (by rw [pd]; exact h8.1)
      rw [pd] at a b
      exact ⟨a, b⟩
    · have hcase : r.is16Bit = true ∨ 128 ≤ k := by
        cases h : r.is16Bit
        · right
          have : ¬ k ≤ 127 := fun hle => h8 ⟨hle, h⟩
          omega
        · left; rfl
      have hw : pcrWidth r (k : Int) = 16 := by
        unfold pcrWidth
        rw [if_neg]
        rintro ⟨_, hle, h | h⟩
        · rcases hcase with h' | h'
          · rw [h] at h'; cases h'
          · omega
        · omega
      have ho : pcrOffset r (k : Int) = sext k 16 := by
        simp only [pcrOffset, hw]
        have : twos (k : Int) 16 = k := by simp only [twos]; omega
        simp [this]
      rw [hw, ho]
      have a := C01_text_pcr16 hr hc (hd k) (by rw [pd]; exact hcase) (by rw [pd]; omega)
      have b := C01_text_ind_pcr16 hr hc (hd k) (by rw [pd]; exact hcase) (by rw [pd]; omega)
      rw [pd] at a b
      exact ⟨a, b⟩


/-! ## the formerly excluded region A3, from text: general form -/

/-- REPAIRED (formerly `C01_text_finding_16bit_row_offset`: `size + 1` bytes): for EVERY `is_16_bit` row, index
register and offset spelling with value 16..127 the statement announces `size` bytes and emits exactly these -/
theorem C01_text_finding_16bit_row_offset_fixed {r : InstrRow} (hr : PlainRow r) {c k : Nat} (hc : r.ind = some c)
    (h16 : r.is16Bit = true) (hk : k < 4) {x : Str} (hx : IsDecLit x) (h1 : 16 ≤ parseBase 10 x)
    (h2 : parseBase 10 x ≤ 127) :
    ∃ size bytes, encodeText r (x ++ ',' :: regName k) = some (size, bytes) ∧ bytes.length = size ∧
      size = r.indSz + 1 := by
  have hfe := frontEnd_offset hr hx (by omega) hk
  simp only [h16, if_true] at hfe
  have hl := cell_ind hr.mem hr.notPseudo hc
  have h0 := cell_ne_zero hl.1 (by decide)
  have hlt := cell_lt hl.1
  have hpb : regBits (regName k) ||| ((if false = true then 0x90 else 0x80) + 0x08) = 128 + 32 * k + 8 := by
    rw [regBits_regName k hk]; exact or_high k hk 8 (by omega)
  obtain ⟨o, ho⟩ : ∃ o : Asm.Operand, o = ⟨.indexed, x ++ ',' :: regName k, .leftRight x (regName k) .extended,
      .val (.numeric (parseBase 10 x) (some 4) .extended false), some (regName k)⟩ := ⟨_, rfl⟩
  rw [← ho] at hfe
  have hk' : o.kind = .indexed := by rw [ho]
  have hle : o.left = .val (.numeric (parseBase 10 x) (some 4) .extended false) := by rw [ho]
  have hrr : o.right = some (regName k) := by rw [ho]
  obtain ⟨pkg, bytes, ht, _, hb, hlen, _⟩ := C01_partial hr.mem hr.notPseudo (Region.off8pos hk' hc hle h1 h2 hk hrr)
  have ht2 : translateOperand o r = translateIndexed o r := by simp [translateOperand, hk']
  rw [translateIndexed_offset hc h0 hlt hle (by omega) hrr (regName_valid k),
    translateOffset_pos8 hc hlt (regName_plain k hk) (Or.inr h1) h2 (by rw [hpb]; omega), ht] at ht2
  have hsz : pkg.size = r.indSz + 1 := by injection ht2 with e; rw [e]
  obtain ⟨s', hf', hb'⟩ := hb (mkStmt r o pkg) rfl rfl rfl
  refine ⟨pkg.size, bytes, ?_, hlen, hsz⟩
  simp [encodeText, hfe, ht, hf', hb']

/-- REPAIRED (formerly `C01_text_16bit_row_offset_not_encoded`: no datasheet operand was encoded): such a statement
IS encoded, as the 8-bit offset it denotes -/
theorem C01_text_16bit_row_offset_encoded_fixed {r : InstrRow} (hr : PlainRow r) {c k : Nat} (hc : r.ind = some c)
    (_h16 : r.is16Bit = true) (hk : k < 4) {x : Str} (hx : IsDecLit x) (h1 : 16 ≤ parseBase 10 x)
    (h2 : parseBase 10 x ≤ 127) : TextEncodes r (x ++ ',' :: regName k) (.idx (.off k (parseBase 10 x) false 8)) :=
  C01_text_off8 hr hc hk hx h1 h2

/-! ## non-vacuity -/

/-- the table row of a mnemonic -/
def rowOf (mn : String) : InstrRow := (findRow mn.toList).getD default

/-- 95 of the 150 table rows are ordinary machine-instruction rows -/
example : (Gen.instructions.filter
    (fun r => !r.isPseudo && !r.isSpecial && !r.isShortBranch && !r.isLongBranch)).length = 95 := by decide +kernel

example : encodeText (rowOf "LDA") "#$FF".toList = some (2, [0x86, 0xFF]) := by decide +kernel
example : encodeText (rowOf "LDX") "#4660".toList = some (3, [0x8E, 0x12, 0x34]) := by decide +kernel
example : encodeText (rowOf "LDA") "$1234".toList = some (3, [0xB6, 0x12, 0x34]) := by decide +kernel
example : encodeText (rowOf "LDA") ",X+".toList = some (2, [0xA6, 0x80]) := by decide +kernel
example : encodeText (rowOf "LDA") "100,Y".toList = some (3, [0xA6, 0xA8, 0x64]) := by decide +kernel
example : encodeText (rowOf "LDD") "1000,U".toList = some (4, [0xEC, 0xC9, 0x03, 0xE8]) := by decide +kernel
/-- a decimal below 256 is an EXTENDED address; two hex digits are direct, except on an `is_16_bit` row or after `>` -/
example : encodeText (rowOf "LDA") "5".toList = some (3, [0xB6, 0x00, 0x05]) := by decide +kernel
example : encodeText (rowOf "LDA") "$05".toList = some (2, [0x96, 0x05]) := by decide +kernel
example : encodeText (rowOf "LDX") "$05".toList = some (3, [0xBE, 0x00, 0x05]) := by decide +kernel
example : encodeText (rowOf "LDA") ">$05".toList = some (3, [0xB6, 0x00, 0x05]) := by decide +kernel
example : encodeText (rowOf "LDA") "<5".toList = some (2, [0x96, 0x05]) := by decide +kernel
example : encodeText (rowOf "LDA") "<256".toList = none := by decide +kernel
/-- a small negative immediate on an `is_16_bit` row: the 16-bit complement (was `8E 00 FF` before the repair) -/
example : encodeText (rowOf "LDX") "#-1".toList = some (3, [0x8E, 0xFF, 0xFF]) := by decide +kernel
/-- the formerly excluded region A3 at text level -/
example : encodeText (rowOf "LDD") "100,X".toList = some (3, [0xEC, 0x88, 0x64]) := by decide +kernel
/-- and A4, A6 -/
example : encodeText (rowOf "LDA") "-17,X".toList = some (3, [0xA6, 0x88, 0xEF]) := by decide +kernel
example : encodeText (rowOf "LDA") "[-200,Y]".toList = some (4, [0xA6, 0xB9, 0xFF, 0x38]) := by decide +kernel
example : encodeText (rowOf "LDA") "[$10]".toList = some (4, [0xA6, 0x9F, 0x00, 0x10]) := by decide +kernel

theorem lda_row : PlainRow (rowOf "LDA") ∧ (rowOf "LDA").is16Bit = false ∧ (rowOf "LDA").imm = some 0x86 ∧
    (rowOf "LDA").dir = some 0x96 ∧ (rowOf "LDA").ind = some 0xA6 ∧ (rowOf "LDA").ext = some 0xB6 :=
  ⟨⟨by decide +kernel, by decide +kernel, by decide +kernel, by decide +kernel, by decide +kernel⟩,
   by decide +kernel, by decide +kernel, by decide +kernel, by decide +kernel, by decide +kernel⟩

theorem ldx_row : PlainRow (rowOf "LDX") ∧ (rowOf "LDX").is16Bit = true ∧ (rowOf "LDX").imm = some 0x8E ∧
    (rowOf "LDX").ind = some 0xAE :=
  ⟨⟨by decide +kernel, by decide +kernel, by decide +kernel, by decide +kernel, by decide +kernel⟩,
   by decide +kernel, by decide +kernel, by decide +kernel⟩

/-- instances of `C01_text_partial` on concrete source statements -/
example : TextEncodes (rowOf "LDA") "#$FF".toList (.imm 8 255) :=
  C01_text_partial lda_row.1 (.imm8Hex (hs := "FF".toList) lda_row.2.2.1 lda_row.2.1 (by decide))
example : TextEncodes (rowOf "LDX") "#4660".toList (.imm 16 4660) :=
  C01_text_partial ldx_row.1 (.imm16Dec (x := "4660".toList) ldx_row.2.2.1 ldx_row.2.1 (by decide) (by decide))
example : TextEncodes (rowOf "LDX") "#-1".toList (.imm 16 65535) :=
  C01_text_partial ldx_row.1 (.imm16Neg (x := "1".toList) ldx_row.2.2.1 ldx_row.2.1 (by decide) (by decide) (by decide))
example : TextEncodes (rowOf "LDA") "$1234".toList (.ext 0x1234) :=
  C01_text_partial lda_row.1 (.extHex4 (hs := "1234".toList) lda_row.2.2.2.2.2 (by decide))
example : TextEncodes (rowOf "LDA") ">$12".toList (.ext 0x12) :=
  C01_text_partial lda_row.1 (.extGtHex2 (hs := "12".toList) lda_row.2.2.2.2.2 (by decide))
example : TextEncodes (rowOf "LDA") "[$10]".toList (.idx (.extInd 0x10)) :=
  C01_text_partial lda_row.1 (.extIndHex2 (hs := "10".toList) lda_row.2.2.2.2.1 (by decide))
example : TextEncodes (rowOf "LDA") ",X+".toList (.idx (.inc1 0)) :=
  C01_text_partial lda_row.1 (.inc1 (k := 0) lda_row.2.2.2.2.1 (by decide))
example : TextEncodes (rowOf "LDA") "100,Y".toList (.idx (.off 1 100 false 8)) :=
  C01_text_partial lda_row.1 (.off8 (k := 1) (x := "100".toList) lda_row.2.2.2.2.1 (by decide) (by decide)
    (by decide) (by decide))
example : TextEncodes (rowOf "LDX") "100,X".toList (.idx (.off 0 100 false 8)) :=
  C01_text_partial ldx_row.1 (.off8 (k := 0) (x := "100".toList) ldx_row.2.2.2 (by decide) (by decide)
    (by decide) (by decide))
example : TextEncodes (rowOf "LDA") "-17,X".toList (.idx (.off 0 (-17) false 8)) :=
  C01_text_partial lda_row.1 (.off8neg (k := 0) (x := "17".toList) lda_row.2.2.2.2.1 (by decide) (by decide)
    (by decide) (by decide))
example : TextEncodes (rowOf "LDX") "1000,U".toList (.idx (.off 2 1000 false 16)) :=
  C01_text_partial ldx_row.1 (.off16 (k := 2) (x := "1000".toList) ldx_row.2.2.2 (by decide) (by decide)
    (by decide) (by decide))
example : TextEncodes (rowOf "LDA") "<5".toList (.dir 5) :=
  C01_text_partial lda_row.1 (.dirLtDec (x := "5".toList) lda_row.2.2.2.1 (by decide) (by decide))
example : TextEncodes (rowOf "LDA") "[-5,X]".toList (.idx (.off 0 (-5) true 8)) :=
  C01_text_partial lda_row.1 (.indOff8neg (k := 0) (x := "5".toList) lda_row.2.2.2.2.1 (by decide) (by decide)
    (by decide) (by decide))
/-- the rejection theorems on concrete statements -/
example : encodeText (rowOf "LDA") "<256".toList = none :=
  C01_text_dir_lt_rejected lda_row.1 lda_row.2.2.2.1 (x := "256".toList) (by decide) (by decide) (by decide)
example : encodeText (rowOf "LDA") "#-129".toList = none :=
  C01_text_imm8_neg_rejected lda_row.1 lda_row.2.2.1 lda_row.2.1 (x := "129".toList) (by decide) (by decide) (by decide)
example : encodeText (rowOf "LDA") "#256".toList = none :=
  C01_text_imm8_dec_rejected lda_row.1 lda_row.2.2.1 lda_row.2.1 (x := "256".toList) (by decide) (by decide) (by decide)

end CoCo.Props

section axioms
open CoCo.Props
#print axioms C01_text_partial
#print axioms C01_text_rendered
#print axioms C01_text_pcr_rendered
#print axioms C01_text_finding_16bit_row_offset_fixed
#print axioms C01_text_imm8_dec_rejected
#print axioms C01_text_dir_lt_rejected
#print axioms CoCo.Asm.asmOne_eq_encodeText
end axioms
