/-
Props/C16.lean — file_util conversions carry every selected file across.
-/
import CoCoVerif.Lemmas.VFUtil
import CoCoVerif.Lemmas.VFChain
import CoCoVerif.Props.C09

namespace CoCo.Props
open CoCo CoCo.VF

/-! ### single conversions -/

/-- `--to_cas p` alone, fresh target: the target is the cassette written from the selected files -/
theorem C16_to_cas (fs : FS) (args : UtilArgs) (src : Bytes) (files : List CFile) (k : Kind) (p : Path)
    (hh : fs.get? args.host = some src) (hs : sniff src = .ok (files, k))
    (hc : args.toCas = some p) (hd : args.toDsk = none) (hb : args.toBin = none) (hf : fs.get? p = none) :
    utilMain fs args =
      { exit := 0, fs := fs.set p (Cas.write (files.filter (selected args.files))) } := by
  rw [utilMain_ok hh hs]
  simp only [hc, hd, hb, utilConv_none, utilBin_none]
  simp only [utilConv, storeTo_fresh fs p .cassette _ args.append _ hf rfl]
  rfl

/-- `--to_dsk p` alone, fresh target, the disk writer succeeding: the target is the disk image written from the
selected files -/
theorem C16_to_dsk (fs : FS) (args : UtilArgs) (src : Bytes) (files : List CFile) (k : Kind) (p : Path)
    (img : Bytes) (hh : fs.get? args.host = some src) (hs : sniff src = .ok (files, k))
    (hc : args.toCas = none) (hd : args.toDsk = some p) (hb : args.toBin = none) (hf : fs.get? p = none)
    (hw : Dsk.write Gen.granuleFillOrder (files.filter (selected args.files)) = .ok img) :
    utilMain fs args = { exit := 0, fs := fs.set p img } := by
  rw [utilMain_ok hh hs]
  simp only [hc, hd, hb, utilConv_none, utilBin_none]
  simp only [utilConv, storeTo_fresh fs p .disk _ args.append img hf (by simpa [buildImage] using hw)]
  rfl

/-- `--to_dsk p` alone when the files do not fit (or one is too long): exit 1, nothing written -/
theorem C16_to_dsk_refused (fs : FS) (args : UtilArgs) (src : Bytes) (files : List CFile) (k : Kind) (p : Path)
    (hh : fs.get? args.host = some src) (hs : sniff src = .ok (files, k))
    (hc : args.toCas = none) (hd : args.toDsk = some p) (hb : args.toBin = none) (hf : fs.get? p = none)
    (hw : ∀ img, Dsk.write Gen.granuleFillOrder (files.filter (selected args.files)) ≠ .ok img) :
    utilMain fs args = { exit := 1, fs := fs } := by
  rw [utilMain_ok hh hs]
  simp only [hc, hd, hb, utilConv_none, utilBin_none]
  have hst : ∀ fs', storeTo fs p .disk (files.filter (selected args.files)) args.append ≠ .ok fs' := by
    intro fs' h
    have := (storeTo_ok h).2
    rw [hf] at this
    obtain ⟨img, hbi, _⟩ := this
    exact hw img (by simpa [buildImage] using hbi)
  simp only [utilConv]
  cases hst' : storeTo fs p .disk (files.filter (selected args.files)) args.append with
  | ok fs' => exact absurd hst' (hst fs')
  | diag => rfl
  | internal => rfl
  | diverged => rfl

/-- `--to_bin` with more than one file in the source: exit 1 and the host file system is unchanged -/
theorem C16_to_bin_many (fs : FS) (args : UtilArgs) (src : Bytes) (files : List CFile) (k : Kind) (p : Path)
    (hh : fs.get? args.host = some src) (hs : sniff src = .ok (files, k))
    (hc : args.toCas = none) (hd : args.toDsk = none) (hb : args.toBin = some p)
    (hn : files.length > 1) :
    utilMain fs args = { exit := 1, fs := fs } := by
  rw [utilMain_ok hh hs]
  simp only [hc, hd, hb, utilConv_none]
  simp only [utilBin]
  cases ho : openVF fs p (some .binary) with
  | ok tgt => simp only [hn, if_true]; rfl
  | diag => rfl
  | internal => rfl
  | diverged => rfl

/-- `--to_bin p` with exactly one file (selected), fresh target: the target holds that file's data -/
theorem C16_to_bin_one (fs : FS) (args : UtilArgs) (src : Bytes) (f : CFile) (k : Kind) (p : Path)
    (hh : fs.get? args.host = some src) (hs : sniff src = .ok ([f], k))
    (hc : args.toCas = none) (hd : args.toDsk = none) (hb : args.toBin = some p) (hf : fs.get? p = none)
    (hsel : selected args.files f = true) :
    utilMain fs args = { exit := 0, fs := fs.set p f.data } := by
  rw [utilMain_ok hh hs]
  simp only [hc, hd, hb, utilConv_none]
  simp [utilBin, openVF, hf, hsel, saveVF, addCoco, buildImage, utilFinish]

/-- … and when `--files` does not name it, an empty file is created -/
theorem C16_to_bin_one_unselected (fs : FS) (args : UtilArgs) (src : Bytes) (f : CFile) (k : Kind) (p : Path)
    (hh : fs.get? args.host = some src) (hs : sniff src = .ok ([f], k))
    (hc : args.toCas = none) (hd : args.toDsk = none) (hb : args.toBin = some p) (hf : fs.get? p = none)
    (hsel : selected args.files f = false) :
    utilMain fs args = { exit := 0, fs := fs.set p [] } := by
  rw [utilMain_ok hh hs]
  simp only [hc, hd, hb, utilConv_none]
  simp [utilBin, openVF, hf, hsel, saveVF, buildImage, utilFinish]

/-- `--to_bin` on a source without files: exit 1, nothing written -/
theorem C16_to_bin_none (fs : FS) (args : UtilArgs) (src : Bytes) (k : Kind) (p : Path)
    (hh : fs.get? args.host = some src) (hs : sniff src = .ok ([], k))
    (hc : args.toCas = none) (hd : args.toDsk = none) (hb : args.toBin = some p) :
    utilMain fs args = { exit := 1, fs := fs } := by
  rw [utilMain_ok hh hs]
  simp only [hc, hd, hb, utilConv_none]
  simp only [utilBin]
  cases ho : openVF fs p (some .binary) with
  | ok tgt => rfl
  | diag => rfl
  | internal => rfl
  | diverged => rfl

/-- `--to_bin` alone: more than one file → exit 1, nothing written; exactly one (selected) file and a fresh
target → the target holds that file's data -/
theorem C16_to_bin (fs : FS) (args : UtilArgs) (src : Bytes) (files : List CFile) (k : Kind) (p : Path)
    (hh : fs.get? args.host = some src) (hs : sniff src = .ok (files, k))
    (hc : args.toCas = none) (hd : args.toDsk = none) (hb : args.toBin = some p) :
    (files.length > 1 → utilMain fs args = { exit := 1, fs := fs }) ∧
    (∀ f, files = [f] → fs.get? p = none → selected args.files f = true →
       utilMain fs args = { exit := 0, fs := fs.set p f.data }) := by
  refine ⟨C16_to_bin_many fs args src files k p hh hs hc hd hb, ?_⟩
  intro f hf hfresh hsel
  subst hf
  exact C16_to_bin_one fs args src f k p hh hs hc hd hb hfresh hsel

/-! ### `--files` -/

theorem C16_selected_upper (names : List (List Char)) (f : CFile) :
    selected (some names) f = selected (some (names.map upperS)) f := selected_upper names f

theorem C16_selected_key (sel : Option (List (List Char))) (f g : CFile)
    (h : upperS ((Asm.strip (f.name.map Char.ofNat)).filter (· != Char.ofNat 0)) =
         upperS ((Asm.strip (g.name.map Char.ofNat)).filter (· != Char.ofNat 0))) :
    selected sel f = selected sel g := selected_congr sel f g h

theorem C16_selected_none (f : CFile) : selected none f = true := rfl

/-! ### chains -/

/-- **cassette → disk → cassette** with `file_util` (no `--files`): both runs succeed, the sources are left
alone, and the final cassette lists every file of the first one, in order, each as `chain_file` describes
(same data and types, upper-cased name). Exclusions: E1, G1 on the source cassette; the disk must have room. -/
theorem C16_chain_cas_dsk_cas (fs : FS) (c1 d c2 : Path) (fs0 : List CFile) (img : Bytes)
    (h1 : fs.get? c1 = some (Cas.write fs0)) (hok : CasOK fs0) (hlen : (Cas.write fs0).length < 161280)
    (hl : ∀ f ∈ fs0, f.data.length ≤ 65535)
    (hd : fs.get? d = none) (hc2 : fs.get? c2 = none) (hne : c2 ≠ d)
    (hw : Dsk.write Gen.granuleFillOrder (fs0.map Cas.norm) = .ok img) :
    let r1 := utilMain fs { host := c1, toDsk := some d }
    let r2 := utilMain r1.fs { host := d, toCas := some c2 }
    r1.exit = 0 ∧ r2.exit = 0 ∧
    r2.fs.get? c1 = some (Cas.write fs0) ∧ r2.fs.get? d = some img ∧
    Dsk.list img = .ok ((fs0.map Cas.norm).map Dsk.norm) ∧
    r2.fs.get? c2 = some (Cas.write ((fs0.map Cas.norm).map Dsk.norm)) ∧
    Cas.list (Cas.write ((fs0.map Cas.norm).map Dsk.norm))
      = .ok (fs0.map (fun f => Cas.norm (Dsk.norm (Cas.norm f)))) := by
  obtain ⟨ha, hv, hK⟩ := hok
  have hs1 := sniff_cas_write fs0 ha hv hK hlen
  have e1 : utilMain fs { host := c1, toDsk := some d } = { exit := 0, fs := fs.set d img } :=
    C16_to_dsk fs _ _ (fs0.map Cas.norm) .cassette d img h1 hs1 rfl rfl rfl hd
      (by rw [filter_selected_none]; exact hw)
  have hvD : ∀ f ∈ fs0.map Cas.norm, ValidDFile f := by
    intro g hg
    obtain ⟨f, hf, rfl⟩ := List.mem_map.mp hg
    exact casNorm_validD (hv f hf) (ha f hf) (hl f hf)
  have hs2 := sniff_dsk_write validOrder_default hvD hw
  have hc2' : (fs.set d img).get? c2 = none := by rw [FS.get?_set_other _ _ _ _ hne]; exact hc2
  have e2 : utilMain (fs.set d img) { host := d, toCas := some c2 } =
      { exit := 0, fs := (fs.set d img).set c2 (Cas.write ((fs0.map Cas.norm).map Dsk.norm)) } := by
    have := C16_to_cas (fs.set d img) { host := d, toCas := some c2 } img _ .disk c2
      (FS.get?_set_same _ _ _) hs2 rfl rfl rfl hc2'
    rw [this, filter_selected_none]
  have hc1d : c1 ≠ d := by intro h; rw [h, hd] at h1; simp at h1
  have hc1c2 : c1 ≠ c2 := by intro h; rw [h, hc2] at h1; simp at h1
  have hdc2 : d ≠ c2 := fun h => hne h.symm
  have hok2 : CasOK ((fs0.map Cas.norm).map Dsk.norm) := by
    refine ⟨?_, ?_, ?_⟩ <;> intro g hg <;> obtain ⟨g', hg', rfl⟩ := List.mem_map.mp hg <;>
      obtain ⟨f, hf, rfl⟩ := List.mem_map.mp hg' <;>
      have hne0 : (Cas.norm f).data ≠ [] := (by
        have := hK f hf
        cases hdd : f.data with
        | nil => simp [K_C06_emptyData, hdd] at this
        | cons _ _ => simp [Cas.norm, hdd])
    · exact (dskNorm_casOK (hvD _ hg') hne0).1
    · exact (dskNorm_casOK (hvD _ hg') hne0).2.1
    · exact (dskNorm_casOK (hvD _ hg') hne0).2.2
  intro r1 r2
  have hr1 : r1 = { exit := 0, fs := fs.set d img } := e1
  have hr2 : r2 = { exit := 0, fs := (fs.set d img).set c2 (Cas.write ((fs0.map Cas.norm).map Dsk.norm)) } := by
    show utilMain r1.fs _ = _
    rw [hr1]; exact e2
  rw [hr1, hr2]
  refine ⟨rfl, rfl, ?_, ?_, C07_write_list _ _ _ validOrder_default hvD hw, FS.get?_set_same _ _ _, ?_⟩
  · show ((fs.set d img).set c2 _).get? c1 = _
    rw [FS.get?_set_other _ _ _ _ hc1c2, FS.get?_set_other _ _ _ _ hc1d]; exact h1
  · show ((fs.set d img).set c2 _).get? d = _
    rw [FS.get?_set_other _ _ _ _ hdc2]; exact FS.get?_set_same _ _ _
  · rw [C06_roundtrip_partial _ hok2.1 hok2.2.1 hok2.2.2, List.map_map, List.map_map]
    rfl

/-- … hence, for names without blanks: the same files up to letter case (and the addresses of non-ML files) -/
theorem C16_chain_result (fs0 : List CFile) (hs : ∀ f ∈ fs0, NoSpace f) :
    fs0.map (fun f => Cas.norm (Dsk.norm (Cas.norm f))) =
      fs0.map (fun f => { Cas.norm f with name := (Cas.padName f.name).map padCh,
                                           load := if f.ftype = 2 then f.load else 0,
                                           exec := if f.ftype = 2 then f.exec else 0 }) :=
  List.map_congr_left (fun f hf => chain_file f (hs f hf))

/-- … and upper-case machine-language files come back exactly as the first cassette lists them -/
theorem C16_chain_identity (fs0 : List CFile)
    (hup : ∀ f ∈ fs0, (∀ c ∈ f.name, padCh c = c ∧ c ≠ 0x20) ∧ f.ftype = 2) :
    fs0.map (fun f => Cas.norm (Dsk.norm (Cas.norm f))) = fs0.map Cas.norm :=
  List.map_congr_left (fun f hf => chain_file_fixed f (hup f hf).1 (hup f hf).2)

/-- **disk → cassette → disk** with `file_util` (no `--files`). Exclusions: E1 on every file, G1 on the
intermediate cassette; the second disk write must succeed. -/
theorem C16_chain_dsk_cas_dsk (fs : FS) (d1 c d2 : Path) (fs0 : List CFile) (img1 img2 : Bytes)
    (h1 : fs.get? d1 = some img1) (hw1 : Dsk.write Gen.granuleFillOrder fs0 = .ok img1)
    (hv : ∀ f ∈ fs0, ValidDFile f) (hE1 : ∀ f ∈ fs0, f.data ≠ [])
    (hlen : (Cas.write (fs0.map Dsk.norm)).length < 161280)
    (hc : fs.get? c = none) (hd2 : fs.get? d2 = none) (hne : d2 ≠ c)
    (hw2 : Dsk.write Gen.granuleFillOrder ((fs0.map Dsk.norm).map Cas.norm) = .ok img2) :
    let r1 := utilMain fs { host := d1, toCas := some c }
    let r2 := utilMain r1.fs { host := c, toDsk := some d2 }
    r1.exit = 0 ∧ r2.exit = 0 ∧
    r2.fs.get? d1 = some img1 ∧ r2.fs.get? c = some (Cas.write (fs0.map Dsk.norm)) ∧
    r2.fs.get? d2 = some img2 ∧
    Dsk.list img2 = .ok (fs0.map (fun f => Dsk.norm (Cas.norm (Dsk.norm f)))) ∧
    Spec.DiskBasic.Fsck img2 := by
  have hs1 := sniff_dsk_write validOrder_default hv hw1
  have e1 : utilMain fs { host := d1, toCas := some c } =
      { exit := 0, fs := fs.set c (Cas.write (fs0.map Dsk.norm)) } := by
    have := C16_to_cas fs { host := d1, toCas := some c } img1 _ .disk c h1 hs1 rfl rfl rfl hc
    rw [this, filter_selected_none]
  have hok1 : CasOK (fs0.map Dsk.norm) := by
    refine ⟨?_, ?_, ?_⟩ <;> intro g hg <;> obtain ⟨f, hf, rfl⟩ := List.mem_map.mp hg
    · exact (dskNorm_casOK (hv f hf) (hE1 f hf)).1
    · exact (dskNorm_casOK (hv f hf) (hE1 f hf)).2.1
    · exact (dskNorm_casOK (hv f hf) (hE1 f hf)).2.2
  have hs2 := sniff_cas_write _ hok1.1 hok1.2.1 hok1.2.2 hlen
  have hd2' : (fs.set c (Cas.write (fs0.map Dsk.norm))).get? d2 = none := by
    rw [FS.get?_set_other _ _ _ _ hne]; exact hd2
  have e2 : utilMain (fs.set c (Cas.write (fs0.map Dsk.norm))) { host := c, toDsk := some d2 } =
      { exit := 0, fs := (fs.set c (Cas.write (fs0.map Dsk.norm))).set d2 img2 } :=
    C16_to_dsk _ _ _ ((fs0.map Dsk.norm).map Cas.norm) .cassette d2 img2 (FS.get?_set_same _ _ _) hs2 rfl rfl rfl
      hd2' (by rw [filter_selected_none]; exact hw2)
  have hvD : ∀ f ∈ (fs0.map Dsk.norm).map Cas.norm, ValidDFile f := by
    intro g hg
    obtain ⟨g', hg', rfl⟩ := List.mem_map.mp hg
    obtain ⟨f, hf, rfl⟩ := List.mem_map.mp hg'
    have := dskNorm_casOK (hv f hf) (hE1 f hf)
    exact casNorm_validD this.2.1 this.1 (hv f hf).2.2.2.2.2.2.2
  have hd1c : d1 ≠ c := by intro h; rw [h, hc] at h1; simp at h1
  have hd1d2 : d1 ≠ d2 := by intro h; rw [h, hd2] at h1; simp at h1
  have hcd2 : c ≠ d2 := fun h => hne h.symm
  intro r1 r2
  have hr1 : r1 = { exit := 0, fs := fs.set c (Cas.write (fs0.map Dsk.norm)) } := e1
  have hr2 : r2 = { exit := 0, fs := (fs.set c (Cas.write (fs0.map Dsk.norm))).set d2 img2 } := by
    show utilMain r1.fs _ = _
    rw [hr1]; exact e2
  rw [hr1, hr2]
  refine ⟨rfl, rfl, ?_, ?_, FS.get?_set_same _ _ _, ?_, (C08_full _ _ _ validOrder_default hvD hw2).1⟩
  · show ((fs.set c _).set d2 img2).get? d1 = _
    rw [FS.get?_set_other _ _ _ _ hd1d2, FS.get?_set_other _ _ _ _ hd1c]; exact h1
  · show ((fs.set c _).set d2 img2).get? c = _
    rw [FS.get?_set_other _ _ _ _ hcd2]; exact FS.get?_set_same _ _ _
  · rw [C07_write_list _ _ _ validOrder_default hvD hw2, List.map_map, List.map_map]
    rfl

/-- … every file comes back as the first disk lists it, except for the extension (a cassette stores none) -/
theorem C16_chain_dcd_result (fs0 : List CFile) :
    fs0.map (fun f => Dsk.norm (Cas.norm (Dsk.norm f))) =
      fs0.map (fun f => { Dsk.norm f with ext := if f.ftype = 2 then [66, 73, 78] else [66, 65, 83] }) :=
  List.map_congr_left (fun f _ => chain_dcd_file f)

/-! ### the statement -/

/-- conversions of a source image that opens (`sniff src = ok (files, k)`) -/
def ConvOK : Prop :=
  (∀ (fs : FS) (args : UtilArgs) (src : Bytes) (files : List CFile) (k : Kind) (p : Path),
     fs.get? args.host = some src → sniff src = .ok (files, k) →
     args.toCas = some p → args.toDsk = none → args.toBin = none → fs.get? p = none →
       utilMain fs args = { exit := 0, fs := fs.set p (Cas.write (files.filter (selected args.files))) }) ∧
  (∀ (fs : FS) (args : UtilArgs) (src : Bytes) (files : List CFile) (k : Kind) (p : Path) (img : Bytes),
     fs.get? args.host = some src → sniff src = .ok (files, k) →
     args.toCas = none → args.toDsk = some p → args.toBin = none → fs.get? p = none →
     Dsk.write Gen.granuleFillOrder (files.filter (selected args.files)) = .ok img →
       utilMain fs args = { exit := 0, fs := fs.set p img }) ∧
  (∀ (fs : FS) (args : UtilArgs) (src : Bytes) (files : List CFile) (k : Kind) (p : Path),
     fs.get? args.host = some src → sniff src = .ok (files, k) →
     args.toCas = none → args.toDsk = none → args.toBin = some p →
       (files.length > 1 → utilMain fs args = { exit := 1, fs := fs }) ∧
       (∀ f, files = [f] → fs.get? p = none → selected args.files f = true →
          utilMain fs args = { exit := 0, fs := fs.set p f.data })) ∧
  (∀ (names : List (List Char)) (f : CFile),
     selected (some names) f = selected (some (names.map upperS)) f)

/-- cassette → disk → cassette for the files `fs0` -/
def ChainCDC (fs0 : List CFile) : Prop :=
  ∀ (fs : FS) (c1 d c2 : Path) (img : Bytes),
    fs.get? c1 = some (Cas.write fs0) → fs.get? d = none → fs.get? c2 = none → c2 ≠ d →
    Dsk.write Gen.granuleFillOrder (fs0.map Cas.norm) = .ok img →
      let r1 := utilMain fs { host := c1, toDsk := some d }
      let r2 := utilMain r1.fs { host := d, toCas := some c2 }
      r1.exit = 0 ∧ r2.exit = 0 ∧ r2.fs.get? c1 = some (Cas.write fs0) ∧
      ∃ b, r2.fs.get? c2 = some b ∧
        Cas.list b = .ok (fs0.map (fun f => Cas.norm (Dsk.norm (Cas.norm f))))

/-- the chain statement on its own, at full strength -/
def C16_chain_Statement : Prop :=
  ∀ fs0 : List CFile, (∀ f ∈ fs0, AsciiName f.name) → (∀ f ∈ fs0, ValidFile f) →
    (∀ f ∈ fs0, f.data.length ≤ 65535) → ChainCDC fs0

/-- **C16** at full strength -/
def C16_Statement : Prop := ConvOK ∧ C16_chain_Statement

theorem C16_conv : ConvOK := by
  exact ⟨C16_to_cas, C16_to_dsk, C16_to_bin, selected_upper⟩

/-- **C16_partial**: the conversions as stated; the chain under the exclusions E1 (`K_C06_emptyData`) and G1
(`K_C09_bigCassette`) on the source cassette. -/
theorem C16_partial :
    ConvOK ∧
    (∀ fs0 : List CFile, (∀ f ∈ fs0, AsciiName f.name) → (∀ f ∈ fs0, ValidFile f) →
      (∀ f ∈ fs0, f.data.length ≤ 65535) →
      (∀ f ∈ fs0, K_C06_emptyData f.data = false) → K_C09_bigCassette (Cas.write fs0) = false →
        ChainCDC fs0) := by
  refine ⟨C16_conv, ?_⟩
  intro fs0 ha hv hl hK hG fs c1 d c2 img h1 hd hc2 hne hw
  have hlen : (Cas.write fs0).length < 161280 := by simpa [K_C09_bigCassette] using hG
  obtain ⟨e1, e2, e3, _, _, e6, e7⟩ :=
    C16_chain_cas_dsk_cas fs c1 d c2 fs0 img h1 ⟨ha, hv, hK⟩ hlen hl hd hc2 hne hw
  exact ⟨e1, e2, e3, _, e6, e7⟩

/-! ### non-vacuity -/

example (h p : Path) (hne : h ≠ p) :
    (utilMain [(h, Cas.write [demoFile])] { host := h, toCas := some p }).exit = 0 := by
  have hs : sniff (Cas.write [demoFile]) = .ok ([demoFile].map Cas.norm, .cassette) :=
    sniff_written_cassette [demoFile]
      (by intro f hf; simp at hf; subst hf; simp [AsciiName, demoFile])
      (by intro f hf; simp at hf; subst hf; simp [ValidFile, demoFile])
      (by intro f hf; simp at hf; subst hf; simp [K_C06_emptyData, demoFile])
      (by decide +kernel)
  have h1 : FS.get? [(h, Cas.write [demoFile])] h = some (Cas.write [demoFile]) := by
    unfold FS.get?; rw [List.find?_cons_of_pos (by simp)]; rfl
  have h2 : FS.get? [(h, Cas.write [demoFile])] p = none := by
    unfold FS.get?; rw [List.find?_cons_of_neg (by simpa using hne)]; rfl
  rw [C16_to_cas _ { host := h, toCas := some p } _ _ _ p h1 hs rfl rfl rfl h2]

end CoCo.Props
