/-
Props/C18RelocSrc.lean — C18-R1 (relocation), from the parsed program to the assembly.

`pa`, `pb` are the parsed statement lists of two INCLUDE-free programs that differ only in the numeric
operand of their ORG statements, every one moved by `D` (`PW (OrgRel D P) pa pb`).
Model batch 4: `C18_R1_parsed_equ` — the final symbol table entry by entry, EQUs defined by label expressions included.
-/
import CoCoVerif.Lemmas.RelocFront
import CoCoVerif.Lemmas.RelocParse
import CoCoVerif.Props.C18Reloc
import CoCoVerif.Lemmas.OrgFirst

namespace CoCo.Props
open CoCo CoCo.Asm

/-! ## the bridge: what reaches `assignAddrs` -/

theorem orgRel_noInclude {D : Nat} {P : Nat → Prop} {pa pb : List Stmt} (h : PW (OrgRel D P) pa pb)
    (hinc : ∀ s ∈ pa, s.row.isInclude = false) : ∀ s ∈ pb, s.row.isInclude = false := by
  intro s' hs'
  obtain ⟨j, hj⟩ := List.getElem?_of_mem hs'
  obtain ⟨s, hs, hr⟩ := h.get' hj
  have := hinc s (List.mem_of_getElem? hs)
  rw [hr.inert]; simpa using this

theorem expand_id {fs : Files} {p ss0 : List Stmt} (hinc : ∀ s ∈ p, s.row.isInclude = false)
    (h : expand fs (includeFuel fs) [] p = .ok ss0) : ss0 = p := by
  have := expand_noinclude fs fs.length [] p (by simpa using hinc)
  rw [show fs.length + 1 = includeFuel fs from rfl, h] at this
  cases this; rfl

/-- the symbol tables (before addresses are filled in) are the same, and the statements that enter
`assignAddrs` are related by `OrgRelT` -/
theorem reloc_stages {fs : Files} {la lb : List Str} {pa pb : List Stmt} {D : Nat} {P : Nat → Prop} {A B : Assembly}
    (hpa : parseLines la = .ok pa) (hpb : parseLines lb = .ok pb) (hrel : PW (OrgRel D P) pa pb)
    (hinc : ∀ s ∈ pa, s.row.isInclude = false) (stA : Stages fs la A) (stB : Stages fs lb B) :
    stB.t = stA.t ∧ PW (OrgRelT D P) stA.ss3 stB.ss3 := by
  obtain ⟨parsed, ss0, t, ss1, ss2, ss3, ss4, t1, a0, a1, a2, a3, a4, a5, a6, a7, a8, a9, a10⟩ := stA
  obtain ⟨parsed', ss0', t', ss1', ss2', ss3', ss4', t1', b0, b1, b2, b3, b4, b5, b6, b7, b8, b9, b10⟩ := stB
  dsimp only
  rw [hpa] at a0; cases a0
  rw [hpb] at b0; cases b0
  have e0 := expand_id hinc a1
  have e0' := expand_id (orgRel_noInclude hrel hinc) b1
  subst e0 e0'
  rw [buildSymTab_orgRel _ _ _ _ hrel, a2] at b2
  cases b2
  have r1 := resolveAll_orgRel hrel a3 b3
  have r2 := translateAll_orgRel r1 a4 b4
  have hl : ss2'.length = ss2.length := r2.1
  rw [hl] at b5
  exact ⟨rfl, pcrLoop_orgRelT r2 a5 b5⟩

/-! ## addresses (integer level): no side condition on the ORG values -/

/-- C18-R1 for parsed programs: if both programs assemble, they have the same number of statements and
every statement address of the second is the address of the first plus `D` -/
theorem C18_R1_parsed {fs : Files} {la lb : List Str} {pa pb : List Stmt} {D : Nat} {P : Nat → Prop} {A B : Assembly}
    (hpa : parseLines la = .ok pa) (hpb : parseLines lb = .ok pb) (hrel : PW (OrgRel D P) pa pb)
    (hinc : ∀ s ∈ pa, s.row.isInclude = false)
    (hhead : ∃ s0 r0, pa = s0 :: r0 ∧ s0.row.mnemonic = "ORG")
    (hA : assemble fs la = .ok A) (hB : assemble fs lb = .ok B) :
    A.stmts.length = B.stmts.length ∧
    ∀ (i : Nat) (s t : Stmt) (n : Nat), A.stmts[i]? = some s → B.stmts[i]? = some t →
      s.pkg.address.int? = some n → t.pkg.address.int? = some (n + D) := by
  obtain ⟨stA⟩ := assemble_stages hA
  obtain ⟨stB⟩ := assemble_stages hB
  obtain ⟨_, h3⟩ := reloc_stages hpa hpb hrel hinc stA stB
  -- the first statement is preset in both lists
  have hA35 : PW KeepRel stA.parsed stA.ss3 := by
    have e : stA.ss0 = stA.parsed := expand_id (by rw [show stA.parsed = pa from by
      have := stA.hparse; rw [hpa] at this; cases this; rfl]; exact hinc) stA.hexpand
    rw [← e]
    exact (stA.keep01.trans stA.keep12 (fun _ _ _ => KeepRel.trans)).trans stA.keep23 (fun _ _ _ => KeepRel.trans)
  have hpar : stA.parsed = pa := by have := stA.hparse; rw [hpa] at this; cases this; rfl
  obtain ⟨s0, r0, hp0, hm0⟩ := hhead
  have h30 : ∃ x0 y0, stA.ss3 = x0 :: y0 ∧ x0.row.mnemonic = "ORG" := by
    rw [hpar, hp0] at hA35
    obtain ⟨x0, y0, e, hk, _⟩ := hA35.cons_left
    exact ⟨x0, y0, e, by rw [hk.2]; exact hm0⟩
  obtain ⟨x0, y0, e3, hx0⟩ := h30
  have hshift : PW (AddrShiftI D) stA.ss4 stB.ss4 := by
    have h3' := h3
    rw [e3] at h3'
    obtain ⟨x0', y0', e3', hr0, _⟩ := h3'.cons_left
    have hpre : ∃ n, x0'.pkg.address = .numeric (n + D) (some 4) .extended false := by
      rcases hr0 with ⟨_, _, hm⟩ | ⟨_, _, _, _, _, _, _, n, _, _, ha'⟩
      · rw [hx0] at hm; exact absurd hm (by decide)
      · exact ⟨n, ha'⟩
    obtain ⟨n, hpre⟩ := hpre
    have hb := stB.haddr
    rw [e3', assignAddrs_head_preset hpre 0 (0 + D), ← e3'] at hb
    obtain ⟨as, has, hpw⟩ := assignAddrs_reloc_bwd D _ _ 0 _ (h3.mono (fun _ _ => OrgRelT.orgShift)) hb
    rw [stA.haddr] at has
    cases has
    exact hpw
  have fA := fixAllL_pw stA.hfix
  have fB := fixAllL_pw stB.hfix
  refine ⟨by rw [fA.1, ← hshift.1, fB.1], ?_⟩
  intro i s t n hs ht hn
  obtain ⟨s4, hs4, v, rfl⟩ := fA.get' hs
  obtain ⟨t4, ht4, w, rfl⟩ := fB.get' ht
  obtain ⟨_, a, h1, h2⟩ := hshift.2 i s4 t4 hs4 ht4
  simp only [addrNat] at h1 h2
  dsimp only at hn ⊢
  rw [h1] at hn; cases hn
  exact h2

/-! ## addresses, code and symbol table (value level): ORGs at `$100` or above -/

theorem assignAddrs_keep {l l' : List Stmt} {a : Nat} (h : assignAddrs l a = .ok l') :
    PW (fun s s' => AddrRel s s' ∧ (s.preset = true → s' = s)) l l' := by
  induction l generalizing a l' with
  | nil => simp [assignAddrs] at h; subst h; exact .nil
  | cons s rest ih =>
    obtain ⟨s', r, a0, rfl, hrel, _, _, hk, hr⟩ := assignAddrs_cons h
    exact .cons ⟨hrel, hk⟩ (ih hr)

/-- a pseudo statement with a numeric operand and no PCR is left alone by `fix_addresses` -/
theorem fixOne_pseudo_numeric (ss : List Stmt) (i : Nat) {s : Stmt} (hk : s.operand.kind = .pseudo)
    (hv : s.operand.value.isNumeric = true) (hn : s.pkg.needsRes = false) : fixOne ss i s = .ok s := by
  refine fixOne_inert ss i s (by simp [hk]) ?_ ?_ ?_ hn
  · intro h; rw [h] at hv; cases hv
  · cases hx : s.operand.value <;> rw [hx] at hv <;> first | rfl | cases hv
  · cases hx : s.operand.value <;> rw [hx] at hv <;> first | rfl | cases hv

set_option maxRecDepth 100000 in
theorem table_org_skipped : ∀ r ∈ Gen.instructions, r.mnemonic = "ORG" → fitSkipped r = true := by decide

/-- an ORG statement with a numeric operand is left alone by `fix_addresses; fit_operand_width` -/
theorem fixFit_org (ss : List Stmt) (i : Nat) {s : Stmt} (hrow : s.row ∈ Gen.instructions)
    (hm : s.row.mnemonic = "ORG") (hk : s.operand.kind = .pseudo)
    (hv : s.operand.value.isNumeric = true) (hn : s.pkg.needsRes = false) : fixFit ss i s = .ok s := by
  unfold fixFit
  rw [fixOne_pseudo_numeric ss i hk hv hn]
  dsimp only
  unfold fitWidth
  have := table_org_skipped _ hrow hm
  unfold fitSkipped at this
  rw [if_pos this]

/-- `ORG` has no operand field: `translate` leaves `additional` empty -/
theorem translate_org_additional {o : Operand} {row : Gen.InstrRow} {p : Pkg} (hk : o.kind = .pseudo)
    (hm : row.mnemonic = "ORG") (h : translateOperand o row = .ok p) : p.additional = .none := by
  unfold translateOperand at h
  rw [hk] at h
  dsimp only at h
  unfold translatePseudo at h
  have e1 : (("ORG" : String) == "FCB") = false := by decide
  have e2 : (("ORG" : String) == "FDB") = false := by decide
  have e3 : (("ORG" : String) == "RMB") = false := by decide
  have e4 : (("ORG" : String) == "ORG") = true := by decide
  simp only [hm, e1, e2, e3, e4, bind, Except.bind, pure, Except.pure, throw, throwThe, MonadExceptOf.throw,
    Bool.false_eq_true, if_false, if_true] at h
  repeat' split at h
  all_goals first | (cases h; done) | (cases h; rfl)

/-- (model batch 8) an ORG statement that enters `fixAll` in an accepted run has an empty operand field (so the list pass
leaves it alone) -/
theorem stages_org_additional {fs : Files} {lines : List Str} {A : Assembly} (st : Stages fs lines A) {i : Nat}
    {s4 t : Stmt} (h4 : st.ss4[i]? = some s4) (ht : A.stmts[i]? = some t) (hm : s4.row.mnemonic = "ORG")
    (hk : s4.operand.kind = .pseudo) : s4.pkg.additional = .none := by
  obtain ⟨tr⟩ := st.trace ht
  have e4 : tr.s4 = s4 := by have := tr.h4; rw [h4] at this; cases this; rfl
  obtain ⟨_, _, _, _, _, h3⟩ := tr.pcr
  obtain ⟨_, h4'⟩ := tr.addr
  have hrow : s4.row = tr.s0.row := by
    rw [← e4]
    have e1 := congrArg Stmt.row h4'
    have e2 := congrArg Stmt.row h3
    exact e1.trans e2
  have hop : s4.operand = tr.o := by
    rw [← e4]
    have e1 := congrArg Stmt.operand h4'
    have e2 := congrArg Stmt.operand h3
    exact e1.trans e2
  have hadd : s4.pkg.additional = tr.p.additional := by
    rw [← e4]
    have e1 := congrArg (fun s : Stmt => s.pkg.additional) h4'
    have e2 := congrArg (fun s : Stmt => s.pkg.additional) h3
    exact e1.trans e2
  rw [hadd]
  exact translate_org_additional (by rw [← hop]; exact hk) (by rw [← hrow]; exact hm) tr.htr

/-- the ORG bound used at value level -/
def OrgOk (D : Nat) (n : Nat) : Prop := 256 ≤ n ∧ n + D < 65536

/-- C18-R1 for parsed programs, value level.  With every ORG at `$100` or above and `n + D < $10000`:
the symbol tables before address assignment coincide; every address VALUE moves by `D` keeping its
rendering; statement by statement the operand field (after `fix_addresses; fit_operand_width`) is identical
(`Unmoved`) or moved by `D` (`Moved`: a label reference in a 16-bit field), and so are the emitted bytes; in the final
symbol table labels move by `D` and EQU values stay — model batch 4: EXCEPT an EQU defined by a label expression
(`T EQU L+1`), which is listed with its value since then; the last conjunct is about the entries with `EquConst` (labels,
EQUs of numbers, EQUs defined by expressions of constants), `C18_R1_parsed_equ` is the finer statement about all
entries. -/
theorem C18_R1_parsed_code {fs : Files} {la lb : List Str} {pa pb : List Stmt} {D : Nat} {A B : Assembly}
    (hpa : parseLines la = .ok pa) (hpb : parseLines lb = .ok pb) (hrel : PW (OrgRel D (OrgOk D)) pa pb)
    (hinc : ∀ s ∈ pa, s.row.isInclude = false)
    (hhead : ∃ s0 r0, pa = s0 :: r0 ∧ s0.row.mnemonic = "ORG")
    (stA : Stages fs la A) (stB : Stages fs lb B) :
    stB.t = stA.t ∧ PW (AddrShift D) stA.ss4 stB.ss4 ∧ PW (AddrShift D) A.stmts B.stmts ∧
    (∀ (i : Nat) (s4 t t' : Stmt), stA.ss4[i]? = some s4 → A.stmts[i]? = some t → B.stmts[i]? = some t' →
      (Unmoved D stA.ss4 s4 → ListsConst stA.t s4 → t'.pkg.additional = t.pkg.additional ∧ stmtBytes t' = stmtBytes t) ∧
      (Moved D stA.ss4 s4 → t'.pkg.additional = shiftV D t.pkg.additional ∧
        ∀ bs, stmtBytes t = some bs →
          ∃ pre x, t.pkg.additional.int? = some x ∧ x + D < 65536 ∧ bs = pre ++ [x / 256, x % 256] ∧
            stmtBytes t' = some (pre ++ [(x + D) / 256, (x + D) % 256]))) ∧
    (∀ (j : Nat) (k : Str) (v : Value), stA.t[j]? = some (k, v) → EquConst stA.t v →
      ∃ kw, A.symtab[j]? = some kw ∧
        B.symtab[j]? = some (kw.1, if v.isAddress then shiftV D kw.2 else kw.2)) := by
  obtain ⟨ht, h3⟩ := reloc_stages hpa hpb hrel hinc stA stB
  -- head of ss3 is a preset ORG
  have hpar : stA.parsed = pa := by have := stA.hparse; rw [hpa] at this; cases this; rfl
  have hA35 : PW KeepRel stA.parsed stA.ss3 := by
    have e : stA.ss0 = stA.parsed := expand_id (by rw [hpar]; exact hinc) stA.hexpand
    rw [← e]
    exact (stA.keep01.trans stA.keep12 (fun _ _ _ => KeepRel.trans)).trans stA.keep23 (fun _ _ _ => KeepRel.trans)
  obtain ⟨s0, r0, hp0, hm0⟩ := hhead
  obtain ⟨x0, y0, e3, hx0⟩ : ∃ x0 y0, stA.ss3 = x0 :: y0 ∧ x0.row.mnemonic = "ORG" := by
    rw [hpar, hp0] at hA35
    obtain ⟨x0, y0, e, hk, _⟩ := hA35.cons_left
    exact ⟨x0, y0, e, by rw [hk.2]; exact hm0⟩
  have h3' := h3
  rw [e3] at h3'
  obtain ⟨x0', y0', e3', hr0, _⟩ := h3'.cons_left
  obtain ⟨n0, hpre, hpre'⟩ : ∃ n, x0.pkg.address = .numeric n (some 4) .extended false ∧
      x0'.pkg.address = .numeric (n + D) (some 4) .extended false := by
    rcases hr0 with ⟨_, _, hm⟩ | ⟨_, _, _, _, _, _, _, n, _, ha, ha'⟩
    · rw [hx0] at hm; exact absurd hm (by decide)
    · exact ⟨n, ha, ha'⟩
  have hbounds : ∀ s ∈ stA.ss3, ∀ o h m n, s.pkg.address = .numeric o h m n → 256 ≤ o ∧ o + D < 65536 := by
    intro s hs o hh m n ha
    obtain ⟨j, hj⟩ := List.getElem?_of_mem hs
    obtain ⟨s', _, hr⟩ := h3.get hj
    rcases hr with ⟨_, hnone, _⟩ | ⟨_, _, _, _, _, _, _, n1, hP, ha1, _⟩
    · rw [ha] at hnone; cases hnone
    · rw [ha] at ha1; cases ha1; exact hP
  have hshift : PW (AddrShift D) stA.ss4 stB.ss4 := by
    have hb := stB.haddr
    rw [e3', assignAddrs_head_preset hpre' 0 (0 + D), ← e3'] at hb
    refine assignAddrs_reloc_wide D _ _ 0 _ _ (h3.mono (fun _ _ => OrgRelT.orgShift))
      (fun s hs => ?_) (.inr ⟨x0, y0, n0, some 4, .extended, false, e3, hpre⟩) hbounds stA.haddr hb
    obtain ⟨j, hj⟩ := List.getElem?_of_mem hs
    obtain ⟨s', _, hr⟩ := h3.get hj
    exact hr.orgWide
  have hshiftI : PW (AddrShiftI D) stA.ss4 stB.ss4 := hshift.mono (fun _ _ => AddrShift.toI)
  have htt := ht
  obtain ⟨x5, _, lA, fA⟩ := fixAllL_steps stA.hfix
  obtain ⟨x5', _, lB, fB⟩ := fixAllL_steps stB.hfix
  have hss : ∀ j v, addrOf stA.ss4 j = some v → v.isNumeric = true := addrOf_numeric hshift
  have kA := assignAddrs_keep stA.haddr
  have kB := assignAddrs_keep stB.haddr
  -- per statement
  have key : ∀ (i : Nat) (s4 t t' : Stmt), stA.ss4[i]? = some s4 → A.stmts[i]? = some t → B.stmts[i]? = some t' →
      AddrShift D t t' ∧
      (Unmoved D stA.ss4 s4 → ListsConst stA.t s4 → t'.pkg.additional = t.pkg.additional ∧ stmtBytes t' = stmtBytes t) ∧
      (Moved D stA.ss4 s4 → t'.pkg.additional = shiftV D t.pkg.additional ∧
        ∀ bs, stmtBytes t = some bs →
          ∃ pre x, t.pkg.additional.int? = some x ∧ x + D < 65536 ∧ bs = pre ++ [x / 256, x % 256] ∧
            stmtBytes t' = some (pre ++ [(x + D) / 256, (x + D) % 256])) := by
    intro i s4 t t' hs4 ht ht'
    obtain ⟨s4', hs4', hsh⟩ := hshift.get hs4
    obtain ⟨u, t0, hfu, ht0, hlu⟩ := fA i s4 hs4
    obtain ⟨u', t0', hfu', ht0', hlu'⟩ := fB i s4' hs4'
    rw [ht] at ht0; cases ht0
    rw [ht'] at ht0'; cases ht0'
    rw [htt] at hlu'
    obtain ⟨s3, hs3, ⟨v, hv⟩, hkeep⟩ := kA.get' hs4
    obtain ⟨s3', hs3', ⟨v', hv'⟩, hkeep'⟩ := kB.get' hs4'
    obtain ⟨w, hw⟩ := fixFit_keeps hfu
    obtain ⟨w', hw'⟩ := fixFit_keeps hfu'
    obtain ⟨z, hz⟩ := evalList1_same hlu
    obtain ⟨z', hz'⟩ := evalList1_same hlu'
    have hT : AddrShift D t t' := by rw [hz, hz', hw, hw']; exact ⟨hsh.1, hsh.2⟩
    refine ⟨hT, ?_⟩
    rcases h3.2 i s3 s3' hs3 hs3' with ⟨rfl, _, _⟩ | ⟨hin, hm, hn, hk, hk', hnum, hnum', n, _, ha, ha'⟩
    · have he : s4' = s4.setAddress s4'.pkg.address := by rw [hv, hv']; rfl
      constructor
      · intro hc hlc
        obtain ⟨e, _⟩ := reloc_bytes_unmoved' hshiftI he hc hfu hfu'
        have hau : u'.pkg.address = s4'.pkg.address := by rw [e]; rfl
        have e' : u' = u.setAddress u'.pkg.address := by rw [hau]; exact e
        have e2 := reloc_list_unmoved e' (fixFit_listsConst hss hfu hlc) hlu hlu'
        refine ⟨by rw [e2]; rfl, ?_⟩
        rw [e2, stmtBytes_setAddress]
      · intro hc
        have hmv := reloc_fixFit_moved' hshift he hc (i := i)
        rw [hfu, hfu'] at hmv
        simp only [Outcome.map_ok, Outcome.ok.injEq] at hmv
        have hnu : u.pkg.additional.isNumeric = true := by
          obtain ⟨a, hh, m, e1, _⟩ := fixFit_moved_wide hshift i hc hfu
          rw [e1]; rfl
        have hnu' : u'.pkg.additional.isNumeric = true := by rw [hmv]; exact shiftV_numeric' hnu
        rw [evalList1_numeric _ _ hnu] at hlu; cases hlu
        rw [evalList1_numeric _ _ hnu'] at hlu'; cases hlu'
        refine ⟨by rw [hmv]; rfl, ?_⟩
        intro bs hbs
        exact (reloc_bytes_moved' hshift he hc hfu hfu' hbs).2
    · -- two ORG statements: untouched by assignAddrs and by fixOne
      have e4 : s4 = s3 := hkeep (by simp [Stmt.preset, ha, Value.isNone])
      have e4' : s4' = s3' := hkeep' (by simp [Stmt.preset, ha', Value.isNone])
      subst e4 e4'
      have hrow : s4.row ∈ Gen.instructions := by
        have := stA.row_mem ht
        rw [hz, hw] at this; exact this
      have hrow' : s4'.row ∈ Gen.instructions := by
        have := stB.row_mem ht'
        rw [hz', hw'] at this; exact this
      rw [fixFit_org _ _ hrow hm hk hnum hn] at hfu
      rw [fixFit_org _ _ hrow' (by rw [hin]; simpa using hm) hk' hnum' (by rw [hin]; simpa using hn)] at hfu'
      cases hfu; cases hfu'
      -- an ORG statement has no operand field: the list pass leaves it alone
      have hadd : s4.pkg.additional = .none := stages_org_additional stA hs4 ht hm hk
      have hadd' : s4'.pkg.additional = .none := by rw [hin]; simpa using hadd
      rw [evalList1_keep _ _ (by rw [hadd]; intro hs e; cases e) (by rw [hadd]; intro hs e; cases e)] at hlu
      rw [evalList1_keep _ _ (by rw [hadd']; intro hs e; cases e) (by rw [hadd']; intro hs e; cases e)] at hlu'
      cases hlu; cases hlu'
      have eadd : t'.pkg.additional = s4.pkg.additional := by rw [hin]; simp
      constructor
      · intro _ _
        refine ⟨eadd, ?_⟩
        unfold stmtBytes
        rw [eadd, show t'.pkg.opCode = s4.pkg.opCode by rw [hin]; simp,
          show t'.pkg.postByte = s4.pkg.postByte by rw [hin]; simp]
      · rintro (⟨_, _, hv, _⟩ | ⟨_, _, _, hn', _⟩)
        · exfalso
          rcases hv with ⟨tg, m, hv⟩ | ⟨l, r, op, m, k, hh, mm, nn, hv, _⟩ <;> rw [hv] at hnum <;> cases hnum
        · rw [hn] at hn'; cases hn'
  have hfinal : PW (AddrShift D) A.stmts B.stmts := by
    refine ⟨by rw [lA, lB, hshift.1], ?_⟩
    intro i t t' ht ht'
    obtain ⟨s4, hs4, _⟩ := (fixAllL_pw stA.hfix).get' ht
    exact (key i s4 t t' hs4 ht ht').1
  refine ⟨ht, hshift, hfinal, fun i s4 t t' a b c => (key i s4 t t' a b c).2, ?_⟩
  intro j k v hj hc
  have hB := stB.heval
  rw [ht] at hB
  obtain ⟨x, x', hx, hx', hrel⟩ := symtab_reloc_entry hshiftI (fixAllL_sameAddr stA.hfix) (fixAllL_sameAddr stB.hfix)
    hfinal stA.heval hB stA.hfinal stB.hfinal hj
  refine ⟨(k, x), hx, ?_⟩
  rw [hx']
  by_cases ha : v.isAddress = true
  · rw [if_pos ha, hrel.1 ha]
  · rw [if_neg ha, hrel.2.1 ⟨by simpa using ha, hc⟩]

/-- C18-R1 for parsed programs, value level, the final symbol table entry by entry (model batch 4: an EQU defined by an
expression is listed with its VALUE).  Hypotheses as in `C18_R1_parsed_code`.  Entry `j` of the table built from the
labels, defined as `v`, has the same key in both final tables, and its values `x` (original) and `x'` (relocated) are
related by `EquRel`: a label moves by `D`; an EQU that is not defined by a label expression stays; `T EQU L+1` /
`T EQU L-2` (`NumExpr`) moves by `D`, `T EQU L+N` accepted in both layouts (`ModExpr`) by `D` modulo `$10000`,
`LEN EQU END-START` (`DiffExpr`) stays, `T EQU $4000-L` (`NegExpr`) moves by MINUS `D` modulo `$10000`. -/
theorem C18_R1_parsed_equ {fs : Files} {la lb : List Str} {pa pb : List Stmt} {D : Nat} {A B : Assembly}
    (hpa : parseLines la = .ok pa) (hpb : parseLines lb = .ok pb) (hrel : PW (OrgRel D (OrgOk D)) pa pb)
    (hinc : ∀ s ∈ pa, s.row.isInclude = false)
    (hhead : ∃ s0 r0, pa = s0 :: r0 ∧ s0.row.mnemonic = "ORG")
    (stA : Stages fs la A) (stB : Stages fs lb B) :
    ∀ (j : Nat) (k : Str) (v : Value), stA.t[j]? = some (k, v) →
      ∃ x x', A.symtab[j]? = some (k, x) ∧ B.symtab[j]? = some (k, x') ∧ EquRel D stA.ss4 stA.t v x x' := by
  obtain ⟨ht, hshift, hfinal, _, _⟩ := C18_R1_parsed_code hpa hpb hrel hinc hhead stA stB
  intro j k v hj
  have hB := stB.heval
  rw [ht] at hB
  exact symtab_reloc_entry (hshift.mono (fun _ _ => AddrShift.toI)) (fixAllL_sameAddr stA.hfix)
    (fixAllL_sameAddr stB.hfix) hfinal stA.heval hB stA.hfinal stB.hfinal hj

/-! ## the third class (`MovedMod`, repair batch B2): `label ± N` with a SIGNED constant, modulo `$10000` -/

/-- the statements that enter `fixAll` in the two programs are equal except for the address, unless they are ORG
statements (whose operand is a number, and which have no `needsRes`) -/
theorem reloc_ss4_same {fs : Files} {la lb : List Str} {pa pb : List Stmt} {D : Nat} {P : Nat → Prop} {A B : Assembly}
    (hpa : parseLines la = .ok pa) (hpb : parseLines lb = .ok pb) (hrel : PW (OrgRel D P) pa pb)
    (hinc : ∀ s ∈ pa, s.row.isInclude = false) (stA : Stages fs la A) (stB : Stages fs lb B)
    {i : Nat} {s4 s4' : Stmt} (hs4 : stA.ss4[i]? = some s4) (hs4' : stB.ss4[i]? = some s4')
    (hnum : s4.operand.value.isNumeric = false ∨ s4.pkg.needsRes = true) : s4' = s4.setAddress s4'.pkg.address := by
  obtain ⟨_, h3⟩ := reloc_stages hpa hpb hrel hinc stA stB
  have kA := assignAddrs_keep stA.haddr
  have kB := assignAddrs_keep stB.haddr
  obtain ⟨s3, hs3, ⟨v, hv⟩, _⟩ := kA.get' hs4
  obtain ⟨s3', hs3', ⟨v', hv'⟩, _⟩ := kB.get' hs4'
  rcases h3.2 i s3 s3' hs3 hs3' with ⟨rfl, _, _⟩ | ⟨_, _, hres, _, _, hn, _⟩
  · rw [hv, hv']; rfl
  · rw [hv] at hnum
    rw [show ({ s3 with pkg := { s3.pkg with address := v } } : Stmt).operand = s3.operand from rfl, hn,
      show ({ s3 with pkg := { s3.pkg with address := v } } : Stmt).pkg.needsRes = s3.pkg.needsRes from rfl,
      hres] at hnum
    rcases hnum with h | h <;> cases h

/-- C18-R1 for parsed programs, value level, the third class: a statement `label + N` / `label - N` (SIGNED `N`) in a
four-digit field — as the operand, or (since B3) as constant offset of a pointer register — (`MovedMod`: no bound but
acceptance in both layouts) has its operand field, and the last two bytes of its code, moved by `D` MODULO `$10000`; the
bytes before are identical.  Hypotheses as in `C18_R1_parsed_code`. -/
theorem C18_R1_parsed_code_mod {fs : Files} {la lb : List Str} {pa pb : List Stmt} {D : Nat} {A B : Assembly}
    (hpa : parseLines la = .ok pa) (hpb : parseLines lb = .ok pb) (hrel : PW (OrgRel D (OrgOk D)) pa pb)
    (hinc : ∀ s ∈ pa, s.row.isInclude = false)
    (hhead : ∃ s0 r0, pa = s0 :: r0 ∧ s0.row.mnemonic = "ORG")
    (stA : Stages fs la A) (stB : Stages fs lb B) :
    ∀ (i : Nat) (s4 t t' : Stmt), stA.ss4[i]? = some s4 → A.stmts[i]? = some t → B.stmts[i]? = some t' →
      MovedMod D stA.ss4 s4 → t'.pkg.additional = shiftVmod D t.pkg.additional ∧
        ∀ bs, stmtBytes t = some bs →
          ∃ pre x, t.pkg.additional.int? = some x ∧ x < 65536 ∧ bs = pre ++ [x / 256, x % 256] ∧
            stmtBytes t' = some (pre ++ [(x + D) % 65536 / 256, (x + D) % 65536 % 256]) := by
  intro i s4 t t' hs4 ht ht' hc
  have hshift := (C18_R1_parsed_code hpa hpb hrel hinc hhead stA stB).2.1
  have hshiftI : PW (AddrShiftI D) stA.ss4 stB.ss4 := hshift.mono (fun _ _ => AddrShift.toI)
  obtain ⟨s4', hs4', _⟩ := hshift.get hs4
  obtain ⟨x5, _, _, fA⟩ := fixAllL_steps stA.hfix
  obtain ⟨x5', _, _, fB⟩ := fixAllL_steps stB.hfix
  obtain ⟨u, t0, hfu, ht0, hlu⟩ := fA i s4 hs4
  obtain ⟨u', t0', hfu', ht0', hlu'⟩ := fB i s4' hs4'
  rw [ht] at ht0; cases ht0
  rw [ht'] at ht0'; cases ht0'
  have hnum := hc.not_numeric
  have he := reloc_ss4_same hpa hpb hrel hinc stA stB hs4 hs4' hnum
  have hmv := reloc_fixFit_movedMod' hshiftI he hc (i := i)
  rw [hfu, hfu'] at hmv
  simp only [Outcome.map_ok, Outcome.ok.injEq] at hmv
  -- the field holds a number: the list pass leaves the statement alone
  have hnu : u.pkg.additional.isNumeric = true := by
    obtain ⟨x, _, e1, _⟩ := fixFit_movedMod_aux hshiftI i hc
    rw [e1] at hfu; cases hfu; rfl
  have hnu' : u'.pkg.additional.isNumeric = true := by rw [hmv]; exact shiftVmod_numeric hnu
  rw [evalList1_numeric _ _ hnu] at hlu; cases hlu
  rw [evalList1_numeric _ _ hnu'] at hlu'; cases hlu'
  constructor
  · rw [hmv]; rfl
  · intro bs hbs
    exact (reloc_bytes_movedMod' hshiftI he hc hfu hfu' hbs).2

/-- C18-R1 for parsed programs, value level, the fourth class (repair batch B3): a statement `number - label`
(`FDB 5-L`, `LDX #$4000-L`) in a four-digit field (`MovedNeg`) has its operand field, and the last two bytes of its code,
moved by MINUS `D` modulo `$10000`; the bytes before are identical.  Hypotheses as in `C18_R1_parsed_code`. -/
theorem C18_R1_parsed_code_neg {fs : Files} {la lb : List Str} {pa pb : List Stmt} {D : Nat} {A B : Assembly}
    (hpa : parseLines la = .ok pa) (hpb : parseLines lb = .ok pb) (hrel : PW (OrgRel D (OrgOk D)) pa pb)
    (hinc : ∀ s ∈ pa, s.row.isInclude = false)
    (hhead : ∃ s0 r0, pa = s0 :: r0 ∧ s0.row.mnemonic = "ORG")
    (stA : Stages fs la A) (stB : Stages fs lb B) :
    ∀ (i : Nat) (s4 t t' : Stmt), stA.ss4[i]? = some s4 → A.stmts[i]? = some t → B.stmts[i]? = some t' →
      MovedNeg stA.ss4 s4 → t'.pkg.additional = shiftVneg D t.pkg.additional ∧
        ∀ bs, stmtBytes t = some bs →
          ∃ pre x y, t.pkg.additional.int? = some x ∧ x < 65536 ∧ y < 65536 ∧ (y + D) % 65536 = x ∧
            bs = pre ++ [x / 256, x % 256] ∧ stmtBytes t' = some (pre ++ [y / 256, y % 256]) := by
  intro i s4 t t' hs4 ht ht' hc
  have hshift := (C18_R1_parsed_code hpa hpb hrel hinc hhead stA stB).2.1
  have hshiftI : PW (AddrShiftI D) stA.ss4 stB.ss4 := hshift.mono (fun _ _ => AddrShift.toI)
  obtain ⟨s4', hs4', _⟩ := hshift.get hs4
  obtain ⟨x5, _, _, fA⟩ := fixAllL_steps stA.hfix
  obtain ⟨x5', _, _, fB⟩ := fixAllL_steps stB.hfix
  obtain ⟨u, t0, hfu, ht0, hlu⟩ := fA i s4 hs4
  obtain ⟨u', t0', hfu', ht0', hlu'⟩ := fB i s4' hs4'
  rw [ht] at ht0; cases ht0
  rw [ht'] at ht0'; cases ht0'
  have he := reloc_ss4_same hpa hpb hrel hinc stA stB hs4 hs4' hc.not_numeric
  have hmv := reloc_fixFit_movedNeg' hshiftI he hc (i := i)
  rw [hfu, hfu'] at hmv
  simp only [Outcome.map_ok, Outcome.ok.injEq] at hmv
  -- the field holds a number: the list pass leaves the statement alone
  have hnu : u.pkg.additional.isNumeric = true := by
    obtain ⟨x, _, e1, _⟩ := fixFit_movedNeg_aux (D := D) hshiftI i hc
    rw [e1] at hfu; cases hfu; rfl
  have hnu' : u'.pkg.additional.isNumeric = true := by rw [hmv]; exact shiftVneg_numeric hnu
  rw [evalList1_numeric _ _ hnu] at hlu; cases hlu
  rw [evalList1_numeric _ _ hnu'] at hlu'; cases hlu'
  constructor
  · rw [hmv]; rfl
  · intro bs hbs
    exact (reloc_bytes_movedNeg' hshiftI he hc hfu hfu' hbs).2

/-! ## any origin: moves across `$100` included

`OrgOkAny D n` is `OrgOk D n` without the lower bound `256 ≤ n`.  The layouts are related at int level
(`AddrShiftAny`: numbers `D` apart inside the 64K space, any rendering); operand fields and bytes exactly as in
`C18_R1_parsed_code`; the final symbol table entry by entry with `EquRelAny` (a label's values are related at int level:
`IntAddr`).  `RefFitted s4` — the statement is not one of the directives `fit_operand_width` skips — which the
statement-level theorems ask of the `Moved` statements, holds of every statement of an accepted program
(`stages_refFitted`), so it does not appear here. -/

/-! ### `RefFitted` holds of every assembled program -/

set_option maxRecDepth 100000 in
theorem table_data_fitted : ∀ r ∈ Gen.instructions, (r.mnemonic == "FCB" || r.mnemonic == "FDB") = true →
    fitSkipped r = false := by decide

theorem resolveOperand_special_id {o o' : Operand} {row : Gen.InstrRow} {t : SymTab} (hk : o.kind = .special)
    (h : resolveOperand o row t = .ok o') : o' = o := by
  unfold resolveOperand at h
  rw [hk] at h
  cases h; rfl

theorem resolveOperand_pseudo_unresolved {o o' : Operand} {row : Gen.InstrRow} {t : SymTab} (hk : o.kind = .pseudo)
    (hm : (row.mnemonic == "FCB" || row.mnemonic == "FDB" || row.mnemonic == "RMB" || row.mnemonic == "ORG") = false)
    (h : resolveOperand o row t = .ok o') : o' = o := by
  unfold resolveOperand at h
  rw [hk] at h
  dsimp only at h
  rw [hm] at h
  cases h; rfl

/-- `RMB` and `ORG` take a number: anything else is rejected by `translate` -/
theorem translate_rmb_org_numeric {o : Operand} {row : Gen.InstrRow} {p : Pkg} (hk : o.kind = .pseudo)
    (hm : (row.mnemonic == "RMB" || row.mnemonic == "ORG") = true) (h : translateOperand o row = .ok p) :
    o.value.isNumeric = true := by
  unfold translateOperand at h
  rw [hk] at h
  dsimp only at h
  unfold translatePseudo at h
  cases hn : o.value.isNumeric with
  | true => rfl
  | false =>
    exfalso
    simp only [Bool.or_eq_true, beq_iff_eq] at hm
    rcases hm with hm | hm
    · have e1 : (("RMB" : String) == "FCB") = false := by decide
      have e2 : (("RMB" : String) == "FDB") = false := by decide
      have e3 : (("RMB" : String) == "RMB") = true := by decide
      simp only [hm, e1, e2, e3, hn, bind, Except.bind, pure, Except.pure, throw, throwThe, MonadExceptOf.throw, Bool.false_eq_true, if_false, if_true,
        Bool.not_false, Bool.true_or] at h
      repeat' split at h
      all_goals first | (cases h; done) | skip
    · have e1 : (("ORG" : String) == "FCB") = false := by decide
      have e2 : (("ORG" : String) == "FDB") = false := by decide
      have e3 : (("ORG" : String) == "RMB") = false := by decide
      have e4 : (("ORG" : String) == "ORG") = true := by decide
      simp only [hm, e1, e2, e3, e4, hn, bind, Except.bind, pure, Except.pure, throw, throwThe, MonadExceptOf.throw, Bool.false_eq_true, if_false, if_true,
        Bool.not_false, Bool.true_or] at h
      repeat' split at h
      all_goals first | (cases h; done) | skip


/-- every statement that enters `fixAll` in an accepted run of `assemble` is `RefFitted`: a statement whose operand
value is a label (`.address`) is an instruction or FCB / FDB — the directives that `fit_operand_width` skips keep their
symbol operands (`resolve_symbols` looks up the operands of FCB, FDB, RMB, ORG only, and RMB / ORG with a label are
rejected by `translate`), and so do the special instructions (PSHS, TFR, ...) -/
theorem stages_refFitted {fs : Files} {lines : List Str} {A : Assembly} (st : Stages fs lines A) {i : Nat} {s4 : Stmt}
    (h4 : st.ss4[i]? = some s4) : RefFitted s4 := by
  obtain ⟨_, _, _, f⟩ := fixAllL_steps st.hfix
  obtain ⟨_, u, _, hu, _⟩ := f i s4 h4
  obtain ⟨tr⟩ := st.trace hu
  have e4 : tr.s4 = s4 := by have := tr.h4; rw [h4] at this; cases this; rfl
  have hrow : s4.row = tr.s0.row := by
    obtain ⟨_, _, _, _, _, h3⟩ := tr.pcr
    obtain ⟨_, h4'⟩ := tr.addr
    rw [← e4]
    have e1 := congrArg Stmt.row h4'
    have e2 := congrArg Stmt.row h3
    exact e1.trans e2
  have hop : s4.operand = tr.o := by
    obtain ⟨_, _, _, _, _, h3⟩ := tr.pcr
    obtain ⟨_, h4'⟩ := tr.addr
    rw [← e4]
    have e1 := congrArg Stmt.operand h4'
    have e2 := congrArg Stmt.operand h3
    exact e1.trans e2
  intro ha
  rw [hop] at ha
  rw [hrow]
  obtain ⟨hmem, txt, hcr⟩ := tr.parsed
  obtain ⟨k1, k2, _, _⟩ := createOperand_kind hcr
  have hna : tr.s0.operand.value.isAddress = false := st.ss0_notAddr tr.s0 (List.mem_of_getElem? tr.h0)
  cases hsk : fitSkipped tr.s0.row with
  | false => rfl
  | true =>
    exfalso
    cases hp : tr.s0.row.isPseudo with
    | true =>
      have hk := k1 hp
      cases hm : (tr.s0.row.mnemonic == "FCB" || tr.s0.row.mnemonic == "FDB" || tr.s0.row.mnemonic == "RMB" ||
          tr.s0.row.mnemonic == "ORG") with
      | false =>
        rw [resolveOperand_pseudo_unresolved hk hm tr.hres, hna] at ha
        cases ha
      | true =>
        cases hd : (tr.s0.row.mnemonic == "FCB" || tr.s0.row.mnemonic == "FDB") with
        | true =>
          rw [table_data_fitted _ hmem hd] at hsk
          cases hsk
        | false =>
          have hro : (tr.s0.row.mnemonic == "RMB" || tr.s0.row.mnemonic == "ORG") = true := by
            simp only [Bool.or_eq_true, Bool.or_eq_false_iff] at hm hd ⊢
            rcases hm with ((h | h) | h) | h
            · rw [h] at hd; cases hd.1
            · rw [h] at hd; cases hd.2
            · exact .inl h
            · exact .inr h
          have hnum := translate_rmb_org_numeric ((resolveOperand_kind_pseudo tr.hres).mpr hk) hro tr.htr
          cases hv : tr.o.value with
          | address j m => rw [hv] at hnum; cases hnum
          | _ => rw [hv] at ha; cases ha
    | false =>
      have hsp : tr.s0.row.isSpecial = true := by
        unfold fitSkipped at hsk
        rw [hp] at hsk
        simpa using hsk
      rw [resolveOperand_special_id (k2 hp hsp) tr.hres, hna] at ha
      cases ha

/-- the ORG bound at any origin: the moved ORG value stays inside the 64K space -/
def OrgOkAny (D : Nat) (n : Nat) : Prop := n + D < 65536

theorem OrgOk.any {D n : Nat} (h : OrgOk D n) : OrgOkAny D n := h.2

/-- C18-R1 for parsed programs at ANY origin (every ORG value `n` with `n + D < $10000`): the symbol tables before
address assignment coincide; every address moves by `D` (as a number inside the 64K space: `AddrShiftAny`); statement
by statement the operand field (after `fix_addresses; fit_operand_width`) is identical (`Unmoved`) or moved by `D`
(`Moved`: a label reference in a 16-bit field), and so are the emitted bytes; the final symbol tables are related entry
by entry by `EquRelAny` (a label's value moves by `D` as a number, an EQU moves like its defining expression). -/
theorem C18_R1_parsed_code_any {fs : Files} {la lb : List Str} {pa pb : List Stmt} {D : Nat} {A B : Assembly}
    (hpa : parseLines la = .ok pa) (hpb : parseLines lb = .ok pb) (hrel : PW (OrgRel D (OrgOkAny D)) pa pb)
    (hinc : ∀ s ∈ pa, s.row.isInclude = false)
    (hhead : ∃ s0 r0, pa = s0 :: r0 ∧ s0.row.mnemonic = "ORG")
    (stA : Stages fs la A) (stB : Stages fs lb B) :
    stB.t = stA.t ∧ PW (AddrShiftAny D) stA.ss4 stB.ss4 ∧ PW (AddrShiftAny D) A.stmts B.stmts ∧
    (∀ (i : Nat) (s4 t t' : Stmt), stA.ss4[i]? = some s4 → A.stmts[i]? = some t → B.stmts[i]? = some t' →
      (Unmoved D stA.ss4 s4 → ListsConst stA.t s4 → t'.pkg.additional = t.pkg.additional ∧ stmtBytes t' = stmtBytes t) ∧
      (Moved D stA.ss4 s4 → t'.pkg.additional = shiftV D t.pkg.additional ∧
        ∀ bs, stmtBytes t = some bs →
          ∃ pre x, t.pkg.additional.int? = some x ∧ x + D < 65536 ∧ bs = pre ++ [x / 256, x % 256] ∧
            stmtBytes t' = some (pre ++ [(x + D) / 256, (x + D) % 256]))) ∧
    (∀ (j : Nat) (k : Str) (v : Value), stA.t[j]? = some (k, v) →
      ∃ x x', A.symtab[j]? = some (k, x) ∧ B.symtab[j]? = some (k, x') ∧ EquRelAny D stA.ss4 stA.t v x x') := by
  obtain ⟨ht, h3⟩ := reloc_stages hpa hpb hrel hinc stA stB
  -- head of ss3 is a preset ORG
  have hpar : stA.parsed = pa := by have := stA.hparse; rw [hpa] at this; cases this; rfl
  have hA35 : PW KeepRel stA.parsed stA.ss3 := by
    have e : stA.ss0 = stA.parsed := expand_id (by rw [hpar]; exact hinc) stA.hexpand
    rw [← e]
    exact (stA.keep01.trans stA.keep12 (fun _ _ _ => KeepRel.trans)).trans stA.keep23 (fun _ _ _ => KeepRel.trans)
  obtain ⟨s0, r0, hp0, hm0⟩ := hhead
  obtain ⟨x0, y0, e3, hx0⟩ : ∃ x0 y0, stA.ss3 = x0 :: y0 ∧ x0.row.mnemonic = "ORG" := by
    rw [hpar, hp0] at hA35
    obtain ⟨x0, y0, e, hk, _⟩ := hA35.cons_left
    exact ⟨x0, y0, e, by rw [hk.2]; exact hm0⟩
  have h3' := h3
  rw [e3] at h3'
  obtain ⟨x0', y0', e3', hr0, _⟩ := h3'.cons_left
  obtain ⟨n0, hpre, hpre'⟩ : ∃ n, x0.pkg.address = .numeric n (some 4) .extended false ∧
      x0'.pkg.address = .numeric (n + D) (some 4) .extended false := by
    rcases hr0 with ⟨_, _, hm⟩ | ⟨_, _, _, _, _, _, _, n, _, ha, ha'⟩
    · rw [hx0] at hm; exact absurd hm (by decide)
    · exact ⟨n, ha, ha'⟩
  have hbounds : ∀ s ∈ stA.ss3, ∀ o h m n, s.pkg.address = .numeric o h m n → o + D < 65536 := by
    intro s hs o hh m n ha
    obtain ⟨j, hj⟩ := List.getElem?_of_mem hs
    obtain ⟨s', _, hr⟩ := h3.get hj
    rcases hr with ⟨_, hnone, _⟩ | ⟨_, _, _, _, _, _, _, n1, hP, ha1, _⟩
    · rw [ha] at hnone; cases hnone
    · rw [ha] at ha1; cases ha1; exact hP
  have hshift : PW (AddrShiftAny D) stA.ss4 stB.ss4 := by
    have hb := stB.haddr
    rw [e3', assignAddrs_head_preset hpre' 0 (0 + D), ← e3'] at hb
    refine assignAddrs_reloc_any D _ _ 0 _ _ (h3.mono (fun _ _ => OrgRelT.orgShift))
      (fun s hs => ?_) hbounds stA.haddr hb
    obtain ⟨j, hj⟩ := List.getElem?_of_mem hs
    obtain ⟨s', _, hr⟩ := h3.get hj
    exact hr.orgWide
  have hshiftI : PW (AddrShiftI D) stA.ss4 stB.ss4 := hshift.mono (fun _ _ => AddrShiftAny.toI)
  have htt := ht
  obtain ⟨x5, _, lA, fA⟩ := fixAllL_steps stA.hfix
  obtain ⟨x5', _, lB, fB⟩ := fixAllL_steps stB.hfix
  have hss : ∀ j v, addrOf stA.ss4 j = some v → v.isNumeric = true := addrOf_numeric_any hshift
  have kA := assignAddrs_keep stA.haddr
  have kB := assignAddrs_keep stB.haddr
  -- per statement
  have key : ∀ (i : Nat) (s4 t t' : Stmt), stA.ss4[i]? = some s4 → A.stmts[i]? = some t → B.stmts[i]? = some t' →
      AddrShiftAny D t t' ∧
      (Unmoved D stA.ss4 s4 → ListsConst stA.t s4 → t'.pkg.additional = t.pkg.additional ∧ stmtBytes t' = stmtBytes t) ∧
      (Moved D stA.ss4 s4 → t'.pkg.additional = shiftV D t.pkg.additional ∧
        ∀ bs, stmtBytes t = some bs →
          ∃ pre x, t.pkg.additional.int? = some x ∧ x + D < 65536 ∧ bs = pre ++ [x / 256, x % 256] ∧
            stmtBytes t' = some (pre ++ [(x + D) / 256, (x + D) % 256])) := by
    intro i s4 t t' hs4 ht ht'
    obtain ⟨s4', hs4', hsh⟩ := hshift.get hs4
    obtain ⟨u, t0, hfu, ht0, hlu⟩ := fA i s4 hs4
    obtain ⟨u', t0', hfu', ht0', hlu'⟩ := fB i s4' hs4'
    rw [ht] at ht0; cases ht0
    rw [ht'] at ht0'; cases ht0'
    rw [htt] at hlu'
    obtain ⟨s3, hs3, ⟨v, hv⟩, hkeep⟩ := kA.get' hs4
    obtain ⟨s3', hs3', ⟨v', hv'⟩, hkeep'⟩ := kB.get' hs4'
    obtain ⟨w, hw⟩ := fixFit_keeps hfu
    obtain ⟨w', hw'⟩ := fixFit_keeps hfu'
    obtain ⟨z, hz⟩ := evalList1_same hlu
    obtain ⟨z', hz'⟩ := evalList1_same hlu'
    have hT : AddrShiftAny D t t' := by rw [hz, hz', hw, hw']; exact ⟨hsh.1, hsh.2⟩
    refine ⟨hT, ?_⟩
    rcases h3.2 i s3 s3' hs3 hs3' with ⟨rfl, _, _⟩ | ⟨hin, hm, hn, hk, hk', hnum, hnum', n, _, ha, ha'⟩
    · have he : s4' = s4.setAddress s4'.pkg.address := by rw [hv, hv']; rfl
      constructor
      · intro hc hlc
        obtain ⟨e, _⟩ := reloc_bytes_unmoved' hshiftI he hc hfu hfu'
        have hau : u'.pkg.address = s4'.pkg.address := by rw [e]; rfl
        have e' : u' = u.setAddress u'.pkg.address := by rw [hau]; exact e
        have e2 := reloc_list_unmoved e' (fixFit_listsConst hss hfu hlc) hlu hlu'
        refine ⟨by rw [e2]; rfl, ?_⟩
        rw [e2, stmtBytes_setAddress]
      · intro hc
        have hfit : RefFitted s4 := stages_refFitted stA hs4
        have hmv := reloc_fixFit_moved_any' hshift he hc hfit (i := i)
        rw [hfu, hfu'] at hmv
        simp only [Outcome.map_ok, Outcome.ok.injEq] at hmv
        have hnu : u.pkg.additional.isNumeric = true := by
          obtain ⟨a, hh, m, e1, _⟩ := fixFit_moved_wide_any hshift i hc hfit hfu
          rw [e1]; rfl
        have hnu' : u'.pkg.additional.isNumeric = true := by rw [hmv]; exact shiftV_numeric' hnu
        rw [evalList1_numeric _ _ hnu] at hlu; cases hlu
        rw [evalList1_numeric _ _ hnu'] at hlu'; cases hlu'
        refine ⟨by rw [hmv]; rfl, ?_⟩
        intro bs hbs
        exact (reloc_bytes_moved_any' hshift he hc hfit hfu hfu' hbs).2
    · -- two ORG statements: untouched by assignAddrs and by fixOne
      have e4 : s4 = s3 := hkeep (by simp [Stmt.preset, ha, Value.isNone])
      have e4' : s4' = s3' := hkeep' (by simp [Stmt.preset, ha', Value.isNone])
      subst e4 e4'
      have hrow : s4.row ∈ Gen.instructions := by
        have := stA.row_mem ht
        rw [hz, hw] at this; exact this
      have hrow' : s4'.row ∈ Gen.instructions := by
        have := stB.row_mem ht'
        rw [hz', hw'] at this; exact this
      rw [fixFit_org _ _ hrow hm hk hnum hn] at hfu
      rw [fixFit_org _ _ hrow' (by rw [hin]; simpa using hm) hk' hnum' (by rw [hin]; simpa using hn)] at hfu'
      cases hfu; cases hfu'
      -- an ORG statement has no operand field: the list pass leaves it alone
      have hadd : s4.pkg.additional = .none := stages_org_additional stA hs4 ht hm hk
      have hadd' : s4'.pkg.additional = .none := by rw [hin]; simpa using hadd
      rw [evalList1_keep _ _ (by rw [hadd]; intro hs e; cases e) (by rw [hadd]; intro hs e; cases e)] at hlu
      rw [evalList1_keep _ _ (by rw [hadd']; intro hs e; cases e) (by rw [hadd']; intro hs e; cases e)] at hlu'
      cases hlu; cases hlu'
      have eadd : t'.pkg.additional = s4.pkg.additional := by rw [hin]; simp
      constructor
      · intro _ _
        refine ⟨eadd, ?_⟩
        unfold stmtBytes
        rw [eadd, show t'.pkg.opCode = s4.pkg.opCode by rw [hin]; simp,
          show t'.pkg.postByte = s4.pkg.postByte by rw [hin]; simp]
      · rintro (⟨_, _, hv, _⟩ | ⟨_, _, _, hn', _⟩)
        · exfalso
          rcases hv with ⟨tg, m, hv⟩ | ⟨l, r, op, m, k, hh, mm, nn, hv, _⟩ <;> rw [hv] at hnum <;> cases hnum
        · rw [hn] at hn'; cases hn'
  have hfinal : PW (AddrShiftAny D) A.stmts B.stmts := by
    refine ⟨by rw [lA, lB, hshift.1], ?_⟩
    intro i t t' ht ht'
    obtain ⟨s4, hs4, _⟩ := (fixAllL_pw stA.hfix).get' ht
    exact (key i s4 t t' hs4 ht ht').1
  refine ⟨ht, hshift, hfinal, fun i s4 t t' a b c => (key i s4 t t' a b c).2, ?_⟩
  intro j k v hj
  have hB := stB.heval
  rw [ht] at hB
  exact symtab_reloc_entry_any hshiftI (fixAllL_sameAddr stA.hfix) (fixAllL_sameAddr stB.hfix)
    hfinal stA.heval hB stA.hfinal stB.hfinal hj

/-- C18-R1 for parsed programs at any origin, the final symbol table entry by entry (the last conjunct of
`C18_R1_parsed_code_any`): a label's value moves by `D` as a number (`IntAddr`; the rendering — hence the printed form
`$F0` / `$01F0` — may differ across `$100`), an EQU that is not defined by a label expression stays, an EQU defined by a
label expression moves like that expression. -/
theorem C18_R1_parsed_equ_any {fs : Files} {la lb : List Str} {pa pb : List Stmt} {D : Nat} {A B : Assembly}
    (hpa : parseLines la = .ok pa) (hpb : parseLines lb = .ok pb) (hrel : PW (OrgRel D (OrgOkAny D)) pa pb)
    (hinc : ∀ s ∈ pa, s.row.isInclude = false)
    (hhead : ∃ s0 r0, pa = s0 :: r0 ∧ s0.row.mnemonic = "ORG")
    (stA : Stages fs la A) (stB : Stages fs lb B) :
    ∀ (j : Nat) (k : Str) (v : Value), stA.t[j]? = some (k, v) →
      ∃ x x', A.symtab[j]? = some (k, x) ∧ B.symtab[j]? = some (k, x') ∧ EquRelAny D stA.ss4 stA.t v x x' :=
  (C18_R1_parsed_code_any hpa hpb hrel hinc hhead stA stB).2.2.2.2

/-- C18-R1 for parsed programs at any origin, the third class (`MovedMod`): conclusions as in
`C18_R1_parsed_code_mod` -/
theorem C18_R1_parsed_code_mod_any {fs : Files} {la lb : List Str} {pa pb : List Stmt} {D : Nat} {A B : Assembly}
    (hpa : parseLines la = .ok pa) (hpb : parseLines lb = .ok pb) (hrel : PW (OrgRel D (OrgOkAny D)) pa pb)
    (hinc : ∀ s ∈ pa, s.row.isInclude = false)
    (hhead : ∃ s0 r0, pa = s0 :: r0 ∧ s0.row.mnemonic = "ORG")
    (stA : Stages fs la A) (stB : Stages fs lb B) :
    ∀ (i : Nat) (s4 t t' : Stmt), stA.ss4[i]? = some s4 → A.stmts[i]? = some t → B.stmts[i]? = some t' →
      MovedMod D stA.ss4 s4 → t'.pkg.additional = shiftVmod D t.pkg.additional ∧
        ∀ bs, stmtBytes t = some bs →
          ∃ pre x, t.pkg.additional.int? = some x ∧ x < 65536 ∧ bs = pre ++ [x / 256, x % 256] ∧
            stmtBytes t' = some (pre ++ [(x + D) % 65536 / 256, (x + D) % 65536 % 256]) := by
  intro i s4 t t' hs4 ht ht' hc
  have hshift := (C18_R1_parsed_code_any hpa hpb hrel hinc hhead stA stB).2.1
  have hshiftI : PW (AddrShiftI D) stA.ss4 stB.ss4 := hshift.mono (fun _ _ => AddrShiftAny.toI)
  obtain ⟨s4', hs4', _⟩ := hshift.get hs4
  obtain ⟨x5, _, _, fA⟩ := fixAllL_steps stA.hfix
  obtain ⟨x5', _, _, fB⟩ := fixAllL_steps stB.hfix
  obtain ⟨u, t0, hfu, ht0, hlu⟩ := fA i s4 hs4
  obtain ⟨u', t0', hfu', ht0', hlu'⟩ := fB i s4' hs4'
  rw [ht] at ht0; cases ht0
  rw [ht'] at ht0'; cases ht0'
  have hnum := hc.not_numeric
  have he := reloc_ss4_same hpa hpb hrel hinc stA stB hs4 hs4' hnum
  have hmv := reloc_fixFit_movedMod' hshiftI he hc (i := i)
  rw [hfu, hfu'] at hmv
  simp only [Outcome.map_ok, Outcome.ok.injEq] at hmv
  -- the field holds a number: the list pass leaves the statement alone
  have hnu : u.pkg.additional.isNumeric = true := by
    obtain ⟨x, _, e1, _⟩ := fixFit_movedMod_aux hshiftI i hc
    rw [e1] at hfu; cases hfu; rfl
  have hnu' : u'.pkg.additional.isNumeric = true := by rw [hmv]; exact shiftVmod_numeric hnu
  rw [evalList1_numeric _ _ hnu] at hlu; cases hlu
  rw [evalList1_numeric _ _ hnu'] at hlu'; cases hlu'
  constructor
  · rw [hmv]; rfl
  · intro bs hbs
    exact (reloc_bytes_movedMod' hshiftI he hc hfu hfu' hbs).2

/-- C18-R1 for parsed programs at any origin, the fourth class (`MovedNeg`): conclusions as in
`C18_R1_parsed_code_neg` -/
theorem C18_R1_parsed_code_neg_any {fs : Files} {la lb : List Str} {pa pb : List Stmt} {D : Nat} {A B : Assembly}
    (hpa : parseLines la = .ok pa) (hpb : parseLines lb = .ok pb) (hrel : PW (OrgRel D (OrgOkAny D)) pa pb)
    (hinc : ∀ s ∈ pa, s.row.isInclude = false)
    (hhead : ∃ s0 r0, pa = s0 :: r0 ∧ s0.row.mnemonic = "ORG")
    (stA : Stages fs la A) (stB : Stages fs lb B) :
    ∀ (i : Nat) (s4 t t' : Stmt), stA.ss4[i]? = some s4 → A.stmts[i]? = some t → B.stmts[i]? = some t' →
      MovedNeg stA.ss4 s4 → t'.pkg.additional = shiftVneg D t.pkg.additional ∧
        ∀ bs, stmtBytes t = some bs →
          ∃ pre x y, t.pkg.additional.int? = some x ∧ x < 65536 ∧ y < 65536 ∧ (y + D) % 65536 = x ∧
            bs = pre ++ [x / 256, x % 256] ∧ stmtBytes t' = some (pre ++ [y / 256, y % 256]) := by
  intro i s4 t t' hs4 ht ht' hc
  have hshift := (C18_R1_parsed_code_any hpa hpb hrel hinc hhead stA stB).2.1
  have hshiftI : PW (AddrShiftI D) stA.ss4 stB.ss4 := hshift.mono (fun _ _ => AddrShiftAny.toI)
  obtain ⟨s4', hs4', _⟩ := hshift.get hs4
  obtain ⟨x5, _, _, fA⟩ := fixAllL_steps stA.hfix
  obtain ⟨x5', _, _, fB⟩ := fixAllL_steps stB.hfix
  obtain ⟨u, t0, hfu, ht0, hlu⟩ := fA i s4 hs4
  obtain ⟨u', t0', hfu', ht0', hlu'⟩ := fB i s4' hs4'
  rw [ht] at ht0; cases ht0
  rw [ht'] at ht0'; cases ht0'
  have he := reloc_ss4_same hpa hpb hrel hinc stA stB hs4 hs4' hc.not_numeric
  have hmv := reloc_fixFit_movedNeg' hshiftI he hc (i := i)
  rw [hfu, hfu'] at hmv
  simp only [Outcome.map_ok, Outcome.ok.injEq] at hmv
  -- the field holds a number: the list pass leaves the statement alone
  have hnu : u.pkg.additional.isNumeric = true := by
    obtain ⟨x, _, e1, _⟩ := fixFit_movedNeg_aux (D := D) hshiftI i hc
    rw [e1] at hfu; cases hfu; rfl
  have hnu' : u'.pkg.additional.isNumeric = true := by rw [hmv]; exact shiftVneg_numeric hnu
  rw [evalList1_numeric _ _ hnu] at hlu; cases hlu
  rw [evalList1_numeric _ _ hnu'] at hlu'; cases hlu'
  constructor
  · rw [hmv]; rfl
  · intro bs hbs
    exact (reloc_bytes_movedNeg' hshiftI he hc hfu hfu' hbs).2

/-- for an accepted program the four classes of `reloc_fixAll_neg` are the four classes of `reloc_fixAll_any`
(`CoveredAny`): `RefFitted` comes for free -/
theorem coveredAny_of_stages {fs : Files} {lines : List Str} {A : Assembly} {D : Nat} (st : Stages fs lines A)
    {i : Nat} {s : Stmt} (hs : st.ss4[i]? = some s)
    (hc : Unmoved D st.ss4 s ∨ Moved D st.ss4 s ∨ MovedMod D st.ss4 s ∨ MovedNeg st.ss4 s) :
    CoveredAny D st.ss4 s := by
  rcases hc with hc | hc | hc | hc
  · exact .inl hc
  · exact .inr (.inl ⟨hc, stages_refFitted st hs⟩)
  · exact .inr (.inr (.inl hc))
  · exact .inr (.inr (.inr hc))

end CoCo.Props
